// Harness for C14: interprets graph / observer scripts against
//   Bpp/Graph/GlobalGraph.{h,cpp} and Bpp/Graph/AssociationGraphImplObserver.h.
//
// The raw private tables (node table, edge table, counters, the observer's eight
// maps) are read through an explicit specialisation of AssociationGraphImplObserver:
// both GlobalGraph and every AssociationGraphImplObserver<N,E,G> declare *all*
// specialisations of that template as friends, so no hook in the library is needed.
// The protected members link / unlink / switchNodes / setRoot (the ones the tree and
// DAG classes and the observer call) are reached the same way.
//
// After every operation the harness prints   <result> ; <full canonical state>.
//
// Object identity.  Every observer slot k has its own pool of node / edge objects, named by a
// label 0..POOL-1 (`o.link k a b x` hands the pool-k objects a, b, x to observer k).  Wherever an
// object is reported - in the dump of the eight private maps and in every query answer - the
// harness prints the label of the object *actually stored / returned*, compared by pointer with
// the pools:  `l`  = the pool-k object with label l (k = the observer being dumped / queried),
// `l@j` = the object with label l of another observer's pool j,  `l@?` = an object with label l
// that is in no pool.  After a copy (copy constructor, clone(), converting constructor,
// operator=) the pool of the target slot is rebuilt from the keys of the copy's object->id maps,
// but never with an object that belongs to another pool: an aliased object shows as `l@j`.
// Operations whose C++ behaviour would be undefined (copies of an observer whose ids exceed its vectors)
// are NOT executed: the harness evaluates the precondition on the raw state and
// answers `ub` (the model has a distinct `ub` outcome; both must agree on when).
#include "common.h"
#include <Bpp/Graph/GlobalGraph.h>
#include <Bpp/Graph/AssociationGraphImplObserver.h>
#include <Bpp/Exceptions.h>
#include <memory>
#include <map>
#include <set>
#include <algorithm>

namespace verif { struct PeekTag {}; }

namespace bpp {
template<> class AssociationGraphImplObserver<verif::PeekTag, verif::PeekTag, verif::PeekTag>
{
public:
  typedef GlobalGraph GG;
  static GG::nodeStructureType& nodes(GG& g) { return g.nodeStructure_; }
  static GG::edgeStructureType& edges(GG& g) { return g.edgeStructure_; }
  static bool directed(GG& g) { return g.directed_; }
  static unsigned hN(GG& g) { return g.highestNodeID_; }
  static unsigned hE(GG& g) { return g.highestEdgeID_; }
  static unsigned root(GG& g) { return g.root_; }
  static size_t nObservers(GG& g) { return g.observers_.size(); }
  static unsigned link(GG& g, unsigned a, unsigned b) { return g.link(a, b); }
  static void linkE(GG& g, unsigned a, unsigned b, unsigned e) { g.link(a, b, e); }
  static std::vector<unsigned> unlink(GG& g, unsigned a, unsigned b) { return g.unlink(a, b); }
  static void switchNodes(GG& g, unsigned a, unsigned b) { g.switchNodes(a, b); }
  static void setRoot(GG& g, unsigned a) { g.setRoot(a); }
  template<class O> static decltype(O::graphidToN_)& gN(O& o) { return o.graphidToN_; }
  template<class O> static decltype(O::graphidToE_)& gE(O& o) { return o.graphidToE_; }
  template<class O> static decltype(O::NToGraphid_)& Ng(O& o) { return o.NToGraphid_; }
  template<class O> static decltype(O::EToGraphid_)& Eg(O& o) { return o.EToGraphid_; }
  template<class O> static decltype(O::indexToN_)& iN(O& o) { return o.indexToN_; }
  template<class O> static decltype(O::indexToE_)& iE(O& o) { return o.indexToE_; }
  template<class O> static decltype(O::NToIndex_)& Ni(O& o) { return o.NToIndex_; }
  template<class O> static decltype(O::EToIndex_)& Ei(O& o) { return o.EToIndex_; }
};
}

using namespace bpp; using namespace verif;
typedef AssociationGraphImplObserver<PeekTag, PeekTag, PeekTag> Peek;

struct NObj2; struct EObj2;
struct NObj { int label; explicit NObj(int l) : label(l) {} NObj(const NObj&) = default; explicit NObj(const NObj2& o); };
struct EObj { int label; explicit EObj(int l) : label(l) {} EObj(const EObj&) = default; explicit EObj(const EObj2& o); };
// a second pair of object types, for the converting copy constructor <N2, E2>
struct NObj2 { int label; explicit NObj2(const NObj& o) : label(o.label) {} };
struct EObj2 { int label; explicit EObj2(const EObj& o) : label(o.label) {} };
NObj::NObj(const NObj2& o) : label(o.label) {}
EObj::EObj(const EObj2& o) : label(o.label) {}
typedef AssociationGlobalGraphObserver<NObj, EObj> Obs;
typedef AssociationGlobalGraphObserver<NObj2, EObj2> Obs2;
typedef std::shared_ptr<NObj> NP;
typedef std::shared_ptr<EObj> EP;

static std::string U(unsigned long v) { return std::to_string(v); }
template<class V> static std::string list(const V& v) {
  std::string s; for (auto x : v) { s += U(x); s += " "; } return s;
}

struct M {
  // up to 3 observers; observer 0 owns the graph the script works on, the others are copies
  static const int NOBS = 3, POOL = 12;
  std::unique_ptr<Obs> obs[NOBS];
  NP np[NOBS][POOL]; EP ep[NOBS][POOL];
  std::shared_ptr<GlobalGraph> g;

  explicit M(bool directed) {
    obs[0].reset(new Obs(directed));
    g = obs[0]->getGraph();
    for (int k = 0; k < NOBS; ++k) for (int i = 0; i < POOL; ++i) { np[k][i].reset(new NObj(i)); ep[k][i].reset(new EObj(i)); }
  }

  // ---------------------------------------------------------------- state dump
  static std::string row(const std::map<unsigned, unsigned>& m) {
    std::string s; for (auto& kv : m) s += U(kv.first) + ":" + U(kv.second) + " "; return s;
  }
  // which pool owns the object (by pointer); -1 = none
  int ownerOf(const NP& p) const { int l = p->label; if (l < 0 || l >= POOL) return -1; for (int j = 0; j < NOBS; ++j) if (np[j][l] == p) return j; return -1; }
  int ownerOf(const EP& p) const { int l = p->label; if (l < 0 || l >= POOL) return -1; for (int j = 0; j < NOBS; ++j) if (ep[j][l] == p) return j; return -1; }
  // the label of the object actually held, seen from observer k: `l`, `l@j`, `l@?`, `-` (null)
  template<class P> std::string lab(int k, const P& p) const {
    if (!p) return "-";
    int j = ownerOf(p);
    std::string s = U((unsigned long)p->label);
    if (j == k) return s;
    return s + "@" + (j < 0 ? std::string("?") : U((unsigned long)j));
  }
  template<class Vec> std::string vec(int k, const Vec& v) const { std::string s; for (auto& p : v) s += lab(k, p) + " "; return s; }
  template<class Map> std::string mp(int k, const Map& m) const {
    // keyed by pointer: print sorted by (label, owner, value)
    std::vector<std::pair<std::pair<long, std::string>, unsigned>> v;
    for (auto& kv : m) v.push_back(std::make_pair(std::make_pair(kv.first ? (long)kv.first->label : -1L, lab(k, kv.first)), kv.second));
    std::sort(v.begin(), v.end());
    std::string s; for (auto& x : v) s += x.first.second + ":" + U(x.second) + " ";
    return s;
  }
  std::string state() {
    std::string s = dump(*g);
    for (int k = 0; k < NOBS; ++k) if (obs[k]) {
      Obs& o = *obs[k];
      s += "X " + U(k) + " gN " + vec(k, Peek::gN(o)) + "gE " + vec(k, Peek::gE(o)) + "Ng " + mp(k, Peek::Ng(o)) + "Eg " + mp(k, Peek::Eg(o))
        + "iN " + vec(k, Peek::iN(o)) + "iE " + vec(k, Peek::iE(o)) + "Ni " + mp(k, Peek::Ni(o)) + "Ei " + mp(k, Peek::Ei(o));
    }
    return s;
  }

  // ---------------------------------------------------------------- helpers
  bool hasN(unsigned n) { return Peek::nodes(*g).count(n) != 0; }
  bool hasOut(unsigned a, unsigned b) { auto& t = Peek::nodes(*g); auto it = t.find(a); return it != t.end() && it->second.first.count(b); }
  bool hasIn(unsigned b, unsigned a) { auto& t = Peek::nodes(*g); auto it = t.find(b); return it != t.end() && it->second.second.count(a); }

  template<class It> static std::string iter(std::unique_ptr<It> it) {
    std::string s; for (it->start(); !it->end(); it->next()) s += U(**it) + " "; return s;
  }
  static std::string B(bool b) { return b ? "1" : "0"; }
  // one query, with its own exception mapping, so that a combined answer line shows every part
  static std::string q(std::function<std::string()> f) {
    try { return f(); } catch (Exception&) { return "exc:bpp "; } catch (std::exception&) { return "exc:std "; }
  }

  // a mutator of GlobalGraph, on graph G; t[off] is the operation.  "" = not a mutator.
  std::string dump(GlobalGraph& G) {
    std::string s = std::string("G ") + (Peek::directed(G) ? "D " : "U ") + U(Peek::hN(G)) + " " + U(Peek::hE(G)) + " " + U(Peek::root(G)) + " ";
    for (auto& r : Peek::nodes(G)) s += "N " + U(r.first) + " O " + row(r.second.first) + "I " + row(r.second.second);
    s += "E ";
    for (auto& e : Peek::edges(G)) s += U(e.first) + ":" + U(e.second.first) + ":" + U(e.second.second) + " ";
    return s;
  }
  static std::string mutate(GlobalGraph& G, const Toks& t, size_t off) {
    const std::string& o = t[off];
    auto a = [&](size_t i) { return (unsigned)toU(t[off + i]); };
    if (o == "createNode") return U(G.createNode());
    if (o == "createNodeFromNode") return U(G.createNodeFromNode(a(1)));
    if (o == "createNodeOnEdge") return U(G.createNodeOnEdge(a(1)));
    if (o == "createNodeFromEdge") return U(G.createNodeFromEdge(a(1)));
    if (o == "link") return U(Peek::link(G, a(1), a(2)));
    if (o == "linkE") { Peek::linkE(G, a(1), a(2), a(3)); return "ok"; }
    if (o == "unlink") return list(Peek::unlink(G, a(1), a(2)));
    if (o == "switchNodes") { Peek::switchNodes(G, a(1), a(2)); return "ok"; }
    if (o == "deleteNode") { G.deleteNode(a(1)); return "ok"; }
    if (o == "makeDirected") { G.makeDirected(); return "ok"; }
    if (o == "makeUndirected") { G.makeUndirected(); return "ok"; }
    if (o == "setRoot") { Peek::setRoot(G, a(1)); return "ok"; }
    if (o == "orientate") { G.orientate(); return "ok"; }
    return "";
  }

  std::string graphOp(const Toks& t) {
    GlobalGraph& G = *g;
    const std::string& o = t[0];
    { std::string r = mutate(G, t, 0); if (!r.empty()) return r; }
    if (o == "gcopy") {
      // a copy of the graph (copy constructor / operator= / clone()) is a graph of its own: a mutator
      // called on the copy changes neither the original nor the observers of the original
      std::unique_ptr<GlobalGraph> cp;
      if (t[1] == "ctor") cp.reset(new GlobalGraph(G));
      else if (t[1] == "clone") cp.reset(G.clone());
      else { cp.reset(new GlobalGraph(!Peek::directed(G))); cp->createNode(); *cp = G; }
      std::string r;
      try { r = mutate(*cp, t, 2); } catch (Exception&) { r = "exc:bpp"; }
      return r + " reg " + U(Peek::nObservers(*cp)) + " copy " + dump(*cp);
    }
    if (o == "gassign") {
      // operator= ONTO the observed graph: its content is replaced by a path of n nodes of the other
      // directedness; its observers stay registered and are told that everything they knew is gone
      GlobalGraph H(!Peek::directed(G));
      unsigned n = (unsigned)toU(t[1]);
      for (unsigned i = 0; i < n; ++i) H.createNode();
      for (unsigned i = 0; i + 1 < n; ++i) Peek::link(H, i, i + 1);
      size_t reg = Peek::nObservers(G);
      G = H;
      G = *g;   // self-assignment changes nothing
      return std::string("ok reg ") + U(Peek::nObservers(G) - reg);
    }
    // the notifications are public members: every observer forgets the named edges / nodes
    if (o == "notifyE") { G.notifyDeletedEdges(std::vector<unsigned>{(unsigned)toU(t[1]), (unsigned)toU(t[2])}); return "ok"; }
    if (o == "notifyN") { G.notifyDeletedNodes(std::vector<unsigned>{(unsigned)toU(t[1]), (unsigned)toU(t[2])}); return "ok"; }
    // ---- queries
    const GlobalGraph& C = G;
    if (o == "qn") {  // everything about one node
      unsigned n = toU(t[1]);
      std::string s;
      s += "on " + q([&] { return list(C.getOutgoingNeighbors(n)); });
      s += "oe " + q([&] { return list(C.getOutgoingEdges(n)); });
      s += "in " + q([&] { return list(C.getIncomingNeighbors(n)); });
      s += "ie " + q([&] { return list(C.getIncomingEdges(n)); });
      s += "nb " + q([&] { return list(C.getNeighbors(n)); });
      s += "ed " + q([&] { return list(C.getEdges(n)); });
      s += "dg " + q([&] { return U(C.getDegree(n)) + " "; });
      s += "lf " + q([&] { return B(C.isLeaf(n)) + " "; });
      s += "cn " + q([&] { return U(C.getNumberOfNeighbors(n)) + " " + U(C.getNumberOfOutgoingNeighbors(n)) + " " + U(C.getNumberOfIncomingNeighbors(n)) + " "; });
      // the eight per-node iterator factories, each really called (on an absent node each must raise)
      s += "it " + q([&] { return iter(C.outgoingNeighborNodesIterator(n)); }) + "/ " + q([&] { return iter(C.incomingNeighborNodesIterator(n)); }) + "/ "
        + q([&] { return iter(C.outgoingEdgesIterator(n)); }) + "/ " + q([&] { return iter(C.incomingEdgesIterator(n)); }) + "/ "
        + q([&] { return iter(G.outgoingNeighborNodesIterator(n)); }) + "/ " + q([&] { return iter(G.incomingNeighborNodesIterator(n)); }) + "/ "
        + q([&] { return iter(G.outgoingEdgesIterator(n)); }) + "/ " + q([&] { return iter(G.incomingEdgesIterator(n)); });
      return s;
    }
    if (o == "qe") {  // one edge
      unsigned e = toU(t[1]);
      return "nodes " + q([&] { auto p = C.getNodes(e); return U(p.first) + " " + U(p.second) + " "; })
        + "top " + q([&] { return U(C.getTop(e)) + " "; }) + "bot " + q([&] { return U(C.getBottom(e)) + " "; });
    }
    if (o == "qp") {  // a pair of nodes
      unsigned a = toU(t[1]), b = toU(t[2]);
      return "edge " + q([&] { return U(C.getEdge(a, b)) + " "; }) + "any " + q([&] { return U(C.getAnyEdge(a, b)) + " "; });
    }
    if (o == "qg") {  // global lists, counts, iterators
      std::string s;
      s += "nodes " + list(C.getAllNodes()) + "edges " + list(C.getAllEdges());
      s += "leaves " + list(C.getAllLeaves()) + "lset " + list(C.getSetOfAllLeaves()) + "inner " + list(C.getAllInnerNodes());
      s += "cnt " + U(C.getNumberOfNodes()) + " " + U(C.getNumberOfEdges()) + " ";
      s += "itn " + iter(C.allNodesIterator()) + "/ " + iter(G.allNodesIterator()) + "ite " + iter(C.allEdgesIterator()) + "/ " + iter(G.allEdgesIterator());
      s += "dir " + B(C.isDirected()) + " rec " + q([&] { return B(C.containsReciprocalRelations()) + " "; }) + "root " + U(C.getRoot());
      return s;
    }
    if (o == "leavesFrom") return "l " + list(C.getLeavesFromNode(toU(t[1]), (unsigned)toU(t[2])));
    return "bad-op";
  }

  // ---------------------------------------------------------------- observer level
  static int lbl(const std::string& s) { return s == "-" ? -1 : (int)toI(s); }
  NP N(int k, int l) { return l < 0 ? NP() : np[k][l]; }
  EP E(int k, int l) { return l < 0 ? EP() : ep[k][l]; }
  int curK = 0;   // the observer whose answers are being printed (labels are relative to its pool)
  template<class P> std::string lab1(const P& p) const { return lab(curK, p); }
  template<class V> std::string labs(const V& v) const { std::string s; for (auto& p : v) s += lab1(p) + " "; return s; }
  template<class It> std::string oiter(std::unique_ptr<It> it) const {
    std::string s; for (it->start(); !it->end(); it->next()) s += lab1(**it) + " "; return s;
  }
  // would a per-node iterator of observer o on object a dereference find()==end() ?
  bool staleGid(Obs& o, const NP& a) { auto& m = Peek::Ng(o); auto it = m.find(a); return it != m.end() && !hasN(it->second); }

  // vector operator[] with an id / index beyond the size would be undefined behaviour in the copy loops
  bool copyUndefined(Obs& src) {
    for (auto& kv : Peek::Ng(src)) if (kv.second >= Peek::gN(src).size()) return true;
    for (auto& kv : Peek::Eg(src)) if (kv.second >= Peek::gE(src).size()) return true;
    for (auto& kv : Peek::Ni(src)) if (Peek::Ng(src).count(kv.first) && kv.second >= Peek::iN(src).size()) return true;
    for (auto& kv : Peek::Ei(src)) if (Peek::Eg(src).count(kv.first) && kv.second >= Peek::iE(src).size()) return true;
    return false;
  }
  void freshPool(int k) { for (int i = 0; i < POOL; ++i) { np[k][i].reset(new NObj(i)); ep[k][i].reset(new EObj(i)); } }
  // observer k has just been (re)built as a copy of observer j: it owns new objects.  Rebuild the pool
  // of slot k from the keys of its object->id maps - but an object that already belongs to a pool
  // (the source's, say) is not adopted: it will be reported as `l@j`.
  std::string adopt(int j, int k) {
    bool indep = true, shared = obs[k]->getGraph().get() == g.get();
    freshPool(k);
    for (auto& kv : Peek::Ng(*obs[k])) { if (!kv.first) continue; int l = kv.first->label; if (kv.first == np[j][l]) indep = false; if (ownerOf(kv.first) < 0 && l >= 0 && l < POOL) np[k][l] = kv.first; }
    for (auto& kv : Peek::Eg(*obs[k])) { if (!kv.first) continue; int l = kv.first->label; if (kv.first == ep[j][l]) indep = false; if (ownerOf(kv.first) < 0 && l >= 0 && l < POOL) ep[k][l] = kv.first; }
    return std::string("ok indep ") + B(indep) + " shared " + B(shared) + " reg " + U(Peek::nObservers(*g));
  }

  std::string obsOp(const Toks& t) {
    const std::string& op = t[0];
    int k = (int)toI(t[1]);
    if (op == "o.copy" || op == "o.clone" || op == "o.copyvia") {
      int j = k; k = (int)toI(t[2]);
      if (j < 0 || j >= NOBS || k < 0 || k >= NOBS || !obs[j] || j == k) return "ub";
      if (copyUndefined(*obs[j])) return "ub";
      obs[k].reset();
      if (op == "o.copy") obs[k].reset(new Obs(*obs[j]));
      else if (op == "o.clone") obs[k].reset(obs[j]->clone());
      else { Obs2 via(*obs[j]); obs[k].reset(new Obs(via)); }   // the converting constructor, there and back
      return adopt(j, k);
    }
    if (op == "o.assign") {
      int j = k; k = (int)toI(t[2]);
      if (j < 0 || j >= NOBS || k < 0 || k >= NOBS || !obs[j] || !obs[k]) return "ub";
      if (j != k && copyUndefined(*obs[j])) return "ub";
      *obs[k] = *obs[j];
      if (j == k) return std::string("ok self reg ") + U(Peek::nObservers(*g));
      return adopt(j, k);
    }
    if (op == "o.assignx") {
      // operator= into an observer of ANOTHER graph: T is built on a graph of its own (two nodes, an
      // indexed edge object), then T = *obs[j].  T must leave its former graph, observe g, and hold
      // fresh objects with the relations of obs[j]; destroying T must unregister it from g.
      int j = k;
      if (j < 0 || j >= NOBS || !obs[j]) return "ub";
      if (copyUndefined(*obs[j])) return "ub";
      size_t before = Peek::nObservers(*g);
      std::string r;
      {
        Obs T(!Peek::directed(*g));
        std::shared_ptr<GlobalGraph> old = T.getGraph();
        NP a(new NObj(0)), b(new NObj(1)); EP e(new EObj(2));
        T.createNode(a); T.createNode(a, b, e); T.addNodeIndex(b); T.setEdgeIndex(e, 4);
        T = *obs[j];
        Obs& S = *obs[j];
        bool same = Peek::gN(T).size() == Peek::gN(S).size() && Peek::gE(T).size() == Peek::gE(S).size()
          && Peek::iN(T).size() == Peek::iN(S).size() && Peek::iE(T).size() == Peek::iE(S).size()
          && Peek::Ng(T).size() == Peek::Ng(S).size() && Peek::Eg(T).size() == Peek::Eg(S).size();
        bool indep = true;
        auto cmpV = [&](const std::vector<NP>& x, const std::vector<NP>& y) { for (size_t i = 0; i < x.size() && i < y.size(); ++i) { if (bool(x[i]) != bool(y[i])) same = false; else if (x[i]) { if (x[i]->label != y[i]->label) same = false; if (x[i] == y[i]) indep = false; } } };
        auto cmpE = [&](const std::vector<EP>& x, const std::vector<EP>& y) { for (size_t i = 0; i < x.size() && i < y.size(); ++i) { if (bool(x[i]) != bool(y[i])) same = false; else if (x[i]) { if (x[i]->label != y[i]->label) same = false; if (x[i] == y[i]) indep = false; } } };
        cmpV(Peek::gN(T), Peek::gN(S)); cmpE(Peek::gE(T), Peek::gE(S));
        // index -> object restricted to registered objects
        for (size_t i = 0; i < Peek::iN(T).size() && i < Peek::iN(S).size(); ++i) { NP y = Peek::iN(S)[i]; if (y && !Peek::Ng(S).count(y)) y.reset(); NP x = Peek::iN(T)[i]; if (bool(x) != bool(y) || (x && (x->label != y->label || x == y))) same = false; }
        for (size_t i = 0; i < Peek::iE(T).size() && i < Peek::iE(S).size(); ++i) { EP y = Peek::iE(S)[i]; if (y && !Peek::Eg(S).count(y)) y.reset(); EP x = Peek::iE(T)[i]; if (bool(x) != bool(y) || (x && (x->label != y->label || x == y))) same = false; }
        // the maps of T are inverse of its vectors (by pointer)
        for (auto& kv : Peek::Ng(T)) if (kv.second >= Peek::gN(T).size() || Peek::gN(T)[kv.second] != kv.first) same = false;
        for (auto& kv : Peek::Eg(T)) if (kv.second >= Peek::gE(T).size() || Peek::gE(T)[kv.second] != kv.first) same = false;
        for (auto& kv : Peek::Ni(T)) if (kv.second >= Peek::iN(T).size() || Peek::iN(T)[kv.second] != kv.first || !Peek::Ng(T).count(kv.first)) same = false;
        for (auto& kv : Peek::Ei(T)) if (kv.second >= Peek::iE(T).size() || Peek::iE(T)[kv.second] != kv.first || !Peek::Eg(T).count(kv.first)) same = false;
        size_t nIdxN = 0, nIdxE = 0;
        for (auto& p : Peek::iN(T)) if (p) ++nIdxN;
        for (auto& p : Peek::iE(T)) if (p) ++nIdxE;
        if (nIdxN != Peek::Ni(T).size() || nIdxE != Peek::Ei(T).size()) same = false;
        r = std::string("ok shared ") + B(T.getGraph().get() == g.get()) + " oldreg " + U(Peek::nObservers(*old))
          + " reg " + U(Peek::nObservers(*g) - before) + " same " + B(same) + " indep " + B(indep);
      }
      return r + " after " + U(Peek::nObservers(*g) - before);
    }
    if (op == "o.attach") {   // a new observer constructed on the existing graph
      if (k <= 0 || k >= NOBS || obs[k]) return "ub";
      obs[k].reset(new Obs(g));
      freshPool(k);
      return std::string("ok reg ") + U(Peek::nObservers(*g));
    }
    if (k < 0 || k >= NOBS || !obs[k]) return "ub";
    Obs& o = *obs[k];
    const Obs& c = o;
    curK = k;
    if (op == "o.drop") { if (k == 0) return "ub"; obs[k].reset(); return std::string("ok reg ") + U(Peek::nObservers(*g)); }
    if (op == "o.createNode") { o.createNode(N(k, lbl(t[2]))); return "ok"; }
    if (op == "o.createNodeFrom") { o.createNode(N(k, lbl(t[2])), N(k, lbl(t[3])), E(k, lbl(t[4]))); return "ok"; }
    if (op == "o.link") { o.link(N(k, lbl(t[2])), N(k, lbl(t[3])), E(k, lbl(t[4]))); return "ok"; }
    if (op == "o.unlink") { o.unlink(N(k, lbl(t[2])), N(k, lbl(t[3]))); return "ok"; }
    if (op == "o.deleteNode") { o.deleteNode(N(k, lbl(t[2]))); return "ok"; }
    if (op == "o.associateNode") { o.associateNode(N(k, lbl(t[2])), (unsigned)toU(t[3])); return "ok"; }
    if (op == "o.associateEdge") { o.associateEdge(E(k, lbl(t[2])), (unsigned)toU(t[3])); return "ok"; }
    if (op == "o.dissociateNode") { o.dissociateNode(N(k, lbl(t[2]))); return "ok"; }
    if (op == "o.dissociateEdge") { o.dissociateEdge(E(k, lbl(t[2]))); return "ok"; }
    if (op == "o.setNodeIndex") return U(o.setNodeIndex(N(k, lbl(t[2])), (unsigned)toU(t[3])));
    if (op == "o.addNodeIndex") return U(o.addNodeIndex(N(k, lbl(t[2]))));
    if (op == "o.setEdgeIndex") return U(o.setEdgeIndex(E(k, lbl(t[2])), (unsigned)toU(t[3])));
    if (op == "o.addEdgeIndex") return U(o.addEdgeIndex(E(k, lbl(t[2]))));
    if (op == "o.setEdgeLinking") { o.setEdgeLinking(N(k, lbl(t[2])), N(k, lbl(t[3])), E(k, lbl(t[4]))); return "ok"; }
    if (op == "o.setRoot") { o.setRoot(N(k, lbl(t[2]))); return "ok"; }
    if (op == "o.rereg") {   // a second registration of the same observer must be refused
      std::string r;
      try { g->registerObserver(&o); r = "ok"; } catch (Exception&) { r = "exc:bpp"; }
      return r + " reg " + U(Peek::nObservers(*g));
    }
    // ---- queries
    if (op == "o.qn") {
      NP a = N(k, lbl(t[2]));
      std::string s;
      s += "has " + B(c.hasNode(a)) + " gid " + q([&] { return U(c.getNodeGraphid(a)) + " "; });
      s += "idx " + B(c.hasNodeIndex(a)) + " " + q([&] { return U(c.getNodeIndex(a)) + " "; });
      s += "on " + q([&] { return labs(c.getOutgoingNeighbors(a)); }) + "in " + q([&] { return labs(c.getIncomingNeighbors(a)); });
      s += "nb " + q([&] { return labs(c.getNeighbors(a)); });
      s += "oe " + q([&] { return labs(c.getOutgoingEdges(a)); }) + "ie " + q([&] { return labs(c.getIncomingEdges(a)); });
      s += "ed " + q([&] { return labs(c.getEdges(a)); });
      s += "dg " + q([&] { return U(c.getDegree(a)) + " "; }) + "lf " + q([&] { return B(c.isLeaf(a)) + " "; });
      // each of the eight iterators really constructed (unknown object, or an id that is not in the graph: must raise)
      s += "it " + q([&] { return oiter(c.outgoingNeighborNodesIterator(a)); }) + "/ " + q([&] { return oiter(c.incomingNeighborNodesIterator(a)); }) + "/ "
        + q([&] { return oiter(c.outgoingEdgesIterator(a)); }) + "/ " + q([&] { return oiter(c.incomingEdgesIterator(a)); }) + "/ "
        + q([&] { return oiter(o.outgoingNeighborNodesIterator(a)); }) + "/ " + q([&] { return oiter(o.incomingNeighborNodesIterator(a)); }) + "/ "
        + q([&] { return oiter(o.outgoingEdgesIterator(a)); }) + "/ " + q([&] { return oiter(o.incomingEdgesIterator(a)); });
      return s;
    }
    if (op == "o.qe") {
      EP e = E(k, lbl(t[2]));
      return "has " + B(c.hasEdge(e)) + " gid " + q([&] { return U(c.getEdgeGraphid(e)) + " "; })
        + "idx " + B(c.hasEdgeIndex(e)) + " " + q([&] { return U(c.getEdgeIndex(e)) + " "; })
        + "nodes " + q([&] { auto p = c.getNodes(e); return lab1(p.first) + " " + lab1(p.second) + " "; });
    }
    if (op == "o.qp") {
      NP a = N(k, lbl(t[2])), b = N(k, lbl(t[3]));
      return "linking " + q([&] { return lab1(c.getEdgeLinking(a, b)) + " "; });
    }
    if (op == "o.qid") {   // graph id -> object, const and non-const
      unsigned id = (unsigned)toU(t[2]);
      return "n " + lab1(c.getNodeFromGraphid(id)) + " " + lab1(o.getNodeFromGraphid(id)) + " e " + lab1(c.getEdgeFromGraphid(id)) + " " + lab1(o.getEdgeFromGraphid(id))
        + " ns " + labs(c.getNodesFromGraphid(std::vector<unsigned>{id, id + 1, 0})) + "es " + labs(c.getEdgesFromGraphid(std::vector<unsigned>{id, id + 1, 0}));
    }
    if (op == "o.leavesFrom") {
      NP a = N(k, lbl(t[2]));
      return "l " + labs(c.getLeavesFromNode(a, (unsigned)toU(t[3])));
    }
    if (op == "o.qg") {
      std::string s;
      s += "nodes " + labs(c.getAllNodes()) + "edges " + labs(c.getAllEdges());
      s += "leaves " + q([&] { return labs(c.getAllLeaves()); }) + "inner " + q([&] { return labs(c.getAllInnerNodes()); });
      s += "cnt " + U(c.getNumberOfNodes()) + " " + U(c.getNumberOfEdges()) + " " + q([&] { return U(c.getNumberOfLeaves()) + " "; });
      s += "itn " + oiter(c.allNodesIterator()) + "/ " + oiter(o.allNodesIterator()) + "ite " + oiter(c.allEdgesIterator()) + "/ " + oiter(o.allEdgesIterator());
      s += "nidx " + q([&] { return list(c.getAllNodesIndexes()); }) + "eidx " + q([&] { return list(c.getAllEdgesIndexes()); });
      s += "lidx " + q([&] { return list(c.getAllLeavesIndexes()); }) + "iidx " + q([&] { return list(c.getAllInnerNodesIndexes()); });
      s += "root " + lab1(c.getRoot()) + " ri " + q([&] { return U(c.getRootIndex()) + " "; });
      return s;
    }
    if (op == "o.qi") {
      unsigned i = (unsigned)toU(t[2]);
      std::string s;
      s += "hn " + B(c.hasNode(i)) + " n " + q([&] { return lab1(c.getNode(i)) + " "; });
      s += "he " + B(c.hasEdge(i)) + " e " + q([&] { return lab1(c.getEdge(i)) + " "; });
      s += "oni " + q([&] { return list(c.getOutgoingNeighbors(i)); }) + "ini " + q([&] { return list(c.getIncomingNeighbors(i)); });
      s += "oei " + q([&] { return list(c.getOutgoingEdges(i)); }) + "lfi " + q([&] { return B(c.isLeaf(i)) + " "; });
      s += "nbi " + q([&] { return list(c.getNeighbors(i)); }) + "edi " + q([&] { return list(c.getEdges(i)); });
      s += "iei " + q([&] { return list(c.getIncomingEdges(i)); });
      return s;
    }
    return "bad-op";
  }

  std::string op(const Toks& t) {
    std::string r;
    try { r = t[0].compare(0, 2, "o.") == 0 ? obsOp(t) : graphOp(t); }
    catch (Exception&) { r = "exc:bpp"; }
    catch (std::exception&) { r = "exc:std"; }
    return r + " ; " + state();
  }
};

int main() {
  std::unique_ptr<M> m(new M(true));
  return runLoop(
    [&](const Toks& t) { bool dir = !(t.size() > 2 && t[2] == "undir"); m.reset(new M(dir)); },
    [&](const Toks& t) { return m->op(t); });
}
