// Harness for C11: interprets transform / reparametrisation scripts against
// Bpp/Numeric/TransformedParameter.h and Bpp/Numeric/Function/ReparametrizationFunctionWrapper.{h,cpp}.
// Protocol (doubles as 16 hex digits, every NaN printed as `nan`):
//   r.new k v bound pos scale        -> x | exc:constraint
//   i.new k v lo hi scale hyper      -> x
//   p.new k v                        -> x
//   t.setorig k v                    -> x orig | exc:constraint
//   t.setx k x                       -> orig d1 d2
//   t.fd k x h                       -> g- g0 g+ a- a0 a+ b- b0 b+   (g = original value, a = d1, b = d2 at x-h, x, x+h)
//   t.mono k x1 x2                   -> o1 o2
//   w.new n {shape lo hi value c q e}^n -> x.. ; o.. ; p..    (transformed values, back-transformed values, function's values)
//   w.newsub n sel {shape lo hi value c q e}^n -> x.. ; o.. ; p..   (second constructor: only the parameters listed in
//                                       `sel` = comma separated indices in any order, `f` = a foreign parameter the function does
//                                       not have; x.., o.. in the wrapper's order, p.. all the function's values)
//   w.set m {i x}^m                  -> f ; p.. ; fp..         (function's own values, wrapper's copy; i = function index)
//   w.touch m {i}^m                  -> f ; p.. ; fp..         (f() with the current values of the named coordinates)
//   w.d1 i | w.d2 i j                -> value
//   w.fd i h                         -> f- f0 f+ a- a0 a+ b0   (a = wrapper d1_i, b0 = wrapper d2_ii)
//   w.fdx i j h                      -> a- a+ c0                (a = wrapper d1_i at x_j -/+ h, c0 = wrapper d2_ij)
#include "common.h"
#include <Bpp/Numeric/TransformedParameter.h>
#include <Bpp/Numeric/Function/ReparametrizationFunctionWrapper.h>
#include <Bpp/Numeric/Function/Functions.h>
#include <Bpp/Numeric/Constraints.h>
#include <Bpp/Numeric/NumConstants.h>
#include <cmath>
#include <memory>
using namespace bpp; using namespace verif;

static std::string hx(double d) { return std::isnan(d) ? std::string("nan") : doubleToHex(d); }
static double dv(const std::string& s) { return hexToDouble(s); }

// The wrapped function: a polynomial with given coefficients, evaluated in a fixed order
// (the same order as Bpp.Reparam.Poly in lean/BppModel/Reparam.lean):
//   f(p) = sum_i ( c_i p_i + q_i (p_i p_i) + [i+1<n] e_i (p_i p_{i+1}) )
class PolyFunction :
  public virtual SecondOrderDerivable,
  public AbstractParametrizable
{
public:
  std::vector<double> c_, q_, e_;
  PolyFunction() : AbstractParametrizable("") {}
  PolyFunction* clone() const { return new PolyFunction(*this); }
  void add(const std::string& name, double value, std::shared_ptr<ConstraintInterface> cons, double c, double q, double e)
  {
    addParameter_(new Parameter(name, value, cons));
    c_.push_back(c); q_.push_back(q); e_.push_back(e);
  }
  size_t n() const { return c_.size(); }
  double p(size_t i) const { return getParameters()[i].getValue(); }
  size_t idx(const std::string& v) const { return static_cast<size_t>(std::stoul(v.substr(1))); }
  void setParameters(const ParameterList& pl) { matchParametersValues(pl); }
  double getValue() const
  {
    double acc = 0.;
    for (size_t i = 0; i < n(); ++i)
    {
      acc = acc + c_[i] * p(i);
      acc = acc + q_[i] * (p(i) * p(i));
      if (i + 1 < n()) acc = acc + e_[i] * (p(i) * p(i + 1));
    }
    return acc;
  }
  void enableFirstOrderDerivatives(bool) {}
  bool enableFirstOrderDerivatives() const { return true; }
  void enableSecondOrderDerivatives(bool) {}
  bool enableSecondOrderDerivatives() const { return true; }
  double getFirstOrderDerivative(const std::string& v) const
  {
    size_t i = idx(v);
    double d = c_[i];
    d = d + (2. * q_[i]) * p(i);
    if (i + 1 < n()) d = d + e_[i] * p(i + 1);
    if (i > 0) d = d + e_[i - 1] * p(i - 1);
    return d;
  }
  double getSecondOrderDerivative(const std::string& v) const { return 2. * q_[idx(v)]; }
  double getSecondOrderDerivative(const std::string& v1, const std::string& v2) const
  {
    size_t i = idx(v1), j = idx(v2);
    if (i == j) return 2. * q_[i];
    if (i + 1 == j) return e_[i];
    if (j + 1 == i) return e_[j];
    return 0.;
  }
};

struct Wrap : public ReparametrizationDerivableSecondOrderWrapper
{
  Wrap(std::shared_ptr<SecondOrderDerivable> f) : ReparametrizationDerivableSecondOrderWrapper(f, false) {}
  Wrap(std::shared_ptr<SecondOrderDerivable> f, const ParameterList& pl) : ReparametrizationDerivableSecondOrderWrapper(f, pl, false) {}
  const ParameterList& fps() const { return functionParameters_; }
};

struct State
{
  std::vector<std::unique_ptr<TransformedParameter>> t;
  std::shared_ptr<PolyFunction> fn;
  std::unique_ptr<Wrap> w;
  State() { t.resize(4); }
};

static std::shared_ptr<ConstraintInterface> mkConstraint(const std::string& shape, double lo, double hi)
{
  if (shape == "cc") return std::make_shared<IntervalConstraint>(lo, hi, true, true);
  if (shape == "oo") return std::make_shared<IntervalConstraint>(lo, hi, false, false);
  if (shape == "co") return std::make_shared<IntervalConstraint>(lo, hi, true, false);
  if (shape == "oc") return std::make_shared<IntervalConstraint>(lo, hi, false, true);
  if (shape == "gt") return std::make_shared<IntervalConstraint>(true, lo, false);
  if (shape == "ge") return std::make_shared<IntervalConstraint>(true, lo, true);
  if (shape == "lt") return std::make_shared<IntervalConstraint>(false, hi, false);
  if (shape == "le") return std::make_shared<IntervalConstraint>(false, hi, true);
  return nullptr;
}

static std::string pname(size_t i) { return "p" + std::to_string(i); }

// set transformed coordinate i of the wrapper to x through the public interface, return f
static double wsetOne(Wrap& w, size_t i, double x)
{
  ParameterList pl = w.getParameters().createSubList(pname(i));
  pl[0].setValue(x);
  return w.f(pl);
}

static std::string doOp(State& s, const Toks& t)
{
  const std::string& o = t[0];
  if (o == "r.new") { size_t k = toU(t[1]); s.t[k].reset(); s.t[k].reset(new RTransformedParameter("t", dv(t[2]), dv(t[3]), t[4] == "1", dv(t[5]))); return hx(s.t[k]->getValue()); }
  if (o == "i.new") { size_t k = toU(t[1]); s.t[k].reset(); s.t[k].reset(new IntervalTransformedParameter("t", dv(t[2]), dv(t[3]), dv(t[4]), dv(t[5]), t[6] == "1")); return hx(s.t[k]->getValue()); }
  if (o == "p.new") { size_t k = toU(t[1]); s.t[k].reset(); s.t[k].reset(new PlaceboTransformedParameter("t", dv(t[2]))); return hx(s.t[k]->getValue()); }
  if (o.compare(0, 2, "t.") == 0)
  {
    size_t k = toU(t[1]);
    if (k >= s.t.size() || !s.t[k]) return "bad-op";
    TransformedParameter& p = *s.t[k];
    if (o == "t.setorig") { p.setOriginalValue(dv(t[2])); return hx(p.getValue()) + " " + hx(p.getOriginalValue()); }
    if (o == "t.setx") { p.setValue(dv(t[2])); return hx(p.getOriginalValue()) + " " + hx(p.getFirstOrderDerivative()) + " " + hx(p.getSecondOrderDerivative()); }
    if (o == "t.fd")
    {
      double x = dv(t[2]), h = dv(t[3]);
      double xs[3] = {x - h, x + h, x};
      double g[3], a[3], b[3];
      for (int j = 0; j < 3; ++j) { p.setValue(xs[j]); g[j] = p.getOriginalValue(); a[j] = p.getFirstOrderDerivative(); b[j] = p.getSecondOrderDerivative(); }
      return hx(g[0]) + " " + hx(g[2]) + " " + hx(g[1]) + " " + hx(a[0]) + " " + hx(a[2]) + " " + hx(a[1]) + " " + hx(b[0]) + " " + hx(b[2]) + " " + hx(b[1]);
    }
    if (o == "t.mono")
    {
      p.setValue(dv(t[2])); double o1 = p.getOriginalValue();
      p.setValue(dv(t[3])); double o2 = p.getOriginalValue();
      return hx(o1) + " " + hx(o2);
    }
    return "bad-op";
  }
  if (o == "w.new" || o == "w.newsub")
  {
    s.w.reset(); s.fn.reset();
    bool sub = (o == "w.newsub");
    size_t n = toU(t[1]);
    size_t off = sub ? 3 : 2;
    auto fn = std::make_shared<PolyFunction>();
    for (size_t i = 0; i < n; ++i)
    {
      size_t b = off + 7 * i;
      fn->add(pname(i), dv(t[b + 3]), mkConstraint(t[b], dv(t[b + 1]), dv(t[b + 2])), dv(t[b + 4]), dv(t[b + 5]), dv(t[b + 6]));
    }
    std::unique_ptr<Wrap> w;
    if (sub)
    {
      // the list given to the second constructor: copies of the function's own parameters, in the order of `sel`
      ParameterList pl;
      std::string sel = t[2]; size_t pos = 0;
      while (pos <= sel.size())
      {
        size_t c = sel.find(',', pos); if (c == std::string::npos) c = sel.size();
        std::string tok = sel.substr(pos, c - pos); pos = c + 1;
        if (tok == "f") pl.addParameter(Parameter("zz", 1.)); else pl.addParameter(fn->parameter(pname(toU(tok))));
      }
      w.reset(new Wrap(fn, pl));
    }
    else w.reset(new Wrap(fn));
    s.fn = fn; s.w = std::move(w);
    size_t m = s.w->getNumberOfParameters();
    std::string r;
    for (size_t i = 0; i < m; ++i) r += hx(s.w->getParameters()[i].getValue()) + " ";
    r += ";";
    for (size_t i = 0; i < m; ++i) r += " " + hx(dynamic_cast<const TransformedParameter&>(s.w->getParameters()[i]).getOriginalValue());
    r += " ;";
    for (size_t i = 0; i < n; ++i) r += " " + hx(s.fn->p(i));
    return r;
  }
  if (o.compare(0, 2, "w.") == 0)
  {
    if (!s.w) return "bad-op";
    Wrap& w = *s.w;
    size_t n = s.fn->n();
    try
    {
      if (o == "w.set" || o == "w.touch")
      {
        bool touch = (o == "w.touch");
        size_t m = toU(t[1]);
        std::vector<std::string> names;
        for (size_t j = 0; j < m; ++j) names.push_back(pname(toU(t[touch ? 2 + j : 2 + 2 * j])));
        ParameterList pl = w.getParameters().createSubList(names);
        if (!touch) for (size_t j = 0; j < m; ++j) pl[j].setValue(dv(t[3 + 2 * j]));
        double f = w.f(pl);
        std::string r = hx(f) + " ;";
        for (size_t i = 0; i < n; ++i) r += " " + hx(s.fn->p(i));
        r += " ;";
        for (size_t i = 0; i < w.fps().size(); ++i) r += " " + hx(w.fps()[i].getValue());
        return r;
      }
      if (o == "w.d1") { return hx(w.getFirstOrderDerivative(pname(toU(t[1])))); }
      if (o == "w.d2")
      {
        size_t i = toU(t[1]), j = toU(t[2]);
        return hx(i == j ? w.getSecondOrderDerivative(pname(i)) : w.getSecondOrderDerivative(pname(i), pname(j)));
      }
      if (o == "w.fd")
      {
        size_t i = toU(t[1]); double h = dv(t[2]);
        double x = w.parameter(pname(i)).getValue();
        double fm = wsetOne(w, i, x - h); double am = w.getFirstOrderDerivative(pname(i));
        double fp = wsetOne(w, i, x + h); double ap = w.getFirstOrderDerivative(pname(i));
        double f0 = wsetOne(w, i, x); double a0 = w.getFirstOrderDerivative(pname(i));
        double b0 = w.getSecondOrderDerivative(pname(i));
        return hx(fm) + " " + hx(f0) + " " + hx(fp) + " " + hx(am) + " " + hx(a0) + " " + hx(ap) + " " + hx(b0);
      }
      if (o == "w.fdx")
      {
        size_t i = toU(t[1]), j = toU(t[2]); double h = dv(t[3]);
        double x = w.parameter(pname(j)).getValue();
        w.parameter(pname(i));   // both coordinates must belong to the wrapper
        wsetOne(w, j, x - h); double am = w.getFirstOrderDerivative(pname(i));
        wsetOne(w, j, x + h); double ap = w.getFirstOrderDerivative(pname(i));
        wsetOne(w, j, x);
        double c0 = w.getSecondOrderDerivative(pname(i), pname(j));
        return hx(am) + " " + hx(ap) + " " + hx(c0);
      }
    }
    catch (...)
    {
      // after an exception inside the wrapper its state is only partly updated: drop it
      s.w.reset(); s.fn.reset();
      throw;
    }
    return "bad-op";
  }
  return "bad-op";
}

int main()
{
  std::unique_ptr<State> s(new State());
  return runLoop(
    [&](const Toks&) { s.reset(new State()); },
    [&](const Toks& t) -> std::string {
      try { return doOp(*s, t); }
      catch (ConstraintException&) { return "exc:constraint"; }
      catch (ParameterNotFoundException&) { return "exc:notfound"; }
      catch (Exception&) { return "exc:bpp"; }
    });
}
