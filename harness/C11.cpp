// Harness for C11: interprets transform / reparametrisation scripts against
// Bpp/Numeric/TransformedParameter.h and Bpp/Numeric/Function/ReparametrizationFunctionWrapper.{h,cpp}.
// Protocol (doubles as 16 hex digits, every NaN printed as `nan`):
//   r.new k v bound pos scale        -> x | exc:constraint
//   i.new k v lo hi scale hyper      -> x
//   p.new k v                        -> x
//   t.ctor k v lo hi scale hyper     -> x orig                  (IntervalTransformedParameter constructor, read back)
//   t.setorig k v                    -> x orig | exc:constraint
//   t.setx k x                       -> orig d1 d2
//   t.fd k x h                       -> g- g0 g+ a- a0 a+ b- b0 b+   (g = original value, a = d1, b = d2 at x-h, x, x+h)
//   t.mono k x1 x2                   -> o1 o2
//   t.clone k j                      -> x orig d1 d2            (register k := register j ->clone())
// Objects: function registers f0 f1 (std::shared_ptr<PolyFunction>), wrapper registers w0..w3 (each one of the
// three library classes, cls 0 = ReparametrizationFunctionWrapper, 1 = ...DerivableFirstOrderWrapper,
// 2 = ...DerivableSecondOrderWrapper; the library's own objects, no subclass), a current wrapper register.
//   f.new g n {shape lo hi value c q e}^n -> ok | exc:constraint       (a new function object in register g; the
//                                       function in register 1 has the namespace "m.": its parameters are m.p0, m.p1, ...)
//   w.mk k g cls sel                 -> x.. ; o.. ; p..   wrapper register k := new <cls>(f_g) when sel = `all` (first
//                                       constructor), else new <cls>(f_g, list) (second constructor) with list = the
//                                       comma separated items of sel in that order: `i` a copy of the function's
//                                       parameter i, `i@<hex>` the same with another value, `i!` the same without its constraint, `f` a foreign parameter
//                                       (x.. transformed values, o.. back-transformed values in the wrapper's order,
//                                       p.. all the function's values)
//   w.new n {...}^n                  = drop everything, f.new 0, w.mk 0 0 2 all, w.use 0
//   w.newsub n sel {...}^n           = drop everything, f.new 0, w.mk 0 0 2 sel, w.use 0
//   w.use k                          -> ok                      (the operations below act on wrapper register k)
//   w.clone k j | w.copy k j         -> cls same ; pn.. ; fpn.. ; x.. ; fpv..   register k := w_j->clone() (through the
//                                       base class pointer) | copy-constructed from w_j with its own class; cls = class
//                                       of the result (dynamic_cast), same = 1 when it holds the same function object
//                                       as w_j, pn = names (indices) of its parameters, fpn = names of its
//                                       functionParameters_, x = transformed values, fpv = values of functionParameters_
//   w.assign k j                     -> same format             *w_k = *w_j (operator= of the common class)
//   w.set m {i x}^m                  -> f ; p.. ; fp..          f(list of plain Parameter(p<i>, x)); p = function's own
//                                       values, fp = the wrapper's copy; i = function index, any order
//   w.touch m {i}^m                  -> f ; p.. ; fp..          (f() with the current values of the named coordinates)
//   w.get                            -> getValue() ; function().getValue() ; same ; p..   (same = getFunction() is the
//                                       function object the wrapper was built on / copied / assigned from)
//   w.names                          -> pn.. ; fpn..            (names of parameters_ / of functionParameters_)
//   w.pv i x | w.all x.. | w.match m {i x}^m | w.pvs m {i x}^m -> getValue() ; p.. ; fp..
//                                       inherited setParameterValue / setAllParametersValues / matchParametersValues /
//                                       setParametersValues
//   w.fire                           -> getValue() ; p.. ; fp..   (fireParameterChanged(empty list), called directly)
//   w.en which yn                    -> wrapper's getter, function's two switches
//   w.d1 i | w.d21 i | w.d2 i j      -> value   (w.d21: getSecondOrderDerivative(p_i); w.d2: the two-argument
//                                       overload getSecondOrderDerivative(p_i, p_j), also when i == j)
//   w.fd i h                         -> f- f0 f+ a- a0 a+ b0   (a = wrapper d1_i, b0 = wrapper d2_ii; class 2)
//   w.fd1 i h                        -> f- f0 f+ a- a0 a+ 0    (class >= 1)
//   w.fdx i j h                      -> a- a+ c0                (a = wrapper d1_i at x_j -/+ h, c0 = wrapper d2_ij)
//   f.set g m {i x}^m                -> f ; p..                 (the owner moves function g: fn->setParameters)
// After an exception inside a `w.` / `f.` operation every function and wrapper register is dropped.
#include "common.h"
#include <Bpp/Numeric/TransformedParameter.h>
#include <Bpp/Numeric/Function/ReparametrizationFunctionWrapper.h>
#include <Bpp/Numeric/Function/Functions.h>
#include <Bpp/Numeric/Constraints.h>
#include <Bpp/Numeric/NumConstants.h>
#include <cmath>
#include <memory>
using namespace bpp; using namespace verif;

static std::string hx(double d) { return std::isnan(d) ? std::string("nan") : doubleToHex(d); }
static double dv(const std::string& s) { return hexToDouble(s); }

// The wrapped function: a polynomial with given coefficients, evaluated in a fixed order
// (the same order as Bpp.Reparam.Poly in lean/BppModel/Reparam.lean):
//   f(p) = sum_i ( c_i p_i + q_i (p_i p_i) + [i+1<n] e_i (p_i p_{i+1}) )
class PolyFunction :
  public virtual SecondOrderDerivable,
  public AbstractParametrizable
{
public:
  std::vector<double> c_, q_, e_;
  PolyFunction(const std::string& ns = "") : AbstractParametrizable(ns) {}
  PolyFunction* clone() const { return new PolyFunction(*this); }
  void add(const std::string& name, double value, std::shared_ptr<ConstraintInterface> cons, double c, double q, double e)
  {
    addParameter_(new Parameter(name, value, cons));
    c_.push_back(c); q_.push_back(q); e_.push_back(e);
  }
  size_t n() const { return c_.size(); }
  double p(size_t i) const { return getParameters()[i].getValue(); }
  // the name of parameter i is <namespace>p<i>
  size_t idx(const std::string& v) const { return static_cast<size_t>(std::stoul(v.substr(v.rfind('p') + 1))); }
  void setParameters(const ParameterList& pl) { matchParametersValues(pl); }
  double getValue() const
  {
    double acc = 0.;
    for (size_t i = 0; i < n(); ++i)
    {
      acc = acc + c_[i] * p(i);
      acc = acc + q_[i] * (p(i) * p(i));
      if (i + 1 < n()) acc = acc + e_[i] * (p(i) * p(i + 1));
    }
    return acc;
  }
  bool d1on_ = true, d2on_ = true;
  void enableFirstOrderDerivatives(bool yn) { d1on_ = yn; }
  bool enableFirstOrderDerivatives() const { return d1on_; }
  void enableSecondOrderDerivatives(bool yn) { d2on_ = yn; }
  bool enableSecondOrderDerivatives() const { return d2on_; }
  double getFirstOrderDerivative(const std::string& v) const
  {
    size_t i = idx(v);
    double d = c_[i];
    d = d + (2. * q_[i]) * p(i);
    if (i + 1 < n()) d = d + e_[i] * p(i + 1);
    if (i > 0) d = d + e_[i - 1] * p(i - 1);
    return d;
  }
  double getSecondOrderDerivative(const std::string& v) const { return 2. * q_[idx(v)]; }
  double getSecondOrderDerivative(const std::string& v1, const std::string& v2) const
  {
    size_t i = idx(v1), j = idx(v2);
    if (i == j) return 2. * q_[i];
    if (i + 1 == j) return e_[i];
    if (j + 1 == i) return e_[j];
    return 0.;
  }
};

typedef ReparametrizationFunctionWrapper W0;
typedef ReparametrizationDerivableFirstOrderWrapper W1;
typedef ReparametrizationDerivableSecondOrderWrapper W2;

// read access to the protected functionParameters_ of any wrapper object (no subclass of ours is ever instantiated:
// clone() and the copy operations exercised are the library's own)
struct Peek : public ReparametrizationFunctionWrapper
{
  static const ParameterList& fps(const ReparametrizationFunctionWrapper& w) { return w.*(&Peek::functionParameters_); }
};

struct State
{
  std::vector<std::unique_ptr<TransformedParameter>> t;
  std::shared_ptr<PolyFunction> fn[2];
  std::unique_ptr<W0> w[4];
  PolyFunction* wfn[4];   // the function object register k was built on / copied / assigned from
  size_t cur;
  State() : cur(0) { t.resize(4); for (auto& p : wfn) p = nullptr; }
  void dropAll() { for (auto& x : w) x.reset(); for (auto& x : fn) x.reset(); for (auto& p : wfn) p = nullptr; }
};

static std::shared_ptr<ConstraintInterface> mkConstraint(const std::string& shape, double lo, double hi)
{
  if (shape == "cc") return std::make_shared<IntervalConstraint>(lo, hi, true, true);
  if (shape == "oo") return std::make_shared<IntervalConstraint>(lo, hi, false, false);
  if (shape == "co") return std::make_shared<IntervalConstraint>(lo, hi, true, false);
  if (shape == "oc") return std::make_shared<IntervalConstraint>(lo, hi, false, true);
  if (shape == "gt") return std::make_shared<IntervalConstraint>(true, lo, false);
  if (shape == "ge") return std::make_shared<IntervalConstraint>(true, lo, true);
  if (shape == "lt") return std::make_shared<IntervalConstraint>(false, hi, false);
  if (shape == "le") return std::make_shared<IntervalConstraint>(false, hi, true);
  return nullptr;
}

// parameter i of a function is named <namespace>p<i>; function register 1 has the namespace "m.", register 0 none
static std::string pname(const PolyFunction& fn, size_t i) { return fn.getNamespace() + "p" + std::to_string(i); }
static size_t pidx(const std::string& name) { return static_cast<size_t>(std::stoul(name.substr(name.rfind('p') + 1))); }

static int clsOf(const W0& w)
{
  if (dynamic_cast<const W2*>(&w)) return 2;
  if (dynamic_cast<const W1*>(&w)) return 1;
  return 0;
}

static PolyFunction& fnOf(W0& w) { return dynamic_cast<PolyFunction&>(w.function()); }

// a list of plain parameters p<i> = x
static ParameterList plainList(const PolyFunction& fn, const Toks& t, size_t from, size_t m)
{
  ParameterList pl;
  for (size_t j = 0; j < m; ++j) pl.addParameter(Parameter(pname(fn, toU(t[from + 2 * j])), dv(t[from + 2 * j + 1])));
  return pl;
}

// set transformed coordinate i of the wrapper to x through the public interface, return f
static double wsetOne(W0& w, size_t i, double x)
{
  ParameterList pl;
  pl.addParameter(Parameter(pname(fnOf(w), i), x));
  return w.f(pl);
}

static std::string fvals(const PolyFunction& fn)
{
  std::string r;
  for (size_t i = 0; i < fn.n(); ++i) r += " " + hx(fn.p(i));
  return r;
}

static std::string fpvals(const W0& w)
{
  std::string r;
  const ParameterList& fps = Peek::fps(w);
  for (size_t i = 0; i < fps.size(); ++i) r += " " + hx(fps[i].getValue());
  return r;
}

static std::string dumpW(const W0& w, bool same)
{
  std::string r = std::to_string(clsOf(w)) + (same ? " 1 ;" : " 0 ;");
  for (size_t i = 0; i < w.getNumberOfParameters(); ++i) r += " " + std::to_string(pidx(w.getParameters()[i].getName()));
  r += " ;";
  const ParameterList& fps = Peek::fps(w);
  for (size_t i = 0; i < fps.size(); ++i) r += " " + (fps[i].getName() == "zz" ? std::string("1000000") : std::to_string(pidx(fps[i].getName())));
  r += " ;";
  for (size_t i = 0; i < w.getNumberOfParameters(); ++i) r += " " + hx(w.getParameters()[i].getValue());
  r += " ;" + fpvals(w);
  return r;
}

static void newFn(State& s, size_t g, const Toks& t, size_t n, size_t off)
{
  auto fn = std::make_shared<PolyFunction>(g == 1 ? "m." : "");
  for (size_t i = 0; i < n; ++i)
  {
    size_t b = off + 7 * i;
    fn->add(pname(*fn, i), dv(t[b + 3]), mkConstraint(t[b], dv(t[b + 1]), dv(t[b + 2])), dv(t[b + 4]), dv(t[b + 5]), dv(t[b + 6]));
  }
  s.fn[g] = fn;
}

static std::string mkW(State& s, size_t k, size_t g, int cls, const std::string& sel)
{
  std::shared_ptr<PolyFunction> fn = s.fn[g];
  std::unique_ptr<W0> w;
  if (sel == "all")
  {
    if (cls == 0) w.reset(new W0(fn, false)); else if (cls == 1) w.reset(new W1(fn, false)); else w.reset(new W2(fn, false));
  }
  else
  {
    // the list given to the second constructor, in the order of `sel`
    ParameterList pl;
    size_t pos = 0;
    while (pos <= sel.size())
    {
      size_t c = sel.find(',', pos); if (c == std::string::npos) c = sel.size();
      std::string tok = sel.substr(pos, c - pos); pos = c + 1;
      size_t at = tok.find('@');
      if (tok == "f") pl.addParameter(Parameter("zz", 1.));
      else if (tok.back() == '!')
      {
        // the function's parameter i given WITHOUT its constraint: Parameter(name, value)
        const Parameter& p = fn->getParameters().parameter(pname(*fn, toU(tok.substr(0, tok.size() - 1))));
        pl.addParameter(Parameter(p.getName(), p.getValue()));
      }
      else if (at == std::string::npos) pl.addParameter(fn->getParameters().parameter(pname(*fn, toU(tok))));
      else
      {
        // a copy of the function's parameter (same constraint) carrying another value; raises when rejected
        Parameter q(fn->getParameters().parameter(pname(*fn, toU(tok.substr(0, at)))));
        q.setValue(dv(tok.substr(at + 1)));
        pl.addParameter(q);
      }
    }
    if (cls == 0) w.reset(new W0(fn, pl, false)); else if (cls == 1) w.reset(new W1(fn, pl, false)); else w.reset(new W2(fn, pl, false));
  }
  s.w[k] = std::move(w); s.wfn[k] = fn.get();
  W0& ww = *s.w[k];
  size_t m = ww.getNumberOfParameters();
  std::string r;
  for (size_t i = 0; i < m; ++i) r += hx(ww.getParameters()[i].getValue()) + " ";
  r += ";";
  for (size_t i = 0; i < m; ++i) r += " " + hx(dynamic_cast<const TransformedParameter&>(ww.getParameters()[i]).getOriginalValue());
  r += " ;" + fvals(*fn);
  return r;
}

static std::string doW(State& s, const Toks& t)
{
  const std::string& o = t[0];
  if (o == "w.new" || o == "w.newsub")
  {
    s.dropAll(); s.cur = 0;
    bool sub = (o == "w.newsub");
    newFn(s, 0, t, toU(t[1]), sub ? 3 : 2);
    return mkW(s, 0, 0, 2, sub ? t[2] : std::string("all"));
  }
  if (o == "f.new") { size_t g = toU(t[1]); if (g >= 2) return "bad-op"; newFn(s, g, t, toU(t[2]), 3); return "ok"; }
  if (o == "w.mk")
  {
    size_t k = toU(t[1]), g = toU(t[2]); int cls = static_cast<int>(toU(t[3]));
    if (k >= 4 || g >= 2 || cls > 2 || !s.fn[g]) return "bad-op";
    return mkW(s, k, g, cls, t[4]);
  }
  if (o == "w.use") { size_t k = toU(t[1]); if (k >= 4 || !s.w[k]) return "bad-op"; s.cur = k; return "ok"; }
  if (o == "w.clone" || o == "w.copy" || o == "w.assign")
  {
    size_t k = toU(t[1]), j = toU(t[2]);
    if (k >= 4 || j >= 4 || !s.w[j]) return "bad-op";
    const W0& src = *s.w[j];
    int cj = clsOf(src);
    if (o == "w.assign")
    {
      if (!s.w[k]) return "bad-op";
      W0& dst = *s.w[k];
      int ck = clsOf(dst);
      if (ck == 2 && cj == 2) dynamic_cast<W2&>(dst) = dynamic_cast<const W2&>(src);
      else if (ck >= 1 && cj >= 1) dynamic_cast<W1&>(dst) = dynamic_cast<const W1&>(src);
      else dst = src;
      s.wfn[k] = s.wfn[j];
    }
    else
    {
      std::unique_ptr<W0> c;
      if (o == "w.clone") c.reset(src.clone());
      else if (cj == 2) c.reset(new W2(dynamic_cast<const W2&>(src)));
      else if (cj == 1) c.reset(new W1(dynamic_cast<const W1&>(src)));
      else c.reset(new W0(src));
      if (k == j) { std::unique_ptr<W0> old = std::move(s.w[k]); s.w[k] = std::move(c); }
      else s.w[k] = std::move(c);
      s.wfn[k] = s.wfn[j];
    }
    return dumpW(*s.w[k], s.w[k]->getFunction().get() == s.w[j]->getFunction().get());
  }
  if (o == "f.set")
  {
    size_t g = toU(t[1]), m = toU(t[2]);
    if (g >= 2 || !s.fn[g]) return "bad-op";
    for (size_t j = 0; j < m; ++j) if (toU(t[3 + 2 * j]) >= s.fn[g]->n()) return "bad-op";
    ParameterList pl = plainList(*s.fn[g], t, 3, m);
    s.fn[g]->setParameters(pl);
    return hx(s.fn[g]->getValue()) + " ;" + fvals(*s.fn[g]);
  }
  // the single-wrapper operations act on the current register
  if (s.cur >= 4 || !s.w[s.cur]) return "bad-op";
  W0& w = *s.w[s.cur];
  int cls = clsOf(w);
  PolyFunction& fn = fnOf(w);
  size_t n = fn.n();
  W1* w1 = dynamic_cast<W1*>(&w);
  W2* w2 = dynamic_cast<W2*>(&w);
  if (o == "w.set" || o == "w.touch")
  {
    bool touch = (o == "w.touch");
    size_t m = toU(t[1]);
    ParameterList pl;
    if (touch)
    {
      std::vector<std::string> names;
      for (size_t j = 0; j < m; ++j) names.push_back(pname(fn, toU(t[2 + j])));
      pl = w.getParameters().createSubList(names);
    }
    else pl = plainList(fn, t, 2, m);
    double f = w.f(pl);
    return hx(f) + " ;" + fvals(fn) + " ;" + fpvals(w);
  }
  if (o == "w.names")
  {
    std::string r;
    for (size_t i = 0; i < w.getNumberOfParameters(); ++i) r += std::to_string(pidx(w.getParameters()[i].getName())) + " ";
    r += ";";
    const ParameterList& fps = Peek::fps(w);
    for (size_t i = 0; i < fps.size(); ++i) r += " " + (fps[i].getName() == "zz" ? std::string("1000000") : std::to_string(pidx(fps[i].getName())));
    return r;
  }
  if (o == "w.get")
  {
    std::string r = hx(w.getValue()) + " ; " + hx(w.function().getValue()) + " ; " + (w.getFunction().get() == s.wfn[s.cur] ? "1" : "0") + " ;";
    return r + fvals(fn);
  }
  if (o == "w.pv" || o == "w.all" || o == "w.match" || o == "w.pvs" || o == "w.fire")
  {
    if (o == "w.fire") w.fireParameterChanged(ParameterList());
    else if (o == "w.pv") w.setParameterValue("p" + std::to_string(toU(t[1])), dv(t[2]));   // name without namespace (AbstractParametrizable.h:63-67)
    else if (o == "w.all")
    {
      if (t.size() - 1 != w.getNumberOfParameters()) return "bad-op";
      ParameterList pl;
      for (size_t i = 0; i < w.getNumberOfParameters(); ++i) pl.addParameter(Parameter(w.getParameters()[i].getName(), dv(t[1 + i])));
      w.setAllParametersValues(pl);
    }
    else
    {
      ParameterList pl = plainList(fn, t, 2, toU(t[1]));
      if (o == "w.match") w.matchParametersValues(pl); else w.setParametersValues(pl);
    }
    return hx(w.getValue()) + " ;" + fvals(fn) + " ;" + fpvals(w);
  }
  if (o == "w.en")
  {
    bool yn = (t[2] == "1");
    if (t[1] == "1" && w1) { w1->enableFirstOrderDerivatives(yn); return std::string(w1->enableFirstOrderDerivatives() ? "1" : "0") + (fn.d1on_ ? " 1" : " 0") + (fn.d2on_ ? " 1" : " 0"); }
    if (t[1] == "2" && w2) { w2->enableSecondOrderDerivatives(yn); return std::string(w2->enableSecondOrderDerivatives() ? "1" : "0") + (fn.d1on_ ? " 1" : " 0") + (fn.d2on_ ? " 1" : " 0"); }
    return "bad-op";
  }
  if (o == "w.d1") { size_t i = toU(t[1]); if (!w1 || i >= n) return "bad-op"; return hx(w1->getFirstOrderDerivative(pname(fn, i))); }
  if (o == "w.d21") { size_t i = toU(t[1]); if (!w2 || i >= n) return "bad-op"; return hx(w2->getSecondOrderDerivative(pname(fn, i))); }
  if (o == "w.d2")
  {
    size_t i = toU(t[1]), j = toU(t[2]);
    if (!w2 || i >= n || j >= n) return "bad-op";
    return hx(w2->getSecondOrderDerivative(pname(fn, i), pname(fn, j)));   // the two-argument overload, also for i == j
  }
  if (o == "w.fd" || o == "w.fd1")
  {
    bool second = (o == "w.fd");
    size_t i = toU(t[1]); double h = dv(t[2]);
    if ((second ? !w2 : !w1) || i >= n) return "bad-op";
    double x = w.getParameters().parameter(pname(fn, i)).getValue();
    double fm = wsetOne(w, i, x - h); double am = w1->getFirstOrderDerivative(pname(fn, i));
    double fp = wsetOne(w, i, x + h); double ap = w1->getFirstOrderDerivative(pname(fn, i));
    double f0 = wsetOne(w, i, x); double a0 = w1->getFirstOrderDerivative(pname(fn, i));
    double b0 = second ? w2->getSecondOrderDerivative(pname(fn, i)) : 0.;
    return hx(fm) + " " + hx(f0) + " " + hx(fp) + " " + hx(am) + " " + hx(a0) + " " + hx(ap) + " " + hx(b0);
  }
  if (o == "w.fdx")
  {
    size_t i = toU(t[1]), j = toU(t[2]); double h = dv(t[3]);
    if (!w2 || i >= n || j >= n || i == j) return "bad-op";
    w.getParameters().parameter(pname(fn, i));   // both coordinates must belong to the wrapper
    double x = w.getParameters().parameter(pname(fn, j)).getValue();
    wsetOne(w, j, x - h); double am = w2->getFirstOrderDerivative(pname(fn, i));
    wsetOne(w, j, x + h); double ap = w2->getFirstOrderDerivative(pname(fn, i));
    wsetOne(w, j, x);
    double c0 = w2->getSecondOrderDerivative(pname(fn, i), pname(fn, j));
    return hx(am) + " " + hx(ap) + " " + hx(c0);
  }
  return "bad-op";
}

static std::string doOp(State& s, const Toks& t)
{
  const std::string& o = t[0];
  if (o == "r.new") { size_t k = toU(t[1]); s.t[k].reset(); s.t[k].reset(new RTransformedParameter("t", dv(t[2]), dv(t[3]), t[4] == "1", dv(t[5]))); return hx(s.t[k]->getValue()); }
  if (o == "i.new") { size_t k = toU(t[1]); s.t[k].reset(); s.t[k].reset(new IntervalTransformedParameter("t", dv(t[2]), dv(t[3]), dv(t[4]), dv(t[5]), t[6] == "1")); return hx(s.t[k]->getValue()); }
  if (o == "t.ctor")
  {
    // IntervalTransformedParameter constructor with read-back: x orig
    size_t k = toU(t[1]); s.t[k].reset();
    s.t[k].reset(new IntervalTransformedParameter("t", dv(t[2]), dv(t[3]), dv(t[4]), dv(t[5]), t[6] == "1"));
    return hx(s.t[k]->getValue()) + " " + hx(s.t[k]->getOriginalValue());
  }
  if (o == "p.new") { size_t k = toU(t[1]); s.t[k].reset(); s.t[k].reset(new PlaceboTransformedParameter("t", dv(t[2]))); return hx(s.t[k]->getValue()); }
  if (o == "t.clone")
  {
    size_t k = toU(t[1]), j = toU(t[2]);
    if (k >= s.t.size() || j >= s.t.size() || !s.t[j]) return "bad-op";
    std::unique_ptr<TransformedParameter> c(s.t[j]->clone());
    s.t[k] = std::move(c);
    TransformedParameter& p = *s.t[k];
    return hx(p.getValue()) + " " + hx(p.getOriginalValue()) + " " + hx(p.getFirstOrderDerivative()) + " " + hx(p.getSecondOrderDerivative());
  }
  if (o.compare(0, 2, "t.") == 0)
  {
    size_t k = toU(t[1]);
    if (k >= s.t.size() || !s.t[k]) return "bad-op";
    TransformedParameter& p = *s.t[k];
    if (o == "t.setorig") { p.setOriginalValue(dv(t[2])); return hx(p.getValue()) + " " + hx(p.getOriginalValue()); }
    if (o == "t.setx") { p.setValue(dv(t[2])); return hx(p.getOriginalValue()) + " " + hx(p.getFirstOrderDerivative()) + " " + hx(p.getSecondOrderDerivative()); }
    if (o == "t.fd")
    {
      double x = dv(t[2]), h = dv(t[3]);
      double xs[3] = {x - h, x + h, x};
      double g[3], a[3], b[3];
      for (int j = 0; j < 3; ++j) { p.setValue(xs[j]); g[j] = p.getOriginalValue(); a[j] = p.getFirstOrderDerivative(); b[j] = p.getSecondOrderDerivative(); }
      return hx(g[0]) + " " + hx(g[2]) + " " + hx(g[1]) + " " + hx(a[0]) + " " + hx(a[2]) + " " + hx(a[1]) + " " + hx(b[0]) + " " + hx(b[2]) + " " + hx(b[1]);
    }
    if (o == "t.mono")
    {
      p.setValue(dv(t[2])); double o1 = p.getOriginalValue();
      p.setValue(dv(t[3])); double o2 = p.getOriginalValue();
      return hx(o1) + " " + hx(o2);
    }
    return "bad-op";
  }
  if (o.compare(0, 2, "w.") == 0 || o.compare(0, 2, "f.") == 0)
  {
    try { return doW(s, t); }
    catch (...)
    {
      // after an exception inside a wrapper its state is only partly updated: drop every object
      s.dropAll();
      throw;
    }
  }
  return "bad-op";
}

int main()
{
  std::unique_ptr<State> s(new State());
  return runLoop(
    [&](const Toks&) { s.reset(new State()); },
    [&](const Toks& t) -> std::string {
      try { return doOp(*s, t); }
      catch (ConstraintException&) { return "exc:constraint"; }
      catch (ParameterNotFoundException&) { return "exc:notfound"; }
      catch (Exception&) { return "exc:bpp"; }
    });
}
