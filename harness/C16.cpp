// Harness for C16: every text / option parsing entry point of the library on one operation per
// line, built with ASan + UBSan + _GLIBCXX_ASSERTIONS.  All strings travel hex-escaped.
//
// Outcome classes.  Each operation is executed by a *worker* process forked from this one; the
// worker answers operation after operation through a pipe.  When the worker dies or stops
// answering, the operation it was executing gets the answer
//     ub    sanitizer report, libstdc++ assertion, signal (SIGSEGV, SIGFPE, SIGABRT ...)
//     hang  the per-operation CPU-time budget ran out (ITIMER_PROF, independent of the load of
//           the machine), the generous wall-clock bound passed, or the allocator gave up
//           (unbounded allocation)
// and a new worker continues with the next operation: one bad input never kills the batch.
// In-process: bpp::Exception -> exc:bpp, any other exception -> exc:std.
#include "common.h"
#include <map>
#include <deque>
#include <string>
#include <sstream>
#include <fstream>
#include <memory>
#include <algorithm>
#include <Bpp/Exceptions.h>
#include <Bpp/Text/TextTools.h>
#include <Bpp/Text/StringTokenizer.h>
#include <Bpp/Text/NestedStringTokenizer.h>
#include <Bpp/Text/KeyvalTools.h>
#include <Bpp/Io/OutputStream.h>
#include <Bpp/Io/FileTools.h>
#include <Bpp/App/ApplicationTools.h>
// removeComments is a private static member: the harness ties its model directly
#define private public
#include <Bpp/Utils/AttributesTools.h>
#undef private
#include <Bpp/App/NumCalcApplicationTools.h>
#include <Bpp/Numeric/ParameterList.h>
#include <Bpp/Numeric/Parameter.h>
#include <Bpp/Numeric/Constraints.h>
#include <Bpp/Numeric/DataTable.h>
#include <Bpp/Numeric/Prob/DiscreteDistribution.h>
#include <Bpp/Io/BppODiscreteDistributionFormat.h>
#include <Bpp/Numeric/Function/Operators/ComputationTree.h>
#include <Bpp/Numeric/Function/Functions.h>
#include <unistd.h>
#include <fcntl.h>
#include <sys/wait.h>
#include <sys/select.h>
#include <sys/time.h>
#include <sys/resource.h>
#include <signal.h>
#include <cerrno>
using namespace bpp; using namespace verif;

static std::string showStrs(const std::vector<std::string>& v) {
  std::string s = std::to_string(v.size());
  for (const auto& x : v) s += " " + strToHex(x);
  return s;
}
static std::string showMap(const std::map<std::string, std::string>& m) {
  std::string s = std::to_string(m.size());
  for (const auto& kv : m) s += " " + strToHex(kv.first) + " " + strToHex(kv.second);
  return s;
}
// the functions a formula may name (ComputationTree): plain, first-order and second-order derivable
class HF1 : public TestFunction, public virtual FirstOrderDerivable {
public:
  HF1* clone() const override { return new HF1(*this); }
  void enableFirstOrderDerivatives(bool) override {}
  bool enableFirstOrderDerivatives() const override { return true; }
  double getFirstOrderDerivative(const std::string& v) const override { return 2 * parameter(v).getValue(); }
};
class HF2 : public TestFunction, public virtual SecondOrderDerivable {
public:
  HF2* clone() const override { return new HF2(*this); }
  void enableFirstOrderDerivatives(bool) override {}
  bool enableFirstOrderDerivatives() const override { return true; }
  double getFirstOrderDerivative(const std::string& v) const override { return 2 * parameter(v).getValue(); }
  void enableSecondOrderDerivatives(bool) override {}
  bool enableSecondOrderDerivatives() const override { return true; }
  double getSecondOrderDerivative(const std::string&) const override { return 2; }
  double getSecondOrderDerivative(const std::string&, const std::string&) const override { return 0; }
};

static char chr(const std::string& h) { std::string s = hexToStr(h); return s.empty() ? '\0' : s[0]; }
static const char* b01(bool b) { return b ? "1" : "0"; }

// constructor result (all tokens) + the answers of a method script n.h.r.e.u.g<k>
template<class T>
static std::string runScript(T& st, const std::string& script) {
  std::vector<std::string> toks(st.getTokens().begin(), st.getTokens().end());
  std::string out = showStrs(toks) + " /";
  if (script == "-") return out;
  std::istringstream is(script); std::string w;
  while (std::getline(is, w, '.')) {
    if (w == "n") { try { out += " s:" + strToHex(st.nextToken()); } catch (Exception&) { out += " x"; } }
    else if (w == "h") out += std::string(" b:") + b01(st.hasMoreToken());
    else if (w == "r") out += " n:" + std::to_string(st.numberOfRemainingTokens());
    else if (w == "e") { st.removeEmptyTokens(); out += " u"; }
    else if (w == "u") out += " s:" + strToHex(st.unparseRemainingTokens());
    else if (w[0] == 'g') { try { out += " s:" + strToHex(st.getToken(toU(w.substr(1)))); } catch (Exception&) { out += " x"; } }
  }
  return out;
}

static std::string op(const Toks& t) {
  const std::string& o = t[0];
  try {
    // ---------------------------------------------------------------- TextTools
    if (o == "tt.isEmpty") return b01(TextTools::isEmpty(hexToStr(t[1])));
    if (o == "tt.upper") return strToHex(TextTools::toUpper(hexToStr(t[1])));
    if (o == "tt.lower") return strToHex(TextTools::toLower(hexToStr(t[1])));
    if (o == "tt.ws") return b01(TextTools::isWhiteSpaceCharacter(chr(t[1])));
    if (o == "tt.rmws") return strToHex(TextTools::removeWhiteSpaces(hexToStr(t[1])));
    if (o == "tt.rmfirst") return strToHex(TextTools::removeFirstWhiteSpaces(hexToStr(t[1])));
    if (o == "tt.rmlast") return strToHex(TextTools::removeLastWhiteSpaces(hexToStr(t[1])));
    if (o == "tt.trim") return strToHex(TextTools::removeSurroundingWhiteSpaces(hexToStr(t[1])));
    if (o == "tt.rmnl") return strToHex(TextTools::removeNewLines(hexToStr(t[1])));
    if (o == "tt.rmlastnl") return strToHex(TextTools::removeLastNewLines(hexToStr(t[1])));
    if (o == "tt.num") {
      std::string s = hexToStr(t[1]); char dec = chr(t[2]), sci = chr(t[3]);
      std::string out = b01(TextTools::isDecimalNumber(s, dec, sci));
      out += std::string(" ") + b01(TextTools::isDecimalInteger(s, sci));
      try { (void)TextTools::toDouble(s, dec, sci); out += " ok"; } catch (Exception&) { out += " exc:bpp"; }
      try { (void)TextTools::toInt(s, sci); out += " ok"; } catch (Exception&) { out += " exc:bpp"; }
      return out;
    }
    if (o == "tt.resizeR") return strToHex(TextTools::resizeRight(hexToStr(t[1]), toU(t[2]), chr(t[3])));
    if (o == "tt.resizeL") return strToHex(TextTools::resizeLeft(hexToStr(t[1]), toU(t[2]), chr(t[3])));
    if (o == "tt.split") return showStrs(TextTools::split(hexToStr(t[1]), toU(t[2])));
    if (o == "tt.rmsub") return strToHex(TextTools::removeSubstrings(hexToStr(t[1]), chr(t[2]), chr(t[3])));
    if (o == "tt.rmsub5") {      // tt.rmsub5 s b e nb xb... ne xe...
      size_t nb = toU(t[4]); std::vector<std::string> xb, xe;
      for (size_t i = 0; i < nb; ++i) xb.push_back(hexToStr(t[5 + i]));
      size_t ne = toU(t[5 + nb]);
      for (size_t i = 0; i < ne; ++i) xe.push_back(hexToStr(t[6 + nb + i]));
      return strToHex(TextTools::removeSubstrings(hexToStr(t[1]), chr(t[2]), chr(t[3]), xb, xe));
    }
    if (o == "tt.rmchar") return strToHex(TextTools::removeChar(hexToStr(t[1]), chr(t[2])));
    if (o == "tt.count") return std::to_string(TextTools::count(hexToStr(t[1]), hexToStr(t[2])));
    if (o == "tt.starts") return b01(TextTools::startsWith(hexToStr(t[1]), hexToStr(t[2])));
    if (o == "tt.ends") return b01(TextTools::endsWith(hexToStr(t[1]), hexToStr(t[2])));
    if (o == "tt.has") return b01(TextTools::hasSubstring(hexToStr(t[1]), hexToStr(t[2])));
    if (o == "tt.replace") { std::string s = hexToStr(t[1]); TextTools::replaceAll(s, hexToStr(t[2]), hexToStr(t[3])); return strToHex(s); }
    // ---------------------------------------------------------------- tokenizers
    if (o == "st") {             // st s delims solid allowEmpty script
      StringTokenizer st(hexToStr(t[1]), hexToStr(t[2]), t[3] == "1", t[4] == "1");
      return runScript(st, t[5]);
    }
    if (o == "nst") {            // nst s open end delims solid script
      NestedStringTokenizer st(hexToStr(t[1]), hexToStr(t[2]), hexToStr(t[3]), hexToStr(t[4]), t[5] == "1");
      return runScript(st, t[6]);
    }
    // ---------------------------------------------------------------- KeyvalTools
    if (o == "kv.single") { std::string k, v; KeyvalTools::singleKeyval(hexToStr(t[1]), k, v, hexToStr(t[2])); return strToHex(k) + " " + strToHex(v); }
    if (o == "kv.multi") { std::map<std::string, std::string> m; KeyvalTools::multipleKeyvals(hexToStr(t[1]), m, hexToStr(t[2]), t[3] == "1"); return showMap(m); }
    if (o == "kv.parse") { std::string name; std::map<std::string, std::string> m; KeyvalTools::parseProcedure(hexToStr(t[1]), name, m); return strToHex(name) + " " + showMap(m); }
    if (o == "kv.change") {      // kv.change desc split nested n k1 v1 ...
      std::map<std::string, std::string> m; size_t n = toU(t[4]);
      for (size_t i = 0; i < n; ++i) m[hexToStr(t[5 + 2 * i])] = hexToStr(t[6 + 2 * i]);
      return strToHex(KeyvalTools::changeKeyvals(hexToStr(t[1]), m, hexToStr(t[2]), t[3] == "1"));
    }
    // ---------------------------------------------------------------- wildcard matchers
    if (o == "glob") {
      std::string p = hexToStr(t[1]), n = hexToStr(t[2]);
      ParameterList pl; pl.addParameter(Parameter(n, 0.));
      std::map<std::string, std::string> m; m[n] = "x";
      std::vector<std::string> v(1, n);
      std::string out;
      out += pl.getMatchingParameterNames(p).size() == 1 ? "1" : "0";
      out += ApplicationTools::matchingParameters(p, m).size() == 1 ? " 1" : " 0";
      out += ApplicationTools::matchingParameters(p, v).size() == 1 ? " 1" : " 0";
      return out;
    }
    // ---------------------------------------------------------------- AttributesTools
    if (o == "at.rmc") return strToHex(AttributesTools::removeComments(hexToStr(t[1]), hexToStr(t[2]), hexToStr(t[3])));
    if (o == "at.map") {         // at.map delim n line1 ... linen
      size_t n = toU(t[2]); std::vector<std::string> lines;
      for (size_t i = 0; i < n; ++i) lines.push_back(hexToStr(t[3 + i]));
      std::map<std::string, std::string> m; AttributesTools::getAttributesMap(lines, m, hexToStr(t[1]));
      return showMap(m);
    }
    if (o == "at.vars" || o == "at.varsE") {        // at.vars code beg end n k1 v1 ...   (at.varsE: with an error stream)
      std::map<std::string, std::string> m; size_t n = toU(t[4]);
      for (size_t i = 0; i < n; ++i) m[hexToStr(t[5 + 2 * i])] = hexToStr(t[6 + 2 * i]);
      struct Restore { std::shared_ptr<OutputStream> old; ~Restore() { ApplicationTools::error = old; } } restore{ApplicationTools::error};
      if (o == "at.varsE") ApplicationTools::error = std::make_shared<NullOutputStream>();
      AttributesTools::resolveVariables(m, chr(t[1]), chr(t[2]), chr(t[3]));
      return showMap(m);
    }
    // ---------------------------------------------------------------- FileTools
    if (o == "ft.name") return strToHex(FileTools::getFileName(hexToStr(t[1]), chr(t[2])));
    if (o == "ft.parent") return strToHex(FileTools::getParent(hexToStr(t[1]), chr(t[2])));
    if (o == "ft.ext") return strToHex(FileTools::getExtension(hexToStr(t[1])));
    // ---------------------------------------------------------------- IntervalConstraint
    if (o == "ic.read") {
      std::string d = hexToStr(t[1]);
      IntervalConstraint ic(d);
      return std::string(b01(ic.strictLowerBound() ? false : true)) + " " + b01(ic.strictUpperBound() ? false : true);
    }
    // ---------------------------------------------------------------- not modelled (outcome class only)
    if (o == "dt.read") {        // dt.read text sep header rowNames
      std::istringstream in(hexToStr(t[1]));
      auto dt = DataTable::read(in, hexToStr(t[2]), t[3] == "1", static_cast<int>(toI(t[4])));
      std::ostringstream os; DataTable::write(*dt, os, hexToStr(t[2]));
      return "ok " + std::to_string(dt->getNumberOfRows()) + " " + std::to_string(dt->getNumberOfColumns());
    }
    if (o == "dt.edit") {        // dt.edit text sep header rowNames script   (table editing: searched, not modelled)
      std::istringstream in(hexToStr(t[1]));
      std::unique_ptr<DataTable> dt;
      if (t[1] == "00") dt.reset(new DataTable(static_cast<size_t>(toI(t[4]) < 0 ? 0 : toI(t[4])), 2));   // DataTable(nRow, 2 columns) without any name
      else dt = DataTable::read(in, hexToStr(t[2]), t[3] == "1", static_cast<int>(toI(t[4])));
      size_t raised = 0, calls = 0;
      std::istringstream is(t[5]); std::string w;
      while (std::getline(is, w, '.')) {
        std::vector<std::string> f; { std::istringstream fs(w); std::string x; while (std::getline(fs, x, ':')) f.push_back(x); }
        if (f.empty()) continue;
        auto N = [&](size_t i) { return i < f.size() ? toU(f[i]) : size_t(0); };
        auto S = [&](size_t i) { return i < f.size() ? hexToStr(f[i]) : std::string(); };
        auto V = [&](size_t n, const char* pre) { std::vector<std::string> v; for (size_t i = 0; i < n && i < 64; ++i) v.push_back(pre + std::to_string(i)); return v; };
        const std::string& c = f[0]; ++calls;
        const DataTable& cd = *dt;           // the const overloads too
        try {
          if (c == "srn") dt->setRowName(N(1), S(2));
          else if (c == "srns") dt->setRowNames(V(N(1), "R"));
          else if (c == "srnd") { auto v = V(N(1), "R"); if (v.size() > 1) v[1] = v[0]; dt->setRowNames(v); }
          else if (c == "scns") dt->setColumnNames(V(N(1), "C"));
          else if (c == "grn") (void)dt->getRowName(N(1));
          else if (c == "gcn") (void)dt->getColumnName(N(1));
          else if (c == "grns") (void)dt->getRowNames();
          else if (c == "gcns") (void)dt->getColumnNames();
          else if (c == "gc") { if (calls & 1) (void)cd.getColumn(N(1)).size(); (void)dt->getColumn(N(1)).size(); }
          else if (c == "gcN") { if (calls & 1) (void)cd.getColumn(S(1)).size(); (void)dt->getColumn(S(1)).size(); }
          else if (c == "hc") (void)dt->hasColumn(S(1));
          else if (c == "hr") (void)dt->hasRow(S(1));
          else if (c == "dc") dt->deleteColumn(N(1));
          else if (c == "dcN") dt->deleteColumn(S(1));
          else if (c == "ac") dt->addColumn(V(N(1), "x"));
          else if (c == "acN") dt->addColumn(S(1), V(N(2), "x"));
          else if (c == "gr") (void)dt->getRow(N(1));
          else if (c == "grN") (void)dt->getRow(S(1));
          else if (c == "dr") dt->deleteRow(N(1));
          else if (c == "drN") dt->deleteRow(S(1));
          else if (c == "ar") dt->addRow(V(N(1), "y"));
          else if (c == "arN") dt->addRow(S(1), V(N(2), "y"));
          else if (c == "sr") dt->setRow(N(1), V(N(2), "z"));
          else if (c == "cell") { if (calls & 1) (void)cd(N(1), N(2)).size(); (*dt)(N(1), N(2)) = "v"; }
          else if (c == "cellN") { if (calls & 1) (void)cd(S(1), S(2)).size(); (*dt)(S(1), S(2)) = "v"; }
          else if (c == "cellRN") { if (calls & 1) (void)cd(S(1), N(2)).size(); (*dt)(S(1), N(2)) = "v"; }
          else if (c == "cellCN") { if (calls & 1) (void)cd(N(1), S(2)).size(); (*dt)(N(1), S(2)) = "v"; }
          else if (c == "cp") { DataTable d2(*dt); *dt = d2; std::unique_ptr<DataTable> d3(dt->clone()); }
          else if (c == "w") { std::ostringstream os; DataTable::write(*dt, os, ",", (calls & 1) != 0);
                               NullOutputStream ns; DataTable::write(*dt, ns, ",", (calls & 2) != 0); }
        } catch (Exception&) { ++raised; }
      }
      // the class invariant, through the public interface: every column and the row names have nRow entries, and the
      // counts have not wrapped below zero (an erase past the end is undefined but not reported by the sanitizers)
      bool consistent = dt->getNumberOfRows() < (size_t(1) << 32) && dt->getNumberOfColumns() < (size_t(1) << 32);
      for (size_t j = 0; consistent && j < dt->getNumberOfColumns(); ++j) consistent = dt->getColumn(j).size() == dt->getNumberOfRows();
      if (consistent && dt->hasRowNames()) consistent = dt->getRowNames().size() == dt->getNumberOfRows();
      if (consistent && dt->hasColumnNames()) consistent = dt->getColumnNames().size() == dt->getNumberOfColumns();
      if (!consistent) return "ub class-invariant";
      std::ostringstream os; DataTable::write(*dt, os, hexToStr(t[2]));
      return "ok " + std::to_string(dt->getNumberOfRows()) + " " + std::to_string(dt->getNumberOfColumns()) + " " + std::to_string(raised);
    }
    if (o == "at.opts") {        // at.opts n arg1..argn m file0..file(m-1)   (AttributesTools::parseOptions; searched, not modelled)
      size_t n = toU(t[1]); std::vector<std::string> args(1, "prog");
      for (size_t i = 0; i < n; ++i) args.push_back(hexToStr(t[2 + i]));
      size_t m = toU(t[2 + n]);
      // the parameter files p0, p1, ... live in a fresh directory, which becomes the working directory of this worker
      char dir[] = "/tmp/verif-c16-opts-XXXXXX";
      if (!mkdtemp(dir)) return "bad-op";
      struct Cleanup { std::string d; size_t m; ~Cleanup() { for (size_t i = 0; i < m; ++i) unlink((d + "/p" + std::to_string(i)).c_str()); if (chdir("/") != 0) {} rmdir(d.c_str()); } } cleanup{dir, m};
      for (size_t i = 0; i < m; ++i) { std::ofstream f(std::string(dir) + "/p" + std::to_string(i), std::ios::binary); f << hexToStr(t[3 + n + i]); }
      if (chdir(dir) != 0) return "bad-op";
      std::vector<char*> argv; for (auto& a : args) argv.push_back(const_cast<char*>(a.c_str()));
      auto mp = AttributesTools::parseOptions(static_cast<int>(argv.size()), argv.data());
      return "ok " + std::to_string(mp.size());
    }
    if (o == "ap.vec") {         // ap.vec type text sep rangeOp   (ApplicationTools::getVectorParameter<T> with the range operator; searched)
      std::map<std::string, std::string> params; params["v"] = hexToStr(t[2]);
      char sep = chr(t[3]), rop = chr(t[4]);
      if (t[1] == "i") return "ok " + std::to_string(ApplicationTools::getVectorParameter<int>("v", params, sep, rop, "", "", true, false).size());
      if (t[1] == "u") return "ok " + std::to_string(ApplicationTools::getVectorParameter<size_t>("v", params, sep, rop, "", "", true, false).size());
      if (t[1] == "d") return "ok " + std::to_string(ApplicationTools::getVectorParameter<double>("v", params, sep, rop, "", "", true, false).size());
      return "bad-op";
    }
    if (o == "dd.read") {
      // flag: bit 0 = parseArguments, bit 1 = verbose (the messages go to the null sink)
      const unsigned long flag = t.size() > 2 ? toU(t[2]) : 1;
      BppODiscreteDistributionFormat f((flag & 2) != 0);
      auto d = f.readDiscreteDistribution(hexToStr(t[1]), (flag & 1) != 0);
      return "ok " + std::to_string(d->getNumberOfCategories());
    }
    if (o == "nc.vec") { auto v = NumCalcApplicationTools::getVector(hexToStr(t[1])); return "ok " + std::to_string(v.size()); }
    if (o == "nc.seq") { auto v = NumCalcApplicationTools::seqFromString(hexToStr(t[1]), hexToStr(t[2]), hexToStr(t[3])); return "ok " + std::to_string(v.size()); }
    if (o == "ct.parse") {
      std::map<std::string, std::shared_ptr<FunctionInterface>> fn;
      for (const char* n : {"a", "b", "x", "y", "f"}) fn[n] = std::make_shared<TestFunction>(1., 2.);
      fn["g"] = std::make_shared<HF1>(); fn["h"] = std::make_shared<HF2>();
      ComputationTree ct(hexToStr(t[1]), fn);
      std::string out = ct.output();
      return std::string("ok ") + b01(ct.isAllSum()) + " " + std::to_string(out.size());
    }
  } catch (Exception& e) { return "exc:bpp"; }
  catch (std::exception& e) { return "exc:std"; }
  catch (...) { return "exc:std"; }
  return "bad-op";
}

#ifdef VERIF_FUZZ
// ---------------------------------------------------------------------------------------------
// libFuzzer target (thorough tier, tools/gen_c16_fuzz.py): the input bytes are decoded into one
// operation line of the protocol above and executed.  With VERIF_C16_DECODE set the target only
// prints the operation line, so that what the fuzzer found is replayed through the ordinary
// harness / model pipeline.
static std::string keepNumbersSmall(const std::string& s, bool noExponent) {
  // a count / range / step written in the text is not an input *length*: at most 3 digits in a row
  std::string r; size_t run = 0;
  for (size_t i = 0; i < s.size(); ++i) {
    char c = s[i];
    if (c >= '0' && c <= '9') { if (++run > 3) continue; }
    else {
      if (noExponent && (c == 'e' || c == 'E') && i > 0 && ((s[i - 1] >= '0' && s[i - 1] <= '9') || s[i - 1] == '.')) continue;
      run = 0;
    }
    r.push_back(c);
  }
  if (noExponent) { std::string q; for (size_t i = 0; i < r.size(); ++i) { if (r[i] == '0' && i > 0 && (r[i - 1] == '.' )) { continue; } q.push_back(r[i]); } r = q; }
  return r;
}
static Toks decodeFuzz(const uint8_t* data, size_t size) {
  Toks t; if (size < 2) return t;
  unsigned k = data[0] % 25, o = data[1];
  std::vector<std::string> f(1);
  for (size_t i = 2; i < size; ++i) { if (data[i] == 0x1f) f.push_back(""); else f.back().push_back((char)data[i]); }
  auto F = [&](size_t i) { return i < f.size() ? f[i] : std::string(); };
  auto H = [&](size_t i) { return strToHex(F(i)); };
  auto C = [&](const char* tab, size_t n, unsigned sel) { return strToHex(std::string(1, tab[sel % n])); };
  static const char* scripts[] = {"-", "u", "n.u", "e.u", "n.n.n.u", "n.e.u.n", "r.h.n.n.n.n", "g0.g1.g7", "n.u.e.u.n.u", "e.e.n.r"};
  static const char* single[] = {"isEmpty", "upper", "lower", "rmws", "rmfirst", "rmlast", "trim", "rmnl", "rmlastnl"};
  static const char* two[] = {"count", "starts", "ends", "has"};
  static const char* sizes[] = {"0", "1", "2", "3", "4", "7", "64", "18446744073709551615", "9223372036854775808"};
  switch (k) {
    case 0: t = {std::string("tt.") + single[o % 9], H(0)}; break;
    case 1: t = {"tt.num", H(0), C(".,e-", 4, o), C("eEx.", 4, o >> 2)}; break;
    case 2: t = {(o & 1) ? "tt.resizeR" : "tt.resizeL", H(0), std::to_string((o >> 1) % 70), C(" .0", 3, o >> 7)}; break;
    case 3: t = {"tt.split", H(0), sizes[o % 9]}; break;
    case 4: t = {"tt.rmsub", H(0), C("([{a", 4, o), C(")]}(", 4, o >> 2)}; break;
    case 5: t = {"tt.rmsub5", strToHex(F(0).substr(0, 1024)), C("([<", 3, o), C(")]>", 3, o), "1", H(1), "1", H(2)}; break;   // quadratic output: 1 KiB
    case 6: t = {std::string("tt.") + two[o % 4], H(0), H(1)}; break;
    case 7: t = {"tt.replace", H(0), H(1), H(2)}; break;
    case 8: t = {"st", H(0), H(1), (o & 1) ? "1" : "0", (o & 2) ? "1" : "0", scripts[(o >> 2) % 10]}; break;
    case 9: t = {"nst", H(0), H(1), H(2), H(3), (o & 1) ? "1" : "0", scripts[(o >> 2) % 10]}; break;
    case 10: t = {"kv.single", H(0), H(1)}; break;
    case 11: t = {"kv.multi", H(0), H(1), (o & 1) ? "1" : "0"}; break;
    case 12: t = {"kv.parse", H(0)}; break;
    case 13: t = {"kv.change", H(0), H(1), (o & 1) ? "1" : "0", "1", H(2), H(3)}; break;
    case 14: t = {"glob", H(0), H(1)}; break;
    case 15: { static const char* b[] = {"#", "//", "/*"}; static const char* e[] = {"\n", "\n", "*/"};
               t = {"at.rmc", H(0), strToHex(b[o % 3]), strToHex(e[o % 3])}; break; }
    case 16: { t = {"at.map", H(0), std::to_string(f.size() - 1)}; for (size_t i = 1; i < f.size(); ++i) t.push_back(H(i)); break; }
    case 17: { std::map<std::string, std::string> m; for (size_t i = 0; i + 1 < f.size(); i += 2) m[f[i]] = f[i + 1];
               t = {"at.vars", "24", "28", "29", std::to_string(m.size())}; for (auto& kv : m) { t.push_back(strToHex(kv.first)); t.push_back(strToHex(kv.second)); } break; }
    case 18: { static const char* n[] = {"ft.name", "ft.parent", "ft.ext"}; t = {n[o % 3], H(0)}; if (o % 3 != 2) t.push_back(C("/\\.", 3, o >> 2)); break; }
    case 19: t = {"ic.read", H(0)}; break;
    case 20: t = {"dt.read", H(0), strToHex(F(1)), (o & 1) ? "1" : "0", std::to_string((int)((o >> 1) % 5) - 1)}; break;
    case 21: t = {"dd.read", strToHex(keepNumbersSmall(F(0), true)), std::to_string(o & 3)}; break;   // no exponent: the discretisations cost in the magnitude of their parameters
    case 22: t = {"nc.vec", H(0)}; break;          // any numeral: the readers refuse what describes more than 10^7 values
    case 23: t = {"nc.seq", H(0), H(1), H(2)}; break;
    case 24: t = {"ct.parse", H(0)}; break;
  }
  return t;
}
extern "C" int LLVMFuzzerTestOneInput(const uint8_t* data, size_t size) {
  static bool init = false, decode = false;
  if (!init) {
    init = true; decode = getenv("VERIF_C16_DECODE") != nullptr;
    ApplicationTools::error = nullptr;
    ApplicationTools::message = std::make_shared<NullOutputStream>();
    ApplicationTools::warning = std::make_shared<NullOutputStream>();
  }
  if (size > 4096) return 0;
  Toks t = decodeFuzz(data, size);
  if (t.empty()) return 0;
  if (decode) { std::string l; for (size_t i = 0; i < t.size(); ++i) { if (i) l += " "; l += t[i]; } std::printf("OP %s\n", l.c_str()); std::fflush(stdout); return 0; }
  (void)op(t);
  return 0;
}
#else
// ---------------------------------------------------------------------------------------------
static long envMs(const char* name, long dflt) { const char* e = getenv(name); return e ? atol(e) : dflt; }

static void armCpuTimer(long ms) {
  struct itimerval it; it.it_interval.tv_sec = 0; it.it_interval.tv_usec = 0;
  it.it_value.tv_sec = ms / 1000; it.it_value.tv_usec = (ms % 1000) * 1000;
  setitimer(ITIMER_PROF, &it, nullptr);
}

#ifdef VERIF_COVERAGE
// coverage build (tools/c16_coverage.py): the counters of a worker are written out when it ends,
// also when its CPU-time budget runs out
extern "C" int __llvm_profile_write_file(void);
static void dumpAndDie(int) { __llvm_profile_write_file(); _exit(4); }
#endif

static void worker(const std::vector<Toks>& ops, size_t from, int fd, long cpuMs) {
#ifdef VERIF_COVERAGE
  signal(SIGPROF, dumpAndDie);
#else
  signal(SIGPROF, SIG_DFL);
#endif
  for (size_t k = from; k < ops.size(); ++k) {
    armCpuTimer(cpuMs);
    std::string a = op(ops[k]);
    armCpuTimer(0);
    a += "\n";
    size_t off = 0;
    while (off < a.size()) { ssize_t w = write(fd, a.data() + off, a.size() - off); if (w < 0) { if (errno == EINTR) continue; _exit(3); } off += (size_t)w; }
  }
#ifdef VERIF_COVERAGE
  __llvm_profile_write_file();
#endif
  _exit(0);
}

int main() {
  // The formula parser recurses once per nesting level: a 4 KiB formula nests ~4000 deep, which an ordinary
  // build handles within the default 8 MiB stack (measured: plain build, "-" x 4095, "(" x 2047, "exp(" x 1000)
  // but the sanitizer build, whose frames are several times larger, does not.  The workers get a 128 MiB stack
  // so that a stack overflow reported here is the library's and not the instrumentation's.
  { struct rlimit rl; if (getrlimit(RLIMIT_STACK, &rl) == 0) { rlim_t want = 128ul << 20; if (rl.rlim_max != RLIM_INFINITY && rl.rlim_max < want) want = rl.rlim_max;
      if (rl.rlim_cur == RLIM_INFINITY || rl.rlim_cur < want) { rl.rlim_cur = want; setrlimit(RLIMIT_STACK, &rl); } } }
  // every message of the library goes to a sink (a null `warning` would be dereferenced by getAttributesMap)
  ApplicationTools::error = nullptr;
  ApplicationTools::message = std::make_shared<NullOutputStream>();
  ApplicationTools::warning = std::make_shared<NullOutputStream>();
  std::vector<Toks> ops; std::string line;
  while (std::getline(std::cin, line)) {
    Toks t = toks(line);
    if (t.empty() || t[0] == "#" || t[0] == "=" || t[0] == "case") continue;
    ops.push_back(t);
  }
  const long cpuMs = envMs("VERIF_C16_CPU_MS", 3000), wallMs = envMs("VERIF_C16_WALL_MS", 120000);
  std::vector<std::string> answers; answers.reserve(ops.size());
  char errName[] = "/tmp/verif-c16-err-XXXXXX";
  int errFd = mkstemp(errName); if (errFd >= 0) unlink(errName);
  int forkFailures = 0;
  while (answers.size() < ops.size()) {
    int fd[2]; if (pipe(fd) != 0) { perror("pipe"); return 2; }
    if (errFd >= 0) { if (ftruncate(errFd, 0) != 0) {} lseek(errFd, 0, SEEK_SET); }
    pid_t pid = fork();
    if (pid < 0) { close(fd[0]); close(fd[1]); if (++forkFailures > 20) { std::cerr << "fork failed\n"; return 2; } usleep(100000); continue; }
    if (pid == 0) {
      close(fd[0]);
      if (errFd >= 0) dup2(errFd, 2);
      { int nul = open("/dev/null", O_WRONLY); if (nul >= 0) { dup2(nul, 1); close(nul); } }   // parseOptions writes to std::cout; the answers go through the pipe
      worker(ops, answers.size(), fd[1], cpuMs);
    }
    close(fd[1]);
    std::string buf; bool timedOut = false;
    for (;;) {
      fd_set rs; FD_ZERO(&rs); FD_SET(fd[0], &rs);
      struct timeval tv; tv.tv_sec = wallMs / 1000; tv.tv_usec = (wallMs % 1000) * 1000;
      int r = select(fd[0] + 1, &rs, nullptr, nullptr, &tv);
      if (r < 0 && errno == EINTR) continue;
      if (r <= 0) { timedOut = true; break; }
      char chunk[65536]; ssize_t n = read(fd[0], chunk, sizeof chunk);
      if (n < 0 && errno == EINTR) continue;
      if (n <= 0) break;
      buf.append(chunk, (size_t)n);
      size_t p;
      while ((p = buf.find('\n')) != std::string::npos) { answers.push_back(buf.substr(0, p)); buf.erase(0, p + 1); }
    }
    close(fd[0]);
    if (timedOut) kill(pid, SIGKILL);
    int st = 0; while (waitpid(pid, &st, 0) < 0 && errno == EINTR) {}
    if (answers.size() >= ops.size()) break;
    if (!timedOut && WIFEXITED(st) && WEXITSTATUS(st) == 0) continue;      // cannot happen: worker exits only when done
    // the operation ops[answers.size()] did not answer: classify
    std::string diag;
    if (errFd >= 0) { char tmp[4096]; lseek(errFd, 0, SEEK_SET); ssize_t n = read(errFd, tmp, sizeof tmp - 1); if (n > 0) diag.assign(tmp, (size_t)n); }
    std::string cls = "ub";
    bool oom = diag.find("out of memory") != std::string::npos || diag.find("allocation-size-too-big") != std::string::npos ||
               diag.find("hard rss limit") != std::string::npos || diag.find("out-of-memory") != std::string::npos;
    if (timedOut || oom || (WIFSIGNALED(st) && (WTERMSIG(st) == SIGPROF || WTERMSIG(st) == SIGXCPU || WTERMSIG(st) == SIGKILL))) cls = "hang";
    std::cerr << "[harness C16] op #" << answers.size() << " (" << ops[answers.size()][0] << ") -> " << cls
              << (WIFSIGNALED(st) ? " signal " + std::to_string(WTERMSIG(st)) : " exit " + std::to_string(WEXITSTATUS(st)))
              << "\n" << diag.substr(0, 600) << "\n";
    answers.push_back(cls);
  }
  for (const auto& a : answers) std::cout << a << "\n";
  std::cout.flush();
  return 0;
}
#endif
