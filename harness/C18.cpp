// Harness for C18: interprets random-draw scripts against the real library
// (RandomTools, ContingencyTableGenerator, ContingencyTableTest, discrete
// distributions).  The primitive draws made by the library are recorded through
// the guarded hook RandomTools::verifDrawRecorder() and printed after the last
// ';' of the answer: they are the *input* of the Lean model.
//
//   answer := <result tokens> ; <draw> <draw> ...
//   draw   := i:<entry>:<result> | u:<hex entry>:<hex result> | c:<hex p>:<0|1>
#include "common.h"
#include <Bpp/Numeric/Random/RandomTools.h>
#include <Bpp/Numeric/Random/ContingencyTableGenerator.h>
#include <Bpp/Numeric/Stat/ContingencyTableTest.h>
#include <Bpp/Numeric/Prob/SimpleDiscreteDistribution.h>
#include <Bpp/Numeric/Constraints.h>
#include <Bpp/Numeric/Prob/GammaDiscreteDistribution.h>
#include <Bpp/Numeric/Prob/GaussianDiscreteDistribution.h>
#include <Bpp/Numeric/Prob/ExponentialDiscreteDistribution.h>
#include <Bpp/Numeric/Prob/TruncatedExponentialDiscreteDistribution.h>
#include <Bpp/Numeric/Prob/BetaDiscreteDistribution.h>
#include <Bpp/Numeric/Prob/UniformDiscreteDistribution.h>
#include <Bpp/Numeric/Hmm/FullHmmTransitionMatrix.h>
#include <Bpp/Numeric/AbstractParametrizable.h>
#include <algorithm>
#include <cmath>
#include <limits>
#include <memory>
#include <random>
#include <csignal>
#include <csetjmp>
#include <map>
#include <unistd.h>
using namespace bpp; using namespace verif;

static std::vector<RandomTools::VerifDraw> REC;

static std::string drawsStr() {
  std::string s;
  for (const auto& d : REC) {
    if (d.primitive == 'i') s += " i:" + std::to_string(static_cast<unsigned long long>(d.argument)) + ":" + std::to_string(static_cast<unsigned long long>(d.result));
    else if (d.primitive == 'u') s += " u:" + doubleToHex(d.argument) + ":" + doubleToHex(d.result);
    else s += " c:" + doubleToHex(d.argument) + ":" + (d.result != 0. ? "1" : "0");
  }
  return s;
}
struct Recording {
  Recording() { REC.clear(); RandomTools::verifDrawRecorder() = &REC; }
  ~Recording() { RandomTools::verifDrawRecorder() = nullptr; }
};

// split the argument tokens (from index `from`) at ';'
static std::vector<Toks> parts(const Toks& t, size_t from) {
  std::vector<Toks> r(1);
  for (size_t i = from; i < t.size(); ++i) { if (t[i] == ";") r.emplace_back(); else r.back().push_back(t[i]); }
  return r;
}
static std::vector<int> ints(const Toks& t) { std::vector<int> v; for (auto& s : t) v.push_back(static_cast<int>(toI(s))); return v; }
static std::vector<size_t> sizes(const Toks& t) { std::vector<size_t> v; for (auto& s : t) v.push_back(toU(s)); return v; }
static std::vector<double> dbls(const Toks& t) { std::vector<double> v; for (auto& s : t) v.push_back(hexToDouble(s)); return v; }
template<class T> static std::string showI(const std::vector<T>& v) { std::string s; for (auto x : v) s += " " + std::to_string(x); return s; }
static std::string showD(const std::vector<double>& v) { std::string s; for (auto x : v) s += " " + doubleToHex(x); return s; }

// ---------------------------------------------------------------- a hidden Markov chain with n anonymous states
struct HState : public virtual Clonable { HState* clone() const override { return new HState(*this); } };
struct HAlphabet : public virtual HmmStateAlphabet, public AbstractParametrizable {
  size_t n; HState st;
  HAlphabet(size_t k) : AbstractParametrizable(""), n(k), st() {}
  HAlphabet* clone() const override { return new HAlphabet(*this); }
  const Clonable& getState(size_t) const override { return st; }
  size_t getNumberOfStates() const override { return n; }
  bool worksWith(const HmmStateAlphabet& a) const override { return a.getNumberOfStates() == n; }
};
static std::unique_ptr<FullHmmTransitionMatrix> makeHmm(size_t n, const std::vector<double>& m) {
  std::shared_ptr<const HmmStateAlphabet> alph(new HAlphabet(n));
  std::unique_ptr<FullHmmTransitionMatrix> tm(new FullHmmTransitionMatrix(alph));
  RowMatrix<double> mat(n, n);
  for (size_t i = 0; i < n; ++i) for (size_t j = 0; j < n; ++j) mat(i, j) = m[i * n + j];
  tm->setTransitionProbabilities(mat);
  return tm;
}

// ---------------------------------------------------------------- statistics (exploration)
// Kolmogorov-Smirnov distance between the sample and the library's own cdf
// With `cens` the sample is compared with the cdf *conditionally on x < cens*: D' = sup |F_n'(x) - F(x)/F(cens)| over
// the n' sample points below cens, plus the deviation |n'/n - F(cens)| of the mass below cens, reported separately.
// Used for the beta law, whose mass piles up within one ulp of 1 when beta is small (Beta(a, 0.1): about 3 % above
// 1 - 1.1e-16): there doubles cannot resolve the cdf, qBeta returns 1 - 2.22e-16 or 1.0 (C08's kernel, not a
// sampler defect), and BetaDiscreteDistribution::randC rejects the value 1.0 (open upper bound).  Given n', the
// points below cens are an i.i.d. sample of the conditional law, so the DKW bound applies with n'.
template<class Draw, class Cdf> static std::string ks(size_t n, Draw draw, Cdf cdf, double cens = std::numeric_limits<double>::infinity()) {
  std::vector<double> x(n);
  for (size_t i = 0; i < n; ++i) x[i] = draw();
  std::sort(x.begin(), x.end());
  for (size_t i = 0; i < n; ++i) if (!(x[i] == x[i])) return "nan " + std::to_string(n);
  size_t m = n;                                  // number of points below cens
  double Fc = 1.;
  const bool censored = cens < std::numeric_limits<double>::infinity();
  if (censored) {
    m = static_cast<size_t>(std::lower_bound(x.begin(), x.end(), cens) - x.begin());
    Fc = cdf(cens);
    if (!(Fc == Fc) || !(Fc > 0.)) return "nan " + std::to_string(n);
  }
  double D = 0;
  for (size_t i = 0; i < m; ++i) {
    double F = cdf(x[i]) / Fc;
    if (!(F == F)) return "nan " + std::to_string(n);
    double lo = F - static_cast<double>(i) / static_cast<double>(m);
    double hi = static_cast<double>(i + 1) / static_cast<double>(m) - F;
    D = std::max(D, std::max(lo, hi));
  }
  // sample mean travels too (only informative)
  double mean = 0; for (double v : x) mean += v; mean /= static_cast<double>(n);
  std::string r = doubleToHex(D) + " " + std::to_string(m) + " " + doubleToHex(mean);
  if (censored) r += " " + doubleToHex(std::fabs(static_cast<double>(m) / static_cast<double>(n) - Fc));
  return r;
}

// upper end of the region in which the beta cdf is compared (see `ks`)
static const double BETA_CENS = 1. - 1e-9;

static std::string opKs(const Toks& t) {
  const std::string& fam = t[1];
  size_t n = toU(t[2]);
  std::vector<double> p; for (size_t i = 3; i < t.size(); ++i) p.push_back(hexToDouble(t[i]));
  if (fam == "unif") return ks(n, [&] { return RandomTools::giveRandomNumberBetweenZeroAndEntry(p[0]); }, [&](double x) { return x / p[0]; });
  if (fam == "gauss") return ks(n, [&] { return RandomTools::randGaussian(p[0], p[1]); }, [&](double x) { return RandomTools::pNorm(x, p[0], std::sqrt(p[1])); });
  if (fam == "gamma1") return ks(n, [&] { return RandomTools::randGamma(p[0]); }, [&](double x) { return RandomTools::pGamma(x, p[0], 1.); });
  if (fam == "gamma2") return ks(n, [&] { return RandomTools::randGamma(p[0], p[1]); }, [&](double x) { return RandomTools::pGamma(x, p[0], p[1]); });
  if (fam == "beta") return ks(n, [&] { return RandomTools::randBeta(p[0], p[1]); }, [&](double x) { return RandomTools::pBeta(x, p[0], p[1]); }, BETA_CENS);
  // the library's own cdf of "exponential with this mean": ExponentialDiscreteDistribution(lambda = 1/mean).pProb
  if (fam == "expo") { ExponentialDiscreteDistribution d(2, 1. / p[0]); return ks(n, [&] { return RandomTools::randExponential(p[0]); }, [&](double x) { return d.pProb(x); }); }
  // distribution-level continuous draws against the same object's pProb
  if (fam == "dGamma") { GammaDiscreteDistribution d(4, p[0], p[1]); return ks(n, [&] { return d.randC(); }, [&](double x) { return d.pProb(x); }); }
  // offset + Gamma(alpha, beta): p = alpha, beta, offset
  if (fam == "dGammaOff") { GammaDiscreteDistribution d(4, p[0], p[1], 0.05, 0.05, true, p[2]); return ks(n, [&] { return d.randC(); }, [&](double x) { return d.pProb(x); }); }
  if (fam == "dUnif") { UniformDiscreteDistribution d(4, p[0], p[1]); return ks(n, [&] { return d.randC(); }, [&](double x) { return d.pProb(x); }); }
  // restricted distributions (restrictToConstraint([lo, hi])): the continuous draw against the object's own cdf
  // conditioned on the restricted domain, (pProb(x) - pProb(lo)) / (pProb(hi) - pProb(lo)); p = parameters..., lo, hi
  if (fam == "rGamma" || fam == "rExpo" || fam == "rGauss" || fam == "rBeta" || fam == "rUnif") {
    std::unique_ptr<AbstractDiscreteDistribution> d;
    size_t k = p.size();
    if (fam == "rGamma") d.reset(new GammaDiscreteDistribution(4, p[0], p[1]));
    else if (fam == "rExpo") d.reset(new ExponentialDiscreteDistribution(4, p[0]));
    else if (fam == "rGauss") d.reset(new GaussianDiscreteDistribution(4, p[0], p[1]));
    else if (fam == "rBeta") d.reset(new BetaDiscreteDistribution(4, p[0], p[1]));
    else d.reset(new UniformDiscreteDistribution(4, p[0], p[1]));
    double lo = p[k - 2], hi = p[k - 1];
    IntervalConstraint ic(lo, hi, true, true);
    d->restrictToConstraint(ic);
    double Flo = d->pProb(lo), Fhi = d->pProb(hi);
    return ks(n, [&] { return d->randC(); }, [&](double x) { return x <= lo ? 0. : x >= hi ? 1. : (d->pProb(x) - Flo) / (Fhi - Flo); });
  }
  if (fam == "dGauss") { GaussianDiscreteDistribution d(4, p[0], p[1]); return ks(n, [&] { return d.randC(); }, [&](double x) { return d.pProb(x); }); }
  if (fam == "dExpo") { ExponentialDiscreteDistribution d(4, p[0]); return ks(n, [&] { return d.randC(); }, [&](double x) { return d.pProb(x); }); }
  if (fam == "dTExpo") { TruncatedExponentialDiscreteDistribution d(4, p[0], p[1]); return ks(n, [&] { return d.randC(); }, [&](double x) { return d.pProb(x); }); }
  if (fam == "dBeta") { BetaDiscreteDistribution d(4, p[0], p[1]); return ks(n, [&] { return d.randC(); }, [&](double x) { return d.pProb(x); }, BETA_CENS); }
  return "bad-op";
}

// counts of N discrete draws: chi2 <kind> <N> <w...>
static std::string opChi2(const Toks& t) {
  const std::string& kind = t[1];
  size_t N = toU(t[2]);
  std::vector<double> w; for (size_t i = 3; i < t.size(); ++i) w.push_back(hexToDouble(t[i]));
  size_t k = w.size();
  std::vector<size_t> cnt(k + 1, 0); // last cell: anything outside 0..k-1
  auto hit = [&](size_t i) { cnt[i < k ? i : k]++; };
  if (kind == "pairs" || kind == "pairsw") {
    // the pair (first, second) element of a sample with replacement of size 2: k*k cells (+ 1 for anything else)
    std::vector<size_t> c2(k * k + 1, 0);
    std::vector<size_t> v(k); std::iota(v.begin(), v.end(), 0);
    for (size_t i = 0; i < N; ++i) {
      std::vector<size_t> out(2);
      if (kind == "pairs") RandomTools::getSample(v, out, true); else RandomTools::getSample(v, w, out, true);
      c2[out[0] < k && out[1] < k ? out[0] * k + out[1] : k * k]++;
    }
    return showI(c2).substr(1);
  }
  if (kind == "pickwc") {
    std::vector<size_t> v(k); std::iota(v.begin(), v.end(), 0);
    for (size_t i = 0; i < N; ++i) hit(RandomTools::pickOne(const_cast<const std::vector<size_t>&>(v), const_cast<const std::vector<double>&>(w)));
  } else if (kind == "coin") {
    // flipCoin(p) with p = w[0] / (w[0] + w[1]): cell 0 = true, cell 1 = false
    double pr = w[0] / (w[0] + w[1]);
    for (size_t i = 0; i < N; ++i) hit(RandomTools::flipCoin(pr) ? 0 : 1);
  } else if (kind == "uint") {
    // giveIntRandomNumberBetweenZeroAndEntry(k): uniform on 0..k-1
    for (size_t i = 0; i < N; ++i) hit(RandomTools::giveIntRandomNumberBetweenZeroAndEntry<size_t>(k));
  } else if (kind == "pick1c") {
    std::vector<size_t> v(k); std::iota(v.begin(), v.end(), 0);
    for (size_t i = 0; i < N; ++i) hit(RandomTools::pickOne(const_cast<const std::vector<size_t>&>(v)));
  } else if (kind == "cumsum") {
    std::vector<double> c = VectorTools::cumSum(w); double s = c.back(); for (auto& x : c) x /= s; c.back() = 1.;
    for (size_t i = 0; i < N; ++i) hit(RandomTools::pickFromCumSum(c));
  } else if (kind == "multinom") {
    std::vector<size_t> s = RandomTools::randMultinomial(N, w);
    for (size_t x : s) hit(x);
  } else if (kind == "samplew") {
    // first element of a weighted sample without replacement of size 1
    std::vector<size_t> v(k); std::iota(v.begin(), v.end(), 0);
    for (size_t i = 0; i < N; ++i) { std::vector<size_t> out(1); RandomTools::getSample(v, w, out, false); hit(out[0]); }
  } else if (kind == "samplewfull") {
    // first element of a weighted sample without replacement as long as the source: still a weighted pick
    std::vector<size_t> v(k); std::iota(v.begin(), v.end(), 0);
    for (size_t i = 0; i < N; ++i) { std::vector<size_t> out(k); RandomTools::getSample(v, w, out, false); hit(out[0]); }
  } else if (kind == "samplewr") {
    // every element of weighted samples WITH replacement that are longer than the source (size k + 3)
    std::vector<size_t> v(k); std::iota(v.begin(), v.end(), 0);
    for (size_t i = 0; i < N; i += k + 3) { std::vector<size_t> out(k + 3); RandomTools::getSample(v, w, out, true); for (size_t x : out) hit(x); }
  } else if (kind == "samplewe") {
    // ... and of samples exactly as long as the source
    std::vector<size_t> v(k); std::iota(v.begin(), v.end(), 0);
    for (size_t i = 0; i < N; i += k) { std::vector<size_t> out(k); RandomTools::getSample(v, w, out, true); for (size_t x : out) hit(x); }
  } else if (kind == "pickw") {
    // the non-const weighted overload with replacement
    std::vector<size_t> v(k); std::iota(v.begin(), v.end(), 0); std::vector<double> w2(w);
    for (size_t i = 0; i < N; ++i) hit(RandomTools::pickOne(v, w2, true));
  } else if (kind == "shuffle") {
    // position taken by element 0 in a full sample without replacement (uniform over k positions)
    std::vector<size_t> v(k); std::iota(v.begin(), v.end(), 0);
    for (size_t i = 0; i < N; ++i) { std::vector<size_t> out(k); RandomTools::getSample(v, out, false); hit(static_cast<size_t>(std::find(out.begin(), out.end(), size_t(0)) - out.begin())); }
  } else if (kind == "drand") {
    std::vector<double> vals(k); for (size_t i = 0; i < k; ++i) vals[i] = static_cast<double>(i);
    double s = 0; for (double x : w) s += x;
    std::vector<double> pr(w); for (auto& x : pr) x /= s;
    SimpleDiscreteDistribution d(vals, pr, 1e-6, true);
    for (size_t i = 0; i < N; ++i) { double x = d.rand(); hit(x >= 0 && x < static_cast<double>(k) && x == std::floor(x) ? static_cast<size_t>(x) : k); }
  } else return "bad-op";
  return showI(cnt).substr(1);
}

// discrete draw of a discretised continuous distribution: chi2 against the object's own class probabilities
static std::string opChi2Dist(const Toks& t) {
  const std::string& fam = t[1];
  size_t N = toU(t[2]); size_t ncat = toU(t[3]);
  std::vector<double> p; for (size_t i = 4; i < t.size(); ++i) p.push_back(hexToDouble(t[i]));
  if (fam == "hmm") {
    // first state of N chains against the equilibrium frequencies of a fresh object
    size_t n = ncat;
    auto tm = makeHmm(n, p), fresh = makeHmm(n, p);
    std::vector<size_t> cnt(n + 1, 0);
    for (size_t i = 0; i < N; ++i) { std::vector<size_t> st = tm->sample(2); cnt[st[0] < n ? st[0] : n]++; }
    std::string s = showI(cnt).substr(1) + " ;";
    const std::vector<double>& eq = fresh->getEquilibriumFrequencies();
    for (size_t j = 0; j < n; ++j) s += " " + doubleToHex(eq[j]);
    return s;
  }
  std::unique_ptr<DiscreteDistributionInterface> d;
  if (fam == "dGamma") d.reset(new GammaDiscreteDistribution(ncat, p[0], p[1]));
  else if (fam == "dGauss") d.reset(new GaussianDiscreteDistribution(ncat, p[0], p[1]));
  else if (fam == "dExpo") d.reset(new ExponentialDiscreteDistribution(ncat, p[0]));
  else if (fam == "dBeta") d.reset(new BetaDiscreteDistribution(ncat, p[0], p[1]));
  else return "bad-op";
  size_t k = d->getNumberOfCategories();
  std::vector<double> cats = d->getCategories();
  std::vector<size_t> cnt(k + 1, 0);
  for (size_t i = 0; i < N; ++i) {
    double x = d->rand();
    size_t j = 0; while (j < k && cats[j] != x) ++j;
    cnt[j]++;
  }
  std::string s = showI(cnt).substr(1) + " ;";
  for (size_t j = 0; j < k; ++j) s += " " + doubleToHex(d->getProbability(j));
  return s;
}

// cell (0,0) of N random 2x2 tables: chi2rc <N> r0 r1 c0 c1  (law: hypergeometric)
static std::string opChi2Rc(const Toks& t) {
  size_t N = toU(t[1]); std::vector<size_t> r = {toU(t[2]), toU(t[3])}, c = {toU(t[4]), toU(t[5])};
  size_t k = std::min(r[0], c[0]);
  std::vector<size_t> cnt(k + 2, 0);
  ContingencyTableGenerator g(r, c);
  for (size_t i = 0; i < N; ++i) { RowMatrix<size_t> tb = g.rcont2(); size_t x = tb(0, 0); cnt[x <= k ? x : k + 1]++; }
  return showI(cnt).substr(1);
}

// cells (0,0),(0,1) of N random 2x3 tables (shape "r") or cells (0,0),(1,0) of N random 3x2 tables (shape "c"):
// chi2rc3 <N> <r|c> a0 a1 b0 b1 b2   (a: the two margins of the short side, b: the three of the long side;
// law: multivariate hypergeometric C(b0,x0) C(b1,x1) C(b2,a0-x0-x1) / C(N,a0)); cell index x0 * (b1+1) + x1
static std::string opChi2Rc3(const Toks& t) {
  size_t N = toU(t[1]); bool rowShape = t[2] == "r";
  std::vector<size_t> a = {toU(t[3]), toU(t[4])}, b = {toU(t[5]), toU(t[6]), toU(t[7])};
  size_t nc = (b[0] + 1) * (b[1] + 1);
  std::vector<size_t> cnt(nc + 1, 0);
  ContingencyTableGenerator g(rowShape ? a : b, rowShape ? b : a);
  for (size_t i = 0; i < N; ++i) {
    RowMatrix<size_t> tb = g.rcont2();
    size_t x0 = tb(0, 0), x1 = rowShape ? tb(0, 1) : tb(1, 0);
    cnt[x0 <= b[0] && x1 <= b[1] ? x0 * (b[1] + 1) + x1 : nc]++;
  }
  return showI(cnt).substr(1);
}

static std::string opRepro(const Toks& t) {
  unsigned long seed = static_cast<unsigned long>(toU(t[1]));
  auto run = [&]() {
    std::vector<double> r;
    RandomTools::setSeed(static_cast<std::mt19937::result_type>(seed));
    r.push_back(RandomTools::giveRandomNumberBetweenZeroAndEntry(1.0));
    r.push_back(static_cast<double>(RandomTools::giveIntRandomNumberBetweenZeroAndEntry<size_t>(1000)));
    r.push_back(RandomTools::flipCoin(0.3) ? 1. : 0.);
    r.push_back(RandomTools::randGaussian(1., 2.));
    r.push_back(RandomTools::randGamma(0.7));
    r.push_back(RandomTools::randGamma(2.5, 3.));
    r.push_back(RandomTools::randBeta(2., 3.));
    r.push_back(RandomTools::randExponential(2.));
    std::vector<int> v = {1, 2, 3, 4, 5, 6, 7}; std::vector<int> o(7);
    RandomTools::getSample(v, o, false); for (int x : o) r.push_back(x);
    std::vector<double> w = {1, 2, 3, 4, 5, 6, 7}; std::vector<int> o2(4);
    RandomTools::getSample(v, w, o2, false); for (int x : o2) r.push_back(x);
    std::vector<size_t> ms = RandomTools::randMultinomial(5, w); for (size_t x : ms) r.push_back(static_cast<double>(x));
    ContingencyTableGenerator g(std::vector<size_t>{4, 6, 5}, std::vector<size_t>{7, 8});
    RowMatrix<size_t> tb = g.rcont2();
    for (size_t i = 0; i < 3; ++i) for (size_t j = 0; j < 2; ++j) r.push_back(static_cast<double>(tb(i, j)));
    return r;
  };
  std::vector<double> a = run(), b = run();
  bool same = a.size() == b.size() && std::memcmp(a.data(), b.data(), a.size() * sizeof(double)) == 0;
  // the stream really is std::mt19937 seeded with `seed`: first uniform draw reproduced independently
  std::mt19937 ref(static_cast<std::mt19937::result_type>(seed));
  std::uniform_real_distribution<double> dis(0, 1.0);
  bool first = dis(ref) == a[0];
  // a different seed gives a different stream (not a constant generator)
  RandomTools::setSeed(static_cast<std::mt19937::result_type>(seed + 1));
  bool differs = RandomTools::giveRandomNumberBetweenZeroAndEntry(1.0) != a[0];
  return std::string(same ? "1" : "0") + " " + (first ? "1" : "0") + " " + (differs ? "1" : "0");
}

// ---------------------------------------------------------------- one routine, no hidden state
// `repro1 <routine> <seed> <pre1> <pre2>`: two executions A and B of
//     setSeed(other); <routine> called pre times; setSeed(seed); <routine> called 3 times
// with pre = pre1 resp. pre2.  Answer: the values observed after the second setSeed in A ; in B ; whether the
// generator ended in the same state.  If the routine is a function of (generator state, arguments) only, A and B
// agree whatever happened before the seed was set.
static void reproCall(const std::string& r, std::vector<double>& out) {
  auto push = [&](double x) { out.push_back(x); };
  std::vector<int> v = {1, 2, 3, 4, 5, 6, 7};
  std::vector<double> w = {1, 2, 3, 4, 5, 6, 7};
  if (r == "giveRandomNumberBetweenZeroAndEntry") push(RandomTools::giveRandomNumberBetweenZeroAndEntry(2.5));
  else if (r == "giveIntRandomNumberBetweenZeroAndEntry") push(static_cast<double>(RandomTools::giveIntRandomNumberBetweenZeroAndEntry<size_t>(1000)));
  else if (r == "flipCoin") push(RandomTools::flipCoin(0.3) ? 1. : 0.);
  else if (r == "randGaussian") push(RandomTools::randGaussian(1., 2.));
  else if (r == "randGamma1") push(RandomTools::randGamma(0.7));
  else if (r == "randGamma2") push(RandomTools::randGamma(2.5, 3.));
  else if (r == "randBeta") push(RandomTools::randBeta(2., 3.));
  else if (r == "randExponential") push(RandomTools::randExponential(2.));
  else if (r == "pickOne") { push(RandomTools::pickOne(v, false)); push(RandomTools::pickOne(v, true)); }
  else if (r == "pickOneConst") push(RandomTools::pickOne(const_cast<const std::vector<int>&>(v)));
  else if (r == "pickOneW") { push(RandomTools::pickOne(v, w, false)); push(RandomTools::pickOne(v, w, true)); }
  else if (r == "pickOneWConst") push(RandomTools::pickOne(const_cast<const std::vector<int>&>(v), const_cast<const std::vector<double>&>(w)));
  else if (r == "getSample") { std::vector<int> o(5); RandomTools::getSample(v, o, false); for (int x : o) push(x); }
  else if (r == "getSampleRepl") { std::vector<int> o(9); RandomTools::getSample(v, o, true); for (int x : o) push(x); }
  else if (r == "getSampleW") { std::vector<int> o(4); RandomTools::getSample(v, w, o, false); for (int x : o) push(x); }
  else if (r == "getSampleWRepl") { std::vector<int> o(9); RandomTools::getSample(v, w, o, true); for (int x : o) push(x); }
  else if (r == "pickFromCumSum") { std::vector<double> c = {0.1, 0.3, 0.35, 0.8, 1.0}; push(static_cast<double>(RandomTools::pickFromCumSum(c))); }
  else if (r == "randMultinomial") { for (size_t x : RandomTools::randMultinomial(5, w)) push(static_cast<double>(x)); }
  else if (r == "rcont2") {
    ContingencyTableGenerator g(std::vector<size_t>{4, 6, 5}, std::vector<size_t>{7, 5, 3});
    RowMatrix<size_t> tb = g.rcont2();
    for (size_t i = 0; i < 3; ++i) for (size_t j = 0; j < 3; ++j) push(static_cast<double>(tb(i, j)));
  }
  else if (r == "ContingencyTableTest") {
    std::vector<std::vector<size_t>> tb = {{6, 2, 3}, {1, 7, 4}};
    ContingencyTableTest test(tb, 25, false); push(test.getPValue());
  }
  else if (r == "discreteRand") { SimpleDiscreteDistribution d(std::vector<double>{1., 2., 5.}, std::vector<double>{0.25, 0.5, 0.25}, 1e-6, true); push(d.rand()); }
  else if (r == "Gamma::randC") { GammaDiscreteDistribution d(4, 2., 3.); push(d.randC()); push(d.rand()); }
  else if (r == "Gaussian::randC") { GaussianDiscreteDistribution d(4, 1., 2.); push(d.randC()); push(d.rand()); }
  else if (r == "Exponential::randC") { ExponentialDiscreteDistribution d(4, 2.); push(d.randC()); push(d.rand()); }
  else if (r == "TruncExponential::randC") { TruncatedExponentialDiscreteDistribution d(4, 2., 3.); push(d.randC()); push(d.rand()); }
  else if (r == "Beta::randC") { BetaDiscreteDistribution d(4, 2., 3.); push(d.randC()); push(d.rand()); }
  else if (r == "Uniform::randC") { UniformDiscreteDistribution d(4, -1., 3.); push(d.randC()); push(d.rand()); }
  else if (r == "hmmSample") { auto tm = makeHmm(2, std::vector<double>{0.9, 0.1, 0.2, 0.8}); for (size_t x : tm->sample(6)) push(static_cast<double>(x)); }
  else throw Exception("unknown routine " + r);
}

static std::string opRepro1(const Toks& t) {
  const std::string& r = t[1];
  auto seed = static_cast<std::mt19937::result_type>(toU(t[2]));
  size_t pre[2] = {toU(t[3]), toU(t[4])};
  std::vector<double> obs[2];
  std::mt19937 fin[2];
  for (int k = 0; k < 2; ++k) {
    std::vector<double> junk;
    RandomTools::setSeed(static_cast<std::mt19937::result_type>(seed * 7919u + 17u + static_cast<unsigned>(k)));
    for (size_t i = 0; i < pre[k]; ++i) reproCall(r, junk);
    RandomTools::setSeed(seed);
    for (int i = 0; i < 3; ++i) reproCall(r, obs[k]);
    fin[k] = RandomTools::DEFAULT_GENERATOR;
  }
  return showD(obs[0]) + " ;" + showD(obs[1]) + " ; " + (fin[0] == fin[1] ? "1" : "0");
}

static std::string op(const Toks& t) {
  const std::string& o = t[0];
  if (o == "seed") { RandomTools::setSeed(static_cast<std::mt19937::result_type>(toU(t[1]))); return "ok"; }
  if (o == "pick1") {
    bool repl = t[1] == "1"; std::vector<int> v = ints(parts(t, 2)[0]);
    Recording rec; int e = RandomTools::pickOne(v, repl);
    return std::to_string(e) + " ;" + showI(v) + " ;" + drawsStr();
  }
  if (o == "pick1c") {
    const std::vector<int> v = ints(parts(t, 1)[0]);
    Recording rec; int e = RandomTools::pickOne(v);
    return std::to_string(e) + " ;" + drawsStr();
  }
  if (o == "pickw") {
    bool repl = t[1] == "1"; auto p = parts(t, 2); std::vector<int> v = ints(p[0]); std::vector<double> w = dbls(p.size() > 1 ? p[1] : Toks());
    Recording rec; int e = RandomTools::pickOne(v, w, repl);
    return std::to_string(e) + " ;" + showI(v) + " ;" + showD(w) + " ;" + drawsStr();
  }
  if (o == "pickwc") {
    auto p = parts(t, 1); const std::vector<int> v = ints(p[0]); const std::vector<double> w = dbls(p.size() > 1 ? p[1] : Toks());
    Recording rec; int e = RandomTools::pickOne(v, w);
    return std::to_string(e) + " ;" + drawsStr();
  }
  if (o == "sample") {
    bool repl = t[1] == "1"; size_t k = toU(t[2]); const std::vector<int> v = ints(parts(t, 3)[0]);
    std::vector<int> out(k, -1);
    Recording rec; RandomTools::getSample(v, out, repl);
    return showI(out) + " ;" + drawsStr();
  }
  if (o == "samplew") {
    bool repl = t[1] == "1"; size_t k = toU(t[2]); auto p = parts(t, 3); const std::vector<int> v = ints(p[0]); const std::vector<double> w = dbls(p.size() > 1 ? p[1] : Toks());
    std::vector<int> out(k, -1);
    Recording rec; RandomTools::getSample(v, w, out, repl);
    return showI(out) + " ;" + drawsStr();
  }
  if (o == "cumsum") {
    const std::vector<double> w = dbls(parts(t, 1)[0]);
    Recording rec; size_t pos = RandomTools::pickFromCumSum(w);
    return std::to_string(pos) + " ;" + drawsStr();
  }
  if (o == "multinom") {
    size_t n = toU(t[1]); const std::vector<double> pr = dbls(parts(t, 2)[0]);
    Recording rec; std::vector<size_t> s = RandomTools::randMultinomial(n, pr);
    return showI(s) + " ;" + drawsStr();
  }
  if (o == "drand") {
    auto p = parts(t, 1); std::vector<double> vals = dbls(p[0]); std::vector<double> pr = dbls(p.size() > 1 ? p[1] : Toks());
    SimpleDiscreteDistribution d(vals, pr, 1e-6, true);
    Recording rec; double x = d.rand();
    return doubleToHex(x) + " ;" + drawsStr();
  }
  if (o == "hmm") {
    size_t n = toU(t[1]), size = toU(t[2]); std::vector<double> m = dbls(parts(t, 3).size() > 1 ? parts(t, 3)[1] : Toks());
    auto tm = makeHmm(n, m), fresh = makeHmm(n, m);
    std::vector<size_t> st;
    std::string d;
    { Recording rec; st = tm->sample(size); d = drawsStr(); }
    std::string s = showI(st) + " ;";
    const Matrix<double>& pij = tm->getPij();
    for (size_t i = 0; i < n; ++i) for (size_t j = 0; j < n; ++j) s += " " + doubleToHex(pij(i, j));
    s += " ;" + showD(tm->getEquilibriumFrequencies());      // what sample() used (the flag is up to date after sample)
    s += " ;" + showD(fresh->getEquilibriumFrequencies());   // computed by an object nobody has queried yet
    return s + " ;" + d;
  }
  if (o == "rcont2") {
    auto p = parts(t, 1); std::vector<size_t> r = sizes(p[0]); std::vector<size_t> c = sizes(p.size() > 1 ? p[1] : Toks());
    ContingencyTableGenerator g(r, c);
    RowMatrix<size_t> tb = g.rcont2();
    std::string s;
    for (size_t i = 0; i < tb.getNumberOfRows(); ++i) for (size_t j = 0; j < tb.getNumberOfColumns(); ++j) s += " " + std::to_string(static_cast<unsigned long long>(tb(i, j)));
    return s;
  }
  if (o == "ctest") {
    unsigned int nb = static_cast<unsigned int>(toU(t[1])); size_t nr = toU(t[2]), nc = toU(t[3]);
    std::vector<std::vector<size_t>> tb(nr, std::vector<size_t>(nc));
    for (size_t i = 0; i < nr; ++i) for (size_t j = 0; j < nc; ++j) tb[i][j] = toU(t[4 + i * nc + j]);
    const std::mt19937 g0 = RandomTools::DEFAULT_GENERATOR;
    ContingencyTableTest test(tb, nb, false);
    const std::mt19937 g1 = RandomTools::DEFAULT_GENERATOR;
    std::vector<size_t> m1 = test.getMarginRows(), m2 = test.getMarginColumns();
    std::string s = doubleToHex(test.getStatistic()) + " " + doubleToHex(test.getPValue()) + " " + doubleToHex(test.getDegreesOfFreedom());
    s += " ;" + showI(m1) + " ;" + showI(m2) + " ;";
    // Replay: the statistics of the nb tables that rcont2() returns from the generator state the constructor
    // started in (same expression as ContingencyTableTest.cpp:70-96), and whether the constructor left the
    // generator in the state reached after exactly these nb tables.
    RandomTools::DEFAULT_GENERATOR = g0;
    if (nb > 0) {
      size_t tot = 0; for (size_t x : m1) tot += x;
      RowMatrix<long double> expc(nr, nc);
      for (size_t i = 0; i < nr; ++i) for (size_t j = 0; j < nc; ++j)
        expc(i, j) = static_cast<long double>(m1[i] * m2[j]) / static_cast<long double>(tot);
      ContingencyTableGenerator ctgen(m1, m2);
      for (unsigned int k = 0; k < nb; ++k) {
        RowMatrix<size_t> rep = ctgen.rcont2();
        double stat_rep = 0;
        for (size_t i = 0; i < nr; ++i) for (size_t j = 0; j < nc; ++j) {
          long double c = rep(i, j); long double e = expc(i, j);
          stat_rep += static_cast<double>(std::pow(c - e, 2.L) / e);
        }
        s += " " + doubleToHex(stat_rep);
      }
    }
    bool same = RandomTools::DEFAULT_GENERATOR == g1;
    RandomTools::DEFAULT_GENERATOR = g1;
    return s + " ; " + (same ? "1" : "0");
  }
  if (o == "ks") return opKs(t);
  if (o == "chi2") return opChi2(t);
  if (o == "chi2d") return opChi2Dist(t);
  if (o == "chi2rc") return opChi2Rc(t);
  if (o == "chi2rc3") return opChi2Rc3(t);
  if (o == "repro") return opRepro(t);
  if (o == "repro1") return opRepro1(t);
  return "bad-op";
}

// An operation that does not come back within OP_TIMEOUT seconds answers `hang`: the alarm handler jumps
// back to the interpreter loop (the interrupted library call is abandoned; whatever it held is leaked).
// After 3 hangs of one kind of operation in a process the following ones of that kind answer `hang`
// at once, so that a systematic non-termination costs seconds, not hours.  The repaired library never
// needs this; the unrepaired rcont2 did.
static const unsigned OP_TIMEOUT = 3;
static sigjmp_buf JMP;
static void onAlarm(int) { siglongjmp(JMP, 1); }

int main() {
  std::signal(SIGALRM, onAlarm);
  static std::map<std::string, int> hangs;
  return runLoop(
    [&](const Toks&) { RandomTools::verifDrawRecorder() = nullptr; },
    [&](const Toks& t) -> std::string {
      if (hangs[t[0]] >= 3) return "hang";
      if (sigsetjmp(JMP, 1) != 0) { alarm(0); RandomTools::verifDrawRecorder() = nullptr; hangs[t[0]]++; return "hang"; }
      struct Guard { Guard() { alarm(OP_TIMEOUT); } ~Guard() { alarm(0); } } guard;
      try { return op(t); }
      catch (IndexOutOfBoundsException&) { RandomTools::verifDrawRecorder() = nullptr; return "exc:index"; }
      catch (EmptyVectorException<int>&) { RandomTools::verifDrawRecorder() = nullptr; return "exc:empty"; }
      catch (EmptyVectorException<size_t>&) { RandomTools::verifDrawRecorder() = nullptr; return "exc:empty"; }
      catch (EmptyVectorException<double>&) { RandomTools::verifDrawRecorder() = nullptr; return "exc:empty"; }
      catch (Exception&) { RandomTools::verifDrawRecorder() = nullptr; return "exc:bpp"; }
    });
}
