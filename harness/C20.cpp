// Harness for C20: interprets range scripts against Bpp/Numeric/Range.h
// instantiated at int, unsigned int and double (chosen by the `case` line).
#include "common.h"
#include <Bpp/Numeric/Range.h>
#include <memory>
using namespace bpp; using namespace verif;

struct IMachine { virtual ~IMachine() {} virtual std::string op(const Toks& t) = 0; };

template<class T> static std::string num(T v) {
  // all values in scripts are integers; print as integer in every instantiation
  std::ostringstream os; os << static_cast<long long>(v); return os.str();
}

template<class T> struct Machine : IMachine {
  std::vector<std::unique_ptr<MultiRange<T>>> mr;
  std::vector<std::unique_ptr<RangeSet<T>>> rs;
  Machine() { for (int i = 0; i < 4; ++i) { mr.emplace_back(new MultiRange<T>()); rs.emplace_back(new RangeSet<T>()); } }
  static T val(const std::string& s) { return static_cast<T>(toI(s)); }
  std::string show(const RangeCollection<T>& c) {
    std::string s;
    for (size_t i = 0; i < c.size(); ++i) { s += num(c.getRange(i).begin()) + " " + num(c.getRange(i).end()) + " "; }
    s += "; " + std::to_string(static_cast<long long>(c.totalLength()));
    return s;
  }
  std::string op(const Toks& t) override {
    const std::string& o = t[0];
    if (o == "mr.add") { size_t k = toU(t[1]); mr[k]->addRange(Range<T>(val(t[2]), val(t[3]))); return show(*mr[k]); }
    if (o == "mr.restrict") { size_t k = toU(t[1]); mr[k]->restrictTo(Range<T>(val(t[2]), val(t[3]))); return show(*mr[k]); }
    if (o == "mr.filter") { size_t k = toU(t[1]); mr[k]->filterWithin(Range<T>(val(t[2]), val(t[3]))); return show(*mr[k]); }
    if (o == "mr.clear") { size_t k = toU(t[1]); mr[k]->clear(); return show(*mr[k]); }
    if (o == "mr.copy") { size_t k = toU(t[1]), j = toU(t[2]); std::unique_ptr<MultiRange<T>> c(new MultiRange<T>(*mr[k])); mr[j] = std::move(c); return show(*mr[j]); }
    if (o == "mr.assign") { size_t k = toU(t[1]), j = toU(t[2]); if (k != j) *mr[j] = *mr[k]; return show(*mr[j]); }
    if (o == "mr.get") { size_t k = toU(t[1]); return show(*mr[k]); }
    if (o == "rs.add") { size_t k = toU(t[1]); rs[k]->addRange(Range<T>(val(t[2]), val(t[3]))); return show(*rs[k]); }
    if (o == "rs.restrict") { size_t k = toU(t[1]); rs[k]->restrictTo(Range<T>(val(t[2]), val(t[3]))); return show(*rs[k]); }
    if (o == "rs.filter") { size_t k = toU(t[1]); rs[k]->filterWithin(Range<T>(val(t[2]), val(t[3]))); return show(*rs[k]); }
    if (o == "rs.clear") { size_t k = toU(t[1]); rs[k]->clear(); return show(*rs[k]); }
    if (o == "rs.copy") { size_t k = toU(t[1]), j = toU(t[2]); std::unique_ptr<RangeSet<T>> c(new RangeSet<T>(*rs[k])); rs[j] = std::move(c); return show(*rs[j]); }
    if (o == "rs.assign") { size_t k = toU(t[1]), j = toU(t[2]); if (k != j) *rs[j] = *rs[k]; return show(*rs[j]); }
    if (o == "rs.get") { size_t k = toU(t[1]); return show(*rs[k]); }
    if (o == "r.pred") {
      Range<T> x(val(t[1]), val(t[2])), r(val(t[3]), val(t[4]));
      return num(x.begin()) + " " + num(x.end()) + " " + (x.overlap(r) ? "1" : "0") + " " + (x.isContiguous(r) ? "1" : "0") + " "
        + (x.contains(r) ? "1" : "0") + " " + (x.isEmpty() ? "1" : "0") + " " + num(x.length());
    }
    if (o == "r.expand") { Range<T> x(val(t[1]), val(t[2])), r(val(t[3]), val(t[4])); x.expandWith(r); return num(x.begin()) + " " + num(x.end()); }
    if (o == "r.slice") { Range<T> x(val(t[1]), val(t[2])), r(val(t[3]), val(t[4])); x.sliceWith(r); return num(x.begin()) + " " + num(x.end()); }
    if (o == "r.shift") {
      Range<T> x(val(t[1]), val(t[2])); T v = val(t[3]);
      Range<T> y = x + v; Range<T> z = y - v;
      return num(y.begin()) + " " + num(y.end()) + " " + num(y.length()) + " " + num(z.begin()) + " " + num(z.end());
    }
    return "bad-op";
  }
};

int main() {
  std::unique_ptr<IMachine> m(new Machine<int>());
  return runLoop(
    [&](const Toks& t) {
      std::string ty = t.size() > 2 ? t[2] : "int";
      if (ty == "uint") m.reset(new Machine<unsigned int>());
      else if (ty == "double") m.reset(new Machine<double>());
      else m.reset(new Machine<int>());
    },
    [&](const Toks& t) { return m->op(t); });
}
