// Harness for C20: interprets range scripts against Bpp/Numeric/Range.h
// instantiated at int, unsigned int and double (chosen by the `case` line:
// `case <tag> int|uint|double [scale]`).  A script integer n stands for the coordinate
// n / scale (scale is 1 except for double), and a coordinate v is printed as v * scale.
#include "common.h"
#include <Bpp/Numeric/Range.h>
#include <memory>
using namespace bpp; using namespace verif;

static_assert(sizeof(unsigned int) == 4, "the model of `unsigned` is UInt32");
static_assert(sizeof(size_t) == 8, "the model of the totalLength accumulator is modulo 2^64");

struct IMachine { virtual ~IMachine() {} virtual std::string op(const Toks& t) = 0; };

template<class T> struct Machine : IMachine {
  std::vector<std::unique_ptr<MultiRange<T>>> mr;
  std::vector<std::unique_ptr<RangeSet<T>>> rs;
  long long scale;
  explicit Machine(long long sc) : scale(sc) { for (int i = 0; i < 4; ++i) { mr.emplace_back(new MultiRange<T>()); rs.emplace_back(new RangeSet<T>()); } }
  T val(const std::string& s) const { return static_cast<T>(static_cast<T>(toI(s)) / static_cast<T>(scale)); }
  std::string num(T v) const { std::ostringstream os; os << static_cast<long long>(v * static_cast<T>(scale)); return os.str(); }
  // the full observation of a collection through the RangeCollection interface:
  //   <getRange(i).begin end>* ; totalLength ; size isEmpty ; <bounds>* ; <shared cells> ; toString
  std::string show(const RangeCollection<T>& c, const std::string& bounds) const {
    std::string s;
    for (size_t i = 0; i < c.size(); ++i) { s += num(c.getRange(i).begin()) + " " + num(c.getRange(i).end()) + " "; }
    s += "; " + std::to_string(static_cast<unsigned long long>(c.totalLength()));
    s += " ; " + std::to_string(static_cast<unsigned long long>(c.size())) + " " + (c.isEmpty() ? "1" : "0");
    s += " ; " + bounds + "; " + std::to_string(sharedCells()) + " ; " + c.toString();
    return s;
  }
  // ownership (theorem copy_independent, predicate Sep): number of Range<T> cells that are reachable
  // from two places (two collections, or twice from one); &getRange(i) is the owned pointer
  size_t sharedCells() const {
    std::vector<const Range<T>*> all;
    for (const auto& m : mr) for (size_t i = 0; i < m->size(); ++i) all.push_back(&m->getRange(i));
    for (const auto& r : rs) for (size_t i = 0; i < r->size(); ++i) all.push_back(&r->getRange(i));
    std::sort(all.begin(), all.end());
    size_t n = 0;
    for (size_t i = 1; i < all.size(); ++i) if (all[i] == all[i - 1]) ++n;
    return n;
  }
  std::string showMr(size_t k) const {
    std::string b; for (T v : mr[k]->getBounds()) b += num(v) + " ";
    return show(*mr[k], b);
  }
  std::string showRs(size_t k) const {
    // RangeSet has no getBounds(): read the exposed vector (getSet) instead
    const RangeSet<T>& c = *rs[k];
    std::string b; for (const Range<T>* r : c.getSet()) b += num(r->begin()) + " " + num(r->end()) + " ";
    return show(c, b);
  }
  std::string op(const Toks& t) override {
    const std::string& o = t[0];
    if (o == "mr.add") { size_t k = toU(t[1]); mr[k]->addRange(Range<T>(val(t[2]), val(t[3]))); return showMr(k); }
    if (o == "mr.restrict") { size_t k = toU(t[1]); mr[k]->restrictTo(Range<T>(val(t[2]), val(t[3]))); return showMr(k); }
    if (o == "mr.filter") { size_t k = toU(t[1]); mr[k]->filterWithin(Range<T>(val(t[2]), val(t[3]))); return showMr(k); }
    if (o == "mr.clear") { size_t k = toU(t[1]); mr[k]->clear(); return showMr(k); }
    if (o == "mr.copy") { size_t k = toU(t[1]), j = toU(t[2]); std::unique_ptr<MultiRange<T>> c(new MultiRange<T>(*mr[k])); mr[j] = std::move(c); return showMr(j); }
    if (o == "mr.assign") { size_t k = toU(t[1]), j = toU(t[2]); *mr[j] = *mr[k]; return showMr(j); }
    if (o == "mr.get") { size_t k = toU(t[1]); return showMr(k); }
    if (o == "mr.at" || o == "rs.at") {
      size_t k = toU(t[1]), i = toU(t[2]);
      const RangeCollection<T>& c = (o == "mr.at") ? static_cast<const RangeCollection<T>&>(*mr[k]) : static_cast<const RangeCollection<T>&>(*rs[k]);
      if (i >= c.size()) return "oob";   // undefined behaviour of the library: not called
      return num(c.getRange(i).begin()) + " " + num(c.getRange(i).end());
    }
    if (o == "rs.add") { size_t k = toU(t[1]); rs[k]->addRange(Range<T>(val(t[2]), val(t[3]))); return showRs(k); }
    if (o == "rs.restrict") { size_t k = toU(t[1]); rs[k]->restrictTo(Range<T>(val(t[2]), val(t[3]))); return showRs(k); }
    if (o == "rs.filter") { size_t k = toU(t[1]); rs[k]->filterWithin(Range<T>(val(t[2]), val(t[3]))); return showRs(k); }
    if (o == "rs.clear") { size_t k = toU(t[1]); rs[k]->clear(); return showRs(k); }
    if (o == "rs.copy") { size_t k = toU(t[1]), j = toU(t[2]); std::unique_ptr<RangeSet<T>> c(new RangeSet<T>(*rs[k])); rs[j] = std::move(c); return showRs(j); }
    if (o == "rs.assign") { size_t k = toU(t[1]), j = toU(t[2]); *rs[j] = *rs[k]; return showRs(j); }
    if (o == "rs.get") { size_t k = toU(t[1]); return showRs(k); }
    if (o == "mr.addsh") {  // a shift result as argument (for unsigned possibly wrapped: begin > end)
      size_t k = toU(t[1]); Range<T> x(val(t[2]), val(t[3])); x -= val(t[4]); mr[k]->addRange(x); return showMr(k);
    }
    if (o == "r.pred" || o == "r.shpred") {
      const bool sh = (o == "r.shpred");
      Range<T> x(val(t[1]), val(t[2])), r(val(t[sh ? 4 : 3]), val(t[sh ? 5 : 4]));
      if (sh) x -= val(t[3]);
      return num(x.begin()) + " " + num(x.end()) + " " + (x.overlap(r) ? "1" : "0") + " " + (x.isContiguous(r) ? "1" : "0") + " "
        + (x.contains(r) ? "1" : "0") + " " + (x.isEmpty() ? "1" : "0") + " " + num(x.length())
        + " " + (x == r ? "1" : "0") + " " + (x != r ? "1" : "0") + " " + (x < r ? "1" : "0") + " " + x.toString();
    }
    if (o == "r.expand") { Range<T> x(val(t[1]), val(t[2])), r(val(t[3]), val(t[4])); x.expandWith(r); return num(x.begin()) + " " + num(x.end()); }
    if (o == "r.slice") { Range<T> x(val(t[1]), val(t[2])), r(val(t[3]), val(t[4])); x.sliceWith(r); return num(x.begin()) + " " + num(x.end()); }
    if (o == "r.shift") {
      Range<T> x(val(t[1]), val(t[2])); T v = val(t[3]);
      Range<T> y = x + v; Range<T> z = y - v;      // operator+ then operator-
      Range<T> u = x - v; Range<T> w = u + v;      // operator- then operator+ (unsigned: wraps below zero)
      Range<T> p(x); p += v; p -= v;               // operator+= then operator-=
      Range<T> q(x); q -= v; T ql = q.length(); q += v;
      return num(y.begin()) + " " + num(y.end()) + " " + num(y.length()) + " " + num(z.begin()) + " " + num(z.end())
        + " " + num(u.length()) + " " + num(w.begin()) + " " + num(w.end())
        + " " + num(p.begin()) + " " + num(p.end()) + " " + num(ql) + " " + num(q.begin()) + " " + num(q.end());
    }
    if (o == "r.ctor") {
      Range<T> d; Range<T> one(val(t[1]));
      return num(d.begin()) + " " + num(d.end()) + " " + num(one.begin()) + " " + num(one.end()) + " " + (d.isEmpty() ? "1" : "0");
    }
    if (o == "r.copy") {
      Range<T> x(val(t[1]), val(t[2])); T v = val(t[3]);
      std::unique_ptr<Range<T>> c(x.clone()); Range<T> y(x); Range<T> z; z = x;
      *c += v;   // the clone is independent of its source
      return num(x.begin()) + " " + num(x.end()) + " " + num(c->begin()) + " " + num(c->end()) + " "
        + num(y.begin()) + " " + num(y.end()) + " " + num(z.begin()) + " " + num(z.end());
    }
    return "bad-op";
  }
};

int main() {
  std::unique_ptr<IMachine> m(new Machine<int>(1));
  return runLoop(
    [&](const Toks& t) {
      std::string ty = t.size() > 2 ? t[2] : "int";
      long long sc = (ty == "double" && t.size() > 3) ? toI(t[3]) : 1;
      if (ty == "uint") m.reset(new Machine<unsigned int>(1));
      else if (ty == "double") m.reset(new Machine<double>(sc));
      else m.reset(new Machine<int>(1));
    },
    [&](const Toks& t) { return m->op(t); });
}
