// Harness for C12: interprets numerical-derivative scripts against the real
// Two/Three/FivePointsNumericalDerivative wrappers.  The wrapped function is a polynomial
// (monomial list given by the script) defined exactly as in lean/BppModel/Drive/C12.lean
// (same operations in the same order), it logs every point at which it is evaluated.
//
//   fn <kind> <n> {<name> <value> <prec> <con>}*n poly <m> {<coef> <e_1> .. <e_n>}*m
//        kind 0: Function, 1: FirstOrderDerivable, 2: SecondOrderDerivable
//        con  : N | I <lo|*> <hi|*> <inclLo> <inclHi>
//   wrap <2|3|5> <h|D>                     constructor by kind, then setInterval(h) (D: the default step is kept)
//   interval <h>                           setInterval; answers r=<getInterval()>
//   vars <k> <name>*k                      setParametersToDerivate
//   enable <d1> <d2> <cross>               the three switches; answers r=<the three getters>
//   en1|en2|enx <0|1>                      one switch alone; answers r=<the three getters>
//   fnenable <d1> <d2>                     the wrapped function's own analytical-derivative switches (no wrapper)
//   copy | assign                          the wrapper is replaced by a copy of itself (copy constructor / operator=
//                                          into a freshly constructed wrapper of the same wrapped function)
//   df <var> <list> ; d2f <var> <list> ; d2fx <var1> <var2> <list>
//                                          FirstOrderDerivable::df, SecondOrderDerivable::d2f (1 and 2 variables)
//   set|setall|setvals|match|f <k> {<name> <value> <prec> <con>}*k      entry points
//   setone <name> <value>
//   get d1|d2 <name> ;  get dx <name> <name>
//   fnset <k> {...}                        the wrapped function's own setParameters (no wrapper)
//
// Answer of an entry point:
//   <ok|exc:kind> r=<result|-> v=<wrapper value> fv=<function value> P <values> D1 <..> D2 <..>
//   X <rows> WP <values seen through the wrapper's getParameters()> <hasParameter of all names> <number of parameters>
//   E <en1> <en2> L <npoints> <coordinates>
#include "common.h"
#include <Bpp/Numeric/Function/TwoPointsNumericalDerivative.h>
#include <Bpp/Numeric/Function/ThreePointsNumericalDerivative.h>
#include <Bpp/Numeric/Function/FivePointsNumericalDerivative.h>
#include <Bpp/Numeric/AbstractParametrizable.h>
#include <cmath>
#include <limits>
#include <memory>
using namespace bpp; using namespace verif;

static std::string num(double d) {
  if (std::isnan(d)) return "nan";
  if (d == 0) d = 0.0;            // -0 and +0 are printed alike
  return doubleToHex(d);
}

struct Mono { double c; std::vector<int> e; };
typedef std::vector<std::vector<double>> Log;

static std::string pname(const std::string& s) { return "p" + s; }

// ---------------------------------------------------------------- the wrapped function
class PolyFn : public virtual FunctionInterface, public AbstractParametrizable {
protected:
  std::vector<Mono> monos_;
  std::vector<std::string> names_;
  double fval_;
  Log* log_;
public:
  PolyFn(const std::vector<Mono>& m, Log* log) : AbstractParametrizable(""), monos_(m), names_(), fval_(0), log_(log) {}
  PolyFn* clone() const override { return new PolyFn(*this); }
  void add(Parameter* p) { names_.push_back(p->getName()); addParameter_(p); }
  void init() { fireParameterChanged(getParameters()); }
  std::vector<double> point() const {
    std::vector<double> x; for (auto& n : names_) x.push_back(getParameterValue(n)); return x;
  }
  // sum over monomials of c * prod x_i^(e_i - (i==a) - (i==b)) * factor
  double eval(const std::vector<double>& x, int a, int b) const {
    double s = 0.0;
    for (auto& m : monos_) {
      std::vector<int> e = m.e; double t = m.c;
      if (a >= 0) { if (e[a] < 1) continue; t = t * static_cast<double>(e[a]); e[a]--; }
      if (b >= 0) { if (e[b] < 1) continue; t = t * static_cast<double>(e[b]); e[b]--; }
      for (size_t i = 0; i < x.size(); ++i) for (int k = 0; k < e[i]; ++k) t = t * x[i];
      s = s + t;
    }
    return s;
  }
  void setParameters(const ParameterList& pl) override { matchParametersValues(pl); }
  double getValue() const override { return fval_; }
  void fireParameterChanged(const ParameterList&) override {
    std::vector<double> x = point();
    fval_ = eval(x, -1, -1);
    log_->push_back(x);
    refresh(x);
  }
  virtual void refresh(const std::vector<double>&) {}
  int pos(const std::string& n) const { for (size_t i = 0; i < names_.size(); ++i) if (names_[i] == n) return (int)i; return -1; }
  virtual bool en1() const { return false; }
  virtual bool en2() const { return false; }
};

class PolyFn1 : public PolyFn, public virtual FirstOrderDerivable {
protected:
  bool comp1_; std::vector<double> d1_;
public:
  PolyFn1(const std::vector<Mono>& m, Log* log) : PolyFn(m, log), comp1_(true), d1_() {}
  PolyFn1* clone() const override { return new PolyFn1(*this); }
  void setParameters(const ParameterList& pl) override { matchParametersValues(pl); }
  void refresh(const std::vector<double>& x) override {
    if (comp1_) { d1_.resize(x.size()); for (size_t k = 0; k < x.size(); ++k) d1_[k] = eval(x, (int)k, -1); }
  }
  void enableFirstOrderDerivatives(bool yn) override { comp1_ = yn; }
  bool enableFirstOrderDerivatives() const override { return comp1_; }
  double getFirstOrderDerivative(const std::string& v) const override {
    if (!comp1_) throw Exception("PolyFn1: first order derivatives are not computed.");
    int k = pos(v); if (k < 0) throw Exception("PolyFn1: unknown variable.");
    return d1_[k];
  }
  bool en1() const override { return comp1_; }
};

class PolyFn2 : public PolyFn1, public virtual SecondOrderDerivable {
protected:
  bool comp2_; std::vector<std::vector<double>> d2_;
public:
  PolyFn2(const std::vector<Mono>& m, Log* log) : PolyFn1(m, log), comp2_(true), d2_() {}
  PolyFn2* clone() const override { return new PolyFn2(*this); }
  void setParameters(const ParameterList& pl) override { matchParametersValues(pl); }
  void refresh(const std::vector<double>& x) override {
    PolyFn1::refresh(x);
    if (comp2_) {
      d2_.assign(x.size(), std::vector<double>(x.size(), 0.));
      for (size_t k = 0; k < x.size(); ++k) for (size_t l = 0; l < x.size(); ++l) d2_[k][l] = eval(x, (int)k, (int)l);
    }
  }
  void enableSecondOrderDerivatives(bool yn) override { comp2_ = yn; }
  bool enableSecondOrderDerivatives() const override { return comp2_; }
  double getSecondOrderDerivative(const std::string& v) const override {
    if (!comp2_) throw Exception("PolyFn2: second order derivatives are not computed.");
    int k = pos(v); if (k < 0) throw Exception("PolyFn2: unknown variable.");
    return d2_[k][k];
  }
  double getSecondOrderDerivative(const std::string& v1, const std::string& v2) const override {
    if (!comp2_) throw Exception("PolyFn2: second order derivatives are not computed.");
    int k = pos(v1), l = pos(v2); if (k < 0 || l < 0) throw Exception("PolyFn2: unknown variable.");
    return d2_[k][l];
  }
  bool en2() const override { return comp2_; }
};

// ---------------------------------------------------------------- wrappers with readable caches
struct Peek { virtual ~Peek() {} virtual const std::vector<double>& d1() const = 0; virtual const std::vector<double>& d2() const = 0;
              virtual const RowMatrix<double>& x() const = 0; virtual AbstractNumericalDerivative& w() = 0;
              virtual Peek* copy() const = 0; virtual void assignTo(Peek& fresh) const = 0; };
template<class B> struct PeekT : B, Peek {
  template<class F> PeekT(std::shared_ptr<F> f) : B(f) {}
  const std::vector<double>& d1() const override { return this->der1_; }
  const std::vector<double>& d2() const override { return this->der2_; }
  const RowMatrix<double>& x() const override { return this->crossDer2_; }
  AbstractNumericalDerivative& w() override { return *this; }
  // the copy constructor / assignment operator of the scheme (and of AbstractNumericalDerivative under it)
  Peek* copy() const override { return new PeekT<B>(*this); }
  void assignTo(Peek& fresh) const override { static_cast<B&>(dynamic_cast<PeekT<B>&>(fresh)) = static_cast<const B&>(*this); }
};

// ---------------------------------------------------------------- the machine
struct Machine {
  Log log;
  std::shared_ptr<PolyFn> fn;
  std::unique_ptr<Peek> wr;
  int kind = 0;
  int scheme = 0;
  size_t nvars = 0;

  static std::shared_ptr<ConstraintInterface> con(const Toks& t, size_t& i) {
    std::string k = t.at(i++);
    if (k == "N") return nullptr;
    std::string lo = t.at(i++), hi = t.at(i++); bool il = t.at(i++) == "1", ih = t.at(i++) == "1";
    double l = lo == "*" ? -std::numeric_limits<double>::infinity() : hexToDouble(lo);
    double u = hi == "*" ? std::numeric_limits<double>::infinity() : hexToDouble(hi);
    return std::make_shared<IntervalConstraint>(l, u, il, ih);
  }
  static Parameter* param(const Toks& t, size_t& i) {
    std::string n = pname(t.at(i++)); double v = hexToDouble(t.at(i++)); double pr = hexToDouble(t.at(i++));
    auto c = con(t, i);
    return new Parameter(n, v, c, pr);
  }
  static ParameterList plist(const Toks& t, size_t& i) {
    size_t k = toU(t.at(i++)); ParameterList pl;
    for (size_t j = 0; j < k; ++j) { std::unique_ptr<Parameter> p(param(t, i)); pl.addParameter(*p); }
    return pl;
  }
  // a freshly constructed wrapper of the current scheme around the current function (constructor chosen by kind)
  Peek* fresh() {
    int s = scheme;
    auto f1 = std::dynamic_pointer_cast<PolyFn1>(fn); auto f2 = std::dynamic_pointer_cast<PolyFn2>(fn);
    std::shared_ptr<FunctionInterface> f0 = fn;
    std::shared_ptr<FirstOrderDerivable> g1 = f1; std::shared_ptr<SecondOrderDerivable> g2 = f2;
    if (s == 2) { if (kind >= 1) return new PeekT<TwoPointsNumericalDerivative>(g1); return new PeekT<TwoPointsNumericalDerivative>(f0); }
    if (s == 3) { if (kind >= 2) return new PeekT<ThreePointsNumericalDerivative>(g2); if (kind == 1) return new PeekT<ThreePointsNumericalDerivative>(g1); return new PeekT<ThreePointsNumericalDerivative>(f0); }
    if (kind >= 2) return new PeekT<FivePointsNumericalDerivative>(g2); if (kind == 1) return new PeekT<FivePointsNumericalDerivative>(g1); return new PeekT<FivePointsNumericalDerivative>(f0);
  }
  std::string logStr() {
    std::string s = "L " + std::to_string(log.size());
    for (auto& pt : log) for (double d : pt) s += " " + num(d);
    log.clear();
    return s;
  }
  std::string state() {
    std::string s = " v=" + (wr ? num(wr->w().getValue()) : std::string("-")) + " fv=" + num(fn->getValue()) + " P";
    for (double d : fn->point()) s += " " + num(d);
    if (wr) {
      s += " D1"; for (double d : wr->d1()) s += " " + num(d);
      s += " D2"; for (double d : wr->d2()) s += " " + num(d);
      s += " X";
      for (size_t i = 0; i < wr->x().getNumberOfRows(); ++i) for (size_t j = 0; j < wr->x().getNumberOfColumns(); ++j) s += " " + num(wr->x()(i, j));
      // the wrapped function seen through the wrapper (FunctionWrapper forwards)
      s += " WP";
      const ParameterList& wp = wr->w().getParameters();
      for (size_t i = 0; i < wp.size(); ++i) s += " " + num(wr->w().getParameterValue(wp[i].getName()));
      bool all = true; for (size_t i = 0; i < wp.size(); ++i) all = all && wr->w().hasParameter(wp[i].getName());
      s += std::string(" ") + (all ? "1" : "0") + " " + std::to_string(wr->w().getNumberOfParameters());
    }
    s += std::string(" E ") + (fn->en1() ? "1" : "0") + " " + (fn->en2() ? "1" : "0") + " " + logStr();
    return s;
  }
  template<class F> std::string guarded(F body) {
    std::string st = "ok", r = "-";
    try { r = body(); }
    catch (ConstraintException&) { st = "exc:constraint"; }
    catch (ParameterNotFoundException&) { st = "exc:notfound"; }
    catch (Exception&) { st = "exc:bpp"; }
    return st + " r=" + r;
  }
  std::string op(const Toks& t) {
    const std::string& o = t[0];
    size_t i = 1;
    if (o == "fn") {
      kind = (int)toI(t.at(i++)); size_t n = toU(t.at(i++));
      std::vector<std::unique_ptr<Parameter>> ps;
      for (size_t j = 0; j < n; ++j) ps.emplace_back(param(t, i));
      if (t.at(i++) != "poly") return "bad-op";
      size_t m = toU(t.at(i++)); std::vector<Mono> monos;
      for (size_t j = 0; j < m; ++j) { Mono mo; mo.c = hexToDouble(t.at(i++)); for (size_t k = 0; k < n; ++k) mo.e.push_back((int)toI(t.at(i++))); monos.push_back(mo); }
      log.clear(); wr.reset();
      if (kind == 0) fn.reset(new PolyFn(monos, &log));
      else if (kind == 1) fn.reset(new PolyFn1(monos, &log));
      else fn.reset(new PolyFn2(monos, &log));
      for (auto& p : ps) fn->add(p.release());
      fn->init();
      return "ok r=-" + state();
    }
    if (!fn) return "bad-op";
    if (o == "wrap") {
      int s = (int)toI(t.at(i++)); bool dflt = t.at(i) == "D"; double h = dflt ? 0. : hexToDouble(t.at(i)); i++; scheme = s;
      wr.reset(fresh());
      if (!dflt) wr->w().setInterval(h);
      return "ok r=" + num(wr->w().getInterval()) + state();
    }
    if (o == "fnset") {
      ParameterList pl = plist(t, i);
      std::string a = guarded([&]() { fn->setParameters(pl); return std::string("-"); });
      return a + state();
    }
    if (o == "fnenable") {
      auto f1 = std::dynamic_pointer_cast<PolyFn1>(fn); auto f2 = std::dynamic_pointer_cast<PolyFn2>(fn);
      if (f1) f1->enableFirstOrderDerivatives(t.at(1) == "1");
      if (f2) f2->enableSecondOrderDerivatives(t.at(2) == "1");
      return "ok r=-" + state();
    }
    if (!wr) return "bad-op";
    if (o == "copy") { wr.reset(wr->copy()); return "ok r=-" + state(); }
    if (o == "assign") { std::unique_ptr<Peek> f(fresh()); wr->assignTo(*f); wr = std::move(f); return "ok r=-" + state(); }
    AbstractNumericalDerivative& w = wr->w();
    if (o == "interval") { w.setInterval(hexToDouble(t.at(1))); return "ok r=" + num(w.getInterval()) + state(); }
    if (o == "vars") {
      size_t k = toU(t.at(i++)); std::vector<std::string> v; for (size_t j = 0; j < k; ++j) v.push_back(pname(t.at(i++)));
      w.setParametersToDerivate(v);
      return "ok r=-" + state();
    }
    if (o == "enable") {
      w.enableFirstOrderDerivatives(t.at(1) == "1"); w.enableSecondOrderDerivatives(t.at(2) == "1"); w.enableSecondOrderCrossDerivatives(t.at(3) == "1");
      const AbstractNumericalDerivative& cw = w;
      return std::string("ok r=") + (cw.enableFirstOrderDerivatives() ? "1" : "0") + (cw.enableSecondOrderDerivatives() ? "1" : "0")
        + (cw.enableSecondOrderCrossDerivatives() ? "1" : "0") + state();
    }
    if (o == "set" || o == "setall" || o == "setvals" || o == "match" || o == "f") {
      ParameterList pl = plist(t, i);
      std::string a = guarded([&]() -> std::string {
        if (o == "set") { w.setParameters(pl); return "-"; }
        if (o == "setall") { w.setAllParametersValues(pl); return "-"; }
        if (o == "setvals") { w.setParametersValues(pl); return "-"; }
        if (o == "match") { return w.matchParametersValues(pl) ? "1" : "0"; }
        return num(w.f(pl));
      });
      return a + state();
    }
    if (o == "setone") {
      std::string n = pname(t.at(i++)); double v = hexToDouble(t.at(i++));
      std::string a = guarded([&]() { w.setParameterValue(n, v); return std::string("-"); });
      return a + state();
    }
    if (o == "df" || o == "d2f" || o == "d2fx") {
      std::string v1 = pname(t.at(i++)); std::string v2 = o == "d2fx" ? pname(t.at(i++)) : std::string();
      ParameterList pl = plist(t, i);
      std::string a = guarded([&]() -> std::string {
        if (o == "df") return num(w.df(v1, pl));
        if (o == "d2f") return num(w.d2f(v1, pl));
        return num(w.d2f(v1, v2, pl));
      });
      return a + state();
    }
    if (o == "en1" || o == "en2" || o == "enx") {   // one switch alone; answers the three getters
      bool yn = t.at(1) == "1";
      if (o == "en1") w.enableFirstOrderDerivatives(yn); else if (o == "en2") w.enableSecondOrderDerivatives(yn); else w.enableSecondOrderCrossDerivatives(yn);
      const AbstractNumericalDerivative& cw = w;
      return std::string("ok r=") + (cw.enableFirstOrderDerivatives() ? "1" : "0") + (cw.enableSecondOrderDerivatives() ? "1" : "0")
        + (cw.enableSecondOrderCrossDerivatives() ? "1" : "0") + state();
    }
    if (o == "get") {
      std::string what = t.at(i++);
      std::string a = guarded([&]() -> std::string {
        if (what == "d1") return num(w.getFirstOrderDerivative(pname(t.at(2))));
        if (what == "d2") return num(w.getSecondOrderDerivative(pname(t.at(2))));
        return num(w.getSecondOrderDerivative(pname(t.at(2)), pname(t.at(3))));
      });
      return a;
    }
    return "bad-op";
  }
};

int main() {
  std::unique_ptr<Machine> m(new Machine());
  return runLoop([&](const Toks&) { m.reset(new Machine()); },
                 [&](const Toks& t) { return m->op(t); });
}
