// Harness for C01: interprets interval / parameter scripts against
// Bpp/Numeric/Constraints.h, Parameter.{h,cpp} and AutoParameter.cpp.
// Registers: interval constraints i0..i7 (shared pointers to constraint objects), parameters p0..p3.
// By-value cases attach a *clone* of a register's object to a parameter (p.new, p.new3, p.setc);
// `shared` cases (BppModel/ParamShared.lean) also attach the register's own object (p.news, p.setcs),
// take the handle back (p.getc, p.rmcs), duplicate a pointer (ic.alias) and change attached objects in
// place through these handles (ic.setlo, ic.sethi, ic.interas, ic.parse).
// Doubles travel as 16 hex digits; an interval prints as `lo hi inclLo inclHi precision`;
// a parameter as `value precision auto (interval | none)`.
#include "common.h"
#include <Bpp/Numeric/AutoParameter.h>
#include <Bpp/Numeric/Constraints.h>
#include <Bpp/App/ApplicationTools.h>
#include <Bpp/Io/OutputStream.h>
#include <memory>
#include <sstream>
using namespace bpp; using namespace verif;

typedef std::shared_ptr<IntervalConstraint> IC;
static const size_t NI = 8, NP = 4;
static std::vector<IC> ics;
static std::vector<std::unique_ptr<Parameter>> ps;
// offences recorded by the guarded parameter monitor (see props/hooks.d/C01-param-monitor.json)
static std::string monitorOffence;

// Definition of the weak hook called by Parameter.cpp (guard BIOPP_BPP_CORE_VERIF) after every
// member that writes value or constraint: the same predicate as the driver's `param_inv`, evaluated
// inside the library on every Parameter object it touches.
extern "C" void bpp_verif_param_audit(const bpp::Parameter* p, const char* site)
{
  if (p->hasConstraint() && !p->getConstraint()->isCorrect(p->getValue()))
    if (monitorOffence.empty()) monitorOffence = site;
}

// message handler of the auto-correcting parameter: a capturing stream whose lines are counted
static std::ostringstream capBuf;
static std::shared_ptr<OutputStream> capStream(new StlOutputStreamWrapper(&capBuf));

static std::string b(bool x) { return x ? "1" : "0"; }
static double D(const std::string& s) { return hexToDouble(s); }
static bool B(const std::string& s) { return s == "1"; }
static std::string H(double d) { return doubleToHex(d); }

static std::string showIC(const IntervalConstraint& c) {
  return H(c.getLowerBound()) + " " + H(c.getUpperBound()) + " " + b(!c.strictLowerBound()) + " " + b(!c.strictUpperBound()) + " " + H(c.getPrecision());
}
static std::string showICp(const IC& c) { return c ? showIC(*c) : std::string("absent"); }

static std::string showP(const std::unique_ptr<Parameter>& p) {
  if (!p) return "absent";
  std::string s = H(p->getValue()) + " " + H(p->getPrecision()) + " " + b(dynamic_cast<const AutoParameter*>(p.get()) != nullptr) + " ";
  if (!p->hasConstraint()) return s + "none";
  auto ic = std::dynamic_pointer_cast<const IntervalConstraint>(p->getConstraint());
  return s + (ic ? showIC(*ic) : std::string("other"));
}

// the constraint argument of a by-value parameter op (p.new, p.new3, p.setc): `-` (none) or an interval
// register; the parameter receives its own copy of the interval object, so that in-place updates of a
// register (ic.interas / ic.setlo / ic.sethi / ic.parse) do not reach the attached constraint.
// The `shared` ops (p.news, p.setcs: sarg below) attach the register's object itself.
static std::shared_ptr<ConstraintInterface> carg(const std::string& s) {
  if (s == "-") return nullptr;
  const IC& c = ics.at(toU(s));
  if (!c) throw std::runtime_error("absent interval");
  return std::shared_ptr<ConstraintInterface>(c->clone());
}

// the pointer argument of a `shared` parameter op: null or the register's own object
static std::shared_ptr<ConstraintInterface> sarg(const std::string& s) {
  if (s == "-") return nullptr;
  const IC& c = ics.at(toU(s));
  if (!c) throw std::runtime_error("absent interval");
  return c;
}

static std::string withState(const std::string& outcome, size_t k) {
  std::string s = outcome + " ; " + showP(ps.at(k));
  if (!monitorOffence.empty()) { s += " ; monitor:" + monitorOffence; monitorOffence.clear(); }
  return s;
}

static std::string op(const Toks& t) {
  const std::string& o = t[0];
  // ---------------------------------------------------------------- intervals
  if (o == "ic.new") { size_t k = toU(t[1]); ics.at(k).reset(new IntervalConstraint(D(t[2]), D(t[3]), B(t[4]), B(t[5]), D(t[6]))); return showIC(*ics[k]); }
  if (o == "ic.new4") { size_t k = toU(t[1]); ics.at(k).reset(new IntervalConstraint(D(t[2]), D(t[3]), B(t[4]), B(t[5]))); return showIC(*ics[k]); }
  if (o == "ic.def") { size_t k = toU(t[1]); ics.at(k).reset(new IntervalConstraint()); return showIC(*ics[k]); }
  if (o == "ic.half") { size_t k = toU(t[1]); ics.at(k).reset(new IntervalConstraint(B(t[2]), D(t[3]), B(t[4]), D(t[5]))); return showIC(*ics[k]); }
  if (o == "ic.half3") { size_t k = toU(t[1]); ics.at(k).reset(new IntervalConstraint(B(t[2]), D(t[3]), B(t[4]))); return showIC(*ics[k]); }
  if (o == "ic.static") {
    size_t k = toU(t[1]); const std::string& n = t[2];
    const IntervalConstraint* c = n == "R_PLUS" ? Parameter::R_PLUS.get() : n == "R_PLUS_STAR" ? Parameter::R_PLUS_STAR.get() :
      n == "R_MINUS" ? Parameter::R_MINUS.get() : n == "R_MINUS_STAR" ? Parameter::R_MINUS_STAR.get() :
      n == "PROP_IN" ? Parameter::PROP_CONSTRAINT_IN.get() : n == "PROP_EX" ? Parameter::PROP_CONSTRAINT_EX.get() : nullptr;
    if (!c) return "bad-op";
    ics.at(k).reset(c->clone()); return showIC(*ics[k]);
  }
  if (o == "ic.copy") { size_t i = toU(t[1]), k = toU(t[2]); if (!ics.at(i)) return "absent"; IC c(ics[i]->clone()); ics.at(k) = c; return showIC(*ics[k]); }
  if (o == "ic.get") { return showICp(ics.at(toU(t[1]))); }
  if (o == "ic.alias") { size_t i = toU(t[1]), k = toU(t[2]); if (!ics.at(i)) return "absent"; ics.at(k) = ics[i]; return showIC(*ics[k]); }
  if (o.compare(0, 3, "ic.") == 0 && o != "ic.parsenew") {
    size_t k = toU(t[1]);
    if (!ics.at(k)) return "absent";
    IntervalConstraint& c = *ics[k];
    if (o == "ic.correct") return b(c.isCorrect(D(t[2])));
    if (o == "ic.includes") return b(c.includes(D(t[2]), D(t[3])));
    if (o == "ic.cmp") { double v = D(t[2]); return b(c < v) + " " + b(c > v) + " " + b(c <= v) + " " + b(c >= v); }
    if (o == "ic.limit") return H(c.getLimit(D(t[2])));
    if (o == "ic.alimit") return H(c.getAcceptedLimit(D(t[2])));
    if (o == "ic.empty") return b(c.isEmpty());
    if (o == "ic.fin") return b(c.finiteLowerBound()) + " " + b(c.finiteUpperBound()) + " " + b(c.strictLowerBound()) + " " + b(c.strictUpperBound());
    if (o == "ic.setlo") { c.setLowerBound(D(t[2]), B(t[3])); return showIC(c); }
    if (o == "ic.sethi") { c.setUpperBound(D(t[2]), B(t[3])); return showIC(c); }
    if (o == "ic.desc") return strToHex(c.getDescription());
    if (o == "ic.roundtrip") {
      std::string d = c.getDescription();
      try { IntervalConstraint r(d); return "ok ; " + showIC(r); } catch (Exception&) { return "exc:bpp"; }
    }
    if (o == "ic.parse") {
      std::string d = hexToStr(t[2]);
      try { c.readDescription(d); } catch (Exception&) { return "exc:bpp ; " + showIC(c); }
      return "ok ; " + showIC(c);
    }
    size_t j = toU(t[2]);
    if (!ics.at(j)) return "absent";
    const IntervalConstraint& d = *ics[j];
    if (o == "ic.inter") {
      size_t r = toU(t[3]);
      ConstraintInterface* x = c & d;
      IntervalConstraint* xi = dynamic_cast<IntervalConstraint*>(x);
      if (!xi) { delete x; return "null"; }
      ics.at(r).reset(xi); return showIC(*ics[r]);
    }
    if (o == "ic.interas") { IntervalConstraint& r = (c &= d); return showIC(r) + " " + b(&r == &c); }
    if (o == "ic.rel") return b(c == d) + " " + b(c != d) + " " + b(c <= d);
    return "bad-op";
  }
  if (o == "ic.parsenew") {
    size_t k = toU(t[1]); std::string d = hexToStr(t[2]);
    try { IC c(new IntervalConstraint(d)); ics.at(k) = c; } catch (Exception&) { return "exc:bpp ; " + showICp(ics.at(k)); }
    return "ok ; " + showIC(*ics[k]);
  }
  // ---------------------------------------------------------------- parameters
  if (o == "p.def") {
    // the default constructors
    size_t k = toU(t[1]); std::unique_ptr<Parameter> p;
    if (B(t[2])) p.reset(new AutoParameter()); else p.reset(new Parameter());
    ps.at(k) = std::move(p); return withState("ok", k);
  }
  if (o == "p.new" || o == "p.new3" || o == "p.news") {
    // p.new k auto value constraint precision   |   p.new3 k auto value constraint (default precision)
    // p.news: as p.new, but the register's own object is attached (not a clone)
    size_t k = toU(t[1]); bool au = B(t[2]); double v = D(t[3]);
    std::shared_ptr<ConstraintInterface> c = o == "p.news" ? sarg(t[4]) : carg(t[4]);
    try {
      std::unique_ptr<Parameter> p;
      if (au) p.reset(new AutoParameter("x", v, c));
      else if (o == "p.new3") p.reset(new Parameter("x", v, c));
      else p.reset(new Parameter("x", v, c, D(t[5])));
      ps.at(k) = std::move(p);
    } catch (ConstraintException&) { return withState("exc:constraint", k); }
    return withState("ok", k);
  }
  if (o == "p.copy") { size_t i = toU(t[1]), k = toU(t[2]); if (!ps.at(i)) return "absent"; std::unique_ptr<Parameter> p(ps[i]->clone()); ps.at(k) = std::move(p); return withState("ok", k); }
  if (o == "p.auto") { size_t i = toU(t[1]), k = toU(t[2]); if (!ps.at(i)) return "absent"; std::unique_ptr<Parameter> p(new AutoParameter(*ps[i])); ps.at(k) = std::move(p); return withState("ok", k); }
  // the slicing copy: Parameter's copy constructor applied to whatever the register holds
  if (o == "p.plain") { size_t i = toU(t[1]), k = toU(t[2]); if (!ps.at(i)) return "absent"; std::unique_ptr<Parameter> p(new Parameter(*ps[i])); ps.at(k) = std::move(p); return withState("ok", k); }
  if (o == "p.assign") {
    size_t i = toU(t[1]), k = toU(t[2]); if (!ps.at(i) || !ps.at(k)) return "absent";
    AutoParameter* a = dynamic_cast<AutoParameter*>(ps[k].get()); AutoParameter* s = dynamic_cast<AutoParameter*>(ps[i].get());
    if (a && s) *a = *s; else *ps[k] = *ps[i];
    return withState("ok", k);
  }
  if (o == "p.get") { size_t k = toU(t[1]); return withState("ok", k); }
  if (o == "p.msgs") {
    // number of complete lines the capturing message handler received since the last call
    std::string txt = capBuf.str(); capBuf.str("");
    size_t n = 0; for (char ch : txt) if (ch == '\n') n++;
    // every line is a report "Constraint match at parameter <name>, badValue = <v> <description>"
    size_t m = 0, pos = 0; while ((pos = txt.find("Constraint match at parameter ", pos)) != std::string::npos) { m++; pos++; }
    return std::to_string(n) + " " + std::to_string(m);
  }
  if (o.compare(0, 2, "p.") == 0) {
    size_t k = toU(t[1]);
    if (!ps.at(k)) return "absent";
    Parameter& p = *ps[k];
    try {
      if (o == "p.set") p.setValue(D(t[2]));
      else if (o == "p.prec") p.setPrecision(D(t[2]));
      else if (o == "p.setc") p.setConstraint(carg(t[2]));
      else if (o == "p.con") {
        // constraint(): const and non-const overloads, NullPointerException when there is none
        try {
          const Parameter& cp = p;
          const IntervalConstraint& a = dynamic_cast<const IntervalConstraint&>(cp.constraint());
          IntervalConstraint& a2 = dynamic_cast<IntervalConstraint&>(p.constraint());
          return &a == &a2 ? showIC(a) : std::string("different-objects");
        } catch (NullPointerException&) { return "exc:bpp"; }
      }
      else if (o == "p.setcs") p.setConstraint(sarg(t[2]));
      else if (o == "p.getc") {
        // the handle a non-const parameter hands out (no const_cast): Parameter.h:218
        IC h = std::dynamic_pointer_cast<IntervalConstraint>(p.getConstraint());
        ics.at(toU(t[2])) = h;
        return h ? showIC(*h) : std::string("none");
      }
      else if (o == "p.rmcs") {
        auto c = p.removeConstraint();
        auto ic = std::dynamic_pointer_cast<IntervalConstraint>(c);
        ics.at(toU(t[2])) = ic;
        return withState("ok", k) + " ; " + (ic ? showIC(*ic) : std::string("none"));
      }
      else if (o == "p.mh") {
        // message handler of an AutoParameter: 0 = none (null pointer), 1 = capturing stream, 2 = sink
        AutoParameter* a = dynamic_cast<AutoParameter*>(&p);
        if (!a) return "notauto";
        const std::string& m = t[2];
        if (m == "0") a->setMessageHandler(nullptr);
        else if (m == "1") a->setMessageHandler(capStream);
        else a->setMessageHandler(std::make_shared<NullOutputStream>());
        return "ok";
      }
      else if (o == "p.rmc") {
        auto c = p.removeConstraint();
        auto ic = std::dynamic_pointer_cast<IntervalConstraint>(c);
        return withState("ok", k) + " ; " + (ic ? showIC(*ic) : std::string("none"));
      }
      else return "bad-op";
    } catch (ConstraintException&) { return withState("exc:constraint", k); }
    return withState("ok", k);
  }
  return "bad-op";
}

int main() {
  // AutoParameter reports every correction on ApplicationTools::message (stdout by default):
  // keep the reporting code running, but into a sink
  ApplicationTools::message = std::make_shared<NullOutputStream>();
  auto reset = [&](const Toks&) {
    ics.clear(); ics.resize(NI); ps.clear(); ps.resize(NP); monitorOffence.clear(); capBuf.str("");
  };
  reset(Toks());
  return runLoop(reset, [&](const Toks& t) { return op(t); });
}
