// Harness for C07: interprets the C07 line protocol against
//   Bpp/Numeric/VectorTools.h, Bpp/Numeric/NumTools.h (logsum), Bpp/Numeric/Stat/StatTools.cpp.
// Every op is self-contained: `<op> [flags] <hex double>* [; <hex double>*]*`.
// Answers: doubles as 16 hex digits (every NaN as `nan`), vectors as their doubles (`-` when
// empty), positions in decimal, booleans 0/1, `exc:<kind>` for the documented exceptions.
#include "common.h"
#include <Bpp/Numeric/VectorTools.h>
#include <Bpp/Numeric/NumTools.h>
#include <Bpp/Numeric/Stat/StatTools.h>
#include <Bpp/Numeric/AdaptiveKernelDensityEstimation.h>
#include <Bpp/Numeric/Matrix/Matrix.h>
#include <cmath>
using namespace bpp; using namespace verif;
typedef std::vector<double> V;

static std::string F(double d) { return std::isnan(d) ? std::string("nan") : doubleToHex(d); }
static std::string FV(const V& v) {
  if (v.empty()) return "-";
  std::string s; for (size_t i = 0; i < v.size(); ++i) { if (i) s += " "; s += F(v[i]); } return s;
}
static std::string NV(const std::vector<size_t>& v) {
  if (v.empty()) return "-";
  std::string s; for (size_t i = 0; i < v.size(); ++i) { if (i) s += " "; s += std::to_string(v[i]); } return s;
}
static std::string B(bool b) { return b ? "1" : "0"; }

// split the arguments t[from..] at ";" into vectors of doubles
static std::vector<V> vecs(const Toks& t, size_t from) {
  std::vector<V> r(1);
  for (size_t i = from; i < t.size(); ++i) {
    if (t[i] == ";") r.emplace_back(); else r.back().push_back(hexToDouble(t[i]));
  }
  return r;
}
static bool flag(const Toks& t, size_t i) { return t.at(i) == "1"; }


// ---- round 2 helpers
static std::string FVV(const std::vector<V>& vv) {
  if (vv.empty()) return "none";
  std::string s; for (size_t i = 0; i < vv.size(); ++i) { if (i) s += " ; "; s += FV(vv[i]); } return s;
}
static size_t N(double d) { return static_cast<size_t>(d); }
static std::string common(const std::vector<size_t>& l) {
  if (l.empty()) return "-";
  for (size_t x : l) if (x != l[0]) return "x";
  return std::to_string(l[0]);
}
// the list of vectors of `; v1 ; v2 ...`
static std::vector<V> vlist(const Toks& t) { auto a = vecs(t, 1); a.erase(a.begin()); return a; }

static std::string run2(const Toks& t) {
  const std::string& o = t[0];
  // ---- weighted moments, every option pair
  if (o == "sdw") { auto a = vecs(t, 3); return F(VectorTools::sd<double, double>(a.at(0), a.at(1), flag(t, 1), flag(t, 2))); }
  if (o == "covw4") { auto a = vecs(t, 3); return F(VectorTools::cov<double, double>(a.at(0), a.at(1), a.at(2), flag(t, 1), flag(t, 2))); }
  if (o == "varw4") { auto a = vecs(t, 3); return F(VectorTools::var<double, double>(a.at(0), a.at(1), flag(t, 1), flag(t, 2))); }
  if (o == "cosw") { auto a = vecs(t, 1); return F(VectorTools::cos<double, double>(a.at(0), a.at(1), a.at(2))); }
  if (o == "kron") { auto a = vecs(t, 1); return FV(VectorTools::kroneckerMult(a.at(0), a.at(1))); }
  // ---- compound operators with a constant
  if (o == "fillc") { auto a = vecs(t, 1); V x = a.at(0); x &= a.at(1).at(0); return FV(x); }
  if (o == "fill") { auto a = vecs(t, 1); V x = a.at(0); VectorTools::fill(x, a.at(1).at(0)); return FV(x); }
  if (o == "addceq" || o == "subceq" || o == "mulceq" || o == "divceq") {
    auto a = vecs(t, 1); V x = a.at(0); double c = a.at(1).at(0);
    if (o == "addceq") x += c; else if (o == "subceq") x -= c; else if (o == "mulceq") x *= c; else x /= c;
    return FV(x);
  }
  // ---- element-wise functions
  if (o == "vlog") { auto a = vecs(t, 1); return FV(VectorTools::log(a[0])); }
  if (o == "vexp") { auto a = vecs(t, 1); return FV(VectorTools::exp(a[0])); }
  if (o == "vcos") { auto a = vecs(t, 1); return FV(VectorTools::cos(a[0])); }
  if (o == "vsin") { auto a = vecs(t, 1); return FV(VectorTools::sin(a[0])); }
  if (o == "vlog10") { auto a = vecs(t, 1); return FV(VectorTools::log10(a[0])); }
  if (o == "vsqr") { auto a = vecs(t, 1); return FV(VectorTools::sqr(a[0])); }
  if (o == "vabs") { auto a = vecs(t, 1); return FV(VectorTools::abs(a[0])); }
  if (o == "vlogb") { auto a = vecs(t, 1); return FV(VectorTools::log(a.at(1), a.at(0).at(0))); }
  if (o == "vpow") { auto a = vecs(t, 1); double b = a.at(0).at(0); return FV(VectorTools::pow(a.at(1), b)); }
  if (o == "vfact") { auto a = vecs(t, 1); return FV(VectorTools::fact(a[0])); }
  // ---- NumTools scalar helpers
  if (o == "ntabs") return F(NumTools::abs(hexToDouble(t.at(1))));
  if (o == "ntsign") return F(NumTools::sign(hexToDouble(t.at(1))));
  if (o == "ntsqr") return F(NumTools::sqr(hexToDouble(t.at(1))));
  if (o == "ntfact") return F(NumTools::fact(hexToDouble(t.at(1))));
  if (o == "ntlogfact") return F(NumTools::logFact(hexToDouble(t.at(1))));
  if (o == "ntmax") return F(NumTools::max(hexToDouble(t.at(1)), hexToDouble(t.at(2))));
  if (o == "ntmin") return F(NumTools::min(hexToDouble(t.at(1)), hexToDouble(t.at(2))));
  if (o == "ntsign2") return F(NumTools::sign(hexToDouble(t.at(1)), hexToDouble(t.at(2))));
  if (o == "ntswap") {
    auto a = vecs(t, 1).at(0);
    if (a.size() == 2) { NumTools::swap(a[0], a[1]); return FV(a); }
    if (a.size() == 3) { NumTools::shift(a[0], a[1], a[2]); return FV(V{a[0], a[1]}); }
    if (a.size() == 4) { NumTools::shift(a[0], a[1], a[2], a[3]); return FV(V{a[0], a[1], a[2]}); }
    return "bad-op";
  }
  // ---- histogram helpers
  if (o == "breaks") { auto a = vecs(t, 1); return FV(VectorTools::breaks(a.at(1), static_cast<unsigned int>(a.at(0).at(0)))); }
  if (o == "nclass") { auto a = vecs(t, 1); return std::to_string(VectorTools::nclassScott(a[0])); }
  // ---- extract, countValues
  if (o == "extract") { auto a = vecs(t, 1); std::vector<size_t> pos; for (double d : a.at(0)) pos.push_back(N(d)); return FV(VectorTools::extract(a.at(1), pos)); }
  if (o == "countvalues") {
    auto a = vecs(t, 1); auto m = VectorTools::countValues(a[0]);
    if (m.empty()) return "-";
    std::string s; for (auto& kc : m) { if (!s.empty()) s += " "; s += F(kc.first) + " " + std::to_string(kc.second); } return s;
  }
  // ---- lists of vectors
  if (o == "unionlist") return FV(VectorTools::vectorUnion(vlist(t)));
  if (o == "interlist") return FV(VectorTools::vectorIntersection(vlist(t)));
  if (o == "appendlist") return FV(VectorTools::append(vlist(t)));
  if (o == "extend") { auto a = vecs(t, 1); V x = a.at(0); VectorTools::extend(x, a.at(1)); return FV(x); }
  if (o == "append2") { auto a = vecs(t, 1); V x = a.at(0); VectorTools::append(x, a.at(1)); return FV(x); }
  if (o == "prepend") { auto a = vecs(t, 1); V x = a.at(0); VectorTools::prepend(x, a.at(1)); return FV(x); }
  if (o == "rep") { auto a = vecs(t, 1); return FV(VectorTools::rep(a.at(1), N(a.at(0).at(0)))); }
  // ---- overloads that sort in place
  if (o == "havesame2") { auto a = vecs(t, 1); V x = a.at(0), y = a.at(1); bool b = VectorTools::haveSameElements(x, y); return B(b) + " ; " + FV(x) + " ; " + FV(y); }
  if (o == "containsall2") { auto a = vecs(t, 1); V x = a.at(0), y = a.at(1); bool b = VectorTools::containsAll(x, y); return B(b) + " ; " + FV(x) + " ; " + FV(y); }
  if (o == "diff3") { auto a = vecs(t, 1); V x = a.at(0), y = a.at(1), z = a.at(2); VectorTools::diff(x, y, z); return FV(x) + " ; " + FV(y) + " ; " + FV(z); }
  // ---- mixed-type overloads (U = int)
  if (o == "containsu") { auto a = vecs(t, 1); int el = static_cast<int>(a.at(0).at(0)); return B(VectorTools::contains(a.at(1), el)); }
  if (o == "intertu") { auto a = vecs(t, 1); std::vector<int> y; for (double d : a.at(1)) y.push_back(static_cast<int>(d)); return FV(VectorTools::vectorIntersection(a.at(0), y)); }
  // ---- resize
  if (o == "resize2") {
    auto a = vecs(t, 1); VVdouble vv(a.begin() + 1, a.end());
    VectorTools::resize2(vv, N(a[0].at(0)), N(a[0].at(1))); return FVV(vv);
  }
  if (o == "resize3") {
    auto a = vecs(t, 1).at(0); VVVdouble v;
    VectorTools::resize3(v, N(a.at(0)), N(a.at(1)), N(a.at(2)));
    for (auto& x : v) for (auto& y : x) for (auto& z : y) z = 1.;
    VectorTools::resize3(v, N(a.at(3)), N(a.at(4)), N(a.at(5)));
    std::vector<size_t> s2, s3; double sum = 0;
    for (auto& x : v) { s2.push_back(x.size()); for (auto& y : x) { s3.push_back(y.size()); for (double z : y) sum += z; } }
    return std::to_string(v.size()) + " " + common(s2) + " " + common(s3) + " " + F(sum);
  }
  if (o == "resize4") {
    auto a = vecs(t, 1).at(0); VVVVdouble v;
    VectorTools::resize4(v, N(a.at(0)), N(a.at(1)), N(a.at(2)), N(a.at(3)));
    for (auto& x : v) for (auto& y : x) for (auto& z : y) for (auto& u : z) u = 1.;
    VectorTools::resize4(v, N(a.at(4)), N(a.at(5)), N(a.at(6)), N(a.at(7)));
    std::vector<size_t> s2, s3, s4; double sum = 0;
    for (auto& x : v) { s2.push_back(x.size()); for (auto& y : x) { s3.push_back(y.size()); for (auto& z : y) { s4.push_back(z.size()); for (double u : z) sum += u; } } }
    return std::to_string(v.size()) + " " + common(s2) + " " + common(s3) + " " + common(s4) + " " + F(sum);
  }
  // ---- calls that leave trailing arguments to their defaults
  if (o == "dcov") { auto a = vecs(t, 1); return F(VectorTools::cov<double, double>(a.at(0), a.at(1))); }
  if (o == "dvar") { auto a = vecs(t, 1); return F(VectorTools::var<double, double>(a.at(0))); }
  if (o == "dsd") { auto a = vecs(t, 1); return F(VectorTools::sd<double, double>(a.at(0))); }
  if (o == "dmeanw") { auto a = vecs(t, 1); return F(VectorTools::mean<double, double>(a.at(0), a.at(1))); }
  if (o == "dcenterw") { auto a = vecs(t, 1); return FV(VectorTools::center<double, double>(a.at(0), a.at(1))); }
  if (o == "dcorw") { auto a = vecs(t, 1); return F(VectorTools::cor<double, double>(a.at(0), a.at(1), a.at(2))); }
  if (o == "dcovw") { auto a = vecs(t, 1); return F(VectorTools::cov<double, double>(a.at(0), a.at(1), a.at(2))); }
  if (o == "dvarw") { auto a = vecs(t, 1); return F(VectorTools::var<double, double>(a.at(0), a.at(1))); }
  if (o == "dsdw") { auto a = vecs(t, 1); return F(VectorTools::sd<double, double>(a.at(0), a.at(1))); }
  if (o == "dcovw1") { auto a = vecs(t, 2); return F(VectorTools::cov<double, double>(a.at(0), a.at(1), a.at(2), flag(t, 1))); }
  if (o == "dvarw1") { auto a = vecs(t, 2); return F(VectorTools::var<double, double>(a.at(0), a.at(1), flag(t, 1))); }
  if (o == "dsdw1") { auto a = vecs(t, 2); return F(VectorTools::sd<double, double>(a.at(0), a.at(1), flag(t, 1))); }
  if (o == "dshannon") { auto a = vecs(t, 1); return F(VectorTools::shannon<double, double>(a.at(0))); }
  if (o == "dshannondisc") { auto a = vecs(t, 1); return F(VectorTools::shannonDiscrete<double, double>(a.at(0))); }
  if (o == "dmidisc") { auto a = vecs(t, 1); return F(VectorTools::miDiscrete<double, double>(a.at(0), a.at(1))); }
  // ---- continuous entropy: the answer and the kernel densities it was computed from (the same
  //      estimator objects the routine builds: one row per variable, one column per point)
  if (o == "shannoncont" || o == "dshannoncont") {
    bool dflt = o[0] == 'd';
    auto a = vecs(t, 1); const V& v = a.at(dflt ? 0 : 1);
    double r = dflt ? VectorTools::shannonContinuous<double, double>(v)
                    : VectorTools::shannonContinuous<double, double>(v, a.at(0).at(0));
    LinearMatrix<double> m(1, v.size());
    for (size_t i = 0; i < v.size(); i++) m(0, i) = v[i];
    AdaptiveKernelDensityEstimation kd(m);
    V d; std::vector<double> x(1);
    for (double it : v) { x[0] = it; d.push_back(kd.kDensity(x)); }
    return F(r) + " ; " + FV(d);
  }
  if (o == "micont" || o == "dmicont") {
    bool dflt = o[0] == 'd';
    auto a = vecs(t, 1); const V& v1 = a.at(dflt ? 0 : 1); const V& v2 = a.at(dflt ? 1 : 2);
    double r = dflt ? VectorTools::miContinuous<double, double>(v1, v2)
                    : VectorTools::miContinuous<double, double>(v1, v2, a.at(0).at(0));
    LinearMatrix<double> m1(1, v1.size()), m2(1, v2.size()), m12(2, v1.size());
    for (size_t i = 0; i < v1.size(); i++) { m1(0, i) = m12(0, i) = v1[i]; m2(0, i) = m12(1, i) = v2[i]; }
    AdaptiveKernelDensityEstimation kd1(m1), kd2(m2), kd12(m12);
    V d12, d1, d2; std::vector<double> x1(1), x2(1), x12(2);
    for (size_t i = 0; i < v1.size(); i++) {
      x1[0] = x12[0] = v1[i]; x2[0] = x12[1] = v2[i];
      d12.push_back(kd12.kDensity(x12)); d1.push_back(kd1.kDensity(x1)); d2.push_back(kd2.kDensity(x2));
    }
    return F(r) + " ; " + FV(d12) + " ; " + FV(d1) + " ; " + FV(d2);
  }
  return "bad-op";
}

static std::string run(const Toks& t) {
  const std::string& o = t[0];
  // ---- element-wise
  if (o == "add" || o == "sub" || o == "mul" || o == "div") {
    auto a = vecs(t, 1); const V& x = a.at(0); const V& y = a.at(1);
    if (o == "add") return FV(x + y);
    if (o == "sub") return FV(x - y);
    if (o == "mul") return FV(x * y);
    return FV(x / y);
  }
  if (o == "addeq" || o == "subeq" || o == "muleq" || o == "diveq") {
    auto a = vecs(t, 1); V x = a.at(0); const V& y = a.at(1);
    if (o == "addeq") x += y; else if (o == "subeq") x -= y; else if (o == "muleq") x *= y; else x /= y;
    return FV(x);
  }
  if (o == "addc" || o == "subc" || o == "mulc" || o == "divc") {
    auto a = vecs(t, 1); const V& x = a.at(0); double c = a.at(1).at(0);
    if (o == "addc") return FV(x + c);
    if (o == "subc") return FV(x - c);
    if (o == "mulc") return FV(x * c);
    return FV(x / c);
  }
  if (o == "cadd" || o == "csub" || o == "cmul" || o == "cdiv") {
    auto a = vecs(t, 1); double c = a.at(0).at(0); const V& x = a.at(1);
    if (o == "cadd") return FV(c + x);
    if (o == "csub") return FV(c - x);
    if (o == "cmul") return FV(c * x);
    return FV(c / x);
  }
  // ---- reductions
  if (o == "sum") { auto a = vecs(t, 1); return F(VectorTools::sum(a[0])); }
  if (o == "prod") { auto a = vecs(t, 1); return F(VectorTools::prod(a[0])); }
  if (o == "cumsum") { auto a = vecs(t, 1); return FV(VectorTools::cumSum(a[0])); }
  if (o == "cumprod") { auto a = vecs(t, 1); return FV(VectorTools::cumProd(a[0])); }
  if (o == "sumprod") { auto a = vecs(t, 1); return F(VectorTools::sumProd(a.at(0), a.at(1))); }
  if (o == "scalar") { auto a = vecs(t, 1); return F(VectorTools::scalar<double, double>(a.at(0), a.at(1))); }
  if (o == "scalarw") { auto a = vecs(t, 1); return F(VectorTools::scalar<double, double>(a.at(0), a.at(1), a.at(2))); }
  if (o == "norm") { auto a = vecs(t, 1); return F(VectorTools::norm<double, double>(a[0])); }
  if (o == "normw") { auto a = vecs(t, 1); return F(VectorTools::norm<double, double>(a.at(0), a.at(1))); }
  if (o == "cos") { auto a = vecs(t, 1); return F(VectorTools::cos<double, double>(a.at(0), a.at(1))); }
  // ---- extrema
  if (o == "min") { auto a = vecs(t, 1); return F(VectorTools::min(a[0])); }
  if (o == "max") { auto a = vecs(t, 1); return F(VectorTools::max(a[0])); }
  if (o == "whichmin") { auto a = vecs(t, 1); return std::to_string(VectorTools::whichMin(a[0])); }
  if (o == "whichmax") { auto a = vecs(t, 1); return std::to_string(VectorTools::whichMax(a[0])); }
  if (o == "whichminall") { auto a = vecs(t, 1); return NV(VectorTools::whichMinAll(a[0])); }
  if (o == "whichmaxall") { auto a = vecs(t, 1); return NV(VectorTools::whichMaxAll(a[0])); }
  if (o == "range") { auto a = vecs(t, 1); return FV(VectorTools::range(a[0])); }
  // ---- order / median / moments
  if (o == "order") { auto a = vecs(t, 1); return NV(VectorTools::order(a[0])); }
  if (o == "median") { auto a = vecs(t, 1); V x = a[0]; double m = VectorTools::median(x); return F(m) + " ; " + FV(x); }
  if (o == "mean") { auto a = vecs(t, 1); return F(VectorTools::mean<double, double>(a[0])); }
  if (o == "meanw") { auto a = vecs(t, 2); return F(VectorTools::mean<double, double>(a.at(0), a.at(1), flag(t, 1))); }
  if (o == "center") { auto a = vecs(t, 1); return FV(VectorTools::center<double, double>(a[0])); }
  if (o == "centerw") { auto a = vecs(t, 2); return FV(VectorTools::center<double, double>(a.at(0), a.at(1), flag(t, 1))); }
  if (o == "cov") { auto a = vecs(t, 2); return F(VectorTools::cov<double, double>(a.at(0), a.at(1), flag(t, 1))); }
  if (o == "var") { auto a = vecs(t, 2); return F(VectorTools::var<double, double>(a.at(0), flag(t, 1))); }
  if (o == "sd") { auto a = vecs(t, 2); return F(VectorTools::sd<double, double>(a.at(0), flag(t, 1))); }
  if (o == "cor") { auto a = vecs(t, 1); return F(VectorTools::cor<double, double>(a.at(0), a.at(1))); }
  if (o == "covw") { auto a = vecs(t, 3); return F(VectorTools::cov<double, double>(a.at(0), a.at(1), a.at(2), flag(t, 1), flag(t, 2))); }
  if (o == "varw") { auto a = vecs(t, 3); return F(VectorTools::var<double, double>(a.at(0), a.at(1), flag(t, 1), flag(t, 2))); }
  if (o == "corw") { auto a = vecs(t, 2); return F(VectorTools::cor<double, double>(a.at(0), a.at(1), a.at(2), flag(t, 1))); }
  if (o == "shannon") { auto a = vecs(t, 1); return F(VectorTools::shannon<double, double>(a.at(1), a.at(0).at(0))); }
  if (o == "shannondisc") { auto a = vecs(t, 1); return F(VectorTools::shannonDiscrete<double, double>(a.at(1), a.at(0).at(0))); }
  if (o == "midisc") { auto a = vecs(t, 1); return F(VectorTools::miDiscrete<double, double>(a.at(1), a.at(2), a.at(0).at(0))); }
  if (o == "seq") { return FV(VectorTools::seq<double>(hexToDouble(t.at(1)), hexToDouble(t.at(2)), hexToDouble(t.at(3)))); }
  // ---- set-like
  if (o == "unique") { auto a = vecs(t, 1); return FV(VectorTools::unique(a[0])); }
  if (o == "isunique") { auto a = vecs(t, 1); return B(VectorTools::isUnique(a[0])); }
  if (o == "contains") { auto a = vecs(t, 1); return B(VectorTools::contains(a.at(1), a.at(0).at(0))); }
  if (o == "which") { auto a = vecs(t, 1); return std::to_string(VectorTools::which(a.at(1), a.at(0).at(0))); }
  if (o == "whichall") { auto a = vecs(t, 1); return NV(VectorTools::whichAll(a.at(1), a.at(0).at(0))); }
  if (o == "appendall") { auto a = vecs(t, 1); if (t.size() == 1) a.clear(); return FV(VectorTools::append(a)); }
  if (o == "union") { auto a = vecs(t, 1); return FV(VectorTools::vectorUnion(a.at(0), a.at(1))); }
  if (o == "inter") { auto a = vecs(t, 1); return FV(VectorTools::vectorIntersection(a.at(0), a.at(1))); }
  if (o == "diff") { auto a = vecs(t, 1); V x = a.at(0), y = a.at(1), z; VectorTools::diff(x, y, z); return FV(z); }
  if (o == "containsall") { auto a = vecs(t, 1); V x = a.at(0), y = a.at(1); return B(VectorTools::containsAll(x, y)); }
  if (o == "havesame") { auto a = vecs(t, 1); const V& x = a.at(0); const V& y = a.at(1); return B(VectorTools::haveSameElements(x, y)); }
  // ---- log space
  if (o == "lse") { auto a = vecs(t, 1); return F(VectorTools::logSumExp(a[0])); }
  if (o == "lsew") { auto a = vecs(t, 1); return F(VectorTools::logSumExp(a.at(0), a.at(1))); }
  if (o == "lme") { auto a = vecs(t, 1); return F(VectorTools::logMeanExp(a[0])); }
  if (o == "sumexp") { auto a = vecs(t, 1); return F(VectorTools::sumExp(a[0])); }
  if (o == "sumexpw") { auto a = vecs(t, 1); return F(VectorTools::sumExp(a.at(0), a.at(1))); }
  if (o == "lognorm") { auto a = vecs(t, 1); V x = a[0]; VectorTools::logNorm(x); return FV(x); }
  if (o == "lseshift") { auto a = vecs(t, 1); double c = a.at(0).at(0); const V& x = a.at(1);
    return F(VectorTools::logSumExp(x + c)) + " " + F(VectorTools::logSumExp(x)); }
  if (o == "logsum") { double a = hexToDouble(t.at(1)), b = hexToDouble(t.at(2));
    return F(NumTools::logsum(a, b)) + " " + F(NumTools::logsum(b, a)); }
  // ---- StatTools
  if (o == "fdr") { auto a = vecs(t, 1); return FV(StatTools::computeFdr(a[0])); }
  return run2(t);
}

int main() {
  return runLoop(
    [&](const Toks&) {},
    [&](const Toks& t) -> std::string {
      try { return run(t); }
      catch (DimensionException&) { return "exc:dimension"; }
      catch (EmptyVectorException<double>&) { return "exc:empty"; }
      catch (ElementNotFoundException<double>&) { return "exc:notfound"; }
      catch (BadNumberException&) { return "exc:badnumber"; }
      catch (Exception&) { return "exc:bpp"; }
    });
}
