// Harness for C07: interprets the C07 line protocol against
//   Bpp/Numeric/VectorTools.h, Bpp/Numeric/NumTools.h (logsum), Bpp/Numeric/Stat/StatTools.cpp.
// Every op is self-contained: `<op> [flags] <hex double>* [; <hex double>*]*`.
// Answers: doubles as 16 hex digits (every NaN as `nan`), vectors as their doubles (`-` when
// empty), positions in decimal, booleans 0/1, `exc:<kind>` for the documented exceptions.
#include "common.h"
#include <Bpp/Numeric/VectorTools.h>
#include <Bpp/Numeric/NumTools.h>
#include <Bpp/Numeric/Stat/StatTools.h>
#include <cmath>
using namespace bpp; using namespace verif;
typedef std::vector<double> V;

static std::string F(double d) { return std::isnan(d) ? std::string("nan") : doubleToHex(d); }
static std::string FV(const V& v) {
  if (v.empty()) return "-";
  std::string s; for (size_t i = 0; i < v.size(); ++i) { if (i) s += " "; s += F(v[i]); } return s;
}
static std::string NV(const std::vector<size_t>& v) {
  if (v.empty()) return "-";
  std::string s; for (size_t i = 0; i < v.size(); ++i) { if (i) s += " "; s += std::to_string(v[i]); } return s;
}
static std::string B(bool b) { return b ? "1" : "0"; }

// split the arguments t[from..] at ";" into vectors of doubles
static std::vector<V> vecs(const Toks& t, size_t from) {
  std::vector<V> r(1);
  for (size_t i = from; i < t.size(); ++i) {
    if (t[i] == ";") r.emplace_back(); else r.back().push_back(hexToDouble(t[i]));
  }
  return r;
}
static bool flag(const Toks& t, size_t i) { return t.at(i) == "1"; }

static std::string run(const Toks& t) {
  const std::string& o = t[0];
  // ---- element-wise
  if (o == "add" || o == "sub" || o == "mul" || o == "div") {
    auto a = vecs(t, 1); const V& x = a.at(0); const V& y = a.at(1);
    if (o == "add") return FV(x + y);
    if (o == "sub") return FV(x - y);
    if (o == "mul") return FV(x * y);
    return FV(x / y);
  }
  if (o == "addeq" || o == "subeq" || o == "muleq" || o == "diveq") {
    auto a = vecs(t, 1); V x = a.at(0); const V& y = a.at(1);
    if (o == "addeq") x += y; else if (o == "subeq") x -= y; else if (o == "muleq") x *= y; else x /= y;
    return FV(x);
  }
  if (o == "addc" || o == "subc" || o == "mulc" || o == "divc") {
    auto a = vecs(t, 1); const V& x = a.at(0); double c = a.at(1).at(0);
    if (o == "addc") return FV(x + c);
    if (o == "subc") return FV(x - c);
    if (o == "mulc") return FV(x * c);
    return FV(x / c);
  }
  if (o == "cadd" || o == "csub" || o == "cmul" || o == "cdiv") {
    auto a = vecs(t, 1); double c = a.at(0).at(0); const V& x = a.at(1);
    if (o == "cadd") return FV(c + x);
    if (o == "csub") return FV(c - x);
    if (o == "cmul") return FV(c * x);
    return FV(c / x);
  }
  // ---- reductions
  if (o == "sum") { auto a = vecs(t, 1); return F(VectorTools::sum(a[0])); }
  if (o == "prod") { auto a = vecs(t, 1); return F(VectorTools::prod(a[0])); }
  if (o == "cumsum") { auto a = vecs(t, 1); return FV(VectorTools::cumSum(a[0])); }
  if (o == "cumprod") { auto a = vecs(t, 1); return FV(VectorTools::cumProd(a[0])); }
  if (o == "sumprod") { auto a = vecs(t, 1); return F(VectorTools::sumProd(a.at(0), a.at(1))); }
  if (o == "scalar") { auto a = vecs(t, 1); return F(VectorTools::scalar<double, double>(a.at(0), a.at(1))); }
  if (o == "scalarw") { auto a = vecs(t, 1); return F(VectorTools::scalar<double, double>(a.at(0), a.at(1), a.at(2))); }
  if (o == "norm") { auto a = vecs(t, 1); return F(VectorTools::norm<double, double>(a[0])); }
  if (o == "normw") { auto a = vecs(t, 1); return F(VectorTools::norm<double, double>(a.at(0), a.at(1))); }
  if (o == "cos") { auto a = vecs(t, 1); return F(VectorTools::cos<double, double>(a.at(0), a.at(1))); }
  // ---- extrema
  if (o == "min") { auto a = vecs(t, 1); return F(VectorTools::min(a[0])); }
  if (o == "max") { auto a = vecs(t, 1); return F(VectorTools::max(a[0])); }
  if (o == "whichmin") { auto a = vecs(t, 1); return std::to_string(VectorTools::whichMin(a[0])); }
  if (o == "whichmax") { auto a = vecs(t, 1); return std::to_string(VectorTools::whichMax(a[0])); }
  if (o == "whichminall") { auto a = vecs(t, 1); return NV(VectorTools::whichMinAll(a[0])); }
  if (o == "whichmaxall") { auto a = vecs(t, 1); return NV(VectorTools::whichMaxAll(a[0])); }
  if (o == "range") { auto a = vecs(t, 1); return FV(VectorTools::range(a[0])); }
  // ---- order / median / moments
  if (o == "order") { auto a = vecs(t, 1); return NV(VectorTools::order(a[0])); }
  if (o == "median") { auto a = vecs(t, 1); V x = a[0]; double m = VectorTools::median(x); return F(m) + " ; " + FV(x); }
  if (o == "mean") { auto a = vecs(t, 1); return F(VectorTools::mean<double, double>(a[0])); }
  if (o == "meanw") { auto a = vecs(t, 2); return F(VectorTools::mean<double, double>(a.at(0), a.at(1), flag(t, 1))); }
  if (o == "center") { auto a = vecs(t, 1); return FV(VectorTools::center<double, double>(a[0])); }
  if (o == "centerw") { auto a = vecs(t, 2); return FV(VectorTools::center<double, double>(a.at(0), a.at(1), flag(t, 1))); }
  if (o == "cov") { auto a = vecs(t, 2); return F(VectorTools::cov<double, double>(a.at(0), a.at(1), flag(t, 1))); }
  if (o == "var") { auto a = vecs(t, 2); return F(VectorTools::var<double, double>(a.at(0), flag(t, 1))); }
  if (o == "sd") { auto a = vecs(t, 2); return F(VectorTools::sd<double, double>(a.at(0), flag(t, 1))); }
  if (o == "cor") { auto a = vecs(t, 1); return F(VectorTools::cor<double, double>(a.at(0), a.at(1))); }
  if (o == "covw") { auto a = vecs(t, 3); return F(VectorTools::cov<double, double>(a.at(0), a.at(1), a.at(2), flag(t, 1), flag(t, 2))); }
  if (o == "varw") { auto a = vecs(t, 3); return F(VectorTools::var<double, double>(a.at(0), a.at(1), flag(t, 1), flag(t, 2))); }
  if (o == "corw") { auto a = vecs(t, 2); return F(VectorTools::cor<double, double>(a.at(0), a.at(1), a.at(2), flag(t, 1))); }
  if (o == "shannon") { auto a = vecs(t, 1); return F(VectorTools::shannon<double, double>(a.at(1), a.at(0).at(0))); }
  if (o == "shannondisc") { auto a = vecs(t, 1); return F(VectorTools::shannonDiscrete<double, double>(a.at(1), a.at(0).at(0))); }
  if (o == "midisc") { auto a = vecs(t, 1); return F(VectorTools::miDiscrete<double, double>(a.at(1), a.at(2), a.at(0).at(0))); }
  if (o == "seq") { return FV(VectorTools::seq<double>(hexToDouble(t.at(1)), hexToDouble(t.at(2)), hexToDouble(t.at(3)))); }
  // ---- set-like
  if (o == "unique") { auto a = vecs(t, 1); return FV(VectorTools::unique(a[0])); }
  if (o == "isunique") { auto a = vecs(t, 1); return B(VectorTools::isUnique(a[0])); }
  if (o == "contains") { auto a = vecs(t, 1); return B(VectorTools::contains(a.at(1), a.at(0).at(0))); }
  if (o == "which") { auto a = vecs(t, 1); return std::to_string(VectorTools::which(a.at(1), a.at(0).at(0))); }
  if (o == "whichall") { auto a = vecs(t, 1); return NV(VectorTools::whichAll(a.at(1), a.at(0).at(0))); }
  if (o == "appendall") { auto a = vecs(t, 1); if (t.size() == 1) a.clear(); return FV(VectorTools::append(a)); }
  if (o == "union") { auto a = vecs(t, 1); return FV(VectorTools::vectorUnion(a.at(0), a.at(1))); }
  if (o == "inter") { auto a = vecs(t, 1); return FV(VectorTools::vectorIntersection(a.at(0), a.at(1))); }
  if (o == "diff") { auto a = vecs(t, 1); V x = a.at(0), y = a.at(1), z; VectorTools::diff(x, y, z); return FV(z); }
  if (o == "containsall") { auto a = vecs(t, 1); V x = a.at(0), y = a.at(1); return B(VectorTools::containsAll(x, y)); }
  if (o == "havesame") { auto a = vecs(t, 1); const V& x = a.at(0); const V& y = a.at(1); return B(VectorTools::haveSameElements(x, y)); }
  // ---- log space
  if (o == "lse") { auto a = vecs(t, 1); return F(VectorTools::logSumExp(a[0])); }
  if (o == "lsew") { auto a = vecs(t, 1); return F(VectorTools::logSumExp(a.at(0), a.at(1))); }
  if (o == "lme") { auto a = vecs(t, 1); return F(VectorTools::logMeanExp(a[0])); }
  if (o == "sumexp") { auto a = vecs(t, 1); return F(VectorTools::sumExp(a[0])); }
  if (o == "sumexpw") { auto a = vecs(t, 1); return F(VectorTools::sumExp(a.at(0), a.at(1))); }
  if (o == "lognorm") { auto a = vecs(t, 1); V x = a[0]; VectorTools::logNorm(x); return FV(x); }
  if (o == "lseshift") { auto a = vecs(t, 1); double c = a.at(0).at(0); const V& x = a.at(1);
    return F(VectorTools::logSumExp(x + c)) + " " + F(VectorTools::logSumExp(x)); }
  if (o == "logsum") { double a = hexToDouble(t.at(1)), b = hexToDouble(t.at(2));
    return F(NumTools::logsum(a, b)) + " " + F(NumTools::logsum(b, a)); }
  // ---- StatTools
  if (o == "fdr") { auto a = vecs(t, 1); return FV(StatTools::computeFdr(a[0])); }
  return "bad-op";
}

int main() {
  return runLoop(
    [&](const Toks&) {},
    [&](const Toks& t) -> std::string {
      try { return run(t); }
      catch (DimensionException&) { return "exc:dimension"; }
      catch (EmptyVectorException<double>&) { return "exc:empty"; }
      catch (ElementNotFoundException<double>&) { return "exc:notfound"; }
      catch (BadNumberException&) { return "exc:badnumber"; }
      catch (Exception&) { return "exc:bpp"; }
    });
}
