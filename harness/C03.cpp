// Harness for C03: interprets alias scripts against bpp::AbstractParameterAliasable.
//
// Slots 0..2 hold objects of a small concrete subclass `T` (the protected `addParameter_` is
// exposed).  Values and bounds travel as integers meaning quarters (q/4), constraints as
// `c:<inclLo>:<lo>:<hi>:<inclHi>` or `-` (as in harness/C02.cpp); names are plain tokens,
// `-` is the empty string.
//
// Answer: `<result> ; <slot0> ; <slot1> ; <slot2>`; a slot is `-` (no object) or
//   `pre=<ns> P <name>,<value>,<constraint> ... L <x>><y> ... I <name>@<pos> ...`
// where a link `x>y` says that the parameter with short name x answers to the listener id
// `__alias_y_to_x` (`hasParameterListener`, probed for every ordered pair of the object's short
// names, in parameter order) and `<pos>` is the position in `getParameters()` of the very object
// shared by the independent list (`x` if that object is not one of the owner's parameters).
//
// Every case runs in a child process and every call into the library under a watchdog (1 s of CPU time): a call
// that does not return is answered `hang`, a call that kills the process `crash:<rc>`; the
// remaining operations of that case are answered `skipped` and the next case starts afresh.
#include "common.h"
#include <Bpp/Numeric/AbstractParameterAliasable.h>
#include <Bpp/Numeric/Constraints.h>
#include <Bpp/App/ApplicationTools.h>
#include <algorithm>
#include <cmath>
#include <map>
#include <memory>
#include <signal.h>
#include <unistd.h>
#include <sys/wait.h>
#include <sys/time.h>
using namespace bpp; using namespace verif;

static const size_t NSLOT = 3;

struct T : public AbstractParameterAliasable {
  T(const std::string& ns) : AbstractParameterAliasable(ns) {}
  T* clone() const override { return new T(*this); }
  void add(Parameter* p) { addParameter_(p); }
};

static std::unique_ptr<T> slot[NSLOT];

static std::string quarters(double v) {
  if (std::isinf(v)) return v < 0 ? "-inf" : "+inf";
  double x = v * 4; long long n = std::llround(x);
  if (static_cast<double>(n) != x) return "x" + doubleToHex(v);
  return std::to_string(n);
}
static double fromQuarters(const std::string& s) {
  if (s == "-inf") return -INFINITY;
  if (s == "+inf") return INFINITY;
  return static_cast<double>(toI(s)) / 4.0;
}
static std::vector<std::string> split(const std::string& s, char sep) {
  std::vector<std::string> r; std::string cur;
  for (char c : s) { if (c == sep) { r.push_back(cur); cur.clear(); } else cur.push_back(c); }
  r.push_back(cur); return r;
}
static std::shared_ptr<ConstraintInterface> parseCon(const std::string& s) {
  if (s == "-") return nullptr;
  auto f = split(s, ':');
  if (f.size() != 5 || f[0] != "c") throw std::runtime_error("bad constraint");
  return std::make_shared<IntervalConstraint>(fromQuarters(f[2]), fromQuarters(f[3]), f[1] == "1", f[4] == "1");
}
static std::string showCon(const Parameter& p) {
  if (!p.hasConstraint()) return "-";
  auto ic = std::dynamic_pointer_cast<const IntervalConstraint>(p.getConstraint());
  if (!ic) return "?";
  return std::string("c:") + (ic->strictLowerBound() ? "0" : "1") + ":" + quarters(ic->getLowerBound()) + ":"
    + quarters(ic->getUpperBound()) + ":" + (ic->strictUpperBound() ? "0" : "1");
}
static std::string name(const std::string& s) { return s == "-" ? "" : s; }
static std::string showName(const std::string& s) { return s.empty() ? "-" : s; }

static std::string dumpSlot(size_t k) {
  if (!slot[k]) return " ; -";
  T& t = *slot[k];
  std::string s = " ; pre=" + showName(t.getNamespace()) + " P";
  const ParameterList& pl = t.getParameters();
  std::vector<std::string> shortNames;
  for (size_t i = 0; i < pl.size(); ++i) shortNames.push_back(t.getParameterNameWithoutNamespace(pl[i].getName()));
  for (size_t i = 0; i < pl.size(); ++i)
    s += " " + showName(pl[i].getName()) + "," + quarters(pl[i].getValue()) + "," + showCon(pl[i]);
  s += " L";
  for (size_t i = 0; i < pl.size(); ++i)
    for (auto& y : shortNames)
      if (const_cast<Parameter&>(pl[i]).hasParameterListener("__alias_" + y + "_to_" + shortNames[i]))
        s += " " + showName(shortNames[i]) + ">" + showName(y);
  s += " I";
  const ParameterList& ind = t.getIndependentParameters();
  for (size_t i = 0; i < ind.size(); ++i) {
    std::string pos = "x";
    for (size_t j = 0; j < pl.size(); ++j) if (&pl[j] == &ind[i]) { pos = std::to_string(j); break; }
    s += " " + showName(ind[i].getName()) + "@" + pos;
  }
  return s;
}

struct BadOp {};
static ParameterList valueList(const Toks& t, size_t from) {
  ParameterList pl;
  for (size_t i = from; i < t.size(); ++i) {
    auto f = split(t[i], '=');
    if (f.size() != 2 || pl.hasParameter(name(f[0]))) throw BadOp();
    pl.addParameter(Parameter(name(f[0]), fromQuarters(f[1])));
  }
  return pl;
}

struct Absent {};
static T& S(size_t k) {
  if (k >= NSLOT || !slot[k]) throw Absent();   // the script names an empty slot (not a library outcome)
  return *slot[k];
}

static std::string exec(const Toks& t) {
  const std::string& o = t[0];
  size_t k = toU(t[1]);
  if (k >= NSLOT) return "bad-op";
  if (o == "new") { slot[k].reset(new T(name(t[2]))); return "ok"; }
  if (o == "add") {
    T& s = S(k);
    Parameter* p = new Parameter(name(t[2]), fromQuarters(t[3]), parseCon(t[4]));
    s.add(p);
    return "ok";
  }
  if (o == "alias") { S(k).aliasParameters(name(t[2]), name(t[3])); return "ok"; }
  if (o == "unalias") { S(k).unaliasParameters(name(t[2]), name(t[3])); return "ok"; }
  if (o == "bulk") {
    std::map<std::string, std::string> m;
    for (size_t i = 2; i < t.size(); ++i) {
      auto f = split(t[i], ':');
      if (f.size() != 2) return "bad-op";
      m[name(f[0])] = name(f[1]);
    }
    S(k).aliasParameters(m, false);
    return "ok";
  }
  if (o == "setv") { S(k).setParameterValue(name(t[2]), fromQuarters(t[3])); return "ok"; }
  if (o == "setvs") { S(k).setParametersValues(valueList(t, 2)); return "ok"; }
  if (o == "matchvs") { bool b = S(k).matchParametersValues(valueList(t, 2)); return std::string("flag ") + (b ? "1" : "0"); }
  if (o == "setallv") { S(k).setAllParametersValues(valueList(t, 2)); return "ok"; }
  if (o == "copy") {
    size_t d = toU(t[2]);
    if (d >= NSLOT) return "bad-op";
    std::unique_ptr<T> n(new T(S(k)));
    slot[d] = std::move(n);
    return "ok";
  }
  if (o == "assign") {
    size_t d = toU(t[2]);
    if (d >= NSLOT) return "bad-op";
    T& src = S(k);
    S(d) = src;
    return "ok";
  }
  if (o == "ns") { S(k).setNamespace(name(t[2])); return "ok"; }
  if (o == "aliases") {
    auto m = S(k).getAliases();
    std::string s = "pairs";
    for (auto& kv : m) s += " " + showName(kv.first) + ":" + showName(kv.second);
    return s;
  }
  if (o == "aliasof") {
    auto v = S(k).getAlias(name(t[2]));
    std::string s = "strs";
    for (auto& x : v) s += " " + showName(x);
    return s;
  }
  if (o == "from") { return "str " + showName(S(k).getFrom(name(t[2]))); }
  return "bad-op";
}

// ---- one child process per case: a call that does not return (watchdog) or that crashes the
// process ends only this case; the remaining operations of the case are answered `skipped`.
static int g_out = 1;          // where the child writes its answers
static volatile size_t g_left = 0;   // operations of the case not answered yet (including the running one)

static void emitLine(const std::string& s) {
  std::string l = s + "\n";
  size_t off = 0;
  while (off < l.size()) { ssize_t r = write(g_out, l.data() + off, l.size() - off); if (r <= 0) _exit(4); off += (size_t)r; }
}

static void onAlarm(int) {
  ssize_t r = write(g_out, "hang\n", 5); (void)r;
  for (size_t i = 1; i < g_left; ++i) { r = write(g_out, "skipped\n", 8); (void)r; }
  _exit(0);
}

static std::string answer(const Toks& t) {
  if (t.size() < 2) return "bad-op";
  std::string res;
  // watchdog on the CPU time of this process (not wall time: immune to machine load)
  struct itimerval on = {{0, 0}, {1, 0}}, off = {{0, 0}, {0, 0}};
  setitimer(ITIMER_VIRTUAL, &on, nullptr);
  try { res = exec(t); }
  catch (ConstraintException&) { res = "exc:constraint"; }
  catch (ParameterNotFoundException&) { res = "exc:notfound"; }
  catch (Exception&) { res = "exc:bpp"; }
  catch (BadOp&) { res = "bad-op"; }
  catch (Absent&) { res = "absent"; }
  catch (std::exception&) { res = "exc:std"; }
  setitimer(ITIMER_VIRTUAL, &off, nullptr);
  if (res == "bad-op") return res;
  std::string s = res;
  for (size_t k = 0; k < NSLOT; ++k) s += dumpSlot(k);
  return s;
}

static void runCase(const std::vector<Toks>& ops) {
  if (ops.empty()) return;
  int fd[2];
  if (pipe(fd) != 0) _exit(5);
  std::cout.flush();
  pid_t pid = fork();
  if (pid == 0) {
    close(fd[0]);
    g_out = fd[1];
    signal(SIGVTALRM, onAlarm);
    g_left = ops.size();
    for (auto& t : ops) { emitLine(answer(t)); --g_left; }
    _exit(0);
  }
  close(fd[1]);
  std::string buf; char tmp[4096]; ssize_t r;
  while ((r = read(fd[0], tmp, sizeof tmp)) > 0) buf.append(tmp, (size_t)r);
  close(fd[0]);
  int st = 0; waitpid(pid, &st, 0);
  size_t lines = 0; for (char c : buf) if (c == '\n') ++lines;
  if (!buf.empty() && buf.back() != '\n') { buf += "\n"; ++lines; }
  std::cout << buf;
  if (lines < ops.size()) {
    // the child died inside an operation
    std::cout << "crash:" << (WIFSIGNALED(st) ? -WTERMSIG(st) : WEXITSTATUS(st)) << "\n";
    for (size_t i = lines + 1; i < ops.size(); ++i) std::cout << "skipped\n";
  }
  std::cout.flush();
}

int main() {
  // library warnings ("Aliasing parameter ... gets the constraints of ...") would go to stdout
  ApplicationTools::warning = nullptr;
  ApplicationTools::message = nullptr;
  std::vector<Toks> ops;
  std::string line;
  while (std::getline(std::cin, line)) {
    Toks t = toks(line);
    if (t.empty() || t[0] == "#" || t[0] == "=") continue;
    if (t[0] == "case") { runCase(ops); ops.clear(); continue; }
    ops.push_back(t);
  }
  runCase(ops);
  return 0;
}
