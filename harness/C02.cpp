// Harness for C02: interprets parameter-list scripts against bpp::ParameterList and the
// forwarding layer of bpp::AbstractParametrizable.
//
// Registers 0..3 are plain ParameterLists, registers 4..5 are the lists owned by two
// AbstractParametrizable objects (namespace prefix + fireParameterChanged recorder).
// Values and bounds travel as integers meaning quarters (q/4; `q'` = q/4 + 2^-30), constraints as
// `c:<inclLo>:<lo>:<hi>:<inclHi>` (`-inf`/`+inf` for infinite bounds) or `-`.
// Answer: `<result> ; <fired list or -> ; <reg0> ; ... ; <reg5>` where a list is printed as
// `name,value,constraint,obj` entries; `obj` is a stable number given to each Parameter
// object the first time it is seen (all seen objects are kept alive, so an address is never
// re-used for another object).
#include "common.h"
#include <Bpp/Numeric/ParameterList.h>
#include <Bpp/Numeric/AbstractParametrizable.h>
#include <Bpp/Numeric/Constraints.h>
#include <cmath>
#include <map>
#include <memory>
using namespace bpp; using namespace verif;

static const size_t NPLAIN = 4, NAP = 2;

struct TestAP : public AbstractParametrizable {
  bool fired = false;
  std::vector<std::shared_ptr<Parameter>> firedList;
  TestAP() : AbstractParametrizable("") {}
  TestAP* clone() const override { return new TestAP(*this); }
  void fireParameterChanged(const ParameterList& pl) override {
    fired = true; firedList.clear();
    for (size_t i = 0; i < pl.size(); ++i) firedList.push_back(pl.getParameter(i));
  }
  ParameterList& params() { return getParameters_(); }
  // the protected forwarders (AbstractParametrizable.h:111-157), made callable
  void xAddParameter(Parameter* p) { addParameter_(p); }
  void xAddParameters(const ParameterList& pl) { addParameters_(pl); }
  void xShareParameter(const std::shared_ptr<Parameter>& p) { shareParameter_(p); }
  void xShareParameters(const ParameterList& pl) { shareParameters_(pl); }
  void xIncludeParameters(const ParameterList& pl) { includeParameters_(pl); }
  void xDeleteParameter(size_t i) { deleteParameter_(i); }
  void xDeleteParameter(std::string& n) { deleteParameter_(n); }
  void xDeleteParameters(const std::vector<std::string>& ns) { deleteParameters_(ns); }
  void xResetParameters() { resetParameters_(); }
  Parameter& xGetParameter(const std::string& n) { return getParameter_(n); }
  Parameter& xGetParameterNs(const std::string& n) { return getParameterWithNamespace_(n); }
  const Parameter& xGetParameterNsC(const std::string& n) const { return getParameterWithNamespace_(n); }
  Parameter& xGetParameter(size_t i) { return getParameter_(i); }
  const Parameter& xGetParameterC(size_t i) const { return getParameter_(i); }
  const std::shared_ptr<Parameter>& xGetParameterPtrC(size_t i) const { return AbstractParametrizable::getParameter(i); }
  std::shared_ptr<Parameter>& xGetParameterPtr(size_t i) { return AbstractParametrizable::getParameter(i); }
};

// A minimal ParameterListener (audit F1): on a value change of the parameter it is attached to,
// it sets its target to the new value -- what AliasParameterListener::parameterValueChanged does
// with (*pl_)[alias_], without the name check.  Parameter's copy constructor / operator= / clone()
// copy the vector of shared_ptr<ParameterListener>, so a clone fires this very object.
struct Mirror : public ParameterListener {
  std::string id; std::shared_ptr<Parameter> target;
  Mirror(const std::string& i, const std::shared_ptr<Parameter>& t) : id(i), target(t) {}
  Mirror* clone() const override { return new Mirror(*this); }
  const std::string& getId() const override { return id; }
  void parameterNameChanged(ParameterEvent&) override {}
  void parameterValueChanged(ParameterEvent& e) override { target->setValue(e.parameter()->getValue()); }
  void parameterConstraintChanged(ParameterEvent&) override {}
};

struct World {
  std::vector<std::unique_ptr<ParameterList>> reg;
  std::vector<std::unique_ptr<TestAP>> ap;
  std::map<const Parameter*, size_t> num;
  std::vector<std::shared_ptr<Parameter>> keep;
  size_t nlisten = 0;
  World() {
    for (size_t i = 0; i < NPLAIN; ++i) reg.emplace_back(new ParameterList());
    for (size_t i = 0; i < NAP; ++i) ap.emplace_back(new TestAP());
  }
  ParameterList& L(size_t k) {
    if (k < NPLAIN) return *reg[k];
    if (k < NPLAIN + NAP) return ap[k - NPLAIN]->params();
    throw std::runtime_error("bad register");
  }
  TestAP& A(size_t k) {
    if (k >= NPLAIN && k < NPLAIN + NAP) return *ap[k - NPLAIN];
    throw std::runtime_error("bad owner");
  }
  size_t numOf(const std::shared_ptr<Parameter>& p) {
    auto it = num.find(p.get());
    if (it != num.end()) return it->second;
    size_t n = num.size(); num[p.get()] = n; keep.push_back(p); return n;
  }
};

static const double NUDGE = 1.0 / 1073741824.0;   // 2^-30
static std::string quarters(double v) {
  if (std::isinf(v)) return v < 0 ? "-inf" : "+inf";
  double x = v * 4; long long n = std::llround(x);
  if (static_cast<double>(n) == x) return std::to_string(n);
  // a nudged grid value n/4 + 2^-30 is printed as n'
  double y = (v - NUDGE) * 4; long long m = std::llround(y);
  if (static_cast<double>(m) == y) return std::to_string(m) + "'";
  return "x" + doubleToHex(v);
}
static double fromQuarters(const std::string& s) {
  if (s == "-inf") return -INFINITY;
  if (s == "+inf") return INFINITY;
  if (!s.empty() && s.back() == '\'') return static_cast<double>(toI(s.substr(0, s.size() - 1))) / 4.0 + NUDGE;
  return static_cast<double>(toI(s)) / 4.0;
}
static std::vector<std::string> split(const std::string& s, char sep) {
  std::vector<std::string> r; std::string cur;
  for (char c : s) { if (c == sep) { r.push_back(cur); cur.clear(); } else cur.push_back(c); }
  r.push_back(cur); return r;
}
static std::shared_ptr<ConstraintInterface> parseCon(const std::string& s) {
  if (s == "-") return nullptr;
  auto f = split(s, ':');
  if (f.size() != 5 || f[0] != "c") throw std::runtime_error("bad constraint");
  return std::make_shared<IntervalConstraint>(fromQuarters(f[2]), fromQuarters(f[3]), f[1] == "1", f[4] == "1");
}
static std::string showCon(const Parameter& p) {
  if (!p.hasConstraint()) return "-";
  auto ic = std::dynamic_pointer_cast<const IntervalConstraint>(p.getConstraint());
  if (!ic) return "?";
  return std::string("c:") + (ic->strictLowerBound() ? "0" : "1") + ":" + quarters(ic->getLowerBound()) + ":"
    + quarters(ic->getUpperBound()) + ":" + (ic->strictUpperBound() ? "0" : "1");
}
static std::string name(const std::string& s) { return s == "-" ? "" : s; }
static std::string showName(const std::string& s) { return s.empty() ? "-" : s; }

static std::string entry(World& w, const std::shared_ptr<Parameter>& p) {
  return showName(p->getName()) + "," + quarters(p->getValue()) + "," + showCon(*p) + "," + std::to_string(w.numOf(p));
}
static std::string dump(World& w) {
  std::string s;
  for (size_t a = 0; a < NAP; ++a) {
    // nothing: fired lists are printed by the caller
  }
  for (size_t k = 0; k < NPLAIN + NAP; ++k) {
    s += " ;";
    if (k >= NPLAIN) s += " pre=" + showName(w.A(k).getNamespace());
    ParameterList& l = w.L(k);
    for (size_t i = 0; i < l.size(); ++i) s += " " + entry(w, l.getParameter(i));
  }
  return s;
}

static std::vector<std::string> namesFrom(const Toks& t, size_t from) {
  std::vector<std::string> r; for (size_t i = from; i < t.size(); ++i) r.push_back(name(t[i])); return r;
}
static std::vector<size_t> idxFrom(const Toks& t, size_t from) {
  std::vector<size_t> r; for (size_t i = from; i < t.size(); ++i) r.push_back(toU(t[i])); return r;
}

// executes one operation; returns the result token(s); may throw library exceptions
static std::string exec(World& w, const Toks& t, TestAP*& owner) {
  const std::string& o = t[0];
  size_t k = toU(t[1]);
  if (o == "add") { Parameter p(name(t[2]), fromQuarters(t[3]), parseCon(t[4])); w.L(k).addParameter(p); return "ok"; }
  if (o == "addp") {
    Parameter* p = new Parameter(name(t[2]), fromQuarters(t[3]), parseCon(t[4]));
    try { w.L(k).addParameter(p); } catch (...) { delete p; throw; }
    return "ok";
  }
  if (o == "addall") { w.L(k).addParameters(w.L(toU(t[2]))); return "ok"; }
  if (o == "share") { w.L(k).shareParameter(w.L(toU(t[2])).getParameter(name(t[3]))); return "ok"; }
  if (o == "shareall") { w.L(k).shareParameters(w.L(toU(t[2]))); return "ok"; }
  if (o == "include") { w.L(k).includeParameters(w.L(toU(t[2]))); return "ok"; }
  if (o == "listen") {
    // attach a mirror listener to L[k].name whose target is L[k].target (both in the same list)
    std::shared_ptr<Parameter>& p = w.L(k).getParameter(name(t[2]));
    std::shared_ptr<Parameter>& q = w.L(k).getParameter(name(t[3]));
    p->addParameterListener(std::make_shared<Mirror>("mirror" + std::to_string(w.nlisten++), q));
    return "ok";
  }
  if (o == "at") {
    // operator[] (const / non-const) and getParameter(i) (const / non-const): no range check in the
    // library, so an out-of-range index is not executed
    size_t i = toU(t[2]);
    ParameterList& l = w.L(k); const ParameterList& cl = l;
    if (i >= l.size()) return "ub";
    std::shared_ptr<Parameter>& sp = l.getParameter(i);
    if (&l[i] != sp.get() || &cl[i] != sp.get() || cl.getParameter(i).get() != sp.get()) return "overloads-disagree";
    return "obj " + entry(w, sp);
  }
  if (o == "param") {
    ParameterList& l = w.L(k); const ParameterList& cl = l;
    std::shared_ptr<Parameter>& sp = l.getParameter(name(t[2]));
    if (&l.parameter(name(t[2])) != sp.get() || &cl.parameter(name(t[2])) != sp.get()
        || cl.getParameter(name(t[2])).get() != sp.get()) return "overloads-disagree";
    return "obj " + entry(w, sp);
  }
  if (o == "setp") { Parameter p(name(t[3]), fromQuarters(t[4]), parseCon(t[5])); w.L(k).setParameter(toU(t[2]), p); return "ok"; }
  if (o == "setv") { w.L(k).setParameterValue(name(t[2]), fromQuarters(t[3])); return "ok"; }
  if (o == "setallv") { w.L(k).setAllParametersValues(w.L(toU(t[2]))); return "ok"; }
  if (o == "setvs") { w.L(k).setParametersValues(w.L(toU(t[2]))); return "ok"; }
  if (o == "testvs") { bool b = w.L(k).testParametersValues(w.L(toU(t[2]))); return std::string("flag ") + (b ? "1" : "0"); }
  if (o == "matchvs") {
    std::vector<size_t> pos;
    bool b = w.L(k).matchParametersValues(w.L(toU(t[2])), &pos);
    std::string s = std::string("flag ") + (b ? "1" : "0") + " pos";
    for (size_t x : pos) s += " " + std::to_string(x);
    return s;
  }
  if (o == "matchvs0") { bool b = w.L(k).matchParametersValues(w.L(toU(t[2]))); return std::string("flag ") + (b ? "1" : "0"); }
  if (o == "setallp") { w.L(k).setAllParameters(w.L(toU(t[2]))); return "ok"; }
  if (o == "setps") { w.L(k).setParameters(w.L(toU(t[2]))); return "ok"; }
  if (o == "matchps") { w.L(k).matchParameters(w.L(toU(t[2]))); return "ok"; }
  if (o == "del") { w.L(k).deleteParameter(name(t[2])); return "ok"; }
  if (o == "dels") { w.L(k).deleteParameters(namesFrom(t, 3), t[2] == "1"); return "ok"; }
  if (o == "deli") { w.L(k).deleteParameter(toU(t[2])); return "ok"; }
  if (o == "delis") { w.L(k).deleteParameters(idxFrom(t, 2)); return "ok"; }
  if (o == "subn" || o == "sub1" || o == "subi" || o == "subi1" || o == "shsubn" || o == "shsubi" || o == "copy") {
    size_t j = toU(t[2]);
    if (j >= NPLAIN) return "bad-op";
    ParameterList& src = w.L(k);
    if (o == "subn") w.reg[j].reset(new ParameterList(src.createSubList(namesFrom(t, 3))));
    else if (o == "sub1") w.reg[j].reset(new ParameterList(src.createSubList(name(t[3]))));
    else if (o == "subi") w.reg[j].reset(new ParameterList(src.createSubList(idxFrom(t, 3))));
    else if (o == "subi1") w.reg[j].reset(new ParameterList(src.createSubList(toU(t[3]))));
    else if (o == "shsubn") w.reg[j].reset(new ParameterList(src.shareSubList(namesFrom(t, 3))));
    else if (o == "shsubi") w.reg[j].reset(new ParameterList(src.shareSubList(idxFrom(t, 3))));
    else w.reg[j].reset(new ParameterList(src));
    return "ok";
  }
  if (o == "clone") {
    size_t j = toU(t[2]);
    if (j >= NPLAIN) return "bad-op";
    w.reg[j].reset(w.L(k).clone());
    return "ok";
  }
  if (o == "common") {
    size_t j = toU(t[2]), m = toU(t[3]);
    if (m >= NPLAIN) return "bad-op";
    w.reg[m].reset(new ParameterList(w.L(k).getCommonParametersWith(w.L(j))));
    return "ok";
  }
  if (o == "assign") { w.L(toU(t[2])) = w.L(k); return "ok"; }
  if (o == "reset") { w.L(k).reset(); return "ok"; }
  if (o == "which") { return "nat " + std::to_string(w.L(k).whichParameterHasName(name(t[2]))); }
  if (o == "has") { return std::string("bool ") + (w.L(k).hasParameter(name(t[2])) ? "1" : "0"); }
  if (o == "names") { std::string s = "strs"; for (auto& n : w.L(k).getParameterNames()) s += " " + showName(n); return s; }
  if (o == "getv") { return "val " + quarters(w.L(k).getParameterValue(name(t[2]))); }
  if (o == "size") { return "nat " + std::to_string(w.L(k).size()); }
  if (o == "ap.setallv") { owner = &w.A(k); owner->setAllParametersValues(w.L(toU(t[2]))); return "ok"; }
  if (o == "ap.setv") { owner = &w.A(k); owner->setParameterValue(name(t[2]), fromQuarters(t[3])); return "ok"; }
  if (o == "ap.setvs") { owner = &w.A(k); owner->setParametersValues(w.L(toU(t[2]))); return "ok"; }
  if (o == "ap.matchvs") { owner = &w.A(k); bool b = owner->matchParametersValues(w.L(toU(t[2]))); return std::string("flag ") + (b ? "1" : "0"); }
  if (o == "ap.ns") { owner = &w.A(k); owner->setNamespace(name(t[2])); return "ok"; }
  // ---- the owner's read routes through the namespace and its protected forwarders
  if (o == "ap.addp") {
    Parameter* p = new Parameter(name(t[2]), fromQuarters(t[3]), parseCon(t[4]));
    try { w.A(k).xAddParameter(p); } catch (...) { delete p; throw; }
    return "ok";
  }
  if (o == "ap.addnull") { w.A(k).xAddParameter(nullptr); return "ok"; }
  if (o == "ap.addall") { w.A(k).xAddParameters(w.L(toU(t[2]))); return "ok"; }
  if (o == "ap.share") { w.A(k).xShareParameter(w.L(toU(t[2])).getParameter(name(t[3]))); return "ok"; }
  if (o == "ap.shareall") { w.A(k).xShareParameters(w.L(toU(t[2]))); return "ok"; }
  if (o == "ap.include") { w.A(k).xIncludeParameters(w.L(toU(t[2]))); return "ok"; }
  if (o == "ap.deli") { w.A(k).xDeleteParameter(toU(t[2])); return "ok"; }
  if (o == "ap.del") { std::string n = name(t[2]); w.A(k).xDeleteParameter(n); return "ok"; }
  if (o == "ap.dels") { w.A(k).xDeleteParameters(namesFrom(t, 2)); return "ok"; }
  if (o == "ap.reset") { w.A(k).xResetParameters(); return "ok"; }
  if (o == "ap.size") {
    const Parametrizable& pz = w.A(k);
    if (pz.getNumberOfParameters() != pz.getParameters().size()) return "overloads-disagree";
    return "nat " + std::to_string(pz.getNumberOfParameters());
  }
  if (o == "ap.names") { std::string s = "strs"; for (auto& n : w.A(k).getParameters().getParameterNames()) s += " " + showName(n); return s; }
  if (o == "ap.has") { return std::string("bool ") + (w.A(k).hasParameter(name(t[2])) ? "1" : "0"); }
  if (o == "ap.getv") { return "val " + quarters(w.A(k).getParameterValue(name(t[2]))); }
  if (o == "ap.param") {
    // parameter(name), getParameter(name), getParameter_(name), getParameterWithNamespace_(name) x2
    TestAP& a = w.A(k); const TestAP& ca = a;
    std::string n = name(t[2]);
    int raised = 0; const Parameter* got[5] = {nullptr, nullptr, nullptr, nullptr, nullptr};
    try { got[0] = &ca.parameter(n); } catch (ParameterNotFoundException&) { ++raised; }
    try { got[1] = ca.getParameter(n).get(); } catch (ParameterNotFoundException&) { ++raised; }
    try { got[2] = &a.xGetParameter(n); } catch (ParameterNotFoundException&) { ++raised; }
    try { got[3] = &a.xGetParameterNs(n); } catch (ParameterNotFoundException&) { ++raised; }
    try { got[4] = &ca.xGetParameterNsC(n); } catch (ParameterNotFoundException&) { ++raised; }
    if (raised == 5) throw ParameterNotFoundException("ap.param", n);
    if (raised != 0) return "overloads-disagree";
    for (int i = 1; i < 5; ++i) if (got[i] != got[0]) return "overloads-disagree";
    return "obj " + entry(w, ca.getParameter(n));
  }
  if (o == "ap.at") {
    // getParameter_(index) const / non-const are range-checked; getParameter(i) is not
    TestAP& a = w.A(k); const TestAP& ca = a;
    size_t i = toU(t[2]);
    int raised = 0; const Parameter* p1 = nullptr; const Parameter* p2 = nullptr;
    try { p1 = &a.xGetParameter(i); } catch (IndexOutOfBoundsException&) { ++raised; }
    try { p2 = &ca.xGetParameterC(i); } catch (IndexOutOfBoundsException&) { ++raised; }
    if (raised == 2) { if (i < a.getNumberOfParameters()) return "overloads-disagree"; throw IndexOutOfBoundsException("ap.at", i, 0, 0); }
    if (raised != 0 || p1 != p2 || i >= a.getNumberOfParameters()) return "overloads-disagree";
    if (a.xGetParameterPtr(i).get() != p1 || ca.xGetParameterPtrC(i).get() != p1) return "overloads-disagree";
    return "obj " + entry(w, a.xGetParameterPtr(i));
  }
  if (o == "ap.copy" || o == "ap.assign") {
    // the owner's implicit copy constructor (what TestAP::clone uses) / copy assignment
    size_t j = toU(t[2]);
    TestAP& src = w.A(k); w.A(j);
    if (o == "ap.copy") { std::unique_ptr<TestAP> c(src.clone()); w.ap[j - NPLAIN] = std::move(c); }
    else w.A(j) = src;
    return "ok";
  }
  if (o == "ap.nons") { return "str " + showName(w.A(k).getParameterNameWithoutNamespace(name(t[2]))); }
  return "bad-op";
}

int main() {
  std::unique_ptr<World> w(new World());
  return runLoop(
    [&](const Toks&) { w.reset(new World()); },
    [&](const Toks& t) {
      if (t.size() < 2) return std::string("bad-op");
      std::string res;
      TestAP* owner = nullptr;
      for (auto& a : w->ap) { a->fired = false; a->firedList.clear(); }
      try { res = exec(*w, t, owner); }
      catch (ConstraintException&) { res = "exc:constraint"; }
      catch (ParameterNotFoundException&) { res = "exc:notfound"; }
      catch (IndexOutOfBoundsException&) { res = "exc:index"; }
      catch (ParameterException&) { res = "exc:bpp"; }
      catch (Exception&) { res = "exc:bpp"; }
      if (res == "bad-op") return res;
      std::string f = " ; -";
      if (owner && owner->fired) {
        f = " ; f";
        for (auto& p : owner->firedList) f += " " + entry(*w, p);
      }
      return res + f + dump(*w);
    });
}
