// Harness for C19: interprets simplex scripts against Bpp/Numeric/Prob/Simplex.{h,cpp}.
// Registers s0..s3 (Simplex) and o0..o3 (OrderedSimplex).  Answers (every data member):
//   Simplex        : <probs> ; <theta1 .. theta(n-1)> ; m<method_> d<dim_> c<constraint of each theta> ; <valpha_>
//   OrderedSimplex : <values> ; <probs> ; <thetas> ; m.. d.. c.. ; <valpha_>
// constraint of a parameter: 1 = [0,1] (accepts 0), 0 = ]0,1[, - = none.  valpha_ is read through the
// guarded hook Simplex::verifRatioCache().
// doubles as 16 hex digits (NaN printed as `nan`), exceptions as exc:<kind>.
#include "common.h"
#include <Bpp/Numeric/Prob/Simplex.h>
#include <Bpp/Numeric/ParameterExceptions.h>
#include <Bpp/Numeric/VectorTools.h>
#include <Bpp/Numeric/NumConstants.h>
#include <Bpp/Text/TextTools.h>
#include <cmath>
#include <memory>
using namespace bpp; using namespace verif;

static std::string hx(double d) { return std::isnan(d) ? std::string("nan") : doubleToHex(d); }
static std::string showV(const std::vector<double>& v) {
  std::string s; for (double d : v) { s += hx(d); s += " "; } return s;
}
static std::string showParams(const Simplex& s) {
  std::string r;
  size_t n = s.getNumberOfParameters();
  for (size_t i = 1; i <= n; ++i) { r += hx(s.getParameterValue("theta" + TextTools::toString(i))); r += " "; }
  return r;
}
// the accessors must agree with each other: dimension(), prob(i), getFrequencies(), parameter count
static std::string accessors(const Simplex& s) {
  const std::vector<double>& f = s.getFrequencies();
  if (s.dimension() != f.size()) return "inconsistent-accessors:dimension ";
  for (size_t i = 0; i < f.size(); ++i) {
    double a = s.prob(i), b = f[i];
    if (std::memcmp(&a, &b, sizeof a) != 0) return "inconsistent-accessors:prob ";
  }
  unsigned short m = s.getMethod();
  if (m >= 1 && m <= 3 && s.getNumberOfParameters() != (f.empty() ? 0 : f.size() - 1)) return "inconsistent-accessors:parameters ";
  // (getNumberOfIndependentParameters() is not compared: after operator= the independent list of
  //  AbstractParameterAliasable still refers to the old parameters — property C03's subject)
  return "";
}
static std::string showMeta(const Simplex& s) {
  std::string r = "m" + TextTools::toString(s.getMethod()) + " d" + TextTools::toString(s.dimension()) + " c";
  size_t n = s.getNumberOfParameters();
  for (size_t i = 1; i <= n; ++i) {
    const Parameter& p = s.parameter("theta" + TextTools::toString(i));
    r += !p.hasConstraint() ? "-" : (p.getConstraint()->isCorrect(0.) ? "1" : "0");
  }
  return r + " ";
}
static std::string showTail(const Simplex& s) { return "; " + showParams(s) + "; " + showMeta(s) + "; " + showV(s.verifRatioCache()); }
static std::string showS(const Simplex& s) { return accessors(s) + showV(s.getFrequencies()) + showTail(s); }
static std::string showO(const OrderedSimplex& o) {
  const Simplex& b = o;
  return accessors(b) + showV(o.getFrequencies()) + "; " + showV(b.getFrequencies()) + showTail(b);
}
// (index, value) pairs -> list of parameters named theta<index>
template<class S> static ParameterList someParams(const S& s, const Toks& t, size_t from) {
  ParameterList pl;
  for (size_t i = from; i + 1 < t.size(); i += 2)
    pl.addParameter(Parameter(s.getNamespace() + "theta" + t[i], hexToDouble(t[i + 1])));
  return pl;
}
static std::vector<double> vec(const Toks& t, size_t from) {
  std::vector<double> v; for (size_t i = from; i < t.size(); ++i) v.push_back(hexToDouble(t[i])); return v;
}
template<class S> static ParameterList allParams(const S& s, const std::vector<double>& th) {
  ParameterList pl;
  for (size_t i = 0; i < th.size(); ++i)
    pl.addParameter(Parameter(s.getNamespace() + "theta" + TextTools::toString(i + 1), th[i]));
  return pl;
}

struct M {
  std::unique_ptr<Simplex> s[4];
  std::unique_ptr<OrderedSimplex> o[4];
  std::string run(const Toks& t) {
    const std::string& op = t[0];
    size_t k = toU(t[1]);
    if (op == "new") {
      std::unique_ptr<Simplex> n(new Simplex(vec(t, 4), (unsigned short)toU(t[2]), t[3] == "1"));
      s[k] = std::move(n); return showS(*s[k]);
    }
    if (op == "newdim") {
      std::unique_ptr<Simplex> n(new Simplex(toU(t[2]), (unsigned short)toU(t[3]), t[4] == "1"));
      s[k] = std::move(n); return showS(*s[k]);
    }
    if (op == "onew") {
      std::unique_ptr<OrderedSimplex> n(new OrderedSimplex(vec(t, 4), (unsigned short)toU(t[2]), t[3] == "1"));
      o[k] = std::move(n); return showO(*o[k]);
    }
    if (op == "onewdim") {
      std::unique_ptr<OrderedSimplex> n(new OrderedSimplex(toU(t[2]), (unsigned short)toU(t[3]), t[4] == "1"));
      o[k] = std::move(n); return showO(*o[k]);
    }
    if (op == "slicecopy" || op == "sliceassign") {
      if (!o[k]) return "none";
      size_t j = toU(t[2]);
      const Simplex& src = *o[k];
      if (op == "slicecopy") { std::unique_ptr<Simplex> c(new Simplex(src)); s[j] = std::move(c); return showS(*s[j]); }
      // Simplex::operator= applied to an OrderedSimplex source
      if (!s[j]) s[j].reset(new Simplex(1, 1));
      *s[j] = *o[k]; return showS(*s[j]);
    }
    if (op[0] == 'o') {
      if (!o[k]) return "none";
      if (op == "osetfreq") { o[k]->setFrequencies(vec(t, 2)); return showO(*o[k]); }
      if (op == "osetpar") { o[k]->matchParametersValues(allParams(*o[k], vec(t, 2))); return showO(*o[k]); }
      if (op == "osetone") { o[k]->setParameterValue("theta" + t[2], hexToDouble(t[3])); return showO(*o[k]); }
      if (op == "osetsome") { o[k]->setParametersValues(someParams(*o[k], t, 2)); return showO(*o[k]); }
      if (op == "omatchsome") { o[k]->matchParametersValues(someParams(*o[k], t, 2)); return showO(*o[k]); }
      if (op == "ofire") { o[k]->fireParameterChanged(ParameterList()); return showO(*o[k]); }
      if (op == "oget") return showO(*o[k]);
      if (op == "oassign") {
        // implicit OrderedSimplex::operator=
        size_t j = toU(t[2]); if (!o[j]) o[j].reset(new OrderedSimplex(1, 1));
        OrderedSimplex& tgt = *o[j]; const OrderedSimplex& src = *o[k];
        tgt = src; return showO(*o[j]);
      }
      if (op == "oclone") {
        // copy through the Clonable interface, as containers of Parametrizable objects do
        size_t j = toU(t[2]);
        std::unique_ptr<Simplex> c(o[k]->clone());
        OrderedSimplex* oc = dynamic_cast<OrderedSimplex*>(c.get());
        if (!oc) return "sliced";
        c.release(); o[j].reset(oc); return showO(*o[j]);
      }
      if (op == "ocopy") { size_t j = toU(t[2]); std::unique_ptr<OrderedSimplex> c(new OrderedSimplex(*o[k])); o[j] = std::move(c); return showO(*o[j]); }
      return "bad-op";
    }
    if (!s[k]) return "none";
    if (op == "setfreq") {
      std::vector<double> v = vec(t, 2);
      s[k]->setFrequencies(v); return showS(*s[k]);
    }
    if (op == "setpar") { s[k]->matchParametersValues(allParams(*s[k], vec(t, 2))); return showS(*s[k]); }
    if (op == "setone") { s[k]->setParameterValue("theta" + t[2], hexToDouble(t[3])); return showS(*s[k]); }
    if (op == "setsome") { s[k]->setParametersValues(someParams(*s[k], t, 2)); return showS(*s[k]); }
    if (op == "matchsome") { s[k]->matchParametersValues(someParams(*s[k], t, 2)); return showS(*s[k]); }
    if (op == "fire") { s[k]->fireParameterChanged(ParameterList()); return showS(*s[k]); }
    if (op == "get") return showS(*s[k]);
    if (op == "copy") { size_t j = toU(t[2]); std::unique_ptr<Simplex> c(s[k]->clone()); s[j] = std::move(c); return showS(*s[j]); }
    if (op == "copyctor") { size_t j = toU(t[2]); std::unique_ptr<Simplex> c(new Simplex(*s[k])); s[j] = std::move(c); return showS(*s[j]); }
    if (op == "assign") {
      // implicit Simplex::operator= (also onto itself)
      size_t j = toU(t[2]); if (!s[j]) s[j].reset(new Simplex(1, 1));
      Simplex& tgt = *s[j]; const Simplex& src = *s[k];
      tgt = src; return showS(*s[j]);
    }
    if (op == "baseassign") {
      // assignment through a base-class reference: only the Simplex part of the ordered object is assigned
      size_t j = toU(t[2]); if (!o[j]) return "none";
      Simplex& base = *o[j];
      base = *s[k]; return showO(*o[j]);
    }
    return "bad-op";
  }
};

int main() {
  std::unique_ptr<M> m(new M());
  return runLoop(
    [&](const Toks&) { m.reset(new M()); },
    [&](const Toks& t) -> std::string {
      try { return m->run(t); }
      catch (ConstraintException&) { return "exc:constraint"; }
      catch (ParameterNotFoundException&) { return "exc:notfound"; }
      catch (Exception&) { return "exc:bpp"; }
    });
}
