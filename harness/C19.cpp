// Harness for C19: interprets simplex scripts against Bpp/Numeric/Prob/Simplex.{h,cpp}.
// Registers s0..s3 (Simplex) and o0..o3 (OrderedSimplex).  Answers:
//   Simplex        : <probs> ; <theta1 .. theta(n-1)>
//   OrderedSimplex : <values> ; <probs> ; <thetas>
// doubles as 16 hex digits (NaN printed as `nan`), exceptions as exc:<kind>.
#include "common.h"
#include <Bpp/Numeric/Prob/Simplex.h>
#include <Bpp/Numeric/ParameterExceptions.h>
#include <Bpp/Text/TextTools.h>
#include <cmath>
#include <memory>
using namespace bpp; using namespace verif;

static std::string hx(double d) { return std::isnan(d) ? std::string("nan") : doubleToHex(d); }
static std::string showV(const std::vector<double>& v) {
  std::string s; for (double d : v) { s += hx(d); s += " "; } return s;
}
static std::string showParams(const Simplex& s) {
  std::string r;
  size_t n = s.getNumberOfParameters();
  for (size_t i = 1; i <= n; ++i) { r += hx(s.getParameterValue("theta" + TextTools::toString(i))); r += " "; }
  return r;
}
// the accessors must agree with each other: dimension(), prob(i), getFrequencies(), parameter count
static std::string accessors(const Simplex& s) {
  const std::vector<double>& f = s.getFrequencies();
  if (s.dimension() != f.size()) return "inconsistent-accessors:dimension ";
  for (size_t i = 0; i < f.size(); ++i) {
    double a = s.prob(i), b = f[i];
    if (std::memcmp(&a, &b, sizeof a) != 0) return "inconsistent-accessors:prob ";
  }
  unsigned short m = s.getMethod();
  if (m >= 1 && m <= 3 && s.getNumberOfParameters() != (f.empty() ? 0 : f.size() - 1)) return "inconsistent-accessors:parameters ";
  // (getNumberOfIndependentParameters() is not compared: after operator= the independent list of
  //  AbstractParameterAliasable still refers to the old parameters — property C03's subject)
  return "";
}
static std::string showS(const Simplex& s) { return accessors(s) + showV(s.getFrequencies()) + "; " + showParams(s); }
static std::string showO(const OrderedSimplex& o) {
  const Simplex& b = o;
  return accessors(b) + showV(o.getFrequencies()) + "; " + showV(b.getFrequencies()) + "; " + showParams(o);
}
static std::vector<double> vec(const Toks& t, size_t from) {
  std::vector<double> v; for (size_t i = from; i < t.size(); ++i) v.push_back(hexToDouble(t[i])); return v;
}
template<class S> static ParameterList allParams(const S& s, const std::vector<double>& th) {
  ParameterList pl;
  for (size_t i = 0; i < th.size(); ++i)
    pl.addParameter(Parameter(s.getNamespace() + "theta" + TextTools::toString(i + 1), th[i]));
  return pl;
}

struct M {
  std::unique_ptr<Simplex> s[4];
  std::unique_ptr<OrderedSimplex> o[4];
  std::string run(const Toks& t) {
    const std::string& op = t[0];
    size_t k = toU(t[1]);
    if (op == "new") {
      std::unique_ptr<Simplex> n(new Simplex(vec(t, 4), (unsigned short)toU(t[2]), t[3] == "1"));
      s[k] = std::move(n); return showS(*s[k]);
    }
    if (op == "newdim") {
      std::unique_ptr<Simplex> n(new Simplex(toU(t[2]), (unsigned short)toU(t[3]), t[4] == "1"));
      s[k] = std::move(n); return showS(*s[k]);
    }
    if (op == "onew") {
      std::unique_ptr<OrderedSimplex> n(new OrderedSimplex(vec(t, 4), (unsigned short)toU(t[2]), t[3] == "1"));
      o[k] = std::move(n); return showO(*o[k]);
    }
    if (op == "onewdim") {
      std::unique_ptr<OrderedSimplex> n(new OrderedSimplex(toU(t[2]), (unsigned short)toU(t[3]), t[4] == "1"));
      o[k] = std::move(n); return showO(*o[k]);
    }
    if (op[0] == 'o') {
      if (!o[k]) return "none";
      if (op == "osetfreq") { o[k]->setFrequencies(vec(t, 2)); return showO(*o[k]); }
      if (op == "osetpar") { o[k]->matchParametersValues(allParams(*o[k], vec(t, 2))); return showO(*o[k]); }
      if (op == "osetone") { o[k]->setParameterValue("theta" + t[2], hexToDouble(t[3])); return showO(*o[k]); }
      if (op == "oget") return showO(*o[k]);
      if (op == "oclone") {
        // copy through the Clonable interface, as containers of Parametrizable objects do
        size_t j = toU(t[2]);
        std::unique_ptr<Simplex> c(o[k]->clone());
        OrderedSimplex* oc = dynamic_cast<OrderedSimplex*>(c.get());
        if (!oc) return "sliced";
        c.release(); o[j].reset(oc); return showO(*o[j]);
      }
      if (op == "ocopy") { size_t j = toU(t[2]); std::unique_ptr<OrderedSimplex> c(new OrderedSimplex(*o[k])); o[j] = std::move(c); return showO(*o[j]); }
      return "bad-op";
    }
    if (!s[k]) return "none";
    if (op == "setfreq") { s[k]->setFrequencies(vec(t, 2)); return showS(*s[k]); }
    if (op == "setpar") { s[k]->matchParametersValues(allParams(*s[k], vec(t, 2))); return showS(*s[k]); }
    if (op == "setone") { s[k]->setParameterValue("theta" + t[2], hexToDouble(t[3])); return showS(*s[k]); }
    if (op == "get") return showS(*s[k]);
    if (op == "copy") { size_t j = toU(t[2]); std::unique_ptr<Simplex> c(s[k]->clone()); s[j] = std::move(c); return showS(*s[j]); }
    if (op == "assign") { size_t j = toU(t[2]); if (!s[j]) s[j].reset(new Simplex(1, 1)); if (j != k) *s[j] = *s[k]; return showS(*s[j]); }
    return "bad-op";
  }
};

int main() {
  std::unique_ptr<M> m(new M());
  return runLoop(
    [&](const Toks&) { m.reset(new M()); },
    [&](const Toks& t) -> std::string {
      try { return m->run(t); }
      catch (ConstraintException&) { return "exc:constraint"; }
      catch (ParameterNotFoundException&) { return "exc:notfound"; }
      catch (Exception&) { return "exc:bpp"; }
    });
}
