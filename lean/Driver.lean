import BppModel.Proto
import BppModel.Drive.C01
import BppModel.Drive.C02
import BppModel.Drive.C03
import BppModel.Drive.C04
import BppModel.Drive.C05
import BppModel.Drive.C06
import BppModel.Drive.C07
import BppModel.Drive.C08
import BppModel.Drive.C09
import BppModel.Drive.C10
import BppModel.Drive.C11
import BppModel.Drive.C12
import BppModel.Drive.C13
import BppModel.Drive.C14
import BppModel.Drive.C15
import BppModel.Drive.C16
import BppModel.Drive.C17
import BppModel.Drive.C18
import BppModel.Drive.C19
import BppModel.Drive.C20
open Bpp

def main (args : List String) : IO UInt32 := do
  match args with
  | ["C01"] => Proto.run Drive.C01.machine; return 0
  | ["C02"] => Proto.run Drive.C02.machine; return 0
  | ["C03"] => Proto.run Drive.C03.machine; return 0
  | ["C04"] => Proto.run Drive.C04.machine; return 0
  | ["C05"] => Proto.run Drive.C05.machine; return 0
  | ["C06"] => Proto.run Drive.C06.machine; return 0
  | ["C07"] => Proto.run Drive.C07.machine; return 0
  | ["C08"] => Proto.run Drive.C08.machine; return 0
  | ["C09"] => Proto.run Drive.C09.machine; return 0
  | ["C10"] => Proto.run Drive.C10.machine; return 0
  | ["C11"] => Proto.run Drive.C11.machine; return 0
  | ["C12"] => Proto.run Drive.C12.machine; return 0
  | ["C13"] => Proto.run Drive.C13.machine; return 0
  | ["C14"] => Proto.run Drive.C14.machine; return 0
  | ["C15"] => Proto.run Drive.C15.machine; return 0
  | ["C16"] => Proto.run Drive.C16.machine; return 0
  | ["C17"] => Proto.run Drive.C17.machine; return 0
  | ["C18"] => Proto.run Drive.C18.machine; return 0
  | ["C19"] => Proto.run Drive.C19.machine; return 0
  | ["C20"] => Proto.run Drive.C20.machine; return 0
  | _ => IO.eprintln "usage: driver <property-id> < script"; return 2
