import BppProofs.Lemmas.AliasSync2
/-! C03, round 2: the converse of the refusal clause.  `SV.ancestors` (computed on the view with
fuel `links + 1`) finds every parameter a parameter follows; hence a request the pair form refuses
with `Exception` / `ParameterNotFoundException` is one `mustRefuse` flags. -/
namespace Bpp.Alias
open Bpp.ParamList (Bnd Con Par Store ObjId nameOf find? hasParameter names startsWith)

/-- a registry entry seen as a visible link -/
theorem link_of_entry {w : World} {k : Nat} {o : Obj} (h : ObjInv w k o) {e : String × Nat} (he : e ∈ o.reg) :
    ∃ s t x y, s ∈ o.params ∧ nameOf w.heap s = o.pre ++ x ∧ (w.lis e.2).src = x ∧
      o.params[(w.lis e.2).alias]? = some t ∧ nameOf w.heap t = o.pre ++ y ∧ (x, y) ∈ linksOf w o := by
  obtain ⟨_, r2, _, ⟨s, hs, hsn, _⟩, ⟨t, y, ht, htn, _, hid⟩⟩ := h.regOk e he
  refine ⟨s, t, (w.lis e.2).src, y, hs, hsn, rfl, ht, htn, (mem_linksOf h).2 ⟨?_, ?_, ?_⟩⟩
  · exact (mem_shortNames h).2 ⟨s, hs, hsn⟩
  · exact (mem_shortNames h).2 ⟨t, List.mem_of_getElem? ht, htn⟩
  · exact List.mem_map.2 ⟨e, he, hid⟩

/-- **`SV.ancestors` is complete**: every parameter that position `c` (short name `x`) follows,
through a chain of any length, is listed — the fuel `S.length + 1` suffices when `S` holds the visible
links whose target is at or above `c` (following is acyclic: each step uses up one link) -/
theorem ancestors_complete {w : World} {k : Nat} {o : Obj} (h : ObjInv w k o) :
    ∀ (f : Nat) (S : List (String × String)) (x : String) (c : Nat) (t : ObjId), S.Nodup →
      o.params[c]? = some t → nameOf w.heap t = o.pre ++ x →
      (∀ l ∈ linksOf w o, ∀ q tq, Relation.ReflTransGen (Follows w o) c q → o.params[q]? = some tq →
        nameOf w.heap tq = o.pre ++ l.2 → l ∈ S) →
      S.length + 1 ≤ f → ∀ q tq y, Relation.TransGen (Follows w o) c q → o.params[q]? = some tq →
      nameOf w.heap tq = o.pre ++ y → y ∈ (svOf w o).ancestors f x
  | 0, _, _, _, _, _, _, _, _, hf => by omega
  | f + 1, S, x, c, t, nd, hc, hx, hS, hf => by
    intro q tq y hq htq hy
    obtain ⟨r, hcr, hrq⟩ := Relation.TransGen.head'_iff.1 hq
    obtain ⟨e, he, ha, s, hps, hsn⟩ := hcr
    obtain ⟨s', t', z, y', hs', hsn', hsrc, ht', htn', hlink⟩ := link_of_entry h he
    have es : s' = s := h.name_inj hs' (List.mem_of_getElem? hps) (by rw [hsn', hsn, hsrc])
    subst es
    rw [ha, hc] at ht'; cases ht'
    have ey : y' = x := append_left_cancel' (htn'.symm.trans hx)
    subst ey
    have hlS : (z, y') ∈ S := hS (z, y') hlink c t Relation.ReflTransGen.refl hc hx
    -- the first link found on the view is this one
    have hfind : (svOf w o).links.find? (fun l => l.2 == y') = some (z, y') := by
      cases hf' : (svOf w o).links.find? (fun l => l.2 == y') with
      | none =>
        have := List.find?_eq_none.1 hf' (z, y') hlink
        simp at this
      | some l =>
        have hlm : l ∈ linksOf w o := List.mem_of_find?_eq_some hf'
        have hl2 : l.2 = y' := by simpa using List.find?_some hf'
        rw [links_target_inj h hlm hlink hl2]
    simp only [SV.ancestors, hfind]
    have hfol : Follows w o c r := ⟨e, he, ha, s', hps, hsn⟩
    rcases Relation.ReflTransGen.cases_head hrq with rfl | ⟨r', hrr', hr'q⟩
    · rw [hps] at htq; cases htq
      have : y = z := append_left_cancel' (hy.symm.trans hsn')
      rw [this]; exact List.mem_cons_self ..
    · refine List.mem_cons_of_mem _ ?_
      refine ancestors_complete h f (S.erase (z, y')) z r s' (nd.erase _) hps hsn' ?_ ?_ q tq y
        (Relation.TransGen.head' hrr' hr'q) htq hy
      · intro l hl q' tq' hq' htq' hn'
        rw [nd.mem_erase_iff]
        refine ⟨?_, hS l hl q' tq' (Relation.ReflTransGen.head hfol hq') htq' hn'⟩
        rintro rfl
        -- the target of `(z, y')` is position `c`: a cycle
        have : tq' = t := h.name_inj (List.mem_of_getElem? htq') (List.mem_of_getElem? hc) (hn'.trans hx.symm)
        subst this
        have : q' = c := h.pos_inj htq' hc
        subst this
        exact h.acyclic q' (Relation.TransGen.head' hfol hq')
      · have : (S.erase (z, y')).length = S.length - 1 := List.length_erase_of_mem hlS
        have hpos : 0 < S.length := List.length_pos_of_mem hlS
        omega

/-- the view-level test `follows` sees every chain -/
theorem follows_view_complete {w : World} {k : Nat} {o : Obj} (h : ObjInv w k o) {p1 p2 : String} {c q : Nat} {t tq : ObjId}
    (hc : o.params[c]? = some t) (hx : nameOf w.heap t = o.pre ++ p1) (hq : o.params[q]? = some tq)
    (hy : nameOf w.heap tq = o.pre ++ p2) (hch : Relation.TransGen (Follows w o) c q) :
    (svOf w o).follows p2 p1 = true := by
  simp only [SV.follows, List.contains_iff_mem]
  exact ancestors_complete h _ (linksOf w o) p1 c t (linksOf_nodup h) hc hx (fun l hl _ _ _ _ _ => hl) (Nat.le_refl _) q tq p2 hch hq hy

/-- **converse of the refusal clause**: when `aliasParameters(p1, p2)` raises `ParameterNotFoundException`
or `Exception`, the request is one of those `mustRefuse` describes on the view: a name is unknown, `p2`
already follows somebody, `p1 = p2`, or `p1` follows `p2` (through a chain of any length).  In other words
a request that need not be refused is refused by neither of the two. -/
theorem refuse_only_if {w : World} (h : Inv w) {k : Nat} {o : Obj} (ho : w.objs k = some o) (p1 p2 : String)
    (hr : (aliasPair w k p1 p2).err = some .notfound ∨ (aliasPair w k p1 p2).err = some .bpp) :
    mustRefuse p1 p2 (svOf w o) = true := by
  have hi := h.obj k o ho
  have hshorts : (svOf w o).shorts = shortNames w o := by
    simp only [SV.shorts, SV.short, svOf, shortNames, List.map_map]; rfl
  obtain ⟨s1, s2⟩ := aliasPair_spec hi ho p1 p2
  simp only [mustRefuse, hshorts, Bool.or_eq_true, Bool.not_eq_true', beq_iff_eq]
  left
  cases h1 : find? w.heap o.params (o.pre ++ p1) with
  | none =>
    left; left; left; left
    rw [← Bool.not_eq_true, List.contains_iff_mem]
    intro hm
    obtain ⟨t, ht, hn⟩ := (mem_shortNames hi).1 hm
    rw [(find?_iff hi.nodup).2 ⟨ht, hn⟩] at h1; cases h1
  | some i1 =>
    cases h2 : find? w.heap o.params (o.pre ++ p2) with
    | none =>
      left; left; left; right
      rw [← Bool.not_eq_true, List.contains_iff_mem]
      intro hm
      obtain ⟨t, ht, hn⟩ := (mem_shortNames hi).1 hm
      rw [(find?_iff hi.nodup).2 ⟨ht, hn⟩] at h2; cases h2
    | some i2 =>
      obtain ⟨hm1, hn1⟩ := ParamList.find?_some h1
      obtain ⟨hm2, hn2⟩ := ParamList.find?_some h2
      obtain ⟨a, b, c, d⟩ := s2 i1 i2 h1 h2
      by_cases hind : i2 ∈ o.indep
      swap
      · left; left; right
        refine (isTarget_svOf hi hm2 hn2).2 ?_
        by_contra hno
        exact hind ((hi.indepIff i2 hm2).2 hno)
      obtain ⟨pos1, hp1⟩ := hi.exists_pos hm1
      have pp1 : Plain p1 := by
        obtain ⟨x, hx, px⟩ := hi.plain i1 hm1
        have : x = p1 := append_left_cancel' (hx.symm.trans hn1)
        exact this ▸ px
      cases hf : followsLoop w o p2 (o.reg.length + 2) p1 with
      | none => exact absurd hf (cycleTest_no_hang hi h1)
      | some bb =>
        cases bb with
        | true =>
          obtain ⟨q, tq, hq, htq, hnq⟩ := followsLoop_true hi p2 _ p1 pos1 i1 hp1 hn1 pp1 hf
          rcases Relation.reflTransGen_iff_eq_or_transGen.1 hq with rfl | htg
          · left; right
            rw [hp1] at htq; cases htq
            exact append_left_cancel' (hn1.symm.trans hnq)
          · right
            exact follows_view_complete hi hp1 hn1 htq hnq htg
        | false =>
          -- accepted, or refused by the constraint part: neither notfound nor bpp
          exfalso
          obtain ⟨d1, d2⟩ := d hind hf
          cases hc : (aliasConstraints w i1 i2).err with
          | some e =>
            have := (d1 e hc).1
            have he := aliasConstraints_err hc
            rw [this, he] at hr
            rcases hr with hr | hr <;> cases hr
          | none =>
            obtain ⟨_, _, hok, _⟩ := d2 hc
            rw [hok] at hr
            rcases hr with hr | hr <;> cases hr

/-! ## A request refused for the constraints changes nothing either (after the repair) -/

theorem aliasConstraints_err_unchanged {w : World} {i1 i2 : ObjId} (he : (aliasConstraints w i1 i2).err ≠ none) :
    (aliasConstraints w i1 i2).w = w := by
  simp only [aliasConstraints] at he ⊢
  by_cases hg : aliasGuard w i1 i2 = true
  · simp [hg]
  · have hg' : aliasGuard w i1 i2 = false := by simpa using hg
    simp only [hg', Bool.false_eq_true, if_false] at he ⊢
    simp only [aliasGuard] at hg'
    simp only [aliasConstraintsL] at he ⊢
    cases h1 : (w.heap.get i1).con with
    | none =>
      cases h2 : (w.heap.get i2).con with
      | none => rfl
      | some c2 =>
        simp only [h1, h2] at he ⊢
        cases hq : parSetConstraint (w.heap.get i1) c2 with
        | error e => rfl
        | ok q => simp [hq] at he
    | some c1 =>
      cases h2 : (w.heap.get i2).con with
      | none => rfl
      | some c2 =>
        simp only [h1, h2] at he hg' ⊢
        by_cases hcc : c1 = c2
        · simp [hcc]
        · exfalso
          simp only [ne_eq, hcc, not_false_eq_true, decide_true, Bool.true_and, Bool.or_eq_false_iff,
            Bool.not_eq_false'] at hg'
          obtain ⟨a2, a1⟩ := hg'
          have hne : i1 ≠ i2 := by
            rintro rfl
            rw [h1] at h2; exact hcc (Option.some.inj h2)
          simp only [ne_eq, hcc, not_false_eq_true, if_true, parSetConstraint, a2, Bool.not_true, Bool.false_eq_true,
            if_false, putPar_get, hne, a1] at he
          exact he trivial

/-- **every refusal of the pair form leaves the world exactly as it was**: whatever it raises
(`ParameterNotFoundException`, `Exception`, `ConstraintException`) -/
theorem aliasPair_err_unchanged {w : World} (h : Inv w) {k : Nat} {o : Obj} (ho : w.objs k = some o) (p1 p2 : String)
    (he : (aliasPair w k p1 p2).err ≠ none) : (aliasPair w k p1 p2).w = w := by
  have hi := h.obj k o ho
  obtain ⟨s1, s2⟩ := aliasPair_spec hi ho p1 p2
  cases h1 : find? w.heap o.params (o.pre ++ p1) with
  | none => exact (s1 (Or.inl h1)).2
  | some i1 =>
    cases h2 : find? w.heap o.params (o.pre ++ p2) with
    | none => exact (s1 (Or.inr h2)).2
    | some i2 =>
      obtain ⟨a, b, c, d⟩ := s2 i1 i2 h1 h2
      by_cases hind : i2 ∈ o.indep
      swap
      · exact (a hind).2
      cases hf : followsLoop w o p2 (o.reg.length + 2) p1 with
      | none => exact (b hind hf).2
      | some bb =>
        cases bb with
        | true => exact (c hind hf).2
        | false =>
          obtain ⟨d1, d2⟩ := d hind hf
          cases hc : (aliasConstraints w i1 i2).err with
          | some e =>
            rw [(d1 e hc).2]
            exact aliasConstraints_err_unchanged (by rw [hc]; simp)
          | none =>
            obtain ⟨_, _, hok, _⟩ := d2 hc
            exact absurd hok he

end Bpp.Alias
