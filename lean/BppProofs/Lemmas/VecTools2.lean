import BppModel.VecTools2
import BppProofs.Lemmas.VecTools
import Mathlib.Data.Nat.Factorial.Basic
/-!
Helper lemmas for C07, round 2 (model `BppModel/VecTools2.lean`).
-/
namespace Bpp.VecTools
open Bpp Bpp.ScalarReal

/-! ### Except / mapM plumbing -/

theorem mapM_ok_of_forall {γ δ : Type} (F : γ → Res δ) (G : γ → δ) (l : List γ)
    (h : ∀ i ∈ l, F i = .ok (G i)) : l.mapM F = .ok (l.map G) := by
  induction l with
  | nil => rfl
  | cons x xs ih =>
    rw [List.mapM_cons, h x (by simp), ih (fun i hi => h i (by simp [hi]))]
    rfl

theorem mapM_error_of_mem {γ δ : Type} (F : γ → Res δ) (l : List γ) (e : Err)
    (hall : ∀ i ∈ l, F i = .error e ∨ ∃ y, F i = .ok y) (h : ∃ i ∈ l, F i = .error e) :
    l.mapM F = .error e := by
  induction l with
  | nil => obtain ⟨i, hi, -⟩ := h; cases hi
  | cons x xs ih =>
    rw [List.mapM_cons]
    rcases hall x (by simp) with hx | ⟨y, hy⟩
    · rw [hx]; rfl
    · rw [hy]
      have : ∃ i ∈ xs, F i = .error e := by
        obtain ⟨i, hi, hie⟩ := h
        rcases List.mem_cons.mp hi with rfl | hi
        · rw [hy] at hie; cases hie
        · exact ⟨i, hi, hie⟩
      rw [show (Except.ok y >>= fun y' => do let ys ← xs.mapM F; pure (y' :: ys))
            = (do let ys ← xs.mapM F; pure (y :: ys)) from rfl,
          ih (fun i hi => hall i (by simp [hi])) this]
      rfl

theorem foldl_add_map {γ : Type} (g : γ → ℝ) (l : List γ) (a : ℝ) :
    l.foldl (fun s d => s + g d) a = a + (l.map g).sum := by
  induction l generalizing a with
  | nil => simp
  | cons x xs ih => simp [List.foldl_cons, ih, add_assoc]

/-! ### set-like helpers, second part -/
section Sets
variable {β : Type} [LinearOrder β]

theorem pushNew_eq_union (u v : List β) : pushNew deq u v = vectorUnionOrig deq u v := rfl

theorem mem_pushNew (u v : List β) (x : β) : x ∈ pushNew deq u v ↔ x ∈ u ∨ x ∈ v := by
  rw [pushNew_eq_union]; exact mem_vectorUnionOrig u v x

theorem inAll_iff (vs : List (List β)) (x : β) : inAll deq vs x = true ↔ ∀ v ∈ vs, x ∈ v := by
  induction vs with
  | nil => simp [inAll]
  | cons v vs ih =>
    simp only [inAll, List.forall_mem_cons]
    by_cases h : x ∈ v
    · simp [(contains_deq v x).mpr h, ih, h]
    · simp [(contains_deq_false v x).mpr h, h]

theorem inAll_eq_all (vs : List (List β)) (x : β) :
    inAll deq vs x = vs.all (fun u => contains deq u x) := by
  induction vs with
  | nil => rfl
  | cons v vs ih =>
    simp only [inAll, List.all_cons, ih]
    cases contains deq v x <;> simp

/-- first occurrences -/
theorem mem_firstOcc (l : List β) (x : β) : x ∈ Spec.firstOcc deq l ↔ x ∈ l := by
  induction l with
  | nil => simp [Spec.firstOcc]
  | cons y ys ih =>
    simp only [Spec.firstOcc, List.mem_cons, List.mem_filter, ih]
    by_cases h : x = y
    · simp [h]
    · simp [h]

theorem nodup_firstOcc (l : List β) : (Spec.firstOcc deq l).Nodup := by
  induction l with
  | nil => simp [Spec.firstOcc]
  | cons y ys ih =>
    simp only [Spec.firstOcc, List.nodup_cons, List.mem_filter]
    exact ⟨by simp, ih.filter _⟩

theorem firstOcc_append (a b : List β) :
    Spec.firstOcc deq (a ++ b) = Spec.firstOcc deq a ++ (Spec.firstOcc deq b).filter (fun x => decide (x ∉ a)) := by
  induction a with
  | nil => simp [Spec.firstOcc]
  | cons x xs ih =>
    simp only [List.cons_append, Spec.firstOcc, ih, List.filter_append, List.filter_filter]
    congr 2
    apply List.filter_congr
    intro y _
    by_cases h : y = x <;> simp [h]

theorem pushNew_eq (u v : List β) :
    pushNew deq u v = u ++ (Spec.firstOcc deq v).filter (fun x => decide (x ∉ u)) := by
  unfold pushNew vectorUnionOrig
  induction v generalizing u with
  | nil => simp [Spec.firstOcc]
  | cons y ys ih =>
    simp only [List.foldl_cons, Spec.firstOcc]
    by_cases hy : y ∈ u
    · have : contains deq u y = true := (contains_deq u y).mpr hy
      simp only [this, Bool.not_true, Bool.false_eq_true, if_false]
      rw [ih u]
      congr 1
      rw [List.filter_cons]
      simp only [hy, not_true_eq_false, decide_false, Bool.false_eq_true, if_false, List.filter_filter]
      apply List.filter_congr
      intro z _
      by_cases hz : z = y
      · subst hz; simp [hy]
      · simp [hz]
    · have : contains deq u y = false := (contains_deq_false u y).mpr hy
      simp only [this, Bool.not_false, if_true]
      rw [ih (u ++ [y])]
      rw [List.filter_cons]
      simp only [hy, not_false_eq_true, decide_true, if_true, List.filter_filter, List.append_assoc,
        List.singleton_append]
      congr 2
      apply List.filter_congr
      intro z _
      by_cases hz : z = y
      · subst hz; simp
      · simp [hz]

theorem foldl_pushNew_eq (vs : List (List β)) (u : List β) :
    vs.foldl (pushNew deq) u = u ++ (Spec.firstOcc deq vs.flatten).filter (fun x => decide (x ∉ u)) := by
  induction vs generalizing u with
  | nil => simp [Spec.firstOcc]
  | cons v rest ih =>
    simp only [List.foldl_cons, List.flatten_cons]
    rw [ih (pushNew deq u v), firstOcc_append, pushNew_eq u v, List.filter_append, List.filter_filter,
      List.append_assoc]
    congr 2
    apply List.filter_congr
    intro z _
    by_cases h1 : z ∈ u <;> by_cases h2 : z ∈ v <;>
      simp [List.mem_append, List.mem_filter, mem_firstOcc, h1, h2]

theorem vectorUnionList_eq (vs : List (List β)) :
    vectorUnionList deq vs = Spec.firstOcc deq vs.flatten := by
  unfold vectorUnionList
  rw [foldl_pushNew_eq]
  simp

/-- the repaired two-vector union is the union of the list of the two -/
theorem vectorUnion_eq_list (a b : List β) : vectorUnion deq a b = vectorUnionList deq [a, b] := rfl

theorem vectorUnion_eq (a b : List β) : vectorUnion deq a b = Spec.firstOcc deq (a ++ b) := by
  rw [vectorUnion_eq_list, vectorUnionList_eq]; simp

theorem vectorIntersectionList_cons (v : List β) (rest : List (List β)) :
    vectorIntersectionList deq (v :: rest) = v.filter (fun x => decide (∀ u ∈ rest, x ∈ u)) := by
  cases rest with
  | nil => show v = _; simp
  | cons w ws =>
    simp only [vectorIntersectionList]
    apply List.filter_congr
    intro x _
    by_cases h : ∀ u ∈ w :: ws, x ∈ u
    · rw [decide_eq_true h]; exact (inAll_iff _ x).mpr h
    · rw [decide_eq_false h, ← Bool.not_eq_true]; exact fun hh => h ((inAll_iff _ x).mp hh)

/-! count map with natural counts -/

/-- invariant of `countValues` after processing `l` -/
def CountInvNat (m : List (β × Nat)) (l : List β) : Prop :=
  SortedKeys m ∧ ∀ k, mapGet? dlt k m = if l.count k = 0 then none else some (l.count k)

theorem dlt_iff' (a b : β) : dlt a b = true ↔ a < b := dlt_iff a b

theorem countValues_fold (v l : List β) (m : List (β × Nat)) (h : CountInvNat m l) :
    CountInvNat (v.foldl (fun m x => mapUpdate dlt x bump m) m) (l ++ v) := by
  induction v generalizing m l with
  | nil => simpa using h
  | cons x xs ih =>
    simp only [List.foldl_cons]
    have := ih (l ++ [x]) (mapUpdate dlt x bump m) ?_
    · simpa using this
    · obtain ⟨hs, hg⟩ := h
      refine ⟨(mapUpdate_keys _ dlt_iff' x _ m hs).1, ?_⟩
      intro k
      rw [mapGet?_update _ dlt_iff' x _ m hs k]
      by_cases hk : k = x
      · subst hk
        simp only [if_true, hg k, List.count_append, List.count_singleton_self]
        by_cases hc : l.count k = 0
        · simp [hc, bump]
        · simp [hc, bump]
      · simp only [hk, if_false, hg k, List.count_append]
        have : [x].count k = 0 := by simp [Ne.symm hk]
        simp [this]

theorem countValues_inv (v : List β) : CountInvNat (countValues dlt v) v := by
  have := countValues_fold v [] [] ⟨by simp [SortedKeys], by intro k; simp [mapGet?]⟩
  simpa [countValues] using this

theorem countValues_mem (v : List β) (k : β) (c : Nat) :
    (k, c) ∈ countValues dlt v ↔ k ∈ v ∧ c = v.count k := by
  obtain ⟨hs, hg⟩ := countValues_inv v
  rw [← mapGet?_eq_some_iff _ dlt_iff' _ hs, hg k]
  by_cases hc : v.count k = 0
  · simp only [hc, if_true]
    have : k ∉ v := List.count_eq_zero.mp hc
    simp [this]
  · simp only [hc, if_false, Option.some.injEq]
    have : k ∈ v := by
      by_contra h; exact hc (List.count_eq_zero.mpr h)
    simp [this, eq_comm]

/-! rep -/

end Sets

theorem map_mod_range {γ : Type} (v : List γ) (x0 : γ) (n : Nat) :
    (List.range (v.length * n)).map (fun i => (v[i % v.length]?).getD x0) = Spec.repeatList v n := by
  induction n with
  | zero => simp [Spec.repeatList]
  | succ n ih =>
    have hs : Spec.repeatList v (n + 1) = Spec.repeatList v n ++ v := by
      simp [Spec.repeatList, List.replicate_succ']
    rw [hs, Nat.mul_succ, List.range_add, List.map_append, ih]
    congr 1
    apply List.ext_getElem
    · simp
    · intro i h1 h2
      have hi : i < v.length := by simpa using h1
      simp [Nat.mod_eq_of_lt hi, hi]

theorem rep_eq {γ : Type} (v : List γ) (n : Nat) : rep v n = .ok (Spec.repeatList v n) := by
  unfold rep
  by_cases h1 : n = 1
  · subst h1; simp [Spec.repeatList]
  · by_cases h0 : n = 0
    · subst h0; simp [Spec.repeatList]
    · simp only [h1, h0, if_false]
      cases v with
      | nil => simp [Spec.repeatList]; rfl
      | cons x0 xs =>
        rw [← map_mod_range (x0 :: xs) x0 n]
        apply mapM_ok_of_forall
        intro i _
        have hlt : i % (x0 :: xs).length < (x0 :: xs).length := Nat.mod_lt _ (by simp)
        unfold at?
        rw [List.getElem?_eq_getElem hlt]
        rfl

/-! ### resize -/

theorem resizeTo_length {γ : Type} (d : γ) (l : List γ) (n : Nat) : (resizeTo d l n).length = n := by
  simp [resizeTo]; omega

theorem resizeTo_get {γ : Type} (d : γ) (l : List γ) (n i : Nat) (h : i < n) :
    (resizeTo d l n)[i]? = some (match l[i]? with | some x => x | none => d) := by
  unfold resizeTo
  by_cases hi : i < l.length
  · rw [List.getElem?_append_left (by simp; omega)]
    simp [h, hi]
  · have hi' : l.length ≤ i := Nat.le_of_not_lt hi
    rw [List.getElem?_append_right (by simp; omega)]
    have : l[i]? = none := List.getElem?_eq_none hi'
    have hm : (List.take n l).length = l.length := by simp; omega
    rw [hm, this, List.getElem?_replicate]
    have : i - l.length < n - l.length := by omega
    simp [this]

/-! ### NumTools scalar helpers at ℝ -/

theorem ntAbs_eq (a : ℝ) : ntAbs a = |a| := by
  unfold ntAbs
  by_cases h : a < 0
  · simp [h, abs_of_neg h]
  · simp [h, abs_of_nonneg (not_lt.mp h)]

theorem ntSign_eq (a : ℝ) : ntSign a = if a < 0 then -1 else if a = 0 then 0 else 1 := by
  unfold ntSign
  by_cases h : a < 0
  · simp [h]
  · by_cases h0 : a = 0
    · simp [h0]
    · simp [h, h0]

theorem factNat_eq (n : Nat) : (factNat n : ℝ) = (n.factorial : ℝ) := by
  induction n with
  | zero => simp [factNat]
  | succ n ih => simp only [factNat, ih, Nat.factorial_succ, ofInt_eq]; push_cast; ring

theorem logFactNat_eq (n : Nat) : (logFactNat n : ℝ) = Real.log (n.factorial : ℝ) := by
  induction n with
  | zero => simp [logFactNat]
  | succ n ih =>
    simp only [logFactNat, ih, Nat.factorial_succ, ofInt_eq, log_eq]
    push_cast
    rw [Real.log_mul (by positivity) (by positivity)]

/-! ### Kronecker product -/

theorem kroneckerMult_length (v1 v2 : List ℝ) : (kroneckerMult v1 v2).length = v1.length * v2.length := by
  induction v1 with
  | nil => simp [kroneckerMult]
  | cons a as ih =>
    simp only [kroneckerMult, List.flatMap_cons, List.length_append, List.length_map, List.length_cons] at *
    rw [ih]; ring

theorem kroneckerMult_get (v1 v2 : List ℝ) (i j : Nat) (hi : i < v1.length) (hj : j < v2.length) :
    (kroneckerMult v1 v2)[i * v2.length + j]? = some (v1[i] * v2[j]) := by
  induction v1 generalizing i with
  | nil => simp at hi
  | cons a as ih =>
    simp only [kroneckerMult, List.flatMap_cons]
    cases i with
    | zero =>
      rw [List.getElem?_append_left (by simpa using hj)]
      simp [hj]
    | succ k =>
      have hk : k < as.length := by simpa using hi
      rw [List.getElem?_append_right (by simp; nlinarith)]
      have : (k + 1) * v2.length + j - (List.map (fun b => a * b) v2).length = k * v2.length + j := by
        simp only [List.length_map]; rw [Nat.succ_mul]; omega
      rw [this]
      have := ih k hk
      simpa [kroneckerMult] using this

/-! ### weighted norm / cosine -/

theorem zipWith_self_mul (a : List ℝ) : List.zipWith (· * ·) a a = a.map (fun x => x * x) := by
  induction a with
  | nil => rfl
  | cons x xs ih => simp [ih]

theorem zipWith3_self (f : ℝ → ℝ → ℝ → ℝ) (a w : List ℝ) :
    zipWith3 f a a w = List.zipWith (fun x c => f x x c) a w := by
  induction a generalizing w with
  | nil => simp [zipWith3]
  | cons x xs ih =>
    cases w with
    | nil => simp [zipWith3]
    | cons c cs => simp [zipWith3, ih]

theorem normW_eq (v w : List ℝ) (h : v.length = w.length) :
    normW v w = .ok (Real.sqrt (zipWith3 (fun x y c => x * y * c) v v w).sum) := by
  simp [normW, h, foldl_add_eq, zipWith3_self]

theorem cosW_eq (v1 v2 w : List ℝ) (h1 : v1.length = w.length) (h2 : v2.length = w.length) :
    cosW v1 v2 w = .ok ((zipWith3 (fun a b c => a * b * c) v1 v2 w).sum /
      (Real.sqrt (zipWith3 (fun x y c => x * y * c) v1 v1 w).sum *
       Real.sqrt (zipWith3 (fun x y c => x * y * c) v2 v2 w).sum)) := by
  unfold cosW
  rw [scalarW_eq v1 v2 w h1 h2, normW_eq v1 w h1, normW_eq v2 w h2]
  rfl

theorem sdW_of_varW (v w : List ℝ) (u nw : Bool) (x : ℝ) (h : varW v w u nw = .ok x) :
    sdW v w u nw = .ok (Real.sqrt x) := by
  unfold sdW; rw [h]; rfl

/-! ### the value of the median -/

theorem sortVals_pairwise_le (v : List ℝ) : (sortVals v).Pairwise (· ≤ ·) :=
  (sortedBy_sortVals v).imp (fun {a b} h => by simpa using h)

/-- over a linear order the sorted permutation is unique -/
theorem sortVals_unique (v s : List ℝ) (hp : s.Perm v) (hs : s.Pairwise (· ≤ ·)) : sortVals v = s :=
  List.Perm.eq_of_pairwise (le := (· ≤ ·)) (fun x y _ _ h1 h2 => le_antisymm h1 h2)
    (sortVals_pairwise_le v) hs ((sortVals_perm v).trans hp.symm)

theorem median_ge2 (v : List ℝ) (hn : 2 ≤ v.length) :
    median v =
      (if (sortVals v).length % 2 = 0 then (do
        let a ← at? (sortVals v) ((sortVals v).length / 2 - 1)
        let b ← at? (sortVals v) ((sortVals v).length / 2)
        pure ((a + b) / Scalar.ofInt 2, sortVals v) : Res (ℝ × List ℝ))
      else do
        let b ← at? (sortVals v) ((sortVals v).length / 2)
        pure (b, sortVals v)) := by
  unfold median
  rw [if_neg (by omega), if_neg (by omega)]

theorem whichMinAll_spec (v : List ℝ) (pos : List Nat) (h : whichMinAll v = .ok pos) :
    ∃ m, VecTools.min v = .ok m ∧ IsPositionsOf Scalar.eqb v m pos := by
  unfold whichMinAll at h
  by_cases hv : v.length = 0
  · simp [hv] at h; cases h
  · simp only [hv, if_false] at h
    cases hm : VecTools.min v with
    | error e => rw [hm] at h; simp [bind, Except.bind] at h
    | ok m =>
      rw [hm] at h
      simp only [bind, Except.bind, pure, Except.pure, Except.ok.injEq] at h
      refine ⟨m, rfl, ?_⟩
      unfold IsPositionsOf
      rw [← h, positionsOf_eq]; simp

end Bpp.VecTools
