import BppProofs.Lemmas.TreeDfs
/-
Soundness of the single-visit traversal: a successful run from `n` exhibits, on the newly met
nodes, a tree rooted at `n` that contains every relation of these nodes (`Run`).
-/
namespace Bpp.Graph
open AL
namespace T

/-- what a successful run from `n` (coming from `origin`) tells: the newly met nodes `vis` carry a
tree rooted at `n`, closed under the relations of the graph -/
structure Run (g : G) (n origin : Nat) (met m' vis : List Nat) (par : Nat → Option Nat) (rank : Nat → Nat) : Prop where
  mem : ∀ x, x ∈ m' ↔ x ∈ vis ∨ x ∈ met
  disj : ∀ x ∈ vis, x ∉ met
  start : n ∈ vis
  node : ∀ v ∈ vis, g.hasNode v = true
  par_start : par n = none
  rank_start : rank n = 0
  up : ∀ v ∈ vis, v ≠ n → ∃ p, p ∈ vis ∧ par v = some p ∧ rank v = rank p + 1 ∧ Arc g p v
  closed : ∀ v ∈ vis, ∀ w, Arc g v w →
    (w ∈ vis ∧ par w = some v) ∨ (g.directed = false ∧ ((v = n ∧ origin ≠ n ∧ w = origin) ∨ (v ≠ n ∧ par v = some w)))

/-- the same for the loop over the neighbours `l` of `n` (already met) -/
structure RunL (g : G) (n origin : Nat) (l m m' vis : List Nat) (par : Nat → Option Nat) (rank : Nat → Nat) : Prop where
  mem : ∀ x, x ∈ m' ↔ x ∈ vis ∨ x ∈ m
  disj : ∀ x ∈ vis, x ∉ m
  node : ∀ v ∈ vis, g.hasNode v = true
  rank_n : rank n = 0
  up : ∀ v ∈ vis, ∃ p, (p ∈ vis ∨ p = n) ∧ par v = some p ∧ rank v = rank p + 1 ∧ Arc g p v
  closed : ∀ v ∈ vis, ∀ w, Arc g v w → (w ∈ vis ∧ par w = some v) ∨ (g.directed = false ∧ par v = some w)
  sons : ∀ b ∈ l, Skip g n origin b ∨ (b ∈ vis ∧ par b = some n)

theorem metOnce_sound (g : G) : ∀ (fuel n origin : Nat) (met m' : List Nat),
    metOnce g fuel n origin met = .ok (some m') → ∃ vis par rank, Run g n origin met m' vis par rank := by
  intro fuel
  induction fuel with
  | zero => intro n origin met m' h; simp [metOnce] at h
  | succ f ih =>
    intro n origin met m' h
    rw [metOnce_succ] at h
    by_cases hcont : met.contains n = true
    · rw [if_pos hcont] at h; cases h
    rw [if_neg hcont] at h
    have hnm : n ∉ met := by simpa using hcont
    cases ho : g.outNeighbors n with
    | none => rw [ho] at h; cases h
    | some nbs =>
      rw [ho] at h
      simp only at h
      have hnode := (G.outNeighbors_some ho).1
      have key : ∀ (l m m' : List Nat), n ∈ m → (∀ b ∈ l, Arc g n b) →
          l.foldl (metStep g f n origin) (.ok (some m)) = .ok (some m') →
          ∃ vis par rank, RunL g n origin l m m' vis par rank := by
        intro l
        induction l with
        | nil =>
          intro m m' _ _ h
          simp only [List.foldl] at h
          cases h
          exact ⟨[], fun _ => none, fun _ => 0,
            ⟨(by intro x; simp), (by simp), (by simp), rfl, (by simp), (by simp), (by simp)⟩⟩
        | cons b rest ihl =>
          intro m m' hnmem harc h
          simp only [List.foldl] at h
          rw [metStep_some] at h
          by_cases hs : Skip g n origin b
          · rw [if_pos hs] at h
            obtain ⟨vis, par, rank, hr⟩ := ihl m m' hnmem (fun c hc => harc c (List.mem_cons_of_mem _ hc)) h
            refine ⟨vis, par, rank, ⟨hr.mem, hr.disj, hr.node, hr.rank_n, hr.up, hr.closed, ?_⟩⟩
            intro c hc
            rcases List.mem_cons.1 hc with e | hc'
            · subst e; exact .inl hs
            · exact hr.sons c hc'
          · rw [if_neg hs] at h
            cases hres : metOnce g f b n m with
            | exc => rw [hres, metFold_stuck _ _ _ _ _ (by intro m; simp)] at h; cases h
            | fuel => rw [hres, metFold_stuck _ _ _ _ _ (by intro m; simp)] at h; cases h
            | ub => rw [hres, metFold_stuck _ _ _ _ _ (by intro m; simp)] at h; cases h
            | ok o =>
              cases o with
              | none => rw [hres, metFold_stuck _ _ _ _ _ (by intro m; simp)] at h; cases h
              | some m1 =>
                rw [hres] at h
                obtain ⟨vb, pb, rb, hb⟩ := ih b n m m1 hres
                have hnm1 : n ∈ m1 := (hb.mem n).2 (.inr hnmem)
                obtain ⟨vr, pr, rr, hr⟩ := ihl m1 m' hnm1 (fun c hc => harc c (List.mem_cons_of_mem _ hc)) h
                -- facts about the two parts
                have hn_vb : n ∉ vb := fun hh => hb.disj n hh hnmem
                have hvr_vb : ∀ x ∈ vr, x ∉ vb := fun x hx hxb => hr.disj x hx ((hb.mem x).2 (.inl hxb))
                have hvr_b : ∀ x ∈ vr, x ≠ b := fun x hx e => hvr_vb x hx (e ▸ hb.start)
                have hvr_n : n ∉ vr := fun hh => hr.disj n hh hnm1
                refine ⟨vb ++ vr,
                  fun x => if x = b then some n else if x ∈ vb then pb x else pr x,
                  fun x => if x ∈ vb then rb x + 1 else rr x, ?_⟩
                have par_vb : ∀ x ∈ vb, x ≠ b → (if x = b then some n else if x ∈ vb then pb x else pr x) = pb x := by
                  intro x hx hxb; simp [hxb, hx]
                have par_vr : ∀ x ∈ vr, (if x = b then some n else if x ∈ vb then pb x else pr x) = pr x := by
                  intro x hx; simp [hvr_b x hx, hvr_vb x hx]
                have rank_vb : ∀ x ∈ vb, (if x ∈ vb then rb x + 1 else rr x) = rb x + 1 := by intro x hx; simp [hx]
                have rank_nvb : ∀ x, x ∉ vb → (if x ∈ vb then rb x + 1 else rr x) = rr x := by intro x hx; simp [hx]
                refine ⟨?_, ?_, ?_, ?_, ?_, ?_, ?_⟩
                · intro x
                  rw [hr.mem x, hb.mem x, List.mem_append]
                  constructor
                  · rintro (h | h | h)
                    · exact .inl (.inr h)
                    · exact .inl (.inl h)
                    · exact .inr h
                  · rintro ((h | h) | h)
                    · exact .inr (.inl h)
                    · exact .inl h
                    · exact .inr (.inr h)
                · intro x hx
                  rcases List.mem_append.1 hx with h | h
                  · exact hb.disj x h
                  · exact fun hxm => hr.disj x h ((hb.mem x).2 (.inr hxm))
                · intro v hv
                  rcases List.mem_append.1 hv with h | h
                  · exact hb.node v h
                  · exact hr.node v h
                · rw [rank_nvb n hn_vb]; exact hr.rank_n
                · intro v hv
                  rcases List.mem_append.1 hv with h | h
                  · by_cases hvb : v = b
                    · subst hvb
                      refine ⟨n, .inr rfl, by simp, ?_, harc v (List.mem_cons_self ..)⟩
                      rw [rank_vb v h, rank_nvb n hn_vb, hr.rank_n, hb.rank_start]
                    · obtain ⟨p, hp, hpp, hrk, ha⟩ := hb.up v h hvb
                      refine ⟨p, .inl (List.mem_append.2 (.inl hp)), ?_, ?_, ha⟩
                      · rw [par_vb v h hvb]; exact hpp
                      · rw [rank_vb v h, rank_vb p hp, hrk]
                  · obtain ⟨p, hp, hpp, hrk, ha⟩ := hr.up v h
                    refine ⟨p, ?_, ?_, ?_, ha⟩
                    · rcases hp with hp | hp
                      · exact .inl (List.mem_append.2 (.inr hp))
                      · exact .inr hp
                    · rw [par_vr v h]; exact hpp
                    · rw [rank_nvb v (hvr_vb v h), hrk]
                      rcases hp with hp | hp
                      · rw [rank_nvb p (hvr_vb p hp)]
                      · subst hp; rw [rank_nvb p hn_vb]
                · intro v hv w haw
                  rcases List.mem_append.1 hv with h | h
                  · rcases hb.closed v h w haw with ⟨hw, hpw⟩ | ⟨hd, hh⟩
                    · have hwb : w ≠ b := by intro e; subst e; rw [hb.par_start] at hpw; cases hpw
                      exact .inl ⟨List.mem_append.2 (.inl hw), by rw [par_vb w hw hwb]; exact hpw⟩
                    · rcases hh with ⟨hvb, _, hwn⟩ | ⟨hvb, hpv⟩
                      · subst hvb; subst hwn
                        exact .inr ⟨hd, by simp⟩
                      · exact .inr ⟨hd, by rw [par_vb v h hvb]; exact hpv⟩
                  · rcases hr.closed v h w haw with ⟨hw, hpw⟩ | ⟨hd, hpv⟩
                    · exact .inl ⟨List.mem_append.2 (.inr hw), by rw [par_vr w hw]; exact hpw⟩
                    · exact .inr ⟨hd, by rw [par_vr v h]; exact hpv⟩
                · intro c hc
                  rcases List.mem_cons.1 hc with e | hc'
                  · subst e
                    exact .inr ⟨List.mem_append.2 (.inl hb.start), by simp⟩
                  · rcases hr.sons c hc' with hsk | ⟨hcv, hpc⟩
                    · exact .inl hsk
                    · exact .inr ⟨List.mem_append.2 (.inr hcv), by rw [par_vr c hcv]; exact hpc⟩
      obtain ⟨vis, par, rank, hr⟩ := key nbs (n :: met) m' (List.mem_cons_self ..)
        (fun b hb => (G.mem_outNeighbors ho b).1 hb) h
      have hn_vis : n ∉ vis := fun hh => hr.disj n hh (List.mem_cons_self ..)
      refine ⟨n :: vis, fun x => if x = n then none else par x, rank, ?_⟩
      refine ⟨?_, ?_, List.mem_cons_self .., ?_, by simp, hr.rank_n, ?_, ?_⟩
      · intro x
        rw [hr.mem x]
        simp only [List.mem_cons]
        constructor
        · rintro (h | h | h)
          · exact .inl (.inr h)
          · exact .inl (.inl h)
          · exact .inr h
        · rintro ((h | h) | h)
          · exact .inr (.inl h)
          · exact .inl h
          · exact .inr (.inr h)
      · intro x hx
        rcases List.mem_cons.1 hx with e | hx'
        · subst e; exact hnm
        · exact fun hxm => hr.disj x hx' (List.mem_cons_of_mem _ hxm)
      · intro v hv
        rcases List.mem_cons.1 hv with e | hv'
        · subst e; exact hnode
        · exact hr.node v hv'
      · intro v hv hvn
        rcases List.mem_cons.1 hv with e | hv'
        · exact absurd e hvn
        · obtain ⟨p, hp, hpp, hrk, ha⟩ := hr.up v hv'
          refine ⟨p, ?_, by simp [hvn]; exact hpp, hrk, ha⟩
          rcases hp with hp | hp
          · exact List.mem_cons_of_mem _ hp
          · subst hp; exact List.mem_cons_self ..
      · intro v hv w haw
        rcases List.mem_cons.1 hv with e | hv'
        · subst e
          have hwn : w ∈ nbs := (G.mem_outNeighbors ho w).2 haw
          rcases hr.sons w hwn with hsk | ⟨hwv, hpw⟩
          · exact .inr ⟨hsk.1, .inl ⟨rfl, hsk.2.1, hsk.2.2⟩⟩
          · have hwne : w ≠ v := fun e => hn_vis (e ▸ hwv)
            exact .inl ⟨List.mem_cons_of_mem _ hwv, by simp [hwne]; exact hpw⟩
        · have hvn : v ≠ n := fun e => hn_vis (e ▸ hv')
          rcases hr.closed v hv' w haw with ⟨hw, hpw⟩ | ⟨hd, hpv⟩
          · have hwne : w ≠ n := fun e => hn_vis (e ▸ hw)
            exact .inl ⟨List.mem_cons_of_mem _ hw, by simp [hwne]; exact hpw⟩
          · exact .inr ⟨hd, .inr ⟨hvn, by simp [hvn]; exact hpv⟩⟩

end T
end Bpp.Graph
