import BppProofs.Lemmas.NumDerivReach
/-!
C12 helper lemmas, part 5: the nominal path.  Without constraints on the probed variables and with
an objective that stays below `VERY_BIG` at the probed points, every probe goes through at the first try; the state of
the wrapped function and the stored derivatives are then known exactly.
-/
namespace Bpp.NumDeriv
open Bpp Bpp.Scalar

/-- the nominal situation of one `updateDerivatives`: no constraint on the wrapped function's side,
no constraint and no precision on the parameters of the list that was passed.  (`f` is a parameter
only for uniformity of the statements; that `f` is not "too large" where the two- and three-point
schemes test it is the separate, local hypothesis `BoundedNear`.) -/
structure Free (f : List ℝ → ℝ) (params B : PList ℝ) : Prop where
  ctx : Ctx params B
  nocon : ∀ b ∈ B, b.con = none
  pfree : ∀ q ∈ params, q.con = none ∧ q.prec = 0

/-- `|f| < VERY_BIG` (and `f` not NaN) where the two- and three-point schemes test it
(Two:20, 73; Three:20, 75, 113): at the base point `B` and, along each coordinate, within one step
`H = (1 + |x|) |h|` of the base value (the probes are at `x ∓ H`, `x ∓ H/2`, …).  Local: a
non-constant polynomial satisfies it when its values on these segments are below 1.7e23.  The
five-point scheme and the cross-derivative block have no such test. -/
structure BoundedNear (f : List ℝ → ℝ) (B : PList ℝ) (hh : ℝ) : Prop where
  base : tooBig (f (values B)) = false
  line : ∀ var b, find? B var = some b → ∀ x, |x - b.value| ≤ (1 + |b.value|) * |hh| →
    tooBig (f (values (upd1 B var x))) = false

/-- the probe abscissae `x + s H`, `|s| ≤ 1`, are within the segment of `BoundedNear` -/
theorem BoundedNear.at {f : List ℝ → ℝ} {B : PList ℝ} {hh : ℝ} (hB : BoundedNear f B hh) (var : Name) (b : Param ℝ)
    (hb : find? B var = some b) (s : ℝ) (hs : _root_.abs s ≤ 1) :
    tooBig (f (values (upd1 B var (b.value + s * ((one + Scalar.abs b.value) * hh))))) = false := by
  apply hB.line var b hb
  simp only [ScalarReal.one_eq, ScalarReal.abs_eq, add_sub_cancel_left, abs_mul]
  have h1 : _root_.abs (1 + _root_.abs b.value) = 1 + _root_.abs b.value := abs_of_nonneg (by positivity)
  rw [h1]
  calc _root_.abs s * ((1 + _root_.abs b.value) * _root_.abs hh) ≤ 1 * ((1 + _root_.abs b.value) * _root_.abs hh) :=
        mul_le_mul_of_nonneg_right hs (by positivity)
    _ = (1 + _root_.abs b.value) * _root_.abs hh := one_mul _

theorem BoundedNear.at' {f : List ℝ → ℝ} {B : PList ℝ} {hh : ℝ} (hB : BoundedNear f B hh) (var : Name) (b : Param ℝ)
    (hb : find? B var = some b) (x s : ℝ) (hs : _root_.abs s ≤ 1)
    (hx : x = b.value + s * ((one + Scalar.abs b.value) * hh)) :
    tooBig (f (values (upd1 B var x))) = false := by
  rw [hx]; exact hB.at var b hb s hs

theorem violates_nocon (p : Param ℝ) (h : p.con = none) (x : ℝ) : p.violates x = false := by
  unfold Param.violates; rw [h]

theorem anyViolation_nocon (own pl : PList ℝ) (h : ∀ p ∈ own, p.con = none) : anyViolation own pl = false := by
  unfold anyViolation
  rw [List.any_eq_false]
  intro q _
  cases hf : find? own q.name with
  | none => simp
  | some p => simp [violates_nocon p (h p (find?_some hf).1)]

theorem Dev.nocon {B l : PList ℝ} {S : Name → Prop} (h : Dev B l S) (hn : ∀ b ∈ B, b.con = none) :
    ∀ p ∈ l, p.con = none := by
  unfold Dev at h
  induction h with
  | nil => intro p hp; cases hp
  | @cons a b l' B' hab _ ih =>
    intro p hp
    rcases List.mem_cons.mp hp with rfl | hp'
    · rw [hab.1.2.2]; exact hn b (List.mem_cons_self ..)
    · exact ih (fun q hq => hn q (List.mem_cons_of_mem _ hq)) p hp'

/-- after a probe that went through, the wrapped function is exactly at the base point with `var`
moved to the probe value -/
theorem updL_dev_eq {params B l : PList ℝ} (hc : Ctx params B) (var : Name) (q0 : Param ℝ) (rest : PList ℝ)
    (hq0 : q0.name = var) (hrest : ∀ q ∈ rest, q ∈ params)
    (hD : Dev B l (fun n => n = var ∨ n ∈ names rest)) :
    updL (q0 :: rest) l = upd1 B var q0.value := by
  unfold Dev at hD
  unfold updL upd1
  induction hD with
  | nil => rfl
  | @cons p b l' B' hpb hrest' ih =>
    rw [List.map_cons, List.map_cons]
    have ih' := ih (⟨by
        have := hc.bnd; simp only [names, List.map_cons, List.nodup_cons] at this; exact this.2,
      fun x hx => hc.bz x (List.mem_cons_of_mem _ hx),
      fun q hq x hx => hc.sync q hq x (List.mem_cons_of_mem _ hx)⟩ : Ctx params B')
    rw [ih']
    congr 1
    obtain ⟨⟨h1, h2, h3⟩, h4⟩ := hpb
    by_cases e : b.name = var
    · have e' : q0.name = p.name := by rw [hq0, h1, e]
      rw [find?_cons_eq q0 rest p.name e']
      simp only [e, if_true]
      cases p; cases b; simp_all
    · have e' : q0.name ≠ p.name := by rw [hq0, h1]; exact fun x => e x.symm
      rw [find?_cons_ne q0 rest p.name e']
      simp only [e, if_false]
      cases hf : find? rest p.name with
      | none =>
        simp only []
        have : ¬ (b.name = var ∨ b.name ∈ names rest) := by
          rintro (h | h)
          · exact e h
          · rw [← h1] at h; exact find?_none hf h
        have h5 := h4 this
        cases p; cases b; simp_all
      | some q =>
        simp only []
        have hq := find?_some hf
        have : b.value = q.value := hc.sync q (hrest q hq.1) b (List.mem_cons_self ..) (by rw [hq.2, h1])
        cases p; cases b; simp_all


/-- a probe on the nominal path -/
theorem attempt_free (f : List ℝ → ℝ) {params B : PList ℝ} (hF : Free f params B) {var : Name} {fn : Fn ℝ} {p : PList ℝ}
    (h : RI f params B var fn p) (hhead : ∀ q0 ∈ p.head?, q0.con = none ∧ q0.prec = 0) (x : ℝ)
    (hbx : tooBig (f (values (upd1 B var x))) = false) :
    (attempt f fn p x).ok = true ∧ (attempt f fn p x).fv = some (f (values (upd1 B var x))) ∧
    (attempt f fn p x).fn.params = upd1 B var x ∧ (attempt f fn p x).fn.OK f ∧
    (∃ q, (attempt f fn p x).p = [q] ∧ q.name = var ∧ q.con = none ∧ q.prec = 0) ∧
    (attempt f fn p x).fn.kind = fn.kind ∧ (attempt f fn p x).fn.en1 = fn.en1 ∧ (attempt f fn p x).fn.en2 = fn.en2 := by
  obtain ⟨hok, q0, rest, rfl, hq0, hnd, hrest, hlen, hD⟩ := h
  obtain ⟨hcon, hprec⟩ := hhead q0 (by simp)
  have hc := hF.ctx
  unfold attempt
  simp only []
  rw [setValue_ok q0 x hprec (violates_nocon q0 hcon x)]
  simp only []
  have hnd' : (names ({ q0 with value := x } :: rest)).Nodup := by
    rw [names_cons]; rw [names_cons] at hnd; exact hnd
  have hav : anyViolation fn.params ({ q0 with value := x } :: rest) = false :=
    anyViolation_nocon _ _ (hD.nocon hF.nocon)
  obtain ⟨fired, heq, hnf⟩ := setParameters_eq f fn ({ q0 with value := x } :: rest) (hc.own hD) hnd' hav
  have hupd : updL ({ q0 with value := x } :: rest) fn.params = upd1 B var x :=
    updL_dev_eq hc var { q0 with value := x } rest hq0 hrest hD
  rw [heq, hupd]
  have hfv : ∀ g : Fn ℝ, g.OK f → g.params = upd1 B var x → tooBig g.fval = false := by
    intro g hg hp; rw [hg, hp]; exact hbx
  cases fired with
  | true =>
    simp only [if_true]
    have hOK : ((fn.withParams (upd1 B var x)).fire f).OK f := fire_OK f _
    rw [hfv _ hOK rfl]
    simp only [Bool.false_eq_true, if_false]
    refine ⟨trivial, ?_, rfl, hOK, ⟨_, rfl, hq0, hcon, hprec⟩, rfl, rfl, rfl⟩
    show some (f (values (fn.withParams (upd1 B var x)).params)) = _
    rfl
  | false =>
    simp only [Bool.false_eq_true, if_false]
    have hsame := hnf rfl
    rw [hupd] at hsame
    have hOK : (fn.withParams (upd1 B var x)).OK f := by
      unfold Fn.OK; rw [withParams_params, hsame]; exact hok
    rw [hfv _ hOK rfl]
    simp only [Bool.false_eq_true, if_false]
    refine ⟨trivial, ?_, rfl, hOK, ⟨_, rfl, hq0, hcon, hprec⟩, rfl, rfl, rfl⟩
    show some (fn.withParams (upd1 B var x)).fval = _
    rw [hOK]; rfl

/-- a retry loop on the nominal path: the first try goes through -/
theorem retry_free (f : List ℝ → ℝ) {params B : PList ℝ} (hF : Free f params B) {var : Name} (rp : Bool) (value : ℝ)
    (n : Nat) (fn : Fn ℝ) (p : PList ℝ) (h : ℝ) (fv : Option ℝ) (hri : RI f params B var fn p)
    (hhead : ∀ q0 ∈ p.head?, q0.con = none ∧ q0.prec = 0) (hh : h ≠ 0)
    (hbx : tooBig (f (values (upd1 B var (value + h)))) = false) :
    (retry f rp (n + 1) fn p value h fv).exc = none ∧ (retry f rp (n + 1) fn p value h fv).hf = some h ∧
    (retry f rp (n + 1) fn p value h fv).h = h ∧
    (retry f rp (n + 1) fn p value h fv).fv = some (f (values (upd1 B var (value + h)))) ∧
    (retry f rp (n + 1) fn p value h fv).fn.params = upd1 B var (value + h) ∧
    (retry f rp (n + 1) fn p value h fv).fn.OK f ∧
    (∃ q, (retry f rp (n + 1) fn p value h fv).p = [q] ∧ q.name = var ∧ q.con = none ∧ q.prec = 0) ∧
    (retry f rp (n + 1) fn p value h fv).fn.kind = fn.kind ∧
    (retry f rp (n + 1) fn p value h fv).fn.en1 = fn.en1 ∧ (retry f rp (n + 1) fn p value h fv).fn.en2 = fn.en2 := by
  obtain ⟨a1, a2, a3, a4, a5, a6, a7, a8⟩ := attempt_free f hF hri hhead (value + h) hbx
  unfold retry
  simp only []
  rw [if_pos a1]
  have hz : eqb h zero = false := by
    cases hb : eqb h zero with
    | false => rfl
    | true => exact absurd ((ScalarReal.eqb_iff _ _).mp hb) (by simpa using hh)
  rw [hz]
  simp only [Bool.false_eq_true, if_false]
  rw [a2]
  exact ⟨trivial, trivial, trivial, rfl, a3, a4, a5, a6, a7, a8⟩


theorem find?_dev {B l : PList ℝ} {S : Name → Prop} (h : Dev B l S) (n : Name) (b : Param ℝ) (hb : find? B n = some b) :
    ∃ p, find? l n = some p ∧ SameSkel p b ∧ (¬ S n → p.value = b.value) := by
  unfold Dev at h
  induction h with
  | nil => simp [find?] at hb
  | @cons a c l' B' hac _ ih =>
    by_cases e : c.name = n
    · rw [find?_cons_eq c B' n e] at hb
      injection hb with hb; subst hb
      exact ⟨a, find?_cons_eq a l' n (hac.1.1.trans e), hac.1, fun hn => hac.2 (e ▸ hn)⟩
    · rw [find?_cons_ne c B' n e] at hb
      obtain ⟨p, h1, h2⟩ := ih hb
      exact ⟨p, by rw [find?_cons_ne a l' n (hac.1.1 ▸ e)]; exact h1, h2⟩

theorem subNames_one (l : PList ℝ) (a : Name) (pa : Param ℝ) (ha : find? l a = some pa) :
    subNames l [a] = .ok [pa] := by
  simp [subNames, subNamesGo, ha, has]

theorem subNames_two (l : PList ℝ) (a b : Name) (pa pb : Param ℝ) (ha : find? l a = some pa) (hb : find? l b = some pb)
    (hne : a ≠ b) : subNames l [a, b] = .ok [pa, pb] := by
  have : pa.name ≠ b := by rw [(find?_some ha).2]; exact hne
  simp [subNames, subNamesGo, ha, hb, has, this]

/-- one iteration of the three-point loop on the nominal path -/
theorem step3_free (f : List ℝ → ℝ) {params B : PList ℝ} (hF : Free f params B) {w0 : W ℝ} (lp : Loop ℝ)
    (hLI : LI f params B w0 (fun w => w.f2) lp) (i : Nat) (var : Name) (b : Param ℝ)
    (hhas : has params var = true) (hb : find? B var = some b) (hlast : lp.lastVar ≠ some var) (hh : 0 < lp.w.h)
    (hB : BoundedNear f B lp.w.h) :
    (step3 f params lp i var).2 = none ∧ (step3 f params lp i var).1.lastVar = some var ∧
    (step3 f params lp i var).1.w.der1 = setAt lp.w.der1 i (some (d1Three
        (f (values (upd1 B var (b.value + -(one + Scalar.abs b.value) * lp.w.h))))
        (f (values (upd1 B var (b.value + -(-(one + Scalar.abs b.value) * lp.w.h)))))
        (-(one + Scalar.abs b.value) * lp.w.h) (-(-(one + Scalar.abs b.value) * lp.w.h)))) ∧
    (step3 f params lp i var).1.w.der2 = setAt lp.w.der2 i (some (d2Three
        (f (values (upd1 B var (b.value + -(one + Scalar.abs b.value) * lp.w.h)))) lp.w.f2
        (f (values (upd1 B var (b.value + -(-(one + Scalar.abs b.value) * lp.w.h)))))
        (-(one + Scalar.abs b.value) * lp.w.h) (-(-(one + Scalar.abs b.value) * lp.w.h)))) ∧
    (step3 f params lp i var).1.w.cross = lp.w.cross := by
  have hLI' := hLI
  obtain ⟨hok, hD, hl, hfr, hslot⟩ := hLI
  -- the sub-list
  obtain ⟨qv, hqv⟩ : ∃ qv, find? params var = some qv := by
    cases hf : find? params var with
    | none => exact absurd ((has_iff params var).mp hhas) (find?_none hf)
    | some q => exact ⟨q, rfl⟩
  have hqvfree := hF.pfree qv (find?_some hqv).1
  -- the current value of `var` is the base value
  obtain ⟨pv, hpv1, _, hpv3⟩ := find?_dev hD var b hb
  have hval : lp.w.fn.valueOf var = .ok b.value := by
    unfold Fn.valueOf; rw [hpv1]; simp only []
    rw [hpv3 (fun h => hlast h.symm)]
  have hprep : ∃ p, prepare params lp.w.h lp var = .ok (p, b.value, -(one + Scalar.abs b.value) * lp.w.h) ∧
      p.head? = some qv := by
    unfold prepare
    simp only []
    cases hlv : lp.lastVar with
    | none =>
      simp only []
      rw [subNames_one params var qv hqv, hval]
      simp only []
      refine ⟨[qv], ?_, rfl⟩
      have : ltb (Scalar.abs (-(one + Scalar.abs b.value) * lp.w.h)) qv.prec = false := by
        rw [hqvfree.2, ScalarReal.ltb_false_iff, ScalarReal.abs_eq]; exact abs_nonneg _
      rw [this]; simp
    | some l =>
      simp only []
      obtain ⟨ql, hql⟩ : ∃ ql, find? params l = some ql := by
        cases hf : find? params l with
        | none => exact absurd ((has_iff params l).mp (hl l hlv)) (find?_none hf)
        | some q => exact ⟨q, rfl⟩
      rw [subNames_two params var l qv ql hqv hql (fun e => hlast (by rw [hlv, e])), hval]
      simp only []
      refine ⟨[qv, ql], ?_, rfl⟩
      have : ltb (Scalar.abs (-(one + Scalar.abs b.value) * lp.w.h)) qv.prec = false := by
        rw [hqvfree.2, ScalarReal.ltb_false_iff, ScalarReal.abs_eq]; exact abs_nonneg _
      rw [this]; simp
  obtain ⟨p, hprep, hhead⟩ := hprep
  have hri := prepare_RI f hLI' var lp.w.h p b.value _ hprep
  have hhead' : ∀ q0 ∈ p.head?, q0.con = none ∧ q0.prec = 0 := by
    intro q0 hq0; rw [hhead] at hq0; simp at hq0; subst hq0; exact hqvfree
  have hpos : (0 : ℝ) < (one + Scalar.abs b.value) * lp.w.h := by
    have : (0 : ℝ) < one + Scalar.abs b.value := by
      simp only [ScalarReal.one_eq, ScalarReal.abs_eq]; positivity
    exact mul_pos this hh
  have hh0 : -(one + Scalar.abs b.value) * lp.w.h ≠ 0 := by
    have : -(one + Scalar.abs b.value) * lp.w.h = -((one + Scalar.abs b.value) * lp.w.h) := by ring
    rw [this]; exact neg_ne_zero.mpr (ne_of_gt hpos)
  have hrad := fun s hs => hB.at var b hb s hs
  have hbL : tooBig (f (values (upd1 B var (b.value + -(one + Scalar.abs b.value) * lp.w.h)))) = false := by
    have := hrad (-1) (by simp)
    have e : b.value + -1 * ((one + Scalar.abs b.value) * lp.w.h) = b.value + -(one + Scalar.abs b.value) * lp.w.h := by ring
    rw [e] at this; exact this
  have hbR : tooBig (f (values (upd1 B var (b.value + -(-(one + Scalar.abs b.value) * lp.w.h))))) = false := by
    have := hrad 1 (by simp)
    have e : b.value + 1 * ((one + Scalar.abs b.value) * lp.w.h) = b.value + -(-(one + Scalar.abs b.value) * lp.w.h) := by ring
    rw [e] at this; exact this
  obtain ⟨a1, a2, a3, a4, a5, a6, ⟨q1, hq1, hq1n, hq1c, hq1p⟩, a8, a9, a10⟩ :=
    retry_free f hF true b.value 9 lp.w.fn p _ none hri hhead' hh0 hbL
  have hneg : ltb (-(one + Scalar.abs b.value) * lp.w.h) zero = true := by
    rw [ScalarReal.ltb_iff]
    have : -(one + Scalar.abs b.value) * lp.w.h = -((one + Scalar.abs b.value) * lp.w.h) := by ring
    rw [this]; simp only [ScalarReal.zero_eq]; linarith
  -- second loop
  have hri3 : RI f params B var (retry f true 10 lp.w.fn p b.value (-(one + Scalar.abs b.value) * lp.w.h) none).fn
      (retry f true 10 lp.w.fn p b.value (-(one + Scalar.abs b.value) * lp.w.h) none).p := by
    rw [hq1]
    refine ⟨a6, q1, [], rfl, hq1n, by simp [names], by simp, by simp, ?_⟩
    rw [a5]
    have := dev_updL (B := B) (S := fun _ => False) (S' := fun n => n = var ∨ n ∈ names ([] : PList ℝ))
      [({ name := var, value := b.value + -(one + Scalar.abs b.value) * lp.w.h, prec := 0, con := none } : Param ℝ)]
      (Dev.refl B _) (by
        intro c _ hn
        have : var ≠ c.name := fun e => hn (Or.inl e.symm)
        rw [find?_cons_ne _ _ _ this]; simp [find?])
    have hu : updL [({ name := var, value := b.value + -(one + Scalar.abs b.value) * lp.w.h, prec := 0, con := none } : Param ℝ)] B
        = upd1 B var (b.value + -(one + Scalar.abs b.value) * lp.w.h) := by
      unfold updL upd1
      apply List.map_congr_left
      intro c _
      by_cases e : c.name = var
      · rw [find?_cons_eq _ _ _ e.symm]; simp [e]
      · rw [find?_cons_ne _ _ _ (fun x => e x.symm)]; simp [find?, e]
    rw [hu] at this; exact this
  have hhead3 : ∀ q0 ∈ (retry f true 10 lp.w.fn p b.value (-(one + Scalar.abs b.value) * lp.w.h) none).p.head?,
      q0.con = none ∧ q0.prec = 0 := by
    intro q0 hq0; rw [hq1] at hq0; simp at hq0; subst hq0; exact ⟨hq1c, hq1p⟩
  have hh3 : -(-(one + Scalar.abs b.value) * lp.w.h) ≠ 0 := neg_ne_zero.mpr hh0
  obtain ⟨c1, c2, c3, c4, c5, c6, _, c8, c9, c10⟩ :=
    retry_free f hF false b.value 9 _ _ (-(-(one + Scalar.abs b.value) * lp.w.h)) none hri3 hhead3 hh3 hbR
  -- assemble
  unfold step3
  have hnh : (!has params var) = false := by rw [hhas]; rfl
  rw [hnh]
  simp only [Bool.false_eq_true, if_false, hprep]
  simp only [a1, a2, a3, a4, Option.isSome_none, Bool.false_eq_true, if_false, hneg, if_true, c1, c2, c4]
  exact ⟨trivial, trivial, trivial, trivial, trivial⟩


/-- the stored first / second derivative of variable `var` on the nominal path of the three-point
scheme: central formulas around the base point `B` with step `H = (1 + |x|) * h` -/
noncomputable def three1 (f : List ℝ → ℝ) (B : PList ℝ) (hh : ℝ) (var : Name) : DVal ℝ :=
  match find? B var with
  | some b => some (d1Three
      (f (values (upd1 B var (b.value + -(one + Scalar.abs b.value) * hh))))
      (f (values (upd1 B var (b.value + -(-(one + Scalar.abs b.value) * hh)))))
      (-(one + Scalar.abs b.value) * hh) (-(-(one + Scalar.abs b.value) * hh)))
  | none => none
noncomputable def three2 (f : List ℝ → ℝ) (B : PList ℝ) (hh f2 : ℝ) (var : Name) : DVal ℝ :=
  match find? B var with
  | some b => some (d2Three
      (f (values (upd1 B var (b.value + -(one + Scalar.abs b.value) * hh)))) f2
      (f (values (upd1 B var (b.value + -(-(one + Scalar.abs b.value) * hh)))))
      (-(one + Scalar.abs b.value) * hh) (-(-(one + Scalar.abs b.value) * hh)))
  | none => none

theorem setAt_get_lt {β : Type} (l : List β) (i j : Nat) (v : β) (h : j < i) : (setAt l i v)[j]? = l[j]? := by
  unfold setAt; exact List.getElem?_set_ne (by omega)

theorem setAt_get_self {β : Type} (l : List β) (i : Nat) (v : β) (h : i < l.length) : (setAt l i v)[i]? = some v := by
  unfold setAt; exact List.getElem?_set_self h

/-- the three-point loop on the nominal path -/
theorem loop3_free (f : List ℝ → ℝ) {params B : PList ℝ} (hF : Free f params B) {w0 : W ℝ} (hh : 0 < w0.h)
    (hB : BoundedNear f B w0.h) :
    ∀ (vs : List Name) (i0 : Nat) (lp : Loop ℝ), LI f params B w0 (fun w => w.f2) lp →
      (∀ l, lp.lastVar = some l → l ∉ vs) → vs.Nodup → (∀ v ∈ vs, has params v = true → v ∈ names B) →
      (loopGo (step3 f params) vs i0 lp).2 = none ∧
      LI f params B w0 (fun w => w.f2) (loopGo (step3 f params) vs i0 lp).1 ∧
      (loopGo (step3 f params) vs i0 lp).1.w.der1.length = lp.w.der1.length ∧
      (loopGo (step3 f params) vs i0 lp).1.w.der2.length = lp.w.der2.length ∧
      (loopGo (step3 f params) vs i0 lp).1.w.cross = lp.w.cross ∧
      (∀ j, j < i0 → (loopGo (step3 f params) vs i0 lp).1.w.der1[j]? = lp.w.der1[j]? ∧
                     (loopGo (step3 f params) vs i0 lp).1.w.der2[j]? = lp.w.der2[j]?) ∧
      (∀ k (hk : k < vs.length), has params vs[k] = true →
        (i0 + k < lp.w.der1.length → (loopGo (step3 f params) vs i0 lp).1.w.der1[i0 + k]? = some (three1 f B w0.h vs[k])) ∧
        (i0 + k < lp.w.der2.length → (loopGo (step3 f params) vs i0 lp).1.w.der2[i0 + k]? = some (three2 f B w0.h w0.f2 vs[k]))) := by
  intro vs
  induction vs with
  | nil =>
    intro i0 lp hLI _ _ _
    exact ⟨rfl, hLI, rfl, rfl, rfl, fun j _ => ⟨rfl, rfl⟩, fun k hk => by simp at hk⟩
  | cons v vs ih =>
    intro i0 lp hLI hlast hnd hin
    have hnd' := List.nodup_cons.mp hnd
    unfold loopGo
    by_cases hhas : has params v = true
    · -- v is probed
      obtain ⟨b, hb⟩ : ∃ b, find? B v = some b := by
        cases hf : find? B v with
        | none => exact absurd (hin v (List.mem_cons_self ..) hhas) (find?_none hf)
        | some b => exact ⟨b, rfl⟩
      have hhl : 0 < lp.w.h := by rw [hLI.2.2.2.1.h]; exact hh
      obtain ⟨s1, s2, s3, s4, s5⟩ := step3_free f hF lp hLI i0 v b hhas hb
        (fun e => hlast v e (List.mem_cons_self ..)) hhl (by rw [hLI.2.2.2.1.h]; exact hB)
      have hLI1 := step3_LI f hF.ctx lp hLI i0 v _ rfl s1
      rcases hs : step3 f params lp i0 v with ⟨lp1, e1⟩
      rw [hs] at s1 s2 s3 s4 s5 hLI1
      simp only [] at s1 s2 s3 s4 s5 hLI1
      subst s1
      simp only []
      obtain ⟨r1, r2, r3, r4, r5, r6, r7⟩ := ih (i0 + 1) lp1 hLI1
        (by intro l hl; rw [s2] at hl; injection hl with hl; subst hl; exact hnd'.1)
        hnd'.2 (fun x hx => hin x (List.mem_cons_of_mem _ hx))
      have hl1 : lp1.w.der1.length = lp.w.der1.length := by rw [s3]; simp [setAt]
      have hl2 : lp1.w.der2.length = lp.w.der2.length := by rw [s4]; simp [setAt]
      refine ⟨r1, r2, r3.trans hl1, r4.trans hl2, r5.trans s5, ?_, ?_⟩
      · intro j hj
        obtain ⟨a, b'⟩ := r6 j (by omega)
        rw [a, b', s3, s4]
        exact ⟨setAt_get_lt _ _ _ _ hj, setAt_get_lt _ _ _ _ hj⟩
      · intro k hk hhk
        cases k with
        | zero =>
          simp only [List.getElem_cons_zero, Nat.add_zero]
          obtain ⟨a, b'⟩ := r6 i0 (by omega)
          have hslot : lp.w.f2 = w0.f2 := hLI.2.2.2.2
          have hhw : lp.w.h = w0.h := hLI.2.2.2.1.h
          refine ⟨fun hlen => ?_, fun hlen => ?_⟩
          · rw [a, s3, setAt_get_self _ _ _ hlen]
            simp only [three1, hb, hhw]
          · rw [b', s4, setAt_get_self _ _ _ hlen]
            simp only [three2, hb, hhw, hslot]
        | succ k =>
          simp only [List.getElem_cons_succ]
          have := r7 k (by simpa using hk) (by simpa using hhk)
          have e : i0 + (k + 1) = i0 + 1 + k := by omega
          rw [e, ← hl1, ← hl2]
          exact this
    · -- v is not in the list that was passed: skipped
      have hs : step3 f params lp i0 v = (lp, none) := by
        unfold step3
        have : (!has params v) = true := by simpa using hhas
        rw [this]; simp
      rw [hs]
      simp only []
      obtain ⟨r1, r2, r3, r4, r5, r6, r7⟩ := ih (i0 + 1) lp hLI
        (fun l hl hm => hlast l hl (List.mem_cons_of_mem _ hm)) hnd'.2 (fun x hx => hin x (List.mem_cons_of_mem _ hx))
      refine ⟨r1, r2, r3, r4, r5, fun j hj => r6 j (by omega), ?_⟩
      intro k hk hhk
      cases k with
      | zero => simp only [List.getElem_cons_zero] at hhk; exact absurd hhk hhas
      | succ k =>
        simp only [List.getElem_cons_succ]
        have := r7 k (by simpa using hk) (by simpa using hhk)
        have e : i0 + (k + 1) = i0 + 1 + k := by omega
        rw [e]; exact this


theorem Skel.nocon {l ref : PList ℝ} (h : Skel l ref) (hn : ∀ b ∈ ref, b.con = none) : ∀ p ∈ l, p.con = none := by
  unfold Skel at h
  induction h with
  | nil => intro p hp; cases hp
  | @cons a c l1 l2 hac _ ih =>
    intro p hp
    rcases List.mem_cons.mp hp with rfl | hp'
    · rw [hac.2.2]; exact hn c (List.mem_cons_self ..)
    · exact ih (fun x hx => hn x (List.mem_cons_of_mem _ hx)) p hp'

theorem setValueOf_nocon : ∀ (l : PList ℝ) (n : Name) (v : ℝ) (e : Exc), (∀ p ∈ l, p.con = none) → n ∈ names l →
    setValueOf l n v ≠ .error e := by
  intro l
  induction l with
  | nil => intro n v e _ hm; simp [names] at hm
  | cons a r ih =>
    intro n v e hn hm h
    unfold setValueOf at h
    split at h
    · split at h
      · cases h
      · rename_i e2 he2
        have := (setValue_error a v e2 he2).2
        rw [violates_nocon a (hn a (List.mem_cons_self ..))] at this; cases this
    · rename_i hne
      split at h
      · cases h
      · rename_i e2 he2
        have hne' : a.name ≠ n := by simpa using hne
        have hm' : n ∈ names r := by
          simp only [names, List.map_cons, List.mem_cons] at hm
          rcases hm with hm | hm
          · exact absurd hm.symm hne'
          · exact hm
        exact ih n v e2 (fun x hx => hn x (List.mem_cons_of_mem _ hx)) hm' he2

theorem matchLoop_nocon (pl : PList ℝ) : ∀ (own : PList ℝ) (ch : Bool), (∀ p ∈ own, p.con = none) →
    ∀ e, matchLoop own pl ch ≠ .error e := by
  induction pl with
  | nil => intro own ch _ e h; simp [matchLoop] at h
  | cons q qs ih =>
    intro own ch hn e h
    unfold matchLoop at h
    split at h
    next => exact ih _ _ hn e h
    next p hp =>
      split at h
      · split at h
        next own1 hs1 =>
          exact ih _ _ ((setValueOf_gen' own own1 q.name q.value hs1).1.nocon hn) e h
        next e' hs1 =>
          have hp' := find?_some hp
          exact setValueOf_nocon own q.name q.value e' hn (by rw [← hp'.2]; exact List.mem_map_of_mem hp'.1) hs1
      · exact ih _ _ hn e h

/-- `setParameters` without any constraint on the wrapped function's side never raises -/
theorem setParameters_nocon (f : List ℝ → ℝ) (fn : Fn ℝ) (pl : PList ℝ) (h : ∀ p ∈ fn.params, p.con = none) :
    (fn.setParameters f pl).2 = none := by
  simp only [Fn.setParameters, Fn.matchPV, anyViolation_nocon fn.params pl h]
  simp only [Bool.false_eq_true, if_false]
  cases hm : matchLoop fn.params pl false with
  | ok r => rcases r with ⟨own, ch⟩; cases ch <;> simp
  | error e => exact absurd hm (matchLoop_nocon pl fn.params false h e)

theorem finish_free (f : List ℝ → ℝ) (params : PList ℝ) (lastVar : Option Name) (w : W ℝ)
    (hn : ∀ p ∈ w.fn.params, p.con = none) (hl : ∀ l, lastVar = some l → has params l = true) :
    (finish f params lastVar false w).2 = none ∧ (finish f params lastVar false w).1.der1 = w.der1 ∧
    (finish f params lastVar false w).1.der2 = w.der2 ∧ (finish f params lastVar false w).1.cross = w.cross := by
  unfold finish
  simp only []
  cases lastVar with
  | none => exact ⟨rfl, rfl, rfl, rfl⟩
  | some l =>
    simp only [Bool.false_eq_true, if_false]
    obtain ⟨q, hq⟩ : ∃ q, find? params l = some q := by
      cases hf : find? params l with
      | none => exact absurd ((has_iff params l).mp (hl l rfl)) (find?_none hf)
      | some q => exact ⟨q, rfl⟩
    rw [subNames_one params l q hq]
    simp only []
    refine ⟨setParameters_nocon f _ _ ?_, trivial, trivial, trivial⟩
    simpa using hn


/-- `updateDerivatives` of the three-point scheme on the nominal path (no cross derivatives) -/
theorem update3_free (f : List ℝ → ℝ) (w : W ℝ) (params : PList ℝ) (hown : Own w.fn) (hok : w.fn.OK f)
    (hF : Free f params w.fn.params) (hB : BoundedNear f w.fn.params w.h)
    (hpnd : (names params).Nodup) (hc1 : w.c1 = true) (hcx : w.cx = false)
    (hvars : w.vars.Nodup) (hin : ∀ v ∈ w.vars, has params v = true → v ∈ names w.fn.params) (hh : 0 < w.h)
    (hl1 : w.der1.length = w.vars.length) (hl2 : w.der2.length = w.vars.length) :
    (update3 f w params).2 = none ∧
    ∀ k (hk : k < w.vars.length), has params w.vars[k] = true →
      (update3 f w params).1.der1[k]? = some (three1 f w.fn.params w.h w.vars[k]) ∧
      (update3 f w params).1.der2[k]? = some (three2 f w.fn.params w.h (f (values w.fn.params)) w.vars[k]) := by
  have hc := hF.ctx
  unfold update3
  by_cases hne : w.vars.length > 0
  · have hcond : (w.c1 && decide (w.vars.length > 0)) = true := by simp [hc1, hne]
    rw [if_pos hcond]
    simp only []
    have hown0 : Own ((w.fn.enable1 false).enable2 false) := by unfold Own; simp; exact hown
    have hok0 : ((w.fn.enable1 false).enable2 false).OK f := enable2_OK f _ _ (enable1_OK f _ _ hok)
    have hnc0 : ∀ p ∈ ((w.fn.enable1 false).enable2 false).params, p.con = none := by simpa using hF.nocon
    have h0 := first_set f ((w.fn.enable1 false).enable2 false) hown0 hok0 (by simpa using hc.sync) hpnd
    have hn0 := setParameters_nocon f ((w.fn.enable1 false).enable2 false) params hnc0
    rcases hs1 : ((w.fn.enable1 false).enable2 false).setParameters f params with ⟨fn1, e1⟩
    rw [hs1] at h0 hn0
    simp only [] at hn0
    subst hn0
    obtain ⟨g1, g2, g3, _, _⟩ := h0
    simp only [] at g1 g2 g3
    have hp1 : fn1.params = w.fn.params := by have := g1 trivial; simpa using this
    have hval : fn1.fval = f (values w.fn.params) := by rw [← hp1]; exact g2
    simp only []
    have htb : tooBig fn1.fval = false := by rw [hval]; exact hB.base
    rw [htb]
    simp only [Bool.false_eq_true, if_false]
    have hLI0 : LI f params w.fn.params { w with fn := fn1, f2 := fn1.fval } (fun w => w.f2)
        { w := { w with fn := fn1, f2 := fn1.fval }, p := [], lastVar := none } :=
      ⟨g2, (by rw [hp1]; exact Dev.refl _ _), (fun l h => by cases h), Frame.refl _, rfl⟩
    obtain ⟨r1, r2, r3, r4, r5, _, r7⟩ := loop3_free f hF (w0 := { w with fn := fn1, f2 := fn1.fval }) hh hB w.vars 0 _ hLI0
      (fun l h => by cases h) hvars hin
    rcases hl : loopGo (step3 f params) w.vars 0 { w := { w with fn := fn1, f2 := fn1.fval }, p := [], lastVar := none } with ⟨lp, e⟩
    rw [hl] at r1 r2 r3 r4 r5 r7
    simp only [] at r1 r2 r3 r4 r5 r7
    subst r1
    simp only []
    have hcx' : lp.w.cx = false := by rw [r2.2.2.2.1.cx]; exact hcx
    rw [hcx']
    simp only [Bool.false_eq_true, if_false]
    have hnl : ∀ p ∈ lp.w.fn.params, p.con = none := r2.2.1.nocon hF.nocon
    obtain ⟨q1, q2, q3, _⟩ := finish_free f params lp.lastVar lp.w hnl r2.2.2.1
    refine ⟨q1, ?_⟩
    intro k hk hhk
    obtain ⟨a, b⟩ := r7 k hk hhk
    rw [q2, q3]
    simp only [Nat.zero_add] at a b
    rw [hval] at b
    exact ⟨a (by rw [hl1]; exact hk), b (by rw [hl2]; exact hk)⟩
  · have hcond : (w.c1 && decide (w.vars.length > 0)) = false := by simp [hne]
    rw [hcond]
    simp only [Bool.false_eq_true, if_false]
    have hnc0 : ∀ p ∈ ((w.fn.enable1 w.c1).enable2 w.c2).params, p.con = none := by simpa using hF.nocon
    have hn0 := setParameters_nocon f ((w.fn.enable1 w.c1).enable2 w.c2) params hnc0
    rcases hs1 : ((w.fn.enable1 w.c1).enable2 w.c2).setParameters f params with ⟨fn1, e1⟩
    rw [hs1] at hn0
    simp only [] at hn0
    subst hn0
    simp only []
    exact ⟨trivial, fun k hk => absurd hk (by omega)⟩

end Bpp.NumDeriv
