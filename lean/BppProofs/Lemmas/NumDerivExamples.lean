import BppProofs.Lemmas.NumDerivPaths
/-!
C12 helper lemmas, part 14 (audit round 1): concrete, NON-constant instances for the end-to-end
theorems — a cubic in one variable, `x y + x` in two variables, wrappers at 0 with step 1/16 — and
the proofs that they satisfy the hypotheses (`Own`, `OK`, `Free` / `FreeFn`, the local
`BoundedNear`).  Used by the `example`s of `Props/C12.lean`.
-/
namespace Bpp.NumDeriv
open Bpp Bpp.Scalar

/-- below `VERY_BIG` = 1.7e23 -/
theorem tooBig_false (x : ℝ) (h : |x| < 170000000000000000000000) : tooBig x = false := by
  unfold tooBig
  have h1 : geb (Scalar.abs x) (veryBig : ℝ) = false := by
    cases hb : geb (Scalar.abs x) (veryBig : ℝ) with
    | false => rfl
    | true =>
      rw [ScalarReal.geb_iff] at hb
      simp only [veryBig, ScalarReal.ofRat_eq, ScalarReal.abs_eq] at hb
      norm_num at hb
      linarith
  have h2 : neb x x = false := (neb_false_iff x x).mpr rfl
  rw [h1, h2]; rfl

/-! ### one variable: `f = p ∘ (first coordinate)` for a real function `p`, at `x = 0` -/

/-- `p` of the first coordinate -/
noncomputable def exf (p : ℝ → ℝ) : List ℝ → ℝ := fun l => p (l.headD 0)

def exB : PList ℝ := [⟨0, 0, 0, none⟩]
/-- the list the caller passes, with an optional constraint on the single parameter -/
def exP (con : Option (Interval ℝ)) : PList ℝ := [⟨0, 0, 0, con⟩]

noncomputable def exW (p : ℝ → ℝ) (s : Scheme) : W ℝ :=
  { scheme := s, h := 1 / 16, vars := [0], der1 := [some 0], der2 := [some 0], cross := [[some 0]],
    c1 := true, c2 := true, cx := false, f1 := 0, f2 := 0, f3 := 0,
    fn := { params := exB, fval := p 0, log := [], kind := 0, en1 := false, en2 := false, pt1 := [], pt2 := [] } }

/-- the cubic `1 + x + x² + x³` and the quadratic `1 + x + x²`, in the shape the theorems use -/
def cubic (t : ℝ) : ℝ := 1 + 1 * t + 1 * t ^ 2 + 1 * t ^ 3
def quadr (t : ℝ) : ℝ := 1 + 1 * t + 1 * t ^ 2

theorem ex_values (t : ℝ) : values (upd1 exB 0 t) = [t] := by simp [values, upd1, exB]

theorem ex_poly (p : ℝ → ℝ) (t : ℝ) : exf p (values (upd1 exB 0 t)) = p t := by
  rw [ex_values]; simp [exf]

/-- the instances are not constant in the selected variable -/
theorem ex_nonconstant : exf cubic (values (upd1 exB 0 1)) ≠ exf cubic (values (upd1 exB 0 0)) ∧
    exf quadr (values (upd1 exB 0 1)) ≠ exf quadr (values (upd1 exB 0 0)) := by
  simp only [ex_poly, cubic, quadr]; constructor <;> norm_num

theorem ex_own (p : ℝ → ℝ) (s : Scheme) : Own (exW p s).fn :=
  ⟨by simp [exW, exB, names], by intro q hq; simp [exW, exB] at hq; subst hq; rfl⟩

theorem ex_ok (p : ℝ → ℝ) (s : Scheme) : (exW p s).fn.OK (exf p) := by
  simp [Fn.OK, exW, exB, values, exf]

theorem ex_ctx (con : Option (Interval ℝ)) : Ctx (exP con) exB :=
  ⟨by simp [exB, names], by intro p hp; simp [exB] at hp; subst hp; rfl,
   by intro q hq b hb _; simp [exP] at hq; simp [exB] at hb; subst hq; subst hb; rfl⟩

theorem ex_free (p : ℝ → ℝ) : Free (exf p) (exP none) exB :=
  ⟨ex_ctx none, by intro b hb; simp [exB] at hb; subst hb; rfl,
   by intro q hq; simp [exP] at hq; subst hq; exact ⟨rfl, rfl⟩⟩

theorem ex_freeFn (p : ℝ → ℝ) (con : Option (Interval ℝ)) : FreeFn (exf p) (exP con) exB :=
  ⟨ex_ctx con, by intro b hb; simp [exB] at hb; subst hb; rfl⟩

theorem ex_find (var : Name) (b : Param ℝ) (h : find? exB var = some b) : var = 0 ∧ b = ⟨0, 0, 0, none⟩ := by
  have := find?_some h
  simp [exB] at this
  obtain ⟨h1, h2⟩ := this
  subst h1
  exact ⟨h2.symm, rfl⟩

/-- local boundedness from a bound of `p` on `[-1/16, 1/16]` -/
theorem ex_bounded (p : ℝ → ℝ) (hp : ∀ x, |x| ≤ 1 / 16 → |p x| < 170000000000000000000000) :
    BoundedNear (exf p) exB (1 / 16) := by
  refine ⟨?_, ?_⟩
  · apply tooBig_false
    have := hp 0 (by norm_num)
    simpa [exf, exB, values] using this
  · intro var b hb x hx
    obtain ⟨hv, hbv⟩ := ex_find var b hb
    subst hv; subst hbv
    rw [ex_poly]
    apply tooBig_false
    apply hp
    simp only [sub_zero, abs_zero, add_zero, one_mul] at hx
    rw [abs_of_pos (by norm_num : (0 : ℝ) < 1 / 16)] at hx
    exact hx

theorem cubic_bound (x : ℝ) (hx : |x| ≤ 1 / 16) : |cubic x| < 170000000000000000000000 := by
  have hx' : |x| ≤ 1 := le_trans hx (by norm_num)
  obtain ⟨l, u⟩ := abs_le.mp hx'
  unfold cubic
  rw [abs_lt]
  constructor <;> nlinarith [sq_nonneg x, sq_nonneg (x + 1), sq_nonneg (x - 1)]

theorem quadr_bound (x : ℝ) (hx : |x| ≤ 1 / 16) : |quadr x| < 170000000000000000000000 := by
  have hx' : |x| ≤ 1 := le_trans hx (by norm_num)
  obtain ⟨l, u⟩ := abs_le.mp hx'
  unfold quadr
  rw [abs_lt]
  constructor <;> nlinarith [sq_nonneg x, sq_nonneg (x + 1), sq_nonneg (x - 1)]

theorem hin_ex (p : ℝ → ℝ) (s : Scheme) :
    ∀ v ∈ (exW p s).vars, has (exP none) v = true → v ∈ names (exW p s).fn.params := by
  intro v hv _; simp [exW] at hv; subst hv; simp [exW, exB, names]

/-- a constraint `[lo, hi]` on the caller's side, and the parameter passed with it -/
def cn (lo hi : ℝ) : Option (Interval ℝ) := some ⟨some lo, some hi, true, true⟩
def qc (lo hi : ℝ) : Param ℝ := ⟨0, 0, 0, cn lo hi⟩

/-! ### two variables: `f(x, y) = x y + x` at `(0, 0)` -/

noncomputable def exf2 : List ℝ → ℝ := fun l => l.headD 0 * l.getD 1 0 + l.headD 0

def exB2 : PList ℝ := [⟨0, 0, 0, none⟩, ⟨1, 0, 0, none⟩]

noncomputable def exW2 : W ℝ :=
  { scheme := .three, h := 1 / 16, vars := [0, 1], der1 := [some 0, some 0], der2 := [some 0, some 0],
    cross := [[some 0, some 0], [some 0, some 0]],
    c1 := true, c2 := true, cx := true, f1 := 0, f2 := 0, f3 := 0,
    fn := { params := exB2, fval := 0, log := [], kind := 0, en1 := false, en2 := false, pt1 := [], pt2 := [] } }

theorem ex2_values (s t : ℝ) : values (upd1 (upd1 exB2 0 s) 1 t) = [s, t] := by simp [values, upd1, exB2]

theorem ex2_own : Own exW2.fn :=
  ⟨by simp [exW2, exB2, names], by intro p hp; simp [exW2, exB2] at hp; rcases hp with rfl | rfl <;> rfl⟩

theorem ex2_ok : exW2.fn.OK exf2 := by simp [Fn.OK, exW2, exB2, values, exf2]

theorem ex2_free : Free exf2 exB2 exB2 :=
  ⟨⟨by simp [exB2, names], by intro p hp; simp [exB2] at hp; rcases hp with rfl | rfl <;> rfl,
    by
      intro q hq b hb hn
      simp [exB2] at hq hb
      rcases hq with rfl | rfl <;> rcases hb with rfl | rfl <;> simp at hn ⊢⟩,
   by intro b hb; simp [exB2] at hb; rcases hb with rfl | rfl <;> rfl,
   by intro q hq; simp [exB2] at hq; rcases hq with rfl | rfl <;> exact ⟨rfl, rfl⟩⟩

theorem ex2_bounded : BoundedNear exf2 exB2 (1 / 16) := by
  refine ⟨?_, ?_⟩
  · apply tooBig_false; simp [exf2, exB2, values]
  · intro var b hb x hx
    have hm := find?_some hb
    simp [exB2] at hm
    obtain ⟨hm1, hm2⟩ := hm
    rcases hm1 with rfl | rfl
    · simp only [] at hm2; subst hm2
      apply tooBig_false
      simp only [sub_zero, abs_zero, add_zero, one_mul] at hx
      simp [exf2, exB2, values, upd1]
      exact lt_of_le_of_lt hx (by norm_num)
    · simp only [] at hm2; subst hm2
      apply tooBig_false
      simp [exf2, exB2, values, upd1]

end Bpp.NumDeriv
