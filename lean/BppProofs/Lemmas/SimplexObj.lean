import BppModel.SimplexObj
import BppProofs.Lemmas.Simplex
/-!
Lemmas about the object model `BppModel/SimplexObj.lean` over `ℝ`.
Part A: one object (all members): invariant `OK`, cache freshness `Fresh`, every member function.
Part B: the heap: separation `Sep`, load / store / allocation, frame.
-/
namespace Bpp.SimplexObj
open Bpp Bpp.Simplex

/-! ## Part A — one object -/

/-- everything of the invariant except "probabilities = image of the parameters" and the ordered values -/
structure Shape (o : Obj ℝ) : Prop where
  method : ValidMethod o.method
  dim_pos : 0 < o.dim
  dim_lt : o.dim < 2 ^ 31
  len : o.params.length = o.dim - 1
  inOpen : InOpen o.θ
  /-- `valpha_` has one entry per parameter for the local-ratio coding and is empty otherwise -/
  cache : if o.method = 2 then o.valpha.length = o.dim - 1 else o.valpha = []

/-- the invariant of an object, over all its data members -/
structure OK (o : Obj ℝ) : Prop extends Shape o where
  probs : probsOf o.method o.dim o.θ = some o.vProb
  values : ∀ v, o.vValues = some v → v = orderedValues o.vProb 1

/-- the ratio cache holds the ratios of the current parameters -/
def Fresh (o : Obj ℝ) : Prop := o.method = 2 → o.valpha = alphas o.θ

/-- every parameter carries the strict constraint `]0,1[` -/
def Strict (o : Obj ℝ) : Prop := ∀ p ∈ o.params, p.incl = false

/-- every parameter carries the constraint chosen at construction -/
def Uniform (o : Obj ℝ) : Prop := ∃ a, ∀ p ∈ o.params, p.incl = a

/-- same dimension, coding, class, number of parameters and constraints -/
structure SameShape (o o' : Obj ℝ) : Prop where
  dim : o'.dim = o.dim
  method : o'.method = o.method
  cls : o'.vValues.isSome = o.vValues.isSome
  incl : o'.params.map (·.incl) = o.params.map (·.incl)

theorem SameShape.refl (o : Obj ℝ) : SameShape o o := ⟨rfl, rfl, rfl, rfl⟩
theorem SameShape.trans {a b c : Obj ℝ} (h1 : SameShape a b) (h2 : SameShape b c) : SameShape a c :=
  ⟨h2.dim.trans h1.dim, h2.method.trans h1.method, h2.cls.trans h1.cls, h2.incl.trans h1.incl⟩

theorem SameShape.len {o o' : Obj ℝ} (h : SameShape o o') : o'.params.length = o.params.length := by
  have := congrArg List.length h.incl
  simpa using this

theorem SameShape.strict {o o' : Obj ℝ} (h : SameShape o o') (hs : Strict o) : Strict o' := by
  intro p hp
  have h1 : p.incl ∈ o'.params.map (·.incl) := List.mem_map.mpr ⟨p, hp, rfl⟩
  rw [h.incl] at h1
  obtain ⟨q, hq, e⟩ := List.mem_map.mp h1
  rw [← e]; exact hs q hq

theorem SameShape.uniform {o o' : Obj ℝ} (h : SameShape o o') (hs : Uniform o) : Uniform o' := by
  obtain ⟨a, ha⟩ := hs
  refine ⟨a, ?_⟩
  intro p hp
  have h1 : p.incl ∈ o'.params.map (·.incl) := List.mem_map.mpr ⟨p, hp, rfl⟩
  rw [h.incl] at h1
  obtain ⟨q, hq, e⟩ := List.mem_map.mp h1
  rw [← e]; exact ha q hq

theorem OK.spec {o : Obj ℝ} (h : OK o) :
    o.vProb.sum = 1 ∧ AllPos o.vProb ∧ o.vProb.length = o.dim := by
  obtain ⟨p, e, l, su, po⟩ := probsOf_spec o.method o.dim o.θ h.method h.dim_pos h.dim_lt
    (by simp [Obj.θ, h.len]) h.inOpen
  rw [h.probs] at e; cases e; exact ⟨su, po, l⟩

theorem OK.ordered_spec {o : Obj ℝ} (h : OK o) (v : List ℝ) (hv : o.vValues = some v) :
    NonIncreasing v ∧ v.sum = 1 ∧ (∀ x ∈ v, 0 ≤ x) ∧ v.length = o.dim := by
  obtain ⟨hs, hp, hl⟩ := h.spec
  have hnn : ∀ x ∈ o.vProb, 0 ≤ x := fun x m => le_of_lt (hp x m)
  obtain ⟨h1, h2⟩ := orderedValues_nonincreasing o.vProb 1 hnn
  rw [h.values v hv]
  exact ⟨h1, by rw [orderedValues_sum_eq, hs], h2, by rw [orderedValues_length, hl]⟩

/-! ### fire -/

theorem alphas_length (θ : List ℝ) : (alphas θ).length = θ.length := by simp [alphas]

theorem θ_length (o : Obj ℝ) : o.θ.length = o.params.length := by simp [Obj.θ]

theorem probsOf_two (dim : Nat) (θ : List ℝ) : probsOf 2 dim θ = some (probsLocalFrom dim (alphas θ)) := rfl

theorem refresh_fields (o : Obj ℝ) :
    o.refresh.params = o.params ∧ o.refresh.dim = o.dim ∧ o.refresh.method = o.method ∧
    o.refresh.vProb = o.vProb ∧ o.refresh.valpha = o.valpha ∧
    o.refresh.vValues.isSome = o.vValues.isSome ∧
    (∀ v, o.refresh.vValues = some v → v = orderedValues o.vProb 1) := by
  unfold Obj.refresh
  cases h : o.vValues with
  | none => simp [h]
  | some w => simp

theorem fireBase_fields (o : Obj ℝ) :
    o.fireBase.params = o.params ∧ o.fireBase.dim = o.dim ∧ o.fireBase.method = o.method ∧
    o.fireBase.vValues = o.vValues := by
  unfold Obj.fireBase
  split
  · simp
  · split <;> simp

theorem fireBase_probs (o : Obj ℝ) (hd : o.dim ≠ 0) (hm : ValidMethod o.method) :
    probsOf o.method o.dim o.θ = some o.fireBase.vProb := by
  unfold Obj.fireBase
  rcases hm with hm | hm | hm <;> simp [hd, hm, probsOf, probsLocal, probsLocalFrom]

theorem fireBase_cache (o : Obj ℝ) (hd : o.dim ≠ 0) :
    o.fireBase.valpha = if o.method = 2 then alphas o.θ else o.valpha := by
  unfold Obj.fireBase
  simp only [hd, if_false]
  split <;> simp_all

theorem fire_fields (o : Obj ℝ) :
    o.fire.params = o.params ∧ o.fire.dim = o.dim ∧ o.fire.method = o.method ∧
    o.fire.vProb = o.fireBase.vProb ∧ o.fire.valpha = o.fireBase.valpha ∧
    o.fire.vValues.isSome = o.vValues.isSome ∧
    (∀ v, o.fire.vValues = some v → v = orderedValues o.fire.vProb 1) := by
  obtain ⟨r1, r2, r3, r4, r5, r6, r7⟩ := refresh_fields o.fireBase
  obtain ⟨b1, b2, b3, b4⟩ := fireBase_fields o
  unfold Obj.fire
  refine ⟨r1.trans b1, r2.trans b2, r3.trans b3, r4, r5, by rw [r6, b4], ?_⟩
  intro v hv; rw [r4]; exact r7 v hv

theorem fire_θ (o : Obj ℝ) : o.fire.θ = o.θ := by simp [Obj.θ, (fire_fields o).1]

theorem fire_sameShape (o : Obj ℝ) : SameShape o o.fire := by
  obtain ⟨f1, f2, f3, _, _, f6, _⟩ := fire_fields o
  exact ⟨f2, f3, f6, by rw [f1]⟩

/-- `fireParameterChanged` on an object of the right shape re-establishes the whole invariant and a
fresh cache, whatever `vProb_`, `valpha_` (of the right size) and `vValues_` held before -/
theorem fire_ok (o : Obj ℝ) (h : Shape o) : OK o.fire ∧ Fresh o.fire := by
  have hθ : o.θ.length = o.dim - 1 := by rw [θ_length, h.len]
  have hd : o.dim ≠ 0 := Nat.ne_of_gt h.dim_pos
  obtain ⟨f1, f2, f3, f4, f5, f6, f7⟩ := fire_fields o
  have fθ := fire_θ o
  have hc := fireBase_cache o hd
  refine ⟨⟨⟨?_, ?_, ?_, ?_, ?_, ?_⟩, ?_, f7⟩, ?_⟩
  · rw [f3]; exact h.method
  · rw [f2]; exact h.dim_pos
  · rw [f2]; exact h.dim_lt
  · rw [f1, f2]; exact h.len
  · rw [fθ]; exact h.inOpen
  · rw [f3, f5, f2, hc]
    by_cases hm : o.method = 2
    · simp only [hm, if_true]; rw [alphas_length, hθ]
    · have := h.cache; simp only [hm, if_false] at this ⊢; exact this
  · rw [f3, f2, fθ, f4]; exact fireBase_probs o hd h.method
  · intro hm; rw [f3] at hm; rw [f5, hc, fθ]; simp [hm]

/-! ### the parameter layer -/

/-- every value requested for one of the `n` names from index `i` on lies in the open interval -/
def ReqOpen (req : Nat → Option ℝ) (i n : Nat) : Prop :=
  ∀ j v, i ≤ j → j < i + n → req j = some v → 0 < v ∧ v < 1

theorem ReqOpen.tail {req : Nat → Option ℝ} {i n : Nat} (h : ReqOpen req i (n + 1)) : ReqOpen req (i + 1) n :=
  fun j v h1 h2 e => h j v (by omega) (by omega) e

theorem writeFrom_length (req : Nat → Option ℝ) (i : Nat) (ps : List (Param ℝ)) :
    (writeFrom req i ps).length = ps.length := by
  induction ps generalizing i with
  | nil => rfl
  | cons p ps ih => simp [writeFrom, ih]

theorem writeFrom_incl (req : Nat → Option ℝ) (i : Nat) (ps : List (Param ℝ)) :
    (writeFrom req i ps).map (·.incl) = ps.map (·.incl) := by
  induction ps generalizing i with
  | nil => rfl
  | cons p ps ih =>
    simp only [writeFrom, List.map_cons, ih]
    congr 1
    cases req i with
    | none => rfl
    | some v => simp only; split <;> rfl

theorem writeFrom_inOpen (req : Nat → Option ℝ) (i : Nat) (ps : List (Param ℝ))
    (h : InOpen (ps.map (·.value))) (hr : ReqOpen req i ps.length) :
    InOpen ((writeFrom req i ps).map (·.value)) := by
  induction ps generalizing i with
  | nil => intro x hx; simp [writeFrom] at hx
  | cons p ps ih =>
    have hp : 0 < p.value ∧ p.value < 1 := h p.value (by simp)
    have ht : InOpen (ps.map (·.value)) := fun x hx => h x (by simp only [List.map_cons, List.mem_cons]; exact Or.inr hx)
    intro x hx
    simp only [writeFrom, List.map_cons, List.mem_cons] at hx
    rcases hx with hx | hx
    · cases hq : req i with
      | none => rw [hq] at hx; rw [hx]; exact hp
      | some v =>
        rw [hq] at hx
        have hv := hr i v (le_refl _) (by simp) hq
        simp only at hx
        split at hx
        · rw [hx]; exact hp
        · rw [hx]; exact hv
    · exact ih (i + 1) ht hr.tail x hx

/-- under the strict constraint whatever passes the test lies in the open interval -/
theorem test_strict (req : Nat → Option ℝ) (i : Nat) (ps : List (Param ℝ))
    (ht : testFrom req i ps = true) (hs : ∀ p ∈ ps, p.incl = false) : ReqOpen req i ps.length := by
  induction ps generalizing i with
  | nil => intro j v h1 h2 _; simp at h2; omega
  | cons p ps ih =>
    simp only [testFrom, Bool.and_eq_true] at ht
    intro j v h1 h2 e
    by_cases hj : j = i
    · subst hj
      have h0 := ht.1
      rw [e, hs p (by simp)] at h0
      exact (inConstraint_open v).mp h0
    · exact ih (i + 1) ht.2 (fun q hq => hs q (by simp [hq])) j v (by omega) (by simp at h2; omega) e

/-- a request with admissible values passes the test, whatever the constraints -/
theorem test_of_open (req : Nat → Option ℝ) (i : Nat) (ps : List (Param ℝ))
    (hr : ReqOpen req i ps.length) : testFrom req i ps = true := by
  induction ps generalizing i with
  | nil => rfl
  | cons p ps ih =>
    simp only [testFrom, Bool.and_eq_true]
    refine ⟨?_, ih (i + 1) hr.tail⟩
    cases hq : req i with
    | none => rfl
    | some v => exact inConstraint_of_open p.incl v (hr i v (le_refl _) (by simp) hq)

theorem writeFrom_unchanged (req : Nat → Option ℝ) (i : Nat) (ps : List (Param ℝ))
    (h : changedFrom req i ps = false) : writeFrom req i ps = ps := by
  induction ps generalizing i with
  | nil => rfl
  | cons p ps ih =>
    simp only [changedFrom, Bool.or_eq_false_iff] at h
    simp only [writeFrom, ih (i + 1) h.2]
    congr 1
    cases hq : req i with
    | none => rfl
    | some v =>
      have h1 := h.1
      rw [hq] at h1
      simp only [Bool.not_eq_false'] at h1
      simp [h1]

theorem shape_write (o : Obj ℝ) (h : Shape o) (req : Nat → Option ℝ) (hr : ReqOpen req 1 o.params.length) :
    Shape { o with params := writeFrom req 1 o.params } :=
  ⟨h.method, h.dim_pos, h.dim_lt, by simp only [writeFrom_length]; exact h.len,
    writeFrom_inOpen req 1 o.params h.inOpen hr, h.cache⟩

theorem sameShape_write (o : Obj ℝ) (req : Nat → Option ℝ) :
    SameShape o { o with params := writeFrom req 1 o.params } :=
  ⟨rfl, rfl, rfl, writeFrom_incl req 1 o.params⟩

/-- `matchParametersValues`, general form: the object need only have the right shape; if nothing
changes it is returned as it is -/
theorem matchReq_gen (o : Obj ℝ) (h : Shape o) (req : Nat → Option ℝ)
    (hr : ReqOpen req 1 o.params.length ∨ Strict o) (o' : Obj ℝ) (e : o.matchReq req = .ok o') :
    (o' = o ∧ writeFrom req 1 o.params = o.params) ∨
    (OK o' ∧ Fresh o' ∧ SameShape o o' ∧ o'.params = writeFrom req 1 o.params) := by
  unfold Obj.matchReq at e
  by_cases ht : testFrom req 1 o.params = true
  · have hr' : ReqOpen req 1 o.params.length := by
      rcases hr with hr | hs
      · exact hr
      · exact test_strict req 1 o.params ht hs
    simp only [ht, if_true] at e
    by_cases hc : changedFrom req 1 o.params = true
    · simp only [hc, if_true, Except.ok.injEq] at e
      subst e
      obtain ⟨h1, h2⟩ := fire_ok _ (shape_write o h req hr')
      exact Or.inr ⟨h1, h2, (sameShape_write o req).trans (fire_sameShape _), (fire_fields _).1⟩
    · have hc' := eq_false_of_ne_true hc
      simp only [hc', Bool.false_eq_true, if_false, Except.ok.injEq] at e
      exact Or.inl ⟨e.symm, writeFrom_unchanged req 1 o.params hc'⟩
  · simp [ht] at e

theorem matchReq_ok (o : Obj ℝ) (h : OK o) (req : Nat → Option ℝ)
    (hr : ReqOpen req 1 o.params.length ∨ Strict o) (o' : Obj ℝ) (e : o.matchReq req = .ok o') :
    OK o' ∧ (Fresh o → Fresh o') ∧ SameShape o o' := by
  rcases matchReq_gen o h.toShape req hr o' e with ⟨rfl, _⟩ | ⟨h1, h2, h3, _⟩
  · exact ⟨h, id, SameShape.refl _⟩
  · exact ⟨h1, fun _ => h2, h3⟩

/-- admissible requests are accepted -/
theorem matchReq_accepts (o : Obj ℝ) (req : Nat → Option ℝ) (hr : ReqOpen req 1 o.params.length) :
    ∃ o', o.matchReq req = .ok o' := by
  unfold Obj.matchReq
  rw [test_of_open req 1 o.params hr]
  simp only [if_true]
  split <;> exact ⟨_, rfl⟩

theorem setReq_ok (o : Obj ℝ) (h : Shape o) (req : Nat → Option ℝ)
    (hr : ReqOpen req 1 o.params.length ∨ Strict o) (o' : Obj ℝ) (e : o.setReq req = .ok o') :
    OK o' ∧ Fresh o' ∧ SameShape o o' := by
  unfold Obj.setReq at e
  by_cases ht : testFrom req 1 o.params = true
  · have hr' : ReqOpen req 1 o.params.length := by
      rcases hr with hr | hs
      · exact hr
      · exact test_strict req 1 o.params ht hs
    simp only [ht, if_true, Except.ok.injEq] at e
    subst e
    obtain ⟨h1, h2⟩ := fire_ok _ (shape_write o h req hr')
    exact ⟨h1, h2, (sameShape_write o req).trans (fire_sameShape _)⟩
  · simp [ht] at e

theorem param?_some (o : Obj ℝ) (i : Nat) (p : Param ℝ) (h : o.param? i = some p) :
    1 ≤ i ∧ i - 1 < o.params.length ∧ p ∈ o.params ∧ o.params[i - 1]? = some p := by
  unfold Obj.param? at h
  by_cases hi : i = 0
  · simp [hi] at h
  · simp only [hi, if_false] at h
    obtain ⟨hlt, he⟩ := List.getElem?_eq_some_iff.mp h
    exact ⟨by omega, hlt, he ▸ List.getElem_mem hlt, h⟩

theorem setOne_ok (o : Obj ℝ) (h : Shape o) (i : Nat) (v : ℝ) (hv : (0 < v ∧ v < 1) ∨ Strict o)
    (o' : Obj ℝ) (e : o.setOne i v = .ok o') : OK o' ∧ Fresh o' ∧ SameShape o o' := by
  unfold Obj.setOne at e
  cases hp : o.param? i with
  | none => simp [hp] at e
  | some p =>
    obtain ⟨hi, hlt, hmem, hget⟩ := param?_some o i p hp
    simp only [hp] at e
    by_cases hg : Scalar.gtb (Scalar.abs (v - p.value)) Scalar.zero = true
    · simp only [hg, if_true] at e
      by_cases hc : inConstraint p.incl v = true
      · simp only [hc, if_true, Except.ok.injEq] at e
        subst e
        have hv' : 0 < v ∧ v < 1 := by
          rcases hv with hv | hs
          · exact hv
          · rw [hs p hmem] at hc; exact (inConstraint_open v).mp hc
        have hsh : Shape { o with params := o.params.set (i - 1) { p with value := v } } := by
          refine ⟨h.method, h.dim_pos, h.dim_lt, by simp only [List.length_set]; exact h.len, ?_, h.cache⟩
          intro x hx
          simp only [Obj.θ, List.map_set] at hx
          rcases List.mem_or_eq_of_mem_set hx with hx | rfl
          · exact h.inOpen x hx
          · exact hv'
        obtain ⟨h1, h2⟩ := fire_ok _ hsh
        have hss : SameShape o { o with params := o.params.set (i - 1) { p with value := v } } := by
          refine ⟨rfl, rfl, rfl, ?_⟩
          simp only [List.map_set]
          apply List.ext_getElem? ; intro n
          by_cases hn : n = i - 1
          · subst hn
            have hge : o.params[i - 1] = p := by
              have := List.getElem?_eq_getElem hlt
              rw [hget] at this; exact (Option.some.inj this).symm
            simp [hlt, hge]
          · simp [Ne.symm hn]
        exact ⟨h1, h2, hss.trans (fire_sameShape _)⟩
      · simp [hc] at e
    · have hg' := eq_false_of_ne_true hg
      simp only [hg', Bool.false_eq_true, if_false, Except.ok.injEq] at e
      subst e
      obtain ⟨h1, h2⟩ := fire_ok o h
      exact ⟨h1, h2, fire_sameShape o⟩

/-! ### the frequency setter -/

theorem reqOfList_open (θ : List ℝ) (n : Nat) (h : InOpen θ) : ReqOpen (reqOfList θ) 1 n := by
  intro j v h1 _ e
  unfold reqOfList at e
  have : ¬ j = 0 := by omega
  simp only [this, if_false] at e
  obtain ⟨hlt, he⟩ := List.getElem?_eq_some_iff.mp e
  exact h v (he ▸ List.getElem_mem hlt)

theorem ratios_length (p : List ℝ) : (ratios p).length = p.length - 1 := by
  induction p with
  | nil => rfl
  | cons a r ih =>
    cases r with
    | nil => rfl
    | cons b t => simp only [ratios, List.length_cons] at ih ⊢; omega

/-- writing a full list of values stores exactly that list -/
theorem writeFrom_full (req : Nat → Option ℝ) (i : Nat) (ps : List (Param ℝ)) (θ : List ℝ)
    (hl : θ.length = ps.length) (hreq : ∀ k, k < ps.length → req (i + k) = θ[k]?) :
    (writeFrom req i ps).map (·.value) = θ := by
  induction ps generalizing i θ with
  | nil => cases θ with
    | nil => rfl
    | cons _ _ => simp at hl
  | cons p ps ih =>
    cases θ with
    | nil => simp at hl
    | cons t θ =>
      have h0 : req i = some t := by simpa using hreq 0 (by simp)
      simp only [writeFrom, h0, List.map_cons]
      congr 1
      · split
        · rename_i he; exact (ScalarReal.eqb_iff _ _).mp he
        · rfl
      · apply ih (i + 1) θ (by simpa using hl)
        intro k hk
        have := hreq (k + 1) (by simp; omega)
        simpa [Nat.add_assoc, Nat.add_comm 1 k] using this

theorem writeFrom_reqOfList (ps : List (Param ℝ)) (θ : List ℝ) (hl : θ.length = ps.length) :
    (writeFrom (reqOfList θ) 1 ps).map (·.value) = θ := by
  apply writeFrom_full _ 1 ps θ hl
  intro k _
  simp [reqOfList]

/-- for parameters in the open interval the ratio written by the setter / the vector constructor
is the ratio `fireParameterChanged` computes from the parameter -/
theorem ratios_eq_alphas (p : List ℝ) (h : InOpen (paramsLocal p)) : ratios p = alphas (paramsLocal p) := by
  induction p with
  | nil => rfl
  | cons a r ih =>
    cases r with
    | nil => rfl
    | cons b t =>
      simp only [ratios, paramsLocal, alphas, List.map_cons] at ih ⊢
      have h0 : 0 < a / (a + b) ∧ a / (a + b) < 1 := h _ (by simp [paramsLocal])
      have hab : a + b ≠ 0 := by
        intro hz; rw [hz, div_zero] at h0; exact lt_irrefl _ h0.1
      have ha : a ≠ 0 := by
        intro hz; rw [hz, zero_div] at h0; exact lt_irrefl _ h0.1
      congr 1
      · simp only [ScalarReal.one_eq]; field_simp; ring
      · exact ih (fun x hx => h x (by simp only [paramsLocal, List.mem_cons]; exact Or.inr hx))

/-- the three ways `Simplex::setFrequencies` ends on an object of positive dimension -/
theorem setFrequenciesBase_char (o : Obj ℝ) (probas : List ℝ) (hd : o.dim ≠ 0) :
    o.setFrequenciesBase probas = (o, some .sum) ∨ o.setFrequenciesBase probas = (o, some .ub) ∨
    (o.dim ≤ probas.length ∧
      ((∃ o2, (o.cacheWrite (probas.take o.dim)).matchReq
            (reqOfList (paramsOf o.method (probas.take o.dim))) = .ok o2 ∧
          o.setFrequenciesBase probas = (o2, none)) ∨
       (∃ e, (o.cacheWrite (probas.take o.dim)).matchReq
            (reqOfList (paramsOf o.method (probas.take o.dim))) = .error e ∧
          o.setFrequenciesBase probas = (o.cacheWrite (probas.take o.dim), some e)))) := by
  unfold Obj.setFrequenciesBase
  simp only [hd, if_false]
  by_cases hs : sumOk probas = true
  · simp only [hs, Bool.not_true, Bool.false_eq_true, if_false]
    by_cases hl : probas.length < o.dim
    · simp [hl]
    · simp only [hl, if_false]
      refine Or.inr (Or.inr ⟨by omega, ?_⟩)
      cases hmr : (o.cacheWrite (probas.take o.dim)).matchReq
            (reqOfList (paramsOf o.method (probas.take o.dim))) with
      | ok o2 => exact Or.inl ⟨o2, rfl, rfl⟩
      | error e => exact Or.inr ⟨e, rfl, rfl⟩
  · simp [hs]

theorem cacheWrite_fields (o : Obj ℝ) (p : List ℝ) :
    (o.cacheWrite p).params = o.params ∧ (o.cacheWrite p).dim = o.dim ∧ (o.cacheWrite p).method = o.method ∧
    (o.cacheWrite p).vProb = o.vProb ∧ (o.cacheWrite p).vValues = o.vValues ∧
    (o.cacheWrite p).valpha = if o.method = 2 then ratios p else o.valpha := by
  unfold Obj.cacheWrite
  split <;> simp_all

/-- the object after the cache write of Simplex.cpp:234 still has the right shape -/
theorem shape_cacheWrite (o : Obj ℝ) (h : Shape o) (p : List ℝ) (hl : p.length = o.dim) :
    Shape (o.cacheWrite p) ∧ SameShape o (o.cacheWrite p) := by
  obtain ⟨c1, c2, c3, c4, c5, c6⟩ := cacheWrite_fields o p
  refine ⟨⟨?_, ?_, ?_, ?_, ?_, ?_⟩, ⟨c2, c3, by rw [c5], by rw [c1]⟩⟩
  · rw [c3]; exact h.method
  · rw [c2]; exact h.dim_pos
  · rw [c2]; exact h.dim_lt
  · rw [c1, c2]; exact h.len
  · simp only [Obj.θ, c1]; exact h.inOpen
  · rw [c3, c6, c2]
    by_cases hm : o.method = 2
    · simp only [hm, if_true, ratios_length, hl]
    · have := h.cache; simp only [hm, if_false] at this ⊢; exact this

theorem ok_cacheWrite (o : Obj ℝ) (h : OK o) (p : List ℝ) (hl : p.length = o.dim) :
    OK (o.cacheWrite p) ∧ SameShape o (o.cacheWrite p) := by
  obtain ⟨c1, c2, c3, c4, c5, c6⟩ := cacheWrite_fields o p
  obtain ⟨s1, s2⟩ := shape_cacheWrite o h.toShape p hl
  refine ⟨⟨s1, ?_, ?_⟩, s2⟩
  · simp only [Obj.θ, c1, c2, c3, c4]; exact h.probs
  · rw [c5, c4]; exact h.values

/-- hypothesis on the vector given to `setFrequencies`: inside the property's quantifier, or
arbitrary on an object with the strict constraint -/
def FreqArg (o : Obj ℝ) (p : List ℝ) : Prop := (ValidProbs p ∧ p.length = o.dim) ∨ Strict o

/-- `Simplex::setFrequencies` on an object that satisfies the invariant: it still does afterwards,
accepted or not; accepted, the cache is fresh; rejected, every member but the cache is as before -/
theorem setFrequenciesBase_pres (o : Obj ℝ) (h : OK o) (p : List ℝ) (hp : FreqArg o p) :
    OK (o.setFrequenciesBase p).1 ∧ SameShape o (o.setFrequenciesBase p).1 ∧
    ((o.setFrequenciesBase p).2 = none → Fresh (o.setFrequenciesBase p).1) ∧
    ((o.setFrequenciesBase p).2 ≠ none →
      (o.setFrequenciesBase p).1 = o ∨ (o.setFrequenciesBase p).1 = o.cacheWrite (p.take o.dim)) := by
  have hd : o.dim ≠ 0 := Nat.ne_of_gt h.dim_pos
  rcases setFrequenciesBase_char o p hd with e | e | ⟨hle, ⟨o2, hm, e⟩ | ⟨err, hm, e⟩⟩
  · rw [e]; exact ⟨h, SameShape.refl _, by simp, fun _ => Or.inl rfl⟩
  · rw [e]; exact ⟨h, SameShape.refl _, by simp, fun _ => Or.inl rfl⟩
  · have hlt : (p.take o.dim).length = o.dim := by simp [hle]
    obtain ⟨c1, c2⟩ := ok_cacheWrite o h (p.take o.dim) hlt
    obtain ⟨f1, f2, f3, f4, f5, f6⟩ := cacheWrite_fields o (p.take o.dim)
    have hreq : ReqOpen (reqOfList (paramsOf o.method (p.take o.dim))) 1
          (o.cacheWrite (p.take o.dim)).params.length ∨ Strict (o.cacheWrite (p.take o.dim)) := by
      rcases hp with ⟨hv, hl⟩ | hs
      · left
        have : p.take o.dim = p := by rw [← hl]; exact List.take_length
        rw [this]
        exact reqOfList_open _ _ (paramsOf_inOpen o.method p h.method hv.pos hv.sum hv.len)
      · exact Or.inr (c2.strict hs)
    rw [e]
    rcases matchReq_gen _ c1.toShape _ hreq o2 hm with ⟨rfl, hw⟩ | ⟨h1, h2, h3, _⟩
    · refine ⟨c1, c2, fun _ => ?_, fun hne => absurd rfl hne⟩
      -- nothing changed: the parameters ARE those of the vector, and the cache holds its ratios
      intro hm2
      rw [f3] at hm2
      have hlen : (paramsOf o.method (p.take o.dim)).length = o.params.length := by
        rw [paramsOf_length _ _ h.method, hlt, h.len]
      have hθ : o.θ = paramsOf o.method (p.take o.dim) := by
        have := writeFrom_reqOfList o.params _ hlen
        rw [f1] at hw
        rw [hw] at this
        exact this
      have hin := h.inOpen
      rw [hθ, hm2] at hin
      simp only [paramsOf] at hin
      simp only [Obj.θ, f1, f6, hm2, if_true]
      simp only [Obj.θ, hm2, paramsOf] at hθ
      rw [hθ]
      exact ratios_eq_alphas _ hin
    · exact ⟨h1, c2.trans h3, fun _ => h2, fun hne => absurd rfl hne⟩
  · rw [e]
    have hlt : (p.take o.dim).length = o.dim := by simp [hle]
    obtain ⟨c1, c2⟩ := ok_cacheWrite o h (p.take o.dim) hlt
    exact ⟨c1, c2, by simp, fun _ => Or.inr rfl⟩

/-- a vector inside the property's quantifier is accepted and returned unchanged by the getter;
general form (also used inside the constructors, where the object is not yet consistent): the
object need only have the right shape, and hold the vector already if its parameters are those of
the vector -/
theorem setFrequenciesBase_roundtrip_gen (o : Obj ℝ) (h : Shape o) (p : List ℝ) (hv : ValidProbs p)
    (hl : p.length = o.dim) (hsame : o.θ = paramsOf o.method p → o.vProb = p) :
    (o.setFrequenciesBase p).2 = none ∧
    ((∀ v, o.vValues = some v → v = orderedValues o.vProb 1) → OK (o.setFrequenciesBase p).1) ∧
    (Shape (o.setFrequenciesBase p).1 ∧
      probsOf (o.setFrequenciesBase p).1.method (o.setFrequenciesBase p).1.dim (o.setFrequenciesBase p).1.θ =
        some (o.setFrequenciesBase p).1.vProb) ∧
    Fresh (o.setFrequenciesBase p).1 ∧
    (o.setFrequenciesBase p).1.vProb = p ∧ (o.setFrequenciesBase p).1.θ = paramsOf o.method p ∧
    SameShape o (o.setFrequenciesBase p).1 := by
  have hd : o.dim ≠ 0 := Nat.ne_of_gt h.dim_pos
  have htake : p.take o.dim = p := by rw [← hl]; exact List.take_length
  have hin := paramsOf_inOpen o.method p h.method hv.pos hv.sum hv.len
  have hrt := roundtrip_all o.method p h.method hv.pos hv.ne hv.sum hv.len
  have hlen : (paramsOf o.method p).length = o.params.length := by
    rw [paramsOf_length _ _ h.method, hl, h.len]
  obtain ⟨c1, c2⟩ := shape_cacheWrite o h p hl
  obtain ⟨f1, f2, f3, f4, f5, f6⟩ := cacheWrite_fields o p
  have hopen : ReqOpen (reqOfList (paramsOf o.method p)) 1 (o.cacheWrite p).params.length :=
    reqOfList_open _ _ hin
  rcases setFrequenciesBase_char o p hd with e | e | ⟨_, ⟨o2, hm, e⟩ | ⟨err, hm, e⟩⟩
  · exfalso
    have : sumOk p = true := sumOk_of p hv.sum
    unfold Obj.setFrequenciesBase at e
    simp [hd, this, hl] at e
    split at e
    · simp at e
    · rename_i heq
      rw [htake] at heq
      obtain ⟨o', e'⟩ := matchReq_accepts _ _ hopen
      rw [e'] at heq; cases heq
  · exfalso
    have : sumOk p = true := sumOk_of p hv.sum
    unfold Obj.setFrequenciesBase at e
    simp [hd, this, hl] at e
    split at e
    · simp at e
    · rename_i heq
      rw [htake] at heq
      obtain ⟨o', e'⟩ := matchReq_accepts _ _ hopen
      rw [e'] at heq; cases heq
  · rw [htake] at hm
    rw [e]
    rcases matchReq_gen _ c1 _ (Or.inl hopen) o2 hm with ⟨rfl, hw⟩ | ⟨h1, h2, h3, h4⟩
    · have hθ : o.θ = paramsOf o.method p := by
        have := writeFrom_reqOfList o.params _ hlen
        rw [f1] at hw; rw [hw] at this; exact this
      have hpr : o.vProb = p := hsame hθ
      have hθ' : (o.cacheWrite p).θ = paramsOf o.method p := by simp only [Obj.θ, f1]; exact hθ
      have hprobs : probsOf (o.cacheWrite p).method (o.cacheWrite p).dim (o.cacheWrite p).θ =
          some (o.cacheWrite p).vProb := by
        rw [hθ', f2, f3, f4, hpr, ← hl]; exact hrt
      refine ⟨rfl, fun hval => ⟨c1, hprobs, by rw [f5, f4]; exact hval⟩, ⟨c1, hprobs⟩, ?_,
        by rw [f4]; exact hpr, hθ', c2⟩
      · intro hm2
        rw [f3] at hm2
        rw [hθ', f6]
        simp only [hm2, if_true, paramsOf]
        rw [hm2] at hin
        exact ratios_eq_alphas _ hin
    · have hθ2 : o2.θ = paramsOf o.method p := by
        simp only [Obj.θ, h4, f1]; exact writeFrom_reqOfList o.params _ hlen
      refine ⟨rfl, fun _ => h1, ⟨h1.toShape, h1.probs⟩, h2, ?_, hθ2, c2.trans h3⟩
      have := h1.probs
      rw [hθ2, (c2.trans h3).dim, (c2.trans h3).method, ← hl, hrt] at this
      exact (Option.some.inj this).symm
  · exfalso
    rw [htake] at hm
    obtain ⟨o', e'⟩ := matchReq_accepts _ _ hopen
    rw [e'] at hm; cases hm

theorem setFrequenciesBase_roundtrip (o : Obj ℝ) (h : OK o) (p : List ℝ) (hv : ValidProbs p)
    (hl : p.length = o.dim) :
    (o.setFrequenciesBase p).2 = none ∧ (o.setFrequenciesBase p).1.vProb = p ∧
    (o.setFrequenciesBase p).1.θ = paramsOf o.method p := by
  have hrt := roundtrip_all o.method p h.method hv.pos hv.ne hv.sum hv.len
  obtain ⟨r1, _, _, _, r4, r5, _⟩ := setFrequenciesBase_roundtrip_gen o h.toShape p hv hl (by
    intro hθ
    have := h.probs
    rw [hθ, ← hl, hrt] at this
    exact (Option.some.inj this).symm)
  exact ⟨r1, r4, r5⟩

/-! ### the ordered setter -/

/-- every member but the ratio cache -/
structure EqButCache (a b : Obj ℝ) : Prop where
  params : a.params = b.params
  dim : a.dim = b.dim
  method : a.method = b.method
  vProb : a.vProb = b.vProb
  vValues : a.vValues = b.vValues

theorem EqButCache.refl (a : Obj ℝ) : EqButCache a a := ⟨rfl, rfl, rfl, rfl, rfl⟩

theorem eqButCache_cacheWrite (o : Obj ℝ) (p : List ℝ) : EqButCache (o.cacheWrite p) o := by
  obtain ⟨c1, c2, c3, c4, c5, _⟩ := cacheWrite_fields o p
  exact ⟨c1, c2, c3, c4, c5⟩

/-- a rejected `Simplex::setFrequencies` leaves every member as it was, except the ratio cache -/
theorem setFrequenciesBase_rejected (o : Obj ℝ) (p : List ℝ) (hr : (o.setFrequenciesBase p).2 ≠ none) :
    EqButCache (o.setFrequenciesBase p).1 o := by
  by_cases hd : o.dim = 0
  · unfold Obj.setFrequenciesBase at hr; simp [hd] at hr
  · rcases setFrequenciesBase_char o p hd with e | e | ⟨_, ⟨o2, _, e⟩ | ⟨err, _, e⟩⟩
    · rw [e]; exact EqButCache.refl _
    · rw [e]; exact EqButCache.refl _
    · rw [e] at hr; exact absurd rfl hr
    · rw [e]; exact eqButCache_cacheWrite o _

/-- hypothesis on the vector given to `setFrequencies` of the object's class -/
def SetFreqArg (o : Obj ℝ) (p : List ℝ) : Prop :=
  match o.vValues with
  | none => FreqArg o p
  | some _ => ValidOrdered p ∧ p.length = o.dim

theorem setFrequencies_pres (o : Obj ℝ) (h : OK o) (p : List ℝ) (hp : SetFreqArg o p) :
    OK (o.setFrequencies p).1 ∧ SameShape o (o.setFrequencies p).1 ∧
    ((o.setFrequencies p).2 = none → Fresh (o.setFrequencies p).1) ∧
    ((o.setFrequencies p).2 ≠ none → EqButCache (o.setFrequencies p).1 o) := by
  unfold Obj.setFrequencies
  unfold SetFreqArg at hp
  cases hv : o.vValues with
  | none =>
    rw [hv] at hp
    simp only
    obtain ⟨h1, h2, h3, _⟩ := setFrequenciesBase_pres o h p hp
    exact ⟨h1, h2, h3, setFrequenciesBase_rejected o p⟩
  | some w =>
    rw [hv] at hp
    simp only
    obtain ⟨hvo, hl⟩ := hp
    have hvp := validOrdered_probs hvo
    have hlp : (orderedToProbs p 1).length = o.dim := by rw [orderedToProbs_length, hl]
    obtain ⟨r1, _, ⟨r2, r2p⟩, r3, r4, _, r6⟩ := setFrequenciesBase_roundtrip_gen o h.toShape _ hvp hlp (by
      intro hθ
      have := h.probs
      rw [hθ, ← hlp, roundtrip_all o.method _ h.method hvp.pos hvp.ne hvp.sum hvp.len] at this
      exact (Option.some.inj this).symm)
    have hne : ¬ p.length = 0 := by have := h.dim_pos; omega
    have hne2 : ¬ p.length ≠ o.dim := by omega
    unfold Obj.oSetFrequencies
    simp only [hne, hne2, if_false]
    cases hb : o.setFrequenciesBase (orderedToProbs p 1) with
    | mk o' err =>
      rw [hb] at r1 r2 r2p r3 r4 r6
      simp only at r1 r2 r2p r3 r4 r6
      subst r1
      simp only
      refine ⟨⟨⟨r2.method, r2.dim_pos, r2.dim_lt, r2.len, r2.inOpen, r2.cache⟩, r2p, ?_⟩,
        ⟨r6.dim, r6.method, ?_, r6.incl⟩, fun _ => r3, fun hne => absurd rfl hne⟩
      · intro v hv'
        simp only [Option.some.injEq] at hv'
        rw [← hv', r4, orderedValues_toProbs p 1 (le_refl _)]
      · simp [hv]

/-! ### constructors -/

theorem newParams_ok (a : Bool) (l : List ℝ) (h : InOpen l) :
    newParams a l = .ok (l.map fun v => ⟨v, a⟩) := by
  unfold newParams
  induction l with
  | nil => rfl
  | cons v r ih =>
    rw [List.mapM_cons]
    simp only [inConstraint_of_open a v (h v (by simp)), if_true]
    rw [ih (fun x m => h x (by simp [m]))]
    rfl

theorem map_mk_value (a : Bool) (l : List ℝ) : (l.map fun v => (⟨v, a⟩ : Param ℝ)).map (·.value) = l := by
  simp [List.map_map, Function.comp_def]

theorem map_mk_incl (a : Bool) (l : List ℝ) : ∀ q ∈ (l.map fun v => (⟨v, a⟩ : Param ℝ)), q.incl = a := by
  intro q hq
  obtain ⟨v, _, rfl⟩ := List.mem_map.mp hq
  rfl

/-- what a successful constructor establishes -/
structure Built (o : Obj ℝ) (dim m : Nat) (a : Bool) : Prop where
  ok : OK o
  fresh : Fresh o
  dim : o.dim = dim
  method : o.method = m
  incl : ∀ q ∈ o.params, q.incl = a

theorem construct_ok (p : List ℝ) (m : Nat) (a : Bool) (hm : ValidMethod m) (hp : ValidProbs p) :
    ∃ o, construct p m a = .ok o ∧ Built o p.length m a ∧ o.vProb = p ∧ o.vValues = none ∧
      o.θ = paramsOf m p := by
  have hl : p.length ≠ 0 := by have := hp.ne; cases p <;> simp_all
  have ho := paramsOf_inOpen m p hm hp.pos hp.sum hp.len
  unfold construct
  simp only [hl, if_false, sumOk_of p hp.sum, Bool.not_true, Bool.false_eq_true, newParams_ok a _ ho]
  refine ⟨_, rfl, ⟨⟨⟨hm, Nat.pos_of_ne_zero hl, hp.len, ?_, ?_, ?_⟩, ?_, ?_⟩, ?_, rfl, rfl, map_mk_incl a _⟩,
    rfl, rfl, map_mk_value a _⟩
  · simp [paramsOf_length m p hm]
  · simp only [Obj.θ, map_mk_value]; exact ho
  · by_cases h2 : m = 2
    · simp [h2, ratios_length]
    · simp [h2]
  · simp only [Obj.θ, map_mk_value]
    exact roundtrip_all m p hm hp.pos hp.ne hp.sum hp.len
  · intro v hv; cases hv
  · intro h2
    simp only at h2
    subst h2
    simp only [Obj.θ, map_mk_value, if_true, paramsOf]
    exact ratios_eq_alphas p ho

theorem half_inOpen (n : Nat) : InOpen (List.replicate n (Scalar.ofRat 1 2 : ℝ)) := by
  intro x hx; simp only [List.mem_replicate] at hx; rw [hx.2]; simp; norm_num

theorem constructDim_ok (dim m : Nat) (a : Bool) (hm : ValidMethod m) (hd : 0 < dim) (h31 : dim < 2 ^ 31) :
    ∃ o, constructDim dim m a = .ok o ∧ Built o dim m a ∧ o.vProb = uniform dim ∧ o.vValues = none := by
  have hu := uniform_valid dim hd h31
  have hlen : (uniform dim).length = dim := by simp [uniform]
  have hne : (dim : ℝ) ≠ 0 := by positivity
  have hd0 : dim ≠ 0 := Nat.ne_of_gt hd
  rcases hm with rfl | rfl | rfl
  · have ho := paramsGlobal_inOpen (uniform dim) 1 hu.pos hu.sum
    unfold constructDim
    simp only [hd0, if_false, ScalarReal.one_eq, ScalarReal.ofInt_eq, uniform_eq, newParams_ok a _ ho]
    refine ⟨_, rfl, ⟨⟨⟨Or.inl rfl, hd, h31, ?_, ?_, ?_⟩, ?_, ?_⟩, ?_, rfl, rfl, map_mk_incl a _⟩, rfl, rfl⟩
    · simp [paramsGlobal_length, hlen]
    · simp only [Obj.θ, map_mk_value]; exact ho
    · simp
    · simp only [Obj.θ, map_mk_value]
      have := roundtrip_all 1 (uniform dim) (Or.inl rfl) hu.pos hu.ne hu.sum hu.len
      rw [hlen, paramsOf_one] at this
      exact this
    · intro v hv; cases hv
    · intro h2; cases h2
  · have hp : paramsLocal (uniform dim) = List.replicate (dim - 1) (1 / 2) :=
      paramsLocal_replicate dim _ (by positivity)
    have ho := half_inOpen (dim - 1)
    unfold constructDim
    simp only [hd0, if_false, ScalarReal.one_eq, ScalarReal.ofInt_eq, uniform_eq, newParams_ok a _ ho]
    refine ⟨_, rfl, ⟨⟨⟨Or.inr (Or.inl rfl), hd, h31, ?_, ?_, ?_⟩, ?_, ?_⟩, ?_, rfl, rfl, map_mk_incl a _⟩, rfl, rfl⟩
    · simp
    · simp only [Obj.θ, map_mk_value]; exact ho
    · simp
    · simp only [Obj.θ, map_mk_value]
      have := roundtrip_all 2 (uniform dim) (Or.inr (Or.inl rfl)) hu.pos hu.ne hu.sum hu.len
      rw [hlen] at this
      simp only [paramsOf] at this
      rw [hp] at this
      simpa using this
    · intro v hv; cases hv
    · intro _
      simp only [Obj.θ, alphas, List.map_replicate]
      congr 1
      simp; norm_num
  · have ho := half_inOpen (dim - 1)
    unfold constructDim
    simp only [hd0, if_false, ScalarReal.one_eq, ScalarReal.ofInt_eq, uniform_eq, newParams_ok a _ ho]
    have hsh : Shape (⟨(List.replicate (dim - 1) (Scalar.ofRat 1 2 : ℝ)).map (fun v => ⟨v, a⟩), dim, 3,
        uniform dim, [], none⟩ : Obj ℝ) := by
      refine ⟨Or.inr (Or.inr rfl), hd, h31, by simp, ?_, by simp⟩
      simp only [Obj.θ, map_mk_value]; exact ho
    obtain ⟨r1, r2', _, r3, r4, _, r6⟩ := setFrequenciesBase_roundtrip_gen _ hsh
      (uniform dim) hu hlen (fun _ => rfl)
    have r2 := r2' (by intro v hv; cases hv)
    simp only [bind, Except.bind]
    cases hb : Obj.setFrequenciesBase (⟨(List.replicate (dim - 1) (Scalar.ofRat 1 2 : ℝ)).map (fun v => ⟨v, a⟩),
        dim, 3, uniform dim, [], none⟩ : Obj ℝ) (uniform dim) with
    | mk o' err =>
      rw [hb] at r1 r2 r3 r4 r6
      simp only at r1 r2 r3 r4 r6
      subst r1
      refine ⟨o', rfl, ⟨r2, r3, r6.dim, r6.method, ?_⟩, r4, ?_⟩
      · intro q hq
        have h1 : q.incl ∈ o'.params.map (·.incl) := List.mem_map.mpr ⟨q, hq, rfl⟩
        rw [r6.incl] at h1
        obtain ⟨q', hq', e⟩ := List.mem_map.mp h1
        rw [← e]; exact map_mk_incl a _ q' hq'
      · have := r6.cls
        simp only [Option.isSome_none] at this
        cases hv : o'.vValues with
        | none => rfl
        | some w => rw [hv] at this; cases this

/-- `OrderedSimplex::setFrequencies` with a vector inside the property's quantifier, on an object
whose `vValues_` may hold anything (as inside the constructor) -/
theorem oSetFrequencies_core (o : Obj ℝ) (hs : Shape o)
    (hpr : probsOf o.method o.dim o.θ = some o.vProb) (v : List ℝ) (hvo : ValidOrdered v)
    (hl : v.length = o.dim) :
    (o.oSetFrequencies v).2 = none ∧ OK (o.oSetFrequencies v).1 ∧ Fresh (o.oSetFrequencies v).1 ∧
    (o.oSetFrequencies v).1.vValues = some v ∧ (o.oSetFrequencies v).1.dim = o.dim ∧
    (o.oSetFrequencies v).1.method = o.method ∧
    (o.oSetFrequencies v).1.params.map (·.incl) = o.params.map (·.incl) ∧
    (o.oSetFrequencies v).1.vProb = orderedToProbs v 1 := by
  have hvp := validOrdered_probs hvo
  have hlp : (orderedToProbs v 1).length = o.dim := by rw [orderedToProbs_length, hl]
  obtain ⟨r1, _, ⟨r2, r2p⟩, r3, r4, _, r6⟩ := setFrequenciesBase_roundtrip_gen o hs _ hvp hlp (by
    intro hθ
    have := hpr
    rw [hθ, ← hlp, roundtrip_all o.method _ hs.method hvp.pos hvp.ne hvp.sum hvp.len] at this
    exact (Option.some.inj this).symm)
  have hne : ¬ v.length = 0 := by have := hs.dim_pos; omega
  have hne2 : ¬ v.length ≠ o.dim := by omega
  unfold Obj.oSetFrequencies
  simp only [hne, hne2, if_false]
  cases hb : o.setFrequenciesBase (orderedToProbs v 1) with
  | mk o' err =>
    rw [hb] at r1 r2 r2p r3 r4 r6
    simp only at r1 r2 r2p r3 r4 r6
    subst r1
    simp only
    refine ⟨trivial, ⟨⟨r2.method, r2.dim_pos, r2.dim_lt, r2.len, r2.inOpen, r2.cache⟩, r2p, ?_⟩, r3, trivial,
      r6.dim, r6.method, r6.incl, r4⟩
    intro w hw
    simp only [Option.some.injEq] at hw
    rw [← hw, r4, orderedValues_toProbs v 1 (le_refl _)]

theorem oConstructDim_ok (dim m : Nat) (a : Bool) (hm : ValidMethod m) (hd : 0 < dim) (h31 : dim < 2 ^ 31) :
    ∃ o, oConstructDim dim m a = .ok o ∧ Built o dim m a ∧ o.vValues = some (orderedValues (uniform dim) 1) := by
  obtain ⟨b, e, hb, hp, _⟩ := constructDim_ok dim m a hm hd h31
  unfold oConstructDim
  simp only [e, bind, Except.bind]
  refine ⟨_, rfl, ⟨⟨⟨hb.ok.method, hb.ok.dim_pos, hb.ok.dim_lt, hb.ok.len, hb.ok.inOpen, hb.ok.cache⟩,
    hb.ok.probs, ?_⟩, hb.fresh, hb.dim, hb.method, hb.incl⟩, by rw [hp]⟩
  intro v hv
  simp only [Option.some.injEq] at hv
  exact hv.symm

theorem oConstruct_ok (v : List ℝ) (m : Nat) (a : Bool) (hm : ValidMethod m) (hv : ValidOrdered v) :
    ∃ o, oConstruct v m a = .ok o ∧ Built o v.length m a ∧ o.vValues = some v := by
  have hpos : 0 < v.length := List.length_pos_of_ne_nil hv.ne
  obtain ⟨b, e, hb, _, _⟩ := constructDim_ok v.length m a hm hpos hv.len
  have hsh : Shape { b with vValues := some v } :=
    ⟨hb.ok.method, hb.ok.dim_pos, hb.ok.dim_lt, hb.ok.len, hb.ok.inOpen, hb.ok.cache⟩
  obtain ⟨c1, c2, c3, c4, c5, c6, c7, _⟩ := oSetFrequencies_core { b with vValues := some v } hsh hb.ok.probs v hv
    hb.dim.symm
  unfold oConstruct
  simp only [e, bind, Except.bind]
  cases hr : Obj.oSetFrequencies { b with vValues := some v } v with
  | mk o' err =>
    rw [hr] at c1 c2 c3 c4 c5 c6 c7
    simp only at c1 c2 c3 c4 c5 c6 c7
    subst c1
    refine ⟨o', rfl, ⟨c2, c3, c5.trans hb.dim, c6.trans hb.method, ?_⟩, c4⟩
    intro q hq
    have h1 : q.incl ∈ o'.params.map (·.incl) := List.mem_map.mpr ⟨q, hq, rfl⟩
    rw [c7] at h1
    obtain ⟨q', hq', e'⟩ := List.mem_map.mp h1
    rw [← e']; exact hb.incl q' hq'

/-! ### copy operations -/

theorem cloneParams_eq (ps : List (Param ℝ)) : cloneParams ps = ps := by
  unfold cloneParams
  induction ps with
  | nil => rfl
  | cons p r ih => simp only [List.map_cons, ih]; rfl

/-- copy construction within the class / `clone()`: every member of the copy equals the source's -/
theorem copyCtor_eq (src : Obj ℝ) : src.copyCtor = src := by
  cases src
  simp [Obj.copyCtor, Obj.copySimplexPart, cloneParams_eq]

/-- `operator=` of the common class: every member of the target equals the source's, whatever the
target held -/
theorem assign_eq (tgt src : Obj ℝ) : tgt.assign src = src := by
  cases src
  simp [Obj.assign, Obj.assignSimplexPart, cloneParams_eq]

theorem copySimplexPart_eq (src : Obj ℝ) : src.copySimplexPart = { src with vValues := none } := by
  cases src
  simp [Obj.copySimplexPart, cloneParams_eq]

theorem assignSimplexPart_eq (tgt src : Obj ℝ) :
    tgt.assignSimplexPart src = { src with vValues := tgt.vValues } := by
  cases src
  simp [Obj.assignSimplexPart, cloneParams_eq]

/-- forgetting the ordered values of an object leaves a plain simplex satisfying the invariant -/
theorem ok_slice (src : Obj ℝ) (h : OK src) : OK { src with vValues := none } :=
  ⟨⟨h.method, h.dim_pos, h.dim_lt, h.len, h.inOpen, h.cache⟩, h.probs, by intro v hv; cases hv⟩

end Bpp.SimplexObj
