import BppModel.SimplexObj
import BppProofs.Lemmas.Simplex
/-!
Lemmas about the object model `BppModel/SimplexObj.lean` over `ℝ`.
Part A: one object (all members): invariant `OK`, cache freshness `Fresh`, every member function.
Part B: the heap: separation `Sep`, load / store / allocation, frame.
-/
namespace Bpp.SimplexObj
open Bpp Bpp.Simplex

/-! ## Part A — one object -/

/-- everything of the invariant except "probabilities = image of the parameters" and the ordered values -/
structure Shape (o : Obj ℝ) : Prop where
  method : ValidMethod o.method
  dim_pos : 0 < o.dim
  dim_lt : o.dim < 2 ^ 31
  len : o.params.length = o.dim - 1
  inOpen : InOpen o.θ
  /-- `valpha_` has one entry per parameter for the local-ratio coding and is empty otherwise -/
  cache : if o.method = 2 then o.valpha.length = o.dim - 1 else o.valpha = []

/-- the invariant of an object, over all its data members -/
structure OK (o : Obj ℝ) : Prop extends Shape o where
  probs : probsOf o.method o.dim o.θ = some o.vProb
  values : ∀ v, o.vValues = some v → v = orderedValues o.vProb 1

/-- the ratio cache holds the ratios of the current parameters -/
def Fresh (o : Obj ℝ) : Prop := o.method = 2 → o.valpha = alphas o.θ

/-- every parameter carries the strict constraint `]0,1[` -/
def Strict (o : Obj ℝ) : Prop := ∀ p ∈ o.params, p.incl = false

/-- every parameter carries the constraint chosen at construction -/
def Uniform (o : Obj ℝ) : Prop := ∃ a, ∀ p ∈ o.params, p.incl = a

/-- same dimension, coding, class, number of parameters and constraints -/
structure SameShape (o o' : Obj ℝ) : Prop where
  dim : o'.dim = o.dim
  method : o'.method = o.method
  cls : o'.vValues.isSome = o.vValues.isSome
  incl : o'.params.map (·.incl) = o.params.map (·.incl)

theorem SameShape.refl (o : Obj ℝ) : SameShape o o := ⟨rfl, rfl, rfl, rfl⟩
theorem SameShape.trans {a b c : Obj ℝ} (h1 : SameShape a b) (h2 : SameShape b c) : SameShape a c :=
  ⟨h2.dim.trans h1.dim, h2.method.trans h1.method, h2.cls.trans h1.cls, h2.incl.trans h1.incl⟩

theorem SameShape.len {o o' : Obj ℝ} (h : SameShape o o') : o'.params.length = o.params.length := by
  have := congrArg List.length h.incl
  simpa using this

theorem SameShape.strict {o o' : Obj ℝ} (h : SameShape o o') (hs : Strict o) : Strict o' := by
  intro p hp
  have h1 : p.incl ∈ o'.params.map (·.incl) := List.mem_map.mpr ⟨p, hp, rfl⟩
  rw [h.incl] at h1
  obtain ⟨q, hq, e⟩ := List.mem_map.mp h1
  rw [← e]; exact hs q hq

theorem SameShape.uniform {o o' : Obj ℝ} (h : SameShape o o') (hs : Uniform o) : Uniform o' := by
  obtain ⟨a, ha⟩ := hs
  refine ⟨a, ?_⟩
  intro p hp
  have h1 : p.incl ∈ o'.params.map (·.incl) := List.mem_map.mpr ⟨p, hp, rfl⟩
  rw [h.incl] at h1
  obtain ⟨q, hq, e⟩ := List.mem_map.mp h1
  rw [← e]; exact ha q hq

theorem OK.spec {o : Obj ℝ} (h : OK o) :
    o.vProb.sum = 1 ∧ AllPos o.vProb ∧ o.vProb.length = o.dim := by
  obtain ⟨p, e, l, su, po⟩ := probsOf_spec o.method o.dim o.θ h.method h.dim_pos h.dim_lt
    (by simp [Obj.θ, h.len]) h.inOpen
  rw [h.probs] at e; cases e; exact ⟨su, po, l⟩

theorem OK.ordered_spec {o : Obj ℝ} (h : OK o) (v : List ℝ) (hv : o.vValues = some v) :
    NonIncreasing v ∧ v.sum = 1 ∧ (∀ x ∈ v, 0 ≤ x) ∧ v.length = o.dim := by
  obtain ⟨hs, hp, hl⟩ := h.spec
  have hnn : ∀ x ∈ o.vProb, 0 ≤ x := fun x m => le_of_lt (hp x m)
  obtain ⟨h1, h2⟩ := orderedValues_nonincreasing o.vProb 1 hnn
  rw [h.values v hv]
  exact ⟨h1, by rw [orderedValues_sum_eq, hs], h2, by rw [orderedValues_length, hl]⟩

/-! ### fire -/

theorem alphas_length (θ : List ℝ) : (alphas θ).length = θ.length := by simp [alphas]

theorem θ_length (o : Obj ℝ) : o.θ.length = o.params.length := by simp [Obj.θ]

theorem probsOf_two (dim : Nat) (θ : List ℝ) : probsOf 2 dim θ = some (probsLocalFrom dim (alphas θ)) := rfl

theorem refresh_fields (o : Obj ℝ) :
    o.refresh.params = o.params ∧ o.refresh.dim = o.dim ∧ o.refresh.method = o.method ∧
    o.refresh.vProb = o.vProb ∧ o.refresh.valpha = o.valpha ∧
    o.refresh.vValues.isSome = o.vValues.isSome ∧
    (∀ v, o.refresh.vValues = some v → v = orderedValues o.vProb 1) := by
  unfold Obj.refresh
  cases h : o.vValues with
  | none => simp [h]
  | some w => simp

theorem fireBase_fields (o : Obj ℝ) :
    o.fireBase.params = o.params ∧ o.fireBase.dim = o.dim ∧ o.fireBase.method = o.method ∧
    o.fireBase.vValues = o.vValues := by
  unfold Obj.fireBase
  split
  · simp
  · split <;> simp

theorem fireBase_probs (o : Obj ℝ) (hd : o.dim ≠ 0) (hm : ValidMethod o.method) :
    probsOf o.method o.dim o.θ = some o.fireBase.vProb := by
  unfold Obj.fireBase
  rcases hm with hm | hm | hm <;> simp [hd, hm, probsOf, probsLocal, probsLocalFrom]

theorem fireBase_cache (o : Obj ℝ) (hd : o.dim ≠ 0) :
    o.fireBase.valpha = if o.method = 2 then alphas o.θ else o.valpha := by
  unfold Obj.fireBase
  simp only [hd, if_false]
  split <;> simp_all

theorem fire_fields (o : Obj ℝ) :
    o.fire.params = o.params ∧ o.fire.dim = o.dim ∧ o.fire.method = o.method ∧
    o.fire.vProb = o.fireBase.vProb ∧ o.fire.valpha = o.fireBase.valpha ∧
    o.fire.vValues.isSome = o.vValues.isSome ∧
    (∀ v, o.fire.vValues = some v → v = orderedValues o.fire.vProb 1) := by
  obtain ⟨r1, r2, r3, r4, r5, r6, r7⟩ := refresh_fields o.fireBase
  obtain ⟨b1, b2, b3, b4⟩ := fireBase_fields o
  unfold Obj.fire
  refine ⟨r1.trans b1, r2.trans b2, r3.trans b3, r4, r5, by rw [r6, b4], ?_⟩
  intro v hv; rw [r4]; exact r7 v hv

theorem fire_θ (o : Obj ℝ) : o.fire.θ = o.θ := by simp [Obj.θ, (fire_fields o).1]

theorem fire_sameShape (o : Obj ℝ) : SameShape o o.fire := by
  obtain ⟨f1, f2, f3, _, _, f6, _⟩ := fire_fields o
  exact ⟨f2, f3, f6, by rw [f1]⟩

/-- `fireParameterChanged` on an object of the right shape re-establishes the whole invariant and a
fresh cache, whatever `vProb_`, `valpha_` (of the right size) and `vValues_` held before -/
theorem fire_ok (o : Obj ℝ) (h : Shape o) : OK o.fire ∧ Fresh o.fire := by
  have hθ : o.θ.length = o.dim - 1 := by rw [θ_length, h.len]
  have hd : o.dim ≠ 0 := Nat.ne_of_gt h.dim_pos
  obtain ⟨f1, f2, f3, f4, f5, f6, f7⟩ := fire_fields o
  have fθ := fire_θ o
  have hc := fireBase_cache o hd
  refine ⟨⟨⟨?_, ?_, ?_, ?_, ?_, ?_⟩, ?_, f7⟩, ?_⟩
  · rw [f3]; exact h.method
  · rw [f2]; exact h.dim_pos
  · rw [f2]; exact h.dim_lt
  · rw [f1, f2]; exact h.len
  · rw [fθ]; exact h.inOpen
  · rw [f3, f5, f2, hc]
    by_cases hm : o.method = 2
    · simp only [hm, if_true]; rw [alphas_length, hθ]
    · have := h.cache; simp only [hm, if_false] at this ⊢; exact this
  · rw [f3, f2, fθ, f4]; exact fireBase_probs o hd h.method
  · intro hm; rw [f3] at hm; rw [f5, hc, fθ]; simp [hm]

/-! ### the parameter layer -/

/-- every value requested for one of the `n` names from index `i` on lies in the open interval -/
def ReqOpen (req : Nat → Option ℝ) (i n : Nat) : Prop :=
  ∀ j v, i ≤ j → j < i + n → req j = some v → 0 < v ∧ v < 1

theorem ReqOpen.tail {req : Nat → Option ℝ} {i n : Nat} (h : ReqOpen req i (n + 1)) : ReqOpen req (i + 1) n :=
  fun j v h1 h2 e => h j v (by omega) (by omega) e

theorem writeFrom_length (req : Nat → Option ℝ) (i : Nat) (ps : List (Param ℝ)) :
    (writeFrom req i ps).length = ps.length := by
  induction ps generalizing i with
  | nil => rfl
  | cons p ps ih => simp [writeFrom, ih]

theorem writeFrom_incl (req : Nat → Option ℝ) (i : Nat) (ps : List (Param ℝ)) :
    (writeFrom req i ps).map (·.incl) = ps.map (·.incl) := by
  induction ps generalizing i with
  | nil => rfl
  | cons p ps ih =>
    simp only [writeFrom, List.map_cons, ih]
    congr 1
    cases req i with
    | none => rfl
    | some v => simp only; split <;> rfl

theorem writeFrom_inOpen (req : Nat → Option ℝ) (i : Nat) (ps : List (Param ℝ))
    (h : InOpen (ps.map (·.value))) (hr : ReqOpen req i ps.length) :
    InOpen ((writeFrom req i ps).map (·.value)) := by
  induction ps generalizing i with
  | nil => intro x hx; simp [writeFrom] at hx
  | cons p ps ih =>
    have hp : 0 < p.value ∧ p.value < 1 := h p.value (by simp)
    have ht : InOpen (ps.map (·.value)) := fun x hx => h x (by simp only [List.map_cons, List.mem_cons]; exact Or.inr hx)
    intro x hx
    simp only [writeFrom, List.map_cons, List.mem_cons] at hx
    rcases hx with hx | hx
    · cases hq : req i with
      | none => rw [hq] at hx; rw [hx]; exact hp
      | some v =>
        rw [hq] at hx
        have hv := hr i v (le_refl _) (by simp) hq
        simp only at hx
        split at hx
        · rw [hx]; exact hp
        · rw [hx]; exact hv
    · exact ih (i + 1) ht hr.tail x hx

/-- under the strict constraint whatever passes the test lies in the open interval -/
theorem test_strict (req : Nat → Option ℝ) (i : Nat) (ps : List (Param ℝ))
    (ht : testFrom req i ps = true) (hs : ∀ p ∈ ps, p.incl = false) : ReqOpen req i ps.length := by
  induction ps generalizing i with
  | nil => intro j v h1 h2 _; simp at h2; omega
  | cons p ps ih =>
    simp only [testFrom, Bool.and_eq_true] at ht
    intro j v h1 h2 e
    by_cases hj : j = i
    · subst hj
      have h0 := ht.1
      rw [e, hs p (by simp)] at h0
      exact (inConstraint_open v).mp h0
    · exact ih (i + 1) ht.2 (fun q hq => hs q (by simp [hq])) j v (by omega) (by simp at h2; omega) e

/-- a request with admissible values passes the test, whatever the constraints -/
theorem test_of_open (req : Nat → Option ℝ) (i : Nat) (ps : List (Param ℝ))
    (hr : ReqOpen req i ps.length) : testFrom req i ps = true := by
  induction ps generalizing i with
  | nil => rfl
  | cons p ps ih =>
    simp only [testFrom, Bool.and_eq_true]
    refine ⟨?_, ih (i + 1) hr.tail⟩
    cases hq : req i with
    | none => rfl
    | some v => exact inConstraint_of_open p.incl v (hr i v (le_refl _) (by simp) hq)

theorem writeFrom_unchanged (req : Nat → Option ℝ) (i : Nat) (ps : List (Param ℝ))
    (h : changedFrom req i ps = false) : writeFrom req i ps = ps := by
  induction ps generalizing i with
  | nil => rfl
  | cons p ps ih =>
    simp only [changedFrom, Bool.or_eq_false_iff] at h
    simp only [writeFrom, ih (i + 1) h.2]
    congr 1
    cases hq : req i with
    | none => rfl
    | some v =>
      have h1 := h.1
      rw [hq] at h1
      simp only [Bool.not_eq_false'] at h1
      simp [h1]

theorem shape_write (o : Obj ℝ) (h : Shape o) (req : Nat → Option ℝ) (hr : ReqOpen req 1 o.params.length) :
    Shape { o with params := writeFrom req 1 o.params } :=
  ⟨h.method, h.dim_pos, h.dim_lt, by simp only [writeFrom_length]; exact h.len,
    writeFrom_inOpen req 1 o.params h.inOpen hr, h.cache⟩

theorem sameShape_write (o : Obj ℝ) (req : Nat → Option ℝ) :
    SameShape o { o with params := writeFrom req 1 o.params } :=
  ⟨rfl, rfl, rfl, writeFrom_incl req 1 o.params⟩

/-- `matchParametersValues`, general form: the object need only have the right shape; if nothing
changes it is returned as it is -/
theorem matchReq_gen (o : Obj ℝ) (h : Shape o) (req : Nat → Option ℝ)
    (hr : ReqOpen req 1 o.params.length ∨ Strict o) (o' : Obj ℝ) (e : o.matchReq req = .ok o') :
    (o' = o ∧ writeFrom req 1 o.params = o.params) ∨
    (OK o' ∧ Fresh o' ∧ SameShape o o' ∧ o'.params = writeFrom req 1 o.params) := by
  unfold Obj.matchReq at e
  by_cases ht : testFrom req 1 o.params = true
  · have hr' : ReqOpen req 1 o.params.length := by
      rcases hr with hr | hs
      · exact hr
      · exact test_strict req 1 o.params ht hs
    simp only [ht, if_true] at e
    by_cases hc : changedFrom req 1 o.params = true
    · simp only [hc, if_true, Except.ok.injEq] at e
      subst e
      obtain ⟨h1, h2⟩ := fire_ok _ (shape_write o h req hr')
      exact Or.inr ⟨h1, h2, (sameShape_write o req).trans (fire_sameShape _), (fire_fields _).1⟩
    · have hc' := eq_false_of_ne_true hc
      simp only [hc', Bool.false_eq_true, if_false, Except.ok.injEq] at e
      exact Or.inl ⟨e.symm, writeFrom_unchanged req 1 o.params hc'⟩
  · simp [ht] at e

theorem matchReq_ok (o : Obj ℝ) (h : OK o) (req : Nat → Option ℝ)
    (hr : ReqOpen req 1 o.params.length ∨ Strict o) (o' : Obj ℝ) (e : o.matchReq req = .ok o') :
    OK o' ∧ (Fresh o → Fresh o') ∧ SameShape o o' := by
  rcases matchReq_gen o h.toShape req hr o' e with ⟨rfl, _⟩ | ⟨h1, h2, h3, _⟩
  · exact ⟨h, id, SameShape.refl _⟩
  · exact ⟨h1, fun _ => h2, h3⟩

/-- admissible requests are accepted -/
theorem matchReq_accepts (o : Obj ℝ) (req : Nat → Option ℝ) (hr : ReqOpen req 1 o.params.length) :
    ∃ o', o.matchReq req = .ok o' := by
  unfold Obj.matchReq
  rw [test_of_open req 1 o.params hr]
  simp only [if_true]
  split <;> exact ⟨_, rfl⟩

theorem setReq_ok (o : Obj ℝ) (h : Shape o) (req : Nat → Option ℝ)
    (hr : ReqOpen req 1 o.params.length ∨ Strict o) (o' : Obj ℝ) (e : o.setReq req = .ok o') :
    OK o' ∧ Fresh o' ∧ SameShape o o' := by
  unfold Obj.setReq at e
  by_cases ht : testFrom req 1 o.params = true
  · have hr' : ReqOpen req 1 o.params.length := by
      rcases hr with hr | hs
      · exact hr
      · exact test_strict req 1 o.params ht hs
    simp only [ht, if_true, Except.ok.injEq] at e
    subst e
    obtain ⟨h1, h2⟩ := fire_ok _ (shape_write o h req hr')
    exact ⟨h1, h2, (sameShape_write o req).trans (fire_sameShape _)⟩
  · simp [ht] at e

theorem param?_some (o : Obj ℝ) (i : Nat) (p : Param ℝ) (h : o.param? i = some p) :
    1 ≤ i ∧ i - 1 < o.params.length ∧ p ∈ o.params ∧ o.params[i - 1]? = some p := by
  unfold Obj.param? at h
  by_cases hi : i = 0
  · simp [hi] at h
  · simp only [hi, if_false] at h
    obtain ⟨hlt, he⟩ := List.getElem?_eq_some_iff.mp h
    exact ⟨by omega, hlt, he ▸ List.getElem_mem hlt, h⟩

theorem setOne_ok (o : Obj ℝ) (h : Shape o) (i : Nat) (v : ℝ) (hv : (0 < v ∧ v < 1) ∨ Strict o)
    (o' : Obj ℝ) (e : o.setOne i v = .ok o') : OK o' ∧ Fresh o' ∧ SameShape o o' := by
  unfold Obj.setOne at e
  cases hp : o.param? i with
  | none => simp [hp] at e
  | some p =>
    obtain ⟨hi, hlt, hmem, hget⟩ := param?_some o i p hp
    simp only [hp] at e
    by_cases hg : Scalar.gtb (Scalar.abs (v - p.value)) Scalar.zero = true
    · simp only [hg, if_true] at e
      by_cases hc : inConstraint p.incl v = true
      · simp only [hc, if_true, Except.ok.injEq] at e
        subst e
        have hv' : 0 < v ∧ v < 1 := by
          rcases hv with hv | hs
          · exact hv
          · rw [hs p hmem] at hc; exact (inConstraint_open v).mp hc
        have hsh : Shape { o with params := o.params.set (i - 1) { p with value := v } } := by
          refine ⟨h.method, h.dim_pos, h.dim_lt, by simp only [List.length_set]; exact h.len, ?_, h.cache⟩
          intro x hx
          simp only [Obj.θ, List.map_set] at hx
          rcases List.mem_or_eq_of_mem_set hx with hx | rfl
          · exact h.inOpen x hx
          · exact hv'
        obtain ⟨h1, h2⟩ := fire_ok _ hsh
        have hss : SameShape o { o with params := o.params.set (i - 1) { p with value := v } } := by
          refine ⟨rfl, rfl, rfl, ?_⟩
          simp only [List.map_set]
          apply List.ext_getElem? ; intro n
          by_cases hn : n = i - 1
          · subst hn
            have hge : o.params[i - 1] = p := by
              have := List.getElem?_eq_getElem hlt
              rw [hget] at this; exact (Option.some.inj this).symm
            simp [hlt, hge]
          · simp [Ne.symm hn]
        exact ⟨h1, h2, hss.trans (fire_sameShape _)⟩
      · simp [hc] at e
    · have hg' := eq_false_of_ne_true hg
      simp only [hg', Bool.false_eq_true, if_false, Except.ok.injEq] at e
      subst e
      obtain ⟨h1, h2⟩ := fire_ok o h
      exact ⟨h1, h2, fire_sameShape o⟩

/-! ### the frequency setter -/

theorem reqOfList_open (θ : List ℝ) (n : Nat) (h : InOpen θ) : ReqOpen (reqOfList θ) 1 n := by
  intro j v h1 _ e
  unfold reqOfList at e
  have : ¬ j = 0 := by omega
  simp only [this, if_false] at e
  obtain ⟨hlt, he⟩ := List.getElem?_eq_some_iff.mp e
  exact h v (he ▸ List.getElem_mem hlt)

theorem ratios_length (p : List ℝ) : (ratios p).length = p.length - 1 := by
  induction p with
  | nil => rfl
  | cons a r ih =>
    cases r with
    | nil => rfl
    | cons b t => simp only [ratios, List.length_cons] at ih ⊢; omega

/-- writing a full list of values stores exactly that list -/
theorem writeFrom_full (req : Nat → Option ℝ) (i : Nat) (ps : List (Param ℝ)) (θ : List ℝ)
    (hl : θ.length = ps.length) (hreq : ∀ k, k < ps.length → req (i + k) = θ[k]?) :
    (writeFrom req i ps).map (·.value) = θ := by
  induction ps generalizing i θ with
  | nil => cases θ with
    | nil => rfl
    | cons _ _ => simp at hl
  | cons p ps ih =>
    cases θ with
    | nil => simp at hl
    | cons t θ =>
      have h0 : req i = some t := by simpa using hreq 0 (by simp)
      simp only [writeFrom, h0, List.map_cons]
      congr 1
      · split
        · rename_i he; exact (ScalarReal.eqb_iff _ _).mp he
        · rfl
      · apply ih (i + 1) θ (by simpa using hl)
        intro k hk
        have := hreq (k + 1) (by simp; omega)
        simpa [Nat.add_assoc, Nat.add_comm 1 k] using this

theorem writeFrom_reqOfList (ps : List (Param ℝ)) (θ : List ℝ) (hl : θ.length = ps.length) :
    (writeFrom (reqOfList θ) 1 ps).map (·.value) = θ := by
  apply writeFrom_full _ 1 ps θ hl
  intro k _
  simp [reqOfList]

/-- for parameters in the open interval the ratio written by the setter / the vector constructor
is the ratio `fireParameterChanged` computes from the parameter -/
theorem ratios_eq_alphas (p : List ℝ) (h : InOpen (paramsLocal p)) : ratios p = alphas (paramsLocal p) := by
  induction p with
  | nil => rfl
  | cons a r ih =>
    cases r with
    | nil => rfl
    | cons b t =>
      simp only [ratios, paramsLocal, alphas, List.map_cons] at ih ⊢
      have h0 : 0 < a / (a + b) ∧ a / (a + b) < 1 := h _ (by simp [paramsLocal])
      have hab : a + b ≠ 0 := by
        intro hz; rw [hz, div_zero] at h0; exact lt_irrefl _ h0.1
      have ha : a ≠ 0 := by
        intro hz; rw [hz, zero_div] at h0; exact lt_irrefl _ h0.1
      congr 1
      · simp only [ScalarReal.one_eq]; field_simp; ring
      · exact ih (fun x hx => h x (by simp only [paramsLocal, List.mem_cons]; exact Or.inr hx))

/-- the three ways `Simplex::setFrequencies` ends on an object of positive dimension -/
theorem setFrequenciesBase_char (o : Obj ℝ) (probas : List ℝ) (hd : o.dim ≠ 0) :
    o.setFrequenciesBase probas = (o, some .sum) ∨ o.setFrequenciesBase probas = (o, some .sum) ∨
    (o.dim ≤ probas.length ∧
      ((∃ o2, (o.cacheWrite (probas.take o.dim)).matchReq
            (reqOfList (paramsOf o.method (probas.take o.dim))) = .ok o2 ∧
          o.setFrequenciesBase probas = (o2, none)) ∨
       (∃ e, (o.cacheWrite (probas.take o.dim)).matchReq
            (reqOfList (paramsOf o.method (probas.take o.dim))) = .error e ∧
          o.setFrequenciesBase probas = (o.cacheWrite (probas.take o.dim), some e)))) := by
  unfold Obj.setFrequenciesBase
  simp only [hd, if_false]
  by_cases hs : sumOk probas = true
  · simp only [hs, Bool.not_true, Bool.false_eq_true, if_false]
    by_cases hl : probas.length ≠ o.dim
    · simp [hl]
    · simp only [hl, if_false]
      refine Or.inr (Or.inr ⟨by omega, ?_⟩)
      cases hmr : (o.cacheWrite (probas.take o.dim)).matchReq
            (reqOfList (paramsOf o.method (probas.take o.dim))) with
      | ok o2 => exact Or.inl ⟨o2, rfl, rfl⟩
      | error e => exact Or.inr ⟨e, rfl, rfl⟩
  · simp [hs]

theorem cacheWrite_fields (o : Obj ℝ) (p : List ℝ) :
    (o.cacheWrite p).params = o.params ∧ (o.cacheWrite p).dim = o.dim ∧ (o.cacheWrite p).method = o.method ∧
    (o.cacheWrite p).vProb = o.vProb ∧ (o.cacheWrite p).vValues = o.vValues ∧
    (o.cacheWrite p).valpha = if o.method = 2 then ratios p else o.valpha := by
  unfold Obj.cacheWrite
  split <;> simp_all

/-- the object after the cache write of Simplex.cpp:234 still has the right shape -/
theorem shape_cacheWrite (o : Obj ℝ) (h : Shape o) (p : List ℝ) (hl : p.length = o.dim) :
    Shape (o.cacheWrite p) ∧ SameShape o (o.cacheWrite p) := by
  obtain ⟨c1, c2, c3, c4, c5, c6⟩ := cacheWrite_fields o p
  refine ⟨⟨?_, ?_, ?_, ?_, ?_, ?_⟩, ⟨c2, c3, by rw [c5], by rw [c1]⟩⟩
  · rw [c3]; exact h.method
  · rw [c2]; exact h.dim_pos
  · rw [c2]; exact h.dim_lt
  · rw [c1, c2]; exact h.len
  · simp only [Obj.θ, c1]; exact h.inOpen
  · rw [c3, c6, c2]
    by_cases hm : o.method = 2
    · simp only [hm, if_true, ratios_length, hl]
    · have := h.cache; simp only [hm, if_false] at this ⊢; exact this

theorem ok_cacheWrite (o : Obj ℝ) (h : OK o) (p : List ℝ) (hl : p.length = o.dim) :
    OK (o.cacheWrite p) ∧ SameShape o (o.cacheWrite p) := by
  obtain ⟨c1, c2, c3, c4, c5, c6⟩ := cacheWrite_fields o p
  obtain ⟨s1, s2⟩ := shape_cacheWrite o h.toShape p hl
  refine ⟨⟨s1, ?_, ?_⟩, s2⟩
  · simp only [Obj.θ, c1, c2, c3, c4]; exact h.probs
  · rw [c5, c4]; exact h.values

/-- hypothesis on the vector given to `setFrequencies`: inside the property's quantifier, or — on an
object with the strict constraint — any vector of at least `dim` entries (a shorter one is read out
of bounds by the C++: undefined behaviour, which the model only labels `Err.ub`) -/
def FreqArg (o : Obj ℝ) (p : List ℝ) : Prop :=
  (ValidProbs p ∧ p.length = o.dim) ∨ (Strict o ∧ o.dim ≤ p.length)

/-- `Simplex::setFrequencies` on an object that satisfies the invariant: it still does afterwards,
accepted or not; accepted, the cache is fresh; rejected, every member but the cache is as before -/
theorem setFrequenciesBase_pres (o : Obj ℝ) (h : OK o) (p : List ℝ) (hp : FreqArg o p) :
    OK (o.setFrequenciesBase p).1 ∧ SameShape o (o.setFrequenciesBase p).1 ∧
    ((o.setFrequenciesBase p).2 = none → Fresh (o.setFrequenciesBase p).1) ∧
    ((o.setFrequenciesBase p).2 ≠ none →
      (o.setFrequenciesBase p).1 = o ∨ (o.setFrequenciesBase p).1 = o.cacheWrite (p.take o.dim)) := by
  have hd : o.dim ≠ 0 := Nat.ne_of_gt h.dim_pos
  rcases setFrequenciesBase_char o p hd with e | e | ⟨hle, ⟨o2, hm, e⟩ | ⟨err, hm, e⟩⟩
  · rw [e]; exact ⟨h, SameShape.refl _, by simp, fun _ => Or.inl rfl⟩
  · rw [e]; exact ⟨h, SameShape.refl _, by simp, fun _ => Or.inl rfl⟩
  · have hlt : (p.take o.dim).length = o.dim := by simp [hle]
    obtain ⟨c1, c2⟩ := ok_cacheWrite o h (p.take o.dim) hlt
    obtain ⟨f1, f2, f3, f4, f5, f6⟩ := cacheWrite_fields o (p.take o.dim)
    have hreq : ReqOpen (reqOfList (paramsOf o.method (p.take o.dim))) 1
          (o.cacheWrite (p.take o.dim)).params.length ∨ Strict (o.cacheWrite (p.take o.dim)) := by
      rcases hp with ⟨hv, hl⟩ | ⟨hs, _⟩
      · left
        have : p.take o.dim = p := by rw [← hl]; exact List.take_length
        rw [this]
        exact reqOfList_open _ _ (paramsOf_inOpen o.method p h.method hv.pos hv.sum hv.len)
      · exact Or.inr (c2.strict hs)
    rw [e]
    rcases matchReq_gen _ c1.toShape _ hreq o2 hm with ⟨rfl, hw⟩ | ⟨h1, h2, h3, _⟩
    · refine ⟨c1, c2, fun _ => ?_, fun hne => absurd rfl hne⟩
      -- nothing changed: the parameters ARE those of the vector, and the cache holds its ratios
      intro hm2
      rw [f3] at hm2
      have hlen : (paramsOf o.method (p.take o.dim)).length = o.params.length := by
        rw [paramsOf_length _ _ h.method, hlt, h.len]
      have hθ : o.θ = paramsOf o.method (p.take o.dim) := by
        have := writeFrom_reqOfList o.params _ hlen
        rw [f1] at hw
        rw [hw] at this
        exact this
      have hin := h.inOpen
      rw [hθ, hm2] at hin
      simp only [paramsOf] at hin
      simp only [Obj.θ, f1, f6, hm2, if_true]
      simp only [Obj.θ, hm2, paramsOf] at hθ
      rw [hθ]
      exact ratios_eq_alphas _ hin
    · exact ⟨h1, c2.trans h3, fun _ => h2, fun hne => absurd rfl hne⟩
  · rw [e]
    have hlt : (p.take o.dim).length = o.dim := by simp [hle]
    obtain ⟨c1, c2⟩ := ok_cacheWrite o h (p.take o.dim) hlt
    exact ⟨c1, c2, by simp, fun _ => Or.inr rfl⟩

/-- a vector inside the property's quantifier is accepted and returned unchanged by the getter;
general form (also used inside the constructors, where the object is not yet consistent): the
object need only have the right shape, and hold the vector already if its parameters are those of
the vector -/
theorem setFrequenciesBase_roundtrip_gen (o : Obj ℝ) (h : Shape o) (p : List ℝ) (hv : ValidProbs p)
    (hl : p.length = o.dim) (hsame : o.θ = paramsOf o.method p → o.vProb = p) :
    (o.setFrequenciesBase p).2 = none ∧
    ((∀ v, o.vValues = some v → v = orderedValues o.vProb 1) → OK (o.setFrequenciesBase p).1) ∧
    (Shape (o.setFrequenciesBase p).1 ∧
      probsOf (o.setFrequenciesBase p).1.method (o.setFrequenciesBase p).1.dim (o.setFrequenciesBase p).1.θ =
        some (o.setFrequenciesBase p).1.vProb) ∧
    Fresh (o.setFrequenciesBase p).1 ∧
    (o.setFrequenciesBase p).1.vProb = p ∧ (o.setFrequenciesBase p).1.θ = paramsOf o.method p ∧
    SameShape o (o.setFrequenciesBase p).1 := by
  have hd : o.dim ≠ 0 := Nat.ne_of_gt h.dim_pos
  have htake : p.take o.dim = p := by rw [← hl]; exact List.take_length
  have hin := paramsOf_inOpen o.method p h.method hv.pos hv.sum hv.len
  have hrt := roundtrip_all o.method p h.method hv.pos hv.ne hv.sum hv.len
  have hlen : (paramsOf o.method p).length = o.params.length := by
    rw [paramsOf_length _ _ h.method, hl, h.len]
  obtain ⟨c1, c2⟩ := shape_cacheWrite o h p hl
  obtain ⟨f1, f2, f3, f4, f5, f6⟩ := cacheWrite_fields o p
  have hopen : ReqOpen (reqOfList (paramsOf o.method p)) 1 (o.cacheWrite p).params.length :=
    reqOfList_open _ _ hin
  rcases setFrequenciesBase_char o p hd with e | e | ⟨_, ⟨o2, hm, e⟩ | ⟨err, hm, e⟩⟩
  · exfalso
    have : sumOk p = true := sumOk_of p hv.sum
    unfold Obj.setFrequenciesBase at e
    simp [hd, this, hl] at e
    split at e
    · simp at e
    · rename_i heq
      rw [htake] at heq
      obtain ⟨o', e'⟩ := matchReq_accepts _ _ hopen
      rw [e'] at heq; cases heq
  · exfalso
    have : sumOk p = true := sumOk_of p hv.sum
    unfold Obj.setFrequenciesBase at e
    simp [hd, this, hl] at e
    split at e
    · simp at e
    · rename_i heq
      rw [htake] at heq
      obtain ⟨o', e'⟩ := matchReq_accepts _ _ hopen
      rw [e'] at heq; cases heq
  · rw [htake] at hm
    rw [e]
    rcases matchReq_gen _ c1 _ (Or.inl hopen) o2 hm with ⟨rfl, hw⟩ | ⟨h1, h2, h3, h4⟩
    · have hθ : o.θ = paramsOf o.method p := by
        have := writeFrom_reqOfList o.params _ hlen
        rw [f1] at hw; rw [hw] at this; exact this
      have hpr : o.vProb = p := hsame hθ
      have hθ' : (o.cacheWrite p).θ = paramsOf o.method p := by simp only [Obj.θ, f1]; exact hθ
      have hprobs : probsOf (o.cacheWrite p).method (o.cacheWrite p).dim (o.cacheWrite p).θ =
          some (o.cacheWrite p).vProb := by
        rw [hθ', f2, f3, f4, hpr, ← hl]; exact hrt
      refine ⟨rfl, fun hval => ⟨c1, hprobs, by rw [f5, f4]; exact hval⟩, ⟨c1, hprobs⟩, ?_,
        by rw [f4]; exact hpr, hθ', c2⟩
      · intro hm2
        rw [f3] at hm2
        rw [hθ', f6]
        simp only [hm2, if_true, paramsOf]
        rw [hm2] at hin
        exact ratios_eq_alphas _ hin
    · have hθ2 : o2.θ = paramsOf o.method p := by
        simp only [Obj.θ, h4, f1]; exact writeFrom_reqOfList o.params _ hlen
      refine ⟨rfl, fun _ => h1, ⟨h1.toShape, h1.probs⟩, h2, ?_, hθ2, c2.trans h3⟩
      have := h1.probs
      rw [hθ2, (c2.trans h3).dim, (c2.trans h3).method, ← hl, hrt] at this
      exact (Option.some.inj this).symm
  · exfalso
    rw [htake] at hm
    obtain ⟨o', e'⟩ := matchReq_accepts _ _ hopen
    rw [e'] at hm; cases hm

theorem setFrequenciesBase_roundtrip (o : Obj ℝ) (h : OK o) (p : List ℝ) (hv : ValidProbs p)
    (hl : p.length = o.dim) :
    (o.setFrequenciesBase p).2 = none ∧ (o.setFrequenciesBase p).1.vProb = p ∧
    (o.setFrequenciesBase p).1.θ = paramsOf o.method p := by
  have hrt := roundtrip_all o.method p h.method hv.pos hv.ne hv.sum hv.len
  obtain ⟨r1, _, _, _, r4, r5, _⟩ := setFrequenciesBase_roundtrip_gen o h.toShape p hv hl (by
    intro hθ
    have := h.probs
    rw [hθ, ← hl, hrt] at this
    exact (Option.some.inj this).symm)
  exact ⟨r1, r4, r5⟩

/-! ### the ordered setter -/

/-- every member but the ratio cache -/
structure EqButCache (a b : Obj ℝ) : Prop where
  params : a.params = b.params
  dim : a.dim = b.dim
  method : a.method = b.method
  vProb : a.vProb = b.vProb
  vValues : a.vValues = b.vValues

theorem EqButCache.refl (a : Obj ℝ) : EqButCache a a := ⟨rfl, rfl, rfl, rfl, rfl⟩

theorem eqButCache_cacheWrite (o : Obj ℝ) (p : List ℝ) : EqButCache (o.cacheWrite p) o := by
  obtain ⟨c1, c2, c3, c4, c5, _⟩ := cacheWrite_fields o p
  exact ⟨c1, c2, c3, c4, c5⟩

/-- a rejected `Simplex::setFrequencies` leaves every member as it was, except the ratio cache -/
theorem setFrequenciesBase_rejected (o : Obj ℝ) (p : List ℝ) (hr : (o.setFrequenciesBase p).2 ≠ none) :
    EqButCache (o.setFrequenciesBase p).1 o := by
  by_cases hd : o.dim = 0
  · unfold Obj.setFrequenciesBase at hr; simp [hd] at hr
  · rcases setFrequenciesBase_char o p hd with e | e | ⟨_, ⟨o2, _, e⟩ | ⟨err, _, e⟩⟩
    · rw [e]; exact EqButCache.refl _
    · rw [e]; exact EqButCache.refl _
    · rw [e] at hr; exact absurd rfl hr
    · rw [e]; exact eqButCache_cacheWrite o _

/-- hypothesis on the vector given to `setFrequencies` of the object's class; an `OrderedSimplex`
is given values inside the property's quantifier, or a non-empty vector of another size (which the
repaired code rejects) -/
def SetFreqArg (o : Obj ℝ) (p : List ℝ) : Prop :=
  match o.vValues with
  | none => FreqArg o p
  | some _ => (ValidOrdered p ∧ p.length = o.dim) ∨ (p.length ≠ 0 ∧ p.length ≠ o.dim)

/-- the repaired `OrderedSimplex::setFrequencies` rejects every non-empty vector of another size
than the dimension and leaves the object untouched -/
theorem oSetFrequencies_wrong_size (o : Obj ℝ) (v : List ℝ) (h0 : v.length ≠ 0) (h1 : v.length ≠ o.dim) :
    o.oSetFrequencies v = (o, some .sum) := by
  unfold Obj.oSetFrequencies
  simp [h0, h1]

theorem setFrequencies_pres (o : Obj ℝ) (h : OK o) (p : List ℝ) (hp : SetFreqArg o p) :
    OK (o.setFrequencies p).1 ∧ SameShape o (o.setFrequencies p).1 ∧
    ((o.setFrequencies p).2 = none → Fresh (o.setFrequencies p).1) ∧
    ((o.setFrequencies p).2 ≠ none → EqButCache (o.setFrequencies p).1 o) := by
  unfold Obj.setFrequencies
  unfold SetFreqArg at hp
  cases hv : o.vValues with
  | none =>
    rw [hv] at hp
    simp only
    obtain ⟨h1, h2, h3, _⟩ := setFrequenciesBase_pres o h p hp
    exact ⟨h1, h2, h3, setFrequenciesBase_rejected o p⟩
  | some w =>
    rw [hv] at hp
    simp only
    rcases hp with ⟨hvo, hl⟩ | ⟨hne0, hned⟩
    swap
    · rw [oSetFrequencies_wrong_size o p hne0 hned]
      exact ⟨h, SameShape.refl _, fun hn => (by cases hn), fun _ => EqButCache.refl _⟩
    have hvp := validOrdered_probs hvo
    have hlp : (orderedToProbs p 1).length = o.dim := by rw [orderedToProbs_length, hl]
    obtain ⟨r1, _, ⟨r2, r2p⟩, r3, r4, _, r6⟩ := setFrequenciesBase_roundtrip_gen o h.toShape _ hvp hlp (by
      intro hθ
      have := h.probs
      rw [hθ, ← hlp, roundtrip_all o.method _ h.method hvp.pos hvp.ne hvp.sum hvp.len] at this
      exact (Option.some.inj this).symm)
    have hne : ¬ p.length = 0 := by have := h.dim_pos; omega
    have hne2 : ¬ p.length ≠ o.dim := by omega
    unfold Obj.oSetFrequencies
    simp only [hne, hne2, if_false]
    cases hb : o.setFrequenciesBase (orderedToProbs p 1) with
    | mk o' err =>
      rw [hb] at r1 r2 r2p r3 r4 r6
      simp only at r1 r2 r2p r3 r4 r6
      subst r1
      simp only
      refine ⟨⟨⟨r2.method, r2.dim_pos, r2.dim_lt, r2.len, r2.inOpen, r2.cache⟩, r2p, ?_⟩,
        ⟨r6.dim, r6.method, ?_, r6.incl⟩, fun _ => r3, fun hne => absurd rfl hne⟩
      · intro v hv'
        simp only [Option.some.injEq] at hv'
        rw [← hv', r4, orderedValues_toProbs p 1 (le_refl _)]
      · simp [hv]

/-! ### constructors -/

theorem newParams_ok (a : Bool) (l : List ℝ) (h : InOpen l) :
    newParams a l = .ok (l.map fun v => ⟨v, a⟩) := by
  unfold newParams
  induction l with
  | nil => rfl
  | cons v r ih =>
    rw [List.mapM_cons]
    simp only [inConstraint_of_open a v (h v (by simp)), if_true]
    rw [ih (fun x m => h x (by simp [m]))]
    rfl

theorem map_mk_value (a : Bool) (l : List ℝ) : (l.map fun v => (⟨v, a⟩ : Param ℝ)).map (·.value) = l := by
  simp [List.map_map, Function.comp_def]

theorem map_mk_incl (a : Bool) (l : List ℝ) : ∀ q ∈ (l.map fun v => (⟨v, a⟩ : Param ℝ)), q.incl = a := by
  intro q hq
  obtain ⟨v, _, rfl⟩ := List.mem_map.mp hq
  rfl

/-- what a successful constructor establishes -/
structure Built (o : Obj ℝ) (dim m : Nat) (a : Bool) : Prop where
  ok : OK o
  fresh : Fresh o
  dim : o.dim = dim
  method : o.method = m
  incl : ∀ q ∈ o.params, q.incl = a

theorem construct_ok (p : List ℝ) (m : Nat) (a : Bool) (hm : ValidMethod m) (hp : ValidProbs p) :
    ∃ o, construct p m a = .ok o ∧ Built o p.length m a ∧ o.vProb = p ∧ o.vValues = none ∧
      o.θ = paramsOf m p := by
  have hl : p.length ≠ 0 := by have := hp.ne; cases p <;> simp_all
  have ho := paramsOf_inOpen m p hm hp.pos hp.sum hp.len
  unfold construct
  simp only [hl, if_false, sumOk_of p hp.sum, Bool.not_true, Bool.false_eq_true, newParams_ok a _ ho]
  refine ⟨_, rfl, ⟨⟨⟨hm, Nat.pos_of_ne_zero hl, hp.len, ?_, ?_, ?_⟩, ?_, ?_⟩, ?_, rfl, rfl, map_mk_incl a _⟩,
    rfl, rfl, map_mk_value a _⟩
  · simp [paramsOf_length m p hm]
  · simp only [Obj.θ, map_mk_value]; exact ho
  · by_cases h2 : m = 2
    · simp [h2, ratios_length]
    · simp [h2]
  · simp only [Obj.θ, map_mk_value]
    exact roundtrip_all m p hm hp.pos hp.ne hp.sum hp.len
  · intro v hv; cases hv
  · intro h2
    simp only at h2
    subst h2
    simp only [Obj.θ, map_mk_value, if_true, paramsOf]
    exact ratios_eq_alphas p ho

theorem half_inOpen (n : Nat) : InOpen (List.replicate n (Scalar.ofRat 1 2 : ℝ)) := by
  intro x hx; simp only [List.mem_replicate] at hx; rw [hx.2]; simp; norm_num

theorem constructDim_ok (dim m : Nat) (a : Bool) (hm : ValidMethod m) (hd : 0 < dim) (h31 : dim < 2 ^ 31) :
    ∃ o, constructDim dim m a = .ok o ∧ Built o dim m a ∧ o.vProb = uniform dim ∧ o.vValues = none := by
  have hu := uniform_valid dim hd h31
  have hlen : (uniform dim).length = dim := by simp [uniform]
  have hne : (dim : ℝ) ≠ 0 := by positivity
  have hd0 : dim ≠ 0 := Nat.ne_of_gt hd
  rcases hm with rfl | rfl | rfl
  · have ho := paramsGlobal_inOpen (uniform dim) 1 hu.pos hu.sum
    unfold constructDim
    simp only [hd0, if_false, ScalarReal.one_eq, ScalarReal.ofInt_eq, uniform_eq, newParams_ok a _ ho]
    refine ⟨_, rfl, ⟨⟨⟨Or.inl rfl, hd, h31, ?_, ?_, ?_⟩, ?_, ?_⟩, ?_, rfl, rfl, map_mk_incl a _⟩, rfl, rfl⟩
    · simp [paramsGlobal_length, hlen]
    · simp only [Obj.θ, map_mk_value]; exact ho
    · simp
    · simp only [Obj.θ, map_mk_value]
      have := roundtrip_all 1 (uniform dim) (Or.inl rfl) hu.pos hu.ne hu.sum hu.len
      rw [hlen, paramsOf_one] at this
      exact this
    · intro v hv; cases hv
    · intro h2; cases h2
  · have hp : paramsLocal (uniform dim) = List.replicate (dim - 1) (1 / 2) :=
      paramsLocal_replicate dim _ (by positivity)
    have ho := half_inOpen (dim - 1)
    unfold constructDim
    simp only [hd0, if_false, ScalarReal.one_eq, ScalarReal.ofInt_eq, uniform_eq, newParams_ok a _ ho]
    refine ⟨_, rfl, ⟨⟨⟨Or.inr (Or.inl rfl), hd, h31, ?_, ?_, ?_⟩, ?_, ?_⟩, ?_, rfl, rfl, map_mk_incl a _⟩, rfl, rfl⟩
    · simp
    · simp only [Obj.θ, map_mk_value]; exact ho
    · simp
    · simp only [Obj.θ, map_mk_value]
      have := roundtrip_all 2 (uniform dim) (Or.inr (Or.inl rfl)) hu.pos hu.ne hu.sum hu.len
      rw [hlen] at this
      simp only [paramsOf] at this
      rw [hp] at this
      simpa using this
    · intro v hv; cases hv
    · intro _
      simp only [Obj.θ, alphas, List.map_replicate]
      congr 1
      simp; norm_num
  · have ho := half_inOpen (dim - 1)
    unfold constructDim
    simp only [hd0, if_false, ScalarReal.one_eq, ScalarReal.ofInt_eq, uniform_eq, newParams_ok a _ ho]
    have hsh : Shape (⟨(List.replicate (dim - 1) (Scalar.ofRat 1 2 : ℝ)).map (fun v => ⟨v, a⟩), dim, 3,
        uniform dim, [], none⟩ : Obj ℝ) := by
      refine ⟨Or.inr (Or.inr rfl), hd, h31, by simp, ?_, by simp⟩
      simp only [Obj.θ, map_mk_value]; exact ho
    obtain ⟨r1, r2', _, r3, r4, _, r6⟩ := setFrequenciesBase_roundtrip_gen _ hsh
      (uniform dim) hu hlen (fun _ => rfl)
    have r2 := r2' (by intro v hv; cases hv)
    simp only [bind, Except.bind]
    cases hb : Obj.setFrequenciesBase (⟨(List.replicate (dim - 1) (Scalar.ofRat 1 2 : ℝ)).map (fun v => ⟨v, a⟩),
        dim, 3, uniform dim, [], none⟩ : Obj ℝ) (uniform dim) with
    | mk o' err =>
      rw [hb] at r1 r2 r3 r4 r6
      simp only at r1 r2 r3 r4 r6
      subst r1
      refine ⟨o', rfl, ⟨r2, r3, r6.dim, r6.method, ?_⟩, r4, ?_⟩
      · intro q hq
        have h1 : q.incl ∈ o'.params.map (·.incl) := List.mem_map.mpr ⟨q, hq, rfl⟩
        rw [r6.incl] at h1
        obtain ⟨q', hq', e⟩ := List.mem_map.mp h1
        rw [← e]; exact map_mk_incl a _ q' hq'
      · have := r6.cls
        simp only [Option.isSome_none] at this
        cases hv : o'.vValues with
        | none => rfl
        | some w => rw [hv] at this; cases this

/-- `OrderedSimplex::setFrequencies` with a vector inside the property's quantifier, on an object
whose `vValues_` may hold anything (as inside the constructor) -/
theorem oSetFrequencies_core (o : Obj ℝ) (hs : Shape o)
    (hpr : probsOf o.method o.dim o.θ = some o.vProb) (v : List ℝ) (hvo : ValidOrdered v)
    (hl : v.length = o.dim) :
    (o.oSetFrequencies v).2 = none ∧ OK (o.oSetFrequencies v).1 ∧ Fresh (o.oSetFrequencies v).1 ∧
    (o.oSetFrequencies v).1.vValues = some v ∧ (o.oSetFrequencies v).1.dim = o.dim ∧
    (o.oSetFrequencies v).1.method = o.method ∧
    (o.oSetFrequencies v).1.params.map (·.incl) = o.params.map (·.incl) ∧
    (o.oSetFrequencies v).1.vProb = orderedToProbs v 1 := by
  have hvp := validOrdered_probs hvo
  have hlp : (orderedToProbs v 1).length = o.dim := by rw [orderedToProbs_length, hl]
  obtain ⟨r1, _, ⟨r2, r2p⟩, r3, r4, _, r6⟩ := setFrequenciesBase_roundtrip_gen o hs _ hvp hlp (by
    intro hθ
    have := hpr
    rw [hθ, ← hlp, roundtrip_all o.method _ hs.method hvp.pos hvp.ne hvp.sum hvp.len] at this
    exact (Option.some.inj this).symm)
  have hne : ¬ v.length = 0 := by have := hs.dim_pos; omega
  have hne2 : ¬ v.length ≠ o.dim := by omega
  unfold Obj.oSetFrequencies
  simp only [hne, hne2, if_false]
  cases hb : o.setFrequenciesBase (orderedToProbs v 1) with
  | mk o' err =>
    rw [hb] at r1 r2 r2p r3 r4 r6
    simp only at r1 r2 r2p r3 r4 r6
    subst r1
    simp only
    refine ⟨trivial, ⟨⟨r2.method, r2.dim_pos, r2.dim_lt, r2.len, r2.inOpen, r2.cache⟩, r2p, ?_⟩, r3, trivial,
      r6.dim, r6.method, r6.incl, r4⟩
    intro w hw
    simp only [Option.some.injEq] at hw
    rw [← hw, r4, orderedValues_toProbs v 1 (le_refl _)]

theorem oConstructDim_ok (dim m : Nat) (a : Bool) (hm : ValidMethod m) (hd : 0 < dim) (h31 : dim < 2 ^ 31) :
    ∃ o, oConstructDim dim m a = .ok o ∧ Built o dim m a ∧ o.vValues = some (orderedValues (uniform dim) 1) := by
  obtain ⟨b, e, hb, hp, _⟩ := constructDim_ok dim m a hm hd h31
  unfold oConstructDim
  simp only [e, bind, Except.bind]
  refine ⟨_, rfl, ⟨⟨⟨hb.ok.method, hb.ok.dim_pos, hb.ok.dim_lt, hb.ok.len, hb.ok.inOpen, hb.ok.cache⟩,
    hb.ok.probs, ?_⟩, hb.fresh, hb.dim, hb.method, hb.incl⟩, by rw [hp]⟩
  intro v hv
  simp only [Option.some.injEq] at hv
  exact hv.symm

theorem oConstruct_ok (v : List ℝ) (m : Nat) (a : Bool) (hm : ValidMethod m) (hv : ValidOrdered v) :
    ∃ o, oConstruct v m a = .ok o ∧ Built o v.length m a ∧ o.vValues = some v := by
  have hpos : 0 < v.length := List.length_pos_of_ne_nil hv.ne
  obtain ⟨b, e, hb, _, _⟩ := constructDim_ok v.length m a hm hpos hv.len
  have hsh : Shape { b with vValues := some v } :=
    ⟨hb.ok.method, hb.ok.dim_pos, hb.ok.dim_lt, hb.ok.len, hb.ok.inOpen, hb.ok.cache⟩
  obtain ⟨c1, c2, c3, c4, c5, c6, c7, _⟩ := oSetFrequencies_core { b with vValues := some v } hsh hb.ok.probs v hv
    hb.dim.symm
  unfold oConstruct
  simp only [e, bind, Except.bind]
  cases hr : Obj.oSetFrequencies { b with vValues := some v } v with
  | mk o' err =>
    rw [hr] at c1 c2 c3 c4 c5 c6 c7
    simp only at c1 c2 c3 c4 c5 c6 c7
    subst c1
    refine ⟨o', rfl, ⟨c2, c3, c5.trans hb.dim, c6.trans hb.method, ?_⟩, c4⟩
    intro q hq
    have h1 : q.incl ∈ o'.params.map (·.incl) := List.mem_map.mpr ⟨q, hq, rfl⟩
    rw [c7] at h1
    obtain ⟨q', hq', e'⟩ := List.mem_map.mp h1
    rw [← e']; exact hb.incl q' hq'

/-! ### copy operations -/

theorem cloneParams_eq (ps : List (Param ℝ)) : cloneParams ps = ps := by
  unfold cloneParams
  induction ps with
  | nil => rfl
  | cons p r ih => simp only [List.map_cons, ih]; rfl

/-- copy construction within the class / `clone()`: every member of the copy equals the source's -/
theorem copyCtor_eq (src : Obj ℝ) : src.copyCtor = src := by
  cases src
  simp [Obj.copyCtor, Obj.copySimplexPart, cloneParams_eq]

/-- `operator=` of the common class: every member of the target equals the source's, whatever the
target held -/
theorem assign_eq (tgt src : Obj ℝ) : tgt.assign src = src := by
  cases src
  simp [Obj.assign, Obj.assignSimplexPart, cloneParams_eq]

theorem copySimplexPart_eq (src : Obj ℝ) : src.copySimplexPart = { src with vValues := none } := by
  cases src
  simp [Obj.copySimplexPart, cloneParams_eq]

theorem assignSimplexPart_eq (tgt src : Obj ℝ) :
    tgt.assignSimplexPart src = { src with vValues := tgt.vValues } := by
  cases src
  simp [Obj.assignSimplexPart, cloneParams_eq]

/-- forgetting the ordered values of an object leaves a plain simplex satisfying the invariant -/
theorem ok_slice (src : Obj ℝ) (h : OK src) : OK { src with vValues := none } :=
  ⟨⟨h.method, h.dim_pos, h.dim_lt, h.len, h.inOpen, h.cache⟩, h.probs, by intro v hv; cases hv⟩

/-! ## Part B — the heap -/

section HeapLemmas
variable {β : Type}

theorem derefs_length (cells : List (Param β)) (as : List Nat) (ps : List (Param β))
    (h : derefs cells as = some ps) : ps.length = as.length := by
  induction as generalizing ps with
  | nil => simp [derefs] at h; subst h; rfl
  | cons a as ih =>
    simp only [derefs] at h
    cases h1 : cells[a]? with
    | none => simp [h1] at h
    | some p =>
      cases h2 : derefs cells as with
      | none => simp [h1, h2] at h
      | some qs =>
        simp only [h1, h2, Option.some.injEq] at h
        subst h
        simp [ih qs h2]

/-- all addresses inside the heap: the list can be dereferenced -/
theorem derefs_isSome (cells : List (Param β)) (as : List Nat) (h : ∀ a ∈ as, a < cells.length) :
    ∃ ps, derefs cells as = some ps := by
  induction as with
  | nil => exact ⟨[], rfl⟩
  | cons a as ih =>
    obtain ⟨qs, hq⟩ := ih (fun x hx => h x (by simp [hx]))
    have ha : a < cells.length := h a (by simp)
    exact ⟨cells[a] :: qs, by simp [derefs, List.getElem?_eq_getElem ha, hq]⟩

theorem writeCells_length (cells : List (Param β)) (as : List Nat) (ps : List (Param β)) :
    (writeCells cells as ps).length = cells.length := by
  induction as generalizing cells ps with
  | nil => cases ps <;> rfl
  | cons a as ih =>
    cases ps with
    | nil => rfl
    | cons p ps => simp [writeCells, ih]

/-- a cell outside the written addresses keeps its content -/
theorem writeCells_getElem?_of_notMem (cells : List (Param β)) (as : List Nat) (ps : List (Param β)) (b : Nat)
    (hb : b ∉ as) : (writeCells cells as ps)[b]? = cells[b]? := by
  induction as generalizing cells ps with
  | nil => cases ps <;> rfl
  | cons a as ih =>
    cases ps with
    | nil => rfl
    | cons p ps =>
      simp only [writeCells]
      rw [ih (cells.set a p) ps (fun hm => hb (by simp [hm]))]
      have : a ≠ b := fun e => hb (by simp [e])
      simp [this]

theorem derefs_congr (cells cells' : List (Param β)) (as : List Nat)
    (h : ∀ a ∈ as, cells'[a]? = cells[a]?) : derefs cells' as = derefs cells as := by
  induction as with
  | nil => rfl
  | cons a as ih =>
    simp only [derefs, h a (by simp), ih (fun x hx => h x (by simp [hx]))]

/-- writing through one list of pointers does not touch what a disjoint list points to -/
theorem derefs_writeCells_other (cells : List (Param β)) (as : List Nat) (ps : List (Param β)) (bs : List Nat)
    (hd : ∀ b ∈ bs, b ∉ as) : derefs (writeCells cells as ps) bs = derefs cells bs :=
  derefs_congr _ _ bs (fun b hb => writeCells_getElem?_of_notMem cells as ps b (hd b hb))

/-- reading back what was written through a duplicate-free list of valid pointers -/
theorem derefs_writeCells_same (cells : List (Param β)) (as : List Nat) (ps : List (Param β))
    (hl : ps.length = as.length) (hn : as.Nodup) (hb : ∀ a ∈ as, a < cells.length) :
    derefs (writeCells cells as ps) as = some ps := by
  induction as generalizing cells ps with
  | nil => cases ps with
    | nil => rfl
    | cons _ _ => simp at hl
  | cons a as ih =>
    cases ps with
    | nil => simp at hl
    | cons p ps =>
      have hna : a ∉ as := (List.nodup_cons.mp hn).1
      have hn' : as.Nodup := (List.nodup_cons.mp hn).2
      simp only [writeCells, derefs]
      have h1 : (writeCells (cells.set a p) as ps)[a]? = some p := by
        rw [writeCells_getElem?_of_notMem _ as ps a hna]
        have : a < cells.length := hb a (by simp)
        simp [this]
      rw [h1, ih (cells.set a p) ps (by simpa using hl) hn' (fun x hx => by
        simp only [List.length_set]; exact hb x (by simp [hx]))]

/-- writing back what was read changes nothing -/
theorem writeCells_self (cells : List (Param β)) (as : List Nat) (ps : List (Param β))
    (h : derefs cells as = some ps) : writeCells cells as ps = cells := by
  induction as generalizing ps with
  | nil => simp [derefs] at h; subst h; rfl
  | cons a as ih =>
    simp only [derefs] at h
    cases h1 : cells[a]? with
    | none => simp [h1] at h
    | some p =>
      cases h2 : derefs cells as with
      | none => simp [h1, h2] at h
      | some qs =>
        simp only [h1, h2, Option.some.injEq] at h
        subst h
        simp only [writeCells]
        have : cells.set a p = cells := by
          obtain ⟨hlt, he⟩ := List.getElem?_eq_some_iff.mp h1
          rw [← he]; exact List.set_getElem_self hlt
        rw [this]; exact ih qs h2

theorem derefs_append (cells extra : List (Param β)) (as : List Nat) (hb : ∀ a ∈ as, a < cells.length) :
    derefs (cells ++ extra) as = derefs cells as :=
  derefs_congr _ _ as (fun a ha => List.getElem?_append_left (hb a ha))

/-- the freshly allocated cells -/
theorem derefs_fresh (cells ps : List (Param β)) :
    derefs (cells ++ ps) ((List.range ps.length).map (cells.length + ·)) = some ps := by
  induction ps generalizing cells with
  | nil => rfl
  | cons p ps ih =>
    have hr : (List.range (p :: ps).length).map (cells.length + ·) =
        cells.length :: (List.range ps.length).map ((cells ++ [p]).length + ·) := by
      simp only [List.length_cons, List.range_succ_eq_map, List.map_cons, List.map_map, Nat.add_zero,
        List.length_append, List.length_nil]
      congr 1
      apply List.map_congr_left
      intro x _
      simp only [Function.comp]
      omega
    rw [hr]
    simp only [derefs]
    have h0 : (cells ++ p :: ps)[cells.length]? = some p := by simp
    have h1 : cells ++ p :: ps = (cells ++ [p]) ++ ps := by simp
    rw [h0, h1, ih (cells ++ [p])]

end HeapLemmas

/-- the object in register `k`, parameters dereferenced -/
def Heap.get (h : Heap ℝ) (k : Nat) : Option (Obj ℝ) :=
  match h.view k with
  | .ok (_, o) => some o
  | .error _ => none

/-- separation: the parameter lists of the objects point into the heap, without repetition, and
the lists of two objects are disjoint (no `Parameter` object is shared) -/
structure Sep (h : Heap ℝ) : Prop where
  inb : ∀ k ho, h.obj? k = some ho → ∀ a ∈ ho.paddr, a < h.cells.length
  nodup : ∀ k ho, h.obj? k = some ho → ho.paddr.Nodup
  disj : ∀ k k' ho ho', k ≠ k' → h.obj? k = some ho → h.obj? k' = some ho' → ∀ a ∈ ho.paddr, a ∉ ho'.paddr

theorem obj?_lt (h : Heap ℝ) (k : Nat) (ho : HObj ℝ) (e : h.obj? k = some ho) : k < h.regs.length := by
  unfold Heap.obj? at e
  by_contra hlt
  have : h.regs[k]? = none := List.getElem?_eq_none (by omega)
  rw [this] at e; cases e

theorem obj?_set_same (cells : List (Param ℝ)) (regs : List (Option (HObj ℝ))) (k : Nat) (x : HObj ℝ)
    (hk : k < regs.length) : Heap.obj? ⟨cells, regs.set k (some x)⟩ k = some x := by
  simp [Heap.obj?, hk]

theorem obj?_set_other (cells cells' : List (Param ℝ)) (regs : List (Option (HObj ℝ))) (k k' : Nat)
    (x : Option (HObj ℝ)) (hne : k' ≠ k) : Heap.obj? ⟨cells', regs.set k x⟩ k' = Heap.obj? ⟨cells, regs⟩ k' := by
  simp [Heap.obj?, Ne.symm hne]

theorem get_of (h : Heap ℝ) (k : Nat) (ho : HObj ℝ) (ps : List (Param ℝ)) (e : h.obj? k = some ho)
    (d : derefs h.cells ho.paddr = some ps) :
    h.view k = .ok (ho, ⟨ps, ho.dim, ho.method, ho.vProb, ho.valpha, ho.vValues⟩) ∧
    h.get k = some ⟨ps, ho.dim, ho.method, ho.vProb, ho.valpha, ho.vValues⟩ := by
  have : h.view k = .ok (ho, ⟨ps, ho.dim, ho.method, ho.vProb, ho.valpha, ho.vValues⟩) := by
    simp [Heap.view, e, Heap.load, d]
  exact ⟨this, by simp [Heap.get, this]⟩

theorem get_none (h : Heap ℝ) (k : Nat) (e : h.obj? k = none) : h.get k = none ∧ h.view k = .error .empty := by
  simp [Heap.get, Heap.view, e]

/-- under separation every register that holds an object can be viewed -/
theorem view_of_sep (h : Heap ℝ) (hs : Sep h) (k : Nat) (ho : HObj ℝ) (e : h.obj? k = some ho) :
    ∃ ps, derefs h.cells ho.paddr = some ps ∧ ps.length = ho.paddr.length := by
  obtain ⟨ps, hp⟩ := derefs_isSome h.cells ho.paddr (hs.inb k ho e)
  exact ⟨ps, hp, derefs_length _ _ _ hp⟩

/-- the view determines the heap object -/
theorem view_ok (h : Heap ℝ) (k : Nat) (ho : HObj ℝ) (o : Obj ℝ) (e : h.view k = .ok (ho, o)) :
    h.obj? k = some ho ∧ derefs h.cells ho.paddr = some o.params ∧ h.get k = some o ∧
    o.dim = ho.dim ∧ o.method = ho.method ∧ o.vProb = ho.vProb ∧ o.valpha = ho.valpha ∧ o.vValues = ho.vValues := by
  unfold Heap.view at e
  cases h1 : h.obj? k with
  | none => simp [h1] at e
  | some ho' =>
    simp only [h1] at e
    unfold Heap.load at e
    cases h2 : derefs h.cells ho'.paddr with
    | none => simp [h2] at e
    | some ps =>
      simp only [h2, Except.ok.injEq, Prod.mk.injEq] at e
      obtain ⟨rfl, rfl⟩ := e
      exact ⟨rfl, h2, (get_of h k ho' ps h1 h2).2, rfl, rfl, rfl, rfl, rfl⟩

theorem get_eq_some (h : Heap ℝ) (k : Nat) (o : Obj ℝ) (e : h.get k = some o) :
    ∃ ho, h.view k = .ok (ho, o) := by
  unfold Heap.get at e
  cases hv : h.view k with
  | error _ => simp [hv] at e
  | ok p => obtain ⟨ho, o'⟩ := p; simp only [hv, Option.some.injEq] at e; subst e; exact ⟨ho, rfl⟩

/-- a member function has run on the object of register `k`: separation is kept, the register
holds the new state, every other register reads as before -/
theorem store_spec (h : Heap ℝ) (hs : Sep h) (k : Nat) (ho : HObj ℝ) (hk : h.obj? k = some ho)
    (o' : Obj ℝ) (hl : o'.params.length = ho.paddr.length) :
    Sep (h.store k ho o') ∧ (h.store k ho o').get k = some o' ∧
    (∀ k', k' ≠ k → (h.store k ho o').get k' = h.get k') ∧
    (h.store k ho o').regs.length = h.regs.length := by
  have hklt := obj?_lt h k ho hk
  have hsame : (h.store k ho o').obj? k = some ⟨ho.paddr, o'.dim, o'.method, o'.vProb, o'.valpha, o'.vValues⟩ :=
    obj?_set_same _ _ k _ hklt
  have hother : ∀ k', k' ≠ k → (h.store k ho o').obj? k' = h.obj? k' := fun k' hne =>
    obj?_set_other h.cells _ h.regs k k' _ hne
  have hlen : (h.store k ho o').cells.length = h.cells.length := writeCells_length _ _ _
  have hobj : ∀ k' ho', (h.store k ho o').obj? k' = some ho' → ∃ ho'', h.obj? k' = some ho'' ∧ ho''.paddr = ho'.paddr := by
    intro k' ho' e
    by_cases hne : k' = k
    · subst hne; rw [hsame] at e; cases e; exact ⟨ho, hk, rfl⟩
    · rw [hother k' hne] at e; exact ⟨ho', e, rfl⟩
  refine ⟨⟨?_, ?_, ?_⟩, ?_, ?_, by simp [Heap.store]⟩
  · intro k' ho' e a ha
    obtain ⟨ho'', e', hp⟩ := hobj k' ho' e
    rw [hlen]; exact hs.inb k' ho'' e' a (hp ▸ ha)
  · intro k' ho' e
    obtain ⟨ho'', e', hp⟩ := hobj k' ho' e
    rw [← hp]; exact hs.nodup k' ho'' e'
  · intro k1 k2 ho1 ho2 hne e1 e2 a ha
    obtain ⟨h1, e1', hp1⟩ := hobj k1 ho1 e1
    obtain ⟨h2, e2', hp2⟩ := hobj k2 ho2 e2
    rw [← hp2]; exact hs.disj k1 k2 h1 h2 hne e1' e2' a (hp1 ▸ ha)
  · have d := derefs_writeCells_same h.cells ho.paddr o'.params hl (hs.nodup k ho hk) (hs.inb k ho hk)
    exact (get_of (h.store k ho o') k _ o'.params hsame d).2
  · intro k' hne
    cases e : h.obj? k' with
    | none =>
      rw [(get_none h k' e).1]
      exact (get_none _ k' (by rw [hother k' hne]; exact e)).1
    | some ho' =>
      obtain ⟨ps, hp, _⟩ := view_of_sep h hs k' ho' e
      have d : derefs (h.store k ho o').cells ho'.paddr = some ps := by
        show derefs (writeCells h.cells ho.paddr o'.params) ho'.paddr = some ps
        rw [derefs_writeCells_other _ _ _ _ (fun b hb => hs.disj k' k ho' ho hne e hk b hb)]
        exact hp
      rw [(get_of h k' ho' ps e hp).2]
      exact (get_of _ k' ho' ps (by rw [hother k' hne]; exact e) d).2

/-- a new object (all its parameters newly allocated) is put into register `j` -/
theorem alloc_spec (h : Heap ℝ) (hs : Sep h) (j : Nat) (o : Obj ℝ) :
    Sep (h.allocObj j o) ∧ (j < h.regs.length → (h.allocObj j o).get j = some o) ∧
    (∀ k', k' ≠ j → (h.allocObj j o).get k' = h.get k') ∧
    (h.allocObj j o).regs.length = h.regs.length := by
  have hother : ∀ k', k' ≠ j → (h.allocObj j o).obj? k' = h.obj? k' := fun k' hne =>
    obj?_set_other h.cells _ h.regs j k' _ hne
  have hcells : (h.allocObj j o).cells = h.cells ++ o.params := rfl
  have hobj : ∀ k' ho', (h.allocObj j o).obj? k' = some ho' →
      (k' ≠ j ∧ h.obj? k' = some ho') ∨
      (k' = j ∧ ho'.paddr = (List.range o.params.length).map (h.cells.length + ·)) := by
    intro k' ho' e
    by_cases hne : k' = j
    · subst hne
      have hlt : k' < h.regs.length := by
        have := obj?_lt _ k' ho' e
        simpa [Heap.allocObj] using this
      have := obj?_set_same (h.cells ++ o.params) h.regs k'
        ⟨(List.range o.params.length).map (h.cells.length + ·), o.dim, o.method, o.vProb, o.valpha, o.vValues⟩ hlt
      have e' : (h.allocObj k' o).obj? k' = some
        ⟨(List.range o.params.length).map (h.cells.length + ·), o.dim, o.method, o.vProb, o.valpha, o.vValues⟩ := this
      rw [e'] at e; cases e; exact Or.inr ⟨rfl, rfl⟩
    · rw [hother k' hne] at e; exact Or.inl ⟨hne, e⟩
  have hfresh : ∀ a ∈ (List.range o.params.length).map (h.cells.length + ·),
      h.cells.length ≤ a ∧ a < h.cells.length + o.params.length := by
    intro a ha
    obtain ⟨i, hi, rfl⟩ := List.mem_map.mp ha
    have := List.mem_range.mp hi
    omega
  refine ⟨⟨?_, ?_, ?_⟩, ?_, ?_, by simp [Heap.allocObj]⟩
  · intro k' ho' e a ha
    rw [hcells, List.length_append]
    rcases hobj k' ho' e with ⟨_, e'⟩ | ⟨_, hp⟩
    · have := hs.inb k' ho' e' a ha; omega
    · exact (hfresh a (hp ▸ ha)).2
  · intro k' ho' e
    rcases hobj k' ho' e with ⟨_, e'⟩ | ⟨_, hp⟩
    · exact hs.nodup k' ho' e'
    · rw [hp]
      exact List.Nodup.map (fun x y hxy => by omega) List.nodup_range
  · intro k1 k2 ho1 ho2 hne e1 e2 a ha hb
    rcases hobj k1 ho1 e1 with ⟨n1, e1'⟩ | ⟨n1, hp1⟩ <;> rcases hobj k2 ho2 e2 with ⟨n2, e2'⟩ | ⟨n2, hp2⟩
    · exact hs.disj k1 k2 ho1 ho2 hne e1' e2' a ha hb
    · have h1 := hs.inb k1 ho1 e1' a ha
      have h2 := (hfresh a (hp2 ▸ hb)).1
      omega
    · have h1 := hs.inb k2 ho2 e2' a hb
      have h2 := (hfresh a (hp1 ▸ ha)).1
      omega
    · exact hne (n1.trans n2.symm)
  · intro hlt
    have e' : (h.allocObj j o).obj? j = some
        ⟨(List.range o.params.length).map (h.cells.length + ·), o.dim, o.method, o.vProb, o.valpha, o.vValues⟩ :=
      obj?_set_same (h.cells ++ o.params) h.regs j _ hlt
    have d : derefs (h.allocObj j o).cells ((List.range o.params.length).map (h.cells.length + ·)) = some o.params :=
      derefs_fresh h.cells o.params
    exact (get_of (h.allocObj j o) j _ o.params e' d).2
  · intro k' hne
    cases e : h.obj? k' with
    | none =>
      rw [(get_none h k' e).1]
      exact (get_none _ k' (by rw [hother k' hne]; exact e)).1
    | some ho' =>
      obtain ⟨ps, hp, _⟩ := view_of_sep h hs k' ho' e
      have d : derefs (h.allocObj j o).cells ho'.paddr = some ps := by
        rw [hcells, derefs_append _ _ _ (hs.inb k' ho' e)]; exact hp
      rw [(get_of h k' ho' ps e hp).2]
      exact (get_of _ k' ho' ps (by rw [hother k' hne]; exact e) d).2

/-! ### member functions keep the number of parameters, the constraints, the class (unconditionally) -/

theorem matchReq_same (o o' : Obj ℝ) (req : Nat → Option ℝ) (e : o.matchReq req = .ok o') : SameShape o o' := by
  unfold Obj.matchReq at e
  split at e
  · split at e
    · cases e; exact (sameShape_write o req).trans (fire_sameShape _)
    · cases e; exact SameShape.refl _
  · cases e

theorem setReq_same (o o' : Obj ℝ) (req : Nat → Option ℝ) (e : o.setReq req = .ok o') : SameShape o o' := by
  unfold Obj.setReq at e
  split at e
  · cases e; exact (sameShape_write o req).trans (fire_sameShape _)
  · cases e

theorem setOne_same (o o' : Obj ℝ) (i : Nat) (v : ℝ) (e : o.setOne i v = .ok o') : SameShape o o' := by
  unfold Obj.setOne at e
  cases hp : o.param? i with
  | none => simp [hp] at e
  | some p =>
    obtain ⟨_, hlt, _, hget⟩ := param?_some o i p hp
    simp only [hp] at e
    split at e
    · split at e
      · cases e
        have hss : SameShape o { o with params := o.params.set (i - 1) { p with value := v } } := by
          refine ⟨rfl, rfl, rfl, ?_⟩
          simp only [List.map_set]
          apply List.ext_getElem? ; intro n
          by_cases hn : n = i - 1
          · subst hn
            have hge : o.params[i - 1] = p := by
              have := List.getElem?_eq_getElem hlt
              rw [hget] at this; exact (Option.some.inj this).symm
            simp [hlt, hge]
          · simp [Ne.symm hn]
        exact hss.trans (fire_sameShape _)
      · cases e
    · cases e; exact fire_sameShape o

theorem cacheWrite_same (o : Obj ℝ) (p : List ℝ) : SameShape o (o.cacheWrite p) := by
  obtain ⟨c1, c2, c3, _, c5, _⟩ := cacheWrite_fields o p
  exact ⟨c2, c3, by rw [c5], by rw [c1]⟩

theorem setFrequenciesBase_same (o : Obj ℝ) (p : List ℝ) : SameShape o (o.setFrequenciesBase p).1 := by
  by_cases hd : o.dim = 0
  · unfold Obj.setFrequenciesBase; simp only [hd, if_true]; exact SameShape.refl _
  · rcases setFrequenciesBase_char o p hd with e | e | ⟨_, ⟨o2, hm, e⟩ | ⟨err, _, e⟩⟩
    · rw [e]; exact SameShape.refl _
    · rw [e]; exact SameShape.refl _
    · rw [e]; exact (cacheWrite_same o _).trans (matchReq_same _ _ _ hm)
    · rw [e]; exact cacheWrite_same o _

theorem oSetFrequencies_same (o : Obj ℝ) (hv : o.vValues.isSome = true) (v : List ℝ) :
    SameShape o (o.oSetFrequencies v).1 := by
  unfold Obj.oSetFrequencies
  split
  · exact SameShape.refl _
  · split
    · exact SameShape.refl _
    · have hb := setFrequenciesBase_same o (orderedToProbs v 1)
      split
      · rename_i o' heq
        rw [heq] at hb
        exact ⟨hb.dim, hb.method, by simp [hv], hb.incl⟩
      · rename_i o' e heq
        rw [heq] at hb
        exact hb

theorem setFrequencies_same (o : Obj ℝ) (p : List ℝ) : SameShape o (o.setFrequencies p).1 := by
  unfold Obj.setFrequencies
  cases hv : o.vValues with
  | none => exact setFrequenciesBase_same o p
  | some w => exact oSetFrequencies_same o (by simp [hv]) p

/-! ### heap operations -/

theorem update_of_err (h : Heap ℝ) (k : Nat) (f : Obj ℝ → Obj ℝ × Option Err) (e : HErr)
    (hv : h.view k = .error e) : h.update k f = (h, some e) := by
  unfold Heap.update; rw [hv]

theorem update_of_ok (h : Heap ℝ) (k : Nat) (f : Obj ℝ → Obj ℝ × Option Err) (ho : HObj ℝ) (o : Obj ℝ)
    (hv : h.view k = .ok (ho, o)) : h.update k f = (h.store k ho (f o).1, (f o).2.map HErr.exc) := by
  unfold Heap.update; rw [hv]
  simp only
  cases hf : f o with
  | mk o' err => cases err <;> rfl

theorem updateE_of_err (h : Heap ℝ) (k : Nat) (f : Obj ℝ → Except Err (Obj ℝ)) (e : HErr)
    (hv : h.view k = .error e) : h.updateE k f = (h, some e) := by
  unfold Heap.updateE; rw [hv]

theorem updateE_of_ok (h : Heap ℝ) (k : Nat) (f : Obj ℝ → Except Err (Obj ℝ)) (ho : HObj ℝ) (o o' : Obj ℝ)
    (hv : h.view k = .ok (ho, o)) (hf : f o = .ok o') : h.updateE k f = (h.store k ho o', none) := by
  unfold Heap.updateE; rw [hv]; simp only [hf]

theorem updateE_of_rej (h : Heap ℝ) (k : Nat) (f : Obj ℝ → Except Err (Obj ℝ)) (ho : HObj ℝ) (o : Obj ℝ) (e : Err)
    (hv : h.view k = .ok (ho, o)) (hf : f o = .error e) : h.updateE k f = (h, some (.exc e)) := by
  unfold Heap.updateE; rw [hv]; simp only [hf]

/-- running a member function on the object of register `k` -/
theorem update_spec (h : Heap ℝ) (hs : Sep h) (k : Nat) (f : Obj ℝ → Obj ℝ × Option Err)
    (hlen : ∀ o, (f o).1.params.length = o.params.length) :
    Sep (h.update k f).1 ∧ (∀ r, r ≠ k → (h.update k f).1.get r = h.get r) ∧
    (h.update k f).1.regs.length = h.regs.length ∧
    (∀ o, h.get k = some o → (h.update k f).1.get k = some (f o).1 ∧
      (h.update k f).2 = (f o).2.map HErr.exc) ∧
    (h.get k = none → (h.update k f).1 = h) := by
  cases hv : h.view k with
  | error e =>
    have hg : h.get k = none := by simp [Heap.get, hv]
    rw [update_of_err h k f e hv]
    exact ⟨hs, fun _ _ => rfl, rfl, fun o ho => (by rw [hg] at ho; cases ho), fun _ => rfl⟩
  | ok p =>
    obtain ⟨ho, o⟩ := p
    obtain ⟨hk, hd, hg, _⟩ := view_ok h k ho o hv
    have hl : (f o).1.params.length = ho.paddr.length := by
      rw [hlen o]; exact derefs_length _ _ _ hd
    obtain ⟨s1, s2, s3, s4⟩ := store_spec h hs k ho hk (f o).1 hl
    rw [update_of_ok h k f ho o hv]
    refine ⟨s1, s3, s4, ?_, fun hn => by rw [hg] at hn; cases hn⟩
    intro o1 ho1
    rw [hg] at ho1; cases ho1
    exact ⟨s2, rfl⟩

theorem updateE_spec (h : Heap ℝ) (hs : Sep h) (k : Nat) (f : Obj ℝ → Except Err (Obj ℝ))
    (hlen : ∀ o o', f o = .ok o' → o'.params.length = o.params.length) :
    Sep (h.updateE k f).1 ∧ (∀ r, r ≠ k → (h.updateE k f).1.get r = h.get r) ∧
    (h.updateE k f).1.regs.length = h.regs.length ∧
    (∀ o, h.get k = some o →
      (∀ o', f o = .ok o' → (h.updateE k f).1.get k = some o' ∧ (h.updateE k f).2 = none) ∧
      (∀ e, f o = .error e → (h.updateE k f).1 = h ∧ (h.updateE k f).2 = some (.exc e))) ∧
    (h.get k = none → (h.updateE k f).1 = h) := by
  cases hv : h.view k with
  | error e =>
    have hg : h.get k = none := by simp [Heap.get, hv]
    rw [updateE_of_err h k f e hv]
    exact ⟨hs, fun _ _ => rfl, rfl, fun o ho => (by rw [hg] at ho; cases ho), fun _ => rfl⟩
  | ok p =>
    obtain ⟨ho, o⟩ := p
    obtain ⟨hk, hd, hg, _⟩ := view_ok h k ho o hv
    cases hf : f o with
    | error e =>
      rw [updateE_of_rej h k f ho o e hv hf]
      refine ⟨hs, fun _ _ => rfl, rfl, ?_, fun _ => rfl⟩
      intro o1 ho1
      rw [hg] at ho1; cases ho1
      rw [hf]
      exact ⟨fun o' e' => (by cases e'), fun e1 e' => (by cases e'; exact ⟨rfl, rfl⟩)⟩
    | ok o' =>
      have hl : o'.params.length = ho.paddr.length := by
        rw [hlen o o' hf]; exact derefs_length _ _ _ hd
      obtain ⟨s1, s2, s3, s4⟩ := store_spec h hs k ho hk o' hl
      rw [updateE_of_ok h k f ho o o' hv hf]
      refine ⟨s1, s3, s4, ?_, fun hn => by rw [hg] at hn; cases hn⟩
      intro o1 ho1
      rw [hg] at ho1; cases ho1
      rw [hf]
      exact ⟨fun o'' e' => (by cases e'; exact ⟨s2, rfl⟩), fun e1 e' => (by cases e')⟩

/-- the register an operation writes -/
def HOp.target : HOp ℝ → Nat
  | .newVec j _ _ _ _ => j
  | .newDim j _ _ _ _ => j
  | .setFreq k _ => k
  | .setPar k _ => k
  | .matchSome k _ => k
  | .setSome k _ => k
  | .setOne k _ _ => k
  | .fire k => k
  | .copy _ j => j
  | .sliceCopy _ j => j
  | .assign _ j => j
  | .sliceAssign _ j => j
  | .baseAssign _ j => j

/-- an operation either leaves the heap as it is or puts a wholly new object into its target -/
def AllocLike (h h' : Heap ℝ) (j : Nat) : Prop := h' = h ∨ ∃ o, h' = h.allocObj j o

theorem allocLike_spec (h h' : Heap ℝ) (hs : Sep h) (j : Nat) (ha : AllocLike h h' j) :
    Sep h' ∧ (∀ r, r ≠ j → h'.get r = h.get r) ∧ h'.regs.length = h.regs.length := by
  rcases ha with rfl | ⟨o, rfl⟩
  · exact ⟨hs, fun _ _ => rfl, rfl⟩
  · obtain ⟨a1, _, a3, a4⟩ := alloc_spec h hs j o
    exact ⟨a1, a3, a4⟩

theorem create_allocLike (h : Heap ℝ) (j : Nat) (r : Except Err (Obj ℝ)) : AllocLike h (h.create j r).1 j := by
  unfold Heap.create
  cases r with
  | ok o => exact Or.inr ⟨o, rfl⟩
  | error e => exact Or.inl rfl

theorem copy_allocLike (h : Heap ℝ) (k j : Nat) : AllocLike h (stepH h (.copy k j)) j := by
  simp only [stepH, applyH]
  cases h.view k with
  | error e => exact Or.inl rfl
  | ok p => exact Or.inr ⟨_, rfl⟩

theorem sliceCopy_allocLike (h : Heap ℝ) (k j : Nat) : AllocLike h (stepH h (.sliceCopy k j)) j := by
  simp only [stepH, applyH]
  cases h.view k with
  | error e => exact Or.inl rfl
  | ok p => exact Or.inr ⟨_, rfl⟩

theorem assign_allocLike (h : Heap ℝ) (k j : Nat) : AllocLike h (stepH h (.assign k j)) j := by
  simp only [stepH, applyH]
  cases h.view k with
  | error e => exact Or.inl rfl
  | ok p =>
    cases h.view j with
    | error e => exact Or.inl rfl
    | ok q =>
      simp only
      split
      · exact Or.inl rfl
      · split
        · exact Or.inl rfl
        · exact Or.inr ⟨_, rfl⟩

theorem sliceAssign_allocLike (h : Heap ℝ) (k j : Nat) : AllocLike h (stepH h (.sliceAssign k j)) j := by
  simp only [stepH, applyH]
  cases h.view k with
  | error e => exact Or.inl rfl
  | ok p =>
    cases h.view j with
    | error e => exact Or.inl rfl
    | ok q =>
      simp only
      split
      · exact Or.inl rfl
      · exact Or.inr ⟨_, rfl⟩

theorem baseAssign_allocLike (h : Heap ℝ) (k j : Nat) : AllocLike h (stepH h (.baseAssign k j)) j := by
  simp only [stepH, applyH]
  cases h.view k with
  | error e => exact Or.inl rfl
  | ok p =>
    cases h.view j with
    | error e => exact Or.inl rfl
    | ok q =>
      simp only
      split
      · exact Or.inl rfl
      · exact Or.inr ⟨_, rfl⟩

theorem fire_len (o o' : Obj ℝ) (e : (Except.ok o.fire : Except Err (Obj ℝ)) = .ok o') :
    o'.params.length = o.params.length := by
  cases e; rw [(fire_fields o).1]

/-- FRAME: an operation keeps the separation of the heap and does not change what any register
other than its target holds -/
theorem step_sep_frame (h : Heap ℝ) (hs : Sep h) (op : HOp ℝ) :
    Sep (stepH h op) ∧ (∀ r, r ≠ op.target → (stepH h op).get r = h.get r) ∧
    (stepH h op).regs.length = h.regs.length := by
  cases op with
  | newVec j ord m a p =>
    cases ord <;> exact allocLike_spec h _ hs j (create_allocLike h j _)
  | newDim j ord n m a =>
    cases ord <;> exact allocLike_spec h _ hs j (create_allocLike h j _)
  | setFreq k p =>
    obtain ⟨u1, u2, u3, _⟩ := update_spec h hs k (fun o => o.setFrequencies p)
      (fun o => (setFrequencies_same o p).len)
    exact ⟨u1, u2, u3⟩
  | setPar k θ =>
    obtain ⟨u1, u2, u3, _⟩ := updateE_spec h hs k (fun o => o.matchReq (reqOfList θ))
      (fun o o' e => (matchReq_same o o' _ e).len)
    exact ⟨u1, u2, u3⟩
  | matchSome k pl =>
    obtain ⟨u1, u2, u3, _⟩ := updateE_spec h hs k (fun o => o.matchReq (reqOfPairs pl))
      (fun o o' e => (matchReq_same o o' _ e).len)
    exact ⟨u1, u2, u3⟩
  | setSome k pl =>
    obtain ⟨u1, u2, u3, _⟩ := updateE_spec h hs k (fun o => o.setReq (reqOfPairs pl))
      (fun o o' e => (setReq_same o o' _ e).len)
    exact ⟨u1, u2, u3⟩
  | setOne k i v =>
    obtain ⟨u1, u2, u3, _⟩ := updateE_spec h hs k (fun o => o.setOne i v)
      (fun o o' e => (setOne_same o o' i v e).len)
    exact ⟨u1, u2, u3⟩
  | fire k =>
    obtain ⟨u1, u2, u3, _⟩ := updateE_spec h hs k (fun o => .ok o.fire) fire_len
    exact ⟨u1, u2, u3⟩
  | copy k j => exact allocLike_spec h _ hs j (copy_allocLike h k j)
  | sliceCopy k j => exact allocLike_spec h _ hs j (sliceCopy_allocLike h k j)
  | assign k j => exact allocLike_spec h _ hs j (assign_allocLike h k j)
  | sliceAssign k j => exact allocLike_spec h _ hs j (sliceAssign_allocLike h k j)
  | baseAssign k j => exact allocLike_spec h _ hs j (baseAssign_allocLike h k j)

theorem sep_empty (n : Nat) : Sep (Heap.empty n : Heap ℝ) := by
  have : ∀ k, (Heap.empty n : Heap ℝ).obj? k = none := by
    intro k
    simp only [Heap.obj?, Heap.empty]
    by_cases hk : k < n
    · simp [hk]
    · simp [hk]
  exact ⟨fun k ho e => (by rw [this k] at e; cases e), fun k ho e => (by rw [this k] at e; cases e),
    fun k _ ho _ _ e => (by rw [this k] at e; cases e)⟩

theorem run_sep (h : Heap ℝ) (hs : Sep h) (ops : List (HOp ℝ)) : Sep (runH h ops) := by
  induction ops generalizing h with
  | nil => exact hs
  | cons op rest ih => exact ih _ (step_sep_frame h hs op).1

/-! ### what an operation puts into its target -/

theorem get_lt (h : Heap ℝ) (k : Nat) (o : Obj ℝ) (e : h.get k = some o) : k < h.regs.length := by
  obtain ⟨ho, hv⟩ := get_eq_some h k o e
  exact obj?_lt h k ho (view_ok h k ho o hv).1

theorem alloc_get_target (h : Heap ℝ) (hs : Sep h) (j : Nat) (o o' : Obj ℝ)
    (e : (h.allocObj j o).get j = some o') : o' = o := by
  obtain ⟨_, a2, _, a4⟩ := alloc_spec h hs j o
  have hlt : j < h.regs.length := by rw [← a4]; exact get_lt _ j o' e
  rw [a2 hlt] at e; cases e; rfl

theorem create_effect (h : Heap ℝ) (j : Nat) (r : Except Err (Obj ℝ)) :
    (∃ o, r = .ok o ∧ (h.create j r).1 = h.allocObj j o ∧ (h.create j r).2 = none) ∨
    (∃ e, r = .error e ∧ (h.create j r).1 = h ∧ (h.create j r).2 = some (.exc e)) := by
  unfold Heap.create
  cases r with
  | ok o => exact Or.inl ⟨o, rfl, rfl, rfl⟩
  | error e => exact Or.inr ⟨e, rfl, rfl, rfl⟩

theorem copy_effect (h : Heap ℝ) (k j : Nat) :
    (h.get k = none ∧ stepH h (.copy k j) = h) ∨
    (∃ src, h.get k = some src ∧ stepH h (.copy k j) = h.allocObj j src.copyCtor) := by
  simp only [stepH, applyH]
  cases hv : h.view k with
  | error e => exact Or.inl ⟨by simp [Heap.get, hv], rfl⟩
  | ok p => obtain ⟨ho, src⟩ := p; exact Or.inr ⟨src, (view_ok h k ho src hv).2.2.1, rfl⟩

theorem sliceCopy_effect (h : Heap ℝ) (k j : Nat) :
    (h.get k = none ∧ stepH h (.sliceCopy k j) = h) ∨
    (∃ src, h.get k = some src ∧ stepH h (.sliceCopy k j) = h.allocObj j src.copySimplexPart) := by
  simp only [stepH, applyH]
  cases hv : h.view k with
  | error e => exact Or.inl ⟨by simp [Heap.get, hv], rfl⟩
  | ok p => obtain ⟨ho, src⟩ := p; exact Or.inr ⟨src, (view_ok h k ho src hv).2.2.1, rfl⟩

theorem assign_effect (h : Heap ℝ) (k j : Nat) :
    stepH h (.assign k j) = h ∨
    (∃ src tgt, h.get k = some src ∧ h.get j = some tgt ∧ src.vValues.isSome = tgt.vValues.isSome ∧ k ≠ j ∧
      stepH h (.assign k j) = h.allocObj j (tgt.assign src)) := by
  simp only [stepH, applyH]
  cases hv : h.view k with
  | error e => exact Or.inl rfl
  | ok p =>
    obtain ⟨hk, src⟩ := p
    cases hw : h.view j with
    | error e => exact Or.inl rfl
    | ok q =>
      obtain ⟨hj, tgt⟩ := q
      simp only
      split
      · exact Or.inl rfl
      · rename_i hc
        split
        · exact Or.inl rfl
        · rename_i hne
          exact Or.inr ⟨src, tgt, (view_ok h k hk src hv).2.2.1, (view_ok h j hj tgt hw).2.2.1,
            by simpa using hc, hne, rfl⟩

theorem sliceAssign_effect (h : Heap ℝ) (k j : Nat) :
    stepH h (.sliceAssign k j) = h ∨
    (∃ src tgt, h.get k = some src ∧ h.get j = some tgt ∧ src.vValues.isSome = true ∧ tgt.vValues = none ∧
      stepH h (.sliceAssign k j) = h.allocObj j (tgt.assignSimplexPart src)) := by
  simp only [stepH, applyH]
  cases hv : h.view k with
  | error e => exact Or.inl rfl
  | ok p =>
    obtain ⟨hk, src⟩ := p
    cases hw : h.view j with
    | error e => exact Or.inl rfl
    | ok q =>
      obtain ⟨hj, tgt⟩ := q
      simp only
      split
      · exact Or.inl rfl
      · rename_i hc
        simp only [Bool.or_eq_true, Bool.not_eq_true', not_or, Bool.not_eq_false, Bool.not_eq_true] at hc
        refine Or.inr ⟨src, tgt, (view_ok h k hk src hv).2.2.1, (view_ok h j hj tgt hw).2.2.1, hc.1, ?_, rfl⟩
        cases ht : tgt.vValues with
        | none => rfl
        | some w => rw [ht] at hc; simp at hc

theorem baseAssign_effect (h : Heap ℝ) (k j : Nat) :
    stepH h (.baseAssign k j) = h ∨
    (∃ src tgt, h.get k = some src ∧ h.get j = some tgt ∧ src.vValues = none ∧ tgt.vValues.isSome = true ∧
      src.dim = tgt.dim ∧ stepH h (.baseAssign k j) = h.allocObj j (tgt.assignSimplexPart src)) := by
  simp only [stepH, applyH]
  cases hv : h.view k with
  | error e => exact Or.inl rfl
  | ok p =>
    obtain ⟨hk, src⟩ := p
    cases hw : h.view j with
    | error e => exact Or.inl rfl
    | ok q =>
      obtain ⟨hj, tgt⟩ := q
      simp only
      split
      · exact Or.inl rfl
      · rename_i hc
        simp only [Bool.or_eq_true, Bool.not_eq_true', decide_eq_true_eq, not_or, Bool.not_eq_true,
          Bool.not_eq_false, Decidable.not_not] at hc
        refine Or.inr ⟨src, tgt, (view_ok h k hk src hv).2.2.1, (view_ok h j hj tgt hw).2.2.1, ?_, hc.1.2, hc.2, rfl⟩
        cases hs' : src.vValues with
        | none => rfl
        | some w => have := hc.1.1; rw [hs'] at this; simp at this

/-! ### the invariant of the heap over histories -/

/-- separation + every object of the heap satisfies the object invariant -/
def HInv (h : Heap ℝ) : Prop := Sep h ∧ ∀ r o, h.get r = some o → OK o

/-- the calls the history theorems quantify over.  Constructors are called with arguments inside
the property's quantifier.  Setters: arguments inside the property's quantifier (positive
probability vectors / strictly decreasing ordered values summing to one, parameters in the open
interval), OR — on an object built with the strict constraint — ANY values (`setFrequencies`: a
vector of at least `dim` entries on a plain `Simplex`; on an `OrderedSimplex` only values inside the
quantifier, or a non-empty vector of another size, which is rejected).  Copies: any.  The assignment through a base-class reference is
excluded (it leaves `vValues_` behind: `baseAssign_breaks_values`). -/
def Adm (h : Heap ℝ) : HOp ℝ → Prop
  | .newVec _ false m _ p => ValidMethod m ∧ ValidProbs p
  | .newVec _ true m _ p => ValidMethod m ∧ ValidOrdered p
  | .newDim _ _ n m _ => ValidMethod m ∧ 0 < n ∧ n < 2 ^ 31
  | .setFreq k p => ∀ o, h.get k = some o → SetFreqArg o p
  | .setPar k θ => ∀ o, h.get k = some o → (ReqOpen (reqOfList θ) 1 o.params.length ∨ Strict o)
  | .matchSome k pl => ∀ o, h.get k = some o → (ReqOpen (reqOfPairs pl) 1 o.params.length ∨ Strict o)
  | .setSome k pl => ∀ o, h.get k = some o → (ReqOpen (reqOfPairs pl) 1 o.params.length ∨ Strict o)
  | .setOne k _ v => ∀ o, h.get k = some o → ((0 < v ∧ v < 1) ∨ Strict o)
  | .fire _ => True
  | .copy _ _ => True
  | .sliceCopy _ _ => True
  | .assign _ _ => True
  | .sliceAssign _ _ => True
  | .baseAssign _ _ => False

/-- a history all of whose calls are admissible in the state they are made in -/
def AdmRun : Heap ℝ → List (HOp ℝ) → Prop
  | _, [] => True
  | h, op :: rest => Adm h op ∧ AdmRun (stepH h op) rest

/-- every ratio cache of the heap holds the ratios of the current parameters -/
def HFresh (h : Heap ℝ) : Prop := ∀ r o, h.get r = some o → Fresh o

/-- what one admissible call establishes for the object in its target register: the invariant, and
— if the call did not raise and the caches were fresh — a fresh cache -/
theorem step_target (h : Heap ℝ) (hi : HInv h) (op : HOp ℝ) (ha : Adm h op) (o : Obj ℝ)
    (e : (stepH h op).get op.target = some o) :
    OK o ∧ (HFresh h → (applyH h op).2 = none → Fresh o) := by
  have same : stepH h op = h → OK o ∧ (HFresh h → (applyH h op).2 = none → Fresh o) := by
    intro hs; rw [hs] at e; exact ⟨hi.2 _ o e, fun hf _ => hf _ o e⟩
  have alloc : ∀ o1, stepH h op = h.allocObj op.target o1 → OK o1 → (HFresh h → Fresh o1) →
      OK o ∧ (HFresh h → (applyH h op).2 = none → Fresh o) := by
    intro o1 hs h1 h2
    rw [hs] at e
    rw [alloc_get_target h hi.1 _ o1 o e]
    exact ⟨h1, fun hf _ => h2 hf⟩
  cases op with
  | newVec j ord m a p =>
    cases ord with
    | false =>
      obtain ⟨o1, e1, b1, _⟩ := construct_ok p m a ha.1 ha.2
      rcases create_effect h j (construct p m a) with ⟨o2, e2, e3, _⟩ | ⟨err, e2, _⟩
      · rw [e1] at e2; cases e2
        exact alloc o1 e3 b1.ok (fun _ => b1.fresh)
      · rw [e1] at e2; cases e2
    | true =>
      obtain ⟨o1, e1, b1, _⟩ := oConstruct_ok p m a ha.1 ha.2
      rcases create_effect h j (oConstruct p m a) with ⟨o2, e2, e3, _⟩ | ⟨err, e2, _⟩
      · rw [e1] at e2; cases e2
        exact alloc o1 e3 b1.ok (fun _ => b1.fresh)
      · rw [e1] at e2; cases e2
  | newDim j ord n m a =>
    cases ord with
    | false =>
      obtain ⟨o1, e1, b1, _⟩ := constructDim_ok n m a ha.1 ha.2.1 ha.2.2
      rcases create_effect h j (constructDim n m a) with ⟨o2, e2, e3, _⟩ | ⟨err, e2, _⟩
      · rw [e1] at e2; cases e2
        exact alloc o1 e3 b1.ok (fun _ => b1.fresh)
      · rw [e1] at e2; cases e2
    | true =>
      obtain ⟨o1, e1, b1, _⟩ := oConstructDim_ok n m a ha.1 ha.2.1 ha.2.2
      rcases create_effect h j (oConstructDim n m a) with ⟨o2, e2, e3, _⟩ | ⟨err, e2, _⟩
      · rw [e1] at e2; cases e2
        exact alloc o1 e3 b1.ok (fun _ => b1.fresh)
      · rw [e1] at e2; cases e2
  | setFreq k p =>
    obtain ⟨_, _, _, u4, u5⟩ := update_spec h hi.1 k (fun o => o.setFrequencies p)
      (fun o => (setFrequencies_same o p).len)
    cases hg : h.get k with
    | none => exact same (u5 hg)
    | some o0 =>
      have h1 : (stepH h (.setFreq k p)).get k = some (o0.setFrequencies p).1 := (u4 o0 hg).1
      have h2 : (applyH h (.setFreq k p)).2 = Option.map HErr.exc (o0.setFrequencies p).2 := (u4 o0 hg).2
      have e' : (stepH h (.setFreq k p)).get k = some o := e
      rw [h1] at e'; rw [← Option.some.inj e']
      obtain ⟨p1, _, p3, _⟩ := setFrequencies_pres o0 (hi.2 k o0 hg) p (ha o0 hg)
      refine ⟨p1, fun _ hacc => p3 ?_⟩
      rw [h2] at hacc
      cases hx : (o0.setFrequencies p).2 with
      | none => rfl
      | some err => rw [hx] at hacc; cases hacc
  | setPar k θ =>
    obtain ⟨_, _, _, u4, u5⟩ := updateE_spec h hi.1 k (fun o => o.matchReq (reqOfList θ))
      (fun o o' e => (matchReq_same o o' _ e).len)
    cases hg : h.get k with
    | none => exact same (u5 hg)
    | some o0 =>
      cases hf : o0.matchReq (reqOfList θ) with
      | error err => exact same ((u4 o0 hg).2 err hf).1
      | ok o1 =>
        have h1 : (stepH h (.setPar k θ)).get k = some o1 := ((u4 o0 hg).1 o1 hf).1
        have e' : (stepH h (.setPar k θ)).get k = some o := e
        rw [h1] at e'; rw [← Option.some.inj e']
        obtain ⟨p1, p2, _⟩ := matchReq_ok o0 (hi.2 k o0 hg) _ (ha o0 hg) o1 hf
        exact ⟨p1, fun hf' _ => p2 (hf' k o0 hg)⟩
  | matchSome k pl =>
    obtain ⟨_, _, _, u4, u5⟩ := updateE_spec h hi.1 k (fun o => o.matchReq (reqOfPairs pl))
      (fun o o' e => (matchReq_same o o' _ e).len)
    cases hg : h.get k with
    | none => exact same (u5 hg)
    | some o0 =>
      cases hf : o0.matchReq (reqOfPairs pl) with
      | error err => exact same ((u4 o0 hg).2 err hf).1
      | ok o1 =>
        have h1 : (stepH h (.matchSome k pl)).get k = some o1 := ((u4 o0 hg).1 o1 hf).1
        have e' : (stepH h (.matchSome k pl)).get k = some o := e
        rw [h1] at e'; rw [← Option.some.inj e']
        obtain ⟨p1, p2, _⟩ := matchReq_ok o0 (hi.2 k o0 hg) _ (ha o0 hg) o1 hf
        exact ⟨p1, fun hf' _ => p2 (hf' k o0 hg)⟩
  | setSome k pl =>
    obtain ⟨_, _, _, u4, u5⟩ := updateE_spec h hi.1 k (fun o => o.setReq (reqOfPairs pl))
      (fun o o' e => (setReq_same o o' _ e).len)
    cases hg : h.get k with
    | none => exact same (u5 hg)
    | some o0 =>
      cases hf : o0.setReq (reqOfPairs pl) with
      | error err => exact same ((u4 o0 hg).2 err hf).1
      | ok o1 =>
        have h1 : (stepH h (.setSome k pl)).get k = some o1 := ((u4 o0 hg).1 o1 hf).1
        have e' : (stepH h (.setSome k pl)).get k = some o := e
        rw [h1] at e'; rw [← Option.some.inj e']
        obtain ⟨p1, p2, _⟩ := setReq_ok o0 (hi.2 k o0 hg).toShape _ (ha o0 hg) o1 hf
        exact ⟨p1, fun _ _ => p2⟩
  | setOne k i v =>
    obtain ⟨_, _, _, u4, u5⟩ := updateE_spec h hi.1 k (fun o => o.setOne i v)
      (fun o o' e => (setOne_same o o' i v e).len)
    cases hg : h.get k with
    | none => exact same (u5 hg)
    | some o0 =>
      cases hf : o0.setOne i v with
      | error err => exact same ((u4 o0 hg).2 err hf).1
      | ok o1 =>
        have h1 : (stepH h (.setOne k i v)).get k = some o1 := ((u4 o0 hg).1 o1 hf).1
        have e' : (stepH h (.setOne k i v)).get k = some o := e
        rw [h1] at e'; rw [← Option.some.inj e']
        obtain ⟨p1, p2, _⟩ := setOne_ok o0 (hi.2 k o0 hg).toShape i v (ha o0 hg) o1 hf
        exact ⟨p1, fun _ _ => p2⟩
  | fire k =>
    obtain ⟨_, _, _, u4, u5⟩ := updateE_spec h hi.1 k (fun o => .ok o.fire) fire_len
    cases hg : h.get k with
    | none => exact same (u5 hg)
    | some o0 =>
      have h1 : (stepH h (.fire k)).get k = some o0.fire := ((u4 o0 hg).1 o0.fire rfl).1
      have e' : (stepH h (.fire k)).get k = some o := e
      rw [h1] at e'; rw [← Option.some.inj e']
      obtain ⟨p1, p2⟩ := fire_ok o0 (hi.2 k o0 hg).toShape
      exact ⟨p1, fun _ _ => p2⟩
  | copy k j =>
    rcases copy_effect h k j with ⟨_, e1⟩ | ⟨src, hsrc, e1⟩
    · exact same e1
    · exact alloc _ e1 (by rw [copyCtor_eq]; exact hi.2 k src hsrc)
        (fun hf => by rw [copyCtor_eq]; exact hf k src hsrc)
  | sliceCopy k j =>
    rcases sliceCopy_effect h k j with ⟨_, e1⟩ | ⟨src, hsrc, e1⟩
    · exact same e1
    · exact alloc _ e1 (by rw [copySimplexPart_eq]; exact ok_slice src (hi.2 k src hsrc))
        (fun hf => by rw [copySimplexPart_eq]; exact hf k src hsrc)
  | assign k j =>
    rcases assign_effect h k j with e1 | ⟨src, tgt, hsrc, _, _, _, e1⟩
    · exact same e1
    · exact alloc _ e1 (by rw [assign_eq]; exact hi.2 k src hsrc)
        (fun hf => by rw [assign_eq]; exact hf k src hsrc)
  | sliceAssign k j =>
    rcases sliceAssign_effect h k j with e1 | ⟨src, tgt, hsrc, _, _, htn, e1⟩
    · exact same e1
    · exact alloc _ e1 (by rw [assignSimplexPart_eq, htn]; exact ok_slice src (hi.2 k src hsrc))
        (fun hf => by rw [assignSimplexPart_eq]; exact hf k src hsrc)
  | baseAssign k j => exact absurd ha id

theorem step_inv (h : Heap ℝ) (hi : HInv h) (op : HOp ℝ) (ha : Adm h op) : HInv (stepH h op) := by
  obtain ⟨f1, f2, _⟩ := step_sep_frame h hi.1 op
  refine ⟨f1, ?_⟩
  intro r o e
  by_cases hr : r = op.target
  · subst hr; exact (step_target h hi op ha o e).1
  · rw [f2 r hr] at e; exact hi.2 r o e

/-- a call that does not raise keeps every ratio cache of the heap fresh -/
theorem step_fresh (h : Heap ℝ) (hi : HInv h) (hf : HFresh h) (op : HOp ℝ) (ha : Adm h op)
    (hacc : (applyH h op).2 = none) : HFresh (stepH h op) := by
  obtain ⟨_, f2, _⟩ := step_sep_frame h hi.1 op
  intro r o e
  by_cases hr : r = op.target
  · subst hr; exact (step_target h hi op ha o e).2 hf hacc
  · rw [f2 r hr] at e; exact hf r o e

theorem inv_empty (n : Nat) : HInv (Heap.empty n : Heap ℝ) := by
  refine ⟨sep_empty n, ?_⟩
  intro r o e
  have := get_lt _ r o e
  have hk : r < n := by simpa [Heap.empty] using this
  have : (Heap.empty n : Heap ℝ).obj? r = none := by simp [Heap.obj?, Heap.empty, hk]
  rw [(get_none _ r this).1] at e; cases e

theorem run_inv (h : Heap ℝ) (hi : HInv h) (ops : List (HOp ℝ)) (ha : AdmRun h ops) : HInv (runH h ops) := by
  induction ops generalizing h with
  | nil => exact hi
  | cons op rest ih => exact ih _ (step_inv h hi op ha.1) ha.2

/-- no call of the history raises -/
def NoRaise : Heap ℝ → List (HOp ℝ) → Prop
  | _, [] => True
  | h, op :: rest => (applyH h op).2 = none ∧ NoRaise (stepH h op) rest

theorem fresh_empty (n : Nat) : HFresh (Heap.empty n : Heap ℝ) := by
  intro r o e
  have := get_lt _ r o e
  have hk : r < n := by simpa [Heap.empty] using this
  have : (Heap.empty n : Heap ℝ).obj? r = none := by simp [Heap.obj?, Heap.empty, hk]
  rw [(get_none _ r this).1] at e; cases e

theorem run_fresh (h : Heap ℝ) (hi : HInv h) (hf : HFresh h) (ops : List (HOp ℝ)) (ha : AdmRun h ops)
    (hn : NoRaise h ops) : HFresh (runH h ops) := by
  induction ops generalizing h with
  | nil => exact hf
  | cons op rest ih =>
    exact ih _ (step_inv h hi op ha.1) (step_fresh h hi hf op ha.1 hn.1) ha.2 hn.2

/-! ### frame over histories, what copies carry -/

theorem run_regs_length (h : Heap ℝ) (hs : Sep h) (ops : List (HOp ℝ)) :
    (runH h ops).regs.length = h.regs.length := by
  induction ops generalizing h with
  | nil => rfl
  | cons op rest ih =>
    obtain ⟨f1, _, f3⟩ := step_sep_frame h hs op
    exact (ih _ f1).trans f3

/-- calls none of which targets register `r` leave it exactly as it was (every member) -/
theorem run_frame (h : Heap ℝ) (hs : Sep h) (r : Nat) (ops : List (HOp ℝ))
    (ht : ∀ op ∈ ops, op.target ≠ r) : (runH h ops).get r = h.get r := by
  induction ops generalizing h with
  | nil => rfl
  | cons op rest ih =>
    obtain ⟨f1, f2, _⟩ := step_sep_frame h hs op
    have h1 := ih (stepH h op) f1 (fun o ho => ht o (by simp [ho]))
    have h2 := f2 r (Ne.symm (ht op (by simp)))
    exact h1.trans h2

theorem copy_carries (h : Heap ℝ) (hs : Sep h) (k j : Nat) (src : Obj ℝ) (hk : h.get k = some src)
    (hj : j < h.regs.length) : (stepH h (.copy k j)).get j = some src := by
  rcases copy_effect h k j with ⟨hn, _⟩ | ⟨src', hsrc, e1⟩
  · rw [hk] at hn; cases hn
  · rw [hk] at hsrc; cases hsrc
    rw [e1, (alloc_spec h hs j _).2.1 hj, copyCtor_eq]

theorem sliceCopy_carries (h : Heap ℝ) (hs : Sep h) (k j : Nat) (src : Obj ℝ) (hk : h.get k = some src)
    (hj : j < h.regs.length) : (stepH h (.sliceCopy k j)).get j = some { src with vValues := none } := by
  rcases sliceCopy_effect h k j with ⟨hn, _⟩ | ⟨src', hsrc, e1⟩
  · rw [hk] at hn; cases hn
  · rw [hk] at hsrc; cases hsrc
    rw [e1, (alloc_spec h hs j _).2.1 hj, copySimplexPart_eq]

theorem assign_carries (h : Heap ℝ) (hs : Sep h) (k j : Nat) (src tgt : Obj ℝ) (hk : h.get k = some src)
    (hj : h.get j = some tgt) (hc : src.vValues.isSome = tgt.vValues.isSome) :
    (stepH h (.assign k j)).get j = some src ∧ (applyH h (.assign k j)).2 = none := by
  have hjl := get_lt h j tgt hj
  obtain ⟨hk', hvk⟩ := get_eq_some h k src hk
  obtain ⟨hj', hvj⟩ := get_eq_some h j tgt hj
  by_cases hkj : k = j
  · subst hkj
    rw [hk] at hj; cases hj
    have : applyH h (.assign k k) = (h, none) := by
      simp only [applyH, hvk]
      simp
    simp only [stepH, this]; exact ⟨hk, trivial⟩
  · have : applyH h (.assign k j) = (h.allocObj j (tgt.assign src), none) := by
      simp only [applyH, hvk, hvj]
      simp [hc, hkj]
    simp only [stepH, this]
    rw [(alloc_spec h hs j _).2.1 hjl, assign_eq]; exact ⟨rfl, trivial⟩

theorem sliceAssign_carries (h : Heap ℝ) (hs : Sep h) (k j : Nat) (src tgt : Obj ℝ) (hk : h.get k = some src)
    (hj : h.get j = some tgt) (hcs : src.vValues.isSome = true) (hct : tgt.vValues = none) :
    (stepH h (.sliceAssign k j)).get j = some { src with vValues := none } := by
  have hjl := get_lt h j tgt hj
  obtain ⟨hk', hvk⟩ := get_eq_some h k src hk
  obtain ⟨hj', hvj⟩ := get_eq_some h j tgt hj
  have : applyH h (.sliceAssign k j) = (h.allocObj j (tgt.assignSimplexPart src), none) := by
    simp only [applyH, hvk, hvj]
    simp [hcs, hct]
  simp only [stepH, this]
  rw [(alloc_spec h hs j _).2.1 hjl, assignSimplexPart_eq, hct]

/-! ### rejected calls -/

/-- a call that raises leaves the heap exactly as it was — except `setFrequencies` -/
theorem rejected_unchanged (h : Heap ℝ) (hs : Sep h) (op : HOp ℝ) (hr : (applyH h op).2 ≠ none)
    (hop : ∀ k p, op ≠ .setFreq k p) : stepH h op = h := by
  cases op with
  | newVec j ord m a p =>
    cases ord
    · rcases create_effect h j (construct p m a) with ⟨o, _, _, e3⟩ | ⟨err, _, e2, _⟩
      · exact absurd e3 hr
      · exact e2
    · rcases create_effect h j (oConstruct p m a) with ⟨o, _, _, e3⟩ | ⟨err, _, e2, _⟩
      · exact absurd e3 hr
      · exact e2
  | newDim j ord n m a =>
    cases ord
    · rcases create_effect h j (constructDim n m a) with ⟨o, _, _, e3⟩ | ⟨err, _, e2, _⟩
      · exact absurd e3 hr
      · exact e2
    · rcases create_effect h j (oConstructDim n m a) with ⟨o, _, _, e3⟩ | ⟨err, _, e2, _⟩
      · exact absurd e3 hr
      · exact e2
  | setFreq k p => exact absurd rfl (hop k p)
  | setPar k θ =>
    obtain ⟨_, _, _, u4, u5⟩ := updateE_spec h hs k (fun o => o.matchReq (reqOfList θ))
      (fun o o' e => (matchReq_same o o' _ e).len)
    cases hg : h.get k with
    | none => exact u5 hg
    | some o0 =>
      cases hf : o0.matchReq (reqOfList θ) with
      | error err => exact ((u4 o0 hg).2 err hf).1
      | ok o1 => exact absurd ((u4 o0 hg).1 o1 hf).2 hr
  | matchSome k pl =>
    obtain ⟨_, _, _, u4, u5⟩ := updateE_spec h hs k (fun o => o.matchReq (reqOfPairs pl))
      (fun o o' e => (matchReq_same o o' _ e).len)
    cases hg : h.get k with
    | none => exact u5 hg
    | some o0 =>
      cases hf : o0.matchReq (reqOfPairs pl) with
      | error err => exact ((u4 o0 hg).2 err hf).1
      | ok o1 => exact absurd ((u4 o0 hg).1 o1 hf).2 hr
  | setSome k pl =>
    obtain ⟨_, _, _, u4, u5⟩ := updateE_spec h hs k (fun o => o.setReq (reqOfPairs pl))
      (fun o o' e => (setReq_same o o' _ e).len)
    cases hg : h.get k with
    | none => exact u5 hg
    | some o0 =>
      cases hf : o0.setReq (reqOfPairs pl) with
      | error err => exact ((u4 o0 hg).2 err hf).1
      | ok o1 => exact absurd ((u4 o0 hg).1 o1 hf).2 hr
  | setOne k i v =>
    obtain ⟨_, _, _, u4, u5⟩ := updateE_spec h hs k (fun o => o.setOne i v)
      (fun o o' e => (setOne_same o o' i v e).len)
    cases hg : h.get k with
    | none => exact u5 hg
    | some o0 =>
      cases hf : o0.setOne i v with
      | error err => exact ((u4 o0 hg).2 err hf).1
      | ok o1 => exact absurd ((u4 o0 hg).1 o1 hf).2 hr
  | fire k =>
    obtain ⟨_, _, _, u4, u5⟩ := updateE_spec h hs k (fun o => .ok o.fire) fire_len
    cases hg : h.get k with
    | none => exact u5 hg
    | some o0 => exact absurd ((u4 o0 hg).1 o0.fire rfl).2 hr
  | copy k j =>
    rcases copy_effect h k j with ⟨_, e1⟩ | ⟨src, hsrc, _⟩
    · exact e1
    · exfalso
      obtain ⟨ho, hv⟩ := get_eq_some h k src hsrc
      apply hr; simp only [applyH, hv]
  | sliceCopy k j =>
    rcases sliceCopy_effect h k j with ⟨_, e1⟩ | ⟨src, hsrc, _⟩
    · exact e1
    · exfalso
      obtain ⟨ho, hv⟩ := get_eq_some h k src hsrc
      apply hr; simp only [applyH, hv]
  | assign k j =>
    rcases assign_effect h k j with e1 | ⟨src, tgt, hsrc, htgt, hc, hne, _⟩
    · exact e1
    · exfalso
      obtain ⟨_, hv⟩ := get_eq_some h k src hsrc
      obtain ⟨_, hw⟩ := get_eq_some h j tgt htgt
      apply hr; simp only [applyH, hv, hw]; simp [hc, hne]
  | sliceAssign k j =>
    rcases sliceAssign_effect h k j with e1 | ⟨src, tgt, hsrc, htgt, hc, hn, _⟩
    · exact e1
    · exfalso
      obtain ⟨_, hv⟩ := get_eq_some h k src hsrc
      obtain ⟨_, hw⟩ := get_eq_some h j tgt htgt
      apply hr; simp only [applyH, hv, hw]; simp [hc, hn]
  | baseAssign k j =>
    rcases baseAssign_effect h k j with e1 | ⟨src, tgt, hsrc, htgt, hn, hc, hd, _⟩
    · exact e1
    · exfalso
      obtain ⟨_, hv⟩ := get_eq_some h k src hsrc
      obtain ⟨_, hw⟩ := get_eq_some h j tgt htgt
      apply hr; simp only [applyH, hv, hw]; simp [hn, hc, hd]

theorem setFrequencies_rejected (o : Obj ℝ) (p : List ℝ) (hr : (o.setFrequencies p).2 ≠ none) :
    EqButCache (o.setFrequencies p).1 o := by
  unfold Obj.setFrequencies at hr ⊢
  cases hv : o.vValues with
  | none => simp only [hv] at hr ⊢; exact setFrequenciesBase_rejected o p hr
  | some w =>
    simp only [hv] at hr ⊢
    unfold Obj.oSetFrequencies at hr ⊢
    split
    · exact EqButCache.refl _
    · split
      · exact EqButCache.refl _
      · rename_i h1 h2
        simp only [h1, h2, if_false] at hr
        cases hb : o.setFrequenciesBase (orderedToProbs p 1) with
        | mk o' err =>
          cases err with
          | none => rw [hb] at hr; simp at hr
          | some e =>
            simp only
            have := setFrequenciesBase_rejected o (orderedToProbs p 1) (by rw [hb]; simp)
            rw [hb] at this; exact this

/-- a `setFrequencies` that raises leaves every member of every object as it was, except the ratio
cache of the object it was called on -/
theorem rejected_setFrequencies (h : Heap ℝ) (hs : Sep h) (k : Nat) (p : List ℝ)
    (hr : (applyH h (.setFreq k p)).2 ≠ none) :
    ∀ r o, h.get r = some o → ∃ o', (stepH h (.setFreq k p)).get r = some o' ∧ EqButCache o' o ∧ (r ≠ k → o' = o) := by
  obtain ⟨_, u2, _, u4, _⟩ := update_spec h hs k (fun o => o.setFrequencies p)
    (fun o => (setFrequencies_same o p).len)
  intro r o hg
  by_cases hrk : r = k
  · subst hrk
    obtain ⟨g1, g2⟩ := u4 o hg
    refine ⟨_, g1, ?_, fun hne => absurd rfl hne⟩
    apply setFrequencies_rejected
    intro hn
    apply hr
    have : (applyH h (.setFreq r p)).2 = Option.map HErr.exc (o.setFrequencies p).2 := g2
    rw [this, hn]; rfl
  · exact ⟨o, by rw [← hg]; exact u2 r hrk, EqButCache.refl _, fun _ => rfl⟩

/-! ### the ratio cache is never read before it is rewritten -/

theorem eqButCache_iff (a b : Obj ℝ) : EqButCache a b ↔ a = { b with valpha := a.valpha } := by
  constructor
  · intro h
    cases a; cases b
    obtain ⟨h1, h2, h3, h4, h5⟩ := h
    simp only at h1 h2 h3 h4 h5
    subst h1 h2 h3 h4 h5
    rfl
  · intro h; rw [h]; exact ⟨rfl, rfl, rfl, rfl, rfl⟩

/-- `fireParameterChanged` on two objects that differ in the ratio cache only: the results differ
in the cache only — and not at all for the local-ratio coding (positive dimension), the one coding
that uses the cache -/
theorem fire_ignores_cache (a b : Obj ℝ) (h : EqButCache a b) :
    EqButCache a.fire b.fire ∧ (b.method = 2 → b.dim ≠ 0 → a.fire = b.fire) := by
  have hθ : a.θ = b.θ := by simp [Obj.θ, h.params]
  obtain ⟨a1, a2, a3, a4, a5, _, _⟩ := fire_fields a
  obtain ⟨b1, b2, b3, b4, b5, _, _⟩ := fire_fields b
  have hvp : a.fireBase.vProb = b.fireBase.vProb := by
    unfold Obj.fireBase
    rw [h.dim, h.method, hθ]
    split
    · simp [h.vProb]
    · split <;> simp [h.vProb]
  have hvv : a.fire.vValues = b.fire.vValues := by
    unfold Obj.fire Obj.refresh
    rw [(fireBase_fields a).2.2.2, (fireBase_fields b).2.2.2, h.vValues, hvp]
    cases b.vValues with
    | none => simp only [(fireBase_fields a).2.2.2, (fireBase_fields b).2.2.2, h.vValues]
    | some w => rfl
  have hE : EqButCache a.fire b.fire :=
    ⟨by rw [a1, b1, h.params], by rw [a2, b2, h.dim], by rw [a3, b3, h.method], by rw [a4, b4, hvp], hvv⟩
  refine ⟨hE, ?_⟩
  intro hm hd
  have hc : a.fire.valpha = b.fire.valpha := by
    rw [a5, b5, fireBase_cache a (by rw [h.dim]; exact hd), fireBase_cache b hd, h.method, hθ]
    simp [hm]
  rw [(eqButCache_iff _ _).mp hE, hc]

/-! ## Part C — the value-level object of `BppModel/Simplex.lean` is a projection of this model

`Simplex.St` (dimension, method, one constraint flag, parameter values, probabilities) is what C09 /
C13 build on and what the theorems of `Props/C19.lean` on objects are about.  The member functions
of `Simplex.lean` on `St` are the projections of the member functions of this file. -/

/-- forget the cache, the ordered values and the per-parameter constraints (all equal to `a`) -/
noncomputable def toSt (a : Bool) (o : Obj ℝ) : St ℝ := ⟨o.dim, o.method, a, o.θ, o.vProb⟩

def HasConstraint (a : Bool) (o : Obj ℝ) : Prop := ∀ p ∈ o.params, p.incl = a

theorem toSt_fire (a : Bool) (o : Obj ℝ) : toSt a o.fire = Simplex.fire (toSt a o) := by
  obtain ⟨f1, f2, f3, f4, _, _, _⟩ := fire_fields o
  have hθ := fire_θ o
  unfold toSt
  rw [f2, f3, hθ, f4]
  unfold Simplex.fire Obj.fireBase
  by_cases hd : o.dim = 0
  · simp [hd]
  · simp only [hd, if_false]
    match hm : o.method with
    | 0 => simp [probsOf]
    | 1 => simp [probsOf]
    | 2 => simp [probsOf, probsLocal, probsLocalFrom]
    | 3 => simp [probsOf]
    | n + 4 => simp [probsOf]

theorem testFrom_full (a : Bool) (req : Nat → Option ℝ) (i : Nat) (ps : List (Param ℝ)) (θ : List ℝ)
    (hc : ∀ p ∈ ps, p.incl = a) (hl : θ.length = ps.length) (hreq : ∀ k, k < ps.length → req (i + k) = θ[k]?) :
    testFrom req i ps = θ.all (inConstraint a) := by
  induction ps generalizing i θ with
  | nil => cases θ with
    | nil => rfl
    | cons _ _ => simp at hl
  | cons p ps ih =>
    cases θ with
    | nil => simp at hl
    | cons t θ =>
      have h0 : req i = some t := by simpa using hreq 0 (by simp)
      simp only [testFrom, h0, List.all_cons, hc p (by simp)]
      congr 1
      apply ih (i + 1) θ (fun q hq => hc q (by simp [hq])) (by simpa using hl)
      intro k hk
      have := hreq (k + 1) (by simp; omega)
      simpa [Nat.add_assoc, Nat.add_comm 1 k] using this

theorem changedFrom_full (req : Nat → Option ℝ) (i : Nat) (ps : List (Param ℝ)) (θ : List ℝ)
    (hl : θ.length = ps.length) (hreq : ∀ k, k < ps.length → req (i + k) = θ[k]?) :
    changedFrom req i ps = (List.zip (ps.map (·.value)) θ).any (fun (c, v) => !(Scalar.eqb c v)) := by
  induction ps generalizing i θ with
  | nil => cases θ with
    | nil => rfl
    | cons _ _ => simp at hl
  | cons p ps ih =>
    cases θ with
    | nil => simp at hl
    | cons t θ =>
      have h0 : req i = some t := by simpa using hreq 0 (by simp)
      simp only [changedFrom, h0, List.map_cons, List.zip_cons_cons, List.any_cons]
      congr 1
      apply ih (i + 1) θ (by simpa using hl)
      intro k hk
      have := hreq (k + 1) (by simp; omega)
      simpa [Nat.add_assoc, Nat.add_comm 1 k] using this

theorem reqOfList_at (θ : List ℝ) (k : Nat) : reqOfList θ (1 + k) = θ[k]? := by simp [reqOfList]

/-- `matchParametersValues` with one value per parameter -/
theorem matchReq_refines (a : Bool) (o : Obj ℝ) (θ : List ℝ) (hc : HasConstraint a o)
    (hl : θ.length = o.params.length) :
    (o.matchReq (reqOfList θ)).map (toSt a) = Simplex.matchParams (toSt a o) θ := by
  have ht := testFrom_full a (reqOfList θ) 1 o.params θ hc hl (fun k _ => reqOfList_at θ k)
  have hch := changedFrom_full (reqOfList θ) 1 o.params θ hl (fun k _ => reqOfList_at θ k)
  have hw := writeFrom_reqOfList o.params θ hl
  unfold Obj.matchReq Simplex.matchParams
  rw [ht]
  by_cases h1 : θ.all (inConstraint a) = true
  · have h1' : θ.all (inConstraint (toSt a o).allowNull) = true := h1
    simp only [h1, h1', if_true]
    have hch' : (List.zip (toSt a o).params θ).any (fun (c, v) => !(Scalar.eqb c v)) = changedFrom (reqOfList θ) 1 o.params := by
      rw [hch]; rfl
    rw [hch']
    by_cases h2 : changedFrom (reqOfList θ) 1 o.params = true
    · simp only [h2, if_true, Except.map]
      rw [toSt_fire]
      congr 2
      simp only [toSt, Obj.θ, hw]
    · simp only [h2, Except.map]
      rfl
  · have h1' : ¬ θ.all (inConstraint (toSt a o).allowNull) = true := h1
    simp only [h1, h1', Except.map]
    simp

theorem hasConstraint_cacheWrite (a : Bool) (o : Obj ℝ) (p : List ℝ) (hc : HasConstraint a o) :
    HasConstraint a (o.cacheWrite p) := by
  unfold HasConstraint; rw [(cacheWrite_fields o p).1]; exact hc

theorem toSt_cacheWrite (a : Bool) (o : Obj ℝ) (p : List ℝ) : toSt a (o.cacheWrite p) = toSt a o := by
  obtain ⟨c1, c2, c3, c4, _, _⟩ := cacheWrite_fields o p
  simp only [toSt, Obj.θ, c1, c2, c3, c4]

/-- outcome of a call that returns the object and the exception, as an `Except` -/
def pairToExcept {β : Type} : β × Option Err → Except Err β
  | (b, none) => .ok b
  | (_, some e) => .error e

/-- `Simplex::setFrequencies` -/
theorem setFrequenciesBase_refines (a : Bool) (o : Obj ℝ) (p : List ℝ) (hc : HasConstraint a o)
    (hm : ValidMethod o.method) (hl : o.params.length = o.dim - 1) :
    (pairToExcept (o.setFrequenciesBase p)).map (toSt a) = Simplex.setFrequencies (toSt a o) p := by
  unfold Simplex.setFrequencies Obj.setFrequenciesBase
  by_cases hd : o.dim = 0
  · have : (toSt a o).dim = 0 := hd
    simp only [hd, this, if_true, pairToExcept, Except.map]
  · have hd' : ¬ (toSt a o).dim = 0 := hd
    simp only [hd, hd', if_false]
    by_cases hs : sumOk p = true
    · simp only [hs, Bool.not_true, Bool.false_eq_true, if_false]
      by_cases hlt : p.length ≠ o.dim
      · have hlt' : p.length ≠ (toSt a o).dim := hlt
        simp only [hlt, hlt', ne_eq, not_false_eq_true, if_true, pairToExcept, Except.map]
      · have hlt' : ¬ p.length ≠ (toSt a o).dim := hlt
        simp only [hlt, hlt', if_false]
        have hle : o.dim ≤ p.length := by omega
        have hlen : (paramsOf o.method (p.take o.dim)).length = (o.cacheWrite (p.take o.dim)).params.length := by
          rw [(cacheWrite_fields o _).1, paramsOf_length _ _ hm, hl]; simp [hle]
        have hr := matchReq_refines a (o.cacheWrite (p.take o.dim)) _ (hasConstraint_cacheWrite a o _ hc) hlen
        rw [toSt_cacheWrite] at hr
        show _ = Simplex.matchParams (toSt a o) (paramsOf o.method (p.take o.dim))
        rw [← hr]
        cases (o.cacheWrite (p.take o.dim)).matchReq (reqOfList (paramsOf o.method (p.take o.dim))) with
        | ok o2 => rfl
        | error e => rfl
    · have hs' : sumOk p = false := by simpa using hs
      simp only [hs', Bool.not_false, if_true, pairToExcept, Except.map]

/-- `setParameterValue` -/
theorem setOne_refines (a : Bool) (o : Obj ℝ) (i : Nat) (v : ℝ) (hc : HasConstraint a o) :
    (o.setOne i v).map (toSt a) = Simplex.setOne (toSt a o) i v := by
  unfold Simplex.setOne Obj.setOne
  have hlenθ : (toSt a o).params.length = o.params.length := by simp [toSt, Obj.θ]
  by_cases hnf : i = 0 ∨ o.params.length < i
  · have hnf' : i = 0 ∨ (toSt a o).params.length < i := by rw [hlenθ]; exact hnf
    have hp : o.param? i = none := by
      unfold Obj.param?
      rcases hnf with h0 | hlt
      · simp [h0]
      · have : ¬ i = 0 := by omega
        simp only [this, if_false]
        exact List.getElem?_eq_none (by omega)
    simp only [hp, hnf', if_true, Except.map]
  · have hnf' : ¬ (i = 0 ∨ (toSt a o).params.length < i) := by rw [hlenθ]; exact hnf
    have hi : ¬ i = 0 := fun h => hnf (Or.inl h)
    have hlt : i - 1 < o.params.length := by omega
    have hp : o.param? i = some o.params[i - 1] := by
      unfold Obj.param?
      simp only [hi, if_false]
      exact List.getElem?_eq_getElem hlt
    have hcur : (toSt a o).params.getD (i - 1) default = (o.params[i - 1]).value := by
      simp [toSt, Obj.θ, List.getD_eq_getElem?_getD, hlt]
    have hincl : (o.params[i - 1]).incl = a := hc _ (List.getElem_mem hlt)
    simp only [hp, hnf', if_false, hcur, hincl]
    have ha : (toSt a o).allowNull = a := rfl
    rw [ha]
    by_cases hg : Scalar.gtb (Scalar.abs (v - (o.params[i - 1]).value)) Scalar.zero = true
    · simp only [hg, if_true]
      by_cases hcn : inConstraint a v = true
      · simp only [hcn, if_true, Except.map]
        rw [toSt_fire]
        congr 2
        simp [toSt, Obj.θ, List.map_set]
      · simp only [hcn, Except.map]
        simp
    · simp only [hg, Except.map]
      simp only [Bool.false_eq_true, if_false]
      rw [toSt_fire]

theorem newParams_refines (a : Bool) (vals : List ℝ) :
    (newParams a vals).map (fun ps => ps.map (·.value)) = vals.mapM (mkParam a) := by
  unfold newParams
  induction vals with
  | nil => rfl
  | cons v r ih =>
    rw [List.mapM_cons, List.mapM_cons]
    unfold mkParam at ih ⊢
    by_cases hcn : inConstraint a v = true
    · simp only [hcn, if_true, bind, Except.bind]
      rw [← ih]
      cases List.mapM (fun v => if inConstraint a v = true then Except.ok (⟨v, a⟩ : Param ℝ) else Except.error Err.constraint) r with
      | ok ps => rfl
      | error e => rfl
    · simp only [hcn, Except.map, bind, Except.bind]
      rfl

theorem newParams_incl (a : Bool) (vals : List ℝ) (ps : List (Param ℝ)) (e : newParams a vals = .ok ps) :
    ∀ q ∈ ps, q.incl = a := by
  unfold newParams at e
  induction vals generalizing ps with
  | nil => simp [List.mapM_nil, pure, Except.pure] at e; subst e; intro q hq; cases hq
  | cons v r ih =>
    rw [List.mapM_cons] at e
    by_cases hcn : inConstraint a v = true
    · simp only [hcn, if_true, bind, Except.bind] at e
      cases hr : List.mapM (fun v => if inConstraint a v = true then Except.ok (⟨v, a⟩ : Param ℝ) else Except.error Err.constraint) r with
      | error err => rw [hr] at e; cases e
      | ok qs =>
        rw [hr] at e
        simp only [pure, Except.pure, Except.ok.injEq] at e
        subst e
        intro q hq
        rcases List.mem_cons.mp hq with rfl | hq
        · rfl
        · exact ih qs hr q hq
    · simp only [hcn, bind, Except.bind] at e
      cases e

/-- `Simplex(const std::vector<double>&, method, allowNull)` -/
theorem construct_refines (p : List ℝ) (m : Nat) (a : Bool) :
    (SimplexObj.construct p m a).map (toSt a) = Simplex.construct p m a := by
  unfold SimplexObj.construct Simplex.construct
  by_cases h0 : p.length = 0
  · simp only [h0, if_true, Except.map]; rfl
  · simp only [h0, if_false]
    by_cases hs : sumOk p = true
    · simp only [hs, Bool.not_true, Bool.false_eq_true, if_false]
      rw [← newParams_refines a (paramsOf m p)]
      cases newParams a (paramsOf m p) with
      | ok ps => rfl
      | error e => rfl
    · have hs' : sumOk p = false := by simpa using hs
      simp only [hs', Bool.not_false, if_true, Except.map]

theorem newParams_values (a : Bool) (vals : List ℝ) (ps : List (Param ℝ)) (e : newParams a vals = .ok ps) :
    ps.map (·.value) = vals := by
  unfold newParams at e
  induction vals generalizing ps with
  | nil => simp [List.mapM_nil, pure, Except.pure] at e; subst e; rfl
  | cons v r ih =>
    rw [List.mapM_cons] at e
    by_cases hcn : inConstraint a v = true
    · simp only [hcn, if_true, bind, Except.bind] at e
      cases hr : List.mapM (fun v => if inConstraint a v = true then Except.ok (⟨v, a⟩ : Param ℝ) else Except.error Err.constraint) r with
      | error err => rw [hr] at e; cases e
      | ok qs =>
        rw [hr] at e
        simp only [pure, Except.pure, Except.ok.injEq] at e
        subst e
        simp [ih qs hr]
    · simp only [hcn, bind, Except.bind] at e
      cases e

theorem pairToExcept_match (r : Obj ℝ × Option Err) :
    (match r with
      | (o, none) => (Except.ok o : Except Err (Obj ℝ))
      | (_, some e) => Except.error e) = pairToExcept r := by
  obtain ⟨o, e⟩ := r
  cases e <;> rfl

/-- `Simplex(size_t dim, method, allowNull)` -/
theorem constructDim_refines (dim m : Nat) (a : Bool) :
    (SimplexObj.constructDim (α := ℝ) dim m a).map (toSt a) = Simplex.constructDim dim m a := by
  unfold SimplexObj.constructDim Simplex.constructDim
  by_cases h0 : dim = 0
  · simp only [h0, if_true, Except.map]; rfl
  · simp only [h0, if_false]
    match m with
    | 0 => rfl
    | 1 =>
      simp only
      rw [← newParams_refines a]
      cases newParams a (paramsGlobal (List.replicate dim ((Scalar.one : ℝ) / Scalar.ofInt (dim : Int))) Scalar.one) with
      | ok ps => rfl
      | error e => rfl
    | 2 =>
      simp only
      rw [← newParams_refines a]
      cases newParams a (List.replicate (dim - 1) (Scalar.ofRat 1 2 : ℝ)) with
      | ok ps => rfl
      | error e => rfl
    | 3 =>
      simp only
      rw [← newParams_refines a]
      cases hn : newParams a (List.replicate (dim - 1) (Scalar.ofRat 1 2 : ℝ)) with
      | error e => rfl
      | ok ps =>
        simp only [bind, Except.bind, Except.map]
        have hv := newParams_values a _ ps hn
        have hc : HasConstraint a ⟨ps, dim, 3, List.replicate dim (Scalar.one / Scalar.ofInt (dim : Int)), [], none⟩ :=
          newParams_incl a _ ps hn
        have hlen : ps.length = dim - 1 := by
          have := congrArg List.length hv
          simpa using this
        have hr := setFrequenciesBase_refines a
          ⟨ps, dim, 3, List.replicate dim (Scalar.one / Scalar.ofInt (dim : Int)), [], none⟩
          (List.replicate dim (Scalar.one / Scalar.ofInt (dim : Int))) hc (Or.inr (Or.inr rfl)) hlen
        have hst : toSt a ⟨ps, dim, 3, List.replicate dim (Scalar.one / Scalar.ofInt (dim : Int)), [], none⟩ =
            ⟨dim, 3, a, List.map (fun x => x.value) ps, List.replicate dim (Scalar.one / Scalar.ofInt (dim : Int))⟩ := rfl
        rw [hst] at hr
        rw [← hr]
        cases Obj.setFrequenciesBase (⟨ps, dim, 3, List.replicate dim (Scalar.one / Scalar.ofInt (dim : Int)), [], none⟩ : Obj ℝ)
            (List.replicate dim (Scalar.one / Scalar.ofInt (dim : Int))) with
        | mk o' err => cases err <;> rfl
    | n + 4 => rfl

/-! ### ordered objects: `Simplex.OSt` -/

/-- an ordered object of this model projects to `⟨toSt a o, values⟩` -/
def ProjO (a : Bool) (o : Obj ℝ) (s : OSt ℝ) : Prop := s.base = toSt a o ∧ o.vValues = some s.values

theorem fire_values_of_some (o : Obj ℝ) (w : List ℝ) (hw : o.vValues = some w) :
    o.fire.vValues = some (orderedValues o.fire.vProb 1) := by
  obtain ⟨_, _, _, _, _, f6, f7⟩ := fire_fields o
  cases hv : o.fire.vValues with
  | none => rw [hv, hw] at f6; simp at f6
  | some v => rw [f7 v hv]

theorem projO_fire (a : Bool) (o : Obj ℝ) (w : List ℝ) (hw : o.vValues = some w) :
    ProjO a o.fire (oRefresh (Simplex.fire (toSt a o))) := by
  refine ⟨by rw [toSt_fire]; rfl, ?_⟩
  rw [fire_values_of_some o w hw]
  have : (oRefresh (Simplex.fire (toSt a o))).values = orderedValues (Simplex.fire (toSt a o)).probs 1 := rfl
  rw [this, ← toSt_fire]
  rfl

/-- `matchParametersValues` on an ordered object -/
theorem oMatchReq_refines (a : Bool) (o : Obj ℝ) (w : List ℝ) (θ : List ℝ) (hc : HasConstraint a o)
    (hl : θ.length = o.params.length) (hw : o.vValues = some w) :
    (∀ o', o.matchReq (reqOfList θ) = .ok o' → ∃ s', oMatchParams ⟨toSt a o, w⟩ θ = .ok s' ∧ ProjO a o' s') ∧
    (∀ e, o.matchReq (reqOfList θ) = .error e → oMatchParams ⟨toSt a o, w⟩ θ = .error e) := by
  have hr := matchReq_refines a o θ hc hl
  have hch := changedFrom_full (reqOfList θ) 1 o.params θ hl (fun k _ => reqOfList_at θ k)
  have hch' : (List.zip (toSt a o).params θ).any (fun (c, v) => !(Scalar.eqb c v)) =
      changedFrom (reqOfList θ) 1 o.params := by rw [hch]; rfl
  constructor
  · intro o' e
    rw [e] at hr
    have hm : Simplex.matchParams (toSt a o) θ = .ok (toSt a o') := hr.symm
    unfold oMatchParams
    simp only [hm, bind, Except.bind, hch']
    unfold Obj.matchReq at e
    by_cases ht : testFrom (reqOfList θ) 1 o.params = true
    · simp only [ht, if_true] at e
      by_cases hc2 : changedFrom (reqOfList θ) 1 o.params = true
      · simp only [hc2, if_true, Except.ok.injEq] at e ⊢
        subst e
        refine ⟨_, rfl, rfl, ?_⟩
        rw [fire_values_of_some { o with params := writeFrom (reqOfList θ) 1 o.params } w hw]
        rfl
      · simp only [hc2, Except.ok.injEq] at e ⊢
        simp only [Bool.false_eq_true, if_false] at e ⊢
        cases e
        exact ⟨_, rfl, rfl, hw⟩
    · simp [ht] at e
  · intro err e
    rw [e] at hr
    have hm : Simplex.matchParams (toSt a o) θ = .error err := hr.symm
    unfold oMatchParams
    simp only [hm, bind, Except.bind]

/-- `setParameterValue` on an ordered object -/
theorem oSetOne_refines (a : Bool) (o : Obj ℝ) (w : List ℝ) (i : Nat) (v : ℝ) (hc : HasConstraint a o)
    (hw : o.vValues = some w) :
    (∀ o', o.setOne i v = .ok o' → ∃ s', Simplex.oSetOne ⟨toSt a o, w⟩ i v = .ok s' ∧ ProjO a o' s') ∧
    (∀ e, o.setOne i v = .error e → Simplex.oSetOne ⟨toSt a o, w⟩ i v = .error e) := by
  have hr := setOne_refines a o i v hc
  constructor
  · intro o' e
    rw [e] at hr
    have hm : Simplex.setOne (toSt a o) i v = .ok (toSt a o') := hr.symm
    unfold Simplex.oSetOne
    simp only [hm, bind, Except.bind]
    refine ⟨_, rfl, rfl, ?_⟩
    -- the result of `setOne` is always a notified object
    unfold Obj.setOne at e
    cases hp : o.param? i with
    | none => simp [hp] at e
    | some q =>
      simp only [hp] at e
      split at e
      · split at e
        · cases e
          rw [fire_values_of_some { o with params := o.params.set (i - 1) { q with value := v } } w hw]; rfl
        · cases e
      · cases e
        rw [fire_values_of_some o w hw]; rfl
  · intro err e
    rw [e] at hr
    have hm : Simplex.setOne (toSt a o) i v = .error err := hr.symm
    unfold Simplex.oSetOne
    simp only [hm, bind, Except.bind]

/-- `OrderedSimplex::setFrequencies` -/
theorem oSetFrequencies_refines (a : Bool) (o : Obj ℝ) (w : List ℝ) (v : List ℝ) (hc : HasConstraint a o)
    (hm : ValidMethod o.method) (hl : o.params.length = o.dim - 1) (hw : o.vValues = some w) :
    (∀ o', o.oSetFrequencies v = (o', none) →
      ∃ s', Simplex.oSetFrequencies ⟨toSt a o, w⟩ v = .ok s' ∧ ProjO a o' s') ∧
    (∀ o' e, o.oSetFrequencies v = (o', some e) → Simplex.oSetFrequencies ⟨toSt a o, w⟩ v = .error e) := by
  have hr := setFrequenciesBase_refines a o (orderedToProbs v 1) hc hm hl
  unfold Obj.oSetFrequencies Simplex.oSetFrequencies
  by_cases h0 : v.length = 0
  · simp only [h0, if_true]
    exact ⟨fun o' e => (by cases e; exact ⟨_, rfl, rfl, hw⟩), fun o' e' e => (by cases e)⟩
  · simp only [h0, if_false]
    by_cases h1 : v.length ≠ o.dim
    · have h1' : v.length ≠ (toSt a o).dim := h1
      simp only [h1, h1', ne_eq, not_false_eq_true, if_true]
      exact ⟨fun o' e => (by cases e), fun o' e' e => (by cases e; rfl)⟩
    · have h1' : ¬ v.length ≠ (toSt a o).dim := h1
      simp only [h1, h1', if_false]
      cases hb : o.setFrequenciesBase (orderedToProbs v 1) with
      | mk ob err =>
        rw [hb] at hr
        cases err with
        | none =>
          have hm' : Simplex.setFrequencies (toSt a o) (orderedToProbs v 1) = .ok (toSt a ob) := hr.symm
          simp only [hm', bind, Except.bind]
          exact ⟨fun o' e => (by cases e; exact ⟨_, rfl, rfl, rfl⟩), fun o' e' e => (by cases e)⟩
        | some e0 =>
          have hm' : Simplex.setFrequencies (toSt a o) (orderedToProbs v 1) = .error e0 := hr.symm
          simp only [hm', bind, Except.bind]
          exact ⟨fun o' e => (by cases e), fun o' e' e => (by cases e; rfl)⟩

theorem constructDim_shape (dim m : Nat) (a : Bool) (hm : ValidMethod m) (b : Obj ℝ)
    (e : SimplexObj.constructDim dim m a = .ok b) :
    b.method = m ∧ b.dim = dim ∧ HasConstraint a b ∧ b.params.length = dim - 1 ∧ b.vValues = none := by
  unfold SimplexObj.constructDim at e
  by_cases h0 : dim = 0
  · simp only [h0, if_true, Except.ok.injEq] at e
    subst e; subst h0
    exact ⟨rfl, rfl, fun p hp => (by cases hp), rfl, rfl⟩
  · simp only [h0, if_false] at e
    rcases hm with rfl | rfl | rfl
    · simp only [bind, Except.bind] at e
      cases hn : newParams a (paramsGlobal (List.replicate dim ((Scalar.one : ℝ) / Scalar.ofInt (dim : Int))) Scalar.one) with
      | error err => rw [hn] at e; cases e
      | ok ps =>
        rw [hn] at e
        simp only [Except.ok.injEq] at e
        subst e
        have hv := congrArg List.length (newParams_values a _ ps hn)
        refine ⟨rfl, rfl, newParams_incl a _ ps hn, ?_, rfl⟩
        simpa [paramsGlobal_length] using hv
    · simp only [bind, Except.bind] at e
      cases hn : newParams a (List.replicate (dim - 1) (Scalar.ofRat 1 2 : ℝ)) with
      | error err => rw [hn] at e; cases e
      | ok ps =>
        rw [hn] at e
        simp only [Except.ok.injEq] at e
        subst e
        have hv := congrArg List.length (newParams_values a _ ps hn)
        refine ⟨rfl, rfl, newParams_incl a _ ps hn, ?_, rfl⟩
        simpa using hv
    · simp only [bind, Except.bind] at e
      cases hn : newParams a (List.replicate (dim - 1) (Scalar.ofRat 1 2 : ℝ)) with
      | error err => rw [hn] at e; cases e
      | ok ps =>
        rw [hn] at e
        simp only at e
        have hv := congrArg List.length (newParams_values a _ ps hn)
        have hsame := setFrequenciesBase_same
          (⟨ps, dim, 3, List.replicate dim ((Scalar.one : ℝ) / Scalar.ofInt (dim : Int)), [], none⟩ : Obj ℝ)
          (List.replicate dim ((Scalar.one : ℝ) / Scalar.ofInt (dim : Int)))
        cases hb : Obj.setFrequenciesBase
          (⟨ps, dim, 3, List.replicate dim ((Scalar.one : ℝ) / Scalar.ofInt (dim : Int)), [], none⟩ : Obj ℝ)
          (List.replicate dim ((Scalar.one : ℝ) / Scalar.ofInt (dim : Int))) with
        | mk ob err =>
          rw [hb] at e hsame
          cases err with
          | some e0 => cases e
          | none =>
            simp only [Except.ok.injEq] at e
            subst e
            refine ⟨hsame.method, hsame.dim, ?_, ?_, ?_⟩
            · intro q hq
              have h1 : q.incl ∈ ob.params.map (·.incl) := List.mem_map.mpr ⟨q, hq, rfl⟩
              rw [hsame.incl] at h1
              obtain ⟨q', hq', e'⟩ := List.mem_map.mp h1
              rw [← e']; exact newParams_incl a _ ps hn q' hq'
            · rw [hsame.len]; simpa using hv
            · have := hsame.cls
              cases hv' : ob.vValues with
              | none => rfl
              | some w => rw [hv'] at this; simp at this

/-- `OrderedSimplex(size_t dim, method, allowNull)` -/
theorem oConstructDim_refines (dim m : Nat) (a : Bool) :
    (∀ o, SimplexObj.oConstructDim (α := ℝ) dim m a = .ok o →
      ∃ s, Simplex.oConstructDim dim m a = .ok s ∧ ProjO a o s) ∧
    (∀ e, SimplexObj.oConstructDim (α := ℝ) dim m a = .error e → Simplex.oConstructDim (α := ℝ) dim m a = .error e) := by
  have hr := constructDim_refines dim m a
  unfold SimplexObj.oConstructDim Simplex.oConstructDim
  cases hb : SimplexObj.constructDim (α := ℝ) dim m a with
  | ok b =>
    rw [hb] at hr
    have hm' : Simplex.constructDim dim m a = .ok (toSt a b) := hr.symm
    simp only [hm', bind, Except.bind]
    exact ⟨fun o e => (by cases e; exact ⟨_, rfl, rfl, rfl⟩), fun e e' => (by cases e')⟩
  | error e0 =>
    rw [hb] at hr
    have hm' : Simplex.constructDim (α := ℝ) dim m a = .error e0 := hr.symm
    simp only [hm', bind, Except.bind]
    exact ⟨fun o e => (by cases e), fun e e' => (by cases e'; rfl)⟩

/-- `OrderedSimplex(const std::vector<double>&, method, allowNull)` -/
theorem oConstruct_refines (v : List ℝ) (m : Nat) (a : Bool) (hm : ValidMethod m) :
    (∀ o, SimplexObj.oConstruct v m a = .ok o → ∃ s, Simplex.oConstruct v m a = .ok s ∧ ProjO a o s) ∧
    (∀ e, SimplexObj.oConstruct v m a = .error e → Simplex.oConstruct v m a = .error e) := by
  have hr := constructDim_refines v.length m a
  unfold SimplexObj.oConstruct Simplex.oConstruct
  cases hb : SimplexObj.constructDim (α := ℝ) v.length m a with
  | error e0 =>
    rw [hb] at hr
    have hm' : Simplex.constructDim (α := ℝ) v.length m a = .error e0 := hr.symm
    simp only [hm', bind, Except.bind]
    exact ⟨fun o e => (by cases e), fun e e' => (by cases e'; rfl)⟩
  | ok b =>
    rw [hb] at hr
    have hm' : Simplex.constructDim v.length m a = .ok (toSt a b) := hr.symm
    simp only [hm', bind, Except.bind]
    obtain ⟨s1, s2, s3, s4, _⟩ := constructDim_shape v.length m a hm b hb
    have hst : toSt a { b with vValues := some v } = toSt a b := rfl
    obtain ⟨r1, r2⟩ := oSetFrequencies_refines a { b with vValues := some v } v v s3 (by rw [s1]; exact hm)
      (by rw [s2]; exact s4) rfl
    rw [hst] at r1 r2
    cases hs : Obj.oSetFrequencies { b with vValues := some v } v with
    | mk o' err =>
      cases err with
      | none =>
        obtain ⟨s', e1, e2⟩ := r1 o' hs
        exact ⟨fun o e => (by cases e; exact ⟨s', e1, e2⟩), fun e e' => (by cases e')⟩
      | some e0 =>
        have := r2 o' e0 hs
        exact ⟨fun o e => (by cases e), fun e e' => (by cases e'; exact this)⟩

end Bpp.SimplexObj
