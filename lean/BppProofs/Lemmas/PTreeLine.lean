import BppProofs.Lemmas.PTree
/-
The ancestor line of a node in a `PTree`: the node, its father, ... up to the root.
-/
namespace Bpp.Graph

/-- `n`, its father, the father's father ... for at most `fuel` steps -/
def lineOf (par : Nat → Option Nat) : Nat → Nat → List Nat
  | 0, n => [n]
  | fuel + 1, n => match par n with | some p => n :: lineOf par fuel p | none => [n]

theorem lineOf_head (par : Nat → Option Nat) (fuel n : Nat) : (lineOf par fuel n).head? = some n := by
  cases fuel with
  | zero => rfl
  | succ f => simp only [lineOf]; split <;> rfl

theorem lineOf_ne_nil (par : Nat → Option Nat) (fuel n : Nat) : lineOf par fuel n ≠ [] := by
  intro h; have := lineOf_head par fuel n; rw [h] at this; cases this

theorem lineOf_mem_anc {par : Nat → Option Nat} : ∀ (fuel n x : Nat), x ∈ lineOf par fuel n → IsAnc par x n := by
  intro fuel
  induction fuel with
  | zero => intro n x h; simp [lineOf] at h; subst h; exact .refl _
  | succ f ih =>
    intro n x h
    simp only [lineOf] at h
    split at h
    · rename_i p hp
      rcases List.mem_cons.1 h with e | h'
      · subst e; exact .refl _
      · exact .step hp (ih p x h')
    · simp at h; subst h; exact .refl _

namespace PTree
variable {P : PTree}

theorem WF.lineOf_complete (h : P.WF) : ∀ (fuel n x : Nat), P.rank n ≤ fuel → IsAnc P.par x n → x ∈ lineOf P.par fuel n := by
  intro fuel
  induction fuel with
  | zero =>
    intro n x hr ha
    have : x = n := h.anc_eq_of_rank ha (by have := h.anc_rank ha; omega)
    subst this; simp [lineOf]
  | succ f ih =>
    intro n x hr ha
    simp only [lineOf]
    cases ha with
    | refl => split <;> simp
    | step hp ha' =>
      rw [hp]
      simp only
      have := (h.par_mem hp).2.2.2
      exact List.mem_cons_of_mem _ (ih _ x (by omega) ha')

/-- beyond the depth of the node, the fuel does not matter -/
theorem WF.lineOf_stable (h : P.WF) : ∀ (fuel n : Nat), P.rank n ≤ fuel → lineOf P.par fuel n = lineOf P.par (P.rank n) n := by
  intro fuel
  induction fuel with
  | zero => intro n hr; have : P.rank n = 0 := by omega
            rw [this]
  | succ f ih =>
    intro n hr
    cases hp : P.par n with
    | none =>
      have h1 : lineOf P.par (f + 1) n = [n] := by simp [lineOf, hp]
      rw [h1]
      cases hk : P.rank n with
      | zero => rfl
      | succ k => simp [lineOf, hp]
    | some p =>
      have hrk := (h.par_mem hp).2.2.2
      have h1 : lineOf P.par (f + 1) n = n :: lineOf P.par f p := by simp [lineOf, hp]
      rw [h1, hrk]
      have h2 : lineOf P.par (P.rank p + 1) n = n :: lineOf P.par (P.rank p) p := by simp [lineOf, hp]
      rw [h2, ih p (by omega)]

/-- the `j`-th element of the line of `n` is the ancestor `j` levels up -/
theorem WF.lineOf_get (h : P.WF) : ∀ (fuel n j y : Nat), (lineOf P.par fuel n)[j]? = some y →
    P.rank y + j = P.rank n ∧ IsAnc P.par y n := by
  intro fuel
  induction fuel with
  | zero =>
    intro n j y hj
    cases j with
    | zero => simp [lineOf] at hj; subst hj; exact ⟨rfl, .refl _⟩
    | succ j => simp [lineOf] at hj
  | succ f ih =>
    intro n j y hj
    simp only [lineOf] at hj
    split at hj
    · rename_i p hp
      cases j with
      | zero => simp at hj; subst hj; exact ⟨rfl, .refl _⟩
      | succ j =>
        simp at hj
        obtain ⟨h1, h2⟩ := ih p j y hj
        have := (h.par_mem hp).2.2.2
        exact ⟨by omega, .step hp h2⟩
    · cases j with
      | zero => simp at hj; subst hj; exact ⟨rfl, .refl _⟩
      | succ j => simp at hj

theorem WF.lineOf_length (h : P.WF) : ∀ (fuel n : Nat), n ∈ P.nodes → P.rank n ≤ fuel → (lineOf P.par fuel n).length = P.rank n + 1 := by
  intro fuel
  induction fuel with
  | zero => intro n _ hr; simp [lineOf]; omega
  | succ f ih =>
    intro n hn hr
    simp only [lineOf]
    cases hp : P.par n with
    | none =>
      simp only [List.length_singleton]
      by_cases hroot : n = P.root
      · subst hroot; rw [h.rank_root]
      · obtain ⟨p, hp', _, _⟩ := h.par_some n hn hroot; rw [hp] at hp'; cases hp'
    | some p =>
      have hm := h.par_mem hp
      simp only [List.length_cons]
      rw [ih p hm.2.2.1 (by omega)]; omega

/-- an ancestor found at position `j` of the line: positions and ranks correspond -/
theorem WF.lineOf_get_of_anc (h : P.WF) : ∀ (fuel n x : Nat), P.rank n ≤ fuel → IsAnc P.par x n →
    (lineOf P.par fuel n)[P.rank n - P.rank x]? = some x := by
  intro fuel
  induction fuel with
  | zero =>
    intro n x hr ha
    have : x = n := h.anc_eq_of_rank ha (by have := h.anc_rank ha; omega)
    subst this; simp [lineOf]
  | succ f ih =>
    intro n x hr ha
    simp only [lineOf]
    cases ha with
    | refl => simp; split <;> simp
    | step hp ha' =>
      rename_i p
      rw [hp]
      simp only
      have hk := (h.par_mem hp).2.2.2
      have hle := h.anc_rank ha'
      have : P.rank n - P.rank x = (P.rank p - P.rank x) + 1 := by omega
      rw [this]
      simp
      exact ih _ x (by omega) ha'

theorem WF.lineOf_nodup (h : P.WF) (fuel n : Nat) : (lineOf P.par fuel n).Nodup := by
  rw [List.nodup_iff_pairwise_ne, List.pairwise_iff_getElem]
  intro i j hi hj hij heq
  have h1 := (h.lineOf_get fuel n i _ (List.getElem?_eq_getElem hi)).1
  have h2 := (h.lineOf_get fuel n j _ (List.getElem?_eq_getElem hj)).1
  rw [heq] at h1
  omega

/-- the depth of a node is smaller than the number of nodes -/
theorem WF.rank_lt (h : P.WF) {n : Nat} (hn : n ∈ P.nodes) {l : List Nat} (hl : ∀ x ∈ P.nodes, x ∈ l) : P.rank n + 1 ≤ l.length := by
  have hlen := h.lineOf_length (P.rank n) n hn (Nat.le_refl _)
  have hnd := h.lineOf_nodup (P.rank n) n
  have hsub : lineOf P.par (P.rank n) n ⊆ l := by
    intro x hx
    exact hl x (h.anc_mem (lineOf_mem_anc _ _ _ hx) hn)
  have := List.Nodup.length_le_of_subset hnd hsub
  omega

/-- the line ends at the root -/
theorem WF.lineOf_last (h : P.WF) (fuel n : Nat) (hn : n ∈ P.nodes) (hr : P.rank n ≤ fuel) :
    (lineOf P.par fuel n).getLast? = some P.root := by
  have hlen := h.lineOf_length fuel n hn hr
  have hget := h.lineOf_get_of_anc fuel n P.root hr (h.root_anc hn)
  rw [h.rank_root] at hget
  rw [List.getLast?_eq_getElem?, hlen]
  simpa using hget

end PTree
end Bpp.Graph
