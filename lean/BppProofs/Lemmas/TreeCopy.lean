import BppModel.TreeCopy
import BppProofs.Lemmas.TreeHistory
import BppProofs.Lemmas.Dag
/-! Helper lemmas for the copies of the tree / DAG containers (`BppModel/TreeCopy.lean`): reading and
writing the slots of a `Heap`; a property of every container of a heap is kept by every heap operation
as soon as it is kept by the operations of one container, by copying and by assigning; the invariants
`TInv` (tree) and `D.Inv` (DAG) are. -/
namespace Bpp.Graph

namespace Heap
variable {α : Type}

theorem get_set_same (h : Heap α) (k : Nat) (a : α) : (h.set k a).get k = some a := by
  unfold get set
  simp only
  rw [List.getElem?_set_self (by simp only [List.length_append, List.length_replicate]; omega)]
  rfl

theorem get_set_other (h : Heap α) (k j : Nat) (a : α) (hj : j ≠ k) : (h.set k a).get j = h.get j := by
  unfold get set
  simp only
  rw [List.getElem?_set_ne (Ne.symm hj)]
  by_cases hl : j < h.slots.length
  · rw [List.getElem?_append_left hl]
  · have hl' : h.slots.length ≤ j := Nat.le_of_not_lt hl
    rw [List.getElem?_append_right hl', List.getElem?_eq_none hl']
    rw [List.getElem?_replicate]
    split <;> rfl

theorem get_single_zero (a : α) : (Heap.single a).get 0 = some a := rfl

theorem get_single_succ (a : α) (k : Nat) : (Heap.single a).get (k + 1) = none := rfl

/-- every container of the heap -/
def All (P : α → Prop) (h : Heap α) : Prop := ∀ k a, h.get k = some a → P a

theorem all_single {P : α → Prop} {a : α} (ha : P a) : (Heap.single a).All P := by
  intro k b hb
  cases k with
  | zero => rw [get_single_zero] at hb; cases hb; exact ha
  | succ k => rw [get_single_succ] at hb; cases hb

theorem all_set {P : α → Prop} {h : Heap α} (hh : h.All P) (k : Nat) {a : α} (ha : P a) : (h.set k a).All P := by
  intro j b hb
  by_cases hj : j = k
  · subst hj; rw [get_set_same] at hb; cases hb; exact ha
  · rw [get_set_other h k j a hj] at hb; exact hh j b hb

end Heap

/-! ### the slot written by a heap operation -/

/-- the only slot a heap operation writes -/
def THOp.target : THOp → Nat
  | .op k _ => k
  | .copy _ k => k
  | .assign _ k => k
  | .graphAssign _ k => k

def DHOp.target : DHOp → Nat
  | .op k _ => k
  | .copy _ k => k
  | .assign _ k => k
  | .graphAssign _ k => k

namespace TH

theorem step_other (h : TH) (op : THOp) (j : Nat) (hj : j ≠ op.target) : (h.step op).get j = h.get j := by
  cases op with
  | op k o =>
    simp only [step]
    split
    · exact Heap.get_set_other h k j _ hj
    · rfl
  | copy i k =>
    simp only [step]
    split
    · split
      · rfl
      · exact Heap.get_set_other h k j _ hj
    · rfl
  | assign i k =>
    simp only [step]
    split
    · exact Heap.get_set_other h k j _ hj
    · rfl
  | graphAssign i k =>
    simp only [step]
    split
    · exact Heap.get_set_other h k j _ hj
    · rfl

theorem copy_get (h : TH) (j k : Nat) (s : T) (hs : h.get j = some s) (hjk : j ≠ k) :
    (h.step (.copy j k)).get k = some s.copy := by
  simp only [step, hs, hjk, if_false]
  exact Heap.get_set_same h k _

/-- what holds of every container and is kept by the operations of a container, by copy construction and by the
two assignments holds of every container after a heap operation -/
theorem all_step (P : T → Prop) (hop : ∀ t o, P t → P (t.step o)) (hcopy : ∀ t, P t → P t.copy)
    (hassign : ∀ d s b, P d → P s → P (d.assign s b)) (hgraph : ∀ d s b, P d → P s → P (d.graphAssign s.g b))
    (h : TH) (hh : h.All P) (op : THOp) : (h.step op).All P := by
  cases op with
  | op k o =>
    simp only [step]
    split
    · rename_i t ht; exact Heap.all_set hh k (hop t o (hh k t ht))
    · exact hh
  | copy i k =>
    simp only [step]
    split
    · rename_i s hs
      split
      · exact hh
      · exact Heap.all_set hh k (hcopy s (hh i s hs))
    · exact hh
  | assign i k =>
    simp only [step]
    split
    · rename_i s d hs hd; exact Heap.all_set hh k (hassign d s _ (hh k d hd) (hh i s hs))
    · exact hh
  | graphAssign i k =>
    simp only [step]
    split
    · rename_i s d hs hd; exact Heap.all_set hh k (hgraph d s _ (hh k d hd) (hh i s hs))
    · exact hh

theorem all_run (P : T → Prop) (hop : ∀ t o, P t → P (t.step o)) (hcopy : ∀ t, P t → P t.copy)
    (hassign : ∀ d s b, P d → P s → P (d.assign s b)) (hgraph : ∀ d s b, P d → P s → P (d.graphAssign s.g b))
    (ops : List THOp) : ∀ h : TH, h.All P → (h.run ops).All P := by
  induction ops with
  | nil => intro h hh; exact hh
  | cons op r ih => intro h hh; exact ih _ (all_step P hop hcopy hassign hgraph h hh op)

end TH

namespace DH

theorem step_other (h : DH) (op : DHOp) (j : Nat) (hj : j ≠ op.target) : (h.step op).get j = h.get j := by
  cases op with
  | op k o =>
    simp only [step]
    split
    · exact Heap.get_set_other h k j _ hj
    · rfl
  | copy i k =>
    simp only [step]
    split
    · split
      · rfl
      · exact Heap.get_set_other h k j _ hj
    · rfl
  | assign i k =>
    simp only [step]
    split
    · exact Heap.get_set_other h k j _ hj
    · rfl
  | graphAssign i k =>
    simp only [step]
    split
    · exact Heap.get_set_other h k j _ hj
    · rfl

theorem copy_get (h : DH) (j k : Nat) (s : D) (hs : h.get j = some s) (hjk : j ≠ k) :
    (h.step (.copy j k)).get k = some s.copy := by
  simp only [step, hs, hjk, if_false]
  exact Heap.get_set_same h k _

theorem all_step (P : D → Prop) (hop : ∀ t o, P t → P (t.step o)) (hcopy : ∀ t, P t → P t.copy)
    (hassign : ∀ d s b, P d → P s → P (d.assign s b)) (hgraph : ∀ d s b, P d → P s → P (d.graphAssign s.g b))
    (h : DH) (hh : h.All P) (op : DHOp) : (h.step op).All P := by
  cases op with
  | op k o =>
    simp only [step]
    split
    · rename_i t ht; exact Heap.all_set hh k (hop t o (hh k t ht))
    · exact hh
  | copy i k =>
    simp only [step]
    split
    · rename_i s hs
      split
      · exact hh
      · exact Heap.all_set hh k (hcopy s (hh i s hs))
    · exact hh
  | assign i k =>
    simp only [step]
    split
    · rename_i s d hs hd; exact Heap.all_set hh k (hassign d s _ (hh k d hd) (hh i s hs))
    · exact hh
  | graphAssign i k =>
    simp only [step]
    split
    · rename_i s d hs hd; exact Heap.all_set hh k (hgraph d s _ (hh k d hd) (hh i s hs))
    · exact hh

theorem all_run (P : D → Prop) (hop : ∀ t o, P t → P (t.step o)) (hcopy : ∀ t, P t → P t.copy)
    (hassign : ∀ d s b, P d → P s → P (d.assign s b)) (hgraph : ∀ d s b, P d → P s → P (d.graphAssign s.g b))
    (ops : List DHOp) : ∀ h : DH, h.All P → (h.run ops).All P := by
  induction ops with
  | nil => intro h hh; exact hh
  | cons op r ih => intro h hh; exact ih _ (all_step P hop hcopy hassign hgraph h hh op)

end DH

/-! ### the invariants are kept by copying and assigning -/

namespace T

theorem tinv_quiet {g : G} (hc : Consistent g) : TInv { g := { g with pending := [] }, valid := false } :=
  ⟨consistent_setPending hc _, rfl⟩

theorem tinv_copy (t : T) (h : TInv t) : TInv t.copy := ⟨consistent_setPending h.1 _, rfl⟩

theorem tinv_assign (d s : T) (b : Bool) (hd : TInv d) (hs : TInv s) : TInv (d.assign s b) := by
  unfold assign
  split
  · exact hd
  · exact ⟨consistent_setPending hs.1 _, rfl⟩

theorem tinv_graphAssign (d : T) (g : G) (b : Bool) (hd : TInv d) (hc : Consistent g) : TInv (d.graphAssign g b) := by
  unfold graphAssign
  split
  · exact hd
  · exact ⟨consistent_setPending hc _, rfl⟩

end T

namespace D

theorem inv_copy (d : D) (h : Inv d) : Inv d.copy := by
  have he : EqP d.g d.copy.g := EqP.setPending _ _
  exact ⟨⟨consistent_setPending h.1.1 _, h.1.2⟩,
    fun hv => by rw [isDA_eqP he]; exact h.2.1 hv, fun hv => by rw [nbFatherless_eqP he]; exact h.2.2 hv⟩

theorem inv_assign (d s : D) (b : Bool) (hd : Inv d) (hs : Inv s) : Inv (d.assign s b) := by
  unfold assign
  split
  · exact hd
  · exact inv_copy s hs

theorem inv_graphAssign (d : D) (g : G) (b : Bool) (hd : Inv d) (hg : GInv g) : Inv (d.graphAssign g b) := by
  unfold graphAssign
  split
  · exact hd
  · exact ⟨⟨consistent_setPending hg.1 _, hg.2⟩, cacheSound_off _⟩

end D

end Bpp.Graph
