import BppProofs.Lemmas.AliasCopy
/-! Histories of C03: every operation preserves the invariant; termination of the loops that the
repairs introduced or touched. -/
namespace Bpp.Alias
open Bpp.ParamList (Bnd Con Par Store ObjId nameOf find? hasParameter names startsWith)

/-- well-formed requests: a parameter is added under the namespace of its owner, with a short
name that is not empty and has no underscore -/
def Op.wf (w : World) : Op → Prop
  | .add k p => ∀ o, w.objs k = some o → ∃ x, p.name = o.pre ++ x ∧ Plain x
  | _ => True

/-- a history all of whose requests are well-formed in the state they meet -/
def WfRun : World → List Op → Prop
  | _, [] => True
  | w, op :: rest => op.wf w ∧ WfRun (step w op).1 rest

theorem inv_step {w : World} (h : Inv w) (op : Op) (hop : op.wf w) : Inv (step w op).1 := by
  cases op with
  | new k pre => exact inv_newObj h k pre
  | add k p =>
    show Inv (addParam w k p).w
    cases ho : w.objs k with
    | none =>
      have : addParam w k p = { w := w, err := some .ub } := by simp [addParam, ho]
      rw [this]; exact h
    | some o =>
      obtain ⟨x, hx, px⟩ := hop o ho
      exact inv_addParam h ho hx px
  | «alias» k p1 p2 => exact inv_aliasPair h k p1 p2
  | unalias k p1 p2 => exact inv_unalias h k p1 p2
  | bulk k es => exact inv_bulkAlias h k es
  | setv k n v => exact h.sameShape ((update_sameBut w k).1 n v).sameShape
  | setvs k src => exact h.sameShape ((update_sameBut w k).2.1 src).sameShape
  | matchvs k src => exact h.sameShape ((update_sameBut w k).2.2.1 src).sameShape
  | setallv k src => exact h.sameShape ((update_sameBut w k).2.2.2 src).sameShape
  | copy s d => exact inv_copyConstruct h s d
  | assign s d => exact inv_assign h s d
  | ns k pre => exact inv_setNamespace h k pre
  | aliases k =>
    show Inv (match w.objs k with | none => (w, Out.err .ub) | some o => (w, _)).1
    split <;> exact h
  | aliasOf k n =>
    show Inv (match w.objs k with | none => (w, Out.err .ub) | some o => (w, _)).1
    split <;> exact h
  | «from» k n =>
    show Inv (match w.objs k with | none => (w, Out.err .ub) | some o => (w, _)).1
    split <;> exact h

theorem inv_run : ∀ (ops : List Op) {w : World}, Inv w → WfRun w ops → Inv (run w ops)
  | [], _, h, _ => h
  | op :: rest, _, h, hw => inv_run rest (inv_step h op hw.1) hw.2

/-! ## The cycle test terminates and is exact -/

theorem followsLoop_no_hang {w : World} {k : Nat} {o : Obj} (h : ObjInv w k o) (p2 : String) :
    ∀ (f : Nat) (S : List (String × Nat)) (x : String) (c : Nat) (t : ObjId), S.Nodup →
      o.params[c]? = some t → nameOf w.heap t = o.pre ++ x → Plain x →
      (∀ e ∈ o.reg, ∀ q, Relation.ReflTransGen (Follows w o) c q → (w.lis e.2).alias = q → e ∈ S) →
      S.length + 2 ≤ f → followsLoop w o p2 f x ≠ none
  | 0, _, _, _, _, _, _, _, _, _, hf => by omega
  | f + 1, S, x, c, t, nd, hc, hx, px, hS, hf => by
    simp only [followsLoop]
    have hne : x ≠ "" := px.1
    simp only [hne, if_false]
    by_cases hxp : x = p2
    · simp [hxp]
    simp only [hxp, if_false]
    obtain ⟨hyes, hno⟩ := getFrom_spec h hc hx
    by_cases hpar : ∃ e ∈ o.reg, (w.lis e.2).alias = c
    · obtain ⟨e, he, ha⟩ := hpar
      rw [hyes e he ha]
      have heS : e ∈ S := hS e he c Relation.ReflTransGen.refl ha
      obtain ⟨s, hs, hsn, _⟩ := (h.regOk e he).src
      obtain ⟨ps, hps⟩ := h.exists_pos hs
      obtain ⟨y, hy, py⟩ := h.plain s hs
      have hsrc : (w.lis e.2).src = y := append_left_cancel' (hsn.symm.trans hy)
      rw [hsrc]
      have hfol : Follows w o c ps := ⟨e, he, ha, s, hps, hsn⟩
      refine followsLoop_no_hang h p2 f (S.erase e) y ps s (nd.erase e) hps hy py ?_ ?_
      · intro e' he' q hq ha'
        rw [nd.mem_erase_iff]
        refine ⟨?_, hS e' he' q (Relation.ReflTransGen.head hfol hq) ha'⟩
        rintro rfl
        rw [ha] at ha'
        subst ha'
        exact h.acyclic c (Relation.TransGen.head' hfol hq)
      · have : (S.erase e).length = S.length - 1 := List.length_erase_of_mem heS
        have hpos : 0 < S.length := List.length_pos_of_mem heS
        omega
    · have hno' : ∀ e ∈ o.reg, (w.lis e.2).alias ≠ c := fun e he ha => hpar ⟨e, he, ha⟩
      rw [hno hno']
      cases f with
      | zero => omega
      | succ f' => simp [followsLoop]

/-- if the loop meets `p2`, a parameter named `p2` is at or above the position it started from -/
theorem followsLoop_true {w : World} {k : Nat} {o : Obj} (h : ObjInv w k o) (p2 : String) :
    ∀ (f : Nat) (x : String) (c : Nat) (t : ObjId), o.params[c]? = some t → nameOf w.heap t = o.pre ++ x → Plain x →
      followsLoop w o p2 f x = some true →
      ∃ q tq, Relation.ReflTransGen (Follows w o) c q ∧ o.params[q]? = some tq ∧ nameOf w.heap tq = o.pre ++ p2
  | 0, _, _, _, _, _, _, hf => by simp [followsLoop] at hf
  | f + 1, x, c, t, hc, hx, px, hf => by
    simp only [followsLoop] at hf
    have hne : x ≠ "" := px.1
    simp only [hne, if_false] at hf
    by_cases hxp : x = p2
    · exact ⟨c, t, Relation.ReflTransGen.refl, hc, hxp ▸ hx⟩
    simp only [hxp, if_false] at hf
    obtain ⟨hyes, hno⟩ := getFrom_spec h hc hx
    by_cases hpar : ∃ e ∈ o.reg, (w.lis e.2).alias = c
    · obtain ⟨e, he, ha⟩ := hpar
      rw [hyes e he ha] at hf
      obtain ⟨s, hs, hsn, _⟩ := (h.regOk e he).src
      obtain ⟨ps, hps⟩ := h.exists_pos hs
      obtain ⟨y, hy, py⟩ := h.plain s hs
      have hsrc : (w.lis e.2).src = y := append_left_cancel' (hsn.symm.trans hy)
      rw [hsrc] at hf
      obtain ⟨q, tq, hq, htq, hn⟩ := followsLoop_true h p2 f y ps s hps hy py hf
      exact ⟨q, tq, Relation.ReflTransGen.head ⟨e, he, ha, s, hps, hsn⟩ hq, htq, hn⟩
    · have hno' : ∀ e ∈ o.reg, (w.lis e.2).alias ≠ c := fun e he ha => hpar ⟨e, he, ha⟩
      rw [hno hno'] at hf
      cases f with
      | zero => simp [followsLoop] at hf
      | succ f' => simp [followsLoop] at hf

theorem ObjInv.regNodup {w : World} {k : Nat} {o : Obj} (h : ObjInv w k o) : o.reg.Nodup :=
  List.Nodup.of_map _ h.regKeys

/-- the cycle test of the pair form never runs out of fuel -/
theorem cycleTest_no_hang {w : World} {k : Nat} {o : Obj} (h : ObjInv w k o) {p1 p2 : String} {i1 : ObjId}
    (h1 : find? w.heap o.params (o.pre ++ p1) = some i1) : followsLoop w o p2 (o.reg.length + 2) p1 ≠ none := by
  obtain ⟨hm1, hn1⟩ := ParamList.find?_some h1
  obtain ⟨pos1, hp1⟩ := h.exists_pos hm1
  have pp1 : Plain p1 := by
    obtain ⟨x, hx, px⟩ := h.plain i1 hm1
    have : x = p1 := append_left_cancel' (hx.symm.trans hn1)
    exact this ▸ px
  exact followsLoop_no_hang h p2 _ o.reg p1 pos1 i1 h.regNodup hp1 hn1 pp1 (fun e he _ _ _ => he) (Nat.le_refl _)

theorem parSetConstraint_err {p : Par} {c : Con} {e : Err} (h : parSetConstraint p c = .error e) : e = .constraint := by
  simp only [parSetConstraint] at h
  split at h
  · cases h; rfl
  · cases h

/-- the constraint part of the pair form raises ConstraintException only -/
theorem aliasConstraintsL_err {w : World} {i1 i2 : ObjId} {e : Err} (h : (aliasConstraintsL w i1 i2).err = some e) :
    e = .constraint := by
  simp only [aliasConstraintsL] at h
  split at h
  · cases h
  · split at h
    · rename_i e' he'
      simp only [Option.some.injEq] at h; subst h; exact parSetConstraint_err he'
    · cases h
  · cases h
  · split at h
    · split at h
      · rename_i e' he'
        simp only [Option.some.injEq] at h; subst h; exact parSetConstraint_err he'
      · split at h
        · rename_i e' he'
          simp only [Option.some.injEq] at h; subst h; exact parSetConstraint_err he'
        · cases h
    · cases h


theorem aliasConstraints_err {w : World} {i1 i2 : ObjId} {e : Err} (h : (aliasConstraints w i1 i2).err = some e) :
    e = .constraint := by
  rcases aliasConstraints_cases w i1 i2 with h' | h' <;> rw [h'] at h
  · cases h; rfl
  · exact aliasConstraintsL_err h

theorem aliasPair_no_hang {w : World} (h : Inv w) (k : Nat) (p1 p2 : String) : (aliasPair w k p1 p2).err ≠ some .hang := by
  cases ho : w.objs k with
  | none => simp [aliasPair, aliasPairG, ho]
  | some o =>
    have hi := h.obj k o ho
    obtain ⟨s1, s2⟩ := aliasPair_spec hi ho p1 p2
    cases h1 : find? w.heap o.params (o.pre ++ p1) with
    | none => rw [(s1 (Or.inl h1)).1]; simp
    | some i1 =>
      cases h2 : find? w.heap o.params (o.pre ++ p2) with
      | none => rw [(s1 (Or.inr h2)).1]; simp
      | some i2 =>
        obtain ⟨a, _, c, d⟩ := s2 i1 i2 h1 h2
        by_cases hind : i2 ∈ o.indep
        swap
        · rw [(a hind).1]; simp
        cases hf : followsLoop w o p2 (o.reg.length + 2) p1 with
        | none => exact absurd hf (cycleTest_no_hang hi h1)
        | some bb =>
          cases bb with
          | true => rw [(c hind hf).1]; simp
          | false =>
            obtain ⟨d1, d2⟩ := d hind hf
            cases hc : (aliasConstraints w i1 i2).err with
            | some e =>
              rw [(d1 e hc).1]
              have := aliasConstraints_err hc
              subst this
              simp
            | none => obtain ⟨_, _, hnone, _⟩ := d2 hc; rw [hnone]; simp

/-! ## No value update runs out of fuel -/

theorem setParameterValue_no_hang {w : World} (pv : ParamsValid w) {l : List ObjId} (hl : ∀ i ∈ l, i < w.heap.next)
    (n : String) (v : Rat) : (setParameterValue w l n v).err ≠ some .hang := by
  simp only [setParameterValue]
  split
  · simp
  · rename_i i hi
    exact setValue_no_hang w i v pv (hl i (ParamList.find?_some hi).1)

theorem applySome_no_hang (l : List ObjId) : ∀ (src : List (String × Rat)) (w : World), ParamsValid w →
    (∀ i ∈ l, i < w.heap.next) → (applySome l w src).err ≠ some .hang
  | [], w, _, _ => by simp [applySome]
  | (n, v) :: rest, w, pv, hl => by
    simp only [applySome]
    split
    · exact applySome_no_hang l rest w pv hl
    · rename_i t ht
      have hs := setValue_sameBut w t v
      split
      · rename_i e he
        intro hh; simp only [Option.some.injEq] at hh; subst hh
        exact setValue_no_hang w t v pv (hl t (ParamList.find?_some ht).1) he
      · exact applySome_no_hang l rest _ (pv.sameBut hs) (fun i hi => by rw [hs.next]; exact hl i hi)

theorem matchSome_no_hang (l : List ObjId) : ∀ (src : List (String × Rat)) (w : World), ParamsValid w →
    (∀ i ∈ l, i < w.heap.next) → (matchSome l w src).1.err ≠ some .hang
  | [], w, _, _ => by simp [matchSome]
  | (n, v) :: rest, w, pv, hl => by
    simp only [matchSome]
    split
    · exact matchSome_no_hang l rest w pv hl
    · rename_i t ht
      have hs := setValue_sameBut w t v
      split
      · split
        · rename_i e he
          intro hh; simp only [Option.some.injEq] at hh; subst hh
          exact setValue_no_hang w t v pv (hl t (ParamList.find?_some ht).1) he
        · exact matchSome_no_hang l rest _ (pv.sameBut hs) (fun i hi => by rw [hs.next]; exact hl i hi)
      · exact matchSome_no_hang l rest w pv hl

theorem applyAll_no_hang (src : List (String × Rat)) : ∀ (l : List ObjId) (w : World), ParamsValid w →
    (∀ i ∈ l, i < w.heap.next) → (applyAll src w l).err ≠ some .hang
  | [], w, _, _ => by simp [applyAll]
  | i :: rest, w, pv, hl => by
    simp only [applyAll]
    split
    · simp
    · rename_i v _
      have hs := setValue_sameBut w i v
      split
      · rename_i e he
        intro hh; simp only [Option.some.injEq] at hh; subst hh
        exact setValue_no_hang w i v pv (hl i (List.mem_cons_self ..)) he
      · exact applyAll_no_hang src rest _ (pv.sameBut hs)
          (fun j hj => by rw [hs.next]; exact hl j (List.mem_cons_of_mem _ hj))

theorem checkSome_ne_hang (w : World) (l : List ObjId) : ∀ (src : List (String × Rat)), checkSome w l src ≠ some .hang
  | [] => by simp [checkSome]
  | (n, v) :: rest => by
    simp only [checkSome]
    split
    · exact checkSome_ne_hang w l rest
    · split
      · simp
      · exact checkSome_ne_hang w l rest

theorem checkAll_ne_hang (w : World) (src : List (String × Rat)) : ∀ (l : List ObjId), checkAll w src l ≠ some .hang
  | [] => by simp [checkAll]
  | i :: rest => by
    simp only [checkAll]
    split
    · simp
    · split
      · simp
      · exact checkAll_ne_hang w src rest

theorem matchParametersValues_no_hang {w : World} (pv : ParamsValid w) {l : List ObjId}
    (hl : ∀ i ∈ l, i < w.heap.next) (src : List (String × Rat)) : (matchParametersValues w l src).1.err ≠ some .hang := by
  simp only [matchParametersValues]
  split
  · rename_i e he
    intro hh; simp only [Option.some.injEq] at hh; subst hh
    exact checkSome_ne_hang w l src he
  · exact matchSome_no_hang l src w pv hl

/-- none of the four update routes of `AbstractParametrizable` runs out of fuel -/
theorem update_no_hang {w : World} (h : Inv w) (k : Nat) :
    (∀ n v, (apSetParameterValue w k n v).err ≠ some .hang) ∧
    (∀ src, (apSetParametersValues w k src).err ≠ some .hang) ∧
    (∀ src, (apMatchParametersValues w k src).1.err ≠ some .hang) ∧
    (∀ src, (apSetAllParametersValues w k src).err ≠ some .hang) := by
  have pv := h.paramsValid
  refine ⟨fun n v => ?_, fun src => ?_, fun src => ?_, fun src => ?_⟩
  · simp only [apSetParameterValue]; split
    · simp
    · rename_i o ho; exact setParameterValue_no_hang pv (h.obj k o ho).valid _ v
  · simp only [apSetParametersValues]; split
    · simp
    · rename_i o ho
      simp only [setParametersValues]; split
      · rename_i e he
        intro hh; simp only [Option.some.injEq] at hh; subst hh
        exact checkSome_ne_hang w _ src he
      · exact applySome_no_hang _ src w pv (h.obj k o ho).valid
  · simp only [apMatchParametersValues]; split
    · simp
    · rename_i o ho; exact matchParametersValues_no_hang pv (h.obj k o ho).valid src
  · simp only [apSetAllParametersValues]; split
    · simp
    · rename_i o ho
      simp only [setAllParametersValues]; split
      · rename_i e he
        intro hh; simp only [Option.some.injEq] at hh; subst hh
        exact checkAll_ne_hang w src _ he
      · exact applyAll_no_hang src _ w pv (h.obj k o ho).valid

/-! ## The bulk form terminates -/

theorem bulkPass_spec (k : Nat) : ∀ (todo : List (String × String)) (w : World) (pl : List Par) (kept : List (String × String)),
    Inv w → (bulkPass true k w pl kept todo).err ≠ some .hang ∧
      (bulkPass true k w pl kept todo).left.length ≤ kept.length + todo.length
  | [], w, pl, kept, _ => by simp [bulkPass]
  | (key, val) :: todo, w, pl, kept, h => by
    simp only [bulkPass]
    split
    · split
      · split
        · simp
        · obtain ⟨a, b⟩ := bulkPass_spec k todo w pl (kept ++ [(key, val)]) h
          exact ⟨a, by simp only [List.length_append, List.length_cons, List.length_nil] at b ⊢; omega⟩
      · split
        · simp
        · obtain ⟨a, b⟩ := bulkPass_spec k todo w pl (kept ++ [(key, val)]) h
          exact ⟨a, by simp only [List.length_append, List.length_cons, List.length_nil] at b ⊢; omega⟩
    · split
      · simp
      · have hi : Inv (aliasPairG true w k val key).w := inv_aliasPair h k val key
        have hn : (aliasPairG true w k val key).err ≠ some .hang := aliasPair_no_hang h k val key
        split
        · rename_i e he
          refine ⟨?_, by simp⟩
          intro hh; simp only [Option.some.injEq] at hh; subst hh; exact hn he
        · obtain ⟨a, b⟩ := bulkPass_spec k todo _ (pl ++ [{ (‹Par› : Par) with name := key }]) kept hi
          exact ⟨a, by simp only [List.length_cons] at b ⊢; omega⟩

theorem bulkLoop_no_hang (k : Nat) : ∀ (f : Nat) (w : World) (pl : List Par) (m : List (String × String)),
    Inv w → m.length < f → (bulkLoop k f w pl m).err ≠ some .hang
  | 0, _, _, _, _, hf => by omega
  | f + 1, w, pl, m, h, hf => by
    simp only [bulkLoop]
    split
    · simp
    · obtain ⟨a, b⟩ := bulkPass_spec k m w pl [] h
      have hp := inv_bulkPass k m w pl [] h
      split
      · exact a
      · split
        · simp
        · rename_i hne
          simp only [List.length_nil, Nat.zero_add] at b
          exact bulkLoop_no_hang k f _ _ _ hp (by omega)

theorem syncLinks_no_hang (l : List ObjId) : ∀ (ls : List (String × String)) (w : World), ParamsValid w →
    (∀ i ∈ l, i < w.heap.next) → (syncLinks l w ls).err ≠ some .hang
  | [], w, _, _ => by simp [syncLinks]
  | (key, val) :: rest, w, pv, hl => by
    simp only [syncLinks]
    split
    · simp
    · rename_i s _
      have sb := matchParametersValues_sameBut w l [(key, (w.heap.get s).value)]
      have hn := matchParametersValues_no_hang pv hl [(key, (w.heap.get s).value)]
      split
      · rename_i e he
        intro hh; simp only [Option.some.injEq] at hh; subst hh; exact hn he
      · exact syncLinks_no_hang l rest _ (pv.sameBut sb) (fun i hi => by rw [sb.next]; exact hl i hi)

/-- **the bulk form terminates for every map**: it never runs out of fuel -/
theorem bulkAlias_no_hang {w : World} (h : Inv w) (k : Nat) (es : List (String × String)) :
    (bulkAlias w k es).err ≠ some .hang := by
  simp only [bulkAlias, bulkAliasG]
  split
  · simp
  · rename_i o _
    have hl := bulkLoop_no_hang k ((mkMap es).length + 1) w
      ((o.params.filter (fun i => (mapFind? (nameOf w.heap i) (mkMap es)).isNone)).map w.heap.get) (mkMap es) h (Nat.lt_succ_self _)
    have hi := inv_bulkLoop k ((mkMap es).length + 1) w
      ((o.params.filter (fun i => (mapFind? (nameOf w.heap i) (mkMap es)).isNone)).map w.heap.get) (mkMap es) h
    split
    · rename_i e he
      intro hh; simp only [Option.some.injEq] at hh; subst hh; exact hl he
    · split
      · simp
      · rename_i o' ho'
        exact syncLinks_no_hang _ _ _ hi.paramsValid (hi.obj k o' ho').valid

/-! ## Frame: a value update stays inside a set of parameter objects closed under listeners -/

def Closed (w : World) (S : ObjId → Prop) : Prop := ∀ x, S x → ∀ l ∈ w.lsn x, ∀ t, tgt w l = some t → S t

theorem Closed.sameBut {w w' : World} {S : ObjId → Prop} (c : Closed w S) (s : SameBut w w') : Closed w' S := by
  intro x hx l hl t ht
  rw [s.lsn] at hl; rw [s.tgt] at ht
  exact c x hx l hl t ht

theorem fireList_frame {k : World → ObjId → Rat → WR} {S : ObjId → Prop}
    (hs : ∀ w t u, SameBut w (k w t u).w)
    (hk : ∀ w t u, S t → Closed w S → ∀ j, ¬ S j → val (k w t u).w j = val w j) (src : ObjId) :
    ∀ (ls : List Nat) (w : World), Closed w S → (∀ l ∈ ls, ∀ t, tgt w l = some t → S t) →
      ∀ j, ¬ S j → val (fireList k src w ls).w j = val w j
  | [], w, _, _, j, _ => rfl
  | l :: rest, w, hc, hl, j, hj => by
    simp only [fireList]
    cases ho : w.objs (w.lis l).pl with
    | none => rfl
    | some o =>
      simp only []
      cases ht : o.params[(w.lis l).alias]? with
      | none => rfl
      | some t =>
        simp only []
        have htS : S t := hl l (List.mem_cons_self ..) t (by simp only [tgt, ho, ht])
        split
        · rfl
        · split
          · exact hk w t _ htS hc j hj
          · have sb := hs w t (w.heap.get src).value
            rw [fireList_frame hs hk src rest _ (hc.sameBut sb)
              (fun l' hl' t' ht' => hl l' (List.mem_cons_of_mem _ hl') t' (by rw [← sb.tgt]; exact ht')) j hj]
            exact hk w t _ htS hc j hj

theorem setV_frame {S : ObjId → Prop} : ∀ (f : Nat) (w : World) (i : ObjId) (v : Rat), S i → Closed w S →
    ∀ j, ¬ S j → val (setV f w i v).w j = val w j
  | 0, _, _, _, _, _, _, _ => rfl
  | f + 1, w, i, v, hi, hc, j, hj => by
    simp only [setV]
    split
    · rfl
    · split
      · rfl
      · have sb := sameBut_putValue w i v
        rw [fireList_frame (setV_sameBut f) (fun w t u => setV_frame f w t u) i (w.lsn i) _ (hc.sameBut sb)
          (fun l hl t ht => hc i hi l hl t (by rw [← sb.tgt]; exact ht)) j hj]
        have : j ≠ i := fun e => hj (e ▸ hi)
        simp [this]

/-- the parameters of an object satisfying the invariant are closed under their listeners -/
theorem ObjInv.closed {w : World} {k : Nat} {o : Obj} (h : ObjInv w k o) (ho : w.objs k = some o) :
    Closed w (fun i => i ∈ o.params) := by
  intro x hx l hl t ht
  obtain ⟨hreg, _⟩ := h.lsnOk x hx l hl
  have hpl := (h.regOk _ hreg).pl
  simp only at hpl
  simp only [tgt, hpl, ho] at ht
  exact List.mem_of_getElem? ht

/-- every registered link is wired: the listener is attached to the parameter it is named after and
writes to the parameter at its position -/
theorem ObjInv.link {w : World} {k : Nat} {o : Obj} (h : ObjInv w k o) (ho : w.objs k = some o) {e : String × Nat}
    (he : e ∈ o.reg) : ∃ s t y, s ∈ o.params ∧ t ∈ o.params ∧ nameOf w.heap s = o.pre ++ (w.lis e.2).src ∧
      nameOf w.heap t = o.pre ++ y ∧ e.1 = aliasId (w.lis e.2).src y ∧ e.2 ∈ w.lsn s ∧ tgt w e.2 = some t := by
  obtain ⟨_, _, r3, ⟨s, hs, hsn, hsl⟩, ⟨t, y, ht, htn, _, hid⟩⟩ := h.regOk e he
  refine ⟨s, t, y, hs, List.mem_of_getElem? ht, hsn, htn, hid, hsl, ?_⟩
  simp only [tgt, r3, ho]; exact ht

theorem setValue_frame {S : ObjId → Prop} (w : World) (i : ObjId) (v : Rat) (hi : S i) (hc : Closed w S) :
    ∀ j, ¬ S j → val (setValue w i v).w j = val w j := setV_frame _ w i v hi hc

theorem applySome_frame {S : ObjId → Prop} (l : List ObjId) (hl : ∀ i ∈ l, S i) :
    ∀ (src : List (String × Rat)) (w : World), Closed w S → ∀ j, ¬ S j → val (applySome l w src).w j = val w j
  | [], _, _, _, _ => rfl
  | (n, v) :: rest, w, hc, j, hj => by
    simp only [applySome]
    split
    · exact applySome_frame l hl rest w hc j hj
    · rename_i t ht
      have hts := hl t (ParamList.find?_some ht).1
      split
      · exact setValue_frame w t v hts hc j hj
      · rw [applySome_frame l hl rest _ (hc.sameBut (setValue_sameBut w t v)) j hj]
        exact setValue_frame w t v hts hc j hj

theorem matchSome_frame {S : ObjId → Prop} (l : List ObjId) (hl : ∀ i ∈ l, S i) :
    ∀ (src : List (String × Rat)) (w : World), Closed w S → ∀ j, ¬ S j → val (matchSome l w src).1.w j = val w j
  | [], _, _, _, _ => rfl
  | (n, v) :: rest, w, hc, j, hj => by
    simp only [matchSome]
    split
    · exact matchSome_frame l hl rest w hc j hj
    · rename_i t ht
      have hts := hl t (ParamList.find?_some ht).1
      split
      · split
        · exact setValue_frame w t v hts hc j hj
        · show val (matchSome l (setValue w t v).w rest).1.w j = val w j
          rw [matchSome_frame l hl rest _ (hc.sameBut (setValue_sameBut w t v)) j hj]
          exact setValue_frame w t v hts hc j hj
      · exact matchSome_frame l hl rest w hc j hj

theorem applyAll_frame {S : ObjId → Prop} (src : List (String × Rat)) :
    ∀ (l : List ObjId) (w : World), (∀ i ∈ l, S i) → Closed w S → ∀ j, ¬ S j → val (applyAll src w l).w j = val w j
  | [], _, _, _, _, _ => rfl
  | i :: rest, w, hl, hc, j, hj => by
    simp only [applyAll]
    split
    · rfl
    · rename_i v _
      have his := hl i (List.mem_cons_self ..)
      split
      · exact setValue_frame w i v his hc j hj
      · rw [applyAll_frame src rest _ (fun x hx => hl x (List.mem_cons_of_mem _ hx))
          (hc.sameBut (setValue_sameBut w i v)) j hj]
        exact setValue_frame w i v his hc j hj

/-- **a value update of the object in slot `k` writes the parameters of that object only** -/
theorem update_frame {w : World} (h : Inv w) {k : Nat} {o : Obj} (ho : w.objs k = some o) (j : ObjId) (hj : j ∉ o.params) :
    (∀ n v, val (apSetParameterValue w k n v).w j = val w j) ∧
    (∀ src, val (apSetParametersValues w k src).w j = val w j) ∧
    (∀ src, val (apMatchParametersValues w k src).1.w j = val w j) ∧
    (∀ src, val (apSetAllParametersValues w k src).w j = val w j) := by
  have hc := (h.obj k o ho).closed ho
  refine ⟨fun n v => ?_, fun src => ?_, fun src => ?_, fun src => ?_⟩
  · simp only [apSetParameterValue, ho, setParameterValue]
    split
    · rfl
    · rename_i i hi
      exact setValue_frame (S := fun i => i ∈ o.params) w i v (ParamList.find?_some hi).1 hc j hj
  · simp only [apSetParametersValues, ho, setParametersValues]
    split
    · rfl
    · exact applySome_frame (S := fun i => i ∈ o.params) o.params (fun i hi => hi) src w hc j hj
  · simp only [apMatchParametersValues, ho, matchParametersValues]
    split
    · rfl
    · exact matchSome_frame (S := fun i => i ∈ o.params) o.params (fun i hi => hi) src w hc j hj
  · simp only [apSetAllParametersValues, ho, setAllParametersValues]
    split
    · rfl
    · exact applyAll_frame (S := fun i => i ∈ o.params) src o.params w (fun i hi => hi) hc j hj

/-! ## Links in sync stay in sync under updates of independent parameters -/

/-- every registered link of the object has equal values at its two ends -/
def AllSynced (w : World) (o : Obj) : Prop :=
  ∀ e ∈ o.reg, ∀ s t, s ∈ o.params → nameOf w.heap s = o.pre ++ (w.lis e.2).src →
    o.params[(w.lis e.2).alias]? = some t → val w t = val w s

theorem synced_setValue_root {w : World} {k : Nat} {o : Obj} (h : ObjInv w k o) (ho : w.objs k = some o)
    (hsy : AllSynced w o) {r : ObjId} (hr : r ∈ o.indep) {v : Rat} (ok : (setValue w r v).err = none) :
    AllSynced (setValue w r v).w o := by
  obtain ⟨st, _⟩ := setValue_step w r v ok
  have cs := setValue_cause w r v ok
  have hrp := h.indepSub r hr
  have hclosed := h.closed ho
  intro e he s t hs hsn ht
  rw [st.lis] at ht hsn
  have hsn' : nameOf w.heap s = o.pre ++ (w.lis e.2).src := by rw [← st.toSameBut.nameOf]; exact hsn
  obtain ⟨_, _, r3, ⟨s0, hs0, hs0n, hs0l⟩, _⟩ := h.regOk e he
  have : s0 = s := h.name_inj hs0 hs (hs0n.trans hsn'.symm)
  subst this
  have htg : tgt w e.2 = some t := by simp only [tgt, r3, ho]; exact ht
  by_cases hc : val (setValue w r v).w s0 = val w s0
  · have htc : val (setValue w r v).w t = val w t := by
      by_contra hne
      rcases cs t hne with rfl | ⟨x, l, hl, hlt, hx⟩
      · exact (h.indepIff _ hrp).1 hr ⟨e, he, ht⟩
      · have hxp : x ∈ o.params := by
          by_contra hxn
          exact hx (setValue_frame (S := fun i => i ∈ o.params) w r v hrp hclosed x hxn)
        obtain ⟨hreg, hxn⟩ := h.lsnOk x hxp l hl
        have hpl := (h.regOk _ hreg).pl
        simp only at hpl
        simp only [tgt, hpl, ho] at hlt
        have hsame := h.once _ hreg e he (h.pos_inj hlt ht)
        have hl2 : l = e.2 := by rw [← hsame]
        subst hl2
        have : x = s0 := h.name_inj hxp hs0 (hxn.trans hs0n.symm)
        subst this
        exact hx hc
    rw [htc, hc]; exact hsy e he s0 t hs hsn' ht
  · exact st.tracks_direct hs0l htg hc

theorem ObjInv.transport {w w' : World} {k : Nat} {o : Obj} (h : ObjInv w k o) (s : SameBut w w') : ObjInv w' k o :=
  h.sameShape s.sameShape

/-- the source of a bulk setter names independent parameters only (or names the object does not have) -/
def NamesIndep (w : World) (o : Obj) (src : List (String × Rat)) : Prop :=
  ∀ e ∈ src, ∀ t, find? w.heap o.params e.1 = some t → t ∈ o.indep

theorem synced_applySome {k : Nat} {o : Obj} : ∀ (src : List (String × Rat)) (w : World), ObjInv w k o → w.objs k = some o →
    AllSynced w o → NamesIndep w o src → (applySome o.params w src).err = none → AllSynced (applySome o.params w src).w o
  | [], _, _, _, hsy, _, _ => hsy
  | (n, v) :: rest, w, h, ho, hsy, hn, ok => by
    simp only [applySome] at ok ⊢
    have hrest : NamesIndep w o rest := fun e he => hn e (List.mem_cons_of_mem _ he)
    cases hf : find? w.heap o.params n with
    | none => simp only [hf] at ok ⊢; exact synced_applySome rest w h ho hsy hrest ok
    | some t =>
      simp only [hf] at ok ⊢
      cases hok : (setValue w t v).err with
      | some e => simp [hok] at ok
      | none =>
        simp only [hok] at ok ⊢
        have sb := setValue_sameBut w t v
        refine synced_applySome rest _ (h.transport sb) (by rw [sb.objs]; exact ho)
          (synced_setValue_root h ho hsy (hn (n, v) (List.mem_cons_self ..) t hf) hok) ?_ ok
        intro e he t' ht'
        rw [sb.find?] at ht'
        exact hrest e he t' ht'

theorem synced_matchSome {k : Nat} {o : Obj} : ∀ (src : List (String × Rat)) (w : World), ObjInv w k o → w.objs k = some o →
    AllSynced w o → NamesIndep w o src → (matchSome o.params w src).1.err = none → AllSynced (matchSome o.params w src).1.w o
  | [], _, _, _, hsy, _, _ => hsy
  | (n, v) :: rest, w, h, ho, hsy, hn, ok => by
    simp only [matchSome] at ok ⊢
    have hrest : NamesIndep w o rest := fun e he => hn e (List.mem_cons_of_mem _ he)
    cases hf : find? w.heap o.params n with
    | none => simp only [hf] at ok ⊢; exact synced_matchSome rest w h ho hsy hrest ok
    | some t =>
      simp only [hf] at ok ⊢
      by_cases hne : (w.heap.get t).value ≠ v
      · rw [if_pos hne] at ok ⊢
        cases hok : (setValue w t v).err with
        | some e => simp [hok] at ok
        | none =>
          simp only [hok] at ok ⊢
          have sb := setValue_sameBut w t v
          refine synced_matchSome rest _ (h.transport sb) (by rw [sb.objs]; exact ho)
            (synced_setValue_root h ho hsy (hn (n, v) (List.mem_cons_self ..) t hf) hok) ?_ ok
          intro e he t' ht'
          rw [sb.find?] at ht'
          exact hrest e he t' ht'
      · rw [if_neg hne] at ok ⊢
        exact synced_matchSome rest w h ho hsy hrest ok

end Bpp.Alias
