import Mathlib.LinearAlgebra.Matrix.Stochastic
import Mathlib.Algebra.Order.BigOperators.Group.Finset
import Mathlib.Algebra.BigOperators.Ring.Finset
import Mathlib.Algebra.Order.BigOperators.Ring.Finset
import Mathlib.Tactic.Linarith
import Mathlib.Tactic.Ring
/-!
Helper lemmas for C13: a row of a high power of a row-stochastic matrix is stationary up to an
explicit remainder (Dobrushin's contraction).  If every entry of `P` is at least `δ`, then for every
vector `v` with `Σ v = 0`:  `‖v·P‖₁ ≤ (1 − n·δ)·‖v‖₁`; hence for a probability vector `μ`
`‖(μ·P^k)·P − μ·P^k‖₁ = ‖(μ·P − μ)·P^k‖₁ ≤ 2·(1 − n·δ)^k`.
-/
namespace Bpp.Hmm
open Matrix Finset

variable {n : Nat}

/-- `‖v‖₁` -/
noncomputable def l1 (v : Fin n → ℝ) : ℝ := ∑ i, |v i|

theorem l1_nonneg (v : Fin n → ℝ) : 0 ≤ l1 v := Finset.sum_nonneg (fun _ _ => abs_nonneg _)

theorem abs_le_l1 (v : Fin n → ℝ) (j : Fin n) : |v j| ≤ l1 v :=
  Finset.single_le_sum (f := fun i => |v i|) (fun _ _ => abs_nonneg _) (Finset.mem_univ j)

/-- a row-stochastic matrix keeps the sum of the entries of a row vector -/
theorem sum_vecMul (P : Matrix (Fin n) (Fin n) ℝ) (hP : ∀ i, ∑ j, P i j = 1) (v : Fin n → ℝ) :
    ∑ j, (v ᵥ* P) j = ∑ i, v i := by
  simp only [vecMul, dotProduct]
  rw [Finset.sum_comm]
  apply Finset.sum_congr rfl
  intro i _
  rw [← Finset.mul_sum, hP i, mul_one]

/-- Dobrushin: one step contracts zero-sum vectors by `1 − n·δ` -/
theorem l1_vecMul_le (P : Matrix (Fin n) (Fin n) ℝ) (hP : ∀ i, ∑ j, P i j = 1) (δ : ℝ) (hδ : ∀ i j, δ ≤ P i j)
    (v : Fin n → ℝ) (hv : ∑ i, v i = 0) : l1 (v ᵥ* P) ≤ (1 - n * δ) * l1 v := by
  have h1 : ∀ j, (v ᵥ* P) j = ∑ i, v i * (P i j - δ) := by
    intro j
    simp only [vecMul, dotProduct]
    have : ∑ i, v i * (P i j - δ) = ∑ i, v i * P i j - δ * ∑ i, v i := by
      rw [Finset.mul_sum, ← Finset.sum_sub_distrib]
      apply Finset.sum_congr rfl; intro i _; ring
    rw [this, hv, mul_zero, sub_zero]
  have h2 : ∀ j, |(v ᵥ* P) j| ≤ ∑ i, |v i| * (P i j - δ) := by
    intro j
    rw [h1 j]
    refine (Finset.abs_sum_le_sum_abs _ _).trans (le_of_eq ?_)
    apply Finset.sum_congr rfl; intro i _
    rw [abs_mul, abs_of_nonneg (sub_nonneg.mpr (hδ i j))]
  calc l1 (v ᵥ* P) = ∑ j, |(v ᵥ* P) j| := rfl
    _ ≤ ∑ j, ∑ i, |v i| * (P i j - δ) := Finset.sum_le_sum (fun j _ => h2 j)
    _ = ∑ i, |v i| * ∑ j, (P i j - δ) := by
        rw [Finset.sum_comm]; apply Finset.sum_congr rfl; intro i _; rw [Finset.mul_sum]
    _ = ∑ i, |v i| * (1 - n * δ) := by
        apply Finset.sum_congr rfl; intro i _
        rw [Finset.sum_sub_distrib, hP i]
        simp [Finset.sum_const, Finset.card_univ]
    _ = (1 - n * δ) * l1 v := by unfold l1; rw [Finset.mul_sum]; apply Finset.sum_congr rfl; intro i _; ring

/-- … and `k` steps by `(1 − n·δ)^k` -/
theorem l1_vecMul_pow_le (P : Matrix (Fin n) (Fin n) ℝ) (hP : ∀ i, ∑ j, P i j = 1) (δ : ℝ) (hδ : ∀ i j, δ ≤ P i j)
    (hc : 0 ≤ 1 - (n : ℝ) * δ) (v : Fin n → ℝ) (hv : ∑ i, v i = 0) (k : Nat) :
    l1 (v ᵥ* P ^ k) ≤ (1 - n * δ) ^ k * l1 v := by
  induction k generalizing v with
  | zero => simp
  | succ k ih =>
    rw [pow_succ', ← vecMul_vecMul, pow_succ]
    have hz : ∑ i, (v ᵥ* P) i = 0 := by rw [sum_vecMul P hP, hv]
    calc l1 ((v ᵥ* P) ᵥ* P ^ k) ≤ (1 - n * δ) ^ k * l1 (v ᵥ* P) := ih _ hz
      _ ≤ (1 - n * δ) ^ k * ((1 - n * δ) * l1 v) :=
          mul_le_mul_of_nonneg_left (l1_vecMul_le P hP δ hδ v hv) (pow_nonneg hc k)
      _ = (1 - n * δ) ^ k * (1 - n * δ) * l1 v := by ring

/-- a probability vector moved `k` steps along the chain is stationary up to `2·(1 − n·δ)^k` in `ℓ¹`,
hence in every coordinate -/
theorem stationary_remainder (P : Matrix (Fin n) (Fin n) ℝ) (hP0 : ∀ i j, 0 ≤ P i j) (hP : ∀ i, ∑ j, P i j = 1)
    (δ : ℝ) (hδ : ∀ i j, δ ≤ P i j) (hc : 0 ≤ 1 - (n : ℝ) * δ)
    (μ : Fin n → ℝ) (hμ0 : ∀ i, 0 ≤ μ i) (hμ : ∑ i, μ i = 1) (k : Nat) (j : Fin n) :
    |((μ ᵥ* P ^ k) ᵥ* P) j - (μ ᵥ* P ^ k) j| ≤ 2 * (1 - n * δ) ^ k := by
  -- (μ P^k) P − μ P^k = (μ P − μ) P^k
  have hcomm : (μ ᵥ* P ^ k) ᵥ* P = (μ ᵥ* P) ᵥ* P ^ k := by
    rw [vecMul_vecMul, vecMul_vecMul, ← pow_succ, ← pow_succ']
  have hdiff : (μ ᵥ* P ^ k) ᵥ* P - μ ᵥ* P ^ k = (μ ᵥ* P - μ) ᵥ* P ^ k := by
    rw [hcomm, sub_vecMul]
  have hz : ∑ i, (μ ᵥ* P - μ) i = 0 := by
    simp only [Pi.sub_apply, Finset.sum_sub_distrib]
    rw [sum_vecMul P hP, sub_self]
  have hμP0 : ∀ i, 0 ≤ (μ ᵥ* P) i := by
    intro i; simp only [vecMul, dotProduct]
    exact Finset.sum_nonneg (fun a _ => mul_nonneg (hμ0 a) (hP0 a i))
  have hl1 : l1 (μ ᵥ* P - μ) ≤ 2 := by
    calc l1 (μ ᵥ* P - μ) ≤ ∑ i, (|(μ ᵥ* P) i| + |μ i|) :=
          Finset.sum_le_sum (fun i _ => by simpa [Pi.sub_apply] using abs_sub ((μ ᵥ* P) i) (μ i))
      _ = ∑ i, (μ ᵥ* P) i + ∑ i, μ i := by
          rw [Finset.sum_add_distrib]
          congr 1 <;> (apply Finset.sum_congr rfl; intro i _)
          · exact abs_of_nonneg (hμP0 i)
          · exact abs_of_nonneg (hμ0 i)
      _ = 2 := by rw [sum_vecMul P hP, hμ]; norm_num
  have hb := l1_vecMul_pow_le P hP δ hδ hc (μ ᵥ* P - μ) hz k
  have hj := abs_le_l1 ((μ ᵥ* P - μ) ᵥ* P ^ k) j
  have : |((μ ᵥ* P ^ k) ᵥ* P) j - (μ ᵥ* P ^ k) j| = |((μ ᵥ* P - μ) ᵥ* P ^ k) j| := by
    rw [← hdiff]; rfl
  rw [this]
  calc |((μ ᵥ* P - μ) ᵥ* P ^ k) j| ≤ l1 ((μ ᵥ* P - μ) ᵥ* P ^ k) := hj
    _ ≤ (1 - n * δ) ^ k * l1 (μ ᵥ* P - μ) := hb
    _ ≤ (1 - n * δ) ^ k * 2 := mul_le_mul_of_nonneg_left hl1 (pow_nonneg hc k)
    _ = 2 * (1 - n * δ) ^ k := by ring

end Bpp.Hmm
