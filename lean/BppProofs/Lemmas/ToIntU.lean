import BppModel.Text.ToIntU
import BppProofs.Lemmas.NumberToInt
/-!
Helper lemmas for `Props/C16ToInt.lean`: the UB-aware `TextTools::toInt` (`BppModel/Text/ToIntU.lean`,
every `long long` operation checked, the scaling loop on fuel) against C17's transcription on
naturals (`Number.toInt`).  On a text `isDecimalInteger` accepts, every character the mantissa loop
reads is a digit and the mantissa stays in `[0, 2^31 + 1]`; what follows the mark (after an optional
`+`) is made of digits and the exponent stays in `[0, 11]`; the scaling loop needs at most 11 rounds.
No hypothesis on the exponent mark is needed: `intLoop` tests `c == sci` before `isDigit c`, exactly
as the mantissa loop does, and rejects a second mark.
-/
namespace Bpp.Text.U
open Bpp.Text Bpp.Text.Number

/-- equality of outcomes is decidable (for the concrete instances proved by `decide`) -/
instance toIntDecEqR {α : Type} [DecidableEq α] : DecidableEq (R α) := fun a b =>
  match a, b with
  | .ok x, .ok y =>
    if h : x = y then isTrue (by rw [h]) else isFalse (by intro h'; cases h'; exact h rfl)
  | .error x, .error y =>
    if h : x = y then isTrue (by rw [h]) else isFalse (by intro h'; cases h'; exact h rfl)
  | .ok _, .error _ => isFalse (by intro h; cases h)
  | .error _, .ok _ => isFalse (by intro h; cases h)

theorem isDigit_toNat {c : Char} (h : isDigit c = true) : 48 ≤ c.toNat ∧ c.toNat ≤ 57 := by
  unfold isDigit at h
  simp only [Bool.and_eq_true, decide_eq_true_eq] at h
  rw [Char.le_def, Char.le_def] at h
  rw [UInt32.le_iff_toNat_le, UInt32.le_iff_toNat_le] at h
  exact h

theorem charMinus0_digit {c : Char} (h : isDigit c = true) :
    charMinus0 c = (digitVal c : Int) ∧ digitVal c ≤ 9 := by
  have := isDigit_toNat h
  unfold charMinus0 digitVal
  constructor
  · split <;> omega
  · omega

theorem llRes_ok {v : Int} (h1 : llMin ≤ v) (h2 : v ≤ llMax) : llRes v = .ok v := by
  unfold llRes; rw [if_pos ⟨h1, h2⟩]

theorem bind_ok {α β : Type} (a : α) (f : α → R β) : ((Except.ok a : R α) >>= f) = f a := rfl

/-- the exponent loop on digits: no overflow, the natural-number loop's value, at most 11 -/
theorem expU_digits (ds : Str) (hds : AllDigits ds) (e : Nat) (he : e ≤ 11) :
    expU true (e : Int) ds = .ok ((satExp e ds : Nat) : Int) ∧ satExp e ds ≤ 11 := by
  induction ds generalizing e with
  | nil => exact ⟨rfl, he⟩
  | cons c r ih =>
    obtain ⟨h1, h2⟩ := charMinus0_digit (hds c (by simp))
    have hr : AllDigits r := fun x hx => hds x (by simp [hx])
    have a1 : llRes ((e : Int) * 10) = .ok ((e : Int) * 10) :=
      llRes_ok (by unfold llMin; omega) (by unfold llMax; omega)
    have a2 : llRes ((e : Int) * 10 + charMinus0 c) = .ok ((e : Int) * 10 + charMinus0 c) :=
      llRes_ok (by unfold llMin; omega) (by unfold llMax; omega)
    have a3 : (if true && decide ((e : Int) * 10 + charMinus0 c > 10) then (11 : Int)
        else (e : Int) * 10 + charMinus0 c)
        = (((if e * 10 + digitVal c > 10 then 11 else e * 10 + digitVal c) : Nat) : Int) := by
      rw [h1]
      simp only [Bool.true_and, decide_eq_true_eq]
      split <;> split <;> omega
    have a4 : (if e * 10 + digitVal c > 10 then 11 else e * 10 + digitVal c) ≤ 11 := by
      split <;> omega
    unfold expU satExp
    rw [a1, bind_ok, a2, bind_ok, a3]
    exact ih hr _ a4

/-- the scaling loop: `e ≤ fuel` rounds suffice, no overflow, the natural-number loop's value -/
theorem scaleU_ok (fuel e n : Nat) (he : e ≤ fuel) (hb : (e : Int) ≤ llMax) (hn : n ≤ toIntLim + 1) :
    scaleU fuel (e : Int) (n : Int) = .ok ((satMul e n : Nat) : Int) := by
  induction fuel generalizing e n with
  | zero =>
    have : e = 0 := by omega
    subst this
    unfold scaleU satMul
    simp
  | succ f ih =>
    unfold scaleU
    cases e with
    | zero => simp [satMul]
    | succ e =>
      unfold satMul
      by_cases hm : n = 0
      · subst hm; simp
      · have hm' : (n == 0) = false := by simpa using hm
        have c1 : (decide (((e + 1 : Nat) : Int) > 0) && ((n : Int) != 0)) = true := by
          simp; omega
        unfold toIntLim at hn
        unfold llMax at hb
        have a1 : llRes ((n : Int) * 10) = .ok ((n : Int) * 10) :=
          llRes_ok (by unfold llMin; omega) (by unfold llMax; omega)
        have a2 : llRes (((e + 1 : Nat) : Int) - 1) = .ok ((e : Nat) : Int) := by
          have : ((e + 1 : Nat) : Int) - 1 = (e : Int) := by omega
          rw [this]
          exact llRes_ok (by unfold llMin; omega) (by unfold llMax; omega)
        have a3 : satLim ((n : Int) * 10)
            = (((if n * 10 > toIntLim then toIntLim + 1 else n * 10) : Nat) : Int) := by
          unfold satLim toIntLimI toIntLim
          split <;> split <;> omega
        have a4 : (if n * 10 > toIntLim then toIntLim + 1 else n * 10) ≤ toIntLim + 1 := by
          unfold toIntLim; split <;> omega
        rw [c1, if_pos rfl, a1, bind_ok, a2, bind_ok, a3, hm']
        simp only [Bool.false_eq_true, if_false]
        exact ih e _ (by omega) (by unfold llMax; omega) a4

/-- one round of the mantissa loop on a digit -/
theorem mant_step {n : Nat} (hn : n ≤ toIntLim + 1) {c : Char} (hc : isDigit c = true) :
    llRes ((n : Int) * 10) = .ok ((n : Int) * 10) ∧
    llRes ((n : Int) * 10 + charMinus0 c) = .ok ((n : Int) * 10 + charMinus0 c) ∧
    satLim ((n : Int) * 10 + charMinus0 c) = ((satStep n (digitVal c) : Nat) : Int) ∧
    satStep n (digitVal c) ≤ toIntLim + 1 := by
  obtain ⟨h1, h2⟩ := charMinus0_digit hc
  unfold toIntLim at hn
  refine ⟨llRes_ok ?_ ?_, llRes_ok ?_ ?_, ?_, ?_⟩
  · unfold llMin; omega
  · unfold llMax; omega
  · unfold llMin; omega
  · unfold llMax; omega
  · unfold satLim satStep toIntLimI toIntLim
    rw [h1]
    split <;> split <;> omega
  · unfold satStep toIntLim
    split <;> omega

/-- with one exponent mark seen, `intLoop` accepts digits only -/
theorem intLoop_one_digits (sci : Char) (l : Str) (dig : Nat) (h : intLoop sci 1 dig l = true) :
    AllDigits l := by
  induction l generalizing dig with
  | nil => intro c hc; cases hc
  | cons c rest ih =>
    rw [intLoop.eq_def] at h
    simp only at h
    split at h
    · split at h
      · cases h
      · split at h
        · cases h
        · split at h
          · cases h
          · split at h
            · split at h
              · cases h
              · simp at h
            · simp at h
    · split at h
      · cases h
      · split at h
        · omega
        · rename_i hd _
          have hd' : isDigit c = true := by simpa using hd
          intro x hx
          rcases List.mem_cons.mp hx with rfl | hx
          · exact hd'
          · exact ih _ h x hx
/-- what is left after the mantissa loop of an accepted text: nothing, or the mark, an optional
`+` and digits -/
def RestOk (rest : Str) : Prop := rest = [] ∨ ∃ c r, rest = c :: r ∧ AllDigits (skipPlus r)

/-- the mantissa loop on an accepted text -/
theorem mantU_ok (sci : Char) (l : Str) (dig n : Nat) (h : intLoop sci 0 dig l = true)
    (hn : n ≤ toIntLim + 1) :
    mantU sci (n : Int) l = .ok (((satMant sci n l).1 : Int), (satMant sci n l).2) ∧
    (satMant sci n l).1 ≤ toIntLim + 1 ∧ RestOk (satMant sci n l).2 := by
  induction l generalizing dig n with
  | nil => exact ⟨rfl, hn, Or.inl rfl⟩
  | cons c rest ih =>
    rw [intLoop.eq_def] at h
    simp only at h
    by_cases hcs : (c == sci) = true
    · unfold mantU satMant
      simp only [hcs, if_true]
      refine ⟨trivial, hn, Or.inr ⟨c, rest, rfl, ?_⟩⟩
      simp only [hcs, if_true] at h
      split at h
      · cases h
      · split at h
        · cases h
        · rename_i c2 rest2
          split at h
          · cases h
          · split at h
            · rename_i hp
              have : c2 = '+' := by simpa using hp
              subst this
              split at h
              · cases h
              · split at h
                · cases h
                · exact intLoop_one_digits sci _ _ h
            · rename_i hm hp
              split at h
              · cases h
              · have hne : c2 ≠ '+' := by simpa using hp
                have : skipPlus (c2 :: rest2) = c2 :: rest2 := by
                  unfold skipPlus
                  split
                  · rename_i heq; simp only [List.cons.injEq] at heq; exact absurd heq.1 hne
                  · rfl
                rw [this]
                exact intLoop_one_digits sci _ _ h
    · have hcs' : (c == sci) = false := by simpa using hcs
      simp only [hcs', Bool.false_eq_true, if_false] at h
      split at h
      · cases h
      · rename_i hd
        have hd' : isDigit c = true := by simpa using hd
        split at h
        · cases h
        · obtain ⟨a1, a2, a3, a4⟩ := mant_step hn hd'
          unfold mantU satMant
          simp only [hcs', Bool.false_eq_true, if_false]
          rw [a1, bind_ok, a2, bind_ok, a3]
          exact ih _ _ h a4


/-- `toInt` after the mantissa loop (:235-252): the exponent and the scaling -/
def tailU (sat : Bool) (m : Int) : Str → R Int
  | [] => pure m
  | _ :: r => do
    let e ← expU sat 0 (skipPlus r)
    scaleU scaleFuel e m

/-- `toInt` after the scaling: the range test and the conversion (:253-255) -/
def finalU (neg : Bool) (m : Int) : R Int :=
  if (if neg then decide (m > toIntLimI) else decide (m ≥ toIntLimI)) then .error .bpp
  else .ok (if neg then -m else m)

theorem toIntUG_eq (sat : Bool) (sci : Char) (s : Str) :
    toIntUG sat sci s =
      if !isDecimalInteger sci s then .error .bpp
      else (mantU sci 0 (if (s.head? == some '-') then s.drop 1 else s)) >>= fun mr =>
        tailU sat mr.1 mr.2 >>= fun m => finalU (s.head? == some '-') m := by
  unfold toIntUG
  split
  · rfl
  · dsimp only
    generalize mantU sci 0 (if (s.head? == some '-') = true then s.drop 1 else s) = x
    cases x with
    | error e => rfl
    | ok mr =>
      obtain ⟨m, rest⟩ := mr
      cases rest with
      | nil => rfl
      | cons c r =>
        simp only [bind_ok, tailU]
        cases expU sat 0 (skipPlus r) <;> rfl

/-- exponent and scaling of an accepted text -/
theorem tailU_ok (n : Nat) (hn : n ≤ toIntLim + 1) (rest : Str) (hr : RestOk rest) :
    tailU true (n : Int) rest = .ok ((scaleByExp n rest : Nat) : Int) := by
  rcases hr with rfl | ⟨c, r, rfl, hd⟩
  · rfl
  · obtain ⟨h1, h2⟩ := expU_digits _ hd 0 (by omega)
    simp only [tailU, scaleByExp]
    have : ((0 : Nat) : Int) = 0 := rfl
    rw [this] at h1
    rw [h1, bind_ok]
    exact scaleU_ok scaleFuel _ n (by unfold scaleFuel; omega) (by unfold llMax; omega) hn

/-- the body of an accepted text (after the sign) is accepted by the loop -/
theorem body_accepted (sci : Char) (s : Str) (h : isDecimalInteger sci s = true) :
    intLoop sci 0 0 (if (s.head? == some '-') then s.drop 1 else s) = true := by
  unfold isDecimalInteger at h
  split at h
  · cases h
  · split at h
    · simpa using h
    · rename_i hne
      have : (s.head? == some '-') = false := by
        cases s with
        | nil => rfl
        | cons c r =>
          cases hc : (c == '-') with
          | false => simpa using hc
          | true =>
            have : c = '-' := by simpa using hc
            exact absurd (by rw [this]) (hne r)
      simpa [this] using h

theorem finalU_nat (neg : Bool) (n : Nat) :
    finalU neg (n : Int) =
      lift (if (if neg then decide (n > toIntLim) else decide (n ≥ toIntLim)) then none
            else some (if neg then - (n : Int) else (n : Int))) := by
  unfold finalU toIntLimI toIntLim
  cases neg
  · simp only [Bool.false_eq_true, if_false]
    by_cases h : n ≥ 2147483648
    · have h' : (n : Int) ≥ 2147483648 := by omega
      simp [h, h', lift]
    · have h' : ¬ (n : Int) ≥ 2147483648 := by omega
      simp [h, h', lift]
  · simp only [if_true]
    by_cases h : n > 2147483648
    · have h' : (n : Int) > 2147483648 := by omega
      simp [h, h', lift]
    · have h' : ¬ (n : Int) > 2147483648 := by omega
      simp [h, h', lift]

/-- the UB-aware `toInt` computes what the natural-number transcription computes -/
theorem toIntU_refines_lem (sci : Char) (s : Str) : toIntU sci s = lift (Number.toInt sci s) := by
  unfold toIntU
  rw [toIntUG_eq]
  unfold Number.toInt
  cases hacc : isDecimalInteger sci s with
  | false => rfl
  | true =>
    simp only [Bool.not_true, Bool.false_eq_true, if_false]
    obtain ⟨h1, h2, h3⟩ := mantU_ok sci _ 0 0 (body_accepted sci s hacc) (by unfold toIntLim; omega)
    have : ((0 : Nat) : Int) = 0 := rfl
    rw [this] at h1
    rw [h1, bind_ok, tailU_ok _ h2 _ h3, bind_ok]
    exact finalU_nat _ _


/-- a result that is a value or the library's exception is safe -/
theorem safe_lift {α : Type} (o : Option α) : safe (lift o) = true := by
  cases o <;> rfl

/-- a value `Number.toInt` returns is in the range of `int` -/
theorem toInt_range_lem (sci : Char) (s : Str) (v : Int) (h : Number.toInt sci s = some v) :
    -2147483648 ≤ v ∧ v ≤ 2147483647 := by
  unfold Number.toInt toIntLim at h
  split at h
  · cases h
  · dsimp only at h
    generalize scaleByExp _ _ = m at h
    cases hn : (s.head? == some '-')
    · simp only [hn, Bool.false_eq_true, if_false, decide_eq_true_eq] at h
      split at h
      · cases h
      · simp only [Option.some.injEq] at h; omega
    · simp only [hn, if_true, decide_eq_true_eq] at h
      split at h
      · cases h
      · simp only [Option.some.injEq] at h; omega

/-! ### the bounds made explicit -/

/-- the exponent loop on digits returns a value in `[0, 11]` -/
theorem expU_sat_bound_lem (ds : Str) (hds : AllDigits ds) :
    ∃ e, expU true 0 ds = .ok e ∧ 0 ≤ e ∧ e ≤ 11 := by
  obtain ⟨h1, h2⟩ := expU_digits ds hds 0 (by omega)
  exact ⟨_, h1, by omega, by omega⟩

/-- the scaling loop with an exponent in `[0, 11]` and a mantissa in `[0, 2^31 + 1]`: the fuel of
the entry point suffices, nothing overflows, and the result stays in `[0, 2^31 + 1]` -/
theorem scaleU_rounds_lem (e m : Int) (he0 : 0 ≤ e) (he : e ≤ 11) (hm0 : 0 ≤ m)
    (hm : m ≤ toIntLimI + 1) :
    ∃ v, scaleU scaleFuel e m = .ok v ∧ 0 ≤ v ∧ v ≤ toIntLimI + 1 := by
  unfold toIntLimI at *
  have e1 : e = ((e.toNat : Nat) : Int) := (Int.toNat_of_nonneg he0).symm
  have e2 : m = ((m.toNat : Nat) : Int) := (Int.toNat_of_nonneg hm0).symm
  have hn : m.toNat ≤ toIntLim + 1 := by unfold toIntLim; omega
  have hs := scaleU_ok scaleFuel e.toNat m.toNat (by unfold scaleFuel; omega)
    (by unfold llMax; omega) hn
  rw [← e1, ← e2] at hs
  refine ⟨_, hs, by omega, ?_⟩
  have hb : satMul e.toNat m.toNat ≤ toIntLim + 1 := by
    rw [satMul_min e.toNat m.toNat m.toNat (Nat.min_eq_left hn).symm]
    exact Nat.min_le_right _ _
  unfold toIntLim at hb
  omega

/-- on an accepted text: the mantissa loop returns a mantissa in `[0, 2^31 + 1]`; either the text
ends there, or the exponent loop returns an exponent in `[0, 11]`, below the fuel of the scaling
loop -/
theorem toIntU_scale_rounds_lem (sci : Char) (s : Str) (h : isDecimalInteger sci s = true) :
    ∃ m rest, mantU sci 0 (if (s.head? == some '-') then s.drop 1 else s) = .ok (m, rest) ∧
      0 ≤ m ∧ m ≤ toIntLimI + 1 ∧
      (rest = [] ∨ ∃ c r e, rest = c :: r ∧ AllDigits (skipPlus r) ∧
        expU true 0 (skipPlus r) = .ok e ∧ 0 ≤ e ∧ e ≤ 11 ∧ e < (scaleFuel : Int)) := by
  obtain ⟨h1, h2, h3⟩ := mantU_ok sci _ 0 0 (body_accepted sci s h) (by unfold toIntLim; omega)
  have : ((0 : Nat) : Int) = 0 := rfl
  rw [this] at h1
  refine ⟨_, _, h1, by omega, ?_, ?_⟩
  · unfold toIntLim at h2; unfold toIntLimI; omega
  · rcases h3 with h3 | ⟨c, r, h3, hd⟩
    · exact Or.inl h3
    · obtain ⟨e, he, he0, he1⟩ := expU_sat_bound_lem _ hd
      exact Or.inr ⟨c, r, e, h3, hd, he, he0, he1, by unfold scaleFuel; omega⟩

end Bpp.Text.U
