import BppModel.Text.Vars
import BppProofs.Lemmas.Keyval
/-! Helper lemmas for C17 (variable resolution). -/
namespace Bpp.Text.Vars
open Bpp.Text Bpp.Text.Keyval

abbrev D : Str := ['$', '(']

/-- `$(b)` followed by `rest` -/
def refStr (b rest : Str) : Str := '$' :: '(' :: (b ++ ')' :: rest)

theorem cleanText_append {p t : Str} (hp : cleanText p = true) (ht : cleanText t = true) :
    cleanText (p ++ t) = true := by
  simp only [cleanText, List.all_append, Bool.and_eq_true] at *; exact ⟨hp, ht⟩

/-! ### searching for a reference in a text -/

theorem find_ref (p b rest : Str) (hp : cleanText p = true) :
    find D (p ++ refStr b rest) = some p.length := by
  induction p with
  | nil => simp [find, isPrefix, refStr]
  | cons c p ih =>
    simp only [cleanText, List.all_cons, Bool.and_eq_true, bne_iff_ne, ne_eq] at hp
    have hc : ('$' == c) = false := by simpa using fun h => hp.1 h.symm
    simp only [List.cons_append, find, isPrefix, hc, Bool.false_and, Bool.false_eq_true, if_false]
    rw [ih (by simpa [cleanText] using hp.2)]; simp

theorem find_clean (p : Str) (hp : cleanText p = true) : find D p = none := by
  induction p with
  | nil => simp [find]
  | cons c p ih =>
    simp only [cleanText, List.all_cons, Bool.and_eq_true, bne_iff_ne, ne_eq] at hp
    have hc : ('$' == c) = false := by simpa using fun h => hp.1 h.symm
    simp only [find, isPrefix, hc, Bool.false_and, Bool.false_eq_true, if_false]
    rw [ih (by simpa [cleanText] using hp.2)]; simp

theorem name_no_close {b : Str} (hb : cleanName b = true) : ∀ a ∈ b, a ≠ ')' := by
  intro a ha
  have := (List.all_eq_true.mp hb) a ha
  simp at this; exact this.2

theorem findFrom_close (p b rest : Str) (hb : cleanName b = true) :
    findFrom [')'] (p ++ refStr b rest) p.length = some (p.length + 2 + b.length) := by
  have hlen : p.length ≤ (p ++ refStr b rest).length := by simp
  simp only [findFrom, hlen, if_true, List.drop_left]
  have : refStr b rest = ('$' :: '(' :: b) ++ ')' :: rest := by simp [refStr]
  rw [this, find_single ')' ('$' :: '(' :: b) rest]
  · simp; omega
  · intro a ha
    rcases List.mem_cons.mp ha with rfl | ha
    · decide
    · rcases List.mem_cons.mp ha with rfl | ha
      · decide
      · exact name_no_close hb a ha

/-- one substitution (AttributesTools.cpp:148-174) on a text whose first reference is `$(b)` -/
theorem resolveOne_step (am : Map) (key : Str) (n : Nat) (p b rest : Str)
    (hp : cleanText p = true) (hb : cleanName b = true) :
    resolveOne am key (n + 1) (p ++ refStr b rest) =
      resolveOne am key n (p ++ (match (if b == key then some (p ++ refStr b rest) else mapFind b am) with
        | none => []
        | some vv => if vv == p ++ refStr b rest then [] else vv) ++ rest) := by
  rw [resolveOne]
  simp only [find_ref p b rest hp, findFrom_close p b rest hb]
  have e1 : ((p ++ refStr b rest).drop (p.length + 2)).take (p.length + 2 + b.length - p.length - 2) = b := by
    have : (p ++ refStr b rest).drop (p.length + 2) = b ++ ')' :: rest := by
      rw [← List.drop_drop]; simp [refStr]
    rw [this]
    have : p.length + 2 + b.length - p.length - 2 = b.length := by omega
    rw [this]; simp
  have e2 : (p ++ refStr b rest).take p.length = p := by simp
  have e3 : (p ++ refStr b rest).drop (p.length + 2 + b.length + 1) = rest := by
    have : p.length + 2 + b.length + 1 = p.length + (2 + b.length + 1) := by omega
    rw [this, ← List.drop_drop, List.drop_left]
    simp only [refStr]
    have : 2 + b.length + 1 = (('$' :: '(' :: b) ++ [')']).length := by simp; omega
    have h2 : '$' :: '(' :: (b ++ ')' :: rest) = (('$' :: '(' :: b) ++ [')']) ++ rest := by simp
    rw [this, h2, List.drop_left]
  simp only [e1, e2, e3]
  rfl

/-! ### the first reference of a rendered segment list -/

theorem sep_unique (x : Char) (c b u v : Str) (hc : ∀ a ∈ c, a ≠ x) (hb : ∀ a ∈ b, a ≠ x)
    (h : c ++ x :: u = b ++ x :: v) : c = b := by
  induction c generalizing b with
  | nil =>
    cases b with
    | nil => rfl
    | cons a b =>
      simp at h; exact absurd h.1.symm (hb a (List.mem_cons_self ..))
  | cons a c ih =>
    cases b with
    | nil => simp at h; exact absurd h.1 (hc a (List.mem_cons_self ..))
    | cons a' b =>
      simp at h
      rw [h.1, ih b (fun y hy => hc y (List.mem_cons_of_mem _ hy)) (fun y hy => hb y (List.mem_cons_of_mem _ hy)) h.2]

theorem renderSegs_cons (s : Seg) (S : List Seg) : renderSegs (s :: S) = renderSeg s ++ renderSegs S := by
  simp [renderSegs]

theorem renderSegs_append (S T : List Seg) : renderSegs (S ++ T) = renderSegs S ++ renderSegs T := by
  simp [renderSegs]

theorem first_ref (S : List Seg) (hS : S.all segOk = true) (p b rest : Str)
    (hp : cleanText p = true) (hb : cleanName b = true)
    (h : renderSegs S = p ++ refStr b rest) : Seg.ref b ∈ S := by
  induction S generalizing p with
  | nil => simp [renderSegs, refStr] at h
  | cons s S ih =>
    simp only [List.all_cons, Bool.and_eq_true] at hS
    rw [renderSegs_cons] at h
    cases s with
    | lit t =>
      have ht : cleanText t = true := hS.1
      simp only [renderSeg] at h
      rcases List.append_eq_append_iff.mp h with ⟨a', h1, h2⟩ | ⟨a', h1, h2⟩
      · -- p = t ++ a'
        have ha' : cleanText a' = true := by
          rw [h1] at hp; simp only [cleanText, List.all_append, Bool.and_eq_true] at hp; exact hp.2
        exact List.mem_cons_of_mem _ (ih hS.2 a' ha' h2)
      · -- t = p ++ a', refStr… = a' ++ renderSegs S
        cases a' with
        | nil =>
          simp at h2
          exact List.mem_cons_of_mem _ (ih hS.2 [] (by simp [cleanText]) (by simpa using h2.symm))
        | cons x a' =>
          simp [refStr] at h2
          rw [h1] at ht
          simp only [cleanText, List.all_append, List.all_cons, Bool.and_eq_true, bne_iff_ne, ne_eq] at ht
          exact absurd h2.1.symm ht.2.1
    | ref c =>
      have hc : cleanName c = true := hS.1
      cases p with
      | nil =>
        simp [renderSeg, refStr] at h
        have := sep_unique ')' c b _ _ (name_no_close hc) (name_no_close hb) h
        rw [this]; exact List.mem_cons_self ..
      | cons x p =>
        simp [renderSeg] at h
        simp only [cleanText, List.all_cons, Bool.and_eq_true, bne_iff_ne, ne_eq] at hp
        exact absurd h.1.symm hp.1

/-! ### levels, expansion -/

theorem okAt_cons (env : SEnv) (n : Nat) (s : Seg) (V : List Seg) :
    okAt env n (s :: V) = (okAt env n [s] && okAt env n V) := by
  cases n <;> simp [okAt]

theorem okAt_ref_succ (env : SEnv) (n : Nat) (b : Str) (segs : List Seg) (h : slookup env b = some segs) :
    okAt env (n + 1) [Seg.ref b] = okAt env n segs := by
  simp [okAt, h]

theorem okAt_ref_zero (env : SEnv) (b : Str) : okAt env 0 [Seg.ref b] = (slookup env b).isNone := by
  simp [okAt]

theorem expand_cons (env : SEnv) (n : Nat) (s : Seg) (V : List Seg) :
    expand env n (s :: V) = expand env n [s] ++ expand env n V := by
  cases n <;> simp [expand]

theorem expand_lit (env : SEnv) (n : Nat) (t : Str) : expand env n [Seg.lit t] = t := by
  cases n <;> simp [expand]

theorem expand_ref_undef (env : SEnv) (n : Nat) (b : Str) (h : slookup env b = none) :
    expand env n [Seg.ref b] = [] := by
  cases n <;> simp [expand, h]

theorem expand_ref_succ (env : SEnv) (n : Nat) (b : Str) (segs : List Seg) (h : slookup env b = some segs) :
    expand env (n + 1) [Seg.ref b] = expand env n segs := by
  simp [expand, h]

/-- a definition that mentions itself is at no level -/
theorem self_ref_not_ok (env : SEnv) (b : Str) (segs : List Seg) (h : slookup env b = some segs)
    (hmem : Seg.ref b ∈ segs) : ∀ m, okAt env m segs = false := by
  intro m
  induction m with
  | zero =>
    cases hh : okAt env 0 segs
    · rfl
    · simp only [okAt, List.all_eq_true] at hh
      have := hh _ hmem
      simp [h] at this
  | succ m ih =>
    cases hh : okAt env (m + 1) segs
    · rfl
    · simp only [okAt, List.all_eq_true] at hh
      have := hh _ hmem
      simp only [h] at this
      rw [ih] at this; cases this

/-- the expansion does not change beyond the level of the text -/
theorem expand_stable (env : SEnv) (m : Nat) (V : List Seg) (h : okAt env m V = true) :
    ∀ j, m ≤ j → expand env j V = expand env m V := by
  induction m generalizing V with
  | zero =>
    intro j _
    induction V with
    | nil => cases j <;> simp [expand]
    | cons s V ih =>
      rw [okAt_cons, Bool.and_eq_true] at h
      rw [expand_cons, expand_cons env 0, ih h.2]
      congr 1
      cases s with
      | lit t => rw [expand_lit, expand_lit]
      | ref b =>
        have : slookup env b = none := by
          have := h.1; rw [okAt_ref_zero] at this
          cases hh : slookup env b with
          | none => rfl
          | some x => rw [hh] at this; cases this
        rw [expand_ref_undef _ _ _ this, expand_ref_undef _ _ _ this]
  | succ m ihm =>
    intro j hj
    obtain ⟨j', rfl⟩ : ∃ j', j = j' + 1 := ⟨j - 1, by omega⟩
    induction V with
    | nil => simp [expand]
    | cons s V ih =>
      rw [okAt_cons, Bool.and_eq_true] at h
      rw [expand_cons, expand_cons env (m + 1), ih h.2]
      congr 1
      cases s with
      | lit t => rw [expand_lit, expand_lit]
      | ref b =>
        cases hh : slookup env b with
        | none => rw [expand_ref_undef _ _ _ hh, expand_ref_undef _ _ _ hh]
        | some segs =>
          rw [expand_ref_succ _ _ _ _ hh, expand_ref_succ _ _ _ _ hh]
          have := h.1; rw [okAt_ref_succ _ _ _ _ hh] at this
          exact ihm segs this j' (by omega)

theorem slookup_mem {env : SEnv} {k : Str} {segs : List Seg} (h : slookup env k = some segs) :
    (k, segs) ∈ env := by
  induction env with
  | nil => simp [slookup] at h
  | cons e env ih =>
    rcases e with ⟨k', segs'⟩
    simp only [slookup] at h
    split at h
    · rename_i hk; simp at hk h; subst hk; subst h; exact List.mem_cons_self ..
    · exact List.mem_cons_of_mem _ (ih h)

/-- expansions of well-formed definitions contain no `$` -/
theorem expand_clean (env : SEnv) (hwf : env.all (fun e => e.2.all segOk) = true) (n : Nat) (V : List Seg)
    (hV : V.all segOk = true) : cleanText (expand env n V) = true := by
  induction n generalizing V with
  | zero =>
    induction V with
    | nil => simp [expand, cleanText]
    | cons s V ih =>
      simp only [List.all_cons, Bool.and_eq_true] at hV
      rw [expand_cons]
      apply cleanText_append _ (ih hV.2)
      cases s with
      | lit t => rw [expand_lit]; exact hV.1
      | ref b => simp [expand, cleanText]
  | succ n ihn =>
    induction V with
    | nil => simp [expand, cleanText]
    | cons s V ih =>
      simp only [List.all_cons, Bool.and_eq_true] at hV
      rw [expand_cons]
      apply cleanText_append _ (ih hV.2)
      cases s with
      | lit t => rw [expand_lit]; exact hV.1
      | ref b =>
        cases hh : slookup env b with
        | none => rw [expand_ref_undef _ _ _ hh]; simp [cleanText]
        | some segs =>
          rw [expand_ref_succ _ _ _ _ hh]
          apply ihn
          have := (List.all_eq_true.mp hwf) _ (slookup_mem hh)
          exact this

/-! ### the map during the outer loop -/

/-- entries already visited hold their expansion, the others their definition -/
def amOf (full : SEnv) (N : Nat) (done : List Str) (part : SEnv) : Map :=
  part.map (fun e => (e.1, if done.contains e.1 then expand full N e.2 else renderSegs e.2))

theorem mapFind_amOf (full : SEnv) (N : Nat) (done : List Str) (part : SEnv) (b : Str) :
    mapFind b (amOf full N done part) =
      (slookup part b).map (fun segs => if done.contains b then expand full N segs else renderSegs segs) := by
  induction part with
  | nil => simp [amOf, mapFind, slookup]
  | cons e part ih =>
    rcases e with ⟨k, segs⟩
    simp only [amOf, List.map_cons, mapFind, slookup] at ih ⊢
    by_cases hk : (b == k) = true
    · have : b = k := by simpa using hk
      subst this; simp
    · simp only [hk, Bool.false_eq_true, if_false]; exact ih

theorem contains_cons_ne {a k : Str} (done : List Str) (h : (k == a) = false) :
    (a :: done).contains k = done.contains k := by
  rw [List.contains_cons, h, Bool.false_or]

theorem mapSet_amOf (full : SEnv) (N : Nat) (done : List Str) (part : SEnv) (a : Str) (segs : List Seg)
    (hd : distinctKeys part = true) (h : slookup part a = some segs) (hnd : done.contains a = false) :
    mapSet a (expand full N segs) (amOf full N done part) = amOf full N (a :: done) part := by
  induction part with
  | nil => simp [slookup] at h
  | cons e part ih =>
    rcases e with ⟨k, sk⟩
    simp only [distinctKeys, Bool.and_eq_true] at hd
    simp only [slookup] at h
    simp only [amOf, List.map_cons, mapSet]
    by_cases hk : (a == k) = true
    · have hak : a = k := by simpa using hk
      subst hak
      simp only [beq_self_eq_true, if_true] at h ⊢
      simp at h; subst h
      simp only [hnd, List.contains_cons, beq_self_eq_true, Bool.true_or, if_true, Bool.false_eq_true, if_false]
      congr 1
      -- the remaining entries have other keys
      have hrest : ∀ (rest : SEnv), slookup rest a = none →
          List.map (fun e => (e.1, if done.contains e.1 then expand full N e.2 else renderSegs e.2)) rest
          = List.map (fun e => (e.1, if (a :: done).contains e.1 then expand full N e.2 else renderSegs e.2)) rest := by
        intro rest hr
        induction rest with
        | nil => rfl
        | cons e rest ihr =>
          rcases e with ⟨k', s'⟩
          simp only [slookup] at hr
          split at hr
          · cases hr
          · rename_i hne
            have hne' : (k' == a) = false := by
              have : ¬ a = k' := by simpa using hne
              simpa using fun h => this h.symm
            simp only [List.map_cons, contains_cons_ne done hne', ihr hr]
      apply hrest
      cases hh : slookup part a with
      | none => rfl
      | some x => rw [hh] at hd; simp at hd
    · have hka : (k == a) = false := by
        have : ¬ a = k := by simpa using hk
        simpa using fun h => this h.symm
      simp only [hk, Bool.false_eq_true, if_false] at h
      simp only [hka, Bool.false_eq_true, if_false, contains_cons_ne done hka]
      congr 1
      exact ih hd.2 h

/-! ### the inner loop resolves a text to its expansion -/

theorem render_ref_cons (b : Str) (V : List Seg) (q : Str) :
    renderSegs (Seg.ref b :: V) ++ q = refStr b (renderSegs V ++ q) := by
  simp [renderSegs_cons, renderSeg, refStr]

theorem not_clean_ref (p b rest : Str) : cleanText (p ++ refStr b rest) = false := by
  simp [cleanText, refStr]

theorem clean_ne_ref {vv p b rest : Str} (h : cleanText vv = true) : (vv == p ++ refStr b rest) = false := by
  cases hh : vv == p ++ refStr b rest
  · rfl
  · have : vv = p ++ refStr b rest := by simpa using hh
    rw [this, not_clean_ref] at h; cases h

theorem resolveOne_clean (am : Map) (key : Str) (n : Nat) (v : Str) (h : cleanText v = true) :
    resolveOne am key n v = .done v := by
  rw [resolveOne]; simp [find_clean v h]

section Inner
variable (env : SEnv) (N : Nat) (done : List Str) (a : Str) (segsa : List Seg)
  (hwf : env.all (fun e => e.2.all segOk) = true)
  (ha : slookup env a = some segsa)
include hwf ha

theorem inner_claim :
    ∀ n, n ≤ N → (∀ m, m < n → okAt env m segsa = false) →
    ∀ V : List Seg, V.all segOk = true → okAt env n V = true →
      ∃ c, ∀ K p q, cleanText p = true →
        resolveOne (amOf env N done env) a (c + K) (p ++ (renderSegs V ++ q))
          = resolveOne (amOf env N done env) a K (p ++ (expand env n V ++ q)) := by
  intro n
  induction n with
  | zero =>
    intro _ _ V
    induction V with
    | nil => intro _ _; exact ⟨0, fun K p q _ => by simp [renderSegs, expand]⟩
    | cons s V ih =>
      intro hV hok
      simp only [List.all_cons, Bool.and_eq_true] at hV
      rw [okAt_cons, Bool.and_eq_true] at hok
      obtain ⟨c2, h2⟩ := ih hV.2 hok.2
      cases s with
      | lit t =>
        refine ⟨c2, fun K p q hp => ?_⟩
        have := h2 K (p ++ t) q (cleanText_append hp hV.1)
        rw [renderSegs_cons, expand_cons, expand_lit]
        simpa [renderSeg, List.append_assoc] using this
      | ref b =>
        have hb : cleanName b = true := hV.1
        have hund : slookup env b = none := by
          have := hok.1; rw [okAt_ref_zero] at this
          cases hh : slookup env b with
          | none => rfl
          | some x => rw [hh] at this; cases this
        have hba : (b == a) = false := by
          cases hh : b == a
          · rfl
          · have : b = a := by simpa using hh
            rw [this, ha] at hund; cases hund
        refine ⟨c2 + 1, fun K p q hp => ?_⟩
        rw [render_ref_cons, show c2 + 1 + K = (c2 + K) + 1 by omega, resolveOne_step _ _ _ _ _ _ hp hb]
        simp only [hba, Bool.false_eq_true, if_false, mapFind_amOf, hund, Option.map_none]
        rw [expand_cons, expand_ref_undef _ _ _ hund]
        simpa using h2 K p q hp
  | succ m ihm =>
    intro hle hmin V
    induction V with
    | nil => intro _ _; exact ⟨0, fun K p q _ => by simp [renderSegs, expand]⟩
    | cons s V ih =>
      intro hV hok
      simp only [List.all_cons, Bool.and_eq_true] at hV
      rw [okAt_cons, Bool.and_eq_true] at hok
      obtain ⟨c2, h2⟩ := ih hV.2 hok.2
      cases s with
      | lit t =>
        refine ⟨c2, fun K p q hp => ?_⟩
        have := h2 K (p ++ t) q (cleanText_append hp hV.1)
        rw [renderSegs_cons, expand_cons, expand_lit]
        simpa [renderSeg, List.append_assoc] using this
      | ref b =>
        have hb : cleanName b = true := hV.1
        cases hlk : slookup env b with
        | none =>
          have hba : (b == a) = false := by
            cases hh : b == a
            · rfl
            · have : b = a := by simpa using hh
              rw [this, ha] at hlk; cases hlk
          refine ⟨c2 + 1, fun K p q hp => ?_⟩
          rw [render_ref_cons, show c2 + 1 + K = (c2 + K) + 1 by omega, resolveOne_step _ _ _ _ _ _ hp hb]
          simp only [hba, Bool.false_eq_true, if_false, mapFind_amOf, hlk, Option.map_none]
          rw [expand_cons, expand_ref_undef _ _ _ hlk]
          simpa using h2 K p q hp
        | some segsb =>
          have hokb : okAt env m segsb = true := by
            have := hok.1; rwa [okAt_ref_succ _ _ _ _ hlk] at this
          have hba : (b == a) = false := by
            cases hh : b == a
            · rfl
            · have : b = a := by simpa using hh
              rw [this, ha] at hlk
              have : segsa = segsb := by simpa using hlk
              rw [← this, hmin m (by omega)] at hokb; cases hokb
          have hsegb : segsb.all segOk = true := (List.all_eq_true.mp hwf) _ (slookup_mem hlk)
          by_cases hdone : done.contains b = true
          · -- already visited: its entry is its expansion, a text without `$`
            have hstab : expand env N segsb = expand env m segsb := expand_stable env m segsb hokb N (by omega)
            have hcl : cleanText (expand env m segsb) = true := expand_clean env hwf m segsb hsegb
            refine ⟨c2 + 1, fun K p q hp => ?_⟩
            rw [render_ref_cons, show c2 + 1 + K = (c2 + K) + 1 by omega, resolveOne_step _ _ _ _ _ _ hp hb]
            simp only [hba, Bool.false_eq_true, if_false, mapFind_amOf, hlk, Option.map_some, hdone, if_true, hstab,
              clean_ne_ref hcl]
            rw [expand_cons, expand_ref_succ _ _ _ _ hlk]
            have := h2 K (p ++ expand env m segsb) q (cleanText_append hp hcl)
            simpa [List.append_assoc] using this
          · -- not yet visited: its definition is inlined, then resolved in place
            have hdone' : done.contains b = false := by simpa using hdone
            obtain ⟨c1, h1⟩ := ihm (by omega) (fun j hj => hmin j (by omega)) segsb hsegb hokb
            have hcl : cleanText (expand env m segsb) = true := expand_clean env hwf m segsb hsegb
            refine ⟨c1 + c2 + 1, fun K p q hp => ?_⟩
            have hne : (renderSegs segsb == p ++ refStr b (renderSegs V ++ q)) = false := by
              cases hh : renderSegs segsb == p ++ refStr b (renderSegs V ++ q)
              · rfl
              · have heq : renderSegs segsb = p ++ refStr b (renderSegs V ++ q) := by simpa using hh
                have := first_ref segsb hsegb p b _ hp hb heq
                rw [self_ref_not_ok env b segsb hlk this m] at hokb; cases hokb
            rw [render_ref_cons, show c1 + c2 + 1 + K = (c1 + (c2 + K)) + 1 by omega,
              resolveOne_step _ _ _ _ _ _ hp hb]
            simp only [hba, Bool.false_eq_true, if_false, mapFind_amOf, hlk, Option.map_some, hdone', hne]
            rw [List.append_assoc, h1 (c2 + K) p (renderSegs V ++ q) hp]
            rw [expand_cons, expand_ref_succ _ _ _ _ hlk]
            have := h2 K (p ++ expand env m segsb) q (cleanText_append hp hcl)
            simpa [List.append_assoc] using this

end Inner

/-! ### the outer loop -/

theorem resolveOne_done_clean (am : Map) (key : Str) (n : Nat) (v v' : Str)
    (h : resolveOne am key n v = .done v') : find ['$', '('] v' = none := by
  induction n generalizing v with
  | zero =>
    rw [resolveOne] at h
    cases hf : find ['$', '('] v with
    | none => simp [hf] at h; rw [← h]; exact hf
    | some i => simp [hf] at h
  | succ n ih =>
    rw [resolveOne] at h
    cases hf : find ['$', '('] v with
    | none => simp [hf] at h; rw [← h]; exact hf
    | some i =>
      simp only [hf] at h
      cases hc : findFrom [')'] v i with
      | none => simp [hc] at h
      | some j => simp only [hc] at h; exact ih _ h

theorem mapFind_mapSet (k k' v : Str) (am : Map) :
    mapFind k' (mapSet k v am) = if k' = k ∧ (mapFind k am).isSome then some v else mapFind k' am := by
  induction am with
  | nil => simp [mapSet, mapFind]
  | cons e am ih =>
    rcases e with ⟨ke, ve⟩
    simp only [mapSet]
    by_cases h1 : ke = k
    · subst h1
      by_cases h2 : k' = ke
      · subst h2; simp [mapFind]
      · have : (k' == ke) = false := by simpa using h2
        simp [mapFind, this, h2]
    · have h1' : (ke == k) = false := by simpa using h1
      have h1'' : (k == ke) = false := by simpa using fun h => h1 h.symm
      simp only [h1', Bool.false_eq_true, if_false, mapFind, h1'']
      by_cases h2 : k' = ke
      · subst h2
        have : ¬ k' = k := h1
        simp [this]
      · have : (k' == ke) = false := by simpa using h2
        simp only [this, Bool.false_eq_true, if_false]; exact ih

/-- "clean at `k`": the entry of `k`, if any, contains no `$(` -/
def CleanAt (m : Map) (k : Str) : Prop := ∀ v, mapFind k m = some v → find ['$', '('] v = none

theorem resolveKeys_clean (fuel : Nat) (ks : List Str) (am m : Map)
    (h : resolveKeys fuel ks am = .ok m) :
    (∀ k, k ∈ ks → CleanAt m k) ∧ (∀ k, CleanAt am k → CleanAt m k)
    ∧ (∀ k, (mapFind k m).isSome → (mapFind k am).isSome) := by
  induction ks generalizing am with
  | nil =>
    simp [resolveKeys] at h; subst h
    exact ⟨fun k hk => by simp at hk, fun k hk => hk, fun k hk => hk⟩
  | cons a ks ih =>
    rw [resolveKeys] at h
    cases hf : mapFind a am with
    | none =>
      simp only [hf] at h
      obtain ⟨i1, i2, i3⟩ := ih am h
      refine ⟨?_, i2, i3⟩
      intro k hk
      rcases List.mem_cons.mp hk with rfl | hk
      · intro v hv
        have := i3 k (by rw [hv]; rfl)
        rw [hf] at this; cases this
      · exact i1 k hk
    | some v =>
      simp only [hf] at h
      cases hr : resolveOne am a fuel v with
      | exc => simp [hr] at h
      | diverge => simp [hr] at h
      | done v' =>
        simp only [hr] at h
        have hcl := resolveOne_done_clean am a fuel v v' hr
        obtain ⟨i1, i2, i3⟩ := ih _ h
        have hset : CleanAt (mapSet a v' am) a := by
          intro w hw
          rw [mapFind_mapSet] at hw
          simp [hf] at hw; rw [← hw]; exact hcl
        refine ⟨?_, ?_, ?_⟩
        · intro k hk
          rcases List.mem_cons.mp hk with rfl | hk
          · exact i2 k hset
          · exact i1 k hk
        · intro k hk
          apply i2
          intro w hw
          rw [mapFind_mapSet] at hw
          by_cases hka : k = a
          · subst hka; simp [hf] at hw; rw [← hw]; exact hcl
          · simp [hka] at hw; exact hk w hw
        · intro k hk
          have := i3 k hk
          rw [mapFind_mapSet] at this
          by_cases hka : k = a
          · subst hka; rw [hf]; rfl
          · simpa [hka] using this

theorem mapFind_isSome_mem (k : Str) (am : Map) (h : (mapFind k am).isSome) : k ∈ am.map (·.1) := by
  induction am with
  | nil => simp [mapFind] at h
  | cons e am ih =>
    rcases e with ⟨ke, ve⟩
    simp only [mapFind] at h
    by_cases hk : k = ke
    · subst hk; simp
    · have : (k == ke) = false := by simpa using hk
      simp only [this, Bool.false_eq_true, if_false] at h
      exact List.mem_cons_of_mem _ (ih h)

theorem min_level (env : SEnv) (V : List Seg) :
    ∀ N, okAt env N V = true → ∃ n, n ≤ N ∧ okAt env n V = true ∧ ∀ m, m < n → okAt env m V = false := by
  intro N
  induction N using Nat.strongRecOn with
  | _ N ih =>
    intro h
    by_cases hex : ∃ m, m < N ∧ okAt env m V = true
    · obtain ⟨m, hm, hok⟩ := hex
      obtain ⟨n, hn, h1, h2⟩ := ih m hm hok
      exact ⟨n, by omega, h1, h2⟩
    · refine ⟨N, Nat.le_refl _, h, ?_⟩
      intro m hm
      cases hh : okAt env m V
      · rfl
      · exact absurd ⟨m, hm, hh⟩ hex

theorem outer_loop (env : SEnv)
    (hwf : env.all (fun e => e.2.all segOk) = true) (hd : distinctKeys env = true)
    (hok : env.all (fun e => okAt env env.length e.2) = true) :
    ∀ (ks done : List Str), (∀ k ∈ ks, (slookup env k).isSome) → ks.Nodup →
      (∀ k ∈ ks, done.contains k = false) →
      ∃ F, ∀ fuel, F ≤ fuel →
        resolveKeys fuel ks (amOf env env.length done env) = .ok (amOf env env.length (ks.reverse ++ done) env) := by
  intro ks
  induction ks with
  | nil => intro done _ _ _; exact ⟨0, fun fuel _ => by simp [resolveKeys]⟩
  | cons a ks ih =>
    intro done hdef hnd hdone
    have hnd' := List.nodup_cons.mp hnd
    obtain ⟨segsa, ha⟩ := Option.isSome_iff_exists.mp (hdef a (List.mem_cons_self ..))
    have hoka : okAt env env.length segsa = true := (List.all_eq_true.mp hok) _ (slookup_mem ha)
    have hsega : segsa.all segOk = true := (List.all_eq_true.mp hwf) _ (slookup_mem ha)
    obtain ⟨n, hn, hokn, hmin⟩ := min_level env segsa _ hoka
    obtain ⟨c, hc⟩ := inner_claim env env.length done a segsa hwf ha n hn hmin segsa hsega hokn
    have hstab : expand env env.length segsa = expand env n segsa := expand_stable env n segsa hokn _ hn
    have hcl : cleanText (expand env n segsa) = true := expand_clean env hwf n segsa hsega
    have hda : done.contains a = false := hdone a (List.mem_cons_self ..)
    obtain ⟨F', hF'⟩ := ih (a :: done) (fun k hk => hdef k (List.mem_cons_of_mem _ hk)) hnd'.2
      (by
        intro k hk
        have hka : (k == a) = false := by
          cases hh : k == a
          · rfl
          · have : k = a := by simpa using hh
            rw [this] at hk; exact absurd hk hnd'.1
        rw [contains_cons_ne done hka]; exact hdone k (List.mem_cons_of_mem _ hk))
    refine ⟨c + F', fun fuel hfuel => ?_⟩
    obtain ⟨K, rfl⟩ : ∃ K, fuel = c + K := ⟨fuel - c, by omega⟩
    rw [resolveKeys]
    have hfind : mapFind a (amOf env env.length done env) = some (renderSegs segsa) := by
      rw [mapFind_amOf, ha]; simp only [Option.map_some, hda, Bool.false_eq_true, if_false]
    have hres : resolveOne (amOf env env.length done env) a (c + K) (renderSegs segsa) = .done (expand env env.length segsa) := by
      have := hc K [] [] (by simp [cleanText])
      simp only [List.nil_append, List.append_nil] at this
      rw [this, resolveOne_clean _ _ _ _ hcl, hstab]
    simp only [hfind, hres]
    rw [mapSet_amOf env env.length done env a segsa hd ha hda, hF' (c + K) (by omega)]
    simp [List.reverse_cons, List.append_assoc]

theorem slookup_none_not_mem {env : SEnv} {k : Str} (h : slookup env k = none) : k ∉ env.map (·.1) := by
  induction env with
  | nil => simp
  | cons e env ih =>
    rcases e with ⟨k', s'⟩
    simp only [slookup] at h
    split at h
    · cases h
    · rename_i hne
      have : ¬ k = k' := by simpa using hne
      simp only [List.map_cons, List.mem_cons, not_or]
      exact ⟨this, ih h⟩

theorem distinct_nodup {env : SEnv} (h : distinctKeys env = true) : (env.map (·.1)).Nodup := by
  induction env with
  | nil => simp
  | cons e env ih =>
    rcases e with ⟨k, s⟩
    simp only [distinctKeys, Bool.and_eq_true] at h
    simp only [List.map_cons, List.nodup_cons]
    refine ⟨slookup_none_not_mem ?_, ih h.2⟩
    cases hh : slookup env k with
    | none => rfl
    | some x => rw [hh] at h; simp at h

theorem slookup_of_mem {env : SEnv} {k : Str} (h : k ∈ env.map (·.1)) : (slookup env k).isSome := by
  induction env with
  | nil => simp at h
  | cons e env ih =>
    rcases e with ⟨k', s'⟩
    simp only [slookup]
    by_cases hk : k = k'
    · subst hk; simp
    · have : (k == k') = false := by simpa using hk
      simp only [this, Bool.false_eq_true, if_false]
      simp only [List.map_cons, List.mem_cons, hk, false_or] at h
      exact ih h

theorem flatMapCongr {α β : Type} (l : List α) (f g : α → List β) (h : ∀ x ∈ l, f x = g x) :
    l.flatMap f = l.flatMap g := by
  induction l with
  | nil => rfl
  | cons a l ih =>
    simp only [List.flatMap_cons]
    rw [h a (List.mem_cons_self ..), ih (fun x hx => h x (List.mem_cons_of_mem _ hx))]


/-! ### independence of the order of the entries -/

theorem slookup_none_of_not_mem {env : SEnv} {k : Str} (h : k ∉ env.map (·.1)) : slookup env k = none := by
  cases hh : slookup env k with
  | none => rfl
  | some segs => exact absurd (List.mem_map.mpr ⟨(k, segs), slookup_mem hh, rfl⟩) h

theorem nodup_distinct {env : SEnv} (h : (env.map (·.1)).Nodup) : distinctKeys env = true := by
  induction env with
  | nil => rfl
  | cons e env ih =>
    rcases e with ⟨k, s⟩
    simp only [List.map_cons, List.nodup_cons] at h
    simp only [distinctKeys, Bool.and_eq_true]
    exact ⟨by rw [slookup_none_of_not_mem h.1]; rfl, ih h.2⟩

theorem slookup_of_mem_distinct {env : SEnv} (hd : distinctKeys env = true) {k : Str} {segs : List Seg}
    (h : (k, segs) ∈ env) : slookup env k = some segs := by
  induction env with
  | nil => cases h
  | cons e env ih =>
    rcases e with ⟨k', s'⟩
    simp only [distinctKeys, Bool.and_eq_true] at hd
    simp only [slookup]
    rcases List.mem_cons.mp h with heq | hmem
    · simp at heq; rw [heq.1, heq.2]; simp
    · by_cases hk : k = k'
      · subst hk
        have := ih hd.2 hmem
        rw [this] at hd; simp at hd
      · have : (k == k') = false := by simpa using hk
        simp only [this, Bool.false_eq_true, if_false]; exact ih hd.2 hmem

theorem slookup_perm {env env' : SEnv} (hp : env.Perm env') (hd : distinctKeys env = true)
    (hd' : distinctKeys env' = true) (k : Str) : slookup env' k = slookup env k := by
  cases h : slookup env k with
  | some segs => exact slookup_of_mem_distinct hd' (hp.mem_iff.mp (slookup_mem h))
  | none =>
    cases h' : slookup env' k with
    | none => rfl
    | some segs =>
      have := slookup_of_mem_distinct hd (hp.mem_iff.mpr (slookup_mem h'))
      rw [h] at this; cases this

theorem flatMapCongr2 {α β : Type} (l : List α) (f g : α → List β) (h : ∀ x ∈ l, f x = g x) :
    l.flatMap f = l.flatMap g := flatMapCongr l f g h

theorem expand_congr {env env' : SEnv} (h : ∀ k, slookup env' k = slookup env k) (n : Nat) (V : List Seg) :
    expand env' n V = expand env n V := by
  induction n generalizing V with
  | zero => simp [expand]
  | succ n ih =>
    rw [expand, expand]
    apply flatMapCongr
    intro s _
    cases s with
    | lit t => rfl
    | ref b =>
      simp only [h b]
      cases slookup env b with
      | none => rfl
      | some segs => exact ih segs

theorem okAt_congr {env env' : SEnv} (h : ∀ k, slookup env' k = slookup env k) (n : Nat) (V : List Seg) :
    okAt env' n V = okAt env n V := by
  induction n generalizing V with
  | zero => simp [okAt, h]
  | succ n ih =>
    rw [okAt, okAt]
    apply List.all_congr rfl
    intro s
    cases s with
    | lit t => rfl
    | ref b =>
      simp only [h b]
      cases slookup env b with
      | none => rfl
      | some segs => exact ih segs

theorem mapFind_resolvedAux (full : SEnv) (N : Nat) (part : SEnv) (k : Str) :
    mapFind k (part.map (fun e => (e.1, expand full N e.2))) = (slookup part k).map (expand full N) := by
  induction part with
  | nil => rfl
  | cons e part ih =>
    rcases e with ⟨k', s'⟩
    simp only [List.map_cons, mapFind, slookup]
    by_cases hk : (k == k') = true
    · simp [hk]
    · simp only [hk, Bool.false_eq_true, if_false]; exact ih

/-- the acyclicity conditions do not depend on the order of the entries -/
theorem acyclicOk_perm {env env' : SEnv} (hp : env.Perm env') (h : AcyclicOk env = true) :
    AcyclicOk env' = true := by
  simp only [AcyclicOk, Bool.and_eq_true] at h ⊢
  obtain ⟨⟨hd, hwf⟩, hok⟩ := h
  have hd' : distinctKeys env' = true :=
    nodup_distinct ((hp.map (·.1)).nodup_iff.mp (distinct_nodup hd))
  have hl := slookup_perm hp hd hd'
  refine ⟨⟨hd', ?_⟩, ?_⟩
  · rw [List.all_eq_true] at hwf ⊢
    intro e he; exact hwf e (hp.mem_iff.mpr he)
  · rw [List.all_eq_true] at hok ⊢
    intro e he
    rw [okAt_congr hl, ← hp.length_eq]
    exact hok e (hp.mem_iff.mpr he)

end Bpp.Text.Vars
