import BppProofs.Lemmas.NumDeriv
/-!
C12 helper lemmas, part 2: the loops over `variables_` keep the wrapped function at the base point
up to the variable probed last; `updateDerivatives` brings it back.
-/
namespace Bpp.NumDeriv
open Bpp Bpp.Scalar

/-- what an iteration does not touch -/
structure Frame (w0 w : W ℝ) : Prop where
  scheme : w.scheme = w0.scheme
  h : w.h = w0.h
  vars : w.vars = w0.vars
  c1 : w.c1 = w0.c1
  c2 : w.c2 = w0.c2
  cx : w.cx = w0.cx
  kind : w.fn.kind = w0.fn.kind
  en1 : w.fn.en1 = w0.fn.en1
  en2 : w.fn.en2 = w0.fn.en2

theorem Frame.refl (w : W ℝ) : Frame w w := ⟨rfl, rfl, rfl, rfl, rfl, rfl, rfl, rfl, rfl⟩

/-- invariant of the loop over `variables_`: the wrapped function is at the base point up to the
variable probed last, which is one of the list the caller passed; `slot` is the field holding the
value at the base point (`f1_`, `f2_`, `f3_` for the two-, three-, five-point scheme) -/
def LI (f : List ℝ → ℝ) (params B : PList ℝ) (w0 : W ℝ) (slot : W ℝ → ℝ) (lp : Loop ℝ) : Prop :=
  lp.w.fn.OK f ∧ Dev B lp.w.fn.params (fun m => some m = lp.lastVar) ∧
  (∀ l, lp.lastVar = some l → has params l = true) ∧ Frame w0 lp.w ∧ slot lp.w = slot w0

theorem prepare_RI (f : List ℝ → ℝ) {params B : PList ℝ} {w0 : W ℝ} {slot : W ℝ → ℝ} {lp : Loop ℝ}
    (hLI : LI f params B w0 slot lp) (var : Name) (hh : ℝ) (p : PList ℝ) (value h : ℝ)
    (hprep : prepare params hh lp var = .ok (p, value, h)) : RI f params B var lp.w.fn p := by
  obtain ⟨hok, hD, hl, _, _⟩ := hLI
  unfold prepare at hprep
  simp only [] at hprep
  split at hprep
  · cases hprep
  · rename_i p' hsub
    split at hprep
    · cases hprep
    · rename_i v hval
      obtain ⟨hn, hmem, hnd⟩ := subNames_spec params _ p' hsub
      split at hprep
      · cases hprep
      · rename_i q0 rest
        injection hprep with hprep
        injection hprep with hp _
        subst hp
        refine ⟨hok, q0, rest, rfl, ?_, hnd, fun q hq => hmem q (List.mem_cons_of_mem _ hq), ?_, ?_⟩
        · cases hlv : lp.lastVar with
          | none => rw [hlv] at hn; simp [names] at hn; exact hn.1
          | some l => rw [hlv] at hn; simp [names] at hn; exact hn.1
        · cases hlv : lp.lastVar with
          | none =>
            rw [hlv] at hn; simp [names] at hn; rw [hn.2]; simp
          | some l =>
            rw [hlv] at hn; simp only [names, List.map_cons, List.cons.injEq] at hn
            have : (rest.map (·.name)).length = 1 := by rw [hn.2]; rfl
            simp at this; omega
        · apply hD.mono
          intro m hm
          cases hlv : lp.lastVar with
          | none => rw [hlv] at hm; cases hm
          | some l =>
            rw [hlv] at hm hn; injection hm with hm; subst hm
            simp only [names, List.map_cons, List.cons.injEq] at hn
            right; show m ∈ rest.map (·.name); rw [hn.2]; simp


theorem LI.of_dev {f : List ℝ → ℝ} {params B : PList ℝ} {w0 : W ℝ} {slot : W ℝ → ℝ} {w : W ℝ} {var : Name}
    (p : PList ℝ) (hok : w.fn.OK f) (hD : Dev B w.fn.params (fun m => m = var)) (hv : has params var = true)
    (hfr : Frame w0 w) (hs : slot w = slot w0) :
    LI f params B w0 slot { w := w, p := p, lastVar := some var } := by
  refine ⟨hok, hD.mono ?_, ?_, hfr, hs⟩
  · intro m hm; simp [hm]
  · intro l hl; simp at hl; subst hl; exact hv

/-- one iteration of the three-point loop -/
theorem step3_LI (f : List ℝ → ℝ) {params B : PList ℝ} (hc : Ctx params B) {w0 : W ℝ} (lp : Loop ℝ)
    (hLI : LI f params B w0 (fun w => w.f2) lp) (i : Nat) (var : Name) :
    ∀ r, step3 f params lp i var = r → r.2 = none → LI f params B w0 (fun w => w.f2) r.1 := by
  intro r hr hnone
  unfold step3 at hr
  split at hr
  · subst hr; exact hLI
  · rename_i hhas
    have hhas' : has params var = true := by simpa using hhas
    split at hr
    · subst hr; simp at hnone
    · rename_i p value h hprep
      have hri := prepare_RI f hLI var lp.w.h p value h hprep
      obtain ⟨_, _, _, hfr, hslot⟩ := hLI
      have hR1 := retry_RI f hc true value 9 lp.w.fn p h none hri (Or.inl rfl)
      simp only [] at hr
      generalize retry f true 10 lp.w.fn p value h none = r1 at hr hR1
      split at hr
      · subst hr; rename_i hx; simp only [] at hnone; rw [hnone] at hx; simp at hx
      · rename_i hx
        have hexc : r1.exc = none := by simpa using hx
        obtain ⟨h1, h2, h3, h4, h5, h6⟩ := hR1 hexc
        have hfr1 : ∀ (a b : ℝ) (d1 d2 : List (DVal ℝ)), Frame w0 { lp.w with fn := r1.fn, f1 := a, f3 := b, der1 := d1, der2 := d2 } :=
          fun a b d1 d2 => ⟨hfr.scheme, hfr.h, hfr.vars, hfr.c1, hfr.c2, hfr.cx, by simp [h4, hfr.kind], by simp [h5, hfr.en1], by simp [h6, hfr.en2]⟩
        split at hr
        · subst hr
          exact LI.of_dev _ h1 h2 hhas' (hfr1 _ _ _ _) hslot
        · rename_i hf1 hhf
          obtain ⟨q, hq, hqn⟩ := h3 (by rw [hhf]; simp)
          have hri3 : RI f params B var r1.fn r1.p := by
            rw [hq]
            exact ⟨h1, q, [], rfl, hqn, by simp [names], by simp, by simp,
              h2.mono (fun m hm => Or.inl hm)⟩
          have hR3 := retry_RI f hc false value 9 r1.fn r1.p
            (if ltb r1.h zero = true then -r1.h else r1.h / ofInt 2) none hri3 (Or.inr (by rw [hq]; rfl))
          generalize retry f false 10 r1.fn r1.p value
            (if ltb r1.h zero = true then -r1.h else r1.h / ofInt 2) none = r3 at hr hR3
          split at hr
          · subst hr; rename_i hx; simp only [] at hnone; rw [hnone] at hx; simp at hx
          · rename_i hx3
            have hexc3 : r3.exc = none := by simpa using hx3
            obtain ⟨g1, g2, _, g4, g5, g6⟩ := hR3 hexc3
            have hfr3 : ∀ (a b : ℝ) (d1 d2 : List (DVal ℝ)), Frame w0 { lp.w with fn := r3.fn, f1 := a, f3 := b, der1 := d1, der2 := d2 } :=
              fun a b d1 d2 => ⟨hfr.scheme, hfr.h, hfr.vars, hfr.c1, hfr.c2, hfr.cx,
                by simp [g4, h4, hfr.kind], by simp [g5, h5, hfr.en1], by simp [g6, h6, hfr.en2]⟩
            split at hr
            · subst hr
              exact LI.of_dev _ g1 g2 hhas' (hfr3 _ _ _ _) hslot
            · subst hr
              exact LI.of_dev _ g1 g2 hhas' (hfr3 _ _ _ _) hslot


/-- one iteration of the two-point loop -/
theorem step2_LI (f : List ℝ → ℝ) {params B : PList ℝ} (hc : Ctx params B) {w0 : W ℝ} (lp : Loop ℝ)
    (hLI : LI f params B w0 (fun w => w.f1) lp) (i : Nat) (var : Name) :
    ∀ r, step2 f params lp i var = r → r.2 = none → LI f params B w0 (fun w => w.f1) r.1 := by
  intro r hr hnone
  unfold step2 at hr
  split at hr
  · subst hr; exact hLI
  · rename_i hhas
    have hhas' : has params var = true := by simpa using hhas
    split at hr
    · subst hr; simp at hnone
    · rename_i p value h hprep
      have hri := prepare_RI f hLI var lp.w.h p value h hprep
      obtain ⟨_, _, _, hfr, hslot⟩ := hLI
      have hR1 := retry_RI f hc true value 9 lp.w.fn p h none hri (Or.inl rfl)
      simp only [] at hr
      generalize retry f true 10 lp.w.fn p value h none = r1 at hr hR1
      split at hr
      · subst hr; rename_i hx; simp only [] at hnone; rw [hnone] at hx; simp at hx
      · rename_i hx
        have hexc : r1.exc = none := by simpa using hx
        obtain ⟨h1, h2, _, h4, h5, h6⟩ := hR1 hexc
        subst hr
        exact LI.of_dev _ h1 h2 hhas'
          ⟨hfr.scheme, hfr.h, hfr.vars, hfr.c1, hfr.c2, hfr.cx, by simp [h4, hfr.kind], by simp [h5, hfr.en1], by simp [h6, hfr.en2]⟩ hslot


/-! ### five-point scheme -/

theorem restore_cond2 {params B : PList ℝ} (hc : Ctx params B) (var : Name) (q0 : Param ℝ) (rest : PList ℝ)
    (hq0 : q0.name = var) (hrest : ∀ q ∈ rest, q ∈ params) :
    ∀ b ∈ B, ¬ (b.name = var) → match find? (q0 :: rest) b.name with
      | some q => q.value = b.value
      | none => ¬ (b.name = var ∨ b.name ∈ names rest) := by
  intro b hb hn
  have := restore_cond hc var q0 rest hq0 hrest (fun _ => False) b hb (by rintro (h | h); exact hn h; exact h)
  cases hf : find? (q0 :: rest) b.name with
  | none =>
    rw [hf] at this; simp only [] at this ⊢
    rintro (h | h)
    · exact this (Or.inl h)
    · exact this (Or.inr (Or.inl h))
  | some q => rw [hf] at this; exact this

/-- state of the five-point probes of variable `var`: the retry invariant, the switches of the
wrapped function as in `fn0`, and — once a probe went through (`succ`) — the wrapped function at
the base point up to `var` -/
def P5 (f : List ℝ → ℝ) (params B : PList ℝ) (var : Name) (fn0 fn : Fn ℝ) (p : PList ℝ) (succ : Bool) : Prop :=
  RI f params B var fn p ∧ fn.kind = fn0.kind ∧ fn.en1 = fn0.en1 ∧ fn.en2 = fn0.en2 ∧
  (succ = true → Dev B fn.params (fun m => m = var))

theorem P5.weaken {f : List ℝ → ℝ} {params B : PList ℝ} {var : Name} {fn0 fn : Fn ℝ} {p : PList ℝ} {s : Bool}
    (h : P5 f params B var fn0 fn p s) (s' : Bool) (hs : s' = true → s = true) : P5 f params B var fn0 fn p s' :=
  ⟨h.1, h.2.1, h.2.2.1, h.2.2.2.1, fun x => h.2.2.2.2 (hs x)⟩

theorem probe5_P5 (f : List ℝ → ℝ) {params B : PList ℝ} (hc : Ctx params B) {var : Name} {fn0 fn : Fn ℝ} {p : PList ℝ}
    {s : Bool} (h : P5 f params B var fn0 fn p s) (x : ℝ) :
    P5 f params B var fn0 (probe5 f fn p x).1 (probe5 f fn p x).2.1 (s || (probe5 f fn p x).2.2.isSome) := by
  obtain ⟨⟨hok, q0, rest, rfl, hq0, hnd, hrest, hlen, hD⟩, hk, he1, he2, hs⟩ := h
  unfold probe5
  simp only []
  cases hsv : q0.setValue x with
  | error e =>
    simp only [Option.isSome_none, Bool.or_false]
    exact ⟨⟨hok, q0, rest, rfl, hq0, hnd, hrest, hlen, hD⟩, hk, he1, he2, hs⟩
  | ok q0' =>
    simp only []
    obtain ⟨hn', _, _, _⟩ := setValue_name q0 q0' x hsv
    have hq0' : q0'.name = var := by rw [hn', hq0]
    have hnd' : (names (q0' :: rest)).Nodup := by
      rw [names_cons, hn']; rw [names_cons] at hnd; exact hnd
    have hsp := setParameters_dev f hc fn (q0' :: rest) hnd' (fun m => m = var) hD hok
      (restore_cond2 hc var q0' rest hq0' hrest)
    rcases hr : fn.setParameters f (q0' :: rest) with ⟨fn', e⟩
    rw [hr] at hsp
    obtain ⟨h1, h2, h3, h4, h5, h6⟩ := hsp
    cases e with
    | some e =>
      simp only [Option.isSome_none, Bool.or_false]
      have : fn' = fn := h2 (by simp)
      subst this
      exact ⟨⟨hok, q0', rest, rfl, hq0', hnd', hrest, hlen, hD⟩, hk, he1, he2, hs⟩
    | none =>
      simp only [Option.isSome_some, Bool.or_true]
      have hD' := h1 rfl
      exact ⟨⟨h3, q0', rest, rfl, hq0', hnd', hrest, hlen, hD'.mono (fun m hm => Or.inl hm)⟩,
        by rw [h4, hk], by rw [h5, he1], by rw [h6, he2], fun _ => hD'⟩


theorem central5_P5 (f : List ℝ → ℝ) {params B : PList ℝ} (hc : Ctx params B) {var : Name} {fn0 fn : Fn ℝ} {p : PList ℝ}
    {s : Bool} (h : P5 f params B var fn0 fn p s) (value hh f1 f3 : ℝ) :
    P5 f params B var fn0 (central5 f fn p value hh f1 f3).1 (central5 f fn p value hh f1 f3).2.1
      (s || (central5 f fn p value hh f1 f3).2.2.isSome) := by
  unfold central5
  simp only []
  have h1 := probe5_P5 f hc h (value + ofInt 2 * hh)
  generalize probe5 f fn p (value + ofInt 2 * hh) = r1 at h1
  rcases r1 with ⟨fn1, p1, o1⟩
  cases o1 with
  | none => exact h1
  | some v1 =>
    simp only [] at h1 ⊢
    have h2 := probe5_P5 f hc h1 (value - hh)
    generalize probe5 f fn1 p1 (value - hh) = r2 at h2
    rcases r2 with ⟨fn2, p2, o2⟩
    cases o2 with
    | none => exact h2.weaken _ (by simp)
    | some v2 =>
      simp only [] at h2 ⊢
      have h3 := probe5_P5 f hc h2 (value + hh)
      generalize probe5 f fn2 p2 (value + hh) = r3 at h3
      rcases r3 with ⟨fn3, p3, o3⟩
      cases o3 with
      | none => exact h3.weaken _ (by simp)
      | some v3 => exact h3.weaken _ (by simp)

theorem backward5_P5 (f : List ℝ → ℝ) {params B : PList ℝ} (hc : Ctx params B) {var : Name} {fn0 fn : Fn ℝ} {p : PList ℝ}
    {s : Bool} (h : P5 f params B var fn0 fn p s) (value hh f3 : ℝ) :
    P5 f params B var fn0 (backward5 f fn p value hh f3).1 (backward5 f fn p value hh f3).2.1
      (s || (backward5 f fn p value hh f3).2.2.isSome) := by
  unfold backward5
  simp only []
  have h1 := probe5_P5 f hc h (value - hh)
  generalize probe5 f fn p (value - hh) = r1 at h1
  rcases r1 with ⟨fn1, p1, o1⟩
  cases o1 with
  | none => exact h1
  | some v1 =>
    simp only [] at h1 ⊢
    have h2 := probe5_P5 f hc h1 (value - ofInt 2 * hh)
    generalize probe5 f fn1 p1 (value - ofInt 2 * hh) = r2 at h2
    rcases r2 with ⟨fn2, p2, o2⟩
    cases o2 with
    | none => exact h2.weaken _ (by simp)
    | some v2 => exact h2.weaken _ (by simp)

theorem forward5_P5 (f : List ℝ → ℝ) {params B : PList ℝ} (hc : Ctx params B) {var : Name} {fn0 fn : Fn ℝ} {p : PList ℝ}
    {s : Bool} (h : P5 f params B var fn0 fn p s) (value hh f3 : ℝ) :
    P5 f params B var fn0 (forward5 f fn p value hh f3).1 (forward5 f fn p value hh f3).2.1
      (s || (forward5 f fn p value hh f3).2.2.isSome) := by
  unfold forward5
  simp only []
  have h1 := probe5_P5 f hc h (value + hh)
  generalize probe5 f fn p (value + hh) = r1 at h1
  rcases r1 with ⟨fn1, p1, o1⟩
  cases o1 with
  | none => exact h1
  | some v1 =>
    simp only [] at h1 ⊢
    have h2 := probe5_P5 f hc h1 (value + ofInt 2 * hh)
    generalize probe5 f fn1 p1 (value + ofInt 2 * hh) = r2 at h2
    rcases r2 with ⟨fn2, p2, o2⟩
    cases o2 with
    | none => exact h2.weaken _ (by simp)
    | some v2 => exact h2.weaken _ (by simp)

theorem probes5_P5 (f : List ℝ → ℝ) {params B : PList ℝ} (hc : Ctx params B) {var : Name} {fn0 fn : Fn ℝ} {p : PList ℝ}
    {s : Bool} (h : P5 f params B var fn0 fn p s) (value hh f3 : ℝ) :
    P5 f params B var fn0 (probes5 f fn p value hh f3).1 (probes5 f fn p value hh f3).2.1
      (s || (probes5 f fn p value hh f3).2.2.isSome) := by
  unfold probes5
  simp only []
  have h1 := probe5_P5 f hc h (value - ofInt 2 * hh)
  generalize probe5 f fn p (value - ofInt 2 * hh) = r1 at h1
  rcases r1 with ⟨fn1, p1, o1⟩
  cases o1 with
  | none =>
    simp only [] at h1 ⊢
    have := forward5_P5 f hc h1 value hh f3
    exact this.weaken _ (by cases s <;> simp)
  | some v1 =>
    simp only [] at h1 ⊢
    have h2 := central5_P5 f hc h1 value hh v1 f3
    generalize central5 f fn1 p1 value hh v1 f3 = r2 at h2
    rcases r2 with ⟨fn2, p2, o2⟩
    cases o2 with
    | some d => exact h2.weaken _ (by simp)
    | none =>
      simp only [] at h2 ⊢
      have h3 := backward5_P5 f hc h2 value hh f3
      generalize backward5 f fn2 p2 value hh f3 = r3 at h3
      rcases r3 with ⟨fn3, p3, o3⟩
      cases o3 with
      | some d => exact h3.weaken _ (by simp)
      | none =>
        simp only [] at h3 ⊢
        have h4 := forward5_P5 f hc h3 value hh f3
        exact h4.weaken _ (by simp)


theorem sub_RI (f : List ℝ → ℝ) {params B : PList ℝ} {w0 : W ℝ} {slot : W ℝ → ℝ} {lp : Loop ℝ}
    (hLI : LI f params B w0 slot lp) (var : Name) (p : PList ℝ)
    (hsub : subNames params (match lp.lastVar with
      | none => [var]
      | some l => [var, l]) = .ok p) : RI f params B var lp.w.fn p := by
  obtain ⟨hok, hD, hl, _, _⟩ := hLI
  obtain ⟨hn, hmem, hnd⟩ := subNames_spec params _ p hsub
  cases p with
  | nil => cases hlv : lp.lastVar <;> (rw [hlv] at hn; simp [names] at hn)
  | cons q0 rest =>
    refine ⟨hok, q0, rest, rfl, ?_, hnd, fun q hq => hmem q (List.mem_cons_of_mem _ hq), ?_, ?_⟩
    · cases hlv : lp.lastVar with
      | none => rw [hlv] at hn; simp [names] at hn; exact hn.1
      | some l => rw [hlv] at hn; simp [names] at hn; exact hn.1
    · cases hlv : lp.lastVar with
      | none =>
        rw [hlv] at hn; simp [names] at hn; rw [hn.2]; simp
      | some l =>
        rw [hlv] at hn; simp only [names, List.map_cons, List.cons.injEq] at hn
        have : (rest.map (·.name)).length = 1 := by rw [hn.2]; rfl
        simp at this; omega
    · apply hD.mono
      intro m hm
      cases hlv : lp.lastVar with
      | none => rw [hlv] at hm; cases hm
      | some l =>
        rw [hlv] at hm hn; injection hm with hm; subst hm
        simp only [names, List.map_cons, List.cons.injEq] at hn
        right; show m ∈ rest.map (·.name); rw [hn.2]; simp

/-- the give-up handlers (`if (p.size() > 1) function_->setParameters(p.createSubList(1))`): unless
the call throws, the wrapped function is at the base point up to `var` afterwards -/
theorem giveup_reset (f : List ℝ → ℝ) {params B : PList ℝ} (hc : Ctx params B) {var : Name} {fn : Fn ℝ} {p : PList ℝ}
    (hri : RI f params B var fn p) :
    (if decide (p.length > 1) then fn.setParameters f (subIdx p 1) else (fn, none)).1.OK f ∧
    ((if decide (p.length > 1) then fn.setParameters f (subIdx p 1) else (fn, none)).2 = none →
      Dev B (if decide (p.length > 1) then fn.setParameters f (subIdx p 1) else (fn, none)).1.params (fun m => m = var)) ∧
    (if decide (p.length > 1) then fn.setParameters f (subIdx p 1) else (fn, none)).1.kind = fn.kind ∧
    (if decide (p.length > 1) then fn.setParameters f (subIdx p 1) else (fn, none)).1.en1 = fn.en1 ∧
    (if decide (p.length > 1) then fn.setParameters f (subIdx p 1) else (fn, none)).1.en2 = fn.en2 := by
  have hri' := hri
  obtain ⟨hok, q0, rest, rfl, hq0, hnd, hrest, hlen, hD⟩ := hri
  cases rest with
  | nil =>
    have : decide ((q0 :: ([] : PList ℝ)).length > 1) = false := by simp
    rw [this]
    simp only [Bool.false_eq_true, if_false]
    exact ⟨hok, fun _ => hri'.dev_of_single (by simp), trivial, trivial, trivial⟩
  | cons ql r =>
    have hr : r = [] := by
      cases r with
      | nil => rfl
      | cons b r' => simp at hlen
    subst hr
    have : decide ((q0 :: [ql]).length > 1) = true := by simp
    rw [this]
    simp only [if_true]
    have hsub : subIdx (q0 :: [ql]) 1 = [ql] := rfl
    rw [hsub]
    have hqlp : ql ∈ params := hrest ql (by simp)
    have hsp := setParameters_dev f hc fn [ql] (by simp [names]) (fun m => m = var) hD hok
      (by
        intro b hb hn
        by_cases e : ql.name = b.name
        · rw [find?_cons_eq ql [] b.name e]
          exact (hc.sync ql hqlp b hb e.symm).symm
        · rw [find?_cons_ne ql [] b.name e]
          simp only [find?, List.find?_nil]
          rintro (h | h)
          · exact hn h
          · simp [names] at h; exact e h.symm)
    obtain ⟨h1, _, h3, h4, h5, h6⟩ := hsp
    exact ⟨h3, h1, h4, h5, h6⟩

/-- one iteration of the five-point loop -/
theorem step5_LI (f : List ℝ → ℝ) {params B : PList ℝ} (hc : Ctx params B) {w0 : W ℝ} (lp : Loop ℝ)
    (hLI : LI f params B w0 (fun w => w.f3) lp) (i : Nat) (var : Name) :
    ∀ r, step5 f params lp i var = r → r.2 = none → LI f params B w0 (fun w => w.f3) r.1 := by
  intro r hr hnone
  unfold step5 at hr
  split at hr
  · subst hr; exact hLI
  · rename_i hhas
    have hhas' : has params var = true := by simpa using hhas
    simp only [] at hr
    split at hr
    · subst hr; simp at hnone
    · rename_i p hsub
      have hri := sub_RI f hLI var p hsub
      obtain ⟨_, _, _, hfr, hslot⟩ := hLI
      split at hr
      · subst hr; simp at hnone
      · rename_i value hval
        have hP : P5 f params B var lp.w.fn lp.w.fn p false := ⟨hri, rfl, rfl, rfl, fun x => by cases x⟩
        have h5 := probes5_P5 f hc hP value ((one + Scalar.abs value) * lp.w.h) lp.w.f3
        generalize probes5 f lp.w.fn p value ((one + Scalar.abs value) * lp.w.h) lp.w.f3 = r5 at hr h5
        rcases r5 with ⟨fn5, p5, o5⟩
        cases o5 with
        | none =>
          simp only [] at hr h5
          obtain ⟨hri5, hk, he1, he2, _⟩ := h5
          obtain ⟨g1, g2, g3, g4, g5⟩ := giveup_reset f hc hri5
          generalize (if decide (p5.length > 1) then fn5.setParameters f (subIdx p5 1) else (fn5, none)) = rr at hr g1 g2 g3 g4 g5
          rcases rr with ⟨fnr, er⟩
          cases er with
          | some e => simp only [] at hr; subst hr; simp at hnone
          | none =>
            simp only [] at hr g1 g2 g3 g4 g5
            subst hr
            exact LI.of_dev _ g1 (g2 trivial) hhas'
              ⟨hfr.scheme, hfr.h, hfr.vars, hfr.c1, hfr.c2, hfr.cx, by simp [g3, hk, hfr.kind], by simp [g4, he1, hfr.en1],
                by simp [g5, he2, hfr.en2]⟩ hslot
        | some d =>
          rcases d with ⟨d1, d2⟩
          simp only [] at hr h5
          subst hr
          obtain ⟨hri5, hk, he1, he2, hdev⟩ := h5
          exact LI.of_dev _ hri5.1 (hdev (by simp)) hhas'
            ⟨hfr.scheme, hfr.h, hfr.vars, hfr.c1, hfr.c2, hfr.cx, by simp [hk, hfr.kind], by simp [he1, hfr.en1], by simp [he2, hfr.en2]⟩ hslot

/-- the `for` loop over `variables_` -/
theorem loopGo_LI (f : List ℝ → ℝ) {params B : PList ℝ} {w0 : W ℝ} {slot : W ℝ → ℝ}
    (step : Loop ℝ → Nat → Name → Loop ℝ × Option Exc)
    (hstep : ∀ lp, LI f params B w0 slot lp → ∀ i var r, step lp i var = r → r.2 = none → LI f params B w0 slot r.1) :
    ∀ (vs : List Name) (i : Nat) (lp : Loop ℝ), LI f params B w0 slot lp →
      (loopGo step vs i lp).2 = none → LI f params B w0 slot (loopGo step vs i lp).1 := by
  intro vs
  induction vs with
  | nil => intro i lp h _; exact h
  | cons v vs ih =>
    intro i lp h hnone
    unfold loopGo at hnone ⊢
    rcases hs : step lp i v with ⟨lp', e⟩
    rw [hs] at hnone
    cases e with
    | some e => simp at hnone
    | none =>
      simp only [] at hnone ⊢
      exact ih (i + 1) lp' (hstep lp h i v _ hs rfl) hnone


/-! ### cross derivatives -/

/-- a `setParameters` that only mentions names that are already displaced -/
theorem setParameters_keep (f : List ℝ → ℝ) {params B : PList ℝ} (hc : Ctx params B) (fn : Fn ℝ) (pl : PList ℝ)
    (hpl : (names pl).Nodup) {S : Name → Prop} (hD : Dev B fn.params S) (hok : fn.OK f) (hin : ∀ q ∈ pl, S q.name) :
    Dev B (fn.setParameters f pl).1.params S ∧ (fn.setParameters f pl).1.OK f ∧
    (fn.setParameters f pl).1.kind = fn.kind ∧ (fn.setParameters f pl).1.en1 = fn.en1 ∧
    (fn.setParameters f pl).1.en2 = fn.en2 := by
  obtain ⟨h1, h2, h3, h4, h5, h6⟩ := setParameters_dev f hc fn pl hpl S hD hok (by
    intro b _ hn
    cases hf : find? pl b.name with
    | none => exact hn
    | some q =>
      have := find?_some hf
      exact absurd (this.2 ▸ hin q this.1) hn)
  refine ⟨?_, h3, h4, h5, h6⟩
  cases he : (fn.setParameters f pl).2 with
  | none => exact h1 he
  | some e => rw [h2 (by rw [he]; simp)]; exact hD

theorem setEval_keep (f : List ℝ → ℝ) {params B : PList ℝ} (hc : Ctx params B) (fn : Fn ℝ) (q : Param ℝ) (x : ℝ)
    {S : Name → Prop} (hD : Dev B fn.params S) (hok : fn.OK f) (hq : S q.name) :
    Dev B (setEval f fn q x).1.params S ∧ (setEval f fn q x).1.OK f ∧
    (setEval f fn q x).1.kind = fn.kind ∧ (setEval f fn q x).1.en1 = fn.en1 ∧ (setEval f fn q x).1.en2 = fn.en2 ∧
    (∀ q' v, (setEval f fn q x).2 = some (q', v) → q'.name = q.name) := by
  unfold setEval
  cases hsv : q.setValue x with
  | error e => simp only []; exact ⟨hD, hok, trivial, trivial, trivial, fun _ _ h => by cases h⟩
  | ok q' =>
    simp only []
    obtain ⟨hn', _, _, _⟩ := setValue_name q q' x hsv
    have hk := setParameters_keep f hc fn [q'] (by simp [names]) hD hok (by
      intro y hy; simp at hy; subst hy; rw [hn']; exact hq)
    rcases hr : fn.setParameters f [q'] with ⟨fn', e⟩
    rw [hr] at hk
    cases e with
    | some e => simp only []; exact ⟨hk.1, hk.2.1, hk.2.2.1, hk.2.2.2.1, hk.2.2.2.2, fun _ _ h => by cases h⟩
    | none =>
      simp only []
      refine ⟨hk.1, hk.2.1, hk.2.2.1, hk.2.2.2.1, hk.2.2.2.2, ?_⟩
      intro q'' v h; injection h with h; injection h with h _; rw [← h]; exact hn'

@[simp] theorem crossFail_snd (f : List ℝ → ℝ) (params : PList ℝ) (cl : CLoop ℝ) (fn : Fn ℝ) :
    ((crossFail f params cl fn).2 = none) = False := by
  unfold crossFail; simp

/-- invariant of the cross-derivative loops: the wrapped function is at the base point up to the two
variables of the previous pair (at the start: the variable probed last by the first loop) -/
def CI (f : List ℝ → ℝ) (params B : PList ℝ) (w0 : W ℝ) (cl : CLoop ℝ) : Prop :=
  cl.w.fn.OK f ∧ Dev B cl.w.fn.params (fun m => m = cl.l1 ∨ m = cl.l2) ∧ Frame w0 cl.w ∧ cl.w.f2 = w0.f2 ∧
  has params cl.l1 = true ∧ has params cl.l2 = true


theorem crossPair_CI (f : List ℝ → ℝ) {params B : PList ℝ} (hc : Ctx params B) {w0 : W ℝ} (cl : CLoop ℝ)
    (hCI : CI f params B w0 cl) (i j : Nat) (var1 var2 : Name) :
    ∀ r, crossPair f params cl i j var1 var2 = r → r.2 = none → CI f params B w0 r.1 := by
  intro r hr hnone
  obtain ⟨hok, hD, hfr, hslot, _, _⟩ := hCI
  unfold crossPair at hr
  simp only [] at hr
  split at hr
  · subst hr; simp at hnone
  · rename_i p hsub
    obtain ⟨hn, hmem, hnd⟩ := subNames_spec params _ p hsub
    split at hr
    · rename_i p0 p1 rest
      -- names
      simp only [names, List.map_cons, List.cons_append, List.nil_append, List.cons.injEq] at hn
      obtain ⟨hn0, hn1, hnr⟩ := hn
      split at hr
      · subst hr; simp at hnone
      · rename_i p0a hs0
        obtain ⟨hna, _, _, _⟩ := setValue_name p0 p0a _ hs0
        split at hr
        · subst hr; simp at hnone
        · rename_i p1a hs1
          obtain ⟨hnb, _, _, _⟩ := setValue_name p1 p1a _ hs1
          have hnd' : (names (p0a :: p1a :: rest)).Nodup := by
            simp only [names, List.map_cons] at hnd ⊢; rw [hna, hnb]; exact hnd
          have hsp := setParameters_dev f hc cl.w.fn (p0a :: p1a :: rest) hnd' (fun m => m = var1 ∨ m = var2) hD hok
            (by
              intro b hb hnb'
              have e0 : p0a.name ≠ b.name := by rw [hna, hn0]; exact fun e => hnb' (Or.inl e.symm)
              have e1 : p1a.name ≠ b.name := by rw [hnb, hn1]; exact fun e => hnb' (Or.inr e.symm)
              rw [find?_cons_ne _ _ _ e0, find?_cons_ne _ _ _ e1]
              cases hf : find? rest b.name with
              | some q =>
                simp only []
                have := find?_some hf
                exact (hc.sync q (hmem q (by simp [this.1])) b hb this.2.symm).symm
              | none =>
                simp only []
                have hnr' : b.name ∉ rest.map (·.name) := find?_none hf
                rw [hnr] at hnr'
                rintro (h | h)
                · apply hnr'
                  have c1 : cl.l1 ≠ var1 := fun e => hnb' (Or.inl (h.trans e))
                  have c2 : cl.l1 ≠ var2 := fun e => hnb' (Or.inr (h.trans e))
                  simp [c1, c2, h]
                · apply hnr'
                  have c1 : cl.l2 ≠ var1 := fun e => hnb' (Or.inl (h.trans e))
                  have c2 : cl.l2 ≠ var2 := fun e => hnb' (Or.inr (h.trans e))
                  by_cases c3 : cl.l2 = cl.l1
                  · have d1 : cl.l1 ≠ var1 := c3 ▸ c1
                    have d2 : cl.l1 ≠ var2 := c3 ▸ c2
                    simp [d1, d2, h, c3]
                  · simp [c1, c2, c3, h])
          split at hr
          · subst hr; simp at hnone
          · rename_i fn1 hsp1
            rw [hsp1] at hsp
            obtain ⟨g1, _, g3, g4, g5, g6⟩ := hsp
            have hD1 := g1 rfl
            simp only [] at g3 g4 g5 g6 hD1
            have k1 := setEval_keep f hc fn1 p1a (p1.value + (one + Scalar.abs p1.value) * cl.w.h) hD1 g3
              (Or.inr (by rw [hnb, hn1]))
            split at hr
            · subst hr; simp at hnone
            · rename_i fn2 p1b f12 hse1
              rw [hse1] at k1
              obtain ⟨a1, a2, a3, a4, a5, a6⟩ := k1
              simp only [] at a1 a2 a3 a4 a5
              have hp1b : p1b.name = var2 := by rw [a6 p1b f12 rfl, hnb, hn1]
              have k2 := setEval_keep f hc fn2 p0a (p0.value + (one + Scalar.abs p0.value) * cl.w.h) a1 a2
                (Or.inl (by rw [hna, hn0]))
              split at hr
              · subst hr; simp at hnone
              · rename_i fn3 _x f22 hse2
                rw [hse2] at k2
                obtain ⟨b1, b2, b3, b4, b5, _⟩ := k2
                simp only [] at b1 b2 b3 b4 b5
                have k3 := setEval_keep f hc fn3 p1b (p1.value - (one + Scalar.abs p1.value) * cl.w.h) b1 b2
                  (Or.inr hp1b)
                split at hr
                · subst hr; simp at hnone
                · rename_i fn4 _y f21 hse3
                  rw [hse3] at k3
                  obtain ⟨c1, c2, c3, c4, c5, _⟩ := k3
                  simp only [] at c1 c2 c3 c4 c5
                  subst hr
                  exact ⟨c2, c1, ⟨hfr.scheme, hfr.h, hfr.vars, hfr.c1, hfr.c2, hfr.cx,
                    by simp [c3, b3, a3, g4, hfr.kind], by simp [c4, b4, a4, g5, hfr.en1],
                    by simp [c5, b5, a5, g6, hfr.en2]⟩, hslot,
                    (has_iff params var1).mpr (hn0 ▸ List.mem_map_of_mem (hmem p0 (by simp))),
                    (has_iff params var2).mpr (hn1 ▸ List.mem_map_of_mem (hmem p1 (by simp)))⟩
    · subst hr; simp at hnone


theorem crossRow_CI (f : List ℝ → ℝ) {params B : PList ℝ} (hc : Ctx params B) {w0 : W ℝ} (i : Nat) (var1 : Name) :
    ∀ (vs : List Name) (j : Nat) (cl : CLoop ℝ), CI f params B w0 cl →
      (crossRow f params i var1 vs j cl).2 = none → CI f params B w0 (crossRow f params i var1 vs j cl).1 := by
  intro vs
  induction vs with
  | nil => intro j cl h _; exact h
  | cons v vs ih =>
    intro j cl h hnone
    unfold crossRow at hnone ⊢
    split
    · rename_i hji
      rw [if_pos hji] at hnone
      split
      · rename_i hd; rw [hd] at hnone; simp at hnone
      · rename_i d hd
        rw [hd] at hnone
        simp only [] at hnone
        apply ih _ _ _ hnone
        obtain ⟨h1, h2, h3, h4, h5, h6⟩ := h
        exact ⟨h1, h2, ⟨h3.scheme, h3.h, h3.vars, h3.c1, h3.c2, h3.cx, h3.kind, h3.en1, h3.en2⟩, h4, h5, h6⟩
    · rename_i hji
      rw [if_neg hji] at hnone
      split
      · rename_i hh; rw [if_pos hh] at hnone; exact ih _ _ h hnone
      · rename_i hh
        rw [if_neg hh] at hnone
        rcases hp : crossPair f params cl i j var1 v with ⟨cl', e⟩
        rw [hp] at hnone
        cases e with
        | some e => simp at hnone
        | none =>
          simp only [] at hnone ⊢
          exact ih _ _ (crossPair_CI f hc cl h i j var1 v _ hp rfl) hnone

theorem crossGo_CI (f : List ℝ → ℝ) {params B : PList ℝ} (hc : Ctx params B) {w0 : W ℝ} (all : List Name) :
    ∀ (vs : List Name) (i : Nat) (cl : CLoop ℝ), CI f params B w0 cl →
      (crossGo f params all vs i cl).2 = none → CI f params B w0 (crossGo f params all vs i cl).1 := by
  intro vs
  induction vs with
  | nil => intro i cl h _; exact h
  | cons v vs ih =>
    intro i cl h hnone
    unfold crossGo at hnone ⊢
    split
    · rename_i hh; rw [if_pos hh] at hnone; exact ih _ _ h hnone
    · rename_i hh
      rw [if_neg hh] at hnone
      rcases hp : crossRow f params i v all 0 cl with ⟨cl', e⟩
      rw [hp] at hnone
      have := crossRow_CI f hc i v all 0 cl h
      rw [hp] at this
      cases e with
      | some e => simp at hnone
      | none =>
        simp only [] at hnone ⊢
        exact ih _ _ (this rfl) hnone


/-! ### back to the base point -/

@[simp] theorem enable1_params (fn : Fn ℝ) (b : Bool) : (fn.enable1 b).params = fn.params := by
  unfold Fn.enable1; split <;> rfl
@[simp] theorem enable2_params (fn : Fn ℝ) (b : Bool) : (fn.enable2 b).params = fn.params := by
  unfold Fn.enable2; split <;> rfl
@[simp] theorem enable1_fval (fn : Fn ℝ) (b : Bool) : (fn.enable1 b).fval = fn.fval := by
  unfold Fn.enable1; split <;> rfl
@[simp] theorem enable2_fval (fn : Fn ℝ) (b : Bool) : (fn.enable2 b).fval = fn.fval := by
  unfold Fn.enable2; split <;> rfl
@[simp] theorem enable1_kind (fn : Fn ℝ) (b : Bool) : (fn.enable1 b).kind = fn.kind := by
  unfold Fn.enable1; split <;> rfl
@[simp] theorem enable2_kind (fn : Fn ℝ) (b : Bool) : (fn.enable2 b).kind = fn.kind := by
  unfold Fn.enable2; split <;> rfl
theorem enable1_OK (f : List ℝ → ℝ) (fn : Fn ℝ) (b : Bool) (h : fn.OK f) : (fn.enable1 b).OK f := by
  unfold Fn.OK at *; simp [h]
theorem enable2_OK (f : List ℝ → ℝ) (fn : Fn ℝ) (b : Bool) (h : fn.OK f) : (fn.enable2 b).OK f := by
  unfold Fn.OK at *; simp [h]

/-- `function_->setParameters(parameters)` brings back every displaced parameter of `parameters` -/
theorem restore_all (f : List ℝ → ℝ) {params B : PList ℝ} (hc : Ctx params B) (hpnd : (names params).Nodup) (fn : Fn ℝ)
    {S : Name → Prop} (hD : Dev B fn.params S) (hok : fn.OK f) (hS : ∀ n, S n → has params n = true) :
    ((fn.setParameters f params).2 = none → (fn.setParameters f params).1.params = B) ∧
    (fn.setParameters f params).1.OK f ∧ (fn.setParameters f params).1.kind = fn.kind ∧
    (fn.setParameters f params).1.en1 = fn.en1 ∧ (fn.setParameters f params).1.en2 = fn.en2 := by
  obtain ⟨h1, _, h3, h4, h5, h6⟩ := setParameters_dev f hc fn params hpnd (fun _ => False) hD hok (by
    intro b hb _
    cases hf : find? params b.name with
    | none =>
      simp only []
      intro hs
      exact find?_none hf ((has_iff params b.name).mp (hS _ hs))
    | some q =>
      simp only []
      have := find?_some hf
      exact (hc.sync q this.1 b hb this.2.symm).symm)
  exact ⟨fun h => (h1 h).eq, h3, h4, h5, h6⟩

/-- `function_->setParameters(parameters.createSubList(lastVar))` brings back the last variable -/
theorem restore_one (f : List ℝ → ℝ) {params B : PList ℝ} (hc : Ctx params B) (fn : Fn ℝ) (l : Name) (q : PList ℝ)
    (hsub : subNames params [l] = .ok q) (hD : Dev B fn.params (fun m => some m = some l)) (hok : fn.OK f) :
    ((fn.setParameters f q).2 = none → (fn.setParameters f q).1.params = B) ∧
    (fn.setParameters f q).1.OK f ∧ (fn.setParameters f q).1.kind = fn.kind ∧
    (fn.setParameters f q).1.en1 = fn.en1 ∧ (fn.setParameters f q).1.en2 = fn.en2 := by
  obtain ⟨hn, hmem, hnd⟩ := subNames_spec params _ q hsub
  obtain ⟨h1, _, h3, h4, h5, h6⟩ := setParameters_dev f hc fn q hnd (fun _ => False) hD hok (by
    intro b hb _
    cases hf : find? q b.name with
    | none =>
      simp only []
      intro hs
      injection hs with hs
      apply find?_none hf
      rw [hn, hs]; simp
    | some x =>
      simp only []
      have := find?_some hf
      exact (hc.sync x (hmem x this.1) b hb this.2.symm).symm)
  exact ⟨fun h => (h1 h).eq, h3, h4, h5, h6⟩


/-- what `updateDerivatives` never touches -/
structure Keep (w w' : W ℝ) : Prop where
  scheme : w'.scheme = w.scheme
  h : w'.h = w.h
  vars : w'.vars = w.vars
  c1 : w'.c1 = w.c1
  c2 : w'.c2 = w.c2
  cx : w'.cx = w.cx
  kind : w'.fn.kind = w.fn.kind

theorem Frame.keep {w0 w : W ℝ} (h : Frame w0 w) : Keep w0 w :=
  ⟨h.scheme, h.h, h.vars, h.c1, h.c2, h.cx, h.kind⟩

theorem Keep.trans {a b c : W ℝ} (h1 : Keep a b) (h2 : Keep b c) : Keep a c :=
  ⟨h2.scheme.trans h1.scheme, h2.h.trans h1.h, h2.vars.trans h1.vars, h2.c1.trans h1.c1, h2.c2.trans h1.c2,
   h2.cx.trans h1.cx, h2.kind.trans h1.kind⟩

@[simp] theorem Wenable2_params (w : W ℝ) (b : Bool) : (w.enable2 b).params = w.fn.params := by
  unfold W.enable2; split <;> simp
@[simp] theorem Wenable2_kind (w : W ℝ) (b : Bool) : (w.enable2 b).kind = w.fn.kind := by
  unfold W.enable2; split <;> simp
theorem Wenable2_OK (f : List ℝ → ℝ) (w : W ℝ) (b : Bool) (h : w.fn.OK f) : (w.enable2 b).OK f := by
  unfold W.enable2; split
  · exact h
  · exact enable2_OK f _ _ h

/-- the end of the computing branch brings the wrapped function back to the base point -/
theorem finish_spec (f : List ℝ → ℝ) {params B : PList ℝ} (hc : Ctx params B) (hpnd : (names params).Nodup)
    (lastVar : Option Name) (all : Bool) (w : W ℝ) (hok : w.fn.OK f) {S : Name → Prop}
    (hD : Dev B w.fn.params S) (h0 : lastVar = none → ∀ n, ¬ S n)
    (h1 : all = false → ∀ n, S n → some n = lastVar) (h2 : ∀ n, S n → has params n = true) :
    ∀ r, finish f params lastVar all w = r → r.2 = none →
      r.1.fn.params = B ∧ r.1.fn.OK f ∧ Keep w r.1 ∧ r.1.f1 = w.f1 ∧ r.1.f2 = w.f2 ∧ r.1.f3 = w.f3 := by
  intro r hr hnone
  unfold finish at hr
  simp only [] at hr
  have hokE : (({ w with fn := w.fn.enable1 w.c1 } : W ℝ).enable2 w.c2).OK f :=
    Wenable2_OK f _ _ (enable1_OK f _ _ hok)
  have hDE : Dev B (({ w with fn := w.fn.enable1 w.c1 } : W ℝ).enable2 w.c2).params S := by
    simp only [Wenable2_params, enable1_params]; exact hD
  have hkE : (({ w with fn := w.fn.enable1 w.c1 } : W ℝ).enable2 w.c2).kind = w.fn.kind := by simp
  split at hr
  · subst hr
    refine ⟨?_, hokE, ⟨rfl, rfl, rfl, rfl, rfl, rfl, hkE⟩, rfl, rfl, rfl⟩
    exact (hDE.mono (fun n hn => h0 rfl n hn)).eq
  · rename_i l
    split at hr
    · rename_i hall
      obtain ⟨g1, g2, g3, _, _⟩ := restore_all f hc hpnd _ hDE hokE h2
      subst hr
      exact ⟨g1 hnone, g2, ⟨rfl, rfl, rfl, rfl, rfl, rfl, by simp only []; rw [g3, hkE]⟩, rfl, rfl, rfl⟩
    · rename_i hall
      have hall' : all = false := by simpa using hall
      split at hr
      · subst hr; simp at hnone
      · rename_i q hsub
        have hD1 : Dev B (({ w with fn := w.fn.enable1 w.c1 } : W ℝ).enable2 w.c2).params (fun m => some m = some l) :=
          hDE.mono (fun n hn => h1 hall' n hn)
        obtain ⟨g1, g2, g3, _, _⟩ := restore_one f hc _ l q hsub hD1 hokE
        subst hr
        exact ⟨g1 hnone, g2, ⟨rfl, rfl, rfl, rfl, rfl, rfl, by simp only []; rw [g3, hkE]⟩, rfl, rfl, rfl⟩


/-! ### `updateDerivatives` is transparent -/

theorem nanAll_fn (w : W ℝ) : (nanAll w).fn = w.fn := rfl

/-- the first `function_->setParameters(parameters)` of `updateDerivatives`, when the wrapped
function already holds the values of `parameters`, changes nothing -/
theorem first_set (f : List ℝ → ℝ) {params : PList ℝ} (fn : Fn ℝ) (hown : Own fn) (hok : fn.OK f)
    (hsync : Synced params fn.params) (hpnd : (names params).Nodup) :
    ((fn.setParameters f params).2 = none → (fn.setParameters f params).1.params = fn.params) ∧
    (fn.setParameters f params).1.OK f ∧ (fn.setParameters f params).1.kind = fn.kind ∧
    (fn.setParameters f params).1.en1 = fn.en1 ∧ (fn.setParameters f params).1.en2 = fn.en2 :=
  restore_all f ⟨hown.1, hown.2, hsync⟩ hpnd fn (Dev.refl fn.params (fun _ => False)) hok (fun _ h => h.elim)

theorem update3_spec (f : List ℝ → ℝ) (w : W ℝ) (params : PList ℝ) (hown : Own w.fn) (hok : w.fn.OK f)
    (hsync : Synced params w.fn.params) (hpnd : (names params).Nodup) :
    ∀ r, update3 f w params = r → r.2 = none →
      r.1.fn.params = w.fn.params ∧ r.1.fn.OK f ∧ Keep w r.1 ∧ r.1.f2 = f (values w.fn.params) := by
  intro r hr hnone
  have hc : Ctx params w.fn.params := ⟨hown.1, hown.2, hsync⟩
  unfold update3 at hr
  split at hr
  · -- computing branch
    simp only [] at hr
    have hown0 : Own ((w.fn.enable1 false).enable2 false) := by unfold Own; simp; exact hown
    have hok0 : ((w.fn.enable1 false).enable2 false).OK f := enable2_OK f _ _ (enable1_OK f _ _ hok)
    have h0 := first_set f ((w.fn.enable1 false).enable2 false) hown0 hok0 (by simpa using hsync) hpnd
    split at hr
    · subst hr; simp at hnone
    · rename_i fn1 hs1
      rw [hs1] at h0
      obtain ⟨g1, g2, g3, _, _⟩ := h0
      have hp1 : fn1.params = w.fn.params := by have := g1 rfl; simpa using this
      simp only [] at g2 g3
      have hval : fn1.fval = f (values w.fn.params) := by rw [← hp1]; exact g2
      split at hr
      · subst hr
        exact ⟨by rw [nanAll_fn]; simpa using hp1, by rw [nanAll_fn]; exact enable2_OK f _ _ (enable1_OK f _ _ g2),
          ⟨rfl, rfl, rfl, rfl, rfl, rfl, by rw [nanAll_fn]; simp [g3]⟩, hval⟩
      · -- the loop
        have hLI0 : LI f params w.fn.params { w with fn := fn1, f2 := fn1.fval } (fun w => w.f2)
            { w := { w with fn := fn1, f2 := fn1.fval }, p := [], lastVar := none } :=
          ⟨g2, (by rw [hp1]; exact Dev.refl _ _), (fun l h => by cases h), Frame.refl _, rfl⟩
        have hloop := loopGo_LI f (step3 f params) (fun lp h i var r => step3_LI f hc lp h i var r)
          w.vars 0 _ hLI0
        split at hr
        · subst hr; simp at hnone
        · rename_i lp hl
          rw [hl] at hloop
          obtain ⟨l1, l2, l3, l4, l5⟩ := hloop rfl
          simp only [] at l4 l5
          have hkeep0 : Keep w { w with fn := fn1, f2 := fn1.fval } := ⟨rfl, rfl, rfl, rfl, rfl, rfl, by simp [g3]⟩
          split at hr
          · -- cross derivatives
            split at hr
            · rename_i hlv
              obtain ⟨q1, q2, q3, _, q5, _⟩ := finish_spec f hc hpnd lp.lastVar true lp.w l1 l2
                (fun h n hn => by rw [h] at hn; cases hn) (fun h => by cases h)
                (fun n hn => l3 n hn.symm) r hr hnone
              exact ⟨q1, q2, hkeep0.trans (l4.keep.trans q3), by rw [q5, l5, hval]⟩
            · rename_i l hlv
              have hCI0 : CI f params w.fn.params { w with fn := fn1, f2 := fn1.fval } { w := lp.w, l1 := l, l2 := l } :=
                ⟨l1, l2.mono (fun n hn => by rw [hlv] at hn; injection hn with hn; exact Or.inl hn), l4, l5,
                  l3 l hlv, l3 l hlv⟩
              have hcross := crossGo_CI f hc lp.w.vars lp.w.vars 0 _ hCI0
              split at hr
              · subst hr; simp at hnone
              · rename_i cl hcl
                rw [hcl] at hcross
                obtain ⟨c1, c2, c3, c4, c5, c6⟩ := hcross rfl
                obtain ⟨q1, q2, q3, _, q5, _⟩ := finish_spec f hc hpnd lp.lastVar true cl.w c1 c2
                  (fun h => by rw [hlv] at h; cases h) (fun h => by cases h)
                  (fun n hn => by rcases hn with h | h <;> (rw [h]; assumption)) r hr hnone
                exact ⟨q1, q2, hkeep0.trans (c3.keep.trans q3), by rw [q5, c4, hval]⟩
          · obtain ⟨q1, q2, q3, _, q5, _⟩ := finish_spec f hc hpnd lp.lastVar false lp.w l1 l2
              (fun h n hn => by rw [h] at hn; cases hn) (fun _ n hn => hn)
              (fun n hn => l3 n hn.symm) r hr hnone
            exact ⟨q1, q2, hkeep0.trans (l4.keep.trans q3), by rw [q5, l5, hval]⟩
  · -- nothing to compute
    simp only [] at hr
    have hown0 : Own ((w.fn.enable1 w.c1).enable2 w.c2) := by unfold Own; simp; exact hown
    have hok0 : ((w.fn.enable1 w.c1).enable2 w.c2).OK f := enable2_OK f _ _ (enable1_OK f _ _ hok)
    have h0 := first_set f ((w.fn.enable1 w.c1).enable2 w.c2) hown0 hok0 (by simpa using hsync) hpnd
    split at hr
    · subst hr; simp at hnone
    · rename_i fn1 hs1
      rw [hs1] at h0
      obtain ⟨g1, g2, g3, _, _⟩ := h0
      have hp1 : fn1.params = w.fn.params := by have := g1 rfl; simpa using this
      subst hr
      exact ⟨hp1, g2, ⟨rfl, rfl, rfl, rfl, rfl, rfl, by simpa using g3⟩, by simp only []; rw [← hp1]; exact g2⟩


theorem update2_spec (f : List ℝ → ℝ) (w : W ℝ) (params : PList ℝ) (hown : Own w.fn) (hok : w.fn.OK f)
    (hsync : Synced params w.fn.params) (hpnd : (names params).Nodup) :
    ∀ r, update2 f w params = r → r.2 = none →
      r.1.fn.params = w.fn.params ∧ r.1.fn.OK f ∧ Keep w r.1 ∧ r.1.f1 = f (values w.fn.params) := by
  intro r hr hnone
  have hc : Ctx params w.fn.params := ⟨hown.1, hown.2, hsync⟩
  unfold update2 at hr
  split at hr
  · simp only [] at hr
    have hown0 : Own (w.fn.enable1 false) := by unfold Own; simp; exact hown
    have hok0 : (w.fn.enable1 false).OK f := enable1_OK f _ _ hok
    have h0 := first_set f (w.fn.enable1 false) hown0 hok0 (by simpa using hsync) hpnd
    split at hr
    · subst hr; simp at hnone
    · rename_i fn1 hs1
      rw [hs1] at h0
      obtain ⟨g1, g2, g3, _, _⟩ := h0
      have hp1 : fn1.params = w.fn.params := by have := g1 rfl; simpa using this
      simp only [] at g2 g3
      have hval : fn1.fval = f (values w.fn.params) := by rw [← hp1]; exact g2
      split at hr
      · subst hr
        exact ⟨by rw [nanAll_fn]; simpa using hp1, by rw [nanAll_fn]; exact enable1_OK f _ _ g2,
          ⟨rfl, rfl, rfl, rfl, rfl, rfl, by rw [nanAll_fn]; simp [g3]⟩, hval⟩
      · have hLI0 : LI f params w.fn.params { w with fn := fn1, f1 := fn1.fval } (fun w => w.f1)
            { w := { w with fn := fn1, f1 := fn1.fval }, p := [], lastVar := none } :=
          ⟨g2, (by rw [hp1]; exact Dev.refl _ _), (fun l h => by cases h), Frame.refl _, rfl⟩
        have hloop := loopGo_LI f (step2 f params) (fun lp h i var r => step2_LI f hc lp h i var r)
          w.vars 0 _ hLI0
        split at hr
        · subst hr; simp at hnone
        · rename_i lp hl
          rw [hl] at hloop
          obtain ⟨l1, l2, l3, l4, l5⟩ := hloop rfl
          simp only [] at l4 l5
          have hkeep0 : Keep w { w with fn := fn1, f1 := fn1.fval } := ⟨rfl, rfl, rfl, rfl, rfl, rfl, by simp [g3]⟩
          obtain ⟨q1, q2, q3, q4, _, _⟩ := finish_spec f hc hpnd lp.lastVar false lp.w l1 l2
            (fun h n hn => by rw [h] at hn; cases hn) (fun _ n hn => hn)
            (fun n hn => l3 n hn.symm) r hr hnone
          exact ⟨q1, q2, hkeep0.trans (l4.keep.trans q3), by rw [q4, l5, hval]⟩
  · simp only [] at hr
    have hown0 : Own (({ w with fn := w.fn.enable1 w.c1 } : W ℝ).enable2 w.c2) := by unfold Own; simp; exact hown
    have hok0 : (({ w with fn := w.fn.enable1 w.c1 } : W ℝ).enable2 w.c2).OK f :=
      Wenable2_OK f _ _ (enable1_OK f _ _ hok)
    have h0 := first_set f _ hown0 hok0 (by simpa using hsync) hpnd
    split at hr
    · subst hr; simp at hnone
    · rename_i fn1 hs1
      rw [hs1] at h0
      obtain ⟨g1, g2, g3, _, _⟩ := h0
      have hp1 : fn1.params = w.fn.params := by have := g1 rfl; simpa using this
      subst hr
      exact ⟨hp1, g2, ⟨rfl, rfl, rfl, rfl, rfl, rfl, by simpa using g3⟩, by simp only []; rw [← hp1]; exact g2⟩

theorem update5_spec (f : List ℝ → ℝ) (w : W ℝ) (params : PList ℝ) (hown : Own w.fn) (hok : w.fn.OK f)
    (hsync : Synced params w.fn.params) (hpnd : (names params).Nodup) :
    ∀ r, update5 f w params = r → r.2 = none →
      r.1.fn.params = w.fn.params ∧ r.1.fn.OK f ∧ Keep w r.1 ∧ r.1.f3 = f (values w.fn.params) := by
  intro r hr hnone
  have hc : Ctx params w.fn.params := ⟨hown.1, hown.2, hsync⟩
  unfold update5 at hr
  split at hr
  · simp only [] at hr
    have hown0 : Own ((w.fn.enable1 false).enable2 false) := by unfold Own; simp; exact hown
    have hok0 : ((w.fn.enable1 false).enable2 false).OK f := enable2_OK f _ _ (enable1_OK f _ _ hok)
    have h0 := first_set f ((w.fn.enable1 false).enable2 false) hown0 hok0 (by simpa using hsync) hpnd
    split at hr
    · subst hr; simp at hnone
    · rename_i fn1 hs1
      rw [hs1] at h0
      obtain ⟨g1, g2, g3, _, _⟩ := h0
      have hp1 : fn1.params = w.fn.params := by have := g1 rfl; simpa using this
      simp only [] at g2 g3
      have hval : fn1.fval = f (values w.fn.params) := by rw [← hp1]; exact g2
      have hLI0 : LI f params w.fn.params { w with fn := fn1, f3 := fn1.fval } (fun w => w.f3)
          { w := { w with fn := fn1, f3 := fn1.fval }, p := [], lastVar := none } :=
        ⟨g2, (by rw [hp1]; exact Dev.refl _ _), (fun l h => by cases h), Frame.refl _, rfl⟩
      have hloop := loopGo_LI f (step5 f params) (fun lp h i var r => step5_LI f hc lp h i var r)
        w.vars 0 _ hLI0
      split at hr
      · subst hr; simp at hnone
      · rename_i lp hl
        rw [hl] at hloop
        obtain ⟨l1, l2, l3, l4, l5⟩ := hloop rfl
        simp only [] at l4 l5
        have hkeep0 : Keep w { w with fn := fn1, f3 := fn1.fval } := ⟨rfl, rfl, rfl, rfl, rfl, rfl, by simp [g3]⟩
        obtain ⟨q1, q2, q3, _, _, q6⟩ := finish_spec f hc hpnd lp.lastVar false lp.w l1 l2
          (fun h n hn => by rw [h] at hn; cases hn) (fun _ n hn => hn)
          (fun n hn => l3 n hn.symm) r hr hnone
        exact ⟨q1, q2, hkeep0.trans (l4.keep.trans q3), by rw [q6, l5, hval]⟩
  · simp only [] at hr
    have hown0 : Own ((w.fn.enable1 w.c1).enable2 w.c2) := by unfold Own; simp; exact hown
    have hok0 : ((w.fn.enable1 w.c1).enable2 w.c2).OK f := enable2_OK f _ _ (enable1_OK f _ _ hok)
    have h0 := first_set f ((w.fn.enable1 w.c1).enable2 w.c2) hown0 hok0 (by simpa using hsync) hpnd
    split at hr
    · subst hr; simp at hnone
    · rename_i fn1 hs1
      rw [hs1] at h0
      obtain ⟨g1, g2, g3, _, _⟩ := h0
      have hp1 : fn1.params = w.fn.params := by have := g1 rfl; simpa using this
      subst hr
      exact ⟨hp1, g2, ⟨rfl, rfl, rfl, rfl, rfl, rfl, by simpa using g3⟩, by simp only []; rw [← hp1]; exact g2⟩

end Bpp.NumDeriv
