import BppProofs.Lemmas.LUStoreFactor
/-!
Helper lemmas for C05, storage level: `solve` / `inv` / `det` of `BppModel/LUStore.lean` (statement
by statement, output in any class and any prior state) refine `LU.solve` / `LU.inv` / `LU.matDet`,
for any scalar type.
-/
namespace Bpp.LUS
open Bpp Bpp.Mx Bpp.LU

variable {α : Type} [Scalar α] {n : Nat}

theorem loop_congr {σ : Type} (k : Nat) (f g : Nat → σ → Res σ) (s : σ) (h : ∀ i, i < k → ∀ t, f i t = g i t) :
    loop k f s = loop k g s := by
  induction k with
  | zero => rfl
  | succ k ih =>
    simp only [loop]
    rw [ih (fun i hi t => h i (by omega) t)]
    cases loop k g s with
    | ok t => exact h k (by omega) t
    | error e => rfl

/-- a double loop that assigns `val i j` to every cell of the leading `r1 × c1` block -/
theorem fillLoop {S : Store α} {k : Kind} {r c : Nat} {f : Nat → Nat → α} (hS : Is S k r c f)
    {r1 c1 : Nat} (hr1 : r1 ≤ r) (hc1 : c1 ≤ c) (val : Nat → Nat → α) (obody : Nat → Store α → Res (Store α))
    (hbody : ∀ i, i < r1 → ∀ T, obody i T = loop c1 (fun j T => wr T i j (val i j)) T) :
    ∃ S', loop r1 obody S = .ok S' ∧ Is S' k r c (fun a b => if a < r1 ∧ b < c1 then val a b else f a b) := by
  apply loop_inv (fun i T => Is T k r c (fun a b => if a < i ∧ b < c1 then val a b else f a b)) r1 obody S
    (hS.congr (fun a b _ _ => by simp))
  intro i T hi hT
  obtain ⟨T', e, hT'⟩ := rowLoop0 hT (show i < r by omega) hc1 (val i) (fun j T => wr T i j (val i j))
    (fun j _ T g _ _ => rfl)
  refine ⟨T', by rw [hbody i hi T]; exact e, hT'.congr ?_⟩
  intro a b _ _
  by_cases hai : a = i
  · subst hai
    have c1' : ¬ (a < a) := by omega
    have c2 : a < a + 1 := by omega
    simp [c1', c2]
  · have c1' : (a < i + 1) = (a < i) := by apply propext; omega
    simp only [hai, false_and, if_false, c1']

/-! ### smallest pivot magnitude, determinant -/

theorem minDiagS_refines {s : StateS α} {t : LU.State α n n} (hr : Rep s t) (hn : 0 < n) :
    minDiagS s = .ok (minDiag t rfl hn) := by
  obtain ⟨hm, _, hlu, _, _⟩ := hr
  unfold minDiagS
  rw [hlu.rd hn hn, hm]
  simp only [ok_bind]
  obtain ⟨d, e, r⟩ := loopFrom_foldl (fun (a b : α) => a = b) 1 n hn
    (fun i d => do
      let c ← rd s.lu i i
      pure (if Scalar.ltb (numAbs c) d then numAbs c else d))
    (fun d (i : Fin n) => if 0 < i.val then
      (if Scalar.ltb (numAbs (t.lu.get (i.cast rfl) i)) d then numAbs (t.lu.get (i.cast rfl) i) else d) else d)
    (numAbs (fnOf t.lu 0 0)) _ rfl
    (fun i d hi => by
      have : ¬ 0 < i.val := by omega
      simp only [this, if_false])
    (fun i a b hi hab => by
      subst hab
      have h0 : 0 < i.val := by omega
      simp only [hlu.rd i.isLt i.isLt, ok_bind, pure_eq, fnOf_get, h0, if_true, Fin.cast_eq_self]
      exact ⟨_, rfl, rfl⟩)
  rw [e, r]
  simp only [minDiag, fnOf_lt _ hn hn, Fin.cast_eq_self]

theorem detS_refines {m : Nat} {s : StateS α} {t : LU.State α m n} (hr : Rep s t) (hnm : n ≤ m) :
    detS s = .ok (LU.det t) := by
  obtain ⟨hm, hn', hlu, hsign, _⟩ := hr
  unfold detS LU.det
  rw [hm, hn']
  by_cases h : n = m
  · subst h
    simp only [ne_eq, not_true_eq_false, if_false, dif_pos]
    obtain ⟨d, e, r⟩ := loop_foldl (fun (a b : α) => a = b) n
      (fun j d => do
        let x ← rd s.lu j j
        pure (d * x))
      (fun d (j : Fin n) => d * t.lu.get (j.cast rfl) j) (Scalar.ofInt s.pivsign) _ rfl
      (fun j a b hab => by
        subst hab
        simp only [hlu.rd j.isLt j.isLt, ok_bind, pure_eq, fnOf_get, Fin.cast_eq_self]
        exact ⟨_, rfl, rfl⟩)
    rw [e, r, hsign]
  · have : m ≠ n := fun e => h e.symm
    simp [this, h]

/-! ### permuted copy into an output in any prior state -/

theorem shape_pos' (k : Kind) {r c : Nat} (hr : 0 < r) (hc : 0 < c) : k.shape r c = (r, c) := by
  cases k <;> simp [Kind.shape] <;> omega

theorem permuteCopyS_refines (piv : Vector (Fin n) n) {B : Store α} {kB : Kind} {nx : Nat} (Bm : Mat α n nx)
    (hB : Is B kB n nx (fnOf Bm)) (hb : n = n) {X : Store α} (hX : X.WF) (hn : 0 < n) (hnx : 0 < nx) :
    ∃ X', permuteCopyS B (Array.ofFn (n := n) fun i => (piv[i.val]'i.isLt).val) nx X = .ok X' ∧
      Is X' X.kind n nx (fnOf (permuteCopy Bm hb piv)) := by
  unfold permuteCopyS
  simp only [Array.size_ofFn]
  have h0 := Is.resize hX n nx (shape_pos' X.kind hn hnx)
  obtain ⟨X', e, hX'⟩ := fillLoop h0 (Nat.le_refl n) (Nat.le_refl nx)
    (fun a b => fnOf Bm (if h : a < n then (piv[a]'h).val else 0) b)
    (fun i X => do
      let pi ← vrd (Array.ofFn (n := n) fun i => (piv[i.val]'i.isLt).val) i
      if nx = 0 then .error .ub
      else loop nx (fun j X => do
        let b ← rd B pi j
        wr X i j b) X)
    (by
      intro i hi T
      have : ¬ nx = 0 := by omega
      simp only [vrd_ofFn _ hi, ok_bind, this, if_false, hi, dif_pos]
      apply loop_congr
      intro j hj T'
      have := hB.rd (piv[i]'hi).isLt hj
      simp only [this, ok_bind])
  refine ⟨X', e, hX'.congr ?_⟩
  intro a b ha hb'
  simp only [ha, hb', and_self, if_true, dif_pos, permuteCopy]
  rw [fnOf_ofFn _ ha hb', fnOf_lt _ (piv[a]'ha).isLt hb']
  simp

/-! ### forward and back substitution -/

theorem axpyRowS_spec {LUs : Store α} {l : Nat → Nat → α} (hlu : Is LUs .row n n l) {X : Store α} {k0 : Kind} {nx : Nat}
    {g : Nat → Nat → α} (hX : Is X k0 n nx g) {k i : Nat} (hk : k < n) (hi : i < n) (hne : i ≠ k) :
    ∃ X', axpyRowS LUs nx k i X = .ok X' ∧
      Is X' k0 n nx (fun a b => if a = i then g i b - g k b * l i k else g a b) := by
  unfold axpyRowS
  obtain ⟨X', e, hX'⟩ := rowLoop0 hX hi (Nat.le_refl nx) (fun b => g i b - g k b * l i k)
    (fun j X => do
      let x ← rd X i j
      let xk ← rd X k j
      let l ← rd LUs i k
      wr X i j (x - xk * l))
    (by
      intro j hj T g' hT hout
      have e1 : g' i j = g i j := hout i j (by omega)
      have e2 : g' k j = g k j := hout k j (by omega)
      simp only [hT.rd hi hj, hT.rd hk hj, hlu.rd hi hk, ok_bind, e1, e2])
  refine ⟨X', e, hX'.congr ?_⟩
  intro a b _ hb
  simp [hb]

theorem fwdStepS_refines {s : StateS α} {t : LU.State α n n} (hr : Rep s t) {X : Store α} {k0 : Kind} {nx : Nat}
    (Y : Mat α n nx) (hX : Is X k0 n nx (fnOf Y)) (k : Fin n) :
    ∃ X', loopFrom (k.val + 1) n (fun i X => axpyRowS s.lu nx k.val i X) X = .ok X' ∧
      Is X' k0 n nx (fnOf (fwdStep t rfl Y k)) := by
  obtain ⟨_, _, hlu, _, _⟩ := hr
  let g := fnOf Y
  let l := fnOf t.lu
  obtain ⟨X', e, hX'⟩ := loopFrom_inv
    (fun i T => Is T k0 n nx (fun a b => if k.val < a ∧ a < i then g a b - g k.val b * l a k.val else g a b))
    (k.val + 1) n (by omega) (fun i X => axpyRowS s.lu nx k.val i X) X
    (hX.congr (fun a b _ _ => by
      have : ¬ (k.val < a ∧ a < k.val + 1) := by omega
      simp [this, g]))
    (by
      intro i T hi0 hi1 hT
      obtain ⟨T', e', hT'⟩ := axpyRowS_spec hlu hT k.isLt hi1 (by omega)
      refine ⟨T', e', hT'.congr ?_⟩
      intro a b _ _
      by_cases hai : a = i
      · subst hai
        have c1 : ¬ (k.val < a ∧ a < a) := by omega
        have c2 : ¬ (k.val < k.val ∧ k.val < a) := by omega
        have c3 : (k.val < a ∧ a < a + 1) := by omega
        simp [c1, c2, c3, l]
      · have c1 : (k.val < a ∧ a < i + 1) = (k.val < a ∧ a < i) := by apply propext; omega
        simp only [hai, if_false, c1])
  refine ⟨X', e, hX'.congr ?_⟩
  intro a b ha hb
  simp only [fwdStep]
  rw [fnOf_ofFn _ ha hb]
  simp only [g, l, Fin.cast_eq_self, ha, and_true]
  by_cases hka : k.val < a
  · simp [hka, fnOf_lt _ ha hb, fnOf_lt _ k.isLt hb, fnOf_lt _ ha k.isLt]
  · simp [hka, fnOf_lt _ ha hb]

theorem fwdS_refines {s : StateS α} {t : LU.State α n n} (hr : Rep s t) {X : Store α} {k0 : Kind} {nx : Nat}
    (Y : Mat α n nx) (hX : Is X k0 n nx (fnOf Y)) :
    ∃ X', fwdS s nx X = .ok X' ∧ Is X' k0 n nx (fnOf (Fin.foldl n (fwdStep t rfl) Y)) := by
  unfold fwdS
  rw [hr.2.1]
  exact loop_foldl (fun (T : Store α) (Z : Mat α n nx) => Is T k0 n nx (fnOf Z)) n _ (fwdStep t rfl) X Y hX
    (fun k T Z hT => fwdStepS_refines hr Z hT k)

theorem divRowS_spec {LUs : Store α} {l : Nat → Nat → α} (hlu : Is LUs .row n n l) {X : Store α} {k0 : Kind} {nx : Nat}
    {g : Nat → Nat → α} (hX : Is X k0 n nx g) {k : Nat} (hk : k < n) :
    ∃ X', divRowS LUs nx k X = .ok X' ∧ Is X' k0 n nx (fun a b => if a = k then g k b / l k k else g a b) := by
  unfold divRowS
  obtain ⟨X', e, hX'⟩ := rowLoop0 hX hk (Nat.le_refl nx) (fun b => g k b / l k k)
    (fun j X => do
      let x ← rd X k j
      let d ← rd LUs k k
      wr X k j (x / d))
    (by
      intro j hj T g' hT hout
      have e1 : g' k j = g k j := hout k j (by omega)
      simp only [hT.rd hk hj, hlu.rd hk hk, ok_bind, e1])
  refine ⟨X', e, hX'.congr ?_⟩
  intro a b _ hb
  simp [hb]

theorem backStepS_refines {s : StateS α} {t : LU.State α n n} (hr : Rep s t) {X : Store α} {k0 : Kind} {nx : Nat}
    (Y : Mat α n nx) (hX : Is X k0 n nx (fnOf Y)) (k : Fin n) :
    ∃ X', (do
        let X1 ← divRowS s.lu nx k.val X
        loop k.val (fun i X => axpyRowS s.lu nx k.val i X) X1) = .ok X' ∧
      Is X' k0 n nx (fnOf (backStep t rfl k Y)) := by
  obtain ⟨_, _, hlu, _, _⟩ := hr
  let g := fnOf Y
  let l := fnOf t.lu
  obtain ⟨X1, e1, hX1⟩ := divRowS_spec hlu hX k.isLt
  let g1 : Nat → Nat → α := fun a b => if a = k.val then g k.val b / l k.val k.val else g a b
  obtain ⟨X', e, hX'⟩ := loop_inv
    (fun i T => Is T k0 n nx (fun a b => if a < i then g1 a b - g1 k.val b * l a k.val else g1 a b))
    k.val (fun i X => axpyRowS s.lu nx k.val i X) X1
    (hX1.congr (fun a b _ _ => by simp [g1, g, l]))
    (by
      intro i T hi hT
      obtain ⟨T', e', hT'⟩ := axpyRowS_spec hlu hT k.isLt (show i < n by omega) (by omega)
      refine ⟨T', e', hT'.congr ?_⟩
      intro a b _ _
      by_cases hai : a = i
      · subst hai
        have c1 : ¬ (a < a) := by omega
        have c2 : ¬ (k.val < a) := by omega
        have c3 : a < a + 1 := by omega
        simp [c1, c2, c3, l]
      · have c1 : (a < i + 1) = (a < i) := by apply propext; omega
        simp only [hai, if_false, c1])
  refine ⟨X', by rw [e1]; exact e, hX'.congr ?_⟩
  intro a b ha hb
  simp only [backStep]
  rw [fnOf_ofFn _ ha hb]
  simp only [g1, g, l, Fin.cast_eq_self, if_true]
  by_cases hak : a = k.val
  · have : ¬ a < k.val := by omega
    simp [hak, fnOf_lt _ k.isLt hb, fnOf_lt _ k.isLt k.isLt]
  · by_cases hlt : a < k.val
    · simp [hak, hlt, fnOf_lt _ ha hb, fnOf_lt _ k.isLt hb, fnOf_lt _ k.isLt k.isLt, fnOf_lt _ ha k.isLt]
    · simp [hak, hlt, fnOf_lt _ ha hb]

theorem backS_refines {s : StateS α} {t : LU.State α n n} (hr : Rep s t) (hn : 0 < n) {X : Store α} {k0 : Kind} {nx : Nat}
    (Y : Mat α n nx) (hX : Is X k0 n nx (fnOf Y)) :
    ∃ X', backS s nx X = .ok X' ∧ Is X' k0 n nx (fnOf (Fin.foldr n (backStep t rfl) Y)) := by
  unfold backS
  rw [hr.2.1]
  have : ¬ n = 0 := by omega
  simp only [this, if_false]
  exact loop_foldr (fun (T : Store α) (Z : Mat α n nx) => Is T k0 n nx (fnOf Z)) n _ (backStep t rfl) X Y hX
    (fun k T Z hT => by
      have e : n - 1 - (n - 1 - k.val) = k.val := by omega
      simp only [e]
      exact backStepS_refines hr Z hT k)

/-! ### `solve` -/

/-- **`solve` on stores returns what the abstract `solve` returns**, whatever the classes of `B`
and `X` and whatever `X` contained or whichever shape it had before: `X` keeps its class, gets
the shape `n × nx` and the entries of the abstract result -/
theorem solveS_ok {m mb nx : Nat} {s : StateS α} {t : LU.State α m n} (hr : Rep s t) {B X : Store α} {kB : Kind}
    (Bm : Mat α mb nx) (hB : Is B kB mb nx (fnOf Bm)) (hX : X.WF)
    {d : α} {Y : Mat α m nx} (h : LU.solve t Bm = .ok (d, Y)) :
    ∃ X', solveS s B X = .ok (d, X') ∧ Is X' X.kind m nx (fnOf Y) := by
  unfold LU.solve at h
  by_cases hb : mb = m
  · rw [dif_pos hb] at h
    subst hb
    by_cases hsq : n = mb ∧ 0 < n
    · rw [dif_pos hsq] at h
      obtain ⟨hnm, hn⟩ := hsq
      subst hnm
      simp only at h
      by_cases hbt : belowThreshold (minDiag t rfl hn) = true
      · rw [if_pos hbt] at h; cases h
      · rw [if_neg hbt] at h
        by_cases hnx : 0 < nx
        · rw [if_pos hnx] at h
          injection h with h
          injection h with h1 h2
          subst h1
          unfold solveS
          have hbm : ¬ B.nrows ≠ s.m := by rw [hr.1, hB.2.2.1]; simp
          simp only [hbm, if_false, minDiagS_refines hr hn, ok_bind, hbt]
          rw [hr.2.2.2.2, hB.2.2.2.1]
          obtain ⟨X1, e1, hX1⟩ := permuteCopyS_refines t.piv Bm hB rfl hX hn hnx
          obtain ⟨X2, e2, hX2⟩ := fwdS_refines hr _ hX1
          obtain ⟨X3, e3, hX3⟩ := backS_refines hr hn _ hX2
          rw [e1]; simp only [ok_bind]
          rw [e2]; simp only [ok_bind]
          rw [e3]; simp only [ok_bind, pure_eq]
          refine ⟨X3, rfl, ?_⟩
          have : Y = substitute t rfl (permuteCopy Bm rfl t.piv) := by
            rw [← h2]
          rw [this]
          exact hX3
        · rw [if_neg hnx] at h; cases h
    · rw [dif_neg hsq] at h; cases h
  · rw [dif_neg hb] at h; cases h

/-- the exceptions of `solve` (wrong height, singular) are raised by the statement-level model
exactly when the abstract one raises them — before the output is touched -/
theorem solveS_error {m mb nx : Nat} {s : StateS α} {t : LU.State α m n} (hr : Rep s t) {B : Store α} {kB : Kind}
    (Bm : Mat α mb nx) (hB : Is B kB mb nx (fnOf Bm)) (X : Store α)
    {e : LU.Err} (h : LU.solve t Bm = .error e) (hne : e ≠ .ub) : solveS s B X = .error e := by
  unfold LU.solve at h
  by_cases hb : mb = m
  · rw [dif_pos hb] at h
    subst hb
    by_cases hsq : n = mb ∧ 0 < n
    · rw [dif_pos hsq] at h
      obtain ⟨hnm, hn⟩ := hsq
      subst hnm
      simp only at h
      by_cases hbt : belowThreshold (minDiag t rfl hn) = true
      · rw [if_pos hbt] at h
        injection h with h
        subst h
        unfold solveS
        have hbm : ¬ B.nrows ≠ s.m := by rw [hr.1, hB.2.2.1]; simp
        simp only [hbm, if_false, minDiagS_refines hr hn, ok_bind, hbt, if_true]
      · rw [if_neg hbt] at h
        by_cases hnx : 0 < nx
        · rw [if_pos hnx] at h; cases h
        · rw [if_neg hnx] at h
          injection h with h
          exact absurd h.symm hne
    · rw [dif_neg hsq] at h
      injection h with h
      exact absurd h.symm hne
  · rw [dif_neg hb] at h
    injection h with h
    subst h
    unfold solveS
    have hbm : B.nrows ≠ s.m := by rw [hr.1, hB.2.2.1]; exact hb
    rw [if_pos hbm]

/-- **`solve(B, B)`** (after the repair: the permuted copy is taken from a copy of `B`): `B` ends up,
in its own class, holding the abstract result -/
theorem solveSelfS_ok {m mb nx : Nat} {s : StateS α} {t : LU.State α m n} (hr : Rep s t) {B : Store α} {kB : Kind}
    (Bm : Mat α mb nx) (hB : Is B kB mb nx (fnOf Bm))
    {d : α} {Y : Mat α m nx} (h : LU.solve t Bm = .ok (d, Y)) :
    ∃ X', solveSelfS s B = .ok (d, X') ∧ Is X' kB m nx (fnOf Y) := by
  unfold LU.solve at h
  by_cases hb : mb = m
  · rw [dif_pos hb] at h
    subst hb
    by_cases hsq : n = mb ∧ 0 < n
    · rw [dif_pos hsq] at h
      obtain ⟨hnm, hn⟩ := hsq
      subst hnm
      simp only at h
      by_cases hbt : belowThreshold (minDiag t rfl hn) = true
      · rw [if_pos hbt] at h; cases h
      · rw [if_neg hbt] at h
        by_cases hnx : 0 < nx
        · rw [if_pos hnx] at h
          injection h with h
          injection h with h1 h2
          subst h1
          unfold solveSelfS
          have hbm : ¬ B.nrows ≠ s.m := by rw [hr.1, hB.2.2.1]; simp
          simp only [hbm, if_false, minDiagS_refines hr hn, ok_bind, hbt]
          obtain ⟨Bc, ec, hkc, hHc⟩ := copy_holds hB.1 (Store.empty .row)
          have hkc' : Bc.kind = .row := by rw [hkc]; rfl
          rw [hB.2.2.1, hB.2.2.2.1] at hHc
          have hBc := Is.of_holds hHc (by rw [hkc']; exact shape_pos' _ hn hnx)
          rw [hkc'] at hBc
          have hBc' : Is Bc .row n nx (fnOf Bm) := hBc.congr (fun a b ha hb' => by
            have h1 := hB.2.2.2.2 a b ha hb'
            rw [Store.get_eq_entry hB.1 (by rw [hB.2.2.1]; exact ha) (by rw [hB.2.2.2.1]; exact hb')] at h1
            injection h1)
          simp only [ec, liftMx, ok_bind]
          rw [hr.2.2.2.2, hB.2.2.2.1]
          obtain ⟨X1, e1, hX1⟩ := permuteCopyS_refines t.piv Bm hBc' rfl hB.1 hn hnx
          obtain ⟨X2, e2, hX2⟩ := fwdS_refines hr _ hX1
          obtain ⟨X3, e3, hX3⟩ := backS_refines hr hn _ hX2
          rw [e1]; simp only [ok_bind]
          rw [e2]; simp only [ok_bind]
          rw [e3]; simp only [ok_bind, pure_eq]
          refine ⟨X3, rfl, ?_⟩
          have : Y = substitute t rfl (permuteCopy Bm rfl t.piv) := by
            rw [← h2]
          rw [this, ← hB.2.1]
          exact hX3
        · rw [if_neg hnx] at h; cases h
    · rw [dif_neg hsq] at h; cases h
  · rw [dif_neg hb] at h; cases h

/-- a well-formed store is a view of `matOf` of itself -/
theorem Is.matOf {S : Store α} (hw : S.WF) : Is S S.kind S.nrows S.ncols (fnOf (matOf S)) :=
  (Is.self hw).congr (fun a b ha hb => by simp [LUS.matOf, fnOf_ofFn _ ha hb])

/-! ### `MatrixTools::inv`, `MatrixTools::det` -/

theorem identity_is {k : Nat} (hk : 0 < k) :
    ∃ I, liftMx (Mx.getId k (Store.empty .row : Store α)) = .ok I ∧ Is I .row k k (fnOf (LU.identity k : Mat α k k)) := by
  obtain ⟨I, e, hkind, hH⟩ := getId_holds (α := α) k (Store.empty .row)
  have hk' : I.kind = .row := by rw [hkind]; rfl
  have := Is.of_holds hH (by rw [hk']; exact shape_pos' _ hk hk)
  rw [hk'] at this
  refine ⟨I, by rw [e]; rfl, this.congr ?_⟩
  intro a b ha hb
  simp only [LU.identity]
  rw [fnOf_ofFn _ ha hb]
  simp [Spec.identity, Scalar.one, Scalar.zero]

/-- **`MatrixTools::inv(A, O)` on stores**: any class of `A`, any class and prior state of `O` -/
theorem invS_ok {A O : Store α} (hA : A.WF) (hO : O.WF) {d : α} {Y : Mat α A.nrows A.nrows}
    (h : LU.inv (LUS.matOf A) = .ok (d, Y)) :
    ∃ O', invS A O = .ok (d, O') ∧ Is O' O.kind A.nrows A.nrows (fnOf Y) := by
  unfold LU.inv at h
  by_cases hsq : A.nrows ≠ A.ncols
  · rw [if_pos hsq] at h; cases h
  · rw [if_neg hsq] at h
    have hle : A.ncols ≤ A.nrows := by omega
    unfold construct at h
    rw [dif_pos hle] at h
    simp only at h
    obtain ⟨s, e, hr⟩ := constructS_refines hA hle
    have hpos : 0 < A.nrows := by
      by_contra h0
      have h0' : A.nrows = 0 := by omega
      unfold LU.solve at h
      rw [dif_pos rfl] at h
      have : ¬ (A.ncols = A.nrows ∧ 0 < A.ncols) := by omega
      rw [dif_neg this] at h
      cases h
    obtain ⟨I, eI, hI⟩ := identity_is (α := α) hpos
    obtain ⟨O', eO, hO'⟩ := solveS_ok hr _ hI hO h
    refine ⟨O', ?_, hO'⟩
    unfold invS
    simp only [hsq, if_false, e, ok_bind, eI]
    exact eO

theorem invS_error {A : Store α} (hA : A.WF) (O : Store α) {e : LU.Err} (h : LU.inv (LUS.matOf A) = .error e) (hne : e ≠ .ub) :
    invS A O = .error e := by
  unfold LU.inv at h
  by_cases hsq : A.nrows ≠ A.ncols
  · rw [if_pos hsq] at h
    injection h with h
    subst h
    unfold invS
    rw [if_pos hsq]
  · rw [if_neg hsq] at h
    have hle : A.ncols ≤ A.nrows := by omega
    unfold construct at h
    rw [dif_pos hle] at h
    simp only at h
    obtain ⟨s, es, hr⟩ := constructS_refines hA hle
    have hpos : 0 < A.nrows := by
      by_contra h0
      have h0' : A.nrows = 0 := by omega
      unfold LU.solve at h
      rw [dif_pos rfl] at h
      have : ¬ (A.ncols = A.nrows ∧ 0 < A.ncols) := by omega
      rw [dif_neg this] at h
      injection h with h
      exact hne h.symm
    obtain ⟨I, eI, hI⟩ := identity_is (α := α) hpos
    unfold invS
    simp only [hsq, if_false, es, ok_bind, eI]
    exact solveS_error hr _ hI O h hne

/-- **`MatrixTools::det(A)` on stores**: the outcome of the abstract model, for any class of `A` -/
theorem matDetS_refines {A : Store α} (hA : A.WF) (hne : LU.matDet (LUS.matOf A) ≠ .error .ub) :
    matDetS A = LU.matDet (LUS.matOf A) := by
  unfold LU.matDet at hne ⊢
  unfold matDetS
  by_cases hsq : A.nrows ≠ A.ncols
  · rw [if_pos hsq, if_pos hsq]
  · rw [if_neg hsq, if_neg hsq]
    have hle : A.ncols ≤ A.nrows := by omega
    unfold construct
    rw [dif_pos hle]
    obtain ⟨s, es, hr⟩ := constructS_refines hA hle
    simp only [es, ok_bind]
    exact detS_refines hr hle

end Bpp.LUS
