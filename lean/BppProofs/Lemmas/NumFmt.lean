import Mathlib.Tactic.FieldSimp
import Mathlib.Tactic.Ring
import Mathlib.Tactic.Positivity
import Mathlib.Tactic.Linarith
import Mathlib.Algebra.Order.Field.Rat
import BppProofs.Lemmas.Number
import BppModel.Text.NumFmt
/-! Helper lemmas for `Props/C17Number.lean`: the digits written by `NumFmt.fmtParts` and the value
the decimal grammar assigns to them. -/
namespace Bpp.Text.NumFmt
open Bpp.Text Bpp.Text.Number

theorem pow10_eq_zpow (e : Int) : pow10 e = (10 : ℚ) ^ e := by
  unfold pow10
  split
  · rename_i h
    have : e = (e.toNat : Int) := (Int.toNat_of_nonneg h).symm
    conv => rhs; rw [this]
    rw [zpow_natCast]; push_cast; rfl
  · rename_i h
    have h' : 0 ≤ -e := by omega
    have : e = -((-e).toNat : Int) := by rw [Int.toNat_of_nonneg h']; omega
    conv => rhs; rw [this]
    rw [zpow_neg, zpow_natCast]; push_cast
    rw [one_div]

theorem digitsVal_append (l r : Str) : digitsVal (l ++ r) = digitsVal l * 10 ^ r.length + digitsVal r := by
  induction r using List.reverseRecOn with
  | nil => simp [digitsVal]
  | append_singleton r c ih =>
    rw [← List.append_assoc, digitsVal_append_single, ih, digitsVal_append_single]
    simp only [List.length_append, List.length_singleton, pow_succ]
    ring

theorem digitsVal_zeros (k : Nat) : digitsVal (List.replicate k '0') = 0 := by
  induction k with
  | zero => rfl
  | succ k ih =>
    rw [List.replicate_succ', digitsVal_append_single, ih]
    decide

theorem digitsVal_zeros_left (k : Nat) (l : Str) : digitsVal (List.replicate k '0' ++ l) = digitsVal l := by
  rw [digitsVal_append, digitsVal_zeros]; simp

theorem digitsVal_zeros_right (l : Str) (k : Nat) : digitsVal (l ++ List.replicate k '0') = digitsVal l * 10 ^ k := by
  rw [digitsVal_append, digitsVal_zeros]; simp

/-- what `stripZeros` removes -/
theorem stripZeros_spec (l : Str) : ∃ k, l = stripZeros l ++ List.replicate k '0' := by
  unfold stripZeros
  have key : ∀ (r : Str), ∃ k, r = List.replicate k '0' ++ r.dropWhile (· == '0') := by
    intro r
    induction r with
    | nil => exact ⟨0, rfl⟩
    | cons c r ih =>
      by_cases hc : (c == '0') = true
      · obtain ⟨k, hk⟩ := ih
        have : c = '0' := by simpa using hc
        subst this
        refine ⟨k + 1, ?_⟩
        simp only [List.dropWhile_cons, beq_self_eq_true, if_true, List.replicate_succ, List.cons_append]
        rw [← hk]
      · exact ⟨0, by simp [hc]⟩
  obtain ⟨k, hk⟩ := key l.reverse
  refine ⟨k, ?_⟩
  have := congrArg List.reverse hk
  simp only [List.reverse_reverse, List.reverse_append, List.reverse_replicate] at this
  exact this

theorem allDigits_stripZeros {l : Str} (h : AllDigits l) : AllDigits (stripZeros l) := by
  obtain ⟨k, hk⟩ := stripZeros_spec l
  intro c hc
  exact h c (by rw [hk]; simp [hc])

theorem allDigits_zeros (k : Nat) : AllDigits (List.replicate k '0') := by
  intro c hc
  rw [List.eq_of_mem_replicate hc]; decide

theorem allDigits_append {a b : Str} (ha : AllDigits a) (hb : AllDigits b) : AllDigits (a ++ b) := by
  intro c hc
  rcases List.mem_append.mp hc with h | h
  · exact ha c h
  · exact hb c h

theorem allDigits_take {l : Str} (h : AllDigits l) (n : Nat) : AllDigits (l.take n) :=
  fun c hc => h c (List.mem_of_mem_take hc)

theorem allDigits_drop {l : Str} (h : AllDigits l) (n : Nat) : AllDigits (l.drop n) :=
  fun c hc => h c (List.mem_of_mem_drop hc)

/-- the mantissa value is unchanged by stripping the trailing zeros of the fraction -/
theorem mantissa_strip (ip fp : Str) :
    ((digitsVal (ip ++ stripZeros fp) : Nat) : ℚ) / ((10 ^ (stripZeros fp).length : Nat) : ℚ)
      = ((digitsVal (ip ++ fp) : Nat) : ℚ) / ((10 ^ fp.length : Nat) : ℚ) := by
  obtain ⟨k, hk⟩ := stripZeros_spec fp
  conv => rhs; rw [hk, ← List.append_assoc, digitsVal_zeros_right]
  simp only [List.length_append, List.length_replicate, pow_add]
  push_cast
  have h1 : (10 : ℚ) ^ k ≠ 0 := by positivity
  have h2 : (10 : ℚ) ^ (stripZeros fp).length ≠ 0 := by positivity
  field_simp

theorem mkValue_plain (neg : Bool) (ip fp : Str) :
    mkValue neg ip fp false [] = (if neg then -1 else 1) * (((digitsVal (ip ++ fp) : Nat) : ℚ) / ((10 ^ fp.length : Nat) : ℚ)) := by
  unfold mkValue
  simp only [Bool.false_eq_true, if_false, digitsVal, List.foldl_nil, Int.natCast_zero]
  rw [pow10_eq_zpow]
  cases neg <;> simp

theorem mkValue_exp (neg : Bool) (ip fp : Str) (eneg : Bool) (eds : Str) :
    mkValue neg ip fp eneg eds = (if neg then -1 else 1) * (((digitsVal (ip ++ fp) : Nat) : ℚ) / ((10 ^ fp.length : Nat) : ℚ))
      * (10 : ℚ) ^ (if eneg then - (digitsVal eds : Int) else (digitsVal eds : Int)) := by
  unfold mkValue
  simp only [pow10_eq_zpow]
  cases neg <;> simp


/-! ### the parts written by `fmtParts` -/

theorem natDigits_all (n : Nat) : AllDigits (natDigits n) := (natDigits_spec n).1
theorem natDigits_ne (n : Nat) : natDigits n ≠ [] := (natDigits_spec n).2.1
theorem natDigits_val (n : Nat) : digitsVal (natDigits n) = n := (natDigits_spec n).2.2

theorem take_one_ne_nil {l : Str} (h : l ≠ []) : l.take 1 ≠ [] := by
  cases l with
  | nil => exact absurd rfl h
  | cons a r => simp

/-- the numeral is in the strict decimal grammar, whatever the number -/
theorem fmtParts_wf (prec : Nat) (neg : Bool) (a : ℚ) : (fmtParts prec neg a).WF := by
  unfold fmtParts
  simp only []
  split
  · refine ⟨?_, ?_, ?_, ?_, ?_⟩ <;> simp [AllDigits]; decide
  · generalize hP : (if (prec == 0) = true then 1 else prec) = P
    rcases hrs : roundSig P a with ⟨N, X⟩
    simp only []
    have hds := natDigits_all N
    have hne := natDigits_ne N
    split
    · -- scientific
      refine ⟨allDigits_take hds 1, allDigits_stripZeros (allDigits_drop hds 1), Or.inl (take_one_ne_nil hne), ?_, ?_⟩
      · intro h
        simpa using h
      · refine ⟨?_, ?_, ?_⟩
        · split <;> simp
        · split
          · intro c hc
            rcases List.mem_cons.mp hc with rfl | hc
            · decide
            · exact natDigits_all _ c hc
          · exact natDigits_all _
        · split
          · simp
          · exact natDigits_ne _
    · split
      · refine ⟨allDigits_take hds _, allDigits_stripZeros (allDigits_drop hds _), Or.inl ?_, ?_, trivial⟩
        · cases h : natDigits N with
          | nil => exact absurd h hne
          | cons x r => simp
        · intro h; simpa using h
      · refine ⟨by intro c hc; simp at hc; subst hc; decide,
          allDigits_stripZeros (allDigits_append (allDigits_zeros _) hds), Or.inl (by simp), ?_, trivial⟩
        intro h; simpa using h

theorem zpow_neg_nat (n : Nat) : (10 : ℚ) ^ (-(n : Int)) = 1 / (10 : ℚ) ^ n := by
  rw [zpow_neg, zpow_natCast, one_div]

/-- **the value the grammar assigns to the numeral is the rounded value** -/
theorem fmtParts_value (prec : Nat) (neg : Bool) (a : ℚ) (hok : digitsOk prec a = true) :
    (fmtParts prec neg a).value = roundedValue prec neg a := by
  unfold fmtParts roundedValue digitsOk at *
  simp only [] at *
  by_cases ha : (a == 0) = true
  · simp only [ha, if_true, DecParts.value]
    rw [mkValue_plain]
    simp [digitsVal, digitVal]
  · simp only [ha, Bool.false_eq_true, if_false, Bool.false_or, beq_iff_eq] at hok ⊢
    generalize hP : (if prec = 0 then 1 else prec) = P at hok ⊢
    have hP1 : 1 ≤ P := by
      rw [← hP]; split <;> omega
    rcases hrs : roundSig P a with ⟨N, X⟩
    rw [hrs] at hok
    simp only [] at hok ⊢
    have hN := natDigits_val N
    have hsplit : ∀ k, digitsVal ((natDigits N).take k ++ (natDigits N).drop k) = N := by
      intro k; rw [List.take_append_drop]; exact hN
    rw [pow10_eq_zpow]
    have h10 : (10 : ℚ) ≠ 0 := by norm_num
    split
    · -- scientific notation
      rename_i hsci
      simp only [DecParts.value]
      rw [mkValue_exp, mantissa_strip, hsplit 1]
      have hlen : ((natDigits N).drop 1).length = P - 1 := by simp [hok]
      rw [hlen]
      -- the exponent digits denote |X|
      have he : digitsVal (if (natDigits X.natAbs).length < 2 then '0' :: natDigits X.natAbs else natDigits X.natAbs)
          = X.natAbs := by
        split
        · have := digitsVal_zeros_left 1 (natDigits X.natAbs)
          simp only [List.replicate_one, List.singleton_append] at this
          rw [this, natDigits_val]
        · exact natDigits_val _
      rw [he]
      have hx : (if (some (if X < 0 then '-' else '+') == some '-') = true then -(X.natAbs : Int) else (X.natAbs : Int)) = X := by
        by_cases hneg : X < 0
        · simp only [hneg, if_true, beq_self_eq_true]; omega
        · simp only [hneg, if_false]
          have : (some '+' == some '-') = false := by decide
          simp only [this, Bool.false_eq_true, if_false]; omega
      rw [hx]
      have e : X - ((P : Int) - 1) = X + (-((P - 1 : Nat) : Int)) := by omega
      rw [e, zpow_add₀ h10, zpow_neg_nat]
      push_cast
      cases neg <;> simp <;> ring
    · rename_i hfix
      have hX1 : -4 ≤ X := by
        by_contra hh; exact hfix (by simp; left; omega)
      have hX2 : X < (P : Int) := by
        by_contra hh; exact hfix (by simp; right; omega)
      split
      · rename_i hpos
        simp only [DecParts.value]
        rw [mkValue_plain, mantissa_strip, hsplit]
        have hlen : ((natDigits N).drop (X.toNat + 1)).length = P - (X.toNat + 1) := by simp [hok]
        rw [hlen]
        have e : X - ((P : Int) - 1) = -((P - (X.toNat + 1) : Nat) : Int) := by omega
        rw [e, zpow_neg_nat]
        push_cast
        cases neg <;> simp <;> ring
      · rename_i hnp
        simp only [DecParts.value]
        rw [mkValue_plain, mantissa_strip]
        have hz : digitsVal (['0'] ++ (List.replicate ((-X).toNat - 1) '0' ++ natDigits N)) = N := by
          have := digitsVal_zeros_left ((-X).toNat - 1 + 1) (natDigits N)
          rw [List.replicate_succ, List.cons_append] at this
          rw [List.singleton_append, this, hN]
        rw [hz]
        have hlen : (List.replicate ((-X).toNat - 1) '0' ++ natDigits N).length = (-X).toNat - 1 + P := by
          simp [hok]
        rw [hlen]
        have e : X - ((P : Int) - 1) = -(((-X).toNat - 1 + P : Nat) : Int) := by omega
        rw [e, zpow_neg_nat]
        push_cast
        cases neg <;> simp <;> ring

end Bpp.Text.NumFmt
