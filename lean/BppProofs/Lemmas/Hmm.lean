import BppModel.Hmm
import BppProofs.Lemmas.ScalarReal
import Mathlib.Algebra.BigOperators.Ring.Finset
import Mathlib.Algebra.BigOperators.Field
import Mathlib.Algebra.Order.BigOperators.Group.Finset
/-!
Helper lemmas for C13 (HMM likelihoods): the list-level program text of `BppModel/Hmm.lean`
read at `ℝ` as finite sums over `Finset.range n`.
-/
namespace Bpp.Hmm
open Bpp Finset

section Generic
variable {α : Type}

theorem sumL_append_singleton [Scalar α] (l : List α) (a : α) : sumL (l ++ [a]) = sumL l + a := by
  simp [sumL, List.foldl_append]

theorem vec_succ (n : Nat) (g : Nat → α) : vec (n + 1) g = vec n g ++ [g n] := by
  simp [vec, List.range_succ]

@[simp] theorem vec_length (n : Nat) (g : Nat → α) : (vec n g).length = n := by simp [vec]

theorem zipWith_vec {β γ : Type} (f : α → β → γ) (n : Nat) (a : Nat → α) (b : Nat → β) :
    List.zipWith f ((List.range n).map a) ((List.range n).map b) = (List.range n).map (fun i => f (a i) (b i)) := by
  simp [List.zipWith_map]

theorem map_vec (f : α → α) (n : Nat) (g : Nat → α) : (vec n g).map f = vec n (fun i => f (g i)) := by
  simp [vec, List.map_map, Function.comp_def]
end Generic

/-! ### at ℝ -/

@[simp] theorem add_eq (x y : ℝ) : @HAdd.hAdd ℝ ℝ ℝ (@instHAdd ℝ Scalar.toAdd) x y = x + y := rfl
@[simp] theorem mul_eq (x y : ℝ) : @HMul.hMul ℝ ℝ ℝ (@instHMul ℝ Scalar.toMul) x y = x * y := rfl
@[simp] theorem div_eq (x y : ℝ) : @HDiv.hDiv ℝ ℝ ℝ (@instHDiv ℝ Scalar.toDiv) x y = x / y := rfl
@[simp] theorem sub_eq (x y : ℝ) : @HSub.hSub ℝ ℝ ℝ (@instHSub ℝ Scalar.toSub) x y = x - y := rfl

theorem sumL_vec (n : Nat) (g : Nat → ℝ) : sumL (vec n g) = ∑ i ∈ range n, g i := by
  induction n with
  | zero => simp [sumL, vec]
  | succ n ih => rw [vec_succ, sumL_append_singleton, ih, sum_range_succ]

theorem dot_vec (n : Nat) (a b : Nat → ℝ) : dot (vec n a) (vec n b) = ∑ i ∈ range n, a i * b i := by
  unfold dot vec
  rw [zipWith_vec]
  exact sumL_vec n _


theorem foldl_add_eq (l : List ℝ) (a : ℝ) : l.foldl (fun x a => x + a) a = a + l.sum := by
  induction l generalizing a with
  | nil => simp
  | cons x xs ih => simp [List.foldl_cons, ih, add_assoc]

theorem sumL_eq_sum (l : List ℝ) : sumL l = l.sum := by
  unfold sumL; rw [ScalarReal.zero_eq]
  have := foldl_add_eq l 0
  simpa using this

theorem sum_map_range (n : Nat) (g : Nat → ℝ) : ((List.range n).map g).sum = ∑ i ∈ range n, g i := by
  rw [← sumL_eq_sum]; exact sumL_vec n g

theorem sum_map_flatMap {β γ : Type} (L : List β) (f : β → List γ) (g : γ → ℝ) :
    ((L.flatMap f).map g).sum = (L.map (fun y => ((f y).map g).sum)).sum := by
  induction L with
  | nil => simp
  | cons x xs ih => simp [List.flatMap_cons, ih]

/-! ### sum over hidden paths -/

/-- sum over all continuations of a path that is in state `prev` before `sites` -/
noncomputable def tailSum (p : Params ℝ) (prev : Nat) (sites : List (Site ℝ)) : ℝ :=
  ((allPaths p.n sites.length).map (pathW p prev sites)).sum

theorem tailSum_nil (p : Params ℝ) (prev : Nat) : tailSum p prev [] = 1 := by
  simp [tailSum, allPaths, pathW]

theorem tailSum_cons (p : Params ℝ) (prev : Nat) (b : Bool) (e : Emis ℝ) (rest : List (Site ℝ)) :
    tailSum p prev ((b, e) :: rest)
      = ∑ y ∈ range p.n, (if b then initW p y else p.P prev y) * e y * tailSum p y rest := by
  unfold tailSum
  simp only [List.length_cons, allPaths]
  rw [sum_map_flatMap, sum_map_range]
  apply Finset.sum_congr rfl
  intro y _
  rw [List.map_map]
  have : (pathW p prev ((b, e) :: rest) ∘ fun ys => y :: ys)
      = fun ys => ((if b then initW p y else p.P prev y) * e y) * pathW p y rest ys := by
    funext ys; simp [pathW]
  rw [this, List.sum_map_mul_left]

theorem pathSum_eq_tailSum (p : Params ℝ) (e0 : Emis ℝ) (sites : List (Site ℝ)) :
    pathSum p e0 sites = tailSum p 0 ((true, e0) :: sites) := by
  unfold pathSum tailSum; rw [sumL_eq_sum]; simp

theorem initW_eq (p : Params ℝ) (y : Nat) : initW p y = ∑ k ∈ range p.n, p.P k y * p.pi k := by
  unfold initW col piL; exact dot_vec _ _ _

theorem restartTmp_eq (p : Params ℝ) (e : Emis ℝ) : restartTmp p e = vec p.n (fun j => e j * initW p j) := rfl

theorem fwdULoop_eq (p : Params ℝ) (rest : List (Site ℝ)) (acc : ℝ) (g : Nat → ℝ) :
    fwdULoop p rest acc (vec p.n g) = acc * ∑ y ∈ range p.n, g y * tailSum p y rest := by
  induction rest generalizing acc g with
  | nil => simp [fwdULoop, tailSum_nil, sumL_vec]
  | cons s rest ih =>
    obtain ⟨b, e⟩ := s
    cases b with
    | true =>
      simp only [fwdULoop, if_true]
      rw [restartTmp_eq, ih, sumL_vec]
      have h : ∀ y, tailSum p y ((true, e) :: rest) = ∑ y' ∈ range p.n, initW p y' * e y' * tailSum p y' rest := by
        intro y; rw [tailSum_cons]; simp
      simp only [h]
      rw [← Finset.sum_mul, mul_assoc]
      congr 1; congr 1
      apply Finset.sum_congr rfl; intro y _; ring
    | false =>
      simp only [fwdULoop, Bool.false_eq_true, if_false]
      have hv : (vec p.n fun j => e j * dot (col p j) (vec p.n g)) = vec p.n (fun j => e j * ∑ k ∈ range p.n, p.P k j * g k) := by
        unfold col; simp only [dot_vec]
      rw [hv, ih]
      congr 1
      simp only [tailSum_cons, Bool.false_eq_true, if_false]
      simp only [Finset.mul_sum, Finset.sum_mul]
      rw [Finset.sum_comm]
      apply Finset.sum_congr rfl; intro k _
      apply Finset.sum_congr rfl; intro j _
      ring

theorem fwdU_eq_pathSum (p : Params ℝ) (e0 : Emis ℝ) (sites : List (Site ℝ)) :
    fwdU p e0 sites = pathSum p e0 sites := by
  rw [pathSum_eq_tailSum, tailSum_cons]
  unfold fwdU
  rw [restartTmp_eq, fwdULoop_eq, ScalarReal.one_eq, one_mul]
  apply Finset.sum_congr rfl; intro y _; simp only [if_true]; ring

/-! ### rescaled forward recursion -/

theorem vec_congr {α : Type} (n : Nat) (g g' : Nat → α) (h : ∀ j, j < n → g j = g' j) : vec n g = vec n g' := by
  unfold vec; apply List.map_congr_left; intro j hj; exact h j (List.mem_range.mp hj)

theorem clip_of_nonneg (x : ℝ) (h : 0 ≤ x) : clip x = x := by
  unfold clip; simp [not_lt.mpr h]

/-- the normalised vector, as a function -/
noncomputable def normF (t : Nat → ℝ) (s : ℝ) : Nat → ℝ := fun j => if 0 < s then t j / s else 0

theorem normalize_vec (n : Nat) (t : Nat → ℝ) (s : ℝ) : normalize (vec n t) s = vec n (normF t s) := by
  unfold normalize; rw [map_vec]; apply vec_congr; intro j _; simp [normF]

theorem normF_nonneg (t : Nat → ℝ) (s : ℝ) (n : Nat) (ht : ∀ j, j < n → 0 ≤ t j) : ∀ j, j < n → 0 ≤ normF t s j := by
  intro j hj; unfold normF; split
  · exact div_nonneg (ht j hj) (le_of_lt ‹_›)
  · exact le_refl _

/-- `tmp = scale • normalised`, also when the scale is zero (all entries are then zero) -/
theorem normF_spec (n : Nat) (t : Nat → ℝ) (ht : ∀ j, j < n → 0 ≤ t j) :
    (∀ j, j < n → t j = (∑ i ∈ range n, t i) * normF t (∑ i ∈ range n, t i) j)
    ∧ (∑ i ∈ range n, t i) * (∑ j ∈ range n, normF t (∑ i ∈ range n, t i) j) = ∑ i ∈ range n, t i := by
  set s := ∑ i ∈ range n, t i with hs
  have hs0 : 0 ≤ s := Finset.sum_nonneg (fun i hi => ht i (Finset.mem_range.mp hi))
  by_cases hpos : 0 < s
  · constructor
    · intro j _; simp only [normF, hpos, if_true]; field_simp
    · simp only [normF, hpos, if_true]
      rw [← Finset.sum_div, ← hs]; field_simp
  · have hz : s = 0 := le_antisymm (not_lt.mp hpos) hs0
    have hall : ∀ j, j < n → t j = 0 := by
      intro j hj
      have := (Finset.sum_eq_zero_iff_of_nonneg (fun i hi => ht i (Finset.mem_range.mp hi))).mp (hs ▸ hz)
      exact this j (Finset.mem_range.mpr hj)
    constructor
    · intro j hj; rw [hall j hj, hz]; simp
    · rw [hz]; simp

def NonNegP (p : Params ℝ) : Prop := (∀ i j, 0 ≤ p.P i j) ∧ (∀ k, 0 ≤ p.pi k)
def NonNegE (e : Emis ℝ) : Prop := ∀ j, 0 ≤ e j
def NonNegS (sites : List (Site ℝ)) : Prop := ∀ s ∈ sites, NonNegE s.2

theorem initW_nonneg (p : Params ℝ) (hp : NonNegP p) (y : Nat) : 0 ≤ initW p y := by
  rw [initW_eq]; exact Finset.sum_nonneg (fun k _ => mul_nonneg (hp.1 k y) (hp.2 k))

/-- `tmp` of a normal step, as a function of the previous (normalised) vector -/
noncomputable def stepF (p : Params ℝ) (e : Emis ℝ) (g : Nat → ℝ) : Nat → ℝ :=
  fun j => e j * ∑ k ∈ range p.n, p.P k j * g k
noncomputable def restartF (p : Params ℝ) (e : Emis ℝ) : Nat → ℝ := fun j => e j * initW p j

theorem stepF_nonneg (p : Params ℝ) (hp : NonNegP p) (e : Emis ℝ) (he : NonNegE e) (g : Nat → ℝ)
    (hg : ∀ j, j < p.n → 0 ≤ g j) : ∀ j, 0 ≤ stepF p e g j := by
  intro j; unfold stepF
  exact mul_nonneg (he j) (Finset.sum_nonneg (fun k hk => mul_nonneg (hp.1 k j) (hg k (Finset.mem_range.mp hk))))

theorem restartF_nonneg (p : Params ℝ) (hp : NonNegP p) (e : Emis ℝ) (he : NonNegE e) : ∀ j, 0 ≤ restartF p e j :=
  fun j => mul_nonneg (he j) (initW_nonneg p hp j)

theorem rescTmp_true (p : Params ℝ) (e : Emis ℝ) (prev : List ℝ) : rescTmp p true e prev = vec p.n (restartF p e) := rfl

theorem rescTmp_false (p : Params ℝ) (hp : NonNegP p) (e : Emis ℝ) (he : NonNegE e) (g : Nat → ℝ)
    (hg : ∀ j, j < p.n → 0 ≤ g j) : rescTmp p false e (vec p.n g) = vec p.n (stepF p e g) := by
  simp only [rescTmp, Bool.false_eq_true, if_false]
  apply vec_congr; intro j _
  unfold col; rw [dot_vec]
  exact clip_of_nonneg _ (stepF_nonneg p hp e he g hg j)

/-- product of the scale factors produced by the loop -/
noncomputable def prodScales (l : List (List ℝ × ℝ)) : ℝ := (l.map (·.2)).prod

theorem rescLoop_cons_true (p : Params ℝ) (e : Emis ℝ) (rest : List (Site ℝ)) (prev : List ℝ) :
    rescLoop p ((true, e) :: rest) prev
      = (vec p.n (normF (restartF p e) (∑ i ∈ range p.n, restartF p e i)), ∑ i ∈ range p.n, restartF p e i)
        :: rescLoop p rest (vec p.n (normF (restartF p e) (∑ i ∈ range p.n, restartF p e i))) := by
  simp only [rescLoop, rescTmp_true, sumL_vec, normalize_vec]

theorem rescLoop_cons_false (p : Params ℝ) (hp : NonNegP p) (e : Emis ℝ) (he : NonNegE e) (rest : List (Site ℝ))
    (g : Nat → ℝ) (hg : ∀ j, j < p.n → 0 ≤ g j) :
    rescLoop p ((false, e) :: rest) (vec p.n g)
      = (vec p.n (normF (stepF p e g) (∑ i ∈ range p.n, stepF p e g i)), ∑ i ∈ range p.n, stepF p e g i)
        :: rescLoop p rest (vec p.n (normF (stepF p e g) (∑ i ∈ range p.n, stepF p e g i))) := by
  simp only [rescLoop, rescTmp_false p hp e he g hg, sumL_vec, normalize_vec]

/-- **Key invariant of rescaling**: if the unscaled vector is `K •` the scaled one (and `K = 0` or
the scaled one sums to 1), the unscaled recursion over the remaining sites equals `K ·` the product
of the remaining scale factors. -/
theorem fwdULoop_eq_prodScales (p : Params ℝ) (hp : NonNegP p) (rest : List (Site ℝ)) (hs : NonNegS rest)
    (acc K : ℝ) (g gh : Nat → ℝ) (hgh : ∀ j, j < p.n → 0 ≤ gh j)
    (hg : ∀ j, j < p.n → g j = K * gh j) (hK : K * ∑ j ∈ range p.n, gh j = K) :
    fwdULoop p rest acc (vec p.n g) = acc * K * prodScales (rescLoop p rest (vec p.n gh)) := by
  induction rest generalizing acc K g gh with
  | nil =>
    have : ∑ j ∈ range p.n, g j = K := by
      rw [Finset.sum_congr rfl (fun j hj => hg j (Finset.mem_range.mp hj)), ← Finset.mul_sum, hK]
    simp [fwdULoop, rescLoop, prodScales, sumL_vec, this]
  | cons s rest ih =>
    obtain ⟨b, e⟩ := s
    have he : NonNegE e := hs (b, e) (List.mem_cons_self)
    have hs' : NonNegS rest := fun s hs'' => hs s (List.mem_cons_of_mem _ hs'')
    have hsum : ∑ j ∈ range p.n, g j = K := by
      rw [Finset.sum_congr rfl (fun j hj => hg j (Finset.mem_range.mp hj)), ← Finset.mul_sum, hK]
    cases b with
    | true =>
      have ht := restartF_nonneg p hp e he
      obtain ⟨h1, h2⟩ := normF_spec p.n (restartF p e) (fun j _ => ht j)
      rw [rescLoop_cons_true]
      simp only [fwdULoop, if_true]
      rw [show restartTmp p e = vec p.n (restartF p e) from rfl]
      rw [ih hs' (acc * sumL (vec p.n g)) _ (restartF p e) _ (normF_nonneg _ _ p.n (fun j _ => ht j)) h1 h2]
      simp only [prodScales, List.map_cons, List.prod_cons, sumL_vec, hsum]
      ring
    | false =>
      have ht := stepF_nonneg p hp e he gh hgh
      obtain ⟨h1, h2⟩ := normF_spec p.n (stepF p e gh) (fun j _ => ht j)
      rw [rescLoop_cons_false p hp e he rest gh hgh]
      simp only [fwdULoop, Bool.false_eq_true, if_false]
      have hv : (vec p.n fun j => e j * dot (col p j) (vec p.n g)) = vec p.n (fun j => K * stepF p e gh j) := by
        apply vec_congr; intro j _
        unfold col; rw [dot_vec]; unfold stepF
        rw [Finset.sum_congr rfl (fun k hk => by rw [hg k (Finset.mem_range.mp hk)])]
        rw [Finset.mul_sum, Finset.mul_sum, Finset.mul_sum]
        apply Finset.sum_congr rfl; intro k _; ring
      rw [hv]
      rw [ih hs' acc (K * ∑ i ∈ range p.n, stepF p e gh i) _ _ (normF_nonneg _ _ p.n (fun j _ => ht j))
        (fun j hj => by rw [mul_assoc, ← h1 j hj]) (by rw [mul_assoc, h2])]
      simp only [prodScales, List.map_cons, List.prod_cons]
      ring

theorem scales_prod_eq_fwdU (p : Params ℝ) (hp : NonNegP p) (e0 : Emis ℝ) (he0 : NonNegE e0)
    (sites : List (Site ℝ)) (hs : NonNegS sites) :
    (rescForward p e0 sites).scales.prod = fwdU p e0 sites := by
  have ht := restartF_nonneg p hp e0 he0
  obtain ⟨h1, h2⟩ := normF_spec p.n (restartF p e0) (fun j _ => ht j)
  unfold rescForward fwdU
  simp only [rescLoop_cons_true, List.map_cons, List.prod_cons]
  rw [show restartTmp p e0 = vec p.n (restartF p e0) from rfl]
  rw [fwdULoop_eq_prodScales p hp sites hs _ _ (restartF p e0) _ (normF_nonneg _ _ p.n (fun j _ => ht j)) h1 h2]
  simp [prodScales]

/-- all scale factors are non-negative -/
theorem rescLoop_scales_nonneg (p : Params ℝ) (hp : NonNegP p) (rest : List (Site ℝ)) (hs : NonNegS rest)
    (gh : Nat → ℝ) (hgh : ∀ j, j < p.n → 0 ≤ gh j) :
    ∀ x ∈ rescLoop p rest (vec p.n gh), 0 ≤ x.2 := by
  induction rest generalizing gh with
  | nil => simp [rescLoop]
  | cons s rest ih =>
    obtain ⟨b, e⟩ := s
    have he : NonNegE e := hs (b, e) (List.mem_cons_self)
    have hs' : NonNegS rest := fun s hs'' => hs s (List.mem_cons_of_mem _ hs'')
    cases b with
    | true =>
      have ht := restartF_nonneg p hp e he
      rw [rescLoop_cons_true]
      intro x hx
      rcases List.mem_cons.mp hx with rfl | hx
      · exact Finset.sum_nonneg (s := range p.n) (fun i _ => ht i)
      · exact ih hs' _ (normF_nonneg _ _ p.n (fun j _ => ht j)) x hx
    | false =>
      have ht := stepF_nonneg p hp e he gh hgh
      rw [rescLoop_cons_false p hp e he rest gh hgh]
      intro x hx
      rcases List.mem_cons.mp hx with rfl | hx
      · exact Finset.sum_nonneg (s := range p.n) (fun i _ => ht i)
      · exact ih hs' _ (normF_nonneg _ _ p.n (fun j _ => ht j)) x hx

/-! ### sorting before summing -/

theorem sumL_sortDesc (l : List ℝ) : sumL (sortDesc l) = l.sum := by
  rw [sumL_eq_sum]; exact (List.mergeSort_perm l _).sum_eq

theorem exp_sum_log (l : List ℝ) (h : ∀ c ∈ l, 0 < c) : Real.exp ((l.map Real.log).sum) = l.prod := by
  induction l with
  | nil => simp
  | cons c cs ih =>
    have hc : 0 < c := h c (List.mem_cons_self)
    simp only [List.map_cons, List.sum_cons, List.prod_cons, Real.exp_add, Real.exp_log hc]
    rw [ih (fun x hx => h x (List.mem_cons_of_mem _ hx))]

end Bpp.Hmm
