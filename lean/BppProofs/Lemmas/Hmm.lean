import BppModel.Hmm
import BppProofs.Lemmas.ScalarReal
import Mathlib.Algebra.BigOperators.Ring.Finset
import Mathlib.Algebra.BigOperators.Field
import Mathlib.Algebra.Order.BigOperators.Group.Finset
/-!
Helper lemmas for C13 (HMM likelihoods): the list-level program text of `BppModel/Hmm.lean`
read at `ℝ` as finite sums over `Finset.range n`.
-/
namespace Bpp.Hmm
open Bpp Finset

/-- the real numbers have no infinite element -/
instance : HasIsInf ℝ := ⟨fun _ => false⟩

section Generic
variable {α : Type}

theorem sumL_append_singleton [Scalar α] (l : List α) (a : α) : sumL (l ++ [a]) = sumL l + a := by
  simp [sumL, List.foldl_append]

theorem vec_succ (n : Nat) (g : Nat → α) : vec (n + 1) g = vec n g ++ [g n] := by
  simp [vec, List.range_succ]

@[simp] theorem vec_length (n : Nat) (g : Nat → α) : (vec n g).length = n := by simp [vec]

theorem zipWith_vec {β γ : Type} (f : α → β → γ) (n : Nat) (a : Nat → α) (b : Nat → β) :
    List.zipWith f ((List.range n).map a) ((List.range n).map b) = (List.range n).map (fun i => f (a i) (b i)) := by
  simp [List.zipWith_map]

theorem map_vec (f : α → α) (n : Nat) (g : Nat → α) : (vec n g).map f = vec n (fun i => f (g i)) := by
  simp [vec, List.map_map, Function.comp_def]
end Generic

/-! ### at ℝ -/

@[simp] theorem add_eq (x y : ℝ) : @HAdd.hAdd ℝ ℝ ℝ (@instHAdd ℝ Scalar.toAdd) x y = x + y := rfl
@[simp] theorem mul_eq (x y : ℝ) : @HMul.hMul ℝ ℝ ℝ (@instHMul ℝ Scalar.toMul) x y = x * y := rfl
@[simp] theorem div_eq (x y : ℝ) : @HDiv.hDiv ℝ ℝ ℝ (@instHDiv ℝ Scalar.toDiv) x y = x / y := rfl
@[simp] theorem sub_eq (x y : ℝ) : @HSub.hSub ℝ ℝ ℝ (@instHSub ℝ Scalar.toSub) x y = x - y := rfl

theorem sumL_vec (n : Nat) (g : Nat → ℝ) : sumL (vec n g) = ∑ i ∈ range n, g i := by
  induction n with
  | zero => simp [sumL, vec]
  | succ n ih => rw [vec_succ, sumL_append_singleton, ih, sum_range_succ]

theorem dot_vec (n : Nat) (a b : Nat → ℝ) : dot (vec n a) (vec n b) = ∑ i ∈ range n, a i * b i := by
  unfold dot vec
  rw [zipWith_vec]
  exact sumL_vec n _


theorem foldl_add_eq (l : List ℝ) (a : ℝ) : l.foldl (fun x a => x + a) a = a + l.sum := by
  induction l generalizing a with
  | nil => simp
  | cons x xs ih => simp [List.foldl_cons, ih, add_assoc]

theorem sumL_eq_sum (l : List ℝ) : sumL l = l.sum := by
  unfold sumL; rw [ScalarReal.zero_eq]
  have := foldl_add_eq l 0
  simpa using this

theorem sum_map_range (n : Nat) (g : Nat → ℝ) : ((List.range n).map g).sum = ∑ i ∈ range n, g i := by
  rw [← sumL_eq_sum]; exact sumL_vec n g

theorem sum_map_flatMap {β γ : Type} (L : List β) (f : β → List γ) (g : γ → ℝ) :
    ((L.flatMap f).map g).sum = (L.map (fun y => ((f y).map g).sum)).sum := by
  induction L with
  | nil => simp
  | cons x xs ih => simp [List.flatMap_cons, ih]

/-! ### sum over hidden paths -/

/-- sum over all continuations of a path that is in state `prev` before `sites` -/
noncomputable def tailSum (p : Params ℝ) (prev : Nat) (sites : List (Site ℝ)) : ℝ :=
  ((allPaths p.n sites.length).map (pathW p prev sites)).sum

theorem tailSum_nil (p : Params ℝ) (prev : Nat) : tailSum p prev [] = 1 := by
  simp [tailSum, allPaths, pathW]

theorem tailSum_cons (p : Params ℝ) (prev : Nat) (b : Bool) (e : Emis ℝ) (rest : List (Site ℝ)) :
    tailSum p prev ((b, e) :: rest)
      = ∑ y ∈ range p.n, (if b then initW p y else p.P prev y) * e y * tailSum p y rest := by
  unfold tailSum
  simp only [List.length_cons, allPaths]
  rw [sum_map_flatMap, sum_map_range]
  apply Finset.sum_congr rfl
  intro y _
  rw [List.map_map]
  have : (pathW p prev ((b, e) :: rest) ∘ fun ys => y :: ys)
      = fun ys => ((if b then initW p y else p.P prev y) * e y) * pathW p y rest ys := by
    funext ys; simp [pathW]
  rw [this, List.sum_map_mul_left]

theorem pathSum_eq_tailSum (p : Params ℝ) (e0 : Emis ℝ) (sites : List (Site ℝ)) :
    pathSum p e0 sites = tailSum p 0 ((true, e0) :: sites) := by
  unfold pathSum tailSum; rw [sumL_eq_sum]; simp

theorem initW_eq (p : Params ℝ) (y : Nat) : initW p y = ∑ k ∈ range p.n, p.P k y * p.pi k := by
  unfold initW col piL; exact dot_vec _ _ _

theorem restartTmp_eq (p : Params ℝ) (e : Emis ℝ) : restartTmp p e = vec p.n (fun j => e j * initW p j) := rfl

theorem fwdULoop_eq (p : Params ℝ) (rest : List (Site ℝ)) (acc : ℝ) (g : Nat → ℝ) :
    fwdULoop p rest acc (vec p.n g) = acc * ∑ y ∈ range p.n, g y * tailSum p y rest := by
  induction rest generalizing acc g with
  | nil => simp [fwdULoop, tailSum_nil, sumL_vec]
  | cons s rest ih =>
    obtain ⟨b, e⟩ := s
    cases b with
    | true =>
      simp only [fwdULoop, if_true]
      rw [restartTmp_eq, ih, sumL_vec]
      have h : ∀ y, tailSum p y ((true, e) :: rest) = ∑ y' ∈ range p.n, initW p y' * e y' * tailSum p y' rest := by
        intro y; rw [tailSum_cons]; simp
      simp only [h]
      rw [← Finset.sum_mul, mul_assoc]
      congr 1; congr 1
      apply Finset.sum_congr rfl; intro y _; ring
    | false =>
      simp only [fwdULoop, Bool.false_eq_true, if_false]
      have hv : (vec p.n fun j => e j * dot (col p j) (vec p.n g)) = vec p.n (fun j => e j * ∑ k ∈ range p.n, p.P k j * g k) := by
        unfold col; simp only [dot_vec]
      rw [hv, ih]
      congr 1
      simp only [tailSum_cons, Bool.false_eq_true, if_false]
      simp only [Finset.mul_sum, Finset.sum_mul]
      rw [Finset.sum_comm]
      apply Finset.sum_congr rfl; intro k _
      apply Finset.sum_congr rfl; intro j _
      ring

theorem fwdU_eq_pathSum (p : Params ℝ) (e0 : Emis ℝ) (sites : List (Site ℝ)) :
    fwdU p e0 sites = pathSum p e0 sites := by
  rw [pathSum_eq_tailSum, tailSum_cons]
  unfold fwdU
  rw [restartTmp_eq, fwdULoop_eq, ScalarReal.one_eq, one_mul]
  apply Finset.sum_congr rfl; intro y _; simp only [if_true]; ring

/-! ### rescaled forward recursion -/

theorem vec_congr {α : Type} (n : Nat) (g g' : Nat → α) (h : ∀ j, j < n → g j = g' j) : vec n g = vec n g' := by
  unfold vec; apply List.map_congr_left; intro j hj; exact h j (List.mem_range.mp hj)

theorem clip_of_nonneg (x : ℝ) (h : 0 ≤ x) : clip x = x := by
  unfold clip; simp [not_lt.mpr h]

/-- the normalised vector, as a function -/
noncomputable def normF (t : Nat → ℝ) (s : ℝ) : Nat → ℝ := fun j => if 0 < s then t j / s else 0

theorem normalize_vec (n : Nat) (t : Nat → ℝ) (s : ℝ) : normalize (vec n t) s = vec n (normF t s) := by
  unfold normalize; rw [map_vec]; apply vec_congr; intro j _; simp [normF]

theorem normF_nonneg (t : Nat → ℝ) (s : ℝ) (n : Nat) (ht : ∀ j, j < n → 0 ≤ t j) : ∀ j, j < n → 0 ≤ normF t s j := by
  intro j hj; unfold normF; split
  · exact div_nonneg (ht j hj) (le_of_lt ‹_›)
  · exact le_refl _

/-- `tmp = scale • normalised`, also when the scale is zero (all entries are then zero) -/
theorem normF_spec (n : Nat) (t : Nat → ℝ) (ht : ∀ j, j < n → 0 ≤ t j) :
    (∀ j, j < n → t j = (∑ i ∈ range n, t i) * normF t (∑ i ∈ range n, t i) j)
    ∧ (∑ i ∈ range n, t i) * (∑ j ∈ range n, normF t (∑ i ∈ range n, t i) j) = ∑ i ∈ range n, t i := by
  set s := ∑ i ∈ range n, t i with hs
  have hs0 : 0 ≤ s := Finset.sum_nonneg (fun i hi => ht i (Finset.mem_range.mp hi))
  by_cases hpos : 0 < s
  · constructor
    · intro j _; simp only [normF, hpos, if_true]; field_simp
    · simp only [normF, hpos, if_true]
      rw [← Finset.sum_div, ← hs]; field_simp
  · have hz : s = 0 := le_antisymm (not_lt.mp hpos) hs0
    have hall : ∀ j, j < n → t j = 0 := by
      intro j hj
      have := (Finset.sum_eq_zero_iff_of_nonneg (fun i hi => ht i (Finset.mem_range.mp hi))).mp (hs ▸ hz)
      exact this j (Finset.mem_range.mpr hj)
    constructor
    · intro j hj; rw [hall j hj, hz]; simp
    · rw [hz]; simp

def NonNegP (p : Params ℝ) : Prop := (∀ i j, 0 ≤ p.P i j) ∧ (∀ k, 0 ≤ p.pi k)
def NonNegE (e : Emis ℝ) : Prop := ∀ j, 0 ≤ e j
def NonNegS (sites : List (Site ℝ)) : Prop := ∀ s ∈ sites, NonNegE s.2

theorem initW_nonneg (p : Params ℝ) (hp : NonNegP p) (y : Nat) : 0 ≤ initW p y := by
  rw [initW_eq]; exact Finset.sum_nonneg (fun k _ => mul_nonneg (hp.1 k y) (hp.2 k))

/-- `tmp` of a normal step, as a function of the previous (normalised) vector -/
noncomputable def stepF (p : Params ℝ) (e : Emis ℝ) (g : Nat → ℝ) : Nat → ℝ :=
  fun j => e j * ∑ k ∈ range p.n, p.P k j * g k
noncomputable def restartF (p : Params ℝ) (e : Emis ℝ) : Nat → ℝ := fun j => e j * initW p j

theorem stepF_nonneg (p : Params ℝ) (hp : NonNegP p) (e : Emis ℝ) (he : NonNegE e) (g : Nat → ℝ)
    (hg : ∀ j, j < p.n → 0 ≤ g j) : ∀ j, 0 ≤ stepF p e g j := by
  intro j; unfold stepF
  exact mul_nonneg (he j) (Finset.sum_nonneg (fun k hk => mul_nonneg (hp.1 k j) (hg k (Finset.mem_range.mp hk))))

theorem restartF_nonneg (p : Params ℝ) (hp : NonNegP p) (e : Emis ℝ) (he : NonNegE e) : ∀ j, 0 ≤ restartF p e j :=
  fun j => mul_nonneg (he j) (initW_nonneg p hp j)

theorem rescTmp_true (p : Params ℝ) (e : Emis ℝ) (prev : List ℝ) : rescTmp p true e prev = vec p.n (restartF p e) := rfl

theorem rescTmp_false (p : Params ℝ) (hp : NonNegP p) (e : Emis ℝ) (he : NonNegE e) (g : Nat → ℝ)
    (hg : ∀ j, j < p.n → 0 ≤ g j) : rescTmp p false e (vec p.n g) = vec p.n (stepF p e g) := by
  simp only [rescTmp, Bool.false_eq_true, if_false]
  apply vec_congr; intro j _
  unfold col; rw [dot_vec]
  exact clip_of_nonneg _ (stepF_nonneg p hp e he g hg j)

/-- product of the scale factors produced by the loop -/
noncomputable def prodScales (l : List (List ℝ × ℝ)) : ℝ := (l.map (·.2)).prod

theorem rescLoop_cons_true (p : Params ℝ) (e : Emis ℝ) (rest : List (Site ℝ)) (prev : List ℝ) :
    rescLoop p ((true, e) :: rest) prev
      = (vec p.n (normF (restartF p e) (∑ i ∈ range p.n, restartF p e i)), ∑ i ∈ range p.n, restartF p e i)
        :: rescLoop p rest (vec p.n (normF (restartF p e) (∑ i ∈ range p.n, restartF p e i))) := by
  simp only [rescLoop, rescTmp_true, sumL_vec, normalize_vec]

theorem rescLoop_cons_false (p : Params ℝ) (hp : NonNegP p) (e : Emis ℝ) (he : NonNegE e) (rest : List (Site ℝ))
    (g : Nat → ℝ) (hg : ∀ j, j < p.n → 0 ≤ g j) :
    rescLoop p ((false, e) :: rest) (vec p.n g)
      = (vec p.n (normF (stepF p e g) (∑ i ∈ range p.n, stepF p e g i)), ∑ i ∈ range p.n, stepF p e g i)
        :: rescLoop p rest (vec p.n (normF (stepF p e g) (∑ i ∈ range p.n, stepF p e g i))) := by
  simp only [rescLoop, rescTmp_false p hp e he g hg, sumL_vec, normalize_vec]

/-- **Key invariant of rescaling**: if the unscaled vector is `K •` the scaled one (and `K = 0` or
the scaled one sums to 1), the unscaled recursion over the remaining sites equals `K ·` the product
of the remaining scale factors. -/
theorem fwdULoop_eq_prodScales (p : Params ℝ) (hp : NonNegP p) (rest : List (Site ℝ)) (hs : NonNegS rest)
    (acc K : ℝ) (g gh : Nat → ℝ) (hgh : ∀ j, j < p.n → 0 ≤ gh j)
    (hg : ∀ j, j < p.n → g j = K * gh j) (hK : K * ∑ j ∈ range p.n, gh j = K) :
    fwdULoop p rest acc (vec p.n g) = acc * K * prodScales (rescLoop p rest (vec p.n gh)) := by
  induction rest generalizing acc K g gh with
  | nil =>
    have : ∑ j ∈ range p.n, g j = K := by
      rw [Finset.sum_congr rfl (fun j hj => hg j (Finset.mem_range.mp hj)), ← Finset.mul_sum, hK]
    simp [fwdULoop, rescLoop, prodScales, sumL_vec, this]
  | cons s rest ih =>
    obtain ⟨b, e⟩ := s
    have he : NonNegE e := hs (b, e) (List.mem_cons_self)
    have hs' : NonNegS rest := fun s hs'' => hs s (List.mem_cons_of_mem _ hs'')
    have hsum : ∑ j ∈ range p.n, g j = K := by
      rw [Finset.sum_congr rfl (fun j hj => hg j (Finset.mem_range.mp hj)), ← Finset.mul_sum, hK]
    cases b with
    | true =>
      have ht := restartF_nonneg p hp e he
      obtain ⟨h1, h2⟩ := normF_spec p.n (restartF p e) (fun j _ => ht j)
      rw [rescLoop_cons_true]
      simp only [fwdULoop, if_true]
      rw [show restartTmp p e = vec p.n (restartF p e) from rfl]
      rw [ih hs' (acc * sumL (vec p.n g)) _ (restartF p e) _ (normF_nonneg _ _ p.n (fun j _ => ht j)) h1 h2]
      simp only [prodScales, List.map_cons, List.prod_cons, sumL_vec, hsum]
      ring
    | false =>
      have ht := stepF_nonneg p hp e he gh hgh
      obtain ⟨h1, h2⟩ := normF_spec p.n (stepF p e gh) (fun j _ => ht j)
      rw [rescLoop_cons_false p hp e he rest gh hgh]
      simp only [fwdULoop, Bool.false_eq_true, if_false]
      have hv : (vec p.n fun j => e j * dot (col p j) (vec p.n g)) = vec p.n (fun j => K * stepF p e gh j) := by
        apply vec_congr; intro j _
        unfold col; rw [dot_vec]; unfold stepF
        rw [Finset.sum_congr rfl (fun k hk => by rw [hg k (Finset.mem_range.mp hk)])]
        rw [Finset.mul_sum, Finset.mul_sum, Finset.mul_sum]
        apply Finset.sum_congr rfl; intro k _; ring
      rw [hv]
      rw [ih hs' acc (K * ∑ i ∈ range p.n, stepF p e gh i) _ _ (normF_nonneg _ _ p.n (fun j _ => ht j))
        (fun j hj => by rw [mul_assoc, ← h1 j hj]) (by rw [mul_assoc, h2])]
      simp only [prodScales, List.map_cons, List.prod_cons]
      ring

theorem scales_prod_eq_fwdU (p : Params ℝ) (hp : NonNegP p) (e0 : Emis ℝ) (he0 : NonNegE e0)
    (sites : List (Site ℝ)) (hs : NonNegS sites) :
    (rescForward p e0 sites).scales.prod = fwdU p e0 sites := by
  have ht := restartF_nonneg p hp e0 he0
  obtain ⟨h1, h2⟩ := normF_spec p.n (restartF p e0) (fun j _ => ht j)
  unfold rescForward fwdU
  simp only [rescLoop_cons_true, List.map_cons, List.prod_cons]
  rw [show restartTmp p e0 = vec p.n (restartF p e0) from rfl]
  rw [fwdULoop_eq_prodScales p hp sites hs _ _ (restartF p e0) _ (normF_nonneg _ _ p.n (fun j _ => ht j)) h1 h2]
  simp [prodScales]

/-- all scale factors are non-negative -/
theorem rescLoop_scales_nonneg (p : Params ℝ) (hp : NonNegP p) (rest : List (Site ℝ)) (hs : NonNegS rest)
    (gh : Nat → ℝ) (hgh : ∀ j, j < p.n → 0 ≤ gh j) :
    ∀ x ∈ rescLoop p rest (vec p.n gh), 0 ≤ x.2 := by
  induction rest generalizing gh with
  | nil => simp [rescLoop]
  | cons s rest ih =>
    obtain ⟨b, e⟩ := s
    have he : NonNegE e := hs (b, e) (List.mem_cons_self)
    have hs' : NonNegS rest := fun s hs'' => hs s (List.mem_cons_of_mem _ hs'')
    cases b with
    | true =>
      have ht := restartF_nonneg p hp e he
      rw [rescLoop_cons_true]
      intro x hx
      rcases List.mem_cons.mp hx with rfl | hx
      · exact Finset.sum_nonneg (s := range p.n) (fun i _ => ht i)
      · exact ih hs' _ (normF_nonneg _ _ p.n (fun j _ => ht j)) x hx
    | false =>
      have ht := stepF_nonneg p hp e he gh hgh
      rw [rescLoop_cons_false p hp e he rest gh hgh]
      intro x hx
      rcases List.mem_cons.mp hx with rfl | hx
      · exact Finset.sum_nonneg (s := range p.n) (fun i _ => ht i)
      · exact ih hs' _ (normF_nonneg _ _ p.n (fun j _ => ht j)) x hx

/-! ### sorting before summing -/

theorem sumL_sortDesc (l : List ℝ) : sumL (sortDesc l) = l.sum := by
  rw [sumL_eq_sum]; exact (List.mergeSort_perm l _).sum_eq

theorem exp_sum_log (l : List ℝ) (h : ∀ c ∈ l, 0 < c) : Real.exp ((l.map Real.log).sum) = l.prod := by
  induction l with
  | nil => simp
  | cons c cs ih =>
    have hc : 0 < c := h c (List.mem_cons_self)
    simp only [List.map_cons, List.sum_cons, List.prod_cons, Real.exp_add, Real.exp_log hc]
    rw [ih (fun x hx => h x (List.mem_cons_of_mem _ hx))]

/-! ### low-memory class -/

theorem lowTmp_eq_rescTmp (p : Params ℝ) (hp : NonNegP p) (b : Bool) (e : Emis ℝ) (he : NonNegE e) (g : Nat → ℝ)
    (hg : ∀ j, j < p.n → 0 ≤ g j) : lowTmp p b e (vec p.n g) = rescTmp p b e (vec p.n g) := by
  have key : ∀ (src : Nat → ℝ), (∀ k, k < p.n → 0 ≤ src k) → ∀ j,
      clip (e j * sumL (List.zipWith (fun t v => clip (t * v)) (col p j) (vec p.n src)))
        = e j * ∑ k ∈ range p.n, p.P k j * src k := by
    intro src hsrc j
    have h1 : List.zipWith (fun t v => clip (t * v)) (col p j) (vec p.n src) = vec p.n (fun k => p.P k j * src k) := by
      unfold col vec; rw [zipWith_vec]
      apply List.map_congr_left; intro k hk
      exact clip_of_nonneg _ (mul_nonneg (hp.1 k j) (hsrc k (List.mem_range.mp hk)))
    rw [h1, sumL_vec]
    exact clip_of_nonneg _ (mul_nonneg (he j) (Finset.sum_nonneg (fun k hk => mul_nonneg (hp.1 k j) (hsrc k (Finset.mem_range.mp hk)))))
  cases b with
  | true =>
    rw [rescTmp_true]
    simp only [lowTmp, if_true]
    apply vec_congr; intro j _
    rw [show piL p = vec p.n p.pi from rfl, key p.pi (fun k _ => hp.2 k) j]
    unfold restartF; rw [initW_eq]
  | false =>
    rw [rescTmp_false p hp e he g hg]
    simp only [lowTmp, Bool.false_eq_true, if_false]
    apply vec_congr; intro j _
    rw [key g hg j]; rfl

/-- sum of the logarithms of the scale factors produced by the rescaled loop -/
noncomputable def sumLogScales (l : List (List ℝ × ℝ)) : ℝ := (l.map (fun x => Real.log x.2)).sum

theorem lowLoop_eq (p : Params ℝ) (hp : NonNegP p) (m : Nat) (rest : List (Site ℝ)) (hs : NonNegS rest)
    (g : Nat → ℝ) (hg : ∀ j, j < p.n → 0 ≤ g j) (acc : ℝ) (pending : List ℝ) :
    lowLoop p m rest (vec p.n g) acc pending = acc + pending.sum + sumLogScales (rescLoop p rest (vec p.n g)) := by
  induction rest generalizing g acc pending with
  | nil => simp [lowLoop, rescLoop, sumLogScales, sumL_sortDesc]
  | cons s rest ih =>
    obtain ⟨b, e⟩ := s
    have he : NonNegE e := hs (b, e) (List.mem_cons_self)
    have hs' : NonNegS rest := fun s hs'' => hs s (List.mem_cons_of_mem _ hs'')
    have hstep : ∃ t : Nat → ℝ, (∀ j, 0 ≤ t j) ∧ rescTmp p b e (vec p.n g) = vec p.n t := by
      cases b with
      | true => exact ⟨restartF p e, restartF_nonneg p hp e he, rescTmp_true p e _⟩
      | false => exact ⟨stepF p e g, stepF_nonneg p hp e he g hg, rescTmp_false p hp e he g hg⟩
    obtain ⟨t, ht, htmp⟩ := hstep
    have hn := normF_nonneg t (∑ i ∈ range p.n, t i) p.n (fun j _ => ht j)
    simp only [lowLoop, rescLoop, lowTmp_eq_rescTmp p hp b e he g hg, htmp, sumL_vec, normalize_vec]
    by_cases hfull : pending.length = m
    · simp only [hfull, beq_self_eq_true, if_true]
      rw [ih hs' _ hn]
      simp only [sumLogScales, List.map_cons, List.sum_cons, sumL_sortDesc, List.sum_nil, ScalarReal.log_eq]
      ring
    · have : (pending.length == m) = false := by simpa using hfull
      simp only [this, Bool.false_eq_true, if_false]
      rw [ih hs' _ hn]
      simp only [sumLogScales, List.map_cons, List.sum_cons, ScalarReal.log_eq]
      ring

theorem rescForward_logLik (p : Params ℝ) (e0 : Emis ℝ) (sites : List (Site ℝ)) :
    (rescForward p e0 sites).logLik = ((rescForward p e0 sites).scales.map Real.log).sum := by
  unfold rescForward
  simp only [sumL_sortDesc, List.map_map]
  rfl

theorem lowForward_eq (p : Params ℝ) (hp : NonNegP p) (m : Nat) (e0 : Emis ℝ) (he0 : NonNegE e0)
    (sites : List (Site ℝ)) (hs : NonNegS sites) :
    lowForward p m e0 sites = (rescForward p e0 sites).logLik := by
  have ht := restartF_nonneg p hp e0 he0
  rw [rescForward_logLik]
  unfold lowForward rescForward
  rw [show restartTmp p e0 = vec p.n (restartF p e0) from rfl]
  simp only [sumL_vec, normalize_vec, rescLoop_cons_true]
  rw [lowLoop_eq p hp m sites hs _ (normF_nonneg _ _ p.n (fun j _ => ht j))]
  simp [sumLogScales, List.map_map, Function.comp_def]

/-! ### log-sum class -/

theorem logsum_log (a b : ℝ) (ha : 0 < a) (hb : 0 < b) : logsum (Real.log a) (Real.log b) = Real.log (a + b) := by
  unfold logsum
  simp only [ScalarReal.eqb_iff, ScalarReal.ltb_iff, ScalarReal.log_eq, ScalarReal.exp_eq, ScalarReal.ofInt_eq,
    ScalarReal.one_eq, add_eq, sub_eq]
  split
  · rename_i h
    have hab : a = b := Real.log_injOn_pos (Set.mem_Ioi.mpr ha) (Set.mem_Ioi.mpr hb) h
    rw [← Real.log_mul (ne_of_gt ha) (by norm_num)]
    congr 1; rw [hab]; push_cast; ring
  · split
    · rw [Real.exp_sub, Real.exp_log ha, Real.exp_log hb, ← Real.log_mul (ne_of_gt ha) (by positivity)]
      congr 1; field_simp
    · rw [Real.exp_sub, Real.exp_log ha, Real.exp_log hb, ← Real.log_mul (ne_of_gt hb) (by positivity)]
      congr 1; field_simp; ring

theorem foldl_logsum_log (l : List ℝ) (hl : ∀ x ∈ l, 0 < x) (x : ℝ) (hx : 0 < x) :
    (l.map Real.log).foldl logsum (Real.log x) = Real.log (x + l.sum) := by
  induction l generalizing x with
  | nil => simp
  | cons y ys ih =>
    have hy : 0 < y := hl y (List.mem_cons_self)
    simp only [List.map_cons, List.foldl_cons, List.sum_cons]
    rw [logsum_log x y hx hy, ih (fun z hz => hl z (List.mem_cons_of_mem _ hz)) (x + y) (by positivity), add_assoc]

theorem vec_succ' {α : Type} (n : Nat) (g : Nat → α) : vec (n + 1) g = g 0 :: vec n (fun k => g (k + 1)) := by
  simp [vec, List.range_succ_eq_map, List.map_map, Function.comp_def]

theorem lseL_vec_log (n : Nat) (hn : 0 < n) (a : Nat → ℝ) (ha : ∀ k, 0 < a k) :
    lseL (vec n (fun k => Real.log (a k))) = Real.log (∑ k ∈ range n, a k) := by
  obtain ⟨m, rfl⟩ := Nat.exists_eq_succ_of_ne_zero (Nat.pos_iff_ne_zero.mp hn)
  rw [vec_succ']
  simp only [lseL]
  have : vec m (fun k => Real.log (a (k + 1))) = ((List.range m).map (fun k => a (k + 1))).map Real.log := by
    simp [vec, List.map_map, Function.comp_def]
  rw [this, foldl_logsum_log _ (by intro x hx; simp only [List.mem_map] at hx; obtain ⟨k, _, rfl⟩ := hx; exact ha _) _ (ha 0)]
  rw [sum_map_range, Finset.sum_range_succ', add_comm]

def PosP (p : Params ℝ) : Prop := (∀ i j, 0 < p.P i j) ∧ (∀ k, 0 < p.pi k)
def PosE (e : Emis ℝ) : Prop := ∀ j, 0 < e j
def PosS (sites : List (Site ℝ)) : Prop := ∀ s ∈ sites, PosE s.2

theorem sum_pos_of_pos (n : Nat) (hn : 0 < n) (a : Nat → ℝ) (ha : ∀ k, 0 < a k) : 0 < ∑ k ∈ range n, a k :=
  Finset.sum_pos (fun k _ => ha k) (by simpa using Nat.pos_iff_ne_zero.mp hn)

theorem initW_pos (p : Params ℝ) (hn : 0 < p.n) (hp : PosP p) (y : Nat) : 0 < initW p y := by
  rw [initW_eq]; exact sum_pos_of_pos _ hn _ (fun k => mul_pos (hp.1 k y) (hp.2 k))

theorem restartF_pos (p : Params ℝ) (hn : 0 < p.n) (hp : PosP p) (e : Emis ℝ) (he : PosE e) : ∀ j, 0 < restartF p e j :=
  fun j => mul_pos (he j) (initW_pos p hn hp j)

theorem stepF_pos (p : Params ℝ) (hn : 0 < p.n) (hp : PosP p) (e : Emis ℝ) (he : PosE e) (g : Nat → ℝ) (hg : ∀ k, 0 < g k) :
    ∀ j, 0 < stepF p e g j :=
  fun j => mul_pos (he j) (sum_pos_of_pos _ hn _ (fun k => mul_pos (hp.1 k j) (hg k)))

/-- the log-space step computes the logarithm of the unscaled step -/
theorem logTmp_eq (p : Params ℝ) (hn : 0 < p.n) (hp : PosP p) (b : Bool) (e : Emis ℝ) (he : PosE e)
    (g : Nat → ℝ) (hg : ∀ k, 0 < g k) :
    logTmp p b e (vec p.n (fun k => Real.log (g k)))
      = vec p.n (fun j => Real.log (if b then restartF p e j else stepF p e g j)) := by
  have key : ∀ (src : Nat → ℝ), (∀ k, 0 < src k) → ∀ j,
      Scalar.log (e j) + lseL (List.zipWith (fun a b => a + b) (logCol p j) (vec p.n (fun k => Real.log (src k))))
        = Real.log (e j * ∑ k ∈ range p.n, p.P k j * src k) := by
    intro src hsrc j
    have h1 : List.zipWith (fun a b => a + b) (logCol p j) (vec p.n (fun k => Real.log (src k)))
        = vec p.n (fun k => Real.log (p.P k j * src k)) := by
      unfold logCol vec; rw [zipWith_vec]
      apply List.map_congr_left; intro k _
      simp only [ScalarReal.log_eq]
      rw [Real.log_mul (ne_of_gt (hp.1 k j)) (ne_of_gt (hsrc k))]
    rw [h1, lseL_vec_log _ hn _ (fun k => mul_pos (hp.1 k j) (hsrc k))]
    simp only [ScalarReal.log_eq]
    rw [Real.log_mul (ne_of_gt (he j)) (ne_of_gt (sum_pos_of_pos _ hn _ (fun k => mul_pos (hp.1 k j) (hsrc k))))]
  cases b with
  | true =>
    simp only [logTmp, if_true]
    apply vec_congr; intro j _
    rw [show logPi p = vec p.n (fun k => Real.log (p.pi k)) from rfl, key p.pi hp.2 j]
    unfold restartF; rw [initW_eq]
  | false =>
    simp only [logTmp, Bool.false_eq_true, if_false]
    apply vec_congr; intro j _
    rw [key g hg j]; rfl

theorem logLoop_eq (p : Params ℝ) (hn : 0 < p.n) (hp : PosP p) (rest : List (Site ℝ)) (hs : PosS rest)
    (g : Nat → ℝ) (hg : ∀ k, 0 < g k) (acc : ℝ) (hacc : 0 < acc) :
    Real.log (fwdULoop p rest acc (vec p.n g))
      = Real.log acc + (logLoop p rest (vec p.n (fun k => Real.log (g k)))).2.sum := by
  induction rest generalizing g acc with
  | nil =>
    simp only [fwdULoop, logLoop, List.sum_cons, List.sum_nil, add_zero, sumL_vec, mul_eq]
    rw [lseL_vec_log _ hn _ hg, Real.log_mul (ne_of_gt hacc) (ne_of_gt (sum_pos_of_pos _ hn _ hg))]
  | cons s rest ih =>
    obtain ⟨b, e⟩ := s
    have he : PosE e := hs (b, e) (List.mem_cons_self)
    have hs' : PosS rest := fun s hs'' => hs s (List.mem_cons_of_mem _ hs'')
    have hsum := sum_pos_of_pos _ hn _ hg
    cases b with
    | true =>
      simp only [fwdULoop, logLoop, if_true]
      rw [logTmp_eq p hn hp true e he g hg]
      simp only [if_true]
      rw [show restartTmp p e = vec p.n (restartF p e) from rfl,
        ih hs' (restartF p e) (restartF_pos p hn hp e he) _ (by rw [sumL_vec]; exact mul_pos hacc hsum)]
      simp only [List.sum_cons, sumL_vec, mul_eq]
      rw [lseL_vec_log _ hn _ hg, Real.log_mul (ne_of_gt hacc) (ne_of_gt hsum)]
      ring
    | false =>
      simp only [fwdULoop, logLoop, Bool.false_eq_true, if_false]
      rw [logTmp_eq p hn hp false e he g hg]
      simp only [Bool.false_eq_true, if_false]
      have hv : (vec p.n fun j => e j * dot (col p j) (vec p.n g)) = vec p.n (stepF p e g) := by
        apply vec_congr; intro j _; unfold col; rw [dot_vec]; rfl
      rw [hv, ih hs' (stepF p e g) (stepF_pos p hn hp e he g hg) acc hacc]

theorem logForward_ll (p : Params ℝ) (hn : 0 < p.n) (hp : PosP p) (e0 : Emis ℝ) (he0 : PosE e0)
    (sites : List (Site ℝ)) (hs : PosS sites) :
    (logForward p e0 sites).ll = Real.log (fwdU p e0 sites) := by
  unfold logForward fwdU
  simp only [sumL_sortDesc]
  have h0 : logTmp p true e0 [] = vec p.n (fun j => Real.log (restartF p e0 j)) := by
    simp only [logTmp, if_true]
    have := logTmp_eq p hn hp true e0 he0 (fun _ => 1) (fun _ => one_pos)
    simpa only [logTmp, if_true] using this
  rw [h0, show restartTmp p e0 = vec p.n (restartF p e0) from rfl,
    logLoop_eq p hn hp sites hs (restartF p e0) (restartF_pos p hn hp e0 he0) _ (by simp)]
  simp

/-! ### break-point control flow -/

/-- break points as the property means them: strictly increasing positions in `1 … T-1` -/
def ValidBreaks (T : Nat) (bps : List Nat) : Prop := bps.Pairwise (· < ·) ∧ ∀ b ∈ bps, 1 ≤ b ∧ b < T

theorem fwdFlags_eq (T : Nat) (cnt i : Nat) (bps : List Nat) (hT : i + cnt = T)
    (hs : bps.Pairwise (· < ·)) (hb : ∀ b ∈ bps, i ≤ b ∧ b < T) :
    fwdFlags T cnt i bps = (List.range cnt).map (fun k => decide (i + k ∈ bps)) := by
  induction cnt generalizing i bps with
  | zero => simp [fwdFlags]
  | succ cnt ih =>
    rw [List.range_succ_eq_map, List.map_cons, List.map_map]
    cases bps with
    | nil =>
      have : i < T := by omega
      simp only [fwdFlags, nextBrk, this, if_true]
      rw [ih (i + 1) [] (by omega) List.Pairwise.nil (by simp)]
      simp
    | cons b bs =>
      have hb0 := hb b (List.mem_cons_self)
      have hbs : ∀ x ∈ bs, b < x := (List.pairwise_cons.mp hs).1
      by_cases hlt : i < b
      · simp only [fwdFlags, nextBrk, hlt, if_true]
        rw [ih (i + 1) (b :: bs) (by omega) hs (fun x hx => ⟨by
          rcases List.mem_cons.mp hx with rfl | hx
          · omega
          · have := hbs x hx; omega, (hb x hx).2⟩)]
        have hni : i ∉ b :: bs := by
          intro h; rcases List.mem_cons.mp h with rfl | h
          · omega
          · have := hbs i h; omega
        simp only [Nat.add_zero, hni, decide_false, List.cons.injEq, true_and]
        apply List.map_congr_left; intro k _
        simp only [Function.comp, Nat.succ_eq_add_one]
        congr 2; omega
      · have hib : i = b := by omega
        subst hib
        simp only [fwdFlags, nextBrk, Nat.lt_irrefl, if_false, List.tail_cons]
        rw [ih (i + 1) bs (by omega) (List.pairwise_cons.mp hs).2 (fun x hx => ⟨by have := hbs x hx; omega, (hb x (List.mem_cons_of_mem _ hx)).2⟩)]
        simp only [Nat.add_zero, List.mem_cons, true_or, decide_true, List.cons.injEq, true_and]
        apply List.map_congr_left; intro k _
        simp only [Function.comp, Nat.succ_eq_add_one]
        have hne : i + (k + 1) ≠ i := by omega
        have : (i + (k + 1) = i ∨ i + (k + 1) ∈ bs) ↔ i + 1 + k ∈ bs := by
          rw [show i + (k + 1) = i + 1 + k by omega]; constructor
          · rintro (h | h); · omega
            · exact h
          · intro h; exact Or.inr h
        simp only [decide_eq_decide]; exact this.symm

theorem bwdFlags_rev (cnt : Nat) (rbps : List Nat) (hs : rbps.Pairwise (· > ·)) (hb : ∀ b ∈ rbps, 1 ≤ b ∧ b ≤ cnt) :
    (bwdFlags cnt rbps).reverse = (List.range cnt).map (fun k => decide (k + 1 ∈ rbps)) := by
  induction cnt generalizing rbps with
  | zero => simp [bwdFlags]
  | succ i ih =>
    rw [List.range_succ, List.map_append, List.map_singleton]
    cases rbps with
    | nil =>
      simp only [bwdFlags, nextBrkR, Nat.zero_lt_succ, if_true, List.reverse_cons]
      rw [ih [] List.Pairwise.nil (by simp)]; simp
    | cons b bs =>
      have hb0 := hb b (List.mem_cons_self)
      have hbs : ∀ x ∈ bs, x < b := (List.pairwise_cons.mp hs).1
      by_cases hlt : b < i + 1
      · simp only [bwdFlags, nextBrkR, hlt, if_true, List.reverse_cons]
        rw [ih (b :: bs) hs (fun x hx => ⟨(hb x hx).1, by
          rcases List.mem_cons.mp hx with rfl | hx
          · omega
          · have := hbs x hx; omega⟩)]
        have hni : i + 1 ∉ b :: bs := by
          intro h; rcases List.mem_cons.mp h with h | h
          · omega
          · have := hbs _ h; omega
        simp [hni]
      · have hbi : b = i + 1 := by omega
        subst hbi
        simp only [bwdFlags, nextBrkR, Nat.lt_irrefl, if_false, List.tail_cons, List.reverse_cons]
        rw [ih bs (List.pairwise_cons.mp hs).2 (fun x hx => ⟨(hb x (List.mem_cons_of_mem _ hx)).1, by have := hbs x hx; omega⟩)]
        simp only [List.mem_cons, true_or, decide_true]
        congr 1
        apply List.map_congr_left; intro k hk
        have hk' : k < i := List.mem_range.mp hk
        have hne : k ≠ i := by omega
        simp [hne]

/-! ### backward recursion and posteriors of the rescaled class -/

theorem mulV_vec (n : Nat) (a b : Nat → ℝ) : mulV (vec n a) (vec n b) = vec n (fun j => a j * b j) := by
  unfold mulV vec; rw [zipWith_vec]

theorem sum_vec (n : Nat) (g : Nat → ℝ) : (vec n g).sum = ∑ i ∈ range n, g i := sum_map_range n g

/-- the (flag, emissions, scale) triples `computeBackward_` reads for the sites ≥ 1 -/
def itemsOf (rest : List (Site ℝ)) (R : List (List ℝ × ℝ)) : List (Bool × Emis ℝ × ℝ) :=
  List.zipWith (fun s r => (s.1, s.2, r.2)) rest R

theorem zip_items (rest : List (Site ℝ)) (R : List (List ℝ × ℝ)) :
    List.zip (rest.map (·.1)) (List.zip (rest.map (·.2)) (R.map (·.2))) = itemsOf rest R := by
  induction rest generalizing R with
  | nil => simp [itemsOf]
  | cons s rest ih =>
    cases R with
    | nil => simp [itemsOf]
    | cons r R => simp only [List.map_cons, List.zip_cons_cons, itemsOf, List.zipWith_cons_cons]; rw [← itemsOf, ih]

theorem backStep_false (p : Params ℝ) (e : Emis ℝ) (c : ℝ) (B : Nat → ℝ) :
    backStep p false e c (vec p.n B) = vec p.n (fun j => (∑ k ∈ range p.n, e k * p.P j k * B k) / c) := by
  simp only [backStep, Bool.false_eq_true, if_false]
  apply vec_congr; intro j _; rw [dot_vec]

/-- Forward–backward identity behind the posteriors: for a normalised forward vector `g`, with all
following scale factors positive, `Σ_j g_j·back_j = 1`, and every later site's
`likelihood ⊙ backLikelihood` row is a probability vector. -/
theorem posterior_rows (p : Params ℝ) (hp : NonNegP p) (rest : List (Site ℝ)) (hs : NonNegS rest)
    (g : Nat → ℝ) (hg : ∀ j, j < p.n → 0 ≤ g j) (hg1 : ∑ j ∈ range p.n, g j = 1)
    (hpos : ∀ x ∈ rescLoop p rest (vec p.n g), 0 < x.2) :
    ∃ (B : Nat → ℝ) (tl : List (List ℝ)),
      backAll p (itemsOf rest (rescLoop p rest (vec p.n g))) = vec p.n B :: tl
      ∧ (∀ j, 0 ≤ B j) ∧ ∑ j ∈ range p.n, g j * B j = 1
      ∧ tl.length = rest.length
      ∧ ∀ row ∈ List.zipWith mulV ((rescLoop p rest (vec p.n g)).map (·.1)) tl,
          (∀ x ∈ row, 0 ≤ x) ∧ row.sum = 1 ∧ row.length = p.n := by
  induction rest generalizing g with
  | nil =>
    refine ⟨fun _ => 1, [], by simp [rescLoop, itemsOf, backAll, onesV], fun _ => zero_le_one, by simpa using hg1, rfl, by simp [rescLoop]⟩
  | cons s rest ih =>
    obtain ⟨b, e⟩ := s
    have he : NonNegE e := hs (b, e) (List.mem_cons_self)
    have hs' : NonNegS rest := fun s hs'' => hs s (List.mem_cons_of_mem _ hs'')
    -- the step, uniformly in the flag
    have hstep : ∃ t : Nat → ℝ, (∀ j, 0 ≤ t j) ∧
        rescLoop p ((b, e) :: rest) (vec p.n g)
          = (vec p.n (normF t (∑ i ∈ range p.n, t i)), ∑ i ∈ range p.n, t i)
            :: rescLoop p rest (vec p.n (normF t (∑ i ∈ range p.n, t i)))
        ∧ (b = false → t = stepF p e g) := by
      cases b with
      | true => exact ⟨restartF p e, restartF_nonneg p hp e he, rescLoop_cons_true p e rest _, by simp⟩
      | false => exact ⟨stepF p e g, stepF_nonneg p hp e he g hg, rescLoop_cons_false p hp e he rest g hg, fun _ => rfl⟩
    obtain ⟨t, ht, hloop, htb⟩ := hstep
    set c := ∑ i ∈ range p.n, t i with hc
    rw [hloop] at hpos ⊢
    have hcpos : 0 < c := hpos _ (List.mem_cons_self)
    have hf := normF_nonneg t c p.n (fun j _ => ht j)
    have hf1 : ∑ j ∈ range p.n, normF t c j = 1 := by
      have := (normF_spec p.n t (fun j _ => ht j)).2
      rw [← hc] at this
      exact mul_left_cancel₀ (ne_of_gt hcpos) (by rw [this, mul_one])
    obtain ⟨B', tl', hback, hB', hsum', hlen', hrows'⟩ :=
      ih hs' (normF t c) hf hf1 (fun x hx => hpos x (List.mem_cons_of_mem _ hx))
    have hitems : itemsOf ((b, e) :: rest) ((vec p.n (normF t c), c) :: rescLoop p rest (vec p.n (normF t c)))
        = (b, e, c) :: itemsOf rest (rescLoop p rest (vec p.n (normF t c))) := by
      simp [itemsOf]
    rw [hitems]
    simp only [backAll, hback]
    -- rows of the later sites
    have hrows : ∀ row ∈ List.zipWith mulV
        (((vec p.n (normF t c), c) :: rescLoop p rest (vec p.n (normF t c))).map (·.1)) (vec p.n B' :: tl'),
        (∀ x ∈ row, 0 ≤ x) ∧ row.sum = 1 ∧ row.length = p.n := by
      intro row hrow
      simp only [List.map_cons, List.zipWith_cons_cons, List.mem_cons] at hrow
      rcases hrow with rfl | hrow
      · rw [mulV_vec]
        refine ⟨?_, by rw [sum_vec]; exact hsum', by simp⟩
        intro x hx
        simp only [vec, List.mem_map, List.mem_range] at hx
        obtain ⟨j, hj, rfl⟩ := hx
        exact mul_nonneg (hf j hj) (hB' j)
      · exact hrows' row hrow
    cases b with
    | true =>
      refine ⟨fun _ => 1, vec p.n B' :: tl', by simp [backStep, onesV], fun _ => zero_le_one, by simpa using hg1,
        by simp [hlen'], hrows⟩
    | false =>
      rw [backStep_false]
      refine ⟨_, vec p.n B' :: tl', rfl, ?_, ?_, by simp [hlen'], hrows⟩
      · intro j
        exact div_nonneg (Finset.sum_nonneg (fun k _ => mul_nonneg (mul_nonneg (he k) (hp.1 j k)) (hB' k))) (le_of_lt hcpos)
      · -- Σ_j g_j · (Σ_k e_k P_jk B'_k)/c = Σ_k (t_k / c) B'_k = 1
        have htk : ∀ k, t k = e k * ∑ j ∈ range p.n, p.P j k * g j := by
          intro k; rw [htb rfl]; rfl
        rw [← hsum']
        have : ∀ k, normF t c k = t k / c := by intro k; simp [normF, hcpos]
        simp only [this, htk]
        simp only [Finset.mul_sum, Finset.sum_div, Finset.sum_mul]
        rw [Finset.sum_comm]
        apply Finset.sum_congr rfl; intro k _
        apply Finset.sum_congr rfl; intro j _
        ring

theorem fwdFlags_length (T cnt i : Nat) (bps : List Nat) : (fwdFlags T cnt i bps).length = cnt := by
  induction cnt generalizing i bps with
  | zero => simp [fwdFlags]
  | succ cnt ih => simp only [fwdFlags]; split <;> simp [ih]

theorem mkSites_snd (es : List (Emis ℝ)) (bps : List Nat) : (mkSites es bps).map (·.2) = es := by
  unfold mkSites; exact List.map_snd_zip (by rw [fwdFlags_length])

theorem mkSites_length (es : List (Emis ℝ)) (bps : List Nat) : (mkSites es bps).length = es.length := by
  unfold mkSites; simp [fwdFlags_length]

theorem rescLoop_length (p : Params ℝ) (rest : List (Site ℝ)) (prev : List ℝ) : (rescLoop p rest prev).length = rest.length := by
  induction rest generalizing prev with
  | nil => simp [rescLoop]
  | cons s rest ih => obtain ⟨b, e⟩ := s; simp [rescLoop, ih]

/-- for valid break points the backward iterator logic resets at the same sites as the forward one -/
theorem bwd_flags_eq_fwd (es : List (Emis ℝ)) (bps : List Nat) (hv : ValidBreaks (es.length + 1) bps) :
    (bwdFlags es.length bps.reverse).reverse = (mkSites es bps).map (·.1) := by
  rw [bwdFlags_rev es.length bps.reverse (by rw [List.pairwise_reverse]; exact hv.1)
    (fun b hb => by have := hv.2 b (List.mem_reverse.mp hb); omega)]
  unfold mkSites
  rw [List.map_fst_zip (by rw [fwdFlags_length]), fwdFlags_eq (es.length + 1) es.length 1 bps (by omega) hv.1 hv.2]
  apply List.map_congr_left; intro k _
  simp only [List.mem_reverse]; rw [Nat.add_comm]

theorem rescPosterior_prob (p : Params ℝ) (hp : NonNegP p) (e0 : Emis ℝ) (he0 : NonNegE e0)
    (es : List (Emis ℝ)) (hes : ∀ e ∈ es, NonNegE e) (bps : List Nat) (hv : ValidBreaks (es.length + 1) bps)
    (hpos : ∀ c ∈ (rescForward p e0 (mkSites es bps)).scales, 0 < c) :
    (rescPosterior p e0 es bps).length = es.length + 1
    ∧ ∀ row ∈ rescPosterior p e0 es bps, (∀ x ∈ row, 0 ≤ x) ∧ row.sum = 1 ∧ row.length = p.n := by
  have hsites : NonNegS (mkSites es bps) := by
    intro s hs
    have : s.2 ∈ (mkSites es bps).map (·.2) := List.mem_map_of_mem hs
    rw [mkSites_snd] at this; exact hes _ this
  set sites := mkSites es bps with hsd
  have ht := restartF_nonneg p hp e0 he0
  set c0 := ∑ i ∈ range p.n, restartF p e0 i with hc0
  set f0 := normF (restartF p e0) c0 with hf0
  have hfw : rescForward p e0 sites
      = { lik := vec p.n f0 :: (rescLoop p sites (vec p.n f0)).map (·.1),
          scales := c0 :: (rescLoop p sites (vec p.n f0)).map (·.2),
          logLik := (rescForward p e0 sites).logLik } := by
    unfold rescForward; simp only [rescLoop_cons_true, List.map_cons]; rfl
  have hscales : (rescForward p e0 sites).scales = c0 :: (rescLoop p sites (vec p.n f0)).map (·.2) := by rw [hfw]
  have hlik : (rescForward p e0 sites).lik = vec p.n f0 :: (rescLoop p sites (vec p.n f0)).map (·.1) := by rw [hfw]
  have hc0pos : 0 < c0 := hpos c0 (by rw [hscales]; exact List.mem_cons_self)
  have hf := normF_nonneg (restartF p e0) c0 p.n (fun j _ => ht j)
  have hf1 : ∑ j ∈ range p.n, f0 j = 1 := by
    have := (normF_spec p.n (restartF p e0) (fun j _ => ht j)).2
    rw [← hc0] at this
    exact mul_left_cancel₀ (ne_of_gt hc0pos) (by rw [this, mul_one])
  have hRpos : ∀ x ∈ rescLoop p sites (vec p.n f0), 0 < x.2 := by
    intro x hx; apply hpos; rw [hscales]; exact List.mem_cons_of_mem _ (List.mem_map_of_mem hx)
  obtain ⟨B, tl, hback, hB, hsum, hlen, hrows⟩ := posterior_rows p hp sites hsites f0 hf hf1 hRpos
  have hbw : rescBackward p es (rescForward p e0 sites).scales bps = vec p.n B :: tl := by
    unfold rescBackward
    rw [bwd_flags_eq_fwd es bps hv, hscales, List.tail_cons]
    have hsnd : sites.map (·.2) = es := by rw [hsd]; exact mkSites_snd es bps
    have hz := zip_items sites (rescLoop p sites (vec p.n f0))
    rw [hsnd] at hz
    rw [hz]; exact hback
  have hpost : rescPosterior p e0 es bps
      = mulV (vec p.n f0) (vec p.n B) :: List.zipWith mulV ((rescLoop p sites (vec p.n f0)).map (·.1)) tl := by
    unfold rescPosterior posteriorOf
    simp only [← hsd, hbw, hlik, List.zipWith_cons_cons]
  rw [hpost]
  constructor
  · simp [hlen, rescLoop_length, hsd, mkSites_length]
  · intro row hrow
    rcases List.mem_cons.mp hrow with rfl | hrow
    · rw [mulV_vec]
      refine ⟨?_, by rw [sum_vec]; exact hsum, by simp⟩
      intro x hx
      simp only [vec, List.mem_map, List.mem_range] at hx
      obtain ⟨j, hj, rfl⟩ := hx
      exact mul_nonneg (hf j hj) (hB j)
    · exact hrows row hrow

theorem zipWith_mul_bounds (a b : List ℝ) (hlen : a.length = b.length) (ha : ∀ x ∈ a, 0 ≤ x) (lo hi : ℝ)
    (hb : ∀ y ∈ b, lo ≤ y ∧ y ≤ hi) :
    lo * a.sum ≤ (List.zipWith (fun x y => x * y) a b).sum ∧ (List.zipWith (fun x y => x * y) a b).sum ≤ hi * a.sum := by
  induction a generalizing b with
  | nil => simp
  | cons x xs ih =>
    cases b with
    | nil => simp at hlen
    | cons y ys =>
      have hx : 0 ≤ x := ha x (List.mem_cons_self)
      have hy := hb y (List.mem_cons_self)
      obtain ⟨h1, h2⟩ := ih ys (by simpa using hlen) (fun z hz => ha z (List.mem_cons_of_mem _ hz))
        (fun z hz => hb z (List.mem_cons_of_mem _ hz))
      simp only [List.zipWith_cons_cons, List.sum_cons]
      constructor
      · nlinarith [mul_le_mul_of_nonneg_left hy.1 hx]
      · nlinarith [mul_le_mul_of_nonneg_left hy.2 hx]

theorem siteLik_bounds (p : Params ℝ) (row : List ℝ) (hlen : row.length = p.n) (hrow : ∀ x ∈ row, 0 ≤ x) (hsum : row.sum = 1)
    (e : Emis ℝ) (lo hi : ℝ) (he : ∀ j, j < p.n → lo ≤ e j ∧ e j ≤ hi) :
    lo ≤ siteLik p row e ∧ siteLik p row e ≤ hi := by
  unfold siteLik dot
  rw [sumL_eq_sum]
  have := zipWith_mul_bounds row (vec p.n e) (by simp [hlen]) hrow lo hi (by
    intro y hy; simp only [vec, List.mem_map, List.mem_range] at hy; obtain ⟨j, hj, rfl⟩ := hy; exact he j hj)
  rw [hsum, mul_one, mul_one] at this
  exact this

end Bpp.Hmm
