import BppProofs.Lemmas.LapFullDj2
/-! Helper lemmas for C04 (`lap`, the whole routine): the price update after the search, the
reversal of the augmenting path, one augmentation keeps the invariant with one free row less. -/
namespace Bpp.Mx.Lap
open Bpp Bpp.Mx

/-- the search starts in a state satisfying its invariant -/
theorem djInit_inv (n : Nat) (c : Nat → Nat → ℝ) (cs : Nat → Int) (v : Nat → ℝ) (fr : Nat) (hfr : fr < n) (m0 : ℝ) :
    DjInv n c cs v fr (djInit c v fr m0) := by
  refine ⟨⟨⟨fun k hk => hk, fun a b _ _ h => h⟩, Nat.le_refl _, Nat.zero_le _, Nat.le_refl _, fun _ _ => hfr,
    fun k hk => by simp [djInit] at hk, fun k k' hk => by simp [djInit] at hk, fun k h1 h2 => by simp [djInit] at h2,
    fun h => by simp [djInit] at h, fun k h1 h2 => by simp [djInit] at h2, fun k hk => by simp [djInit] at hk,
    fun j _ => le_refl _, fun m _ => Or.inl ⟨rfl, rfl⟩⟩, rfl, fun k hk => by simp [djInit] at hk⟩

/-! ## the price update (`:1540-1545`) -/

theorem priceUpdate_good (n : Nat) (s : Dj ℝ) (v : Nat → ℝ) (hperm : PermOn n s.colList) (hlast : s.last ≤ n) (B : Prop) :
    Good B (priceUpdate n s v) (fun v' =>
      (∀ k, k < s.last → v' (s.colList k) = v (s.colList k) + s.d (s.colList k) - s.min) ∧
      (∀ j, (∀ k, k < s.last → s.colList k ≠ j) → v' j = v j)) := by
  unfold priceUpdate
  apply loopM_good (B := B) (fun t v' =>
      (∀ k, k < t → v' (s.colList k) = v (s.colList k) + s.d (s.colList k) - s.min) ∧
      (∀ j, (∀ k, k < t → s.colList k ≠ j) → v' j = v j)) s.last (priceStep n s) v
    ⟨fun k hk => by omega, fun j _ => rfl⟩
  intro t v' ht ⟨h1, h2⟩
  unfold priceStep
  have hlt : s.colList t < n := hperm.lt t (by omega)
  simp only [hlt, if_true]
  apply Good.ok
  have hvt : v' (s.colList t) = v (s.colList t) := h2 _ (fun k hk he => by
    have := hperm.inj k t (by omega) (by omega) he; omega)
  constructor
  · intro k hk
    by_cases hkt : k = t
    · subst hkt; rw [upd_same, hvt]
    · have hne : s.colList k ≠ s.colList t := fun he => hkt (hperm.inj k t (by omega) (by omega) he)
      rw [upd_ne _ _ hne]; exact h1 k (by omega)
  · intro j hj
    have hne : j ≠ s.colList t := fun he => hj t (by omega) he.symm
    rw [upd_ne _ _ hne]
    exact h2 j (fun k hk => hj k (by omega))

/-! ## tightness for the new prices -/

/-- what the path reversal needs: all old pairs stay tight for the new prices `v'`, and every column
that can lie on the path (a scanned one or the end `e`) would be tight for its predecessor row,
which is the free row or the row of a column scanned earlier -/
structure AugTight (n : Nat) (c : Nat → Nat → ℝ) (cs : Nat → Int) (v' : Nat → ℝ) (fr : Nat) (pred cl : Nat → Nat) (low e : Nat) : Prop where
  nt1 : ∀ j, j < n → ∀ i : Nat, cs j = (i : Int) → ∀ x, x < n → c i j - v' j ≤ c i x - v' x
  path : ∀ m, m < n → (m < low ∨ cl m = e) →
    (pred (cl m) = fr ∧ ∀ x, x < n → c fr (cl m) - v' (cl m) ≤ c fr x - v' x) ∨
    (∃ k, k < low ∧ k < m ∧ cs (cl k) = (pred (cl m) : Int) ∧
      ∀ x, x < n → c (pred (cl m)) (cl m) - v' (cl m) ≤ c (pred (cl m)) x - v' x)

theorem augTight_of_post {n : Nat} {c : Nat → Nat → ℝ} {rs cs : Nat → Int} {v : Nat → ℝ} {F : Nat → Prop}
    (hInv : Inv n c rs cs v F) {fr : Nat} {s : Dj ℝ} {e : Nat} {D : Nat → ℝ} (hp : DjPost n c cs v fr s e D) (v' : Nat → ℝ)
    (hv1 : ∀ k, k < s.last → v' (s.colList k) = v (s.colList k) + s.d (s.colList k) - s.min)
    (hv2 : ∀ j, (∀ k, k < s.last → s.colList k ≠ j) → v' j = v j) :
    AugTight n c cs v' fr s.pred s.colList s.low e := by
  have hsurj := inj_surj s.colList hp.perm.lt hp.perm.inj
  have hll := hp.lastlow
  have hln := hp.lown
  -- the new price of the column at position `m`
  have hvlo : ∀ m, m < s.last → v' (s.colList m) = v (s.colList m) + D (s.colList m) - s.min := by
    intro m hm; rw [hv1 m hm, hp.Dd m hm]
  have hvhi : ∀ m, s.last ≤ m → m < n → v' (s.colList m) = v (s.colList m) := by
    intro m hm hmn
    apply hv2
    intro k hk he
    have := hp.perm.inj k m (by omega) hmn he
    omega
  have hVx : ∀ x, x < n → v' x ≤ v x ∧ v' x ≤ v x + D x - s.min := by
    intro x hx
    obtain ⟨m, hm, hmx⟩ := hsurj x hx
    subst hmx
    by_cases hml : m < s.last
    · rw [hvlo m hml]
      have := hp.q1 m hml
      constructor <;> linarith
    · rw [hvhi m (by omega) hm]
      have := hp.q2 m (by omega) hm
      constructor <;> linarith
  have hVp : ∀ m, m < n → (m < s.low ∨ s.colList m = e) → v' (s.colList m) = v (s.colList m) + D (s.colList m) - s.min := by
    intro m hm hcase
    by_cases hml : m < s.last
    · exact hvlo m hml
    · rw [hvhi m (by omega) hm]
      have : D (s.colList m) = s.min := by
        rcases hcase with h1 | h1
        · exact hp.q4 m (by omega) h1
        · rw [h1]; exact hp.q4e
      linarith
  constructor
  · intro j hj i hi x hx
    obtain ⟨m, hm, hmj⟩ := hsurj j hj
    subst hmj
    obtain ⟨hx1, hx2⟩ := hVx x hx
    by_cases hml : m < s.last
    · rw [hvlo m hml]
      have := hp.q3 m hml i hi x hx
      linarith
    · rw [hvhi m (by omega) hm]
      have := hInv.tight _ hj i hi x hx
      linarith
  · intro m hm hcase
    have hvm := hVp m hm hcase
    rcases hp.q5 m hm hcase with ⟨h1, h2⟩ | ⟨k, h1, h2, h3, h4⟩
    · left
      refine ⟨h1, fun x hx => ?_⟩
      obtain ⟨hx1, hx2⟩ := hVx x hx
      have := hp.qfree x hx
      rw [hvm]; linarith
    · right
      refine ⟨k, h1, h2, h3, fun x hx => ?_⟩
      obtain ⟨hx1, hx2⟩ := hVx x hx
      rw [hvm]
      by_cases hkl : k < s.last
      · have := hp.q3 k hkl _ h3 x hx
        linarith
      · have h5 := hp.q2 k (by omega) (by omega)
        have h6 := hInv.tight _ (hp.perm.lt k (by omega)) _ h3 x hx
        linarith

/-! ## the reversal of the path (`:1547-1556`) -/

/-- the state of the reversal when the column at position `m` of the list has just lost its row
(or is the unassigned end of the path): everything is consistent except at that column -/
structure FlipInv (n : Nat) (c : Nat → Nat → ℝ) (rs cs : Nat → Int) (v' : Nat → ℝ) (F : Nat → Prop) (cl : Nat → Nat)
    (rs' cs' : Nat → Int) (m : Nat) : Prop where
  f1 : ∀ j, j < n → j ≠ cl m → ∀ i : Nat, cs' j = (i : Int) → i < n ∧ rs' i = (j : Int)
  f2 : ∀ i, i < n → ¬ F i → ∃ j : Nat, j < n ∧ rs' i = (j : Int) ∧ cs' j = (i : Int) ∧ j ≠ cl m
  f3 : ∀ i, F i → ∀ j, j < n → cs' j ≠ (i : Int)
  f4 : ∀ j, j < n → j ≠ cl m → ∀ i : Nat, cs' j = (i : Int) → ∀ x, x < n → c i j - v' j ≤ c i x - v' x
  f5a : ∀ k, k < m → cs' (cl k) = cs (cl k)
  f5b : ∀ k, k < m → ∀ i : Nat, cs (cl k) = (i : Int) → rs' i = rs i

theorem flipLoop_good {n : Nat} (hn : n < 32768) {c : Nat → Nat → ℝ} {rs cs : Nat → Int} {v : Nat → ℝ} {F : Nat → Prop}
    (hInv : Inv n c rs cs v F) {fr : Nat} (hfr : F fr) {v' : Nat → ℝ} {pred cl : Nat → Nat} {low e0 : Nat}
    (hperm : PermOn n cl) (hlow : low ≤ n) (hpred : ∀ j, j < n → pred j < n)
    (hat : AugTight n c cs v' fr pred cl low e0) (B : Prop) :
    ∀ (fuel : Nat) (rs' cs' : Nat → Int) (m : Nat), m < n → (m < low ∨ cl m = e0) →
      FlipInv n c rs cs v' F cl rs' cs' m → (B → m + 1 ≤ fuel) →
      Good B (flipLoop n pred fr fuel rs' cs' (cl m)) (fun p => Inv n c p.1 p.2 v' (fun x => F x ∧ x ≠ fr)) := by
  intro fuel
  induction fuel with
  | zero =>
    intro rs' cs' m _ _ _ hB
    unfold flipLoop
    exact Or.inr ⟨rfl, fun hb => by have := hB hb; omega⟩
  | succ fuel ih =>
    intro rs' cs' m hm hel hf hB
    have hfrn := (hInv.freeOk fr hfr).1
    have hem : cl m < n := hperm.lt m hm
    have hi : pred (cl m) < n := hpred _ hem
    unfold flipLoop
    simp only [rd_of_lt _ hem, rd_of_lt _ hi]
    rcases hat.path m hm hel with ⟨hpf, htf⟩ | ⟨k, hk1, hk2, hk3, htk⟩
    · -- the free row: the path is complete
      rw [if_neg (by simp [hpf])]
      apply Good.ok
      rw [hpf]
      refine ⟨?_, ?_, ?_, ?_⟩
      · intro j hj i' hi'
        dsimp only at hi' ⊢
        by_cases hje : j = cl m
        · subst hje
          rw [upd_same] at hi'
          have : i' = fr := by omega
          subst this
          exact ⟨hfrn, by rw [upd_same]⟩
        · rw [upd_ne _ _ hje] at hi'
          obtain ⟨h1, h2⟩ := hf.f1 j hj hje i' hi'
          have hne : i' ≠ fr := fun e => hf.f3 fr hfr j hj (by rw [hi', e])
          exact ⟨h1, by rw [upd_ne _ _ hne]; exact h2⟩
      · intro x hx hnf
        dsimp only
        by_cases hxf : x = fr
        · subst hxf
          exact ⟨cl m, hem, by rw [upd_same], by rw [upd_same]⟩
        · have hnF : ¬ F x := fun h => hnf ⟨h, hxf⟩
          obtain ⟨j, hj, h1, h2, h3⟩ := hf.f2 x hx hnF
          exact ⟨j, hj, by rw [upd_ne _ _ hxf]; exact h1, by rw [upd_ne _ _ h3]; exact h2⟩
      · intro x ⟨hxF, hxf⟩
        refine ⟨(hInv.freeOk x hxF).1, fun j hj => ?_⟩
        dsimp only
        by_cases hje : j = cl m
        · subst hje; rw [upd_same]; omega
        · rw [upd_ne _ _ hje]; exact hf.f3 x hxF j hj
      · intro j hj i' hi' x hx
        dsimp only at hi'
        by_cases hje : j = cl m
        · subst hje
          rw [upd_same] at hi'
          have : i' = fr := by omega
          subst this
          exact htf x hx
        · rw [upd_ne _ _ hje] at hi'
          exact hf.f4 j hj hje i' hi' x hx
    · -- the row of a column scanned earlier: it takes the column and gives up its own
      have hkn : k < n := by omega
      have hckn : cl k < n := hperm.lt k hkn
      have hnotfree : ¬ F (pred (cl m)) := fun h => (hInv.freeOk _ h).2 (cl k) hckn hk3
      have hne : pred (cl m) ≠ fr := fun e => hnotfree (e ▸ hfr)
      rw [if_pos hne]
      have hrsi : rs' (pred (cl m)) = (cl k : Int) := by
        rw [hf.f5b k hk2 _ hk3]
        exact (hInv.colOk _ hckn _ hk3).2
      have hsz : szOfInt (rs' (pred (cl m))) = cl k := by rw [hrsi]; exact szOfInt_ofNat _ (by omega)
      rw [hsz]
      have hkm : cl k ≠ cl m := fun e => by have := hperm.inj k m hkn hm e; omega
      apply ih _ _ k hkn (Or.inl hk1) _ (fun hb => by have := hB hb; omega)
      refine ⟨?_, ?_, ?_, ?_, ?_, ?_⟩
      · intro j hj hjk i' hi'
        by_cases hje : j = cl m
        · subst hje
          rw [upd_same] at hi'
          have : i' = pred (cl m) := by omega
          subst this
          exact ⟨hi, by rw [upd_same]⟩
        · rw [upd_ne _ _ hje] at hi'
          obtain ⟨h1, h2⟩ := hf.f1 j hj hje i' hi'
          have hne' : i' ≠ pred (cl m) := by
            intro e
            rw [e, hrsi] at h2
            exact hjk (by omega)
          exact ⟨h1, by rw [upd_ne _ _ hne']; exact h2⟩
      · intro x hx hnF
        by_cases hxi : x = pred (cl m)
        · subst hxi
          exact ⟨cl m, hem, by rw [upd_same], by rw [upd_same], fun e => hkm e.symm⟩
        · obtain ⟨j, hj, h1, h2, h3⟩ := hf.f2 x hx hnF
          refine ⟨j, hj, by rw [upd_ne _ _ hxi]; exact h1, by rw [upd_ne _ _ h3]; exact h2, ?_⟩
          intro e
          rw [e, hf.f5a k hk2, hk3] at h2
          exact hxi (by omega)
      · intro x hxF j hj
        by_cases hje : j = cl m
        · subst hje
          rw [upd_same]
          intro e
          have : x = pred (cl m) := by omega
          exact hnotfree (this ▸ hxF)
        · rw [upd_ne _ _ hje]; exact hf.f3 x hxF j hj
      · intro j hj hjk i' hi' x hx
        by_cases hje : j = cl m
        · subst hje
          rw [upd_same] at hi'
          have : i' = pred (cl m) := by omega
          subst this
          exact htk x hx
        · rw [upd_ne _ _ hje] at hi'
          exact hf.f4 j hj hje i' hi' x hx
      · intro k' hk'
        have hne' : cl k' ≠ cl m := fun e => by have := hperm.inj k' m (by omega) hm e; omega
        rw [upd_ne _ _ hne']
        exact hf.f5a k' (by omega)
      · intro k' hk' i'' hi''
        have hne' : i'' ≠ pred (cl m) := by
          intro e
          rw [e] at hi''
          have h1 := (hInv.colOk _ (hperm.lt k' (by omega)) _ hi'').2
          have h2 := (hInv.colOk _ hckn _ hk3).2
          have : cl k' = cl k := by omega
          have := hperm.inj k' k (by omega) hkn this
          omega
        rw [upd_ne _ _ hne']
        exact hf.f5b k' (by omega) i'' hi''

end Bpp.Mx.Lap
