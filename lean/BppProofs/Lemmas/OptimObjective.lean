import BppProofs.Lemmas.OptimBracket
/-!
Helper lemmas for C10: the evaluation step of the one-dimensional routines on the *objective of the
harness* (`Fn.iface`), for a one-element list holding an unconstrained parameter of precision 0:
it computes the objective along one coordinate, the other coordinates staying what they are.
This instantiates the abstract hypothesis `Det` of the bracketing / golden-section / Brent theorems.
-/
set_option linter.unusedSectionVars false
namespace Bpp.Optim
open Bpp

theorem own_real (old v : ℝ) : own old v = v := by
  unfold own
  by_cases h : 0 < |v - old|
  · rw [if_pos (by simpa using h)]
  · rw [if_neg (by simpa using h)]
    have : |v - old| = 0 := le_antisymm (not_lt.1 h) (abs_nonneg _)
    have := abs_eq_zero.1 this
    linarith

/-- `Parameter::setValue` / `AutoParameter::setValue` on a parameter without constraint and with
precision 0 stores the value -/
theorem setValue_free (p : Param ℝ) (x : ℝ) (hp : p.precision = 0) (hc : p.constraint = none) :
    ∃ p', p.setValue x = .ok p' ∧ p'.value = x ∧ p'.precision = 0 ∧ p'.constraint = none ∧ p'.auto = p.auto := by
  have hb : ∃ p', p.setValueBase x = .ok p' ∧ p'.value = x ∧ p'.precision = 0 ∧ p'.constraint = none ∧ p'.auto = p.auto := by
    unfold Param.setValueBase
    by_cases h : 0 < |x - p.value|
    · rw [if_pos (by rw [hp]; simpa using h)]
      have : p.accepts x = true := by unfold Param.accepts; rw [hc]
      rw [if_pos this]
      exact ⟨_, rfl, rfl, hp, hc, rfl⟩
    · rw [if_neg (by rw [hp]; simpa using h)]
      have : |x - p.value| = 0 := le_antisymm (not_lt.1 h) (abs_nonneg _)
      have := abs_eq_zero.1 this
      exact ⟨p, rfl, by linarith, hp, hc, rfl⟩
  obtain ⟨p', h1, h2⟩ := hb
  unfold Param.setValue
  cases ha : p.auto
  · simp only [Bool.false_eq_true, if_false]; exact ⟨p', h1, by rw [← ha]; exact h2⟩
  · simp only [if_true]; unfold Param.setValueAuto; rw [h1]; exact ⟨p', rfl, by rw [← ha]; exact h2⟩

/-- the invariant under which the evaluation step computes `obj` along coordinate `k` of `pt0` -/
def Along (pt0 : List ℝ) (k : Nat) (fn : Fn ℝ) (pl : PList ℝ) : Prop :=
  (∃ q, pl = [q] ∧ q.name = k ∧ q.p.precision = 0 ∧ q.p.constraint = none) ∧
  k < pt0.length ∧ fn.point.length = pt0.length ∧ ∀ i, i ≠ k → fn.point[i]? = pt0[i]?

theorem set_eq_of_agree (pt pt0 : List ℝ) (k : Nat) (x : ℝ) (hl : pt.length = pt0.length)
    (h : ∀ i, i ≠ k → pt[i]? = pt0[i]?) : pt.set k x = pt0.set k x := by
  apply List.ext_getElem?
  intro i
  by_cases hik : i = k
  · subst hik
    simp [List.getElem?_set, hl]
  · rw [List.getElem?_set_ne (Ne.symm hik), List.getElem?_set_ne (Ne.symm hik)]; exact h i hik

theorem iface_f_ok (obj : List ℝ → ℝ) (D : Deriv ℝ) (cap : Option Nat) (fn fn' : Fn ℝ) (pl : PList ℝ) (v : ℝ)
    (h : (Fn.iface obj D cap).f fn pl = .ok (fn', v)) : fn' = (fn.f obj pl).1 ∧ v = (fn.f obj pl).2 := by
  simp only [Fn.iface] at h
  by_cases hcap : capped cap (fn.f obj pl).1 = true
  · rw [if_pos hcap] at h; cases h
  · rw [if_neg hcap] at h
    simp only [Except.ok.injEq] at h
    rw [h]; exact ⟨rfl, rfl⟩

theorem f_single (obj : List ℝ → ℝ) (fn : Fn ℝ) (q : NP ℝ) (k : Nat) (hq : q.name = k) (hk : k < fn.point.length) :
    (fn.f obj [q]).1.point = fn.point.set k q.p.value ∧ (fn.f obj [q]).2 = obj (fn.point.set k q.p.value) := by
  simp only [Fn.f, Fn.setParameters, matchPoint, hq]
  rw [List.getElem?_eq_getElem hk]
  simp only [own_real, and_self]

/-- the objective of the harness, searched along one unconstrained coordinate -/
theorem objective_det (obj : List ℝ → ℝ) (D : Deriv ℝ) (cap : Option Nat) (pt0 : List ℝ) (k : Nat) :
    Det (Fn.iface obj D cap) (fun x => obj (pt0.set k x)) (Along pt0 k) := by
  have key : ∀ fn pl x fn' pl' v, Along pt0 k fn pl → eval0 (Fn.iface obj D cap) fn pl x = .ok (fn', pl', v) →
      v = obj (pt0.set k x) ∧ Along pt0 k fn' pl' ∧ value0 pl' = some x := by
    intro fn pl x fn' pl' v hJ h
    obtain ⟨⟨q, rfl, hq, hp, hc⟩, hk, hl, hag⟩ := hJ
    obtain ⟨p', hs, hv, hp', hc', _⟩ := setValue_free q.p x hp hc
    unfold eval0 at h
    have hset : setValueAt [q] 0 x = .ok [{ q with p := p' }] := by
      rw [setValueAt]; rw [hs]
    rw [hset] at h
    simp only [] at h
    cases hf : (Fn.iface obj D cap).f fn [{ q with p := p' }] with
    | error e => rw [hf] at h; cases h
    | ok r =>
      obtain ⟨fn1, v1⟩ := r
      rw [hf] at h
      simp only [Except.ok.injEq, Prod.mk.injEq] at h
      obtain ⟨rfl, rfl, rfl⟩ := h
      obtain ⟨rfl, rfl⟩ := iface_f_ok obj D cap _ _ _ _ hf
      have hk' : k < fn.point.length := by rw [hl]; exact hk
      obtain ⟨hpt, hval⟩ := f_single obj fn { q with p := p' } k hq hk'
      simp only [hv] at hpt hval
      refine ⟨?_, ⟨⟨_, rfl, hq, hp', hc'⟩, hk, ?_, ?_⟩, ?_⟩
      · rw [hval, set_eq_of_agree _ _ _ _ hl hag]
      · rw [hpt, List.length_set]; exact hl
      · intro i hik
        rw [hpt, List.getElem?_set_ne (Ne.symm hik)]; exact hag i hik
      · simp [value0, hv]
  constructor
  · intro fn pl x fn' pl' v hJ h
    exact ⟨(key _ _ _ _ _ _ hJ h).1, (key _ _ _ _ _ _ hJ h).2.1⟩
  · intro fn pl fn' pl' h1 h2
    exact ⟨h1.1, h2.2⟩
  · intro fn pl x fn' pl' v hJ h
    exact ⟨x, (key _ _ _ _ _ _ hJ h).2.2, rfl⟩
  · intro fn pl x fn' v hJ hx h
    obtain ⟨⟨q, rfl, hq, hp, hc⟩, hk, hl, hag⟩ := hJ
    obtain ⟨rfl, rfl⟩ := iface_f_ok obj D cap _ _ _ _ h
    have hk' : k < fn.point.length := by rw [hl]; exact hk
    obtain ⟨hpt, hval⟩ := f_single obj fn q k hq hk'
    have hqx : q.p.value = x := by simpa [value0] using hx
    rw [hqx] at hpt hval
    refine ⟨?_, ⟨_, rfl, hq, hp, hc⟩, hk, ?_, ?_⟩
    · rw [hval, set_eq_of_agree _ _ _ _ hl hag]
    · rw [hpt, List.length_set]; exact hl
    · intro i hik
      rw [hpt, List.getElem?_set_ne (Ne.symm hik)]; exact hag i hik
  · intro fn pl x pl' hJ h
    obtain ⟨⟨q, rfl, hq, hp, hc⟩, hk, hl, hag⟩ := hJ
    obtain ⟨p', hs, hv, hp', hc', _⟩ := setValue_free q.p x hp hc
    rw [setValueAt, hs] at h
    simp only [Except.ok.injEq] at h
    subst h
    exact ⟨⟨⟨_, rfl, hq, hp', hc'⟩, hk, hl, hag⟩, x, by simp [value0, hv], rfl⟩

end Bpp.Optim
