import BppProofs.Lemmas.TreeObs
import BppProofs.Lemmas.GraphOrient
/-
Every history of operations of the tree container leaves consistent graph tables (C14) and no
pending notification.
-/
namespace Bpp.Graph
open AL

/-- consistent tables, nothing pending -/
def TInv (t : T) : Prop := Consistent t.g ∧ t.g.pending = []

namespace T

theorem tinv_empty (d : Bool) : TInv (T.empty d) := by
  have h := Bpp.C14.consistent_empty d
  exact ⟨h, rfl⟩

theorem lift_g {α : Type} (t : T) (r : GOut α) : (t.lift r).2.g = { r.state with pending := [] } := by cases r <;> rfl

theorem tinv_lift {α : Type} (t : T) (r : GOut α) (hc : r.All Consistent) : TInv (t.lift r).2 := by
  rw [TInv, lift_g]
  exact ⟨consistent_quiet (state_consistent_of_all hc), rfl⟩

theorem tinv_andThen {α β : Type} (r : GOut α × T) (f : α → T → GOut β × T) (h : TInv r.2)
    (hf : ∀ a t', TInv t' → TInv (f a t').2) : TInv (T.andThen r f).2 :=
  T_andThen_prop TInv r f h hf

theorem tinv_touch (r : GOut Unit × T) (h : TInv r.2) : TInv (T.touch r).2 := by
  unfold T.touch; split
  · exact h
  · exact h

theorem tinv_isValid (t : T) (h : TInv t) : TInv t.isValid.2 := by
  unfold TInv; rw [isValid_g]; exact h

theorem tinv_setFather (t : T) (h : TInv t) (n f : Nat) : TInv (t.setFather n f).2 := by
  unfold T.setFather
  split
  · exact h
  · split
    · exact h
    · apply tinv_touch
      apply tinv_andThen
      · split
        · split
          · exact h
          · exact tinv_lift t _ (G.unlink_consistent h.1 _ _)
        · exact h
      · intro _ t' h'; exact tinv_lift t' _ (G.link_consistent h'.1 _ _)

theorem tinv_setFatherE (t : T) (h : TInv t) (n f e : Nat) : TInv (t.setFatherE n f e).2 := by
  unfold T.setFatherE
  split
  · exact h
  · split
    · exact h
    · apply tinv_touch
      apply tinv_andThen
      · split
        · split
          · exact h
          · exact tinv_lift t _ (G.unlink_consistent h.1 _ _)
        · exact h
      · intro _ t' h'; exact tinv_lift t' _ (G.linkE_consistent h'.1 _ _ _)

theorem tinv_removeSonsFold (n : Nat) (sons : List Nat) : ∀ (r : GOut Unit × T), TInv r.2 →
    TInv (sons.foldl (fun acc s => T.andThen acc (fun _ t' => t'.removeSon n s)) r).2 := by
  induction sons with
  | nil => intro r h; exact h
  | cons s rest ih =>
    intro r h
    apply ih
    apply tinv_andThen _ _ h
    intro _ t' h'
    exact tinv_touch _ (tinv_lift t' _ (G.unlink_consistent h'.1 _ _))

theorem tinv_removeSons (t : T) (h : TInv t) (n : Nat) : TInv (t.removeSons n).2 := by
  unfold T.removeSons
  split
  · exact h
  · rename_i sons _
    have := tinv_removeSonsFold n sons (.ok () t.g, t) h
    simp only
    split <;> exact this

theorem tinv_makeUndirected (t : T) (h : TInv t) : TInv t.makeUndirected.2 := by
  unfold T.makeUndirected; split
  · exact h
  · exact tinv_lift t _ (G.makeUndirected_consistent h.1)

theorem tinv_unRoot (t : T) (h : TInv t) (j : Bool) : TInv (t.unRoot j).2 := by
  unfold T.unRoot
  apply tinv_andThen
  · split
    · split
      · exact h
      · refine tinv_andThen _ _ (tinv_lift t _ (G.unlink_consistent h.1 _ _)) ?_
        intro _ t1 h1
        refine tinv_andThen _ _ (tinv_lift t1 _ (G.unlink_consistent h1.1 _ _)) ?_
        intro _ t2 h2
        refine tinv_andThen _ _ (tinv_lift t2 _ (G.link_consistent h2.1 _ _)) ?_
        intro _ t3 h3
        exact tinv_lift t3 _ (G.setRoot_consistent h3.1 _)
      · exact h
    · exact h
  · intro _ t' h'; exact tinv_makeUndirected t' h'

theorem tinv_getSubtree (t : T) (h : TInv t) (e : Bool) (n : Nat) : TInv (t.getSubtree e n).2 := by
  unfold T.getSubtree
  have h0 := tinv_isValid t h
  rcases hv : t.isValid with ⟨v, t0⟩
  rw [hv] at h0
  simp only at h0 ⊢
  split
  · split <;> exact h0
  all_goals exact h0

theorem tinv_orientate (t : T) (h : TInv t) : TInv t.orientate.2 := by
  have hc := G.orientate_consistent h.1
  unfold T.orientate
  rcases ho : t.g.orientate with ⟨u, g'⟩ | g' <;> rw [ho] at hc <;> simp only
  · exact ⟨consistent_quiet hc, rfl⟩
  · exact ⟨consistent_quiet hc, rfl⟩

theorem tinv_step (t : T) (h : TInv t) (op : TOp) : TInv (t.step op) := by
  cases op with
  | createNodeFromNode o => exact tinv_lift t _ (G.createNodeFromNode_consistent h.1 _)
  | createNodeOnEdge e => exact tinv_lift t _ (G.createNodeOnEdge_consistent h.1 _)
  | createNodeFromEdge e => exact tinv_lift t _ (G.createNodeFromEdge_consistent h.1 _)
  | orientate => exact tinv_orientate t h
  | createNode => exact tinv_lift t _ (G.createNode_consistent h.1)
  | link a b => exact tinv_lift t _ (G.link_consistent h.1 _ _)
  | unlink a b => exact tinv_lift t _ (G.unlink_consistent h.1 _ _)
  | deleteNode n => exact tinv_lift t _ (G.deleteNode_consistent h.1 _)
  | setRoot n => exact tinv_lift t _ (G.setRoot_consistent h.1 _)
  | makeDirected =>
    have := kept_makeDirected (t := t) h.1 h.2
    exact ⟨this.cons, this.quiet⟩
  | makeUndirected => exact tinv_makeUndirected t h
  | setFather n f => exact tinv_setFather t h n f
  | addSon n s => exact tinv_touch _ (tinv_lift t _ (G.link_consistent h.1 _ _))
  | removeSon n s => exact tinv_touch _ (tinv_lift t _ (G.unlink_consistent h.1 _ _))
  | setFatherE n f e => exact tinv_setFatherE t h n f e
  | addSonE n s e => exact tinv_touch _ (tinv_lift t _ (G.linkE_consistent h.1 _ _ _))
  | removeSons n => exact tinv_removeSons t h n
  | rootAt n =>
    simp only [T.step]
    rcases hr : t.rootAt n with r | _ | _ | _
    · have := kept_rootAt t h.1 h.2 n r hr
      exact ⟨this.cons, this.quiet⟩
    · exact h
    · exact h
    · exact h
  | unRoot j => exact tinv_unRoot t h j
  | isValid => exact tinv_isValid t h
  | getSubtree e n => exact tinv_getSubtree t h e n

theorem tinv_run (ops : List TOp) : ∀ t : T, TInv t → TInv (t.run ops) := by
  induction ops with
  | nil => intro t h; exact h
  | cons op r ih => intro t h; exact ih _ (tinv_step t h op)

end T
end Bpp.Graph
