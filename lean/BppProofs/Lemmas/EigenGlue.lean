import BppModel.EigenGlue
import BppProofs.Lemmas.ScalarReal
import Mathlib.Tactic.Ring
import Mathlib.Tactic.FieldSimp
import Mathlib.Tactic.Linarith
import Mathlib.LinearAlgebra.Matrix.NonsingularInverse
import Mathlib.LinearAlgebra.Matrix.Trace
import Mathlib.LinearAlgebra.Matrix.Determinant.Basic
import Mathlib.Analysis.Normed.Algebra.MatrixExponential
import Mathlib.Analysis.SpecialFunctions.Exponential
/-!
Helper lemmas for C06 (`BppModel/EigenGlue.lean` at `ℝ`).
-/
namespace Bpp.EigenGlue
open Bpp Bpp.ScalarReal Matrix

/-- `NumTools::abs` is the absolute value -/
theorem nabs_eq (a : ℝ) : nabs a = |a| := by
  unfold nabs
  simp only [ScalarReal.zero_eq]
  split
  · rename_i h; rw [ScalarReal.ltb_iff] at h; exact (abs_of_neg h).symm
  · rename_i h; rw [ScalarReal.ltb_iff, not_lt] at h; exact (abs_of_nonneg h).symm

/-! ### symmetry test -/
theorem isSymmetric_iff (n : Nat) (A : FMat ℝ) :
    isSymmetric n A = true ↔ ∀ i j, i < n → j < n → A i j = A j i := by
  simp only [isSymmetric, List.all_eq_true, List.mem_range, ScalarReal.eqb_iff]
  constructor
  · intro h i j hi hj; exact h j hj i hi
  · intro h j hj i hi; exact h i j hi hj

/-! ### getD -/
theorem writeAt_lt (row : Array ℝ) (j : Nat) (x : ℝ) (h : j < row.size) :
    writeAt row j x = .ok (row.set! j x) := by simp [writeAt, h]
theorem writeAt_ge (row : Array ℝ) (j : Nat) (x : ℝ) (h : ¬ j < row.size) :
    writeAt row j x = .error .ub := by simp [writeAt, h]

/-- the column indices written in row `i` are inside the row -/
def InRangeAt (n : Nat) (e : Nat → ℝ) (i : Nat) : Prop :=
  (0 < e i → i + 1 < n) ∧ (e i < 0 → 0 < i)

theorem getDRow_ok (n : Nat) (d e : Nat → ℝ) (i : Nat) (hi : i < n) (hr : InRangeAt n e i) :
    ∃ row, getDRow n d e i = .ok row ∧ row.size = n ∧ ∀ j, j < n → row[j]? = some (blockEntry d e i j) := by
  obtain ⟨hp, hm⟩ := hr
  unfold getDRow
  simp only [bind, Except.bind, ScalarReal.gtb_iff, ScalarReal.ltb_iff, ScalarReal.zero_eq]
  rw [writeAt_lt _ _ _ (by simpa using hi)]
  simp only []
  by_cases h1 : 0 < e i
  · have := hp h1
    simp only [h1, if_true]
    rw [writeAt_lt _ _ _ (by simpa using this)]
    refine ⟨_, rfl, by simp, ?_⟩
    intro j hj
    simp only [blockEntry, ScalarReal.gtb_iff, ScalarReal.ltb_iff, ScalarReal.zero_eq, Array.getElem?_setIfInBounds, Array.set!_eq_setIfInBounds,
      Array.getElem?_replicate, Array.size_setIfInBounds, Array.size_replicate]
    by_cases hji : j = i
    · subst hji; simp [hj]
    · by_cases hj1 : j = i + 1
      · subst hj1; simp [h1, hj]
      · have : ¬ e i < 0 := not_lt.mpr (le_of_lt h1)
        simp [hji, hj1, Ne.symm hji, Ne.symm hj1, hj, this]
  · simp only [h1, if_false]
    by_cases h2 : e i < 0
    · have h0 := hm h2
      have hne : i ≠ 0 := by omega
      simp only [h2, if_true, hne, if_false]
      rw [writeAt_lt _ _ _ (by simp; omega)]
      refine ⟨_, rfl, by simp, ?_⟩
      intro j hj
      simp only [blockEntry, ScalarReal.gtb_iff, ScalarReal.ltb_iff, ScalarReal.zero_eq, Array.getElem?_setIfInBounds, Array.set!_eq_setIfInBounds,
        Array.getElem?_replicate, Array.size_setIfInBounds, Array.size_replicate]
      by_cases hji : j = i
      · subst hji
        have : ¬ (j - 1 = j) := by omega
        simp [hj, this]
      · by_cases hj1 : j + 1 = i
        · have : i - 1 = j := by omega
          simp [hji, this, hj, h2, h1, hj1]
        · have : ¬ (i - 1 = j) := by omega
          simp [hji, Ne.symm hji, this, hj, h1, hj1]
    · simp only [h2, if_false]
      refine ⟨_, rfl, by simp, ?_⟩
      intro j hj
      simp only [blockEntry, ScalarReal.gtb_iff, ScalarReal.ltb_iff, ScalarReal.zero_eq, Array.getElem?_setIfInBounds, Array.set!_eq_setIfInBounds,
        Array.getElem?_replicate, Array.size_replicate]
      by_cases hji : j = i
      · subst hji; simp [hj]
      · simp [hji, Ne.symm hji, hj, h1, h2]

theorem getDRow_ub (n : Nat) (d e : Nat → ℝ) (i : Nat) (hi : i < n) (hr : ¬ InRangeAt n e i) :
    getDRow n d e i = .error .ub := by
  unfold getDRow
  simp only [bind, Except.bind, ScalarReal.gtb_iff, ScalarReal.ltb_iff, ScalarReal.zero_eq]
  rw [writeAt_lt _ _ _ (by simpa using hi)]
  simp only []
  unfold InRangeAt at hr
  by_cases h1 : 0 < e i
  · simp only [h1, if_true]
    have : ¬ i + 1 < n := by
      intro h; apply hr; exact ⟨fun _ => h, fun h2 => absurd h1 (not_lt.mpr (le_of_lt h2))⟩
    exact writeAt_ge _ _ _ (by simpa using this)
  · simp only [h1, if_false]
    by_cases h2 : e i < 0
    · have : i = 0 := by
        by_contra h; apply hr; exact ⟨fun h => absurd h h1, fun _ => by omega⟩
      subst this; simp [h2]
    · exact absurd ⟨fun h => absurd h h1, fun h => absurd h h2⟩ hr


theorem getDRows_ok (n : Nat) (d e : Nat → ℝ) (k : Nat) (hk : k ≤ n) (hr : ∀ i, i < k → InRangeAt n e i) :
    ∃ rows, getDRows n d e k = .ok rows ∧ rows.length = k ∧
      ∀ i j, i < k → j < n → entry? rows i j = some (blockEntry d e i j) := by
  induction k with
  | zero => exact ⟨[], rfl, rfl, fun i j hi => absurd hi (Nat.not_lt_zero _)⟩
  | succ k ih =>
    obtain ⟨rows, h1, h2, h3⟩ := ih (by omega) (fun i hi => hr i (by omega))
    obtain ⟨row, g1, g2, g3⟩ := getDRow_ok n d e k (by omega) (hr k (by omega))
    refine ⟨rows ++ [row], ?_, by simp [h2], ?_⟩
    · simp only [getDRows, bind, Except.bind, h1, g1, pure, Except.pure]
    · intro i j hi hj
      unfold entry?
      by_cases hik : i < k
      · have := h3 i j hik hj
        unfold entry? at this
        rw [List.getElem?_append_left (by omega)]
        exact this
      · have hik : i = k := by omega
        subst hik
        rw [List.getElem?_append_right (by omega)]
        simp [h2, g3 j hj]

theorem getDRows_ub (n : Nat) (d e : Nat → ℝ) (k : Nat) (hk : k ≤ n) (hr : ∃ i, i < k ∧ ¬ InRangeAt n e i) :
    getDRows n d e k = .error .ub := by
  induction k with
  | zero => obtain ⟨i, hi, _⟩ := hr; exact absurd hi (Nat.not_lt_zero _)
  | succ k ih =>
    obtain ⟨i, hi, hbad⟩ := hr
    by_cases hall : ∃ i, i < k ∧ ¬ InRangeAt n e i
    · simp only [getDRows, bind, Except.bind, ih (by omega) hall]
    · have hall' : ∀ i, i < k → InRangeAt n e i := by
        intro i hi; by_contra h; exact hall ⟨i, hi, h⟩
      obtain ⟨rows, h1, _, _⟩ := getDRows_ok n d e k (by omega) hall'
      have hik : i = k := by
        by_contra h; exact hbad (hall' i (by omega))
      subst hik
      simp only [getDRows, bind, Except.bind, h1, getDRow_ub n d e i (by omega) hbad]


/-- the shape of `(d, e)` produced by `hqr2`: conjugate pairs stored as neighbours, positive
imaginary part first -/
def PairsWF (n : Nat) (d e : Nat → ℝ) : Prop :=
  ∀ i, i < n →
    (0 < e i → i + 1 < n ∧ e (i + 1) = -e i ∧ d (i + 1) = d i) ∧
    (e i < 0 → 0 < i ∧ e (i - 1) = -e i ∧ d (i - 1) = d i)

theorem pairsWFb_iff (n : Nat) (d e : Nat → ℝ) : pairsWFb n d e = true ↔ PairsWF n d e := by
  unfold pairsWFb PairsWF
  simp only [List.all_eq_true, List.mem_range, Bool.and_eq_true, ScalarReal.gtb_iff, ScalarReal.ltb_iff,
    ScalarReal.zero_eq]
  constructor
  · intro h i hi
    obtain ⟨h1, h2⟩ := h i hi
    constructor
    · intro hp; simpa [hp, and_assoc] using h1
    · intro hm; simpa [hm, and_assoc] using h2
  · intro h i hi
    obtain ⟨h1, h2⟩ := h i hi
    constructor
    · by_cases hp : 0 < e i
      · simpa [hp, and_assoc] using h1 hp
      · simp [hp]
    · by_cases hm : e i < 0
      · simpa [hm, and_assoc] using h2 hm
      · simp [hm]

theorem PairsWF.inRange {n : Nat} {d e : Nat → ℝ} (h : PairsWF n d e) : ∀ i, i < n → InRangeAt n e i :=
  fun i hi => ⟨fun hp => ((h i hi).1 hp).1, fun hm => ((h i hi).2 hm).1⟩


/-! ### the glue of pow / exp as Mathlib matrices -/
/-- the `n × n` Mathlib matrix seen through `operator()(i, j)` -/
def toMatrix (n : Nat) (F : FMat ℝ) : Matrix (Fin n) (Fin n) ℝ := fun i j => F i j

theorem foldl_add_eq_sum (n : Nat) (f : Nat → ℝ) :
    (List.range n).foldl (fun acc k => acc + f k) (0 : ℝ) = ∑ k ∈ Finset.range n, f k := by
  induction n with
  | zero => simp
  | succ n ih => rw [List.range_succ, List.foldl_append, ih, Finset.sum_range_succ]; rfl

theorem multDiagEntry_eq (n : Nat) (A : FMat ℝ) (D : Nat → ℝ) (B : FMat ℝ) (i j : Nat) :
    multDiagEntry n A D B i j = ∑ k ∈ Finset.range n, A i k * B k j * D k := by
  unfold multDiagEntry
  rw [ScalarReal.zero_eq]
  exact foldl_add_eq_sum n (fun k => A i k * B k j * D k)

theorem multEntry_eq (n : Nat) (A B : FMat ℝ) (i j : Nat) :
    multEntry n A B i j = ∑ k ∈ Finset.range n, A i k * B k j := by
  unfold multEntry
  rw [ScalarReal.zero_eq]
  exact foldl_add_eq_sum n (fun k => A i k * B k j)

/-- the triple loop of `mult(A, D, B, O)` computes `A · diag(D) · B` -/
theorem toMatrix_multDiag (n : Nat) (A : FMat ℝ) (D : Nat → ℝ) (B : FMat ℝ) :
    toMatrix n (multDiagEntry n A D B) = toMatrix n A * diagonal (fun k : Fin n => D k) * toMatrix n B := by
  ext i j
  rw [Matrix.mul_apply]
  simp only [Matrix.mul_diagonal, toMatrix, multDiagEntry_eq]
  rw [← Fin.sum_univ_eq_sum_range (fun k => A i k * B k j * D k)]
  apply Finset.sum_congr rfl; intro k _; ring

theorem toMatrix_mult (n : Nat) (A B : FMat ℝ) :
    toMatrix n (multEntry n A B) = toMatrix n A * toMatrix n B := by
  ext i j
  simp only [toMatrix, multEntry_eq, Matrix.mul_apply]
  rw [← Fin.sum_univ_eq_sum_range (fun k => A i k * B k j)]

section Algebra
variable {n : Nat} (A V W : Matrix (Fin n) (Fin n) ℝ) (lam : Fin n → ℝ)

theorem eq_conj_of_eigen (hAV : A * V = V * diagonal lam) (hVW : V * W = 1) : A = V * diagonal lam * W := by
  calc A = A * (V * W) := by rw [hVW, mul_one]
    _ = (A * V) * W := by rw [Matrix.mul_assoc]
    _ = V * diagonal lam * W := by rw [hAV]

theorem conj_pow (hVW : V * W = 1) (k : Nat) :
    (V * diagonal lam * W) ^ k = V * diagonal (fun i => lam i ^ k) * W := by
  have hWV : W * V = 1 := mul_eq_one_comm.mp hVW
  induction k with
  | zero => simp [hVW]
  | succ k ih =>
    rw [pow_succ, ih]
    calc V * diagonal (fun i => lam i ^ k) * W * (V * diagonal lam * W)
        = V * diagonal (fun i => lam i ^ k) * (W * V) * diagonal lam * W := by
          simp only [Matrix.mul_assoc]
      _ = V * (diagonal (fun i => lam i ^ k) * diagonal lam) * W := by
          rw [hWV]; simp only [Matrix.mul_assoc, Matrix.mul_one]
      _ = V * diagonal (fun i => lam i ^ (k + 1)) * W := by
          rw [Matrix.diagonal_mul_diagonal]; simp only [pow_succ]

theorem conj_mul_conj (hVW : V * W = 1) (f g : Fin n → ℝ) :
    (V * diagonal f * W) * (V * diagonal g * W) = V * diagonal (fun i => f i * g i) * W := by
  have hWV : W * V = 1 := mul_eq_one_comm.mp hVW
  calc V * diagonal f * W * (V * diagonal g * W)
      = V * diagonal f * (W * V) * diagonal g * W := by simp only [Matrix.mul_assoc]
    _ = V * (diagonal f * diagonal g) * W := by rw [hWV]; simp only [Matrix.mul_assoc, Matrix.mul_one]
    _ = V * diagonal (fun i => f i * g i) * W := by rw [Matrix.diagonal_mul_diagonal]

theorem conj_exp (hVW : V * W = 1) :
    NormedSpace.exp (V * diagonal lam * W) = V * diagonal (fun i => Real.exp (lam i)) * W := by
  have hWV : W * V = 1 := mul_eq_one_comm.mp hVW
  have hu : IsUnit V := ⟨⟨V, W, hVW, hWV⟩, rfl⟩
  have hinv : V⁻¹ = W := Matrix.inv_eq_right_inv hVW
  rw [← hinv, Matrix.exp_conj V _ hu, Matrix.exp_diagonal]
  have : NormedSpace.exp lam = fun i => Real.exp (lam i) := by
    funext i; rw [Pi.coe_exp, Real.exp_eq_exp_ℝ]
  rw [this]

end Algebra

/-! ### trace and determinant of the assembled block-diagonal matrix -/

/-- Laplace expansion along a last row that vanishes off the diagonal -/
theorem det_last_row {n : Nat} (M : Matrix (Fin (n + 1)) (Fin (n + 1)) ℝ)
    (h : ∀ j : Fin n, M (Fin.last n) j.castSucc = 0) :
    M.det = M (Fin.last n) (Fin.last n) * (M.submatrix Fin.castSucc Fin.castSucc).det := by
  rw [Matrix.det_succ_row M (Fin.last n), Fin.sum_univ_castSucc]
  have : ∑ j : Fin n, (-1 : ℝ) ^ ((Fin.last n : ℕ) + (j.castSucc : ℕ)) * M (Fin.last n) j.castSucc *
      (M.submatrix (Fin.last n).succAbove j.castSucc.succAbove).det = 0 := by
    apply Finset.sum_eq_zero; intro j _; rw [h j]; ring
  rw [this, zero_add, Fin.succAbove_last]
  have : (-1 : ℝ) ^ ((Fin.last n : ℕ) + (Fin.last n : ℕ)) = 1 := by
    rw [← two_mul, pow_mul]; simp
  rw [this, one_mul]

theorem succAbove_penult_castSucc {n : Nat} (j : Fin n) :
    ((Fin.last n).castSucc : Fin (n + 2)).succAbove j.castSucc = j.castSucc.castSucc := by
  apply Fin.succAbove_of_castSucc_lt
  simp [Fin.lt_def]

theorem succAbove_penult_last {n : Nat} :
    ((Fin.last n).castSucc : Fin (n + 2)).succAbove (Fin.last n) = Fin.last (n + 1) := by
  rw [Fin.succAbove_of_le_castSucc _ _ (le_refl _)]
  simp

/-- the last two rows vanish outside the trailing 2 × 2 block -/
theorem det_last_two_rows {n : Nat} (M : Matrix (Fin (n + 2)) (Fin (n + 2)) ℝ)
    (ha : ∀ j : Fin n, M (Fin.last n).castSucc j.castSucc.castSucc = 0)
    (hb : ∀ j : Fin n, M (Fin.last (n + 1)) j.castSucc.castSucc = 0) :
    M.det = (M (Fin.last n).castSucc (Fin.last n).castSucc * M (Fin.last (n + 1)) (Fin.last (n + 1))
        - M (Fin.last n).castSucc (Fin.last (n + 1)) * M (Fin.last (n + 1)) (Fin.last n).castSucc) *
      (M.submatrix (fun j : Fin n => j.castSucc.castSucc) (fun j : Fin n => j.castSucc.castSucc)).det := by
  rw [Matrix.det_succ_row M (Fin.last (n + 1)), Fin.sum_univ_castSucc, Fin.sum_univ_castSucc]
  have h0 : ∑ j : Fin n, (-1 : ℝ) ^ ((Fin.last (n + 1) : ℕ) + (j.castSucc.castSucc : ℕ)) *
      M (Fin.last (n + 1)) j.castSucc.castSucc *
      (M.submatrix (Fin.last (n + 1)).succAbove j.castSucc.castSucc.succAbove).det = 0 := by
    apply Finset.sum_eq_zero; intro j _; rw [hb j]; ring
  rw [h0, zero_add, Fin.succAbove_last]
  -- the minor of (b, b)
  have h1 : (M.submatrix Fin.castSucc Fin.castSucc).det =
      M (Fin.last n).castSucc (Fin.last n).castSucc *
      (M.submatrix (fun j : Fin n => j.castSucc.castSucc) (fun j : Fin n => j.castSucc.castSucc)).det := by
    rw [det_last_row _ (fun j => by simpa using ha j)]
    rfl
  -- the minor of (b, a)
  have h2 : (M.submatrix Fin.castSucc ((Fin.last n).castSucc : Fin (n + 2)).succAbove).det =
      M (Fin.last n).castSucc (Fin.last (n + 1)) *
      (M.submatrix (fun j : Fin n => j.castSucc.castSucc) (fun j : Fin n => j.castSucc.castSucc)).det := by
    rw [det_last_row _ (fun j => by simpa [succAbove_penult_castSucc] using ha j)]
    simp only [Matrix.submatrix_apply, succAbove_penult_last, Matrix.submatrix_submatrix]
    congr 2
    ext i j
    simp only [Matrix.submatrix_apply, Function.comp, succAbove_penult_castSucc]
  rw [h1, h2]
  have s1 : (-1 : ℝ) ^ ((Fin.last (n + 1) : ℕ) + ((Fin.last n).castSucc : Fin (n + 2)).val) = -1 := by
    simp only [Fin.val_last, Fin.val_castSucc]
    rw [show n + 1 + n = 2 * n + 1 by ring, pow_succ, pow_mul]; simp
  have s2 : (-1 : ℝ) ^ ((Fin.last (n + 1) : ℕ) + (Fin.last (n + 1) : ℕ)) = 1 := by
    rw [← two_mul, pow_mul]; simp
  rw [s1, s2]
  ring


/-- contribution of position `i` to the product of the spectrum -/
noncomputable def factor (d e : Nat → ℝ) (i : Nat) : ℝ :=
  if 0 < e i then d i * d i + e i * e i else if e i < 0 then 1 else d i

theorem spectrumProd_eq (n : Nat) (d e : Nat → ℝ) :
    spectrumProd n d e = ∏ i ∈ Finset.range n, factor d e i := by
  unfold spectrumProd
  rw [ScalarReal.one_eq]
  induction n with
  | zero => simp
  | succ n ih =>
    rw [List.range_succ, List.foldl_append, ih, Finset.prod_range_succ]
    simp only [List.foldl_cons, List.foldl_nil, factor, ScalarReal.gtb_iff, ScalarReal.ltb_iff, ScalarReal.zero_eq]
    split
    · rfl
    · split
      · rw [mul_one]
      · rfl

theorem spectrumSum_eq (n : Nat) (d : Nat → ℝ) :
    spectrumSum n d = ∑ i ∈ Finset.range n, d i := by
  unfold spectrumSum
  rw [ScalarReal.zero_eq]
  exact foldl_add_eq_sum n d

theorem toMatrix_castSucc (n : Nat) (F : FMat ℝ) :
    (toMatrix (n + 1) F).submatrix Fin.castSucc Fin.castSucc = toMatrix n F := by
  ext i j; simp [toMatrix]

theorem PairsWF.prefix_real {n : Nat} {d e : Nat → ℝ} (h : PairsWF (n + 1) d e) (he : e n = 0) :
    PairsWF n d e := by
  intro i hi
  obtain ⟨h1, h2⟩ := h i (by omega)
  refine ⟨fun hp => ?_, h2⟩
  obtain ⟨a, b, c⟩ := h1 hp
  refine ⟨?_, b, c⟩
  by_contra hlt
  have : i + 1 = n := by omega
  rw [this, he] at b
  linarith

theorem PairsWF.prefix_pair {n : Nat} {d e : Nat → ℝ} (h : PairsWF (n + 2) d e) (he : 0 < e n) :
    PairsWF n d e := by
  intro i hi
  obtain ⟨h1, h2⟩ := h i (by omega)
  refine ⟨fun hp => ?_, h2⟩
  obtain ⟨a, b, c⟩ := h1 hp
  refine ⟨?_, b, c⟩
  by_contra hlt
  have : i + 1 = n := by omega
  rw [this] at b
  linarith

/-- the determinant of the block-diagonal matrix assembled by `getD` is the product of the
spectrum: `d` for a real eigenvalue, `d² + e²` for a conjugate pair -/
theorem det_blockEntry (n : Nat) (d e : Nat → ℝ) (hwf : PairsWF n d e) :
    (toMatrix n (blockEntry d e)).det = ∏ i ∈ Finset.range n, factor d e i := by
  induction n using Nat.strong_induction_on with
  | _ n ih =>
    match n, ih, hwf with
    | 0, _, _ => simp
    | m + 1, ih, hwf =>
      obtain ⟨hp, hm⟩ := hwf m (by omega)
      rcases lt_trichotomy (e m) 0 with hneg | hzero | hpos
      · -- the last position closes a conjugate pair
        obtain ⟨hm0, hem, hdm⟩ := hm hneg
        obtain ⟨k, rfl⟩ : ∃ k, m = k + 1 := ⟨m - 1, by omega⟩
        simp only [Nat.add_sub_cancel] at hem hdm
        have hek : 0 < e k := by rw [hem]; linarith
        have hnek : ¬ e k < 0 := not_lt.mpr (le_of_lt hek)
        have hnpos : ¬ 0 < e (k + 1) := not_lt.mpr (le_of_lt hneg)
        rw [det_last_two_rows]
        · have hTL : (toMatrix (k + 2) (blockEntry d e)).submatrix (fun j : Fin k => j.castSucc.castSucc)
              (fun j : Fin k => j.castSucc.castSucc) = toMatrix k (blockEntry d e) := by
            ext i j; simp [toMatrix]
          rw [hTL, ih k (by omega) (hwf.prefix_pair hek), Finset.prod_range_succ, Finset.prod_range_succ]
          have f1 : factor d e k = d k * d k + e k * e k := by simp [factor, hek]
          have f2 : factor d e (k + 1) = 1 := by simp [factor, hnpos, hneg]
          rw [f1, f2]
          simp only [toMatrix, Fin.val_castSucc, Fin.val_last, blockEntry, ScalarReal.gtb_iff, ScalarReal.ltb_iff,
            ScalarReal.zero_eq]
          simp only [hek, hneg, if_true, and_self, and_true, Nat.succ_ne_self, if_false]
          rw [if_neg (by omega), if_neg (fun h => absurd h.1 (by omega)), hem, hdm]
          ring
        · intro j
          have hj := j.isLt
          simp only [toMatrix, Fin.val_castSucc, Fin.val_last, blockEntry, ScalarReal.gtb_iff, ScalarReal.ltb_iff,
            ScalarReal.zero_eq]
          rw [if_neg (by omega), if_neg (fun h => absurd h.1 (by omega)), if_neg (fun h => hnek h.2)]
        · intro j
          have hj := j.isLt
          simp only [toMatrix, Fin.val_castSucc, Fin.val_last, blockEntry, ScalarReal.gtb_iff, ScalarReal.ltb_iff,
            ScalarReal.zero_eq]
          rw [if_neg (by omega), if_neg (fun h => absurd h.1 (by omega)), if_neg (fun h => absurd h.1 (by omega))]
      · -- a real eigenvalue in the last position
        have hn1 : ¬ 0 < e m := by rw [hzero]; exact lt_irrefl 0
        have hn2 : ¬ e m < 0 := by rw [hzero]; exact lt_irrefl 0
        rw [det_last_row, toMatrix_castSucc, ih m (by omega) (hwf.prefix_real hzero), Finset.prod_range_succ]
        · have f1 : factor d e m = d m := by simp [factor, hn1, hn2]
          rw [f1]
          simp only [toMatrix, Fin.val_last, blockEntry, if_true]
          ring
        · intro j
          have hj := j.isLt
          simp only [toMatrix, Fin.val_castSucc, Fin.val_last, blockEntry, ScalarReal.gtb_iff, ScalarReal.ltb_iff,
            ScalarReal.zero_eq]
          rw [if_neg (by omega), if_neg (fun h => absurd h.1 (by omega)), if_neg (fun h => hn2 h.2)]
      · exact absurd (hp hpos).1 (by omega)


theorem eq_conj_of_similar {n : Nat} (A V W D : Matrix (Fin n) (Fin n) ℝ)
    (hAV : A * V = V * D) (hVW : V * W = 1) : A = V * D * W := by
  calc A = A * (V * W) := by rw [hVW, mul_one]
    _ = (A * V) * W := by rw [Matrix.mul_assoc]
    _ = V * D * W := by rw [hAV]

theorem trace_of_similar {n : Nat} (A V W D : Matrix (Fin n) (Fin n) ℝ)
    (hAV : A * V = V * D) (hVW : V * W = 1) : A.trace = D.trace := by
  have hWV : W * V = 1 := mul_eq_one_comm.mp hVW
  rw [eq_conj_of_similar A V W D hAV hVW, Matrix.trace_mul_cycle, hWV, Matrix.one_mul]

theorem det_of_similar {n : Nat} (A V W D : Matrix (Fin n) (Fin n) ℝ)
    (hAV : A * V = V * D) (hVW : V * W = 1) : A.det = D.det := by
  have h1 : V.det * W.det = 1 := by rw [← Matrix.det_mul, hVW, Matrix.det_one]
  rw [eq_conj_of_similar A V W D hAV hVW, Matrix.det_mul, Matrix.det_mul]
  calc V.det * D.det * W.det = (V.det * W.det) * D.det := by ring
    _ = D.det := by rw [h1, one_mul]

theorem trace_blockEntry (n : Nat) (d e : Nat → ℝ) :
    (toMatrix n (blockEntry d e)).trace = ∑ i ∈ Finset.range n, d i := by
  rw [← Fin.sum_univ_eq_sum_range d n]
  simp [Matrix.trace, toMatrix, blockEntry]

end Bpp.EigenGlue
