import BppModel.EigenGlue
import BppProofs.Lemmas.ScalarReal
import Mathlib.Tactic.Ring
import Mathlib.Tactic.FieldSimp
import Mathlib.Tactic.Linarith
/-!
Helper lemmas for C06 (`BppModel/EigenGlue.lean` at `ℝ`).
-/
namespace Bpp.EigenGlue
open Bpp Bpp.ScalarReal

/-- `NumTools::abs` is the absolute value -/
theorem nabs_eq (a : ℝ) : nabs a = |a| := by
  unfold nabs
  simp only [ScalarReal.zero_eq]
  split
  · rename_i h; rw [ScalarReal.ltb_iff] at h; exact (abs_of_neg h).symm
  · rename_i h; rw [ScalarReal.ltb_iff, not_lt] at h; exact (abs_of_nonneg h).symm

end Bpp.EigenGlue
