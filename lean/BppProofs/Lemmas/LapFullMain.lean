import BppProofs.Lemmas.LapFullArr
import BppProofs.Lemmas.LapFullFlip
/-! Helper lemmas for C04 (`lap`, the whole routine): every augmentation removes one free row; the
final loop; the routine as a whole. -/
namespace Bpp.Mx.Lap
open Bpp Bpp.Mx

/-- invariant of `for (f = 0; f < numFree; f++)`: the rows `free[f..N-1]` are free -/
structure AugInv (n : Nat) (c : Nat → Nat → ℝ) (N f : Nat) (s : Core ℝ) : Prop where
  nf : s.numFree = N
  inv : Inv n c s.rowSol s.colSol s.v (FL s.free (fun t => f ≤ t ∧ t < N))
  inj : InjOnI s.free (fun t => f ≤ t ∧ t < N)
  le : N ≤ n

theorem augmentRow_good {n : Nat} (hn : n < 32768) {c : Nat → Nat → ℝ} (B : Prop) (fuel : Nat) (hB : B → n + 1 ≤ fuel)
    (N f : Nat) (hf : f < N) (s : Core ℝ) (h : AugInv n c N f s) :
    Good B (augmentRow fuel n c f s) (AugInv n c N (f + 1)) := by
  have hfn : f < n := by have := h.le; omega
  have hFfr : FL s.free (fun t => f ≤ t ∧ t < N) (s.free f) := ⟨f, ⟨Nat.le_refl _, hf⟩, rfl⟩
  have hfrn := (h.inv.freeOk _ hFfr).1
  unfold augmentRow
  simp only [rd_of_lt _ hfn, hfrn, not_true_eq_false, if_false]
  rcases djLoop_good hn h.inv hFfr B fuel _ (djInit_inv n c s.colSol s.v (s.free f) hfrn Scalar.zero)
      (fun hb => by have := hB hb; simp [djInit]; omega) with ⟨p, hp, hpost⟩ | ⟨he, hb⟩
  swap
  · rw [he]; exact Or.inr ⟨rfl, hb⟩
  obtain ⟨dj, e⟩ := p
  rw [hp]
  simp only at hpost ⊢
  have hlastn : dj.last ≤ n := by have := hpost.lastlow; have := hpost.lown; omega
  rcases priceUpdate_good n dj s.v hpost.perm hlastn B with ⟨v', hv', hv1, hv2⟩ | ⟨he, hb⟩
  swap
  · rw [he]; exact Or.inr ⟨rfl, hb⟩
  rw [hv']
  simp only
  have hat := augTight_of_post h.inv hpost v' hv1 hv2
  obtain ⟨me, hme1, hme2, hme3⟩ := hpost.epos
  have hflip0 : FlipInv n c s.rowSol s.colSol v' (FL s.free (fun t => f ≤ t ∧ t < N)) dj.colList s.rowSol s.colSol me := by
    refine ⟨fun j hj _ i hi => h.inv.colOk j hj i hi, ?_, fun i hi => (h.inv.freeOk i hi).2,
      fun j hj _ i hi => hat.nt1 j hj i hi, fun _ _ => rfl, fun _ _ _ _ => rfl⟩
    intro i hi hnF
    obtain ⟨j, hj, h1, h2⟩ := h.inv.rowOk i hi hnF
    refine ⟨j, hj, h1, h2, fun e' => ?_⟩
    rw [e', hme3] at h2
    have := hpost.eun
    omega
  rcases flipLoop_good hn h.inv hFfr hpost.perm hpost.lown hpost.predlt hat B fuel s.rowSol s.colSol me hme2 (Or.inr hme3)
      hflip0 (fun hb => by have := hB hb; omega) with ⟨q, hq, hinv'⟩ | ⟨he, hb⟩
  swap
  · rw [← hme3, he]; exact Or.inr ⟨rfl, hb⟩
  obtain ⟨rs', cs'⟩ := q
  rw [← hme3, hq]
  apply Good.ok
  simp only at hinv'
  refine ⟨h.nf, ?_, ?_, h.le⟩
  · refine hinv'.congrF (fun x _ => ?_) (fun x ⟨t, ht, hx⟩ => (h.inv.freeOk x ⟨t, ⟨by omega, ht.2⟩, hx⟩).1)
    constructor
    · rintro ⟨⟨t, ht, hx⟩, hne⟩
      have htf : t ≠ f := fun e' => hne (by rw [← hx, e'])
      exact ⟨t, ⟨by omega, ht.2⟩, hx⟩
    · rintro ⟨t, ht, hx⟩
      refine ⟨⟨t, ⟨by omega, ht.2⟩, hx⟩, fun e' => ?_⟩
      have := h.inj t f ⟨by omega, ht.2⟩ ⟨Nat.le_refl _, hf⟩ (by rw [hx, e'])
      omega
  · intro t t' ht ht' he'
    exact h.inj t t' ⟨by omega, ht.2⟩ ⟨by omega, ht'.2⟩ he'

theorem augment_good {n : Nat} (hn : n < 32768) {c : Nat → Nat → ℝ} (B : Prop) (fuel : Nat) (hB : B → n + 1 ≤ fuel)
    (s : Core ℝ) (h : CoreInv n c s) :
    Good B (augment fuel n c s) (fun s' => Inv n c s'.rowSol s'.colSol s'.v (fun _ => False)) := by
  unfold augment
  have h0 : AugInv n c s.numFree 0 s := by
    refine ⟨rfl, ?_, ?_, h.le⟩
    · refine h.inv.congrF (fun x _ => ?_) (fun x ⟨t, ht, hx⟩ => (h.inv.freeOk x ⟨t, ht.2, hx⟩).1)
      constructor
      · rintro ⟨t, ht, hx⟩; exact ⟨t, ⟨Nat.zero_le _, ht⟩, hx⟩
      · rintro ⟨t, ht, hx⟩; exact ⟨t, ht.2, hx⟩
    · intro t t' ht ht' he
      exact h.inj t t' ht.2 ht'.2 he
  have := loopM_good (B := B) (fun f s' => AugInv n c s.numFree f s') s.numFree (augmentRow fuel n c) s h0
    (fun f s' hf hs' => augmentRow_good hn B fuel hB s.numFree f hf s' hs')
  refine this.mono (fun s' hs' => ?_)
  refine hs'.inv.congrF (fun x _ => ?_) (fun x hx => hx.elim)
  constructor
  · rintro ⟨t, ht, _⟩; omega
  · exact fun hx => hx.elim

/-- what the property demands of the answer: `rowSol`, `colSol` are non-negative, `rowSol` is a
permutation of `0..n-1` with inverse `colSol`, the dual variables certify it, the cost is the cost
of the assignment -/
def Certified (n : Nat) (c : Nat → Nat → ℝ) (a : Full ℝ) : Prop :=
  (∀ i, i < n → 0 ≤ a.rowSol i ∧ 0 ≤ a.colSol i) ∧
  permB n (fun i => (a.rowSol i).toNat) (fun j => (a.colSol j).toNat) = true ∧
  certB n c (fun i => (a.rowSol i).toNat) a.u a.v = true ∧
  a.cost = cost n c (fun i => (a.rowSol i).toNat)

theorem finish_good {n : Nat} (hn : n < 32768) {c : Nat → Nat → ℝ} (B : Prop) (u0 : Nat → ℝ) (s : Core ℝ)
    (h : Inv n c s.rowSol s.colSol s.v (fun _ => False)) :
    Good B (finish n c u0 s) (Certified n c) := by
  have hrow : ∀ i, i < n → ∃ j : Nat, j < n ∧ s.rowSol i = (j : Int) ∧ s.colSol j = (i : Int) :=
    fun i hi => h.rowOk i hi (fun hf => hf)
  have hsig : ∀ i, i < n → (s.rowSol i).toNat < n ∧ s.rowSol i = ((s.rowSol i).toNat : Int) ∧ s.colSol (s.rowSol i).toNat = (i : Int) := by
    intro i hi
    obtain ⟨j, hj, h1, h2⟩ := hrow i hi
    have : (s.rowSol i).toNat = j := by omega
    rw [this]; exact ⟨hj, h1, h2⟩
  unfold finish
  have hloop := loopM_good (B := B)
    (fun i (r : Fin_ ℝ) => (∀ i', i' < i → r.u i' = c i' (s.rowSol i').toNat - s.v (s.rowSol i').toNat) ∧
      r.cost = Spec.sumTo i (fun i' => c i' (s.rowSol i').toNat))
    n (finishStep n c s.rowSol s.v) { u := u0, cost := Scalar.zero }
    ⟨fun i' hi' => by omega, by simp [Spec.sumTo]⟩
    (by
      intro i r hi ⟨h1, h2⟩
      unfold finishStep
      obtain ⟨hs1, hs2, _⟩ := hsig i hi
      have hsz : szOfInt (s.rowSol i) = (s.rowSol i).toNat := by
        rw [hs2]; simp only [Int.toNat_natCast]; exact szOfInt_ofNat _ (by omega)
      simp only [hsz, hs1, if_true]
      apply Good.ok
      constructor
      · intro i' hi'
        by_cases hii : i' = i
        · subst hii; simp
        · simp only [upd_ne _ _ hii]; exact h1 i' (by omega)
      · rw [sumTo_succ]; simp only [h2])
  rcases hloop with ⟨r, hr, hu, hcost⟩ | ⟨he, hb⟩
  swap
  · rw [he]; exact Or.inr ⟨rfl, hb⟩
  rw [hr]
  apply Good.ok
  -- every column is assigned
  have hcol : ∀ j, j < n → ∃ i, i < n ∧ (s.rowSol i).toNat = j :=
    inj_surj (fun i => (s.rowSol i).toNat) (fun i hi => (hsig i hi).1) (by
      intro a b ha hb hab
      have h1 := (hsig a ha).2.2
      have h2 := (hsig b hb).2.2
      rw [hab] at h1
      omega)
  refine ⟨fun i hi => ⟨by show 0 ≤ s.rowSol i; have := (hsig i hi).2.1; omega, ?_⟩, ?_, ?_, hcost⟩
  · obtain ⟨i', hi', he⟩ := hcol i hi
    have := (hsig i' hi').2.2
    rw [he] at this
    show 0 ≤ s.colSol i
    omega
  · rw [permB, allLt_iff]
    intro i hi
    obtain ⟨h1, _, h3⟩ := hsig i hi
    simp only [Bool.and_eq_true, decide_eq_true_eq]
    exact ⟨h1, by rw [h3]; simp⟩
  · simp only [certB, Bool.and_eq_true, allLt_iff, ScalarReal.leb_iff]
    constructor
    · intro i hi j hj
      obtain ⟨h1, h2, h3⟩ := hsig i hi
      have := h.tight _ h1 i h3 j hj
      show r.u i + s.v j ≤ c i j
      rw [hu i hi]; linarith
    · intro i hi
      show c i _ ≤ r.u i + s.v _
      rw [hu i hi]; linarith

/-- **the routine as a whole**: it returns an answer with the demanded properties; it runs out of
fuel only if the fuel is not known to suffice; it never leaves its vectors -/
theorem lapFullG_good {n : Nat} (hn : n < 32768) (c : Nat → Nat → ℝ) (cut : Nat → Nat → Bool) (B : Prop) (fuel : Nat)
    (hB : B → cut = arrCut n ∧ n * n + n + 1 ≤ fuel) (rs0 cs0 : Nat → Int) (u0 v0 : Nat → ℝ) :
    Good B (lapFullG fuel n c cut rs0 cs0 u0 v0) (Certified n c) := by
  unfold lapFullG
  rcases phaseA_good n hn c cut B fuel (fun hb => ⟨(hB hb).1, by have := (hB hb).2; omega⟩) rs0 cs0 v0 with ⟨s, hs, hp⟩ | ⟨he, hb⟩
  swap
  · rw [he]; exact Or.inr ⟨rfl, hb⟩
  rw [hs]
  simp only
  rcases augment_good hn B fuel (fun hb => by have := (hB hb).2; have : n ≤ n * n + n := Nat.le_add_left _ _; omega) s hp with ⟨s', hs', hp'⟩ | ⟨he, hb⟩
  swap
  · rw [he]; exact Or.inr ⟨rfl, hb⟩
  rw [hs']
  exact finish_good hn B u0 s' hp'

end Bpp.Mx.Lap
