import BppModel.DistKernels
import BppProofs.Lemmas.DistGuards
import Mathlib.Algebra.Order.Archimedean.Basic
/-!
Helper lemmas for C08 (round 2): the loops of `BppModel/DistKernels.lean` and their
exact-arithmetic reading.
-/
namespace Bpp.DistKernels
open Bpp Bpp.Scalar Bpp.PNorm

/-- the real numbers have no infinite element: over `ℝ` the guard `isinf(x)` (cpp:158) is vacuous -/
instance : InfTest ℝ := ⟨fun _ => false⟩
@[simp] theorem isInf_real (x : ℝ) : InfTest.isInf x = false := rfl

/-! ### generic loop facts -/

/-- more fuel never changes a delivered answer -/
theorem iter_mono {σ β : Type} (step : σ → Sum σ β) :
    ∀ (n k : Nat) (s : σ) (b : β), iter step n s = some b → iter step (n + k) s = some b := by
  intro n
  induction n with
  | zero => intro k s b h; simp [iter] at h
  | succ n ih =>
    intro k s b h
    rw [Nat.add_right_comm]
    simp only [iter] at h ⊢
    cases hs : step s with
    | inl s' => rw [hs] at h; simp only at h ⊢; exact ih k s' b h
    | inr b' => rw [hs] at h; simpa using h


/-- … also through the post-processing of the delivered state -/
theorem ofOpt_iter_mono {σ β α : Type} (step : σ → Sum σ β) (f : β → α) (n k : Nat) (s : σ) (v : α)
    (h : R.ofOpt ((iter step n s).map f) = .val v) : R.ofOpt ((iter step (n + k) s).map f) = .val v := by
  cases hi : iter step n s with
  | none => rw [hi] at h; simp [R.ofOpt] at h
  | some b => rw [hi] at h; rw [iter_mono step n k s b hi]; exact h

/-- whatever an unbounded loop delivers was delivered by an exit of its step function -/
theorem iter_some_inv {σ β : Type} (step : σ → Sum σ β) (P : β → Prop)
    (h : ∀ s b, step s = .inr b → P b) : ∀ (n : Nat) (s : σ) (b : β), iter step n s = some b → P b := by
  intro n
  induction n with
  | zero => intro s b hb; simp [iter] at hb
  | succ n ih =>
    intro s b hb
    simp only [iter] at hb
    cases hs : step s with
    | inl s' => rw [hs] at hb; exact ih s' b hb
    | inr b' =>
      rw [hs] at hb
      have : b' = b := by simpa using hb
      exact this ▸ h s b' hs

/-- an early exit of a capped loop was an exit of its step function -/
theorem iterCap_inr_inv {σ β : Type} (step : σ → Sum σ β) (P : β → Prop)
    (h : ∀ s b, step s = .inr b → P b) : ∀ (n : Nat) (s : σ) (b : β), iterCap step n s = .inr b → P b := by
  intro n
  induction n with
  | zero => intro s b hb; simp [iterCap] at hb
  | succ n ih =>
    intro s b hb
    simp only [iterCap] at hb
    cases hs : step s with
    | inl s' => rw [hs] at hb; exact ih s' b hb
    | inr b' =>
      rw [hs] at hb
      have : b' = b := by simpa using hb
      exact this ▸ h s b' hs


/-- an early exit of a capped loop, with an invariant of the state -/
theorem iterCap_inr_inv' {σ β : Type} (step : σ → Sum σ β) (I : σ → Prop) (P : β → Prop)
    (hI : ∀ s s', I s → step s = .inl s' → I s') (h : ∀ s b, I s → step s = .inr b → P b) :
    ∀ (n : Nat) (s : σ) (b : β), I s → iterCap step n s = .inr b → P b := by
  intro n
  induction n with
  | zero => intro s b _ hb; simp [iterCap] at hb
  | succ n ih =>
    intro s b hs0 hb
    simp only [iterCap] at hb
    cases hs : step s with
    | inl s' => rw [hs] at hb; exact ih s' b (hI s s' hs0 hs) hb
    | inr b' =>
      rw [hs] at hb
      have : b' = b := by simpa using hb
      exact this ▸ h s b' hs0 hs

/-- an invariant of the state is kept by a loop -/
theorem iter_some_inv' {σ β : Type} (step : σ → Sum σ β) (I : σ → Prop) (P : β → Prop)
    (hI : ∀ s s', I s → step s = .inl s' → I s') (h : ∀ s b, I s → step s = .inr b → P b) :
    ∀ (n : Nat) (s : σ) (b : β), I s → iter step n s = some b → P b := by
  intro n
  induction n with
  | zero => intro s b _ hb; simp [iter] at hb
  | succ n ih =>
    intro s b hs0 hb
    simp only [iter] at hb
    cases hs : step s with
    | inl s' => rw [hs] at hb; exact ih s' b (hI s s' hs0 hs) hb
    | inr b' =>
      rw [hs] at hb
      have : b' = b := by simpa using hb
      exact this ▸ h s b' hs0 hs


/-- mapping a value does not create an outcome that is not a value -/
theorem R.map_ne {α : Type} (f : α → α) (r bad : R α) (hbad : ∀ v, bad ≠ .val v) (h : r ≠ bad) :
    R.map f r ≠ bad := by
  cases r with
  | val v => exact fun hh => hbad _ hh.symm
  | exc => exact h
  | hang => exact h


theorem flat_iter_mono {σ α : Type} (step : σ → Sum σ (R α)) (n k : Nat) (s : σ) (v : α)
    (h : flat (iter step n s) = .val v) : flat (iter step (n + k) s) = .val v := by
  cases hi : iter step n s with
  | none => rw [hi] at h; simp [flat] at h
  | some b => rw [hi] at h; rw [iter_mono step n k s b hi]; exact h


/-- an outcome that is not a value passes through `map` unchanged -/
theorem R.map_eq_bad {α : Type} (f : α → α) (r bad : R α) (hbad : ∀ v, bad ≠ .val v) (h : R.map f r = bad) :
    r = bad := by
  cases r with
  | val v => exact absurd h.symm (hbad _)
  | exc => exact h
  | hang => exact h

/-! ### constants at `ℝ` -/
@[simp] theorem three_real : (three : ℝ) = 3 := by simp [three]
@[simp] theorem minusOne_real : (minusOne : ℝ) = -1 := by simp [minusOne]
theorem accurate_real : (accurate : ℝ) = 3022314549036573 / 2 ^ 78 := by simp [accurate]
theorem accurate_pos : (0 : ℝ) < accurate := by rw [accurate_real]; positivity
theorem tiny_real : (tiny : ℝ) = 6646139978924579 / 2 ^ 119 := by simp [tiny]
theorem tiny_pos : (0 : ℝ) < tiny := by rw [tiny_real]; positivity
theorem chLo_real : (chLo : ℝ) = 4722366482869645 / 2 ^ 71 := by simp [chLo]
theorem chHi_real : (chHi : ℝ) = 9007181240342483 / 2 ^ 53 := by simp [chHi]

theorem igUseCF_iff (x p : ℝ) : igUseCF x p = true ↔ (1 < x ∧ p ≤ x) := by
  simp [igUseCF]

theorem qcGuard_iff (p v : ℝ) : qcGuard p v = true ↔ (p < chLo ∨ chHi < p ∨ v ≤ 0) := by
  simp [qcGuard, or_assoc]

theorem psCond_iff (b x : ℝ) : psCond b x = true ↔ (b * x ≤ 1 ∧ x ≤ c0_95) := by
  simp [psCond]

theorem ibSwap_iff (x a b : ℝ) : ibSwap x a b = true ↔ a / (a + b) < x := by
  simp [ibSwap]

/-! ### the series loop of `incompleteGamma` terminates (exact arithmetic) -/

/-- from a state with `rn ≥ p`, `0 ≤ term`, `term * r^m ≤ accurate` (`r = x/(p+1) < 1`), `m + 1`
rounds suffice -/
theorem igSeries_loop_terminates (x p : ℝ) (hx : 0 < x) (hp : 0 < p) (hr : x < p + 1) :
    ∀ (m : Nat) (fuel : Nat) (s : Ser ℝ), m + 1 ≤ fuel → p ≤ s.rn → 0 ≤ s.term →
      s.term * (x / (p + 1)) ^ m ≤ accurate → (iter (igSeriesStep x) fuel s).isSome = true := by
  have hp1 : 0 < p + 1 := by linarith
  have hr0 : 0 ≤ x / (p + 1) := le_of_lt (div_pos hx hp1)
  have hr1 : x / (p + 1) ≤ 1 := by rw [div_le_one hp1]; linarith
  intro m
  induction m with
  | zero =>
    intro fuel s hf hrn ht hacc
    obtain ⟨n, rfl⟩ : ∃ n, fuel = n + 1 := ⟨fuel - 1, by omega⟩
    have hrn' : 0 < s.rn + 1 := by linarith
    have hq : x / (s.rn + 1) ≤ 1 := by rw [div_le_one hrn']; linarith
    have hq0 : 0 ≤ x / (s.rn + 1) := le_of_lt (div_pos hx hrn')
    have : ¬ (accurate < s.term * (x / (s.rn + 1))) := by
      have : s.term * (x / (s.rn + 1)) ≤ s.term := by nlinarith
      simp only [pow_zero, mul_one] at hacc
      linarith
    simp [iter, igSeriesStep, this]
  | succ m ih =>
    intro fuel s hf hrn ht hacc
    obtain ⟨n, rfl⟩ : ∃ n, fuel = n + 1 := ⟨fuel - 1, by omega⟩
    have hrn' : 0 < s.rn + 1 := by linarith
    have hq0 : 0 ≤ x / (s.rn + 1) := le_of_lt (div_pos hx hrn')
    have hq : x / (s.rn + 1) ≤ x / (p + 1) := by
      apply div_le_div_of_nonneg_left (le_of_lt hx) hp1; linarith
    by_cases hc : accurate < s.term * (x / (s.rn + 1))
    · have hs : igSeriesStep x s = .inl ⟨s.rn + 1, s.term * (x / (s.rn + 1)), s.gin + s.term * (x / (s.rn + 1))⟩ := by
        simp [igSeriesStep, hc]
      simp only [iter, hs]
      apply ih n _ (by omega)
      · show p ≤ s.rn + 1
        linarith
      · exact mul_nonneg ht hq0
      · have h1 : s.term * (x / (s.rn + 1)) ≤ s.term * (x / (p + 1)) := mul_le_mul_of_nonneg_left hq ht
        have h2 : 0 ≤ (x / (p + 1)) ^ m := pow_nonneg hr0 m
        calc s.term * (x / (s.rn + 1)) * (x / (p + 1)) ^ m
            ≤ s.term * (x / (p + 1)) * (x / (p + 1)) ^ m := mul_le_mul_of_nonneg_right h1 h2
          _ = s.term * (x / (p + 1)) ^ (m + 1) := by ring
          _ ≤ accurate := hacc
    · have hs : igSeriesStep x s = .inr (s.gin + s.term * (x / (s.rn + 1))) := by
        simp [igSeriesStep, hc]
      simp [iter, hs]

/-- the state of the series loop keeps `1 ≤ gin`, `0 ≤ term` (for `x > 0`, `rn > 0`) -/
theorem igSeries_gin_ge_one (x : ℝ) (hx : 0 < x) :
    ∀ (n : Nat) (s : Ser ℝ) (v : ℝ), 0 < s.rn → 0 ≤ s.term → 1 ≤ s.gin →
      iter (igSeriesStep x) n s = some v → 1 ≤ v := by
  intro n s v h1 h2 h3 h
  refine iter_some_inv' (igSeriesStep x) (fun s => 0 < s.rn ∧ 0 ≤ s.term ∧ 1 ≤ s.gin) (fun v => 1 ≤ v)
    ?_ ?_ n s v ⟨h1, h2, h3⟩ h
  · intro s s' ⟨a, b, c⟩ hs
    have hrn' : 0 < s.rn + 1 := by linarith
    have hq0 : 0 ≤ x / (s.rn + 1) := le_of_lt (div_pos hx hrn')
    simp only [igSeriesStep, ScalarReal.gtb_iff, ScalarReal.one_eq] at hs
    split at hs
    · injection hs with hs
      subst hs
      exact ⟨hrn', mul_nonneg b hq0, by have := mul_nonneg b hq0; simp; linarith⟩
    · cases hs
  · intro s b ⟨a, b', c⟩ hs
    have hrn' : 0 < s.rn + 1 := by linarith
    have hq0 : 0 ≤ x / (s.rn + 1) := le_of_lt (div_pos hx hrn')
    simp only [igSeriesStep, ScalarReal.gtb_iff, ScalarReal.one_eq] at hs
    split at hs
    · cases hs
    · injection hs with hs
      subst hs
      have := mul_nonneg b' hq0
      linarith

/-! ### the power-series loop of `incompletebetaps` terminates for `β ≤ 2` (exact arithmetic) -/

/-- from a state with `n ≥ 2 ≥ β`, `|v| ≤ |t|/α`, `|t|·x^m ≤ VERY_TINY`, `m + 1` rounds suffice: every
factor `u = (n - β) x / n` lies in `[0, x]` -/
theorem ps_loop_terminates (a b x : ℝ) (ha : 0 < a) (hb0 : 0 ≤ b) (hb2 : b ≤ 2) (hx0 : 0 < x) (hx1 : x < 1) :
    ∀ (m : Nat) (fuel : Nat) (s : Ps ℝ), m + 1 ≤ fuel → 2 ≤ s.n → |s.v| ≤ |s.t| / a →
      |s.t| * x ^ m ≤ tiny → (iter (psStep a b x (tiny * (one / a))) fuel s).isSome = true := by
  have hz : (tiny : ℝ) * (one / a) = tiny / a := by simp [div_eq_mul_inv]
  intro m
  induction m with
  | zero =>
    intro fuel s hf hn hv ht
    obtain ⟨k, rfl⟩ : ∃ k, fuel = k + 1 := ⟨fuel - 1, by omega⟩
    simp only [pow_zero, mul_one] at ht
    have : ¬ (tiny * (one / a) < |s.v|) := by
      rw [hz]; push Not
      calc |s.v| ≤ |s.t| / a := hv
        _ ≤ tiny / a := div_le_div_of_nonneg_right ht (le_of_lt ha)
    have hs : psStep a b x (tiny * (one / a)) s = .inr s := by
      simp only [psStep, ScalarReal.gtb_iff, ScalarReal.abs_eq, this, if_false]
    simp only [iter, hs]; rfl
  | succ m ih =>
    intro fuel s hf hn hv ht
    obtain ⟨k, rfl⟩ : ∃ k, fuel = k + 1 := ⟨fuel - 1, by omega⟩
    by_cases hc : tiny * (one / a) < |s.v|
    · have hn0 : 0 < s.n := by linarith
      have hu0 : 0 ≤ (s.n - b) * x / s.n := div_nonneg (mul_nonneg (by linarith) (le_of_lt hx0)) (le_of_lt hn0)
      have hu1 : (s.n - b) * x / s.n ≤ x := by
        rw [div_le_iff₀ hn0]
        have : s.n - b ≤ s.n := by linarith
        nlinarith
      have hs : psStep a b x (tiny * (one / a)) s =
          .inl ⟨s.n + one, s.t * ((s.n - b) * x / s.n), s.t * ((s.n - b) * x / s.n) / (a + s.n),
            s.s + s.t * ((s.n - b) * x / s.n) / (a + s.n)⟩ := by
        simp only [psStep, ScalarReal.gtb_iff, ScalarReal.abs_eq, hc, if_true]
      simp only [iter, hs]
      apply ih k _ (by omega)
      · show (2 : ℝ) ≤ s.n + one
        simp; linarith
      · show |s.t * ((s.n - b) * x / s.n) / (a + s.n)| ≤ |s.t * ((s.n - b) * x / s.n)| / a
        rw [abs_div]
        have han : 0 < a + s.n := by linarith
        rw [abs_of_pos han]
        exact div_le_div_of_nonneg_left (abs_nonneg _) ha (by linarith)
      · show |s.t * ((s.n - b) * x / s.n)| * x ^ m ≤ tiny
        rw [abs_mul, abs_of_nonneg hu0]
        have h2 : 0 ≤ x ^ m := pow_nonneg (le_of_lt hx0) m
        calc |s.t| * ((s.n - b) * x / s.n) * x ^ m ≤ |s.t| * x * x ^ m :=
              mul_le_mul_of_nonneg_right (mul_le_mul_of_nonneg_left hu1 (abs_nonneg _)) h2
          _ = |s.t| * x ^ (m + 1) := by ring
          _ ≤ tiny := ht
    · have hs : psStep a b x (tiny * (one / a)) s = .inr s := by
        simp only [psStep, ScalarReal.gtb_iff, ScalarReal.abs_eq, hc, if_false]
      simp only [iter, hs]; rfl

end Bpp.DistKernels
