import BppProofs.Lemmas.OptimGolden
import BppProofs.Lemmas.OptimObjective
import BppProofs.Lemmas.OptimBrent
/-!
Helper lemmas for C10: the constraint policy.  Every evaluation an optimiser makes passes a
parameter list to `f`; when that list is *tied* to the constraints of the list given to `init`
(every parameter satisfies its own constraint, which is the one of `init`'s list — C01's invariant)
the point at which the objective is evaluated satisfies those constraints.  `setValue` (plain or
auto-correcting) keeps a list tied (C01: `svb_inv`, `sva_inv`), so the property is an invariant of
any code that evaluates the objective only through lists obtained that way.
`Safe I Q T` is the abstract form; `objective_safe` instantiates it for the harness objective.
-/
set_option linter.unusedSectionVars false
namespace Bpp.Optim
open Bpp

variable {F : Type}

/-- the function object keeps `Q` whenever it is given lists satisfying `T`, and `setValue` keeps `T` -/
structure Safe (I : FunI F ℝ) (Q : F → Prop) (T : PList ℝ → Prop) : Prop where
  f_ok : ∀ fn pl fn' v, Q fn → T pl → I.f fn pl = .ok (fn', v) → Q fn'
  f_err : ∀ fn pl e fn', Q fn → T pl → I.f fn pl = .error (e, fn') → Q fn'
  set : ∀ pl i x pl', T pl → setValueAt pl i x = .ok pl' → T pl'

/-- a result is fine: a normal one satisfies `P`, an exception carries a function satisfying `Q` -/
def ROk {β : Type} (Q : F → Prop) (P : β → Prop) : Except (Exc × F) β → Prop
  | .ok b => P b
  | .error e => Q e.2

variable {I : FunI F ℝ} {Q : F → Prop} {T : PList ℝ → Prop}

theorem eval0_safe (hs : Safe I Q T) (fn : F) (pl : PList ℝ) (x : ℝ) (hQ : Q fn) (hT : T pl) :
    ROk Q (fun r => Q r.1 ∧ T r.2.1) (eval0 I fn pl x) := by
  unfold eval0
  cases h1 : setValueAt pl 0 x with
  | error e => exact hQ
  | ok pl' =>
    have hT' := hs.set _ _ _ _ hT h1
    simp only []
    cases h2 : I.f fn pl' with
    | error e => obtain ⟨e1, fn1⟩ := e; exact hs.f_err _ _ _ _ hQ hT' h2
    | ok r => obtain ⟨fn1, v⟩ := r; exact ⟨hs.f_ok _ _ _ _ hQ hT' h2, hT'⟩

theorem eval0_safe' (hs : Safe I Q T) {fn : F} {pl : PList ℝ} {x : ℝ} {r : Except (Exc × F) (F × PList ℝ × ℝ)}
    (he : eval0 I fn pl x = r) (hQ : Q fn) (hT : T pl) : ROk Q (fun r => Q r.1 ∧ T r.2.1) r :=
  he ▸ eval0_safe hs fn pl x hQ hT

theorem shrinkB_safe (hs : Safe I Q T) : ∀ (fuel : Nat) (fn : F) (pl : PList ℝ) (b : BPt ℝ), Q fn → T pl →
    ROk Q (fun r => Q r.1 ∧ T r.2.1) (shrinkB I fuel fn pl b) := by
  intro fuel
  induction fuel with
  | zero => intro fn pl b hQ _; rw [shrinkB]; exact hQ
  | succ fuel ih =>
    intro fn pl b hQ hT
    rw [shrinkB]
    split
    · have := eval0_safe hs fn pl (b.x / Scalar.ofRat 11 10) hQ hT
      dsimp only
      split
      · rename_i e he; rw [he] at this; exact this
      · rename_i fn1 pl1 v he; rw [he] at this; exact ih _ _ _ this.1 this.2
    · exact ⟨hQ, hT⟩

theorem outwardBody_safe (hs : Safe I Q T) (fn : F) (pl : PList ℝ) (k : Bracket ℝ) (hQ : Q fn) (hT : T pl) :
    ROk Q (fun r => Q r.1 ∧ T r.2.1) (outwardBody I fn pl k) := by
  unfold outwardBody
  dsimp only
  split
  · split
    · rename_i e he
      exact eval0_safe' hs he hQ hT
    · rename_i fn1 pl1 fu he
      have := eval0_safe' hs he hQ hT
      split
      · exact this
      · split
        · exact this
        · split
          · rename_i e2 he2; exact eval0_safe' hs he2 this.1 this.2
          · rename_i fn2 pl2 fm he2; exact eval0_safe' hs he2 this.1 this.2
  · split
    · split
      · rename_i e he
        exact eval0_safe' hs he hQ hT
      · rename_i fn1 pl1 fu he
        have := eval0_safe' hs he hQ hT
        split
        · split
          · rename_i e2 he2; exact eval0_safe' hs he2 this.1 this.2
          · rename_i fn2 pl2 fm he2; exact eval0_safe' hs he2 this.1 this.2
        · exact this
    · split
      · split
        · rename_i e he
          exact eval0_safe' hs he hQ hT
        · rename_i fn1 pl1 fu he
          exact eval0_safe' hs he hQ hT
      · split
        · rename_i e2 he2; exact eval0_safe' hs he2 hQ hT
        · rename_i fn2 pl2 fm he2; exact eval0_safe' hs he2 hQ hT

theorem outwardLoop_safe (hs : Safe I Q T) : ∀ (fuel : Nat) (fn : F) (pl : PList ℝ) (k : Bracket ℝ), Q fn → T pl →
    ROk Q (fun r => Q r.1) (outwardLoop I fuel fn pl k) := by
  intro fuel
  induction fuel with
  | zero => intro fn pl k hQ _; rw [outwardLoop]; exact hQ
  | succ fuel ih =>
    intro fn pl k hQ hT
    rw [outwardLoop]
    split
    · have := outwardBody_safe hs fn pl k hQ hT
      cases hb : outwardBody I fn pl k with
      | error e => rw [hb] at this; exact this
      | ok r =>
        obtain ⟨fn1, pl1, p⟩ := r
        rw [hb] at this
        cases p with
        | ret k1 => exact this.1
        | next k1 => exact ih _ _ _ this.1 this.2
    · exact hQ

theorem bracketMinimum_safe (hs : Safe I Q T) (fuel : Nat) (a b : ℝ) (fn : F) (pl : PList ℝ) (hQ : Q fn) (hT : T pl) :
    ROk Q (fun r => Q r.1) (bracketMinimum I fuel a b fn pl) := by
  unfold bracketMinimum
  have h1 := eval0_safe hs fn pl a hQ hT
  cases he1 : eval0 I fn pl a with
  | error e => rw [he1] at h1; exact h1
  | ok r1 =>
    obtain ⟨fn1, pl1, fa⟩ := r1
    rw [he1] at h1
    simp only []
    have h2 := eval0_safe hs fn1 pl1 b h1.1 h1.2
    cases he2 : eval0 I fn1 pl1 b with
    | error e => rw [he2] at h2; exact h2
    | ok r2 =>
      obtain ⟨fn2, pl2, fb⟩ := r2
      rw [he2] at h2
      simp only []
      have h3 := shrinkB_safe hs fuel fn2 pl2 ⟨b, fb⟩ h2.1 h2.2
      cases he3 : shrinkB I fuel fn2 pl2 ⟨b, fb⟩ with
      | error e => rw [he3] at h3; exact h3
      | ok r3 =>
        obtain ⟨fn3, pl3, pb⟩ := r3
        rw [he3] at h3
        simp only []
        generalize (if Scalar.gtb pb.f (⟨a, fa⟩ : BPt ℝ).f = true then (pb, (⟨a, fa⟩ : BPt ℝ)) else (⟨a, fa⟩, pb)) = pp
        have h4 := eval0_safe hs fn3 pl3 (pp.2.x + phi * (pp.2.x - pp.1.x)) h3.1 h3.2
        cases he4 : eval0 I fn3 pl3 (pp.2.x + phi * (pp.2.x - pp.1.x)) with
        | error e => rw [he4] at h4; exact h4
        | ok r4 =>
          obtain ⟨fn4, pl4, fc⟩ := r4
          rw [he4] at h4
          exact outwardLoop_safe hs fuel _ _ _ h4.1 h4.2

theorem evalOwn_safe {τ : Type} (hs : Safe I Q T) (s : St F τ ℝ) (x : ℝ) (hQ : Q s.fn) (hT : T s.core.params) :
    ROk Q (fun r => Q r.1.fn ∧ T r.1.core.params ∧ r.1.ext = s.ext) (evalOwn I s x) := by
  unfold evalOwn
  have := eval0_safe hs s.fn s.core.params x hQ hT
  cases he : eval0 I s.fn s.core.params x with
  | error e => rw [he] at this; exact this
  | ok r => obtain ⟨fn1, pl1, v⟩ := r; rw [he] at this; exact ⟨this.1, this.2, rfl⟩

theorem gssProbe_safe (hs : Safe I Q T) (s : St F (Gss ℝ) ℝ) (x : ℝ) (hQ : Q s.fn) (hT : T s.core.params) :
    ROk Q (fun r => Q r.1.fn ∧ T r.1.core.params) (gssProbe I s x) := by
  unfold gssProbe
  cases h1 : setValueAt s.core.params 0 x with
  | error e => exact hQ
  | ok pl =>
    have hT' := hs.set _ _ _ _ hT h1
    simp only []
    have hp := gssPoll_same ({ s with core := { s.core with params := pl } } : St F (Gss ℝ) ℝ)
    generalize gssPoll ({ s with core := { s.core with params := pl } } : St F (Gss ℝ) ℝ) = sp at hp
    simp only [] at hp
    have hQp : Q sp.fn := by rw [hp.2.1]; exact hQ
    have hTp : T sp.core.params := by rw [hp.2.2.1]; exact hT'
    cases h2 : I.f sp.fn sp.core.params with
    | error e => obtain ⟨e1, fn1⟩ := e; exact hs.f_err _ _ _ _ hQp hTp h2
    | ok r => obtain ⟨fn1, v⟩ := r; exact ⟨hs.f_ok _ _ _ _ hQp hTp h2, hTp⟩

theorem gssProbe_safe' (hs : Safe I Q T) {s : St F (Gss ℝ) ℝ} {x : ℝ} {r : Except (Exc × F) (St F (Gss ℝ) ℝ × ℝ)}
    (he : gssProbe I s x = r) (hQ : Q s.fn) (hT : T s.core.params) : ROk Q (fun r => Q r.1.fn ∧ T r.1.core.params) r :=
  he ▸ gssProbe_safe hs s x hQ hT

theorem evalOwn_safe' {τ : Type} (hs : Safe I Q T) {s : St F τ ℝ} {x : ℝ} {r : Except (Exc × F) (St F τ ℝ × ℝ)}
    (he : evalOwn I s x = r) (hQ : Q s.fn) (hT : T s.core.params) :
    ROk Q (fun r => Q r.1.fn ∧ T r.1.core.params ∧ r.1.ext = s.ext) r :=
  he ▸ evalOwn_safe hs s x hQ hT

theorem gssDoStep_safe (hs : Safe I Q T) (s : St F (Gss ℝ) ℝ) (hQ : Q s.fn) (hT : T s.core.params) :
    ROk Q (fun r => Q r.1.fn ∧ T r.1.core.params) (gssDoStep I s) := by
  unfold gssDoStep
  dsimp only
  split
  · split
    · rename_i e he; exact gssProbe_safe' hs he hQ hT
    · rename_i sp v he; have h' := gssProbe_safe' hs he hQ hT; exact h'
  · split
    · rename_i e he; exact gssProbe_safe' hs he hQ hT
    · rename_i sp v he; have h' := gssProbe_safe' hs he hQ hT; exact h'

theorem gssDoInit_safe (hs : Safe I Q T) (fuel : Nat) (s : St F (Gss ℝ) ℝ) (params : PList ℝ) (hQ : Q s.fn) (hT : T s.core.params) :
    ROk Q (fun r => Q r.fn ∧ T r.core.params) (gssDoInit I fuel s params) := by
  unfold gssDoInit
  split
  · exact hQ
  · have hb := bracketMinimum_safe hs fuel s.ext.xinf s.ext.xsup s.fn s.core.params hQ hT
    split
    · rename_i e heb; rw [heb] at hb; exact hb
    · rename_i fnb k heb
      rw [heb] at hb
      dsimp only
      split
      · rename_i e he; exact evalOwn_safe' hs he hb hT
      · rename_i sa f1 he
        have h1 := evalOwn_safe' hs he hb hT
        split
        · rename_i e he2; exact evalOwn_safe' hs he2 h1.1 h1.2.1
        · rename_i sb f2 he2
          have h2 := evalOwn_safe' hs he2 h1.1 h1.2.1
          exact ⟨h2.1, h2.2.1⟩

/-! ### the template -/

/-- an optimiser whose `doInit` and `doStep` evaluate the function through tied lists only, and
whose stop condition touches neither the function nor the parameters -/
structure SafeAlgo {τ : Type} (A : Algo F τ ℝ) (Q : F → Prop) (T : PList ℝ → Prop) : Prop where
  doInit : ∀ s params, Q s.fn → T s.core.params → ROk Q (fun r => Q r.fn ∧ T r.core.params) (A.doInit s params)
  doStep : ∀ s, Q s.fn → T s.core.params → ROk Q (fun r => Q r.1.fn ∧ T r.1.core.params) (A.doStep s)
  stopInit : ∀ s, (A.stopInit s).fn = s.fn ∧ (A.stopInit s).core.params = s.core.params
  stop : ∀ s, (A.stop s).1.fn = s.fn ∧ (A.stop s).1.core.params = s.core.params

variable {τ : Type} {A : Algo F τ ℝ}

theorem init_safe (ha : SafeAlgo A Q T) (s : St F τ ℝ) (params : PList ℝ) (hQ : Q s.fn)
    (hT : T (applyPolicy s.core.policy params)) :
    ROk Q (fun r => Q r.fn ∧ T r.core.params) (A.init s params) := by
  unfold Algo.init
  dsimp only
  have := ha.doInit ({ s with core := { s.core with params := applyPolicy s.core.policy params } } : St F τ ℝ) params hQ hT
  split
  · rename_i e he; rw [he] at this; exact this
  · rename_i s2 he
    rw [he] at this
    have hsi := ha.stopInit ({ s2 with core := { s2.core with nbEval := 0, tol := false, initialized := true, cur := A.value s2.fn } } : St F τ ℝ)
    show Q (A.stopInit _).fn ∧ T (A.stopInit _).core.params
    rw [hsi.1, hsi.2]; exact this

theorem step_safe (ha : SafeAlgo A Q T) (s : St F τ ℝ) (hQ : Q s.fn) (hT : T s.core.params) :
    ROk Q (fun r => Q r.1.fn ∧ T r.1.core.params) (A.step s) := by
  unfold Algo.step
  have := ha.doStep s hQ hT
  split
  · rename_i e he; rw [he] at this; exact this
  · rename_i s1 v he
    rw [he] at this
    dsimp only
    split
    · exact this
    · have hst := ha.stop ({ s1 with core := { s1.core with cur := v } } : St F τ ℝ)
      show Q (A.stop _).1.fn ∧ T (A.stop _).1.core.params
      rw [hst.1, hst.2]; exact this

theorem loop_safe (ha : SafeAlgo A Q T) : ∀ (fuel : Nat) (s : St F τ ℝ), Q s.fn → T s.core.params →
    ROk Q (fun r => Q r.fn ∧ T r.core.params) (A.loop fuel s) := by
  intro fuel
  induction fuel with
  | zero =>
    intro s hQ hT
    rw [loop_zero]
    split
    · exact hQ
    · exact ⟨hQ, hT⟩
  | succ fuel ih =>
    intro s hQ hT
    rw [loop_succ]
    split
    · have := step_safe ha s hQ hT
      split
      · rename_i e he; rw [he] at this; exact this
      · rename_i s1 v he; rw [he] at this; exact ih (bump s1) this.1 this.2
    · exact ⟨hQ, hT⟩

theorem optimize_safe (ha : SafeAlgo A Q T) (fuel : Nat) (s : St F τ ℝ) (hQ : Q s.fn) (hT : T s.core.params) :
    ROk Q (fun r => Q r.1.fn ∧ T r.1.core.params) (A.optimize fuel s) := by
  unfold Algo.optimize
  split
  · exact hQ
  · have := loop_safe ha fuel ({ s with core := { s.core with tol := false, nbEval := 1 } } : St F τ ℝ) hQ hT
    split
    · rename_i e he; rw [he] at this; exact this
    · rename_i s' he; rw [he] at this; exact this

theorem gss_safeAlgo (hs : Safe I Q T) (fuel : Nat) : SafeAlgo (gssAlgo I fuel) Q T :=
  { doInit := fun s params hQ hT => gssDoInit_safe hs fuel s params hQ hT,
    doStep := fun s hQ hT => gssDoStep_safe hs s hQ hT,
    stopInit := fun _ => ⟨rfl, rfl⟩,
    stop := fun s => ⟨(gssStop_same s).2.1, (gssStop_same s).2.2.1⟩ }

theorem gssOptimize_safe (hs : Safe I Q T) (fuel : Nat) (s : St F (Gss ℝ) ℝ) (hQ : Q s.fn) (hT : T s.core.params) :
    ROk Q (fun r => Q r.1.fn ∧ T r.1.core.params) (gssOptimize I fuel s) := by
  unfold gssOptimize
  have := optimize_safe (gss_safeAlgo hs fuel) fuel s hQ hT
  split
  · rename_i e he; rw [he] at this; exact this
  · rename_i s1 v he
    rw [he] at this
    split
    · rename_i e he2; exact evalOwn_safe' hs he2 this.1 this.2
    · rename_i s2 v2 he2
      have h2 := evalOwn_safe' hs he2 this.1 this.2
      exact ⟨h2.1, h2.2.1⟩

/-! ### Brent -/

theorem inwardScan_safe (hs : Safe I Q T) (jump : ℝ) : ∀ (n : Nat) (fn : F) (pl : PList ℝ) (curr : ℝ) (best : BPt ℝ),
    Q fn → T pl → ROk Q (fun r => Q r.1 ∧ T r.2.1) (inwardScan I jump n fn pl curr best) := by
  intro n
  induction n with
  | zero => intro fn pl curr best hQ hT; rw [inwardScan]; exact ⟨hQ, hT⟩
  | succ n ih =>
    intro fn pl curr best hQ hT
    rw [inwardScan]
    try dsimp only
    split
    · rename_i e he; exact eval0_safe' hs he hQ hT
    · rename_i fn1 pl1 v he
      have := eval0_safe' hs he hQ hT
      exact ih _ _ _ _ this.1 this.2

theorem inward_safe (hs : Safe I Q T) (fuel : Nat) (a b : ℝ) (n : Nat) (fn : F) (pl : PList ℝ) (hQ : Q fn) (hT : T pl) :
    ROk Q (fun r => Q r.1) (inwardBracketMinimum I fuel a b n fn pl) := by
  unfold inwardBracketMinimum
  split
  · rename_i e he; exact eval0_safe' hs he hQ hT
  · rename_i fn1 pl1 fa he1
    have h1 := eval0_safe' hs he1 hQ hT
    try dsimp only
    split
    · rename_i e he; exact eval0_safe' hs he h1.1 h1.2
    · rename_i fn2 pl2 fb he2
      have h2 := eval0_safe' hs he2 h1.1 h1.2
      try dsimp only
      have h3 := shrinkB_safe hs fuel fn2 pl2 ⟨b, fb⟩ h2.1 h2.2
      split
      · rename_i e he; rw [he] at h3; exact h3
      · rename_i fn3 pl3 pb he3
        rw [he3] at h3
        try dsimp only
        have h4 := inwardScan_safe hs ((b - a) / Scalar.ofInt (Int.ofNat n)) n fn3 pl3 a
          (if Scalar.ltb (⟨a, fa⟩ : BPt ℝ).f pb.f = true then (⟨a, fa⟩ : BPt ℝ) else pb) h3.1 h3.2
        split
        · rename_i e he; rw [he] at h4; exact h4
        · rename_i fn4 pl4 best he4
          rw [he4] at h4
          try dsimp only
          split
          · rename_i e he; exact eval0_safe' hs he h4.1 h4.2
          · rename_i fn5 pl5 fbest he5
            exact (eval0_safe' hs he5 h4.1 h4.2).1

theorem brentDoInit_safe (hs : Safe I Q T) (fuel : Nat) (s : St F (Brent ℝ) ℝ) (params : PList ℝ) (hQ : Q s.fn) (hT : T s.core.params) :
    ROk Q (fun r => Q r.fn ∧ T r.core.params) (brentDoInit I fuel s params) := by
  unfold brentDoInit
  split
  · exact hQ
  · have hb : ROk Q (fun r => Q r.1) (if s.ext.inward = true then inwardBracketMinimum I fuel s.ext.xinf s.ext.xsup 10 s.fn s.core.params
        else bracketMinimum I fuel s.ext.xinf s.ext.xsup s.fn s.core.params) := by
      split
      · exact inward_safe hs fuel _ _ _ _ _ hQ hT
      · exact bracketMinimum_safe hs fuel _ _ _ _ hQ hT
    generalize (if s.ext.inward = true then inwardBracketMinimum I fuel s.ext.xinf s.ext.xsup 10 s.fn s.core.params
        else bracketMinimum I fuel s.ext.xinf s.ext.xsup s.fn s.core.params) = br at hb
    cases br with
    | error e => exact hb
    | ok r =>
      obtain ⟨fnb, k⟩ := r
      try dsimp only
      split
      · rename_i e he; obtain ⟨e1, fn1⟩ := e; exact hs.f_err _ _ _ _ hb hT he
      · rename_i fn1 fx he
        have hQ1 := hs.f_ok _ _ _ _ hb hT he
        try dsimp only
        split
        · split
          · exact hQ1
          · exact ⟨hQ1, hT⟩
        · split
          · rename_i e he2; exact evalOwn_safe' hs he2 hQ1 hT
          · rename_i sa fxb he2
            have h2 := evalOwn_safe' hs he2 hQ1 hT
            exact ⟨h2.1, h2.2.1⟩

theorem brentDoStep_safe (hs : Safe I Q T) (s : St F (Brent ℝ) ℝ) (hQ : Q s.fn) (hT : T s.core.params) :
    ROk Q (fun r => Q r.1.fn ∧ T r.1.core.params) (brentDoStep I s) := by
  unfold brentDoStep
  generalize brentPropose s.core.tolerance s.ext = pr
  obtain ⟨g1, u⟩ := pr
  try dsimp only
  split
  · exact hQ
  · rename_i pl hset
    have hT1 := hs.set _ _ _ _ hT hset
    try dsimp only
    split
    · rename_i e he; obtain ⟨e1, fn1⟩ := e; exact hs.f_err _ _ _ _ hQ hT1 he
    · rename_i fn1 fu he
      have hQ1 := hs.f_ok _ _ _ _ hQ hT1 he
      try dsimp only
      split
      · exact hQ1
      · rename_i pl2 hset2
        exact ⟨hQ1, hs.set _ _ _ _ hT hset2⟩

theorem brent_safeAlgo (hs : Safe I Q T) (fuel : Nat) : SafeAlgo (brentAlgo I fuel) Q T :=
  { doInit := fun s params hQ hT => brentDoInit_safe hs fuel s params hQ hT,
    doStep := fun s hQ hT => brentDoStep_safe hs s hQ hT,
    stopInit := fun _ => ⟨rfl, rfl⟩,
    stop := fun s => ⟨(brentStop_same s).2.1, (brentStop_same s).2.2⟩ }

theorem brentOptimize_safe (hs : Safe I Q T) (fuel : Nat) (s : St F (Brent ℝ) ℝ) (hQ : Q s.fn) (hT : T s.core.params) :
    ROk Q (fun r => Q r.1.fn ∧ T r.1.core.params) (brentOptimize I fuel s) := by
  unfold brentOptimize
  have := optimize_safe (brent_safeAlgo hs fuel) fuel s hQ hT
  split
  · rename_i e he; rw [he] at this; exact this
  · rename_i s1 v he
    rw [he] at this
    try dsimp only
    split
    · rename_i e he2; obtain ⟨e1, fn1⟩ := e; exact hs.f_err _ _ _ _ this.1 this.2 he2
    · rename_i fn2 v2 he2
      exact ⟨hs.f_ok _ _ _ _ this.1 this.2 he2, this.2⟩

/-! ### the objective of the harness -/

/-- the list is tied to the constraints `cons` of the list given to `init`: every parameter holds a
value its own constraint accepts (C01's invariant), and its constraint is the one `cons` records for
its name -/
def Tied (cons : Spec.Cons ℝ) (pl : PList ℝ) : Prop :=
  ∀ q ∈ pl, q.p.invOk = true ∧ ∀ c, (q.name, c) ∈ cons → q.p.constraint = c

/-- every point logged so far, and the current point, satisfy `cons` -/
def FeasFn (cons : Spec.Cons ℝ) (fn : Fn ℝ) : Prop :=
  Spec.feasibleLog cons fn.log = true ∧ Spec.feasiblePoint cons fn.point = true

theorem setValue_tied {p p' : Param ℝ} {x : ℝ} (h : p.setValue x = .ok p') (hi : p.invOk = true) :
    p'.invOk = true ∧ p'.constraint = p.constraint := by
  have hinv : p.Inv := (Param.invOk_iff p).1 hi
  unfold Param.setValue at h
  split at h
  · exact ⟨(Param.invOk_iff p').2 (Param.sva_inv hinv h), (Param.sva_fields h).1⟩
  · exact ⟨(Param.invOk_iff p').2 (Param.svb_inv hinv h), (Param.svb_fields h).1⟩

theorem setValueAt_tied (cons : Spec.Cons ℝ) : ∀ (pl : PList ℝ) (i : Nat) (x : ℝ) (pl' : PList ℝ),
    Tied cons pl → setValueAt pl i x = .ok pl' → Tied cons pl' := by
  intro pl
  induction pl with
  | nil => intro i x pl' _ h; rw [setValueAt] at h; cases h
  | cons q r ih =>
    intro i x pl' hT h
    cases i with
    | zero =>
      rw [setValueAt] at h
      split at h
      · rename_i p' hp
        simp only [Except.ok.injEq] at h
        subst h
        obtain ⟨h1, h2⟩ := setValue_tied hp (hT q (List.mem_cons_self ..)).1
        intro q' hq'
        rcases List.mem_cons.1 hq' with rfl | hm
        · exact ⟨h1, fun c hc => by show p'.constraint = c; rw [h2]; exact (hT q (List.mem_cons_self ..)).2 c hc⟩
        · exact hT q' (List.mem_cons_of_mem _ hm)
      · cases h
    | succ i =>
      rw [setValueAt] at h
      split at h
      · rename_i r' hr
        simp only [Except.ok.injEq] at h
        subst h
        have := ih i x r' (fun q' hq' => hT q' (List.mem_cons_of_mem _ hq')) hr
        intro q' hq'
        rcases List.mem_cons.1 hq' with rfl | hm
        · exact hT _ (List.mem_cons_self ..)
        · exact this q' hm
      · cases h

theorem feasiblePoint_set (cons : Spec.Cons ℝ) (pt : List ℝ) (n : Nat) (v : ℝ)
    (hp : Spec.feasiblePoint cons pt = true) (hv : ∀ c, (n, c) ∈ cons → Spec.accepts c v = true) :
    Spec.feasiblePoint cons (pt.set n v) = true := by
  unfold Spec.feasiblePoint at hp ⊢
  rw [List.all_eq_true] at hp ⊢
  intro nc hnc
  have h0 := hp nc hnc
  by_cases hn : nc.1 = n
  · by_cases hlt : n < pt.length
    · rw [hn, List.getElem?_set_self hlt]
      exact hv nc.2 (by rw [← hn]; exact hnc)
    · rw [List.getElem?_eq_none (by rw [List.length_set]; omega)]
  · rw [List.getElem?_set_ne (fun c => hn c.symm)]; exact h0

theorem matchPoint_feasible (cons : Spec.Cons ℝ) : ∀ (pl : PList ℝ) (pt : List ℝ), Tied cons pl →
    Spec.feasiblePoint cons pt = true → Spec.feasiblePoint cons (matchPoint pt pl) = true := by
  intro pl
  induction pl with
  | nil => intro pt _ hp; exact hp
  | cons q r ih =>
    intro pt hT hp
    rw [matchPoint]
    apply ih _ (fun q' hq' => hT q' (List.mem_cons_of_mem _ hq'))
    split
    · rename_i old _
      rw [own_real]
      apply feasiblePoint_set cons pt q.name q.p.value hp
      intro c hc
      have := hT q (List.mem_cons_self ..)
      rw [← this.2 c hc]
      exact this.1
    · exact hp

theorem setParameters_feasible (cons : Spec.Cons ℝ) (fn : Fn ℝ) (pl : PList ℝ) (hQ : FeasFn cons fn) (hT : Tied cons pl) :
    FeasFn cons (fn.setParameters pl) := by
  have := matchPoint_feasible cons pl fn.point hT hQ.2
  refine ⟨?_, this⟩
  show Spec.feasibleLog cons (matchPoint fn.point pl :: fn.log) = true
  unfold Spec.feasibleLog
  rw [List.all_cons, this]
  exact hQ.1

/-- the objective of the harness, whatever it computes: evaluated through tied lists it is only
ever evaluated at points that satisfy the constraints -/
theorem objective_safe (obj : List ℝ → ℝ) (D : Deriv ℝ) (cap : Option Nat) (cons : Spec.Cons ℝ) :
    Safe (Fn.iface obj D cap) (FeasFn cons) (Tied cons) := by
  refine ⟨?_, ?_, fun pl i x pl' hT h => setValueAt_tied cons pl i x pl' hT h⟩
  · intro fn pl fn' v hQ hT h
    simp only [Fn.iface] at h
    split at h
    · cases h
    · simp only [Except.ok.injEq] at h
      have : fn' = fn.setParameters pl := by have := congrArg Prod.fst h; exact this.symm
      rw [this]; exact setParameters_feasible cons fn pl hQ hT
  · intro fn pl e fn' hQ hT h
    simp only [Fn.iface] at h
    split at h
    · simp only [Except.error.injEq, Prod.mk.injEq] at h
      rw [← h.2]; exact setParameters_feasible cons fn pl hQ hT
    · cases h

/-- `init`'s list, with the automatic (or the keep) policy applied, is tied to its own constraints
when its values are feasible (which the constructor of `Parameter` guarantees, C01) -/
theorem applyPolicy_tied (params : PList ℝ) (pol : Policy) (hpol : pol ≠ .ignore) (hf : feasibleList params = true)
    (hnd : (params.map (·.name)).Nodup) :
    Tied (params.map (fun q => (q.name, q.p.constraint))) (applyPolicy pol params) := by
  have key : ∀ q ∈ params, q.p.invOk = true ∧ ∀ c, (q.name, c) ∈ params.map (fun q => (q.name, q.p.constraint)) → q.p.constraint = c := by
    intro q hq
    refine ⟨by unfold feasibleList at hf; rw [List.all_eq_true] at hf; exact hf q hq, ?_⟩
    intro c hc
    obtain ⟨q2, hq2, he⟩ := List.mem_map.1 hc
    simp only [Prod.mk.injEq] at he
    have : q2 = q := by
      have := List.inj_on_of_nodup_map hnd hq2 hq he.1
      exact this
    rw [← he.2, this]
  cases pol with
  | ignore => exact absurd rfl hpol
  | keep => exact key
  | auto =>
    intro q' hq'
    simp only [applyPolicy] at hq'
    obtain ⟨q, hq, rfl⟩ := List.mem_map.1 hq'
    exact key q hq

end Bpp.Optim
