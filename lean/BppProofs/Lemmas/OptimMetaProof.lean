import BppProofs.Lemmas.OptimLineOpt
import BppModel.OptimMeta
/-!
Helper lemmas for C10: `MetaOptimizer` (model in `BppModel/OptimMeta.lean`) on the objective of the
harness, over `ℝ`.

A step of the meta-optimiser runs its sub-optimisers one after the other on the same function object.
For each of them: the meta-optimiser's values are copied into the sub-list (`matchParametersValues`), the
sub-optimiser is initialised with that list and makes one step or a whole `optimize`, and its values are
copied back.  What makes this a descent:

* the sub-list, after the copy, holds the function's coordinates (`meta_copy_in`), so that the
  `init` of the sub-optimiser does not move the function (`simple_init_point`, `bfgs_init_point`);
* a run of a sub-optimiser from there never increases the objective, leaves the function at the
  sub-optimiser's list, **and moves no coordinate outside the names of that list** — the frame `Off`,
  carried through the template by `Run.Inv` (`run_step`, `run_optimize`) from the frame of one `doStep`
  (`simpleDoStep_run`, `bfgsDoStep_run`);
* copying back then leaves the meta-optimiser's list at the function's coordinates (`meta_copy_back`):
  the names of the sub-list get the sub-list's values, the others hold what they held, which the
  sub-optimiser has not moved.
-/
set_option linter.unusedSectionVars false
set_option linter.unusedVariables false
namespace Bpp.Optim
open Bpp

variable (obj : List ℝ → ℝ) (D : Deriv ℝ) (cap : Option Nat)

/-! ### frames -/

theorem Off.rfl' (fn : Fn ℝ) (ns : List Nat) : Off fn.point ns fn := ⟨rfl, fun _ _ => rfl⟩

theorem Off.trans {pt0 : List ℝ} {ns : List Nat} {fn1 fn2 : Fn ℝ} (h1 : Off pt0 ns fn1) (h2 : Off fn1.point ns fn2) :
    Off pt0 ns fn2 :=
  ⟨h2.1.trans h1.1, fun i hi => (h2.2 i hi).trans (h1.2 i hi)⟩

theorem Off.mono {pt0 : List ℝ} {ns ns' : List Nat} {fn : Fn ℝ} (h : Off pt0 ns fn) (hs : ∀ n ∈ ns, n ∈ ns') :
    Off pt0 ns' fn :=
  ⟨h.1, fun i hi => h.2 i (fun c => hi (hs i c))⟩

theorem Off.of_point {pt0 : List ℝ} {ns : List Nat} {fn fn' : Fn ℝ} (h : Off pt0 ns fn) (e : fn'.point = fn.point) :
    Off pt0 ns fn' := by
  unfold Off; rw [e]; exact h

theorem Off.of_eq {pt0 : List ℝ} {ns : List Nat} {fn : Fn ℝ} (e : fn.point = pt0) : Off pt0 ns fn := by
  unfold Off; rw [e]; exact ⟨rfl, fun _ _ => rfl⟩

/-! ### `matchParametersValues`, with what it leaves alone -/

/-- `own.matchParametersValues(src)`: besides `matchList_spec`, the parameters whose name does not occur
in `src` are those of `own`, untouched -/
theorem matchList_spec' (own src own' : PList ℝ) (hg : Good own) (hnd : (names own).Nodup) (hnds : (names src).Nodup)
    (h : matchList own src = .ok own') :
    Like own own' ∧ (∀ q' ∈ own', ∀ r ∈ src, r.name = q'.name → q'.p.value = r.p.value) ∧
    (∀ q' ∈ own', q'.name ∉ names src → q' ∈ own) := by
  unfold matchList at h
  split at h
  · cases h
  · rename_i hany
    have hacc : ∀ r ∈ src, ∀ q ∈ own, q.name = r.name → q.p.accepts r.p.value = true := by
      intro r hr q hq hn
      have hno := hany
      rw [List.any_eq_true] at hno
      cases hf : findNamed own r.name with
      | none => exact absurd hn (findNamed_none hf q hq)
      | some p =>
        obtain ⟨hp, hpn⟩ := findNamed_some hf
        have : q = p := eq_of_nodup hnd hq hp (by rw [hpn, hn])
        rw [this]
        by_contra hc
        exact hno ⟨r, hr, by rw [hf]; simpa using hc⟩
    exact matchLoop_spec src own own' hg hnd hnds hacc h

/-- copying the optimiser's values into a sub-list whose names are names of the optimiser's list: the
sub-list then holds the function's coordinates -/
theorem meta_copy_in (fn : Fn ℝ) (own p p' : PList ℝ) (hnd : (names own).Nodup) (hsync : Sync fn own)
    (hgp : Good p) (hndp : (names p).Nodup) (hsub : ∀ n ∈ names p, n ∈ names own)
    (h : matchList p own = .ok p') : Like p p' ∧ Sync fn p' := by
  obtain ⟨h1, h2⟩ := matchList_spec p own p' hgp hndp hnd h
  refine ⟨h1, ?_⟩
  intro q' hq'
  have hn : q'.name ∈ names own := hsub _ (by rw [← h1.names]; exact mem_names hq')
  obtain ⟨r, hr, hrn⟩ := List.mem_map.1 hn
  rw [h2 q' hq' r hr hrn, ← hrn]
  exact hsync r hr

/-- copying back the values of a sub-list `sub` named `ms` which the function `fn2` holds, the function
agreeing outside `ms` with a function `fn` that held the optimiser's list: the optimiser's list then
holds the coordinates of `fn2` -/
theorem meta_copy_back (fn fn2 : Fn ℝ) (own own' sub : PList ℝ) (ms : List Nat)
    (hgood : Good own) (hnd : (names own).Nodup) (hsync : Sync fn own)
    (hms : names sub = ms) (hndm : ms.Nodup) (hsync2 : Sync fn2 sub) (hoff : Off fn.point ms fn2)
    (h : matchList own sub = .ok own') : Like own own' ∧ Sync fn2 own' := by
  obtain ⟨h1, h2, h3⟩ := matchList_spec' own sub own' hgood hnd (by rw [hms]; exact hndm) h
  refine ⟨h1, ?_⟩
  intro q' hq'
  by_cases hn : q'.name ∈ names sub
  · obtain ⟨r, hr, hrn⟩ := List.mem_map.1 hn
    rw [h2 q' hq' r hr hrn, ← hrn]
    exact hsync2 r hr
  · rw [hoff.2 _ (by rw [← hms]; exact hn)]
    exact hsync q' (h3 q' hq' hn)

/-! ### the template, with a frame and a condition on the optimiser's own fields -/

/-- the invariant of a run: `Multi.Inv`, the function agrees with `pt0` outside the names `ns`, and the
optimiser's own fields satisfy `E` -/
structure Run.Inv {τ : Type} (E : τ → Prop) (B : ℝ) (len : Nat) (ns : List Nat) (pt0 : List ℝ) (s : St (Fn ℝ) τ ℝ) : Prop where
  multi : Multi.Inv obj B len ns s
  off : Off pt0 ns s.fn
  ext : E s.ext

theorem Run.Inv.congr {τ : Type} {E : τ → Prop} {B : ℝ} {len : Nat} {ns : List Nat} {pt0 : List ℝ} {s t : St (Fn ℝ) τ ℝ}
    (h : Run.Inv obj E B len ns pt0 s)
    (hf : t.fn = s.fn) (hp : t.core.params = s.core.params) (hc : t.core.cur = s.core.cur) (he : t.ext = s.ext) :
    Run.Inv obj E B len ns pt0 t :=
  ⟨h.multi.congr obj hf hp hc, by rw [hf]; exact h.off, by rw [he]; exact h.ext⟩

/-- a step of the template, for an optimiser whose `doStep` keeps `Coord.Inv` and `E`, returns the
objective at the point it leaves the function at, not above the current value, moves no coordinate
outside `ns`, and whose stop condition is `FunctionStopCondition` -/
theorem run_step {τ : Type} (A : Algo (Fn ℝ) τ ℝ) (hstop : A.stop = fscStop) (E : τ → Prop)
    (B : ℝ) (len : Nat) (ns : List Nat) (pt0 : List ℝ)
    (hstep : ∀ s s' v, Multi.Inv obj B len ns s → E s.ext → A.doStep s = .ok (s', v) →
      Coord.Inv len ns s' ∧ E s'.ext ∧ v = obj s'.fn.point ∧ v ≤ s.core.cur ∧ Off s.fn.point ns s'.fn)
    (s s' : St (Fn ℝ) τ ℝ) (v : ℝ) (hi : Run.Inv obj E B len ns pt0 s) (h : A.step s = .ok (s', v)) :
    Run.Inv obj E B len ns pt0 s' ∧ s'.core.cur = v := by
  obtain ⟨u1, hd1, hc⟩ := step_cases A s h
  obtain ⟨a, e, b, c, d⟩ := hstep s u1 v hi.multi hi.ext hd1
  have h1 : Run.Inv obj E B len ns pt0 ({ u1 with core := { u1.core with cur := v } } : St (Fn ℝ) τ ℝ) :=
    ⟨⟨⟨a.good, a.names, a.sync, a.len⟩, b, le_trans c hi.multi.below⟩, hi.off.trans d, e⟩
  rcases hc with ⟨_, rfl⟩ | ⟨_, rfl⟩
  · exact ⟨h1, rfl⟩
  · rw [hstop]
    have hs := fscStop_same ({ u1 with core := { u1.core with cur := v } } : St (Fn ℝ) τ ℝ)
    exact ⟨h1.congr obj hs.1 hs.2.1 hs.2.2.1 hs.2.2.2.1, hs.2.2.1⟩

/-- `optimize` keeps the invariant and returns the current value -/
theorem run_optimize {τ : Type} (A : Algo (Fn ℝ) τ ℝ) (hstop : A.stop = fscStop) (E : τ → Prop)
    (B : ℝ) (len : Nat) (ns : List Nat) (pt0 : List ℝ)
    (hstep : ∀ s s' v, Multi.Inv obj B len ns s → E s.ext → A.doStep s = .ok (s', v) →
      Coord.Inv len ns s' ∧ E s'.ext ∧ v = obj s'.fn.point ∧ v ≤ s.core.cur ∧ Off s.fn.point ns s'.fn)
    (fuel : Nat) (s s2 : St (Fn ℝ) τ ℝ) (v : ℝ) (hi : Run.Inv obj E B len ns pt0 s)
    (h : A.optimize fuel s = .ok (s2, v)) :
    Run.Inv obj E B len ns pt0 s2 ∧ s2.core.cur = v := by
  unfold Algo.optimize at h
  split at h
  · cases h
  · split at h
    · cases h
    · rename_i sL hl
      simp only [Except.ok.injEq, Prod.mk.injEq] at h
      obtain ⟨rfl, rfl⟩ := h
      refine ⟨?_, rfl⟩
      refine loop_invariant A (Run.Inv obj E B len ns pt0)
        (fun u u' w hu _ hst => (run_step obj A hstop E B len ns pt0 hstep u u' w hu hst).1)
        (fun u hu => hu.congr obj rfl rfl rfl rfl) fuel _ _ ?_ hl
      exact hi.congr obj rfl rfl rfl rfl

/-- one step or a whole `optimize` of a sub-optimiser from a state `init` has left at the point `pt0` -/
theorem sub_run {τ : Type} (A : Algo (Fn ℝ) τ ℝ) (hstop : A.stop = fscStop) (len : Nat) (ns : List Nat) (pt0 : List ℝ)
    (hstep : ∀ s s' v, Multi.Inv obj (obj pt0) len ns s → A.doStep s = .ok (s', v) →
      Coord.Inv len ns s' ∧ v = obj s'.fn.point ∧ v ≤ s.core.cur ∧ Off s.fn.point ns s'.fn)
    (fuel : Nat) (full : Bool) (sub1 sub2 : St (Fn ℝ) τ ℝ) (w : ℝ)
    (hi : Multi.Inv obj (obj pt0) len ns sub1) (hpt : sub1.fn.point = pt0)
    (hrun : (if full then A.optimize fuel sub1 else A.step sub1) = .ok (sub2, w)) :
    Coord.Inv len ns sub2 ∧ obj sub2.fn.point ≤ obj pt0 ∧ Off pt0 ns sub2.fn := by
  have hstep' : ∀ s s' v, Multi.Inv obj (obj pt0) len ns s → (fun _ : τ => True) s.ext → A.doStep s = .ok (s', v) →
      Coord.Inv len ns s' ∧ (fun _ : τ => True) s'.ext ∧ v = obj s'.fn.point ∧ v ≤ s.core.cur ∧ Off s.fn.point ns s'.fn := by
    intro s s' v hm _ hd
    obtain ⟨a, b, c, d⟩ := hstep s s' v hm hd
    exact ⟨a, trivial, b, c, d⟩
  have h1 : Run.Inv obj (fun _ : τ => True) (obj pt0) len ns pt0 sub1 := ⟨hi, Off.of_eq hpt, trivial⟩
  have h2 : Run.Inv obj (fun _ : τ => True) (obj pt0) len ns pt0 sub2 := by
    cases full with
    | true => exact (run_optimize obj A hstop _ _ len ns pt0 hstep' fuel sub1 sub2 w h1 (by simpa using hrun)).1
    | false => exact (run_step obj A hstop _ _ len ns pt0 hstep' sub1 sub2 w h1 (by simpa using hrun)).1
  exact ⟨h2.multi.coord, by rw [← h2.multi.cur]; exact h2.multi.below, h2.off⟩

/-! ### `init` does not move a function that holds the list -/

theorem init_fn {τ : Type} (A : Algo (Fn ℝ) τ ℝ) (hsi : A.stopInit = fscInit) (s s1 : St (Fn ℝ) τ ℝ) (params : PList ℝ)
    (h : A.init s params = .ok s1) :
    ∃ sa, A.doInit { s with core := { s.core with params := applyPolicy s.core.policy params } } params = .ok sa ∧
      s1.fn = sa.fn := by
  unfold Algo.init at h
  simp only [] at h
  split at h
  · cases h
  · rename_i sa hdi
    simp only [Except.ok.injEq] at h
    rw [hsi] at h
    subst h
    exact ⟨sa, hdi, rfl⟩

theorem simple_init_point (fuel : Nat) (s s1 : St (Fn ℝ) (Simple ℝ) ℝ) (params : PList ℝ)
    (h : (simpleAlgo (Fn.iface obj D cap) fuel).init s params = .ok s1) :
    s1.fn.point = matchPoint s.fn.point params := by
  obtain ⟨sa, hdi, e⟩ := init_fn _ rfl s s1 params h
  rw [e]
  change simpleDoInit (Fn.iface obj D cap) _ params = .ok sa at hdi
  unfold simpleDoInit at hdi
  simp only [] at hdi
  split at hdi
  · rename_i hz
    simp only [Except.ok.injEq] at hdi
    subst hdi
    have : params = [] := by simpa using hz
    subst this
    rfl
  · split at hdi
    · cases hdi
    · rename_i fn1 hsp
      simp only [Except.ok.injEq] at hdi
      subst hdi
      rw [iface_set_point obj D cap _ _ _ hsp]
      exact matchPoint_applyPolicy _ _ _

theorem bfgs_init_point (fuel : Nat) (s s1 : St (Fn ℝ) (Bfgs ℝ) ℝ) (params : PList ℝ)
    (h : (bfgsAlgo (Fn.iface obj D cap) fuel).init s params = .ok s1) :
    s1.fn.point = matchPoint s.fn.point params := by
  obtain ⟨sa, hdi, e⟩ := init_fn _ rfl s s1 params h
  rw [e]
  change bfgsDoInit (Fn.iface obj D cap) _ params = .ok sa at hdi
  unfold bfgsDoInit at hdi
  simp only [] at hdi
  split at hdi
  · cases hdi
  · split at hdi
    · cases hdi
    · split at hdi
      · cases hdi
      · rename_i fn1 hsp
        split at hdi
        · cases hdi
        · simp only [Except.ok.injEq] at hdi
          subst hdi
          exact iface_set_point obj D cap _ _ _ hsp

/-! ### `SimpleMultiDimensions`: a step moves no coordinate outside the names of its list -/

/-- one coordinate: the one-dimensional search moves that coordinate only (`AlongP`) -/
theorem simpleCoord_frame (fuel : Nat) (len : Nat) (ns : List Nat) (hns : ns.Nodup ∧ ∀ n ∈ ns, n < len)
    (s s' : St (Fn ℝ) (Simple ℝ) ℝ) (i : Nat) (f : ℝ)
    (hi : Coord.Inv len ns s) (h : simpleCoord (Fn.iface obj D cap) fuel s i = .ok (s', f)) :
    Off s.fn.point ns s'.fn := by
  unfold simpleCoord at h
  split at h
  · cases h
  · rename_i q hq
    have hqm : q ∈ s.core.params := List.mem_of_getElem? hq
    simp only [] at h
    generalize orderedInterval (q.p.value - Scalar.max (Scalar.ofRat 1 1000000) (Scalar.min (Scalar.abs q.p.value) s.core.tolerance))
      (q.p.value + Scalar.max (Scalar.ofRat 1 1000000) (Scalar.min (Scalar.abs q.p.value) s.core.tolerance)) = iv at h
    obtain ⟨lo, hi'⟩ := iv
    simp only [] at h
    split at h
    · cases h
    · rename_i inner1 hinit
      split at h
      · cases h
      · rename_i inner2 fv hopt
        split at h
        · cases h
        · rename_i pl hml
          simp only [Except.ok.injEq, Prod.mk.injEq] at h
          obtain ⟨rfl, rfl⟩ := h
          obtain ⟨p0, hap, hp0v, hp0p, hp0i⟩ := applyPolicy_single s.ext.icore.policy q
          have hgq := hi.good q hqm
          have hp0prec : p0.precision = 0 := by rw [hp0p]; exact hgq.1
          have hp0inv : p0.invOk = true := hp0i hgq.2
          have hqn : q.name ∈ ns := by rw [← hi.names]; exact mem_names hqm
          have hk : q.name < s.fn.point.length := by rw [hi.len]; exact hns.2 _ hqn
          have hJ : AlongP s.fn.point q.name p0 s.fn (applyPolicy s.ext.icore.policy [q]) := by
            rw [hap]
            exact ⟨⟨p0.value, by rw [reval_self], hp0inv⟩, hk, rfl, fun _ _ => rfl⟩
          have hx0 : value0 (applyPolicy s.ext.icore.policy [q]) = some q.p.value := by
            rw [hap]; simp [value0, hp0v]
          have hdet := objective_det_con obj D cap s.fn.point q.name p0 hp0prec hp0inv
          have hbi := brentInit_spec (Fn.iface obj D cap) _ hdet fuel _ inner1 [q] q.p.value hinit hJ hx0
          obtain ⟨-, -, x, -, -, hJ2⟩ := brentOptimize_spec (Fn.iface obj D cap) _ hdet fuel _ inner1 inner2 fv hbi hopt
          exact ⟨hJ2.2.2.1, fun j hj => hJ2.2.2.2 j (fun c => hj (by rw [c]; exact hqn))⟩

theorem simpleCoords_frame (fuel : Nat) (len : Nat) (ns : List Nat) (hns : ns.Nodup ∧ ∀ n ∈ ns, n < len) :
    ∀ (l : List Nat) (s s' : St (Fn ℝ) (Simple ℝ) ℝ) (f0 f : ℝ), Coord.Inv len ns s →
      simpleCoords (Fn.iface obj D cap) fuel l s f0 = .ok (s', f) → Off s.fn.point ns s'.fn := by
  intro l
  induction l with
  | nil =>
    intro s s' f0 f _ h
    rw [simpleCoords] at h
    simp only [Except.ok.injEq, Prod.mk.injEq] at h
    obtain ⟨rfl, rfl⟩ := h
    exact Off.rfl' _ _
  | cons i r ih =>
    intro s s' f0 f hi h
    rw [simpleCoords] at h
    split at h
    · cases h
    · rename_i s1 f1 hc
      obtain ⟨a, -⟩ := simpleCoord_spec obj D cap fuel len ns hns s s1 i f1 hi hc
      exact (simpleCoord_frame obj D cap fuel len ns hns s s1 i f1 hi hc).trans (ih s1 s' f1 f a h)

/-- **`SimpleMultiDimensions::doStep`**: `Coord.Inv` is kept, the value returned is the objective at the
point the function is left at, not above the objective at the point it was found at, and no coordinate
outside the names of the optimiser's list has moved -/
theorem simpleDoStep_run (fuel : Nat) (len : Nat) (ns : List Nat) (hns : ns.Nodup ∧ ∀ n ∈ ns, n < len)
    (s s' : St (Fn ℝ) (Simple ℝ) ℝ) (v : ℝ) (hi : Coord.Inv len ns s)
    (h : simpleDoStep (Fn.iface obj D cap) fuel s = .ok (s', v)) :
    Coord.Inv len ns s' ∧ v = obj s'.fn.point ∧ v ≤ obj s.fn.point ∧ Off s.fn.point ns s'.fn := by
  unfold simpleDoStep at h
  split at h
  · cases h
  · rename_i ua fa hc
    simp only [Except.ok.injEq, Prod.mk.injEq] at h
    obtain ⟨rfl, rfl⟩ := h
    obtain ⟨a, b, c, -, -⟩ := simpleCoords_spec obj D cap fuel len ns hns _ s ua _ fa hi rfl hc
    exact ⟨⟨a.good, a.names, a.sync, a.len⟩, b, c, simpleCoords_frame obj D cap fuel len ns hns _ s ua _ fa hi hc⟩

/-! ### `BfgsMultiDimensions`: a step moves no coordinate outside the names of its list -/

/-- **`BfgsMultiDimensions::doStep`** (repaired): `bfgsDoStep_spec`, and no coordinate outside the names
of the optimiser's list has moved (the function is only ever set through lists with those names) -/
theorem bfgsDoStep_run (len : Nat) (ns : List Nat) (hns : ns.Nodup ∧ ∀ n ∈ ns, n < len) (fuel : Nat)
    (s s' : St (Fn ℝ) (Bfgs ℝ) ℝ) (v : ℝ) (hi : Coord.Inv len ns s) (hcur : s.core.cur = obj s.fn.point)
    (h : bfgsDoStep (Fn.iface obj D cap) fuel s = .ok (s', v)) :
    Coord.Inv len ns s' ∧ v = obj s'.fn.point ∧ v ≤ s.core.cur ∧ Off s.fn.point ns s'.fn := by
  obtain ⟨c1, c2, c3⟩ := bfgsDoStep_spec obj D cap len ns hns fuel s s' v hi hcur h
  refine ⟨c1, c2, c3, ?_⟩
  obtain ⟨xi, gr, fn1, pl, xi', k, fn2, f, hl, hf, hor⟩ := bfgsDoStep_shape _ fuel s s' v h
  obtain ⟨a, b⟩ := lineSearch_spec obj D cap fuel s.fn fn1 s.core.params pl xi gr xi' k hi.good hl
  obtain ⟨m1, m2, m3, m4, m5, m6⟩ := moved_eval obj D cap len ns hns s.fn fn1 fn2 s.core.params pl f
    hi.good hi.names hi.len a b hf
  have off2 : Off s.fn.point ns fn2 := off_of_matchPoint s.fn.point ns fn2 pl m2 (m6.trans b)
  rcases hor with ⟨_, e1, _, _⟩ | ⟨_, pl0, hsa, hf0, _, _⟩
  · rw [e1]; exact off2
  · have hn0 : names pl0 = ns := (setAll_names pl _ pl0 hsa).trans m2
    obtain ⟨hp, -, -⟩ := iface_f_point obj D cap _ _ _ _ hf0
    exact off2.trans (off_of_matchPoint fn2.point ns s'.fn pl0 hn0 hp)

/-! ### the sub-optimisers as the meta-optimiser runs them -/

/-- `init`, then one `step` or a whole `optimize`, of the `SimpleMultiDimensions` with a list the function
holds -/
theorem simple_sub (fuel : Nat) (sub sub1 sub2 : St (Fn ℝ) (Simple ℝ) ℝ) (p : PList ℝ) (full : Bool) (w : ℝ)
    (hg : Good p) (hnm : Named p sub.fn.point.length) (hsync : Sync sub.fn p)
    (hinit : (simpleAlgo (Fn.iface obj D cap) fuel).init sub p = .ok sub1)
    (hrun : (if full then (simpleAlgo (Fn.iface obj D cap) fuel).optimize fuel sub1
             else (simpleAlgo (Fn.iface obj D cap) fuel).step sub1) = .ok (sub2, w)) :
    Coord.Inv sub.fn.point.length (names p) sub2 ∧ obj sub2.fn.point ≤ obj sub.fn.point ∧
    Off sub.fn.point (names p) sub2.fn := by
  have hmp : matchPoint sub.fn.point p = sub.fn.point := matchPoint_of_sync p _ hsync
  have hi := multi_init_spec obj D cap (simpleAlgo (Fn.iface obj D cap) fuel) rfl rfl sub sub1 p hg hnm
    (by
      intro s0 sa h
      change simpleDoInit (Fn.iface obj D cap) s0 p = .ok sa at h
      unfold simpleDoInit at h
      simp only [] at h
      split at h
      · rename_i hz
        simp only [Except.ok.injEq] at h
        subst h
        exact ⟨rfl, Or.inl ⟨by simpa using hz, rfl⟩⟩
      · split at h
        · cases h
        · rename_i fn1 hsp
          simp only [Except.ok.injEq] at h
          subst h
          exact ⟨rfl, Or.inr hsp⟩) hinit
  rw [hmp] at hi
  have hpt : sub1.fn.point = sub.fn.point := (simple_init_point obj D cap fuel sub sub1 p hinit).trans hmp
  exact sub_run obj (simpleAlgo (Fn.iface obj D cap) fuel) rfl _ _ _
    (by
      intro u u' x hu h
      obtain ⟨a, b, c, d⟩ := simpleDoStep_run obj D cap fuel _ _ hnm u u' x hu.coord h
      exact ⟨a, b, by rw [hu.cur]; exact c, d⟩) fuel full sub1 sub2 w hi hpt hrun

/-- the same for the `BfgsMultiDimensions` -/
theorem bfgs_sub (fuel : Nat) (sub sub1 sub2 : St (Fn ℝ) (Bfgs ℝ) ℝ) (p : PList ℝ) (full : Bool) (w : ℝ)
    (hg : Good p) (hnm : Named p sub.fn.point.length) (hsync : Sync sub.fn p)
    (hinit : (bfgsAlgo (Fn.iface obj D cap) fuel).init sub p = .ok sub1)
    (hrun : (if full then (bfgsAlgo (Fn.iface obj D cap) fuel).optimize fuel sub1
             else (bfgsAlgo (Fn.iface obj D cap) fuel).step sub1) = .ok (sub2, w)) :
    Coord.Inv sub.fn.point.length (names p) sub2 ∧ obj sub2.fn.point ≤ obj sub.fn.point ∧
    Off sub.fn.point (names p) sub2.fn := by
  have hmp : matchPoint sub.fn.point p = sub.fn.point := matchPoint_of_sync p _ hsync
  have hi := given_init_spec obj D cap (bfgsAlgo (Fn.iface obj D cap) fuel) rfl rfl sub sub1 p hg hnm
    (by
      intro s0 sa h
      change bfgsDoInit (Fn.iface obj D cap) s0 p = .ok sa at h
      unfold bfgsDoInit at h
      simp only [] at h
      split at h
      · cases h
      · split at h
        · cases h
        · split at h
          · cases h
          · rename_i fn1 hsp
            split at h
            · cases h
            · simp only [Except.ok.injEq] at h
              subst h
              exact ⟨rfl, hsp⟩) hinit
  rw [hmp] at hi
  have hpt : sub1.fn.point = sub.fn.point := (bfgs_init_point obj D cap fuel sub sub1 p hinit).trans hmp
  exact sub_run obj (bfgsAlgo (Fn.iface obj D cap) fuel) rfl _ _ _
    (fun u u' x hu h => bfgsDoStep_run obj D cap _ _ hnm fuel u u' x hu.coord hu.cur h)
    fuel full sub1 sub2 w hi hpt hrun

/-! ### the meta-optimiser -/

/-- the lists built by `doInit`: parameters of the optimiser's own list, named in the group, in the
order of the group (`ParameterList::addParameter` raises for a name that is already there: the groups are
taken without repetition) -/
theorem metaSubList_spec (own given : PList ℝ) (hg : Good own) : ∀ (g : List Nat), g.Nodup →
    Good (metaSubList own given g) ∧ (names (metaSubList own given g)).Nodup ∧
    (∀ n ∈ names (metaSubList own given g), n ∈ g ∧ n ∈ names own) := by
  intro g
  induction g with
  | nil => intro _; exact ⟨(fun q hq => nomatch hq), List.nodup_nil, (fun n hn => nomatch hn)⟩
  | cons n g ih =>
    intro hnd
    rw [List.nodup_cons] at hnd
    obtain ⟨a, b, c⟩ := ih hnd.2
    unfold metaSubList at a b c ⊢
    rw [List.filterMap_cons]
    split
    · exact ⟨a, b, fun m hm => ⟨List.mem_cons_of_mem _ (c m hm).1, (c m hm).2⟩⟩
    · rename_i q hq
      have hf : findNamed own n = some q := by
        split at hq
        · exact hq
        · cases hq
      obtain ⟨hqm, hqn⟩ := findNamed_some hf
      refine ⟨?_, ?_, ?_⟩
      · intro q' hq'
        rcases List.mem_cons.1 hq' with rfl | hm
        · exact hg _ hqm
        · exact a q' hm
      · rw [names_cons, List.nodup_cons]
        exact ⟨fun hc => hnd.1 (hqn ▸ (c _ hc).1), b⟩
      · intro m hm
        rw [names_cons, List.mem_cons] at hm
        rcases hm with rfl | hm
        · exact ⟨by rw [hqn]; exact List.mem_cons_self .., mem_names hqm⟩
        · exact ⟨List.mem_cons_of_mem _ (c m hm).1, (c m hm).2⟩

/-- what a step needs of the meta-optimiser's own fields: the two sub-lists hold good parameters with
distinct names that are names of the optimiser's list -/
def Meta.Sub (ns : List Nat) (m : Meta ℝ) : Prop :=
  (Good m.p1 ∧ (names m.p1).Nodup ∧ ∀ n ∈ names m.p1, n ∈ ns) ∧
  (Good m.p2 ∧ (names m.p2).Nodup ∧ ∀ n ∈ names m.p2, n ∈ ns)

/-- the body of the loop of `doStep` for the `SimpleMultiDimensions` -/
theorem metaRunSimple_spec (fuel : Nat) (len : Nat) (ns : List Nat) (hns : ns.Nodup ∧ ∀ n ∈ ns, n < len)
    (s s' : St (Fn ℝ) (Meta ℝ) ℝ) (tol : ℝ) (hi : Coord.Inv len ns s) (hsub : Meta.Sub ns s.ext)
    (h : metaRunSimple (Fn.iface obj D cap) fuel s tol = .ok s') :
    Coord.Inv len ns s' ∧ Meta.Sub ns s'.ext ∧ obj s'.fn.point ≤ obj s.fn.point ∧ Off s.fn.point ns s'.fn ∧
    s'.ext.n = s.ext.n ∧ s'.core.cur = s.core.cur := by
  unfold metaRunSimple at h
  split at h
  · simp only [Except.ok.injEq] at h
    subst h
    exact ⟨hi, hsub, le_refl _, Off.rfl' _ _, rfl, rfl⟩
  · split at h
    · cases h
    · rename_i p1' hin
      simp only [] at h
      split at h
      · cases h
      · rename_i sub1 hinit
        split at h
        · cases h
        · rename_i sub2 w hrun
          split at h
          · cases h
          · rename_i own' hback
            simp only [Except.ok.injEq] at h
            subst h
            obtain ⟨⟨g1, n1, m1⟩, hs2⟩ := hsub
            have hndo : (names s.core.params).Nodup := by rw [hi.names]; exact hns.1
            obtain ⟨lk, sy⟩ := meta_copy_in s.fn s.core.params s.ext.p1 p1' hndo hi.sync g1 n1
              (by rw [hi.names]; exact m1) hin
            have hnm : Named p1' s.fn.point.length :=
              ⟨by rw [lk.names]; exact n1, fun n hn => by rw [hi.len]; exact hns.2 _ (m1 n (by rw [← lk.names]; exact hn))⟩
            obtain ⟨c, d, o⟩ := simple_sub obj D cap fuel _ sub1 sub2 p1' s.ext.full w (lk.good g1) hnm sy hinit hrun
            simp only [] at c d o
            obtain ⟨lk', sy'⟩ := meta_copy_back s.fn sub2.fn s.core.params own' sub2.core.params (names p1')
              hi.good hndo hi.sync c.names hnm.1 c.sync o hback
            have hsubns : ∀ n ∈ names p1', n ∈ ns := fun n hn => m1 n (by rw [← lk.names]; exact hn)
            refine ⟨⟨lk'.good hi.good, by rw [lk'.names]; exact hi.names, sy', by rw [c.len]; exact hi.len⟩,
              ⟨⟨lk.good g1, hnm.1, hsubns⟩, hs2⟩, d, o.mono hsubns, rfl, rfl⟩

/-- the same for the `BfgsMultiDimensions` -/
theorem metaRunBfgs_spec (fuel : Nat) (len : Nat) (ns : List Nat) (hns : ns.Nodup ∧ ∀ n ∈ ns, n < len)
    (s s' : St (Fn ℝ) (Meta ℝ) ℝ) (tol : ℝ) (hi : Coord.Inv len ns s) (hsub : Meta.Sub ns s.ext)
    (h : metaRunBfgs (Fn.iface obj D cap) fuel s tol = .ok s') :
    Coord.Inv len ns s' ∧ Meta.Sub ns s'.ext ∧ obj s'.fn.point ≤ obj s.fn.point ∧ Off s.fn.point ns s'.fn ∧
    s'.ext.n = s.ext.n ∧ s'.core.cur = s.core.cur := by
  unfold metaRunBfgs at h
  split at h
  · simp only [Except.ok.injEq] at h
    subst h
    exact ⟨hi, hsub, le_refl _, Off.rfl' _ _, rfl, rfl⟩
  · split at h
    · cases h
    · rename_i p2' hin
      simp only [] at h
      split at h
      · cases h
      · rename_i sub1 hinit
        split at h
        · cases h
        · rename_i sub2 w hrun
          split at h
          · cases h
          · rename_i own' hback
            simp only [Except.ok.injEq] at h
            subst h
            obtain ⟨hs1, ⟨g2, n2, m2⟩⟩ := hsub
            have hndo : (names s.core.params).Nodup := by rw [hi.names]; exact hns.1
            obtain ⟨lk, sy⟩ := meta_copy_in s.fn s.core.params s.ext.p2 p2' hndo hi.sync g2 n2
              (by rw [hi.names]; exact m2) hin
            have hnm : Named p2' s.fn.point.length :=
              ⟨by rw [lk.names]; exact n2, fun n hn => by rw [hi.len]; exact hns.2 _ (m2 n (by rw [← lk.names]; exact hn))⟩
            obtain ⟨c, d, o⟩ := bfgs_sub obj D cap fuel _ sub1 sub2 p2' s.ext.full w (lk.good g2) hnm sy hinit hrun
            simp only [] at c d o
            obtain ⟨lk', sy'⟩ := meta_copy_back s.fn sub2.fn s.core.params own' sub2.core.params (names p2')
              hi.good hndo hi.sync c.names hnm.1 c.sync o hback
            have hsubns : ∀ n ∈ names p2', n ∈ ns := fun n hn => m2 n (by rw [← lk.names]; exact hn)
            refine ⟨⟨lk'.good hi.good, by rw [lk'.names]; exact hi.names, sy', by rw [c.len]; exact hi.len⟩,
              ⟨hs1, ⟨lk.good g2, hnm.1, hsubns⟩⟩, d, o.mono hsubns, rfl, rfl⟩

/-- **`MetaOptimizer::doStep`** from a state in which the function holds the optimiser's list and the
sub-lists are as `doInit` builds them: the same holds afterwards, the value returned is the objective at
the point the function is left at, it is not above the objective at the point the step found the function
at, and no coordinate outside the names of the optimiser's list has moved -/
theorem metaDoStep_spec (fuel : Nat) (len : Nat) (ns : List Nat) (hns : ns.Nodup ∧ ∀ n ∈ ns, n < len)
    (s s' : St (Fn ℝ) (Meta ℝ) ℝ) (v : ℝ) (hi : Coord.Inv len ns s) (hsub : Meta.Sub ns s.ext)
    (h : metaDoStep (Fn.iface obj D cap) fuel s = .ok (s', v)) :
    Coord.Inv len ns s' ∧ Meta.Sub ns s'.ext ∧ v = obj s'.fn.point ∧ v ≤ obj s.fn.point ∧ Off s.fn.point ns s'.fn := by
  unfold metaDoStep at h
  simp only [] at h
  split at h
  · cases h
  · rename_i sa ha
    split at h
    · cases h
    · rename_i sb hb
      simp only [Except.ok.injEq, Prod.mk.injEq] at h
      obtain ⟨rfl, rfl⟩ := h
      obtain ⟨a1, a2, a3, a4, -, -⟩ := metaRunSimple_spec obj D cap fuel len ns hns _ sa _
        (by exact ⟨hi.good, hi.names, hi.sync, hi.len⟩) (by exact hsub) ha
      obtain ⟨b1, b2, b3, b4, -, -⟩ := metaRunBfgs_spec obj D cap fuel len ns hns sa sb _ a1 a2 hb
      exact ⟨⟨b1.good, b1.names, b1.sync, b1.len⟩, b2, rfl, le_trans b3 a3, Off.trans a4 b4⟩

/-- **`MetaOptimizer`: `init`**.  `doInit` reads the function's point into the optimiser's list
(`matchParametersValues`, which checks that the parameters accept the values) and sets the function to
that list: the function is left where it was, the optimiser's list holds its coordinates, the current
value is the objective there, and the sub-lists are parameters of the optimiser's list with distinct
names (the groups being without repetition) -/
theorem meta_init_spec (log10 : ℝ → ℝ) (fuel : Nat) (s s1 : St (Fn ℝ) (Meta ℝ) ℝ) (params : PList ℝ)
    (hgood : Good params) (hnd : (names params).Nodup) (hlt : ∀ n ∈ names params, n < s.fn.point.length)
    (hg1 : s.ext.g1.Nodup) (hg2 : s.ext.g2.Nodup)
    (h : (metaAlgo (Fn.iface obj D cap) log10 fuel).init s params = .ok s1) :
    Run.Inv obj (Meta.Sub (names params)) (obj s.fn.point) s.fn.point.length (names params) s.fn.point s1 ∧
    s1.fn.point = s.fn.point := by
  unfold Algo.init at h
  simp only [] at h
  split at h
  · cases h
  · rename_i sa hdi
    simp only [Except.ok.injEq] at h
    change metaDoInit (Fn.iface obj D cap) log10 _ params = .ok sa at hdi
    unfold metaDoInit at hdi
    simp only [iface_getParameters] at hdi
    split at hdi
    · cases hdi
    · rename_i own hml
      split at hdi
      · cases hdi
      · rename_i fn1 hsp
        simp only [Except.ok.injEq] at hdi
        subst hdi
        subst h
        have hga : Good (applyPolicy s.core.policy params) := applyPolicy_good _ _ hgood
        have hna : names (applyPolicy s.core.policy params) = names params := applyPolicy_names _ _
        obtain ⟨lk, sy⟩ := matchList_sync (applyPolicy s.core.policy params) own s.fn hga (by rw [hna]; exact hnd)
          (fun q hq => hlt _ (by rw [← hna]; exact mem_names hq)) hml
        have hpt : fn1.point = s.fn.point :=
          (iface_set_point obj D cap _ _ _ hsp).trans (matchPoint_of_sync own _ sy)
        have hsy1 : Sync fn1 own := by intro q hq; rw [hpt]; exact sy q hq
        obtain ⟨x1, x2, x3⟩ := metaSubList_spec (applyPolicy s.core.policy params) params hga s.ext.g1 hg1
        obtain ⟨y1, y2, y3⟩ := metaSubList_spec (applyPolicy s.core.policy params) params hga s.ext.g2 hg2
        refine ⟨⟨⟨⟨lk.good hga, lk.names.trans hna, hsy1, congrArg List.length hpt⟩, ?_, ?_⟩, Off.of_eq hpt,
          ⟨⟨x1, x2, fun n hn => hna ▸ (x3 n hn).2⟩, ⟨y1, y2, fun n hn => hna ▸ (y3 n hn).2⟩⟩⟩, hpt⟩
        · show obj fn1.point = obj fn1.point; rfl
        · show obj fn1.point ≤ obj s.fn.point; rw [hpt]

end Bpp.Optim
