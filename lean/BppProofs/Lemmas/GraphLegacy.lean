import BppProofs.Lemmas.GraphRefine
/-!
The operations of GlobalGraph as they were in the *unchanged* tree (before the `fix:` commits of
branch fix-C14), transcribed only as far as the witnesses of `Props/C14Witness.lean` need them.
They are not used by the driver.
-/
namespace Bpp.Graph.Legacy
open Bpp.Graph Bpp.Graph.G

/-- `link` of the unchanged tree (GlobalGraph.cpp:67 there): no validation at all -/
def link (a b : Nat) (g : G) : G :=
  let e := g.nextEdge
  linkWrite a b e { g with nextEdge := e + 1 }

/-- `unlink` of the unchanged tree (:96 there): one direction only, whatever the graph is.
(`unlinkInNodeStructure_` is taken in its repaired, checked form: the witnesses never reach the
unchecked dereferences.) -/
def unlink (a b : Nat) (g : G) : GOut (List Nat) :=
  match unlinkInNode a b g with
  | .exc g' => .exc g'
  | .ok e g1 =>
    match unlinkInEdge e g1 with
    | .exc g' => .exc g'
    | .ok _ g2 => .ok [e] g2

/-- `makeDirected` of the unchanged tree (:778 there): the edge table is left as it was -/
def makeDirectedStep (acc : G × List (Nat × Nat)) (t : Nat × Nat × Nat) : G × List (Nat × Nat) :=
  let (a, b, e) := t
  let p := (min a b, max a b)
  if acc.2.contains p then acc else (linkInNode a b e acc.1, p :: acc.2)

def makeDirected (g : G) : G :=
  if g.directed then g
  else
    let g0 := { g with nodes := g.clearedNodes }
    let r := (outTriples g.nodes).foldl makeDirectedStep (g0, [])
    { r.1 with directed := true }

/-- `createNodeFromNode` of the unchanged tree (:228 there) -/
def createNodeFromNode (o : Nat) (g : G) : G :=
  match createNode g with
  | .ok n g1 => link o n g1
  | .exc g' => g'

def two (d : Bool) : G := ((createNode ((createNode (Graph.empty d)).state)).state)

end Bpp.Graph.Legacy
