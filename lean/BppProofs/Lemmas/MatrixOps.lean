import BppProofs.Lemmas.MatrixLoops
/-! Helper lemmas for C04: what each routine of `BppModel/Matrix.lean` returns (any scalar). -/
namespace Bpp.Mx
open Bpp Store

section Ops
variable {α : Type} [Scalar α]

theorem dims_shape_self (S : Store α) : (S.nrows, S.ncols) = S.kind.shape S.nrows S.ncols := by
  cases S with
  | row m =>
    simp only [kind, Kind.shape, nrows, ncols]
    by_cases h : m.size = 0
    · simp [h]
    · simp [h]
  | col m =>
    simp only [kind, Kind.shape, nrows, ncols]
    by_cases h : m.size = 0
    · simp [h]
    · simp [h]
  | lin m r c => rfl

theorem prodAt_ok {A B : Store α} (hA : A.WF) (hB : B.WF) {i j k : Nat} (hi : i < A.nrows) (hk : k < A.ncols)
    (hk' : k < B.nrows) (hj : j < B.ncols) : prodAt A B i j k = .ok (A.entry i k * B.entry k j) := by
  simp [prodAt, get_eq_entry hA hi hk, get_eq_entry hB hk' hj]

theorem zipAt_ok (f : α → α → α) {A B : Store α} (hA : A.WF) (hB : B.WF) {i j : Nat} (hi : i < A.nrows) (hj : j < A.ncols)
    (hi' : i < B.nrows) (hj' : j < B.ncols) : zipAt f A B i j = .ok (f (A.entry i j) (B.entry i j)) := by
  simp [zipAt, get_eq_entry hA hi hj, get_eq_entry hB hi' hj']

/-! ### copies, identity, diagonal -/

theorem copy_holds {A : Store α} (hA : A.WF) (O : Store α) :
    ∃ O', copy A O = .ok O' ∧ O'.kind = O.kind ∧ O'.Holds A.nrows A.ncols A.entry :=
  fill_resize_holds O (fun _ _ hi hj => get_eq_entry hA hi hj)

theorem transpose_holds {A : Store α} (hA : A.WF) (O : Store α) :
    ∃ O', transpose A O = .ok O' ∧ O'.kind = O.kind ∧ O'.Holds A.ncols A.nrows (Spec.transpose A.entry) :=
  fill_resize_holds O (fun _ _ hi hj => get_eq_entry hA hj hi)

theorem getId_holds (n : Nat) (O : Store α) :
    ∃ O', getId n O = .ok O' ∧ O'.kind = O.kind ∧ O'.Holds n n Spec.identity :=
  fill_resize_holds O (fun _ _ _ _ => rfl)

theorem diagS_holds (x : α) (n : Nat) (O : Store α) :
    ∃ O', diagS x n O = .ok O' ∧ O'.kind = O.kind ∧ O'.Holds n n (Spec.diag fun _ => x) :=
  fill_resize_holds O (fun _ _ _ _ => rfl)

theorem diagV_holds (D : Array α) (O : Store α) :
    ∃ O', diagV D O = .ok O' ∧ O'.kind = O.kind ∧ O'.Holds D.size D.size (Spec.diag fun i => D.getD i Scalar.zero) :=
  fill_resize_holds O (fun i j hi _ => by
    simp only [Spec.diag]
    split
    · simp [vget_ok hi, hi]
    · rfl)

/-! ### products -/

theorem mult_holds {A B : Store α} (hA : A.WF) (hB : B.WF) (O : Store α) (h : A.ncols = B.nrows) :
    ∃ O', mult A B O = .ok O' ∧ O'.kind = O.kind ∧
      O'.Holds A.nrows B.ncols (Spec.mult A.entry B.entry A.ncols) := by
  unfold mult
  rw [if_neg (by simpa using h)]
  exact fill_resize_holds O (fun i j hi hj => dot_ok (fun k hk => prodAt_ok hA hB hi hk (h ▸ hk) hj))

theorem mult_nonconformable {A B : Store α} (O : Store α) (h : A.ncols ≠ B.nrows) :
    mult A B O = .error .dimension := by
  unfold mult; rw [if_pos h]

/-! ### sums -/

theorem add_holds {A B : Store α} (hA : A.WF) (hB : B.WF) (hr : A.nrows = B.nrows) (hc : A.ncols = B.ncols) :
    ∃ A', add A B = .ok A' ∧ A'.kind = A.kind ∧ A'.Holds A.nrows A.ncols (Spec.add A.entry B.entry) := by
  unfold add
  rw [if_neg (by simpa using hc), if_neg (by simpa using hr)]
  exact fill_holds hA (dims_shape_self A) (fun i j hi hj => zipAt_ok _ hA hB hi hj (hr ▸ hi) (hc ▸ hj))

theorem add_nonconformable {A B : Store α} (h : A.nrows ≠ B.nrows ∨ A.ncols ≠ B.ncols) :
    add A B = .error .dimension := by
  unfold add
  by_cases hc : A.ncols ≠ B.ncols
  · rw [if_pos hc]
  · rw [if_neg hc, if_pos (by tauto)]

theorem addS_holds {A B : Store α} (hA : A.WF) (hB : B.WF) (x : α) (hr : A.nrows = B.nrows) (hc : A.ncols = B.ncols) :
    ∃ A', addS A x B = .ok A' ∧ A'.kind = A.kind ∧ A'.Holds A.nrows A.ncols (Spec.addS A.entry x B.entry) := by
  unfold addS
  rw [if_neg (by simpa using hc), if_neg (by simpa using hr)]
  exact fill_holds hA (dims_shape_self A) (fun i j hi hj => zipAt_ok _ hA hB hi hj (hr ▸ hi) (hc ▸ hj))

theorem addS_nonconformable {A B : Store α} (x : α) (h : A.nrows ≠ B.nrows ∨ A.ncols ≠ B.ncols) :
    addS A x B = .error .dimension := by
  unfold addS
  by_cases hc : A.ncols ≠ B.ncols
  · rw [if_pos hc]
  · rw [if_neg hc, if_pos (by tauto)]

/-- `scale`: either the shortcut (`a == 1 && b == 0`: the matrix is returned untouched) or every
entry becomes `a * x + b` -/
theorem scale_holds {A : Store α} (hA : A.WF) (a b : α) :
    ∃ A', scale A a b = .ok A' ∧ A'.kind = A.kind ∧
      A'.Holds A.nrows A.ncols (if Scalar.eqb a Scalar.one && Scalar.eqb b Scalar.zero then A.entry else Spec.scale A.entry a b) := by
  unfold scale
  split
  · exact ⟨A, rfl, rfl, holds_self hA (dims_shape_self A)⟩
  · exact fill_holds hA (dims_shape_self A) (fun i j hi hj => by simp [get_eq_entry hA hi hj, Spec.scale])

theorem fillAll_holds {A : Store α} (hA : A.WF) (x : α) :
    ∃ A', fillAll A x = .ok A' ∧ A'.kind = A.kind ∧ A'.Holds A.nrows A.ncols (fun _ _ => x) :=
  fill_holds hA (dims_shape_self A) (fun _ _ _ _ => rfl)

theorem had_holds {A B : Store α} (hA : A.WF) (hB : B.WF) (O : Store α) (hr : A.nrows = B.nrows) (hc : A.ncols = B.ncols) :
    ∃ O', had A B O = .ok O' ∧ O'.kind = O.kind ∧ O'.Holds A.nrows A.ncols (Spec.had A.entry B.entry) := by
  unfold had
  rw [if_neg (by simpa using hr), if_neg (by simpa using hc)]
  exact fill_resize_holds O (fun i j hi hj => zipAt_ok _ hA hB hi hj (hr ▸ hi) (hc ▸ hj))

theorem had_nonconformable {A B : Store α} (O : Store α) (h : A.nrows ≠ B.nrows ∨ A.ncols ≠ B.ncols) :
    had A B O = .error .dimension := by
  unfold had
  by_cases hr : A.nrows ≠ B.nrows
  · rw [if_pos hr]
  · rw [if_neg hr, if_pos (by tauto)]

theorem hadV_holds {A : Store α} (hA : A.WF) (v : Array α) (O : Store α) (row : Bool)
    (h : (if row then A.nrows else A.ncols) = v.size) :
    ∃ O', hadV A v O row = .ok O' ∧ O'.kind = O.kind ∧
      O'.Holds A.nrows A.ncols (fun i j => A.entry i j * v.getD (if row then i else j) Scalar.zero) := by
  unfold hadV
  cases row with
  | true =>
    have h' : A.nrows = v.size := by simpa using h
    have e1 : (true && A.nrows != v.size) = false := by simp [h']
    have e2 : (!true && A.ncols != v.size) = false := by simp
    rw [e1, e2]
    simp only [Bool.false_eq_true, if_false]
    exact fill_resize_holds O (fun i j hi hj => by
      have : i < v.size := h' ▸ hi
      simp [get_eq_entry hA hi hj, vget_ok this, this])
  | false =>
    have h' : A.ncols = v.size := by simpa using h
    have e1 : (false && A.nrows != v.size) = false := by simp
    have e2 : (!false && A.ncols != v.size) = false := by simp [h']
    rw [e1, e2]
    simp only [Bool.false_eq_true, if_false]
    exact fill_resize_holds O (fun i j hi hj => by
      have : j < v.size := h' ▸ hj
      simp [get_eq_entry hA hi hj, vget_ok this, this])

theorem hadV_nonconformable {A : Store α} (v : Array α) (O : Store α) (row : Bool)
    (h : (if row then A.nrows else A.ncols) ≠ v.size) : hadV A v O row = .error .dimension := by
  unfold hadV
  cases row with
  | true => simp only [if_true] at h; simp [h]
  | false => simp only [Bool.false_eq_true, if_false] at h; simp [h]

theorem sameDims_iff (X Y : Store α) : sameDims X Y = true ↔ X.nrows = Y.nrows ∧ X.ncols = Y.ncols := by
  simp [sameDims]

theorem quad_ok {A iA B iB : Store α} (hA : A.WF) (hiA : iA.WF) (hB : B.WF) (hiB : iB.WF) {i j k : Nat}
    (hi : i < A.nrows) (hk : k < A.ncols) (hi' : i < iA.nrows) (hk' : k < iA.ncols)
    (hkb : k < B.nrows) (hj : j < B.ncols) (hkb' : k < iB.nrows) (hj' : j < iB.ncols) :
    quad A iA B iB i j k = .ok (A.entry i k, iA.entry i k, B.entry k j, iB.entry k j) := by
  simp [quad, get_eq_entry hA hi hk, get_eq_entry hiA hi' hk', get_eq_entry hB hkb hj, get_eq_entry hiB hkb' hj']

theorem quadAt_ok {A iA B iB : Store α} (hA : A.WF) (hiA : iA.WF) (hB : B.WF) (hiB : iB.WF) {i j : Nat}
    (h1 : i < A.nrows) (h2 : j < A.ncols) (h3 : i < iA.nrows) (h4 : j < iA.ncols)
    (h5 : i < B.nrows) (h6 : j < B.ncols) (h7 : i < iB.nrows) (h8 : j < iB.ncols) :
    quadAt A iA B iB i j = .ok (A.entry i j, iA.entry i j, B.entry i j, iB.entry i j) := by
  simp [quadAt, get_eq_entry hA h1 h2, get_eq_entry hiA h3 h4, get_eq_entry hB h5 h6, get_eq_entry hiB h7 h8]

/-- the complex-pair product: both outputs -/
theorem multC_holds {A iA B iB : Store α} (hA : A.WF) (hiA : iA.WF) (hB : B.WF) (hiB : iB.WF) (O iO : Store α)
    (h : A.ncols = B.nrows) (h1 : iA.nrows = A.nrows ∧ iA.ncols = A.ncols) (h2 : iB.nrows = B.nrows ∧ iB.ncols = B.ncols) :
    ∃ O' iO', multC A iA B iB O iO = .ok (O', iO') ∧ O'.kind = O.kind ∧ iO'.kind = iO.kind ∧
      O'.Holds A.nrows B.ncols (Spec.cmulRe A.entry iA.entry B.entry iB.entry A.ncols) ∧
      iO'.Holds A.nrows B.ncols (Spec.cmulIm A.entry iA.entry B.entry iB.entry A.ncols) := by
  unfold multC
  rw [if_neg (by simpa using h), if_neg (by simp [sameDims_iff, h1]), if_neg (by simp [sameDims_iff, h2])]
  unfold multCBody
  have hq : ∀ i j k, i < A.nrows → j < B.ncols → k < A.ncols →
      quad A iA B iB i j k = .ok (A.entry i k, iA.entry i k, B.entry k j, iB.entry k j) := fun i j k hi hj hk =>
    quad_ok hA hiA hB hiB hi hk (h1.1 ▸ hi) (h1.2 ▸ hk) (h ▸ hk) hj (h2.1 ▸ h ▸ hk) (h2.2 ▸ hj)
  obtain ⟨O', e1, k1, H1⟩ := fill_resize_holds O (r := A.nrows) (c := B.ncols)
    (f := cmulReAt A iA B iB A.ncols) (g := Spec.cmulRe A.entry iA.entry B.entry iB.entry A.ncols)
    (fun i j hi hj => dot_ok (fun k hk => by rw [hq i j k hi hj hk]))
  obtain ⟨iO', e2, k2, H2⟩ := fill_resize_holds iO (r := A.nrows) (c := B.ncols)
    (f := cmulImAt A iA B iB A.ncols) (g := Spec.cmulIm A.entry iA.entry B.entry iB.entry A.ncols)
    (fun i j hi hj => dot_ok (fun k hk => by rw [hq i j k hi hj hk]))
  exact ⟨O', iO', by simp only [e1, e2], k1, k2, H1, H2⟩

theorem multC_nonconformable {A iA B iB : Store α} (O iO : Store α)
    (h : A.ncols ≠ B.nrows ∨ ¬ (iA.nrows = A.nrows ∧ iA.ncols = A.ncols) ∨ ¬ (iB.nrows = B.nrows ∧ iB.ncols = B.ncols)) :
    multC A iA B iB O iO = .error .dimension := by
  unfold multC
  by_cases h0 : A.ncols ≠ B.nrows
  · rw [if_pos h0]
  · rw [if_neg h0]
    by_cases h1 : sameDims iA A = true
    · have h2 : sameDims iB B = false := by
        rw [Bool.eq_false_iff]; intro h2
        rw [sameDims_iff] at h1 h2
        tauto
      simp [h1, h2]
    · simp [h1]

theorem hadC_holds {A iA B iB : Store α} (hA : A.WF) (hiA : iA.WF) (hB : B.WF) (hiB : iB.WF) (O iO : Store α)
    (hr : A.nrows = B.nrows) (hc : A.ncols = B.ncols)
    (h1 : iA.nrows = A.nrows ∧ iA.ncols = A.ncols) (h2 : iB.nrows = B.nrows ∧ iB.ncols = B.ncols) :
    ∃ O' iO', hadC A iA B iB O iO = .ok (O', iO') ∧ O'.kind = O.kind ∧ iO'.kind = iO.kind ∧
      O'.Holds A.nrows A.ncols (fun i j => A.entry i j * B.entry i j - iA.entry i j * iB.entry i j) ∧
      iO'.Holds A.nrows A.ncols (fun i j => iA.entry i j * B.entry i j + A.entry i j * iB.entry i j) := by
  unfold hadC
  rw [if_neg (by simpa using hr), if_neg (by simpa using hc), if_neg (by simp [sameDims_iff, h1]), if_neg (by simp [sameDims_iff, h2])]
  unfold hadCBody
  have hq : ∀ i j, i < A.nrows → j < A.ncols →
      quadAt A iA B iB i j = .ok (A.entry i j, iA.entry i j, B.entry i j, iB.entry i j) := fun i j hi hj =>
    quadAt_ok hA hiA hB hiB hi hj (h1.1 ▸ hi) (h1.2 ▸ hj) (hr ▸ hi) (hc ▸ hj) (h2.1 ▸ hr ▸ hi) (h2.2 ▸ hc ▸ hj)
  obtain ⟨O', e1, k1, H1⟩ := fill_resize_holds O (r := A.nrows) (c := A.ncols)
    (f := hadReAt A iA B iB) (g := fun i j => A.entry i j * B.entry i j - iA.entry i j * iB.entry i j)
    (fun i j hi hj => by simp only [hadReAt, hq i j hi hj])
  obtain ⟨iO', e2, k2, H2⟩ := fill_resize_holds iO (r := A.nrows) (c := A.ncols)
    (f := hadImAt A iA B iB) (g := fun i j => iA.entry i j * B.entry i j + A.entry i j * iB.entry i j)
    (fun i j hi hj => by simp only [hadImAt, hq i j hi hj])
  exact ⟨O', iO', by simp only [e1, e2], k1, k2, H1, H2⟩

theorem hadC_nonconformable {A iA B iB : Store α} (O iO : Store α)
    (h : A.nrows ≠ B.nrows ∨ A.ncols ≠ B.ncols ∨ ¬ (iA.nrows = A.nrows ∧ iA.ncols = A.ncols) ∨
      ¬ (iB.nrows = B.nrows ∧ iB.ncols = B.ncols)) :
    hadC A iA B iB O iO = .error .dimension := by
  unfold hadC
  by_cases h0 : A.nrows ≠ B.nrows
  · rw [if_pos h0]
  · rw [if_neg h0]
    by_cases h0' : A.ncols ≠ B.ncols
    · rw [if_pos h0']
    · rw [if_neg h0']
      by_cases h1 : sameDims iA A = true
      · have h2 : sameDims iB B = false := by
          rw [Bool.eq_false_iff]; intro h2
          rw [sameDims_iff] at h1 h2
          tauto
        simp [h1, h2]
      · simp [h1]

/-- `mult` with a diagonal middle factor: the entry as the code computes it -/
theorem multD_holds {A B : Store α} (hA : A.WF) (hB : B.WF) (D : Array α) (O : Store α)
    (h : A.ncols = B.nrows) (hD : A.ncols = D.size) :
    ∃ O', multD A D B O = .ok O' ∧ O'.kind = O.kind ∧
      O'.Holds A.nrows B.ncols (fun i j => Spec.sumTo A.ncols fun k => A.entry i k * B.entry k j * D.getD k Scalar.zero) := by
  unfold multD
  rw [if_neg (by simpa using h), if_neg (by simpa using hD)]
  exact fill_resize_holds O (fun i j hi hj => dot_ok (fun k hk => by
    have : k < D.size := hD ▸ hk
    simp [prodAt_ok hA hB hi hk (h ▸ hk) hj, vget_ok this, this]))

theorem multD_nonconformable {A B : Store α} (D : Array α) (O : Store α) (h : A.ncols ≠ B.nrows ∨ A.ncols ≠ D.size) :
    multD A D B O = .error .dimension := by
  unfold multD
  by_cases h0 : A.ncols ≠ B.nrows
  · rw [if_pos h0]
  · rw [if_neg h0, if_pos (by tauto)]

end Ops
end Bpp.Mx
