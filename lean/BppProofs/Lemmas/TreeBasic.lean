import BppModel.Tree
import BppProofs.Lemmas.GraphLoops
import BppProofs.Lemmas.PTree
/-
Rows of a consistent graph as relations: `Arc g a b` (the node table lists `b` among the outgoing
neighbours of `a`), the neighbour lists of the tree queries, and what it means for a graph to be the
rooted tree `P` (`Matches`).
-/
namespace Bpp.Graph
open AL

/-- the node table lists `b` among the outgoing neighbours of `a` -/
def Arc (g : G) (a b : Nat) : Prop := (g.outE a b).isSome = true

instance (g : G) (a b : Nat) : Decidable (Arc g a b) := by unfold Arc; infer_instance

namespace G

theorem outNeighbors_eq (g : G) (n : Nat) : g.outNeighbors n = if g.hasNode n then some (g.outKeys n) else none := by
  unfold outNeighbors rowOf RowQ.outNeighbors outKeys hasNode has
  rcases find_cases n g.nodes with hf | ⟨r, hf⟩ <;> simp [hf]

theorem inNeighbors_eq (g : G) (n : Nat) : g.inNeighbors n = if g.hasNode n then some (g.inKeys n) else none := by
  unfold inNeighbors rowOf RowQ.inNeighbors inKeys hasNode has
  rcases find_cases n g.nodes with hf | ⟨r, hf⟩ <;> simp [hf]

theorem outNeighbors_some {g : G} {n : Nat} {l : List Nat} (h : g.outNeighbors n = some l) :
    g.hasNode n = true ∧ l = g.outKeys n := by
  rw [outNeighbors_eq] at h
  by_cases hn : g.hasNode n = true
  · simp [hn] at h; exact ⟨hn, h.symm⟩
  · simp [hn] at h

theorem inNeighbors_some {g : G} {n : Nat} {l : List Nat} (h : g.inNeighbors n = some l) :
    g.hasNode n = true ∧ l = g.inKeys n := by
  rw [inNeighbors_eq] at h
  by_cases hn : g.hasNode n = true
  · simp [hn] at h; exact ⟨hn, h.symm⟩
  · simp [hn] at h

theorem outNeighbors_none {g : G} {n : Nat} (h : g.outNeighbors n = none) : g.hasNode n = false := by
  rw [outNeighbors_eq] at h
  by_cases hn : g.hasNode n = true
  · simp [hn] at h
  · simpa using hn

theorem outNeighbors_of_hasNode {g : G} {n : Nat} (h : g.hasNode n = true) : g.outNeighbors n = some (g.outKeys n) := by
  rw [outNeighbors_eq]; simp [h]

theorem inNeighbors_of_hasNode {g : G} {n : Nat} (h : g.hasNode n = true) : g.inNeighbors n = some (g.inKeys n) := by
  rw [inNeighbors_eq]; simp [h]

theorem mem_outNeighbors {g : G} {n : Nat} {l : List Nat} (h : g.outNeighbors n = some l) (b : Nat) : b ∈ l ↔ Arc g n b := by
  rw [(outNeighbors_some h).2]; exact mem_outKeys

theorem nodup_of_asc {l : List Nat} (h : List.Pairwise (· < ·) l) : l.Nodup :=
  List.Pairwise.imp (fun hab => Nat.ne_of_lt hab) h

theorem outNeighbors_nodup {g : G} (hs : Sorted g) {n : Nat} {l : List Nat} (h : g.outNeighbors n = some l) : l.Nodup := by
  rw [(outNeighbors_some h).2]; exact nodup_of_asc (asc_outKeys hs n)

theorem inNeighbors_nodup {g : G} (hs : Sorted g) {n : Nat} {l : List Nat} (h : g.inNeighbors n = some l) : l.Nodup := by
  rw [(inNeighbors_some h).2]; exact nodup_of_asc (asc_inKeys hs n)

/-- in a consistent graph the incoming entries mirror the outgoing ones -/
theorem inE_iff_arc {g : G} (hc : Consistent g) (a b : Nat) : (g.inE b a).isSome = true ↔ Arc g a b := by
  unfold Arc
  constructor
  · intro h
    cases ho : g.outE a b with
    | some e => rfl
    | none => have := (cons_absent hc ho).1; rw [this] at h; cases h
  · intro h
    cases ho : g.outE a b with
    | some e => rw [(cons_out_some hc ho).1]; rfl
    | none => rw [ho] at h; cases h

theorem mem_inNeighbors {g : G} (hc : Consistent g) {n : Nat} {l : List Nat} (h : g.inNeighbors n = some l) (a : Nat) :
    a ∈ l ↔ Arc g a n := by
  rw [(inNeighbors_some h).2, mem_inKeys]; exact inE_iff_arc hc a n

theorem arc_nodes {g : G} (hc : Consistent g) {a b : Nat} (h : Arc g a b) : g.hasNode a = true ∧ g.hasNode b = true := by
  unfold Arc at h
  cases ho : g.outE a b with
  | none => rw [ho] at h; cases h
  | some e => exact ⟨outE_some_hasNode ho, inE_some_hasNode (cons_out_some hc ho).1⟩

theorem arc_symm {g : G} (hc : Consistent g) (hd : g.directed = false) {a b : Nat} (h : Arc g a b) : Arc g b a := by
  unfold Arc at h ⊢
  cases ho : g.outE a b with
  | none => rw [ho] at h; cases h
  | some e => rw [((cons_out_some hc ho).2.2 hd).1]; rfl

theorem mem_keys_hasNode (g : G) (n : Nat) : n ∈ AL.keys g.nodes ↔ g.hasNode n = true := by
  rw [mem_keys_iff]; rfl

end G

/-- the graph is the rooted tree `P`: same nodes, and the node table lists `b` under `a` exactly for
father `a` and son `b` (both ways round when the graph is undirected) -/
structure Matches (g : G) (P : PTree) : Prop where
  nodes : ∀ n, n ∈ P.nodes ↔ g.hasNode n = true
  arc : ∀ a b, Arc g a b ↔ (P.par b = some a ∨ (g.directed = false ∧ P.par a = some b))

/-! ### father queries -/
namespace T

theorem hasFather_eq (g : G) (n : Nat) : hasFather g n = if g.hasNode n then some (decide ((g.inKeys n).length ≥ 1)) else none := by
  unfold hasFather RowQ.nbIn G.rowOf G.inKeys G.hasNode has
  rcases G.find_cases n g.nodes with hf | ⟨r, hf⟩ <;> simp [hf, AL.keys]

theorem father_eq (g : G) (n : Nat) : father g n = if g.hasNode n then (match g.inKeys n with | [f] => some f | _ => none) else none := by
  unfold father
  rw [G.inNeighbors_eq]
  by_cases hn : g.hasNode n = true
  · simp only [hn, if_true]
    rcases g.inKeys n with _ | ⟨a, _ | ⟨b, l⟩⟩ <;> rfl
  · simp [hn]

end T
end Bpp.Graph
