import BppModel.Prelude.Scalar
import Mathlib.Analysis.SpecialFunctions.Log.Basic
import Mathlib.Analysis.SpecialFunctions.Pow.Real
import Mathlib.Analysis.SpecialFunctions.Trigonometric.Arctan
import Mathlib.Analysis.SpecialFunctions.Arsinh
import Mathlib.Analysis.SpecialFunctions.Sqrt
/-!
The exact-arithmetic interpretation of `Scalar`: `ℝ`.  Noncomputable; used only by theorems.
`simp` lemmas below rewrite every `Scalar` operation at `ℝ` into the Mathlib operation.
-/
namespace Bpp
open Classical

noncomputable instance instScalarReal : Scalar ℝ where
  add := (· + ·)
  sub := (· - ·)
  mul := (· * ·)
  div := (· / ·)
  neg := (- ·)
  default := 0
  ofInt i := (i : ℝ)
  ofRat n d := (n : ℝ) / (d : ℝ)
  ltb x y := decide (x < y)
  leb x y := decide (x ≤ y)
  eqb x y := decide (x = y)
  abs x := |x|
  exp := Real.exp
  log := Real.log
  sqrt := Real.sqrt
  pow x y := x ^ y
  tanh := Real.tanh
  atanh x := (1 / 2) * Real.log ((1 + x) / (1 - x))
  tan := Real.tan
  atan := Real.arctan
  cosh := Real.cosh
  sinh := Real.sinh

namespace ScalarReal
@[simp] theorem ofInt_eq (i : Int) : (Scalar.ofInt i : ℝ) = (i : ℝ) := rfl
@[simp] theorem ofRat_eq (n : Int) (d : Nat) : (Scalar.ofRat n d : ℝ) = (n : ℝ) / (d : ℝ) := rfl
@[simp] theorem zero_eq : (Scalar.zero : ℝ) = 0 := by simp [Scalar.zero]
@[simp] theorem one_eq : (Scalar.one : ℝ) = 1 := by simp [Scalar.one]
@[simp] theorem ltb_iff (x y : ℝ) : Scalar.ltb x y = true ↔ x < y := by simp [Scalar.ltb]
@[simp] theorem leb_iff (x y : ℝ) : Scalar.leb x y = true ↔ x ≤ y := by simp [Scalar.leb]
@[simp] theorem eqb_iff (x y : ℝ) : Scalar.eqb x y = true ↔ x = y := by simp [Scalar.eqb]
@[simp] theorem gtb_iff (x y : ℝ) : Scalar.gtb x y = true ↔ y < x := by simp [Scalar.gtb]
@[simp] theorem geb_iff (x y : ℝ) : Scalar.geb x y = true ↔ y ≤ x := by simp [Scalar.geb]
@[simp] theorem ltb_false_iff (x y : ℝ) : Scalar.ltb x y = false ↔ y ≤ x := by simp [Scalar.ltb]
@[simp] theorem leb_false_iff (x y : ℝ) : Scalar.leb x y = false ↔ y < x := by simp [Scalar.leb]
@[simp] theorem abs_eq (x : ℝ) : Scalar.abs x = |x| := rfl
@[simp] theorem exp_eq (x : ℝ) : Scalar.exp x = Real.exp x := rfl
@[simp] theorem log_eq (x : ℝ) : Scalar.log x = Real.log x := rfl
@[simp] theorem sqrt_eq (x : ℝ) : Scalar.sqrt x = Real.sqrt x := rfl
@[simp] theorem pow_eq (x y : ℝ) : Scalar.pow x y = x ^ y := rfl
@[simp] theorem tanh_eq (x : ℝ) : Scalar.tanh x = Real.tanh x := rfl
@[simp] theorem atanh_eq (x : ℝ) : Scalar.atanh x = (1 / 2) * Real.log ((1 + x) / (1 - x)) := rfl
@[simp] theorem tan_eq (x : ℝ) : Scalar.tan x = Real.tan x := rfl
@[simp] theorem atan_eq (x : ℝ) : Scalar.atan x = Real.arctan x := rfl
@[simp] theorem cosh_eq (x : ℝ) : Scalar.cosh x = Real.cosh x := rfl
@[simp] theorem sinh_eq (x : ℝ) : Scalar.sinh x = Real.sinh x := rfl
theorem max_eq (x y : ℝ) : Scalar.max x y = max x y := by
  simp only [Scalar.max]; split <;> rename_i h <;> simp at h
  · exact (max_eq_right (le_of_lt h)).symm
  · exact (max_eq_left h).symm
theorem min_eq (x y : ℝ) : Scalar.min x y = min x y := by
  simp only [Scalar.min]; split <;> rename_i h <;> simp at h
  · exact (min_eq_right (le_of_lt h)).symm
  · exact (min_eq_left h).symm
end ScalarReal

/-! A smoke test that the two interpretations share one program text and that `ring`,
`field_simp`, `linarith` see through the instance. -/
section Test
def testPoly {α : Type} [Scalar α] (x y : α) : α :=
  if Scalar.ltb x y then (x + y) * (x - y) / Scalar.ofInt 2 else Scalar.exp (Scalar.log x)

example (x y : ℝ) (h : x < y) : testPoly x y = (x ^ 2 - y ^ 2) / 2 := by
  simp only [testPoly, ScalarReal.ltb_iff, h, if_true, ScalarReal.ofInt_eq]
  push_cast; ring
example (x y : ℝ) (h : y ≤ x) (hx : 0 < x) : testPoly x y = x := by
  have : ¬ x < y := not_lt.mpr h
  simp only [testPoly, ScalarReal.ltb_iff, this, if_false, ScalarReal.exp_eq, ScalarReal.log_eq]
  exact Real.exp_log hx
end Test
end Bpp
