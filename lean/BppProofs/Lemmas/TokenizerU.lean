import BppProofs.Lemmas.TextU
import BppModel.Text.TokenizerU
/-! Helper lemmas for `Props/C16Tokenizer.lean`: the loops of the StringTokenizer /
NestedStringTokenizer constructors return (with bounds on what they allocate) when entered with a
valid index and enough fuel; the methods keep the class invariant. -/
namespace Bpp.Text.U
open Bpp.Text

theorem pure_eq_ok {α : Type} (a : α) : (pure a : R α) = .ok a := rfl

theorem StrOk.lt_SZ {s : Str} (hs : StrOk s) : s.length + 4 < SZ := by
  unfold StrOk maxStr at hs; unfold SZ; omega

/-! ### what `find_first_of` / `find_first_not_of` found -/

theorem findIdx_spec {p : Char → Bool} {s : Str} {k : Nat} (h : findIdx p s = some k) :
    ∃ c, s[k]? = some c ∧ p c = true := by
  induction s generalizing k with
  | nil => simp [findIdx] at h
  | cons c s ih =>
    simp only [findIdx] at h
    split at h
    · cases h; exact ⟨c, by simp, by assumption⟩
    · cases h' : findIdx p s with
      | none => simp [h'] at h
      | some j =>
        simp only [h', Option.map_some, Option.some.injEq] at h
        obtain ⟨c', h1, h2⟩ := ih h'
        subst h
        exact ⟨c', by simpa using h1, h2⟩

theorem findIdxFrom_spec {p : Char → Bool} {s : Str} {pos k : Nat} (h : findIdxFrom p s pos = some k) :
    ∃ c, s[k]? = some c ∧ p c = true := by
  unfold findIdxFrom at h
  cases h' : findIdx p (s.drop pos) with
  | none => simp [h'] at h
  | some j =>
    simp only [h', Option.map_some, Option.some.injEq] at h
    obtain ⟨c, h1, h2⟩ := findIdx_spec h'
    subst h
    refine ⟨c, ?_, h2⟩
    rw [List.getElem?_drop] at h1
    rw [Nat.add_comm]; exact h1

/-- after a delimiter was found at `n`, the next non-delimiter is strictly further -/
theorem findFirstNotOf_gt {d s : Str} {index n i : Nat} (h1 : findFirstOf d s index = some n)
    (h2 : findFirstNotOf d s n = some i) : n < i := by
  obtain ⟨c, hc, hp⟩ := findIdxFrom_spec h1
  obtain ⟨c', hc', hp'⟩ := findIdxFrom_spec h2
  have hb := (findFirstNotOf_bounds h2).1
  have : i ≠ n := by
    intro e; subst e
    rw [hc] at hc'; cases hc'
    simp at hp hp'
    exact hp' hp
  omega

/-! ### `sumLen` -/

theorem sumLen_drop_le (l : List Str) (i : Nat) : sumLen (l.drop i) ≤ sumLen l := by
  induction l generalizing i with
  | nil => simp
  | cons a l ih =>
    cases i with
    | zero => simp
    | succ i => simp only [List.drop_succ_cons, sumLen_cons]; have := ih i; omega

theorem vecBack_drop {α : Type} {v : List α} {a : α} (h : vecBack v = .ok a) :
    v.drop (v.length - 1) = [a] := by
  induction v with
  | nil => cases h
  | cons x r ih =>
    cases r with
    | nil => simp [vecBack] at h; simp [h]
    | cons b r' =>
      simp only [vecBack] at h
      have := ih h
      simpa using this

/-! ### StringTokenizer, non-solid loop -/

theorem nsLoop_spec (s d : Str) (allowEmpty : Bool) (hs : StrOk s) (fuel index : Nat)
    (hi : index ≤ s.length) (hf : s.length - index + 1 ≤ fuel) :
    ∃ ts ss, nsLoop s d allowEmpty fuel index = .ok (ts, ss) ∧ ts ≠ [] ∧
      ts.length ≤ ss.length + 1 ∧ sumLen ts + sumLen ss ≤ s.length - index ∧
      ts.length ≤ s.length - index + 1 := by
  have hsz := hs.lt_SZ
  induction fuel generalizing index with
  | zero => omega
  | succ fuel ih =>
    unfold nsLoop
    cases h : findFirstOf d s index with
    | none =>
      simp only [substrFrom_ok hi, bind_ok, pure_eq_ok]
      refine ⟨_, _, rfl, by simp, by simp, ?_, by simp⟩
      simp
    | some n =>
      have hb := findFirstOf_bounds h
      have hn : n ≤ s.length := by omega
      have hw : wsub n index = n - index := wsub_eq hb.1 (by omega)
      have hw1 : wadd n 1 = n + 1 := wadd_eq (by omega)
      simp only [substr_ok _ hi, substr_ok _ hn, bind_ok, pure_eq_ok, hw]
      cases allowEmpty with
      | true =>
        simp only [Bool.not_true, Bool.false_eq_true, if_false, hw1, toSz]
        obtain ⟨ts, ss, e, h1, h2, h3, h4⟩ := ih (n + 1) (by omega) (by omega)
        simp only [e, bind_ok]
        refine ⟨_, _, rfl, by simp, by simp; omega, ?_, by simp; omega⟩
        have hw2 : wsub (n + 1) n = 1 := by rw [wsub_eq (by omega) (by omega)]; omega
        simp only [sumLen_cons, List.length_take, List.length_drop, hw2]
        omega
      | false =>
        simp only [Bool.not_false, if_true]
        cases h' : findFirstNotOf d s n with
        | none =>
          simp only
          refine ⟨_, _, rfl, by simp, by simp, ?_, by simp⟩
          simp only [sumLen_cons, sumLen_nil, List.length_take, List.length_drop]
          omega
        | some i =>
          have hb' := findFirstNotOf_bounds h'
          have hgt := findFirstNotOf_gt h h'
          obtain ⟨ts, ss, e, h1, h2, h3, h4⟩ := ih i (by omega) (by omega)
          simp only [e, bind_ok, toSz]
          refine ⟨_, _, rfl, by simp, by simp; omega, ?_, by simp; omega⟩
          have hw2 : wsub i n = i - n := wsub_eq (by omega) (by omega)
          simp only [sumLen_cons, List.length_take, List.length_drop, hw2]
          omega

/-! ### StringTokenizer, solid loop -/

theorem skipSolid_spec (s d : Str) (hd : d ≠ []) (hs : StrOk s) (fuel idx : Nat)
    (hi : idx ≤ s.length) (hf : s.length - idx + 1 ≤ fuel) :
    ∃ r, skipSolid s d fuel idx = .ok r ∧ idx ≤ r ∧ r ≤ s.length := by
  have hsz := hs.lt_SZ
  have hdl : 0 < d.length := List.length_pos_iff.mpr hd
  induction fuel generalizing idx with
  | zero => omega
  | succ fuel ih =>
    unfold skipSolid
    simp only [substr_ok _ hi, bind_ok]
    by_cases e : ((s.drop idx).take d.length == d) = true
    · have e' : (s.drop idx).take d.length = d := by simpa using e
      have hl : d.length ≤ s.length - idx := by
        have := congrArg List.length e'
        simp only [List.length_take, List.length_drop] at this
        omega
      have hw : wadd idx d.length = idx + d.length := wadd_eq (by omega)
      obtain ⟨r, e1, h1, h2⟩ := ih (idx + d.length) (by omega) (by omega)
      simp only [e, if_true, hw, e1]
      exact ⟨r, rfl, by omega, h2⟩
    · simp only [e, pure_eq_ok]
      exact ⟨idx, rfl, Nat.le_refl _, hi⟩

theorem solidLoop_spec (s d : Str) (allowEmpty : Bool) (hd : d ≠ []) (hs : StrOk s) (fuel index : Nat)
    (hi : index ≤ s.length) (hf : s.length - index + 1 ≤ fuel) :
    ∃ ts ss, solidLoop s d allowEmpty fuel index = .ok (ts, ss) ∧
      ts.length = ss.length + 1 ∧ sumLen ts + sumLen ss ≤ s.length - index ∧
      ts.length ≤ s.length - index + 1 := by
  have hsz := hs.lt_SZ
  have hdl : 0 < d.length := List.length_pos_iff.mpr hd
  induction fuel generalizing index with
  | zero => omega
  | succ fuel ih =>
    unfold solidLoop
    cases h : findFrom d s index with
    | none =>
      simp only [substrFrom_ok hi, bind_ok, pure_eq_ok]
      refine ⟨_, _, rfl, by simp, ?_, by simp⟩
      simp
    | some n =>
      have hb := findFrom_bounds h
      have hn : n ≤ s.length := by omega
      have hw : wsub n index = n - index := wsub_eq hb.1 (by omega)
      have hw1 : wadd n d.length = n + d.length := wadd_eq (by omega)
      simp only [substr_ok _ hi, bind_ok, hw, hw1]
      have key : ∀ i', n + d.length ≤ i' → i' ≤ s.length →
          ∃ ts ss, (do
            let sp ← substr s n (wsub i' n)
            let (ts, ss) ← solidLoop s d allowEmpty fuel i'
            pure ((s.drop index).take (n - index) :: ts, sp :: ss) : R (List Str × List Str)) = .ok (ts, ss) ∧
            ts.length = ss.length + 1 ∧ sumLen ts + sumLen ss ≤ s.length - index ∧
            ts.length ≤ s.length - index + 1 := by
        intro i' h1 h2
        obtain ⟨ts, ss, e, g1, g2, g3⟩ := ih i' h2 (by omega)
        have hw2 : wsub i' n = i' - n := wsub_eq (by omega) (by omega)
        simp only [substr_ok _ hn, bind_ok, e, pure_eq_ok, hw2]
        refine ⟨_, _, rfl, by simp; omega, ?_, by simp; omega⟩
        simp only [sumLen_cons, List.length_take, List.length_drop]
        omega
      cases allowEmpty with
      | true =>
        simp only [Bool.not_true, Bool.false_eq_true, if_false, pure_eq_ok, bind_ok]
        exact key _ (Nat.le_refl _) hb.2
      | false =>
        simp only [Bool.not_false, if_true]
        obtain ⟨r, e, h1, h2⟩ := skipSolid_spec s d hd hs (s.length + 2) (n + d.length) hb.2 (by omega)
        simp only [e, bind_ok]
        exact key r h1 h2

theorem solidLoop_nonempty {s d : Str} {allowEmpty : Bool} {fuel index : Nat} {ts ss : List Str}
    (h : solidLoop s d allowEmpty fuel index = .ok (ts, ss)) : ts ≠ [] := by
  cases fuel with
  | zero => simp [solidLoop] at h
  | succ fuel =>
    unfold solidLoop at h
    split at h
    · obtain ⟨t, _, h⟩ := bind_eq_ok h
      have key : ∀ n i', (do
            let sp ← substr s n (wsub i' n)
            let (ts, ss) ← solidLoop s d allowEmpty fuel i'
            pure (t :: ts, sp :: ss) : R (List Str × List Str)) = .ok (ts, ss) → ts ≠ [] := by
        intro n i' h
        obtain ⟨sp, _, h⟩ := bind_eq_ok h
        obtain ⟨⟨ts', ss'⟩, _, h⟩ := bind_eq_ok h
        simp only [pure_eq_ok, Except.ok.injEq, Prod.mk.injEq] at h
        rw [← h.1]; simp
      cases allowEmpty with
      | true =>
        simp only [Bool.not_true, Bool.false_eq_true, if_false, pure_eq_ok, bind_ok] at h
        exact key _ _ h
      | false =>
        simp only [Bool.not_false, if_true] at h
        obtain ⟨i', _, h⟩ := bind_eq_ok h
        exact key _ _ h
    · obtain ⟨t, _, h⟩ := bind_eq_ok h
      simp only [pure_eq_ok, Except.ok.injEq, Prod.mk.injEq] at h
      rw [← h.1]; simp

/-! ### the methods -/

theorem nextToken_cases (t : Tokenizer) :
    (t.pos < t.tokens.length ∧ ∃ tok, t.nextToken = .ok (tok, { t with pos := t.pos + 1 })) ∨
    (¬ t.pos < t.tokens.length ∧ t.nextToken = .error .bpp) := by
  unfold Tokenizer.nextToken Tokenizer.hasMoreToken
  by_cases h : t.pos < t.tokens.length
  · left
    refine ⟨h, t.tokens[t.pos], ?_⟩
    simp [h, vecAt_ok h, pure_eq_ok]
  · right
    exact ⟨h, by simp [h]⟩

theorem rmEmptyLoop_spec (pos i : Nat) (toks : List Str) (hi : i ≤ toks.length) :
    ∃ r, Tokenizer.rmEmptyLoop pos i toks = .ok r ∧ r.length ≤ toks.length ∧
      (pos ≤ toks.length → pos ≤ r.length) := by
  induction i generalizing toks with
  | zero => exact ⟨toks, rfl, Nat.le_refl _, id⟩
  | succ i ih =>
    unfold Tokenizer.rmEmptyLoop
    by_cases hp : i + 1 > pos
    · have hlt : i < toks.length := by omega
      simp only [hp, if_true, vecAt_ok hlt, bind_ok]
      by_cases he : toks[i].isEmpty = true
      · simp only [he, if_true]
        have hl : (toks.eraseIdx i).length = toks.length - 1 := List.length_eraseIdx_of_lt hlt
        obtain ⟨r, e, h1, h2⟩ := ih (toks.eraseIdx i) (by omega)
        exact ⟨r, e, by omega, fun _ => h2 (by omega)⟩
      · simp only [he]
        obtain ⟨r, e, h1, h2⟩ := ih toks (by omega)
        exact ⟨r, e, h1, h2⟩
    · simp only [hp, if_false]
      exact ⟨toks, rfl, Nat.le_refl _, id⟩

theorem removeEmptyTokens_spec (t : Tokenizer) :
    ∃ t', t.removeEmptyTokens = .ok t' ∧ t'.pos = t.pos ∧ t'.splits = t.splits ∧
      t'.tokens.length ≤ t.tokens.length ∧ (t.pos ≤ t.tokens.length → t.pos ≤ t'.tokens.length) := by
  unfold Tokenizer.removeEmptyTokens
  obtain ⟨r, e, h1, h2⟩ := rmEmptyLoop_spec t.pos t.tokens.length t.tokens (Nat.le_refl _)
  simp only [e, bind_ok, pure_eq_ok]
  exact ⟨_, rfl, rfl, rfl, h1, h2⟩

theorem unparseLoop_ok (t : Tokenizer) (k i : Nat) (h1 : i + k ≤ t.tokens.length)
    (h2 : i + k ≤ t.splits.length) : ∃ b, t.unparseLoop k i = .ok b := by
  induction k generalizing i with
  | zero => exact ⟨[], rfl⟩
  | succ k ih =>
    unfold Tokenizer.unparseLoop
    obtain ⟨r, e⟩ := ih (i + 1) (by omega) (by omega)
    have a1 : i < t.tokens.length := by omega
    have a2 : i < t.splits.length := by omega
    simp only [vecAt_ok a1, vecAt_ok a2, bind_ok, e, pure_eq_ok]
    exact ⟨_, rfl⟩

/-- what the loop of `unparseRemainingTokens` allocates, leaving room for the last token -/
theorem unparseLoop_len (t : Tokenizer) (k i : Nat) (b : Str) (h : t.unparseLoop k i = .ok b) :
    b.length + sumLen (t.tokens.drop (i + k)) ≤ sumLen (t.tokens.drop i) + sumLen (t.splits.drop i) := by
  induction k generalizing i b with
  | zero =>
    simp only [Tokenizer.unparseLoop, Except.ok.injEq] at h
    subst h; simp
  | succ k ih =>
    unfold Tokenizer.unparseLoop at h
    obtain ⟨a, ha, h⟩ := bind_eq_ok h
    obtain ⟨sp, hsp, h⟩ := bind_eq_ok h
    obtain ⟨rest, hr, h⟩ := bind_eq_ok h
    simp only [pure_eq_ok, Except.ok.injEq] at h
    subst h
    have := ih (i + 1) rest hr
    unfold vecAt at ha hsp
    split at ha
    · rename_i a1
      split at hsp
      · rename_i a2
        cases ha; cases hsp
        rw [List.drop_eq_getElem_cons a1, List.drop_eq_getElem_cons a2]
        simp only [sumLen_cons, List.length_append]
        have e : i + 1 + k = i + (k + 1) := by omega
        rw [e] at this
        omega
      · cases hsp
    · cases ha

theorem numberOfRemainingTokens_eq (t : Tokenizer) (h1 : t.pos ≤ t.tokens.length) (h2 : t.tokens.length < SZ) :
    t.numberOfRemainingTokens = t.tokens.length - t.pos := wsub_eq h1 h2

theorem unparse_ok (t : Tokenizer) (hwf : t.WF) : ∃ u, t.unparseRemainingTokens = .ok u := by
  unfold Tokenizer.unparseRemainingTokens
  have hb : ∃ b, t.unparseLoop (t.tokens.length - (t.pos + 1)) t.pos = .ok b := by
    by_cases hp : t.pos < t.tokens.length
    · exact unparseLoop_ok t _ _ (by omega) (by have := hwf.splits; omega)
    · have e0 : t.tokens.length - (t.pos + 1) = 0 := by omega
      rw [e0]; exact ⟨[], rfl⟩
  obtain ⟨b, e⟩ := hb
  simp only [e, bind_ok, numberOfRemainingTokens_eq t hwf.pos_le hwf.size]
  by_cases h : t.tokens.length - t.pos > 0
  · have hne : t.tokens ≠ [] := by
      intro e0; rw [e0] at h; simp at h
    obtain ⟨a, ea⟩ := vecBack_ok hne
    simp only [h, if_true, ea, bind_ok, pure_eq_ok]
    exact ⟨_, rfl⟩
  · simp only [h, if_false, pure_eq_ok]
    exact ⟨_, rfl⟩

theorem getToken_cases (t : Tokenizer) (k : Nat) :
    (∃ tok, t.getToken k = .ok tok) ∨ t.getToken k = .error .bpp := by
  unfold Tokenizer.getToken
  by_cases h : k ≥ t.tokens.length
  · right; simp [h]
  · left
    have h' : k < t.tokens.length := by omega
    exact ⟨t.tokens[k], by simp [h, vecAt_ok h']⟩

/-- with the repaired methods no call ends in anything but a value (a `bpp` exception of
`nextToken` / `getToken` is the answer `raised`); the invariant is only needed by
`unparseRemainingTokens` of a StringTokenizer -/
theorem callStep_spec (nested : Bool) (t : Tokenizer) (hwf : t.WF) (c : Call) :
    ∃ a t', callStep nested true t c = .ok (a, t') ∧ (t.WF → t'.WF) ∧
      (t.pos ≤ t.tokens.length → t'.pos ≤ t'.tokens.length) ∧ t'.tokens.length ≤ t.tokens.length := by
  cases c with
  | next =>
    unfold callStep
    rcases nextToken_cases t with ⟨hlt, tok, e⟩ | ⟨_, e⟩
    · simp only [e]
      refine ⟨_, _, rfl, fun w => ⟨?_, w.splits, w.size⟩, fun _ => ?_, Nat.le_refl _⟩
      · show t.pos + 1 ≤ t.tokens.length; omega
      · show t.pos + 1 ≤ t.tokens.length; omega
    · simp only [e]
      exact ⟨_, _, rfl, id, id, Nat.le_refl _⟩
  | has => exact ⟨_, _, rfl, id, id, Nat.le_refl _⟩
  | remaining => exact ⟨_, _, rfl, id, id, Nat.le_refl _⟩
  | rmEmpty =>
    unfold callStep
    obtain ⟨t', e, h1, h2, h3, h4⟩ := removeEmptyTokens_spec t
    simp only [e, bind_ok, pure_eq_ok]
    refine ⟨_, _, rfl, fun w => ⟨?_, ?_, ?_⟩, fun w => ?_, h3⟩
    · rw [h1]; exact h4 w.pos_le
    · rw [h2]; have := w.splits; omega
    · have := w.size; omega
    · rw [h1]; exact h4 w
  | unparse =>
    unfold callStep
    obtain ⟨u, e⟩ := unparse_ok t hwf
    simp only [if_true, e, bind_ok, pure_eq_ok]
    exact ⟨_, _, rfl, id, id, Nat.le_refl _⟩
  | get k =>
    unfold callStep
    rcases getToken_cases t k with ⟨tok, e⟩ | e
    · simp only [if_true, e]
      exact ⟨_, _, rfl, id, id, Nat.le_refl _⟩
    · simp only [if_true, e]
      exact ⟨_, _, rfl, id, id, Nat.le_refl _⟩

theorem runCalls_ok (nested : Bool) (t : Tokenizer) (hwf : t.WF) (calls : List Call) :
    ∃ l, runCalls nested true t calls = .ok l := by
  induction calls generalizing t with
  | nil => exact ⟨[], rfl⟩
  | cons c cs ih =>
    unfold runCalls
    obtain ⟨a, t', e, h1, _, _⟩ := callStep_spec nested t hwf c
    obtain ⟨l, el⟩ := ih t' (h1 hwf)
    simp only [e, bind_ok, el, pure_eq_ok]
    exact ⟨_, rfl⟩

/-! ### the StringTokenizer constructor -/

theorem mkTokenizer_spec (s d : Str) (solid allowEmpty : Bool) (hs : StrOk s) :
    mkTokenizer s d solid allowEmpty = .error .bpp ∨
    ∃ t, mkTokenizer s d solid allowEmpty = .ok t ∧ t.WF ∧ t.pos = 0 ∧
      sumLen t.tokens + sumLen t.splits ≤ s.length ∧ t.tokens.length ≤ s.length + 1 := by
  have hsz := hs.lt_SZ
  unfold mkTokenizer mkTokenizerG
  cases solid with
  | false =>
    right
    simp only [Bool.not_false, if_true]
    cases h : findFirstNotOf d s 0 with
    | none =>
      refine ⟨_, rfl, ⟨Nat.le_refl _, by simp, by simp [SZ]⟩, rfl, by simp, by simp⟩
    | some index =>
      have hb := findFirstNotOf_bounds h
      obtain ⟨ts, ss, e, h1, h2, h3, h4⟩ := nsLoop_spec s d allowEmpty hs (loopFuel s) index (by omega)
        (by unfold loopFuel; omega)
      simp only [e, bind_ok, pure_eq_ok]
      refine ⟨_, rfl, ⟨Nat.zero_le _, h2, ?_⟩, rfl, ?_, ?_⟩
      · show ts.length < SZ; omega
      · show sumLen ts + sumLen ss ≤ s.length; omega
      · show ts.length ≤ s.length + 1; omega
  | true =>
    simp only [Bool.not_true, Bool.false_eq_true, if_false, Bool.true_and]
    by_cases hd : d.isEmpty = true
    · left; simp [hd]
    · right
      have hd' : d ≠ [] := by
        intro e0; rw [e0] at hd; simp at hd
      obtain ⟨ts, ss, e, h2, h3, h4⟩ := solidLoop_spec s d allowEmpty hd' hs (loopFuel s) 0 (Nat.zero_le _)
        (by unfold loopFuel; omega)
      simp only [hd, e, bind_ok, pure_eq_ok]
      refine ⟨_, rfl, ⟨Nat.zero_le _, ?_, ?_⟩, rfl, ?_, ?_⟩
      · show ts.length ≤ ss.length + 1; omega
      · show ts.length < SZ; omega
      · show sumLen ts + sumLen ss ≤ s.length; omega
      · show ts.length ≤ s.length + 1; omega

/-! ### NestedStringTokenizer -/

/-- the `int` counter stays within the number of characters read -/
theorem blocksUpd_spec (blocks : Int) (token op en : Str) (B : Nat) (h1 : -(B : Int) ≤ blocks)
    (h2 : blocks ≤ B) (hB : B + token.length ≤ 2147483647) :
    ∃ b', blocksUpd blocks token op en = .ok b' ∧ -((B + token.length : Nat) : Int) ≤ b' ∧
      b' ≤ ((B + token.length : Nat) : Int) := by
  unfold blocksUpd count
  have c1 := countSub_le op token
  have c2 := countSub_le en token
  rw [intRes_ok (by unfold intMin; omega) (by unfold intMax; omega)]
  exact ⟨_, rfl, by omega, by omega⟩

theorem safe_bind_pure {α β : Type} {x : R α} {f : α → β} (hx : safe x = true) :
    safe (x >>= fun a => pure (f a)) = true := safe_bind hx (fun _ _ => rfl)

theorem bind_pure_eq_ok {α β : Type} {x : R α} {f : α → β} {b : β}
    (h : (x >>= fun a => pure (f a)) = .ok b) : ∃ a, x = .ok a ∧ b = f a := by
  obtain ⟨a, e, h⟩ := bind_eq_ok h
  simp only [pure_eq_ok, Except.ok.injEq] at h
  exact ⟨a, e, h.symm⟩

theorem nestNs_spec (s op en d : Str) (hs : s.length < 2147483648) (fuel index : Nat) (blocks : Int)
    (cache : Str) (hi : index ≤ s.length) (hf : s.length - index + 1 ≤ fuel)
    (hb1 : -(index : Int) ≤ blocks) (hb2 : blocks ≤ index) :
    safe (nestNs s op en d fuel index (findFirstOf d s index) blocks cache) = true ∧
    ∀ ts ss, nestNs s op en d fuel index (findFirstOf d s index) blocks cache = .ok (ts, ss) →
      ts ≠ [] ∧ ts.length ≤ ss.length + 1 ∧
      sumLen ts + sumLen ss ≤ cache.length + (s.length - index) ∧ ts.length ≤ s.length - index + 1 := by
  have hsz : s.length + 4 < SZ := by unfold SZ; omega
  induction fuel generalizing index blocks cache with
  | zero => omega
  | succ fuel ih =>
    cases h : findFirstOf d s index with
    | none =>
      unfold nestNs
      simp only [substrFrom_ok hi, bind_ok]
      obtain ⟨b', e, _, _⟩ := blocksUpd_spec blocks (s.drop index) op en index hb1 hb2
        (by simp only [List.length_drop]; omega)
      simp only [e, bind_ok]
      by_cases hz : (b' == 0) = true
      · simp only [hz, if_true, pure_eq_ok, safe_ok, Except.ok.injEq, Prod.mk.injEq, true_and]
        rintro ts ss ⟨rfl, rfl⟩
        simp
      · simp [hz]
    | some n =>
      have hb := findFirstOf_bounds h
      have hn : n ≤ s.length := by omega
      have hw : wsub n index = n - index := wsub_eq hb.1 (by omega)
      have hw1 : wadd n 1 = n + 1 := wadd_eq (by omega)
      have hw2 : wadd (n - index) 1 = n - index + 1 := wadd_eq (by omega)
      unfold nestNs
      simp only [substr_ok _ hi, bind_ok, hw, hw1, hw2]
      have hl : ((s.drop index).take (n - index)).length = n - index := by
        simp only [List.length_take, List.length_drop]; omega
      obtain ⟨b', e, g1, g2⟩ := blocksUpd_spec blocks ((s.drop index).take (n - index)) op en index hb1 hb2
        (by rw [hl]; omega)
      rw [hl] at g1 g2
      simp only [e, bind_ok]
      by_cases hz : (b' == 0) = true
      · simp only [hz, if_true, substr_ok _ hn, bind_ok]
        cases h' : findFirstNotOf d s n with
        | none =>
          simp only [pure_eq_ok, safe_ok, Except.ok.injEq, Prod.mk.injEq, true_and]
          rintro ts ss ⟨rfl, rfl⟩
          simp only [ne_eq, List.cons_ne_self, not_false_eq_true, sumLen_cons, List.length_append, hl,
            sumLen_nil, List.length_cons, List.length_nil, true_and, List.length_take, List.length_drop]
          omega
        | some i =>
          have hb' := findFirstNotOf_bounds h'
          have hgt := findFirstNotOf_gt h h'
          have hw3 : wsub (toSz (some i)) n = i - n := by
            simp only [toSz]; exact wsub_eq (by omega) (by omega)
          obtain ⟨s1, s2⟩ := ih i 0 [] (by omega) (by omega) (by omega) (by omega)
          simp only [hw3]
          refine ⟨safe_bind_pure s1, fun ts ss hts => ?_⟩
          obtain ⟨⟨ts', ss'⟩, er, hp⟩ := bind_pure_eq_ok hts
          simp only [Prod.mk.injEq] at hp
          obtain ⟨rfl, rfl⟩ := hp
          obtain ⟨_, r1, r2, r3⟩ := s2 ts' ss' er
          simp only [ne_eq, reduceCtorEq, not_false_eq_true, sumLen_cons, List.length_append, hl,
            List.length_cons, true_and, List.length_take, List.length_drop]
          simp only [List.length_nil] at r2
          omega
      · simp only [hz]
        obtain ⟨s1, s2⟩ := ih (n + 1) b' (cache ++ (s.drop index).take (n - index + 1)) (by omega) (by omega)
          (by omega) (by omega)
        refine ⟨s1, fun ts ss hts => ?_⟩
        obtain ⟨r0, r1, r2, r3⟩ := s2 ts ss hts
        refine ⟨r0, r1, ?_, by omega⟩
        simp only [List.length_append, List.length_take, List.length_drop] at r2
        omega

theorem nestSolid_spec (s op en d : Str) (hd : d ≠ []) (hs : s.length < 2147483648) (fuel index : Nat)
    (blocks : Int) (cache : Str) (hi : index ≤ s.length) (hf : s.length - index + 1 ≤ fuel)
    (hb1 : -(index : Int) ≤ blocks) (hb2 : blocks ≤ index) :
    safe (nestSolid s op en d fuel index (findFrom d s index) blocks cache) = true ∧
    ∀ ts ss, nestSolid s op en d fuel index (findFrom d s index) blocks cache = .ok (ts, ss) →
      ts ≠ [] ∧ ts.length = ss.length + 1 ∧
      sumLen ts + sumLen ss ≤ cache.length + (s.length - index) ∧ ts.length ≤ s.length - index + 1 := by
  have hsz : s.length + 4 < SZ := by unfold SZ; omega
  have hdl : 0 < d.length := List.length_pos_iff.mpr hd
  induction fuel generalizing index blocks cache with
  | zero => omega
  | succ fuel ih =>
    cases h : findFrom d s index with
    | none =>
      unfold nestSolid
      simp only [substrFrom_ok hi, bind_ok]
      obtain ⟨b', e, _, _⟩ := blocksUpd_spec blocks (s.drop index) op en index hb1 hb2
        (by simp only [List.length_drop]; omega)
      simp only [e, bind_ok]
      by_cases hz : (b' == 0) = true
      · simp only [hz, if_true, pure_eq_ok, safe_ok, Except.ok.injEq, Prod.mk.injEq, true_and]
        rintro ts ss ⟨rfl, rfl⟩
        simp
      · simp [hz]
    | some n =>
      have hb := findFrom_bounds h
      have hw : wsub n index = n - index := wsub_eq hb.1 (by omega)
      have hw1 : wadd n 1 = n + 1 := wadd_eq (by omega)
      have hw2 : wadd (n - index) 1 = n - index + 1 := wadd_eq (by omega)
      have hw3 : wadd n d.length = n + d.length := wadd_eq (by omega)
      unfold nestSolid
      simp only [substr_ok _ hi, bind_ok, hw, hw1, hw2, hw3]
      have hl : ((s.drop index).take (n - index)).length = n - index := by
        simp only [List.length_take, List.length_drop]; omega
      obtain ⟨b', e, g1, g2⟩ := blocksUpd_spec blocks ((s.drop index).take (n - index)) op en index hb1 hb2
        (by rw [hl]; omega)
      rw [hl] at g1 g2
      simp only [e, bind_ok]
      by_cases hz : (b' == 0) = true
      · simp only [hz, if_true]
        obtain ⟨s1, s2⟩ := ih (n + d.length) 0 [] (by omega) (by omega) (by omega) (by omega)
        refine ⟨safe_bind_pure s1, fun ts ss hts => ?_⟩
        obtain ⟨⟨ts', ss'⟩, er, hp⟩ := bind_pure_eq_ok hts
        simp only [Prod.mk.injEq] at hp
        obtain ⟨rfl, rfl⟩ := hp
        obtain ⟨_, r1, r2, r3⟩ := s2 ts' ss' er
        simp only [ne_eq, reduceCtorEq, not_false_eq_true, sumLen_cons, List.length_append, hl,
          List.length_cons, true_and]
        simp only [List.length_nil] at r2
        omega
      · simp only [hz]
        obtain ⟨s1, s2⟩ := ih (n + 1) b' (cache ++ (s.drop index).take (n - index + 1)) (by omega) (by omega)
          (by omega) (by omega)
        refine ⟨s1, fun ts ss hts => ?_⟩
        obtain ⟨r0, r1, r2, r3⟩ := s2 ts ss hts
        refine ⟨r0, r1, ?_, by omega⟩
        simp only [List.length_append, List.length_take, List.length_drop] at r2
        omega

/-- what the NestedStringTokenizer constructor establishes: the class invariant (since the repair
`fix: NestedStringTokenizer never recorded its separators …` there is a separator for every token
but the last) and the allocation bounds -/
theorem mkNested_spec (s op en d : Str) (solid : Bool) (hs : s.length < 2147483648) :
    safe (mkNested s op en d solid) = true ∧
    ∀ t, mkNested s op en d solid = .ok t → t.pos = 0 ∧ t.WF ∧
      sumLen t.tokens + sumLen t.splits ≤ s.length ∧ t.tokens.length ≤ s.length + 1 := by
  have hSZ : s.length + 1 < SZ := by unfold SZ; omega
  unfold mkNested mkNestedG
  cases solid with
  | false =>
    simp only [Bool.not_false, if_true]
    cases h : findFirstNotOf d s 0 with
    | none =>
      simp only [safe_ok, Except.ok.injEq, true_and]
      intro t ht; subst ht
      exact ⟨rfl, ⟨Nat.le_refl _, by simp, by simp [SZ]⟩, by simp, by simp⟩
    | some index =>
      have hb := findFirstNotOf_bounds h
      obtain ⟨s1, s2⟩ := nestNs_spec s op en d hs (loopFuel s) index 0 [] (by omega)
        (by unfold loopFuel; omega) (by omega) (by omega)
      refine ⟨safe_bind_pure s1, fun t ht => ?_⟩
      obtain ⟨⟨ts, ss⟩, e, rfl⟩ := bind_pure_eq_ok ht
      obtain ⟨_, r1, r2, r3⟩ := s2 ts ss e
      simp only [List.length_nil] at r2
      refine ⟨rfl, ⟨Nat.zero_le _, r1, ?_⟩, ?_, ?_⟩
      · show ts.length < SZ; omega
      · show sumLen ts + sumLen ss ≤ s.length; omega
      · show ts.length ≤ s.length + 1; omega
  | true =>
    simp only [Bool.not_true, Bool.false_eq_true, if_false, Bool.true_and]
    by_cases hd : d.isEmpty = true
    · simp [hd]
    · have hd' : d ≠ [] := by
        intro e0; rw [e0] at hd; simp at hd
      obtain ⟨s1, s2⟩ := nestSolid_spec s op en d hd' hs (loopFuel s) 0 0 [] (Nat.zero_le _)
        (by unfold loopFuel; omega) (by omega) (by omega)
      simp only [hd]
      refine ⟨safe_bind_pure s1, fun t ht => ?_⟩
      obtain ⟨⟨ts, ss⟩, e, rfl⟩ := bind_pure_eq_ok ht
      obtain ⟨_, r1, r2, r3⟩ := s2 ts ss e
      simp only [List.length_nil] at r2
      refine ⟨rfl, ⟨Nat.zero_le _, by show ts.length ≤ ss.length + 1; omega, ?_⟩, ?_, ?_⟩
      · show ts.length < SZ; omega
      · show sumLen ts + sumLen ss ≤ s.length; omega
      · show ts.length ≤ s.length + 1; omega

end Bpp.Text.U
