import BppProofs.Lemmas.TokenizerU
import BppModel.Text.TokRT
/-! Helper lemmas for `Props/C17Tokenizer.lean`: what the loops of the StringTokenizer constructor
return, piece by piece (tokens, recorded separators), and what `unparseRemainingTokens` makes of
them. -/
namespace Bpp.Text.RT
open Bpp.Text Bpp.Text.U

/-! ### lists -/

theorem take_sub_append_drop {α : Type} (s : List α) {a b : Nat} (h : a ≤ b) :
    (s.drop a).take (b - a) ++ s.drop b = s.drop a := by
  have : s.drop b = (s.drop a).drop (b - a) := by
    rw [List.drop_drop]; congr 1; omega
  rw [this, List.take_append_drop]

theorem findIdx_none_all {p : Char → Bool} {s : Str} (h : findIdx p s = none) : ∀ c ∈ s, p c = false := by
  induction s with
  | nil => simp
  | cons x s ih =>
    simp only [findIdx] at h
    split at h
    · cases h
    · rename_i hx
      cases h' : findIdx p s with
      | some j => simp [h'] at h
      | none =>
        intro c hc
        rcases List.mem_cons.mp hc with rfl | hc
        · simpa using hx
        · exact ih h' c hc

theorem findIdx_take_all {p : Char → Bool} {s : Str} {k : Nat} (h : findIdx p s = some k) :
    ∀ c ∈ s.take k, p c = false := by
  induction s generalizing k with
  | nil => simp [findIdx] at h
  | cons x s ih =>
    simp only [findIdx] at h
    split at h
    · cases h; simp
    · rename_i hx
      cases h' : findIdx p s with
      | none => simp [h'] at h
      | some j =>
        simp only [h', Option.map_some, Option.some.injEq] at h
        subst h
        intro c hc
        simp only [List.take_succ_cons, List.mem_cons] at hc
        rcases hc with rfl | hc
        · simpa using hx
        · exact ih h' c hc

theorem findIdxFrom_none_all {p : Char → Bool} {s : Str} {pos : Nat} (h : findIdxFrom p s pos = none) :
    ∀ c ∈ s.drop pos, p c = false := by
  unfold findIdxFrom at h
  cases h' : findIdx p (s.drop pos) with
  | some j => simp [h'] at h
  | none => exact findIdx_none_all h'

theorem findIdxFrom_take_all {p : Char → Bool} {s : Str} {pos k : Nat} (h : findIdxFrom p s pos = some k) :
    ∀ c ∈ (s.drop pos).take (k - pos), p c = false := by
  unfold findIdxFrom at h
  cases h' : findIdx p (s.drop pos) with
  | none => simp [h'] at h
  | some j =>
    simp only [h', Option.map_some, Option.some.injEq] at h
    subst h
    simpa using findIdx_take_all h'

/-- `find_first_not_of` from the start is where `dropWhile` stops -/
theorem dropWhile_of_findIdx {q : Char → Bool} {s : Str} {k : Nat}
    (h : findIdx (fun c => !q c) s = some k) : s.dropWhile q = s.drop k ∧ s.takeWhile q = s.take k := by
  induction s generalizing k with
  | nil => simp [findIdx] at h
  | cons x s ih =>
    simp only [findIdx] at h
    split at h
    · rename_i hx
      cases h
      have : q x = false := by simpa using hx
      simp [List.dropWhile, List.takeWhile, this]
    · rename_i hx
      have hq : q x = true := by simpa using hx
      cases h' : findIdx (fun c => !q c) s with
      | none => simp [h'] at h
      | some j =>
        simp only [h', Option.map_some, Option.some.injEq] at h
        subst h
        obtain ⟨h1, h2⟩ := ih h'
        simp [List.dropWhile, List.takeWhile, hq, h1, h2]

theorem dropWhile_all {q : Char → Bool} {s : Str} (h : ∀ c ∈ s, q c = true) :
    s.dropWhile q = [] ∧ s.takeWhile q = s := by
  induction s with
  | nil => simp
  | cons x s ih =>
    have hx := h x (by simp)
    obtain ⟨h1, h2⟩ := ih (fun c hc => h c (by simp [hc]))
    simp [List.dropWhile, List.takeWhile, hx, h1, h2]

theorem dropWhile_of_findIdx_none {q : Char → Bool} {s : Str}
    (h : findIdx (fun c => !q c) s = none) : s.dropWhile q = [] ∧ s.takeWhile q = s :=
  dropWhile_all (fun c hc => by simpa using findIdx_none_all h c hc)

/-! ### `interleave`, `consumed` -/

@[simp] theorem interleave_nil (ss : List Str) : interleave [] ss = [] := by
  cases ss <;> rfl

theorem interleave_single (t : Str) : interleave [t] [] = t := by simp [interleave]

/-- a last token after as many separators as tokens -/
theorem interleave_snoc_token (A S : List Str) (h : A.length = S.length) (x : Str) :
    interleave (A ++ [x]) S = interleave A S ++ x := by
  induction A generalizing S with
  | nil =>
    cases S with
    | nil => simp [interleave]
    | cons _ _ => simp at h
  | cons a A ih =>
    cases S with
    | nil => simp at h
    | cons sp S =>
      simp only [List.length_cons, Nat.add_right_cancel_iff] at h
      simp [interleave, ih S h]

/-- a last separator after the last token -/
theorem interleave_snoc_split (A S : List Str) (h : A.length = S.length + 1) (y : Str) :
    interleave A (S ++ [y]) = interleave A S ++ y := by
  induction A generalizing S with
  | nil => simp at h
  | cons a A ih =>
    cases S with
    | nil =>
      cases A with
      | nil => simp [interleave]
      | cons _ _ => simp at h
    | cons sp S =>
      simp only [List.length_cons, Nat.add_right_cancel_iff] at h
      simp [interleave, ih S h]

/-- separators beyond the tokens are not used -/
theorem interleave_take (A S : List Str) : interleave A (S.take A.length) = interleave A S := by
  induction A generalizing S with
  | nil => simp
  | cons a A ih =>
    cases S with
    | nil => simp
    | cons sp S => simp [interleave, ih S]

theorem consumed_append_interleave (k : Nat) (ts ss : List Str) (h : k ≤ ts.length) :
    consumed k ts ss ++ interleave (ts.drop k) (ss.drop k) = interleave ts ss := by
  induction k generalizing ts ss with
  | zero => simp [consumed]
  | succ k ih =>
    cases ts with
    | nil => simp at h
    | cons t ts =>
      simp only [List.length_cons, Nat.add_le_add_iff_right] at h
      cases ss with
      | nil =>
        have := ih ts [] h
        simp only [List.drop_nil] at this
        simp [consumed, interleave, this]
      | cons sp ss =>
        simp [consumed, interleave, ih ts ss h]


/-! ### trailing delimiters -/

theorem dropWhile_append_all {q : Char → Bool} (A B : Str) (h : ∀ c ∈ A, q c = true) :
    (A ++ B).dropWhile q = B.dropWhile q := by
  induction A with
  | nil => rfl
  | cons x A ih =>
    have hx := h x (by simp)
    simp [hx, ih (fun c hc => h c (by simp [hc]))]

/-- a text that ends with a non-delimiter followed by delimiters only -/
theorem dropLastSet_append_tail (d U T : Str) (hT : ∀ c ∈ T, inSet d c = true)
    (hU : U = [] ∨ ∃ X x, U = X ++ [x] ∧ inSet d x = false) : dropLastSet d (U ++ T) = U := by
  unfold dropLastSet
  rw [List.reverse_append, dropWhile_append_all _ _ (fun c hc => hT c (by simpa using hc))]
  rcases hU with rfl | ⟨X, x, rfl, hx⟩
  · simp
  · simp [hx]

theorem dropLastSet_self (d U : Str) (hU : U = [] ∨ ∃ X x, U = X ++ [x] ∧ inSet d x = false) :
    dropLastSet d U = U := by
  have := dropLastSet_append_tail d U [] (by simp) hU
  simpa using this

/-- a non-empty text ends with its last character -/
theorem exists_snoc {α : Type} (l : List α) (h : l ≠ []) : ∃ X x, l = X ++ [x] ∧ x ∈ l := by
  refine ⟨l.dropLast, l.getLast h, (List.dropLast_concat_getLast h).symm, List.getLast_mem h⟩

/-! ### the non-solid loop (StringTokenizer.cpp:18-35) -/

/-- what the non-solid loop entered at `index` returns -/
structure NsPost (s d : Str) (ae : Bool) (index : Nat) (ts ss : List Str) : Prop where
  join : interleave ts ss = s.drop index
  toks : ∀ t ∈ ts, ∀ c ∈ t, inSet d c = false
  seps : ∀ sp ∈ ss, sp ≠ [] ∧ (∀ c ∈ sp, inSet d c = true) ∧ (ae = true → sp.length = 1)
  count : ts.length = ss.length + 1 ∨ (ae = false ∧ ts.length = ss.length)
  ne : ts ≠ []
  tokNe : ae = false → (∃ c, s[index]? = some c ∧ inSet d c = false) → ∀ t ∈ ts, t ≠ []

theorem drop_eq_cons_of_getElem? {s : Str} {n : Nat} {c : Char} (h : s[n]? = some c) :
    s.drop n = c :: s.drop (n + 1) := by
  obtain ⟨hn, rfl⟩ := List.getElem?_eq_some_iff.mp h
  exact List.drop_eq_getElem_cons hn

theorem nsLoop_rt (s d : Str) (ae : Bool) (hs : StrOk s) (fuel index : Nat)
    (hi : index ≤ s.length) (hf : s.length - index + 1 ≤ fuel) :
    ∃ ts ss, nsLoop s d ae fuel index = .ok (ts, ss) ∧ NsPost s d ae index ts ss := by
  have hsz := hs.lt_SZ
  induction fuel generalizing index with
  | zero => omega
  | succ fuel ih =>
    unfold nsLoop
    cases h : findFirstOf d s index with
    | none =>
      simp only [substrFrom_ok hi, bind_ok, pure_eq_ok]
      refine ⟨_, _, rfl, ⟨by simp [interleave], ?_, by simp, by simp, by simp, ?_⟩⟩
      · intro t ht c hc
        simp only [List.mem_singleton] at ht; subst ht
        exact findIdxFrom_none_all h c hc
      · intro _ ⟨c, hc, _⟩ t ht
        simp only [List.mem_singleton] at ht; subst ht
        have : index < s.length := (List.getElem?_eq_some_iff.mp hc).1
        intro e
        have := congrArg List.length e
        simp only [List.length_drop, List.length_nil] at this
        omega
    | some n =>
      have hb := findFirstOf_bounds h
      have hn : n ≤ s.length := by omega
      have hw : wsub n index = n - index := wsub_eq hb.1 (by omega)
      have hw1 : wadd n 1 = n + 1 := wadd_eq (by omega)
      obtain ⟨cn, hcn, hcn'⟩ := findIdxFrom_spec h
      have htok : ∀ c ∈ (s.drop index).take (n - index), inSet d c = false := findIdxFrom_take_all h
      have htne : (∃ c, s[index]? = some c ∧ inSet d c = false) → (s.drop index).take (n - index) ≠ [] := by
        intro ⟨c, hc, hc'⟩ e
        have hne : n ≠ index := by
          intro e'; subst e'
          rw [hcn] at hc; cases hc
          simp only [inSet] at hc'
          rw [hc'] at hcn'; cases hcn'
        have := congrArg List.length e
        simp only [List.length_take, List.length_drop, List.length_nil] at this
        omega
      simp only [substr_ok _ hi, substr_ok _ hn, bind_ok, pure_eq_ok, hw]
      cases ae with
      | true =>
        simp only [Bool.not_true, Bool.false_eq_true, if_false, hw1, toSz]
        obtain ⟨ts, ss, e, post⟩ := ih (n + 1) (by omega) (by omega)
        simp only [e, bind_ok]
        have hw2 : wsub (n + 1) n = 1 := by rw [wsub_eq (by omega) (by omega)]; omega
        have hsp : (s.drop n).take 1 = [cn] := by rw [drop_eq_cons_of_getElem? hcn]; rfl
        refine ⟨_, _, rfl, ⟨?_, ?_, ?_, ?_, by simp, by intro h; cases h⟩⟩
        · simp only [interleave, post.join, hw2, List.append_assoc]
          have h1 := take_sub_append_drop s (show n ≤ n + 1 by omega)
          have h2 := take_sub_append_drop s hb.1
          simp only [Nat.add_sub_cancel_left] at h1
          rw [h1, h2]
        · intro t ht
          rcases List.mem_cons.mp ht with rfl | ht
          · exact htok
          · exact post.toks t ht
        · intro sp hsp'
          rcases List.mem_cons.mp hsp' with rfl | hsp'
          · rw [hw2, hsp]
            refine ⟨by simp, ?_, fun _ => rfl⟩
            intro c hc; simp only [List.mem_singleton] at hc; subst hc; exact hcn'
          · exact post.seps sp hsp'
        · rcases post.count with h1 | ⟨h1, _⟩
          · left; simp [h1]
          · cases h1
      | false =>
        simp only [Bool.not_false, if_true]
        cases h' : findFirstNotOf d s n with
        | none =>
          have hall : ∀ c ∈ s.drop n, inSet d c = true := by
            intro c hc
            have := findIdxFrom_none_all h' c hc
            simpa [inSet] using this
          have hw3 : (s.drop n).take (wsub (toSz none) n) = s.drop n := by
            apply List.take_of_length_le
            have : wsub npos n = npos - n := wsub_eq (by unfold npos; unfold SZ at hsz; omega) (by decide)
            simp only [toSz, this, List.length_drop]
            unfold npos; unfold SZ at hsz; omega
          simp only [hw3]
          refine ⟨_, _, rfl, ⟨?_, ?_, ?_, by simp, by simp, ?_⟩⟩
          · simp only [interleave, List.append_nil]
            exact take_sub_append_drop s hb.1
          · intro t ht c hc
            simp only [List.mem_singleton] at ht; subst ht
            exact htok c hc
          · intro sp hsp'
            simp only [List.mem_singleton] at hsp'; subst hsp'
            refine ⟨?_, hall, by intro h; cases h⟩
            rw [drop_eq_cons_of_getElem? hcn]; simp
          · intro _ hpre t ht
            simp only [List.mem_singleton] at ht; subst ht
            exact htne hpre
        | some i =>
          have hb' := findFirstNotOf_bounds h'
          have hgt := findFirstNotOf_gt h h'
          obtain ⟨ts, ss, e, post⟩ := ih i (by omega) (by omega)
          simp only [e, bind_ok, toSz]
          have hw2 : wsub i n = i - n := wsub_eq (by omega) (by omega)
          obtain ⟨ci, hci, hci'⟩ := findIdxFrom_spec h'
          have hci'' : inSet d ci = false := by simpa [inSet] using hci'
          refine ⟨_, _, rfl, ⟨?_, ?_, ?_, ?_, by simp, ?_⟩⟩
          · simp only [interleave, post.join, hw2, List.append_assoc]
            rw [take_sub_append_drop s (show n ≤ i by omega), take_sub_append_drop s hb.1]
          · intro t ht
            rcases List.mem_cons.mp ht with rfl | ht
            · exact htok
            · exact post.toks t ht
          · intro sp hsp'
            rcases List.mem_cons.mp hsp' with rfl | hsp'
            · rw [hw2]
              refine ⟨?_, ?_, by intro h; cases h⟩
              · intro e0
                have := congrArg List.length e0
                simp only [List.length_take, List.length_drop, List.length_nil] at this
                omega
              · intro c hc
                have := findIdxFrom_take_all h' c hc
                simpa [inSet] using this
            · exact post.seps sp hsp'
          · rcases post.count with h1 | ⟨_, h1⟩
            · left; simp [h1]
            · right; simp [h1]
          · intro _ hpre t ht
            rcases List.mem_cons.mp ht with rfl | ht
            · exact htne hpre
            · exact post.tokNe rfl ⟨ci, hci, hci''⟩ t ht


/-! ### the solid loop (StringTokenizer.cpp:41-63) -/

open Bpp.Text.Glob in
theorem find_none_of {g s : Str} (h : ∀ j, j ≤ s.length → isPrefix g (s.drop j) = false) : find g s = none := by
  induction s with
  | nil =>
    have := h 0 (by simp)
    cases g with
    | nil => simp [isPrefix] at this
    | cons a g => simp [find]
  | cons c s ih =>
    have h0 := h 0 (by simp)
    simp only [List.drop_zero] at h0
    have := ih (fun j hj => by simpa using h (j + 1) (by simp; omega))
    simp [find, h0, this]

open Bpp.Text.Glob in
/-- the text before the first occurrence does not contain the pattern -/
theorem find_take_none {g r : Str} {k : Nat} (hg : g ≠ []) (h : find g r = some k) :
    find g (r.take k) = none := by
  obtain ⟨_, hk, hmin⟩ := find_some h
  apply find_none_of
  intro j hj
  simp only [List.length_take] at hj
  have hjk : j ≤ k := by omega
  cases hp : isPrefix g ((r.take k).drop j) with
  | false => rfl
  | true =>
    exfalso
    obtain ⟨t, ht⟩ := isPrefix_iff.mp hp
    rw [List.drop_take] at ht
    have h2 := take_sub_append_drop r hjk
    rw [ht] at h2
    have hp' : isPrefix g (r.drop j) = true := isPrefix_iff.mpr ⟨t ++ r.drop k, by rw [← h2]; simp⟩
    rcases Nat.lt_or_ge j k with hlt | hge
    · rw [hmin j hlt] at hp'; cases hp'
    · have : j = k := by omega
      subst this
      have hl := congrArg List.length ht
      simp only [Nat.sub_self, List.take_zero, List.length_nil, List.length_append] at hl
      have : 0 < g.length := List.length_pos_iff.mpr hg
      omega

open Bpp.Text.Glob in
theorem isPrefix_take {g r : Str} (h : isPrefix g r = true) : r.take g.length = g := by
  obtain ⟨t, rfl⟩ := isPrefix_iff.mp h; simp

theorem repeatStr_length (d : Str) (m : Nat) : (repeatStr d m).length = m * d.length := by
  induction m with
  | zero => simp [repeatStr]
  | succ m ih => simp [repeatStr, ih, Nat.succ_mul]; omega

theorem isRepeat_repeatStr (d : Str) (hd : d ≠ []) (m : Nat) (hm : 0 < m) : isRepeat d (repeatStr d m) = true := by
  have hdl : 0 < d.length := List.length_pos_iff.mpr hd
  have hl := repeatStr_length d m
  have hne : repeatStr d m ≠ [] := by
    intro e; rw [e] at hl; simp only [List.length_nil] at hl
    have : 0 < m * d.length := Nat.mul_pos hm hdl
    omega
  unfold isRepeat
  rw [hl, Nat.mul_div_cancel _ hdl]
  simp [hne, hd]

open Bpp.Text.Glob in
/-- the inner loop :51-52 has skipped whole copies of the delimiter -/
theorem skipSolid_rt (s d : Str) (hd : d ≠ []) (hs : StrOk s) (fuel idx : Nat)
    (hi : idx ≤ s.length) (hf : s.length - idx + 1 ≤ fuel) :
    ∃ r, skipSolid s d fuel idx = .ok r ∧ idx ≤ r ∧ r ≤ s.length ∧
      ∃ m, (s.drop idx).take (r - idx) = repeatStr d m := by
  have hsz := hs.lt_SZ
  have hdl : 0 < d.length := List.length_pos_iff.mpr hd
  induction fuel generalizing idx with
  | zero => omega
  | succ fuel ih =>
    unfold skipSolid
    simp only [substr_ok _ hi, bind_ok]
    by_cases e : ((s.drop idx).take d.length == d) = true
    · have e' : (s.drop idx).take d.length = d := by simpa using e
      have hl : d.length ≤ s.length - idx := by
        have := congrArg List.length e'
        simp only [List.length_take, List.length_drop] at this
        omega
      have hw : wadd idx d.length = idx + d.length := wadd_eq (by omega)
      obtain ⟨r, e1, h1, h2, m, hm⟩ := ih (idx + d.length) (by omega) (by omega)
      simp only [e, if_true, hw, e1]
      refine ⟨r, rfl, by omega, h2, m + 1, ?_⟩
      have : r - idx = d.length + (r - (idx + d.length)) := by omega
      rw [this, List.take_add, e', List.drop_drop, hm]
      rfl
    · simp only [e, pure_eq_ok]
      exact ⟨idx, rfl, Nat.le_refl _, hi, 0, by simp [repeatStr]⟩

/-- what the solid loop entered at `index` returns -/
structure SolidPost (s d : Str) (ae : Bool) (index : Nat) (ts ss : List Str) : Prop where
  join : interleave ts ss = s.drop index
  count : ts.length = ss.length + 1
  seps : ∀ sp ∈ ss, (ae = true → sp = d) ∧ ∃ m, 0 < m ∧ sp = repeatStr d m
  toks : ∀ t ∈ ts, find d t = none

open Bpp.Text.Glob in
theorem solidLoop_rt (s d : Str) (ae : Bool) (hd : d ≠ []) (hs : StrOk s) (fuel index : Nat)
    (hi : index ≤ s.length) (hf : s.length - index + 1 ≤ fuel) :
    ∃ ts ss, solidLoop s d ae fuel index = .ok (ts, ss) ∧ SolidPost s d ae index ts ss := by
  have hsz := hs.lt_SZ
  have hdl : 0 < d.length := List.length_pos_iff.mpr hd
  induction fuel generalizing index with
  | zero => omega
  | succ fuel ih =>
    unfold solidLoop
    cases h : findFrom d s index with
    | none =>
      simp only [substrFrom_ok hi, bind_ok, pure_eq_ok]
      refine ⟨_, _, rfl, ⟨by simp [interleave], by simp, by simp, ?_⟩⟩
      intro t ht
      simp only [List.mem_singleton] at ht; subst ht
      unfold findFrom at h
      simp only [hi, if_true] at h
      cases h' : find d (s.drop index) with
      | none => rfl
      | some j => simp [h'] at h
    | some n =>
      have hb := findFrom_bounds h
      have hn : n ≤ s.length := by omega
      have hw : wsub n index = n - index := wsub_eq hb.1 (by omega)
      have hw1 : wadd n d.length = n + d.length := wadd_eq (by omega)
      -- what `find` found
      have hfound : (s.drop n).take d.length = d ∧ find d ((s.drop index).take (n - index)) = none := by
        unfold findFrom at h
        simp only [hi, if_true] at h
        cases h' : find d (s.drop index) with
        | none => simp [h'] at h
        | some j =>
          simp only [h', Option.map_some, Option.some.injEq] at h
          subst h
          obtain ⟨hp, _, _⟩ := find_some h'
          refine ⟨?_, ?_⟩
          · have := isPrefix_take hp
            rwa [List.drop_drop, Nat.add_comm] at this
          · simpa using find_take_none hd h'
      simp only [substr_ok _ hi, bind_ok, hw, hw1]
      have key : ∀ i', n + d.length ≤ i' → i' ≤ s.length →
          (∃ m, (s.drop (n + d.length)).take (i' - (n + d.length)) = repeatStr d m) →
          (ae = true → i' = n + d.length) →
          ∃ ts ss, (do
            let sp ← substr s n (wsub i' n)
            let (ts, ss) ← solidLoop s d ae fuel i'
            pure ((s.drop index).take (n - index) :: ts, sp :: ss) : R (List Str × List Str)) = .ok (ts, ss) ∧
            SolidPost s d ae index ts ss := by
        intro i' h1 h2 ⟨m, hm⟩ hae
        obtain ⟨ts, ss, e, post⟩ := ih i' h2 (by omega)
        have hw2 : wsub i' n = i' - n := wsub_eq (by omega) (by omega)
        simp only [substr_ok _ hn, bind_ok, e, pure_eq_ok, hw2]
        have hsp : (s.drop n).take (i' - n) = repeatStr d (m + 1) := by
          have : i' - n = d.length + (i' - (n + d.length)) := by omega
          rw [this, List.take_add, hfound.1, List.drop_drop, hm]
          rfl
        refine ⟨_, _, rfl, ⟨?_, by simp [post.count], ?_, ?_⟩⟩
        · simp only [interleave, post.join, List.append_assoc]
          rw [take_sub_append_drop s (show n ≤ i' by omega), take_sub_append_drop s hb.1]
        · intro sp hsp'
          rcases List.mem_cons.mp hsp' with rfl | hsp'
          · refine ⟨?_, m + 1, by omega, hsp⟩
            intro hae'
            have := hae hae'
            subst this
            simp only [Nat.add_sub_cancel_left]
            exact hfound.1
          · exact post.seps sp hsp'
        · intro t ht
          rcases List.mem_cons.mp ht with rfl | ht
          · exact hfound.2
          · exact post.toks t ht
      cases ae with
      | true =>
        simp only [Bool.not_true, Bool.false_eq_true, if_false, pure_eq_ok, bind_ok]
        exact key _ (Nat.le_refl _) hb.2 ⟨0, by simp [repeatStr]⟩ (fun _ => rfl)
      | false =>
        simp only [Bool.not_false, if_true]
        obtain ⟨r, e, h1, h2, m, hm⟩ := skipSolid_rt s d hd hs (s.length + 2) (n + d.length) hb.2 (by omega)
        simp only [e, bind_ok]
        exact key r h1 h2 ⟨m, hm⟩ (by intro h; cases h)


/-! ### `unparseRemainingTokens`, `nextToken` -/

theorem consumed_add (a b : Nat) (ts ss : List Str) (h : a ≤ ts.length) :
    consumed (a + b) ts ss = consumed a ts ss ++ consumed b (ts.drop a) (ss.drop a) := by
  induction a generalizing ts ss with
  | zero => simp [consumed]
  | succ a ih =>
    cases ts with
    | nil => simp at h
    | cons t ts =>
      simp only [List.length_cons, Nat.add_le_add_iff_right] at h
      have e : a + 1 + b = (a + b) + 1 := by omega
      cases ss with
      | nil =>
        have := ih ts [] h
        simp only [List.drop_nil] at this
        simp [e, consumed, this]
      | cons sp ss => simp [e, consumed, ih ts ss h]

theorem unparseLoop_eq (t : Tokenizer) (k i : Nat) (h1 : i + k ≤ t.tokens.length)
    (h2 : i + k ≤ t.splits.length) :
    t.unparseLoop k i = .ok (consumed k (t.tokens.drop i) (t.splits.drop i)) := by
  induction k generalizing i with
  | zero => simp [Tokenizer.unparseLoop, consumed]
  | succ k ih =>
    unfold Tokenizer.unparseLoop
    have a1 : i < t.tokens.length := by omega
    have a2 : i < t.splits.length := by omega
    simp only [vecAt_ok a1, vecAt_ok a2, bind_ok, ih (i + 1) (by omega) (by omega), pure_eq_ok]
    rw [List.drop_eq_getElem_cons a1, List.drop_eq_getElem_cons a2]
    simp [consumed]

theorem vecBack_eq_getLast {α : Type} (v : List α) (h : v ≠ []) : vecBack v = .ok (v.getLast h) := by
  induction v with
  | nil => exact absurd rfl h
  | cons x r ih =>
    cases r with
    | nil => rfl
    | cons b r' =>
      simp only [vecBack]
      rw [ih (by simp)]
      simp

/-- `unparseRemainingTokens()` when a token is left: the remaining tokens but the last, each with
its separator, then the last token -/
theorem unparse_eq (t : Tokenizer) (hwf : t.WF) (hp : t.pos < t.tokens.length) (hne : t.tokens ≠ []) :
    t.unparseRemainingTokens = .ok
      (consumed (t.tokens.length - (t.pos + 1)) (t.tokens.drop t.pos) (t.splits.drop t.pos)
        ++ t.tokens.getLast hne) := by
  unfold Tokenizer.unparseRemainingTokens
  rw [unparseLoop_eq t _ _ (by omega) (by have := hwf.splits; omega)]
  simp only [bind_ok, numberOfRemainingTokens_eq t hwf.pos_le hwf.size]
  have h : t.tokens.length - t.pos > 0 := by omega
  simp only [h, if_true, vecBack_eq_getLast _ hne, bind_ok, pure_eq_ok]

/-- … and when none is left -/
theorem unparse_at_end (t : Tokenizer) (hwf : t.WF) (hp : t.pos = t.tokens.length) :
    t.unparseRemainingTokens = .ok [] := by
  unfold Tokenizer.unparseRemainingTokens
  have e0 : t.tokens.length - (t.pos + 1) = 0 := by omega
  rw [e0]
  simp only [Tokenizer.unparseLoop, bind_ok, numberOfRemainingTokens_eq t hwf.pos_le hwf.size]
  have h : ¬ (t.tokens.length - t.pos > 0) := by omega
  simp [h, pure_eq_ok]

/-- the re-joined text is the unparsed text followed by the trailing separator, if any -/
theorem interleave_eq_unparse (ts ss : List Str) (hne : ts ≠ []) :
    interleave ts ss = consumed (ts.length - 1) ts ss ++ ts.getLast hne
      ++ (match ss.drop (ts.length - 1) with | [] => [] | sp :: _ => sp) := by
  have hl : 0 < ts.length := List.length_pos_iff.mpr hne
  rw [← consumed_append_interleave (ts.length - 1) ts ss (by omega)]
  have hd : ts.drop (ts.length - 1) = [ts.getLast hne] := by
    have := List.dropLast_concat_getLast hne
    conv => lhs; rw [← this]
    rw [List.drop_append_of_le_length (by simp)]
    simp
  rw [hd]
  cases ss.drop (ts.length - 1) with
  | nil => simp [interleave]
  | cons sp r => simp [interleave]

theorem advance_wf (t : Tokenizer) (hwf : t.WF) (k : Nat) (h : t.pos + k ≤ t.tokens.length) : (advance t k).WF :=
  ⟨h, hwf.splits, hwf.size⟩

/-- `k` calls of `nextToken()` return the next `k` tokens and move the cursor by `k` -/
theorem nextN_eq (k : Nat) (t : Tokenizer) (h : t.pos + k ≤ t.tokens.length) :
    nextN k t = .ok ((t.tokens.drop t.pos).take k, advance t k) := by
  induction k generalizing t with
  | zero => simp [nextN, advance]
  | succ k ih =>
    have hp : t.pos < t.tokens.length := by omega
    unfold nextN Tokenizer.nextToken Tokenizer.hasMoreToken
    simp only [hp, decide_true, Bool.not_true, Bool.false_eq_true, if_false, vecAt_ok hp, bind_ok, pure_eq_ok]
    rw [ih _ (by simp only; omega)]
    simp only [bind_ok, advance]
    have e : List.take (k + 1) (List.drop t.pos t.tokens)
        = t.tokens[t.pos] :: List.take k (List.drop (t.pos + 1) t.tokens) := by
      rw [List.drop_eq_getElem_cons hp, List.take_succ_cons]
    rw [e]
    simp [Nat.add_assoc, Nat.add_comm 1 k]

/-- … and the call after the last token raises -/
theorem nextToken_at_end (t : Tokenizer) (h : t.pos = t.tokens.length) : t.nextToken = .error .bpp := by
  unfold Tokenizer.nextToken Tokenizer.hasMoreToken
  simp [h]


/-! ### the constructor -/

theorem findFirstNotOf_zero (d s : Str) :
    findFirstNotOf d s 0 = findIdx (fun c => !inSet d c) s := by
  unfold findFirstNotOf findIdxFrom inSet
  simp only [List.drop_zero, Nat.add_zero]
  cases findIdx (fun c => !d.contains c) s <;> rfl

/-- the unparsed text of a fresh tokenizer with at least one token -/
theorem unparse_fresh (ts ss : List Str) (hne : ts ≠ []) (hwf : (⟨ts, ss, 0⟩ : Tokenizer).WF) :
    (⟨ts, ss, 0⟩ : Tokenizer).unparseRemainingTokens
      = .ok (consumed (ts.length - 1) ts ss ++ ts.getLast hne) := by
  have hl : 0 < ts.length := List.length_pos_iff.mpr hne
  have := unparse_eq ⟨ts, ss, 0⟩ hwf hl hne
  simpa using this

theorem wf_of_count (ts ss : List Str) (h : ts.length ≤ ss.length + 1) (h2 : ts.length < SZ) :
    (⟨ts, ss, 0⟩ : Tokenizer).WF := ⟨Nat.zero_le _, h, h2⟩

/-- **the round-trip law of the constructor**, all four option combinations -/
theorem mkTokenizer_rt (s d : Str) (solid ae : Bool) (hs : StrOk s) (T : Tokenizer)
    (h : mkTokenizer s d solid ae = .ok T) :
    ∃ u, T.unparseRemainingTokens = .ok u ∧ ctorRtOk s d solid ae T.tokens T.splits u = true := by
  have hsz := hs.lt_SZ
  obtain ⟨hwf, hpos⟩ : T.WF ∧ T.pos = 0 := by
    rcases mkTokenizer_spec s d solid ae hs with e | ⟨t', e, h1, h2, _⟩
    · rw [e] at h; cases h
    · rw [e] at h; cases h; exact ⟨h1, h2⟩
  unfold mkTokenizer mkTokenizerG at h
  cases solid with
  | false =>
    simp only [Bool.not_false, if_true] at h
    rw [findFirstNotOf_zero] at h
    cases hf : findIdx (fun c => !inSet d c) s with
    | none =>
      rw [hf] at h
      simp only [Except.ok.injEq] at h
      subst h
      obtain ⟨h1, h2⟩ := dropWhile_of_findIdx_none hf
      refine ⟨[], rfl, ?_⟩
      cases ae <;> simp [ctorRtOk, unparseSpec, stripSet, dropLastSet, h1, h2, interleave]
    | some index =>
      rw [hf] at h
      obtain ⟨h1, h2⟩ := dropWhile_of_findIdx hf
      have hidx : index < s.length := findIdx_lt hf
      obtain ⟨ci, hci, hci'⟩ := findIdx_spec hf
      have hci'' : inSet d ci = false := by simpa using hci'
      obtain ⟨ts, ss, e, post⟩ := nsLoop_rt s d ae hs (loopFuel s) index (by omega) (by unfold loopFuel; omega)
      simp only [e, bind_ok, pure_eq_ok, Except.ok.injEq] at h
      subst h
      have hwf' : (⟨ts, ss, 0⟩ : Tokenizer).WF := hwf
      have hu := unparse_fresh ts ss post.ne hwf'
      refine ⟨_, hu, ?_⟩
      have hj := interleave_eq_unparse ts ss post.ne
      rw [post.join] at hj
      have hl : 0 < ts.length := List.length_pos_iff.mpr post.ne
      -- the unparsed text is what follows the leading delimiters, without the trailing ones
      have hspec : consumed (ts.length - 1) ts ss ++ ts.getLast post.ne = unparseSpec d false ae s := by
        rcases post.count with hc | ⟨hae, hc⟩
        · have hd : ss.drop (ts.length - 1) = [] := by
            apply List.drop_of_length_le; omega
          rw [hd] at hj
          simp only [List.append_nil] at hj
          cases ae with
          | true => simp [unparseSpec, h1, hj]
          | false =>
            simp only [unparseSpec, Bool.false_eq_true, if_false, stripSet, h1, hj]
            symm
            apply dropLastSet_self
            right
            have hlast := post.tokNe rfl ⟨ci, hci, hci''⟩ _ (List.getLast_mem post.ne)
            obtain ⟨X, x, hx, hxm⟩ := exists_snoc _ hlast
            refine ⟨consumed (ts.length - 1) ts ss ++ X, x, by rw [hx]; simp, ?_⟩
            exact post.toks _ (List.getLast_mem post.ne) x hxm
        · subst hae
          have hlt : ts.length - 1 < ss.length := by omega
          rw [List.drop_eq_getElem_cons hlt] at hj
          simp only at hj
          simp only [unparseSpec, Bool.false_eq_true, if_false, stripSet, h1, hj]
          symm
          apply dropLastSet_append_tail
          · exact (post.seps _ (List.getElem_mem hlt)).2.1
          · right
            have hlast := post.tokNe rfl ⟨ci, hci, hci''⟩ _ (List.getLast_mem post.ne)
            obtain ⟨X, x, hx, hxm⟩ := exists_snoc _ hlast
            refine ⟨consumed (ts.length - 1) ts ss ++ X, x, by rw [hx]; simp, ?_⟩
            exact post.toks _ (List.getLast_mem post.ne) x hxm
      simp only [ctorRtOk, Bool.false_eq_true, if_false, Bool.and_eq_true, beq_iff_eq, Bool.not_false,
        Bool.true_and, Bool.or_eq_true, List.all_eq_true]
      refine ⟨⟨⟨⟨?_, hspec⟩, ?_⟩, ?_⟩, ?_⟩
      · rw [h2, post.join, List.take_append_drop]
      · rcases post.count with hc | ⟨hae, hc⟩
        · left; left; exact hc
        · left; right; subst hae; exact ⟨rfl, hc⟩
      · intro t ht
        simp only [tokenOk, Bool.false_eq_true, if_false, Bool.and_eq_true, List.all_eq_true, Bool.or_eq_true,
          Bool.not_eq_true']
        refine ⟨fun c hc => post.toks t ht c hc, ?_⟩
        cases ae with
        | true => left; rfl
        | false =>
          right
          have := post.tokNe rfl ⟨ci, hci, hci''⟩ t ht
          cases t with
          | nil => exact absurd rfl this
          | cons _ _ => rfl
      · intro sp hsp
        obtain ⟨g1, g2, g3⟩ := post.seps sp hsp
        simp only [splitOk, Bool.false_eq_true, if_false, Bool.and_eq_true, List.all_eq_true, Bool.or_eq_true,
          Bool.not_eq_true', beq_iff_eq]
        refine ⟨⟨?_, g2⟩, ?_⟩
        · cases sp with
          | nil => exact absurd rfl g1
          | cons _ _ => rfl
        · cases ae with
          | true => right; exact g3 rfl
          | false => left; rfl
  | true =>
    simp only [Bool.not_true, Bool.false_eq_true, if_false, Bool.true_and] at h
    by_cases hd : d.isEmpty = true
    · simp [hd] at h
    · have hd' : d ≠ [] := by
        intro e0; rw [e0] at hd; simp at hd
      obtain ⟨ts, ss, e, post⟩ := solidLoop_rt s d ae hd' hs (loopFuel s) 0 (Nat.zero_le _)
        (by unfold loopFuel; omega)
      simp only [hd, Bool.false_eq_true, if_false, e, bind_ok, pure_eq_ok, Except.ok.injEq] at h
      subst h
      have hne : ts ≠ [] := by
        intro e0; have := post.count; rw [e0] at this; simp at this
      have hwf' : (⟨ts, ss, 0⟩ : Tokenizer).WF := hwf
      have hu := unparse_fresh ts ss hne hwf'
      refine ⟨_, hu, ?_⟩
      have hj := interleave_eq_unparse ts ss hne
      rw [post.join] at hj
      have hdr : ss.drop (ts.length - 1) = [] := by
        apply List.drop_of_length_le; have := post.count; omega
      rw [hdr] at hj
      simp only [List.drop_zero, List.append_nil] at hj
      simp only [ctorRtOk, if_true, Bool.and_eq_true, beq_iff_eq, Bool.or_eq_true, List.all_eq_true,
        List.nil_append]
      refine ⟨⟨⟨⟨?_, ?_⟩, ?_⟩, ?_⟩, ?_⟩
      · simpa using post.join
      · simp [unparseSpec, hj]
      · left; left; exact post.count
      · intro t ht
        simp [tokenOk, post.toks t ht]
      · intro sp hsp
        obtain ⟨g1, m, hm, g2⟩ := post.seps sp hsp
        cases ae with
        | true => simp [splitOk, g1 rfl]
        | false =>
          simp only [splitOk, if_true, Bool.false_eq_true, if_false]
          rw [g2]; exact isRepeat_repeatStr d hd' m hm


/-- **unparse after `k` tokens were read** (any well-formed tokenizer with the cursor at 0) -/
theorem advance_rt (T : Tokenizer) (hwf : T.WF) (hpos : T.pos = 0) (k : Nat) (hk : k ≤ T.tokens.length) :
    ∃ u0 uk, T.unparseRemainingTokens = .ok u0 ∧ (advance T k).unparseRemainingTokens = .ok uk ∧
      advanceRtOk T.tokens T.splits k u0 uk = true := by
  obtain ⟨ts, ss, p⟩ := T
  simp only at hpos hk; subst hpos
  rcases Nat.lt_or_ge k ts.length with hlt | hge
  · have hne : ts ≠ [] := by intro e; rw [e] at hlt; simp at hlt
    have hwfk := advance_wf ⟨ts, ss, 0⟩ hwf k (by simpa using hk)
    have h0 := unparse_fresh ts ss hne hwf
    have hk' := unparse_eq (advance ⟨ts, ss, 0⟩ k) hwfk (by simpa [advance] using hlt) hne
    simp only [advance, Nat.zero_add] at hk'
    refine ⟨_, _, h0, by simpa [advance] using hk', ?_⟩
    simp only [advanceRtOk, hlt, if_true, beq_iff_eq]
    have e : ts.length - 1 = k + (ts.length - (k + 1)) := by omega
    rw [e, consumed_add k _ ts ss hk]
    simp
  · have hkk : k = ts.length := by omega
    subst hkk
    obtain ⟨u0, h0⟩ := unparse_ok ⟨ts, ss, 0⟩ hwf
    have hwfk := advance_wf ⟨ts, ss, 0⟩ hwf ts.length (by simp)
    have hk' := unparse_at_end (advance ⟨ts, ss, 0⟩ ts.length) hwfk (by simp [advance])
    refine ⟨u0, [], h0, hk', ?_⟩
    simp [advanceRtOk]


/-! ### totality of the constructor -/

/-- the constructor raises exactly when the mode is solid and the delimiter empty; otherwise it
returns (its loops end within their fuel, every `substr` is in range) -/
theorem mkTokenizer_error_iff (s d : Str) (solid ae : Bool) (hs : StrOk s) :
    mkTokenizer s d solid ae = .error .bpp ↔ (solid = true ∧ d = []) := by
  have hsz := hs.lt_SZ
  constructor
  · intro h
    unfold mkTokenizer mkTokenizerG at h
    cases solid with
    | false =>
      exfalso
      simp only [Bool.not_false, if_true] at h
      cases hf : findFirstNotOf d s 0 with
      | none => rw [hf] at h; cases h
      | some index =>
        rw [hf] at h
        have hb := findFirstNotOf_bounds hf
        obtain ⟨ts, ss, e, _⟩ := nsLoop_rt s d ae hs (loopFuel s) index (by omega) (by unfold loopFuel; omega)
        simp [e, pure_eq_ok] at h
    | true =>
      refine ⟨rfl, ?_⟩
      cases d with
      | nil => rfl
      | cons c r =>
        exfalso
        obtain ⟨ts, ss, e, _⟩ := solidLoop_rt s (c :: r) ae (by simp) hs (loopFuel s) 0 (Nat.zero_le _)
          (by unfold loopFuel; omega)
        simp [e, pure_eq_ok] at h
  · rintro ⟨rfl, rfl⟩
    rfl

theorem mkTokenizer_total (s d : Str) (solid ae : Bool) (hs : StrOk s) (h : ¬ (solid = true ∧ d = [])) :
    ∃ T, mkTokenizer s d solid ae = .ok T := by
  rcases mkTokenizer_spec s d solid ae hs with e | ⟨T, e, _⟩
  · exact absurd ((mkTokenizer_error_iff s d solid ae hs).mp e) h
  · exact ⟨T, e⟩

end Bpp.Text.RT
