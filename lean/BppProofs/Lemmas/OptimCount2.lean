import BppProofs.Lemmas.OptimCount
import BppModel.OptimMulti
/-!
Helper lemmas for C10: the evaluation budget in terms of the *calls of the objective*, for the optimisers
that are not built on a search along a direction: golden section, Brent, Newton backtracking, downhill
simplex — and the unfolding of a run of two steps used by the witness against `NewtonOneDimension`.

As in `OptimCount.lean` one pass over each `doStep` serves twice: `R a b k` reads "from the function `a`
to the function `b`, `k` calls were made" (`Tally I R`); with `R := fun _ _ _ => True` the lemmas give
`Monotone` (every scalar type, every function object), with `R a b k := calls b = calls a + k` the count.

* `gssDoStep_tally`: one call, the counter goes up by one (the loop's own increment comes on top: the
  golden section search counts two per step);
* `brentDoStep_tally`, `nbackDoStep_tally`: one call, the counter is not touched (the loop's own
  increment pays for it: the counter is exact);
* `simplexDoStep_tally`: `k` calls, the counter goes up by `k + j` (`j = nDim` after a contraction of
  the whole simplex, 0 otherwise);
* `gssOptimize_calls`, `brentOptimize_calls`, `simplexOptimize_calls`: the redefinitions of `optimize`
  make exactly one call after the template's loop;
* `optimize_two_steps`: a run of `optimize` that makes exactly two steps, unfolded;
* `Newton1dExample`: the data of the run of `NewtonOneDimension` that exceeds its cap
  (known finding C10-counter-undercount).
-/
set_option linter.unusedSectionVars false
namespace Bpp.Optim
open Bpp

section tally
variable {α : Type} [Scalar α] {G : Type} {I : FunI G α} {R : G → G → Nat → Prop}

/-! ### the evaluation step -/

theorem eval0_tally (ht : Tally I R) {fn fn' : G} {pl pl' : PList α} {x v : α}
    (h : eval0 I fn pl x = .ok (fn', pl', v)) : R fn fn' 1 := by
  unfold eval0 at h
  split at h
  · cases h
  · split at h
    · cases h
    · rename_i fn1 v1 hf
      simp only [Except.ok.injEq, Prod.mk.injEq] at h
      obtain ⟨rfl, -, -⟩ := h
      exact ht.f_ok _ _ _ _ hf

theorem evalOwn_tally {τ : Type} (ht : Tally I R) {s s' : St G τ α} {x v : α} (h : evalOwn I s x = .ok (s', v)) :
    R s.fn s'.fn 1 ∧ s'.core.nbEval = s.core.nbEval ∧ s'.core.nbEvalMax = s.core.nbEvalMax ∧ s'.ext = s.ext := by
  unfold evalOwn at h
  split at h
  · cases h
  · rename_i fn pl v1 he
    simp only [Except.ok.injEq, Prod.mk.injEq] at h
    obtain ⟨rfl, -⟩ := h
    exact ⟨eval0_tally ht he, rfl, rfl, rfl⟩

/-! ### golden section search -/

theorem gssStop_keeps (s : St G (Gss α) α) :
    (gssStop s).1.fn = s.fn ∧ (gssStop s).1.core.params = s.core.params ∧
    (gssStop s).1.core.nbEval = s.core.nbEval ∧ (gssStop s).1.core.nbEvalMax = s.core.nbEvalMax := by
  unfold gssStop; dsimp only; split <;> exact ⟨rfl, rfl, rfl, rfl⟩

theorem gssPoll_keeps (s : St G (Gss α) α) :
    (gssPoll s).fn = s.fn ∧ (gssPoll s).core.params = s.core.params ∧
    (gssPoll s).core.nbEval = s.core.nbEval ∧ (gssPoll s).core.nbEvalMax = s.core.nbEvalMax := by
  unfold gssPoll
  split
  · have := gssStop_keeps s
    dsimp only
    exact this
  · exact ⟨rfl, rfl, rfl, rfl⟩

theorem gssProbe_tally (ht : Tally I R) {s s' : St G (Gss α) α} {x v : α} (h : gssProbe I s x = .ok (s', v)) :
    R s.fn s'.fn 1 ∧ s'.core.nbEval = s.core.nbEval ∧ s'.core.nbEvalMax = s.core.nbEvalMax := by
  unfold gssProbe at h
  split at h
  · cases h
  · rename_i pl hset
    try dsimp only at h
    have hp := gssPoll_keeps ({ s with core := { s.core with params := pl } } : St G (Gss α) α)
    generalize gssPoll ({ s with core := { s.core with params := pl } } : St G (Gss α) α) = sp at h hp
    dsimp only at hp
    split at h
    · cases h
    · rename_i fn1 v1 hf
      simp only [Except.ok.injEq, Prod.mk.injEq] at h
      obtain ⟨rfl, -⟩ := h
      have h1 := ht.f_ok _ _ _ _ hf
      rw [hp.1] at h1
      exact ⟨h1, hp.2.2.1, hp.2.2.2⟩

/-- a step of the golden section search: one call, and the counter goes up by one -/
theorem gssDoStep_tally (ht : Tally I R) (s s' : St G (Gss α) α) (v : α) (h : gssDoStep I s = .ok (s', v)) :
    R s.fn s'.fn 1 ∧ s'.core.nbEval = s.core.nbEval + 1 ∧ s'.core.nbEvalMax = s.core.nbEvalMax := by
  unfold gssDoStep at h
  try dsimp only at h
  split at h
  · split at h
    · cases h
    · rename_i sp v1 hpr
      simp only [Except.ok.injEq, Prod.mk.injEq] at h
      obtain ⟨rfl, -⟩ := h
      exact gssProbe_tally ht hpr
  · split at h
    · cases h
    · rename_i sp v1 hpr
      simp only [Except.ok.injEq, Prod.mk.injEq] at h
      obtain ⟨rfl, -⟩ := h
      exact gssProbe_tally ht hpr

theorem gssAlgo_monotone (I : FunI G α) (fuel : Nat) : Monotone (gssAlgo I fuel) :=
  ⟨fun s s' v h => by
      obtain ⟨-, hnb, hmax⟩ := gssDoStep_tally (tally_trivial I) s s' v h
      exact ⟨by omega, hmax⟩,
   fun s => ⟨(gssStop_keeps s).2.2.1, (gssStop_keeps s).2.2.2⟩⟩

/-! ### Brent -/

theorem brentStop_keeps (s : St G (Brent α) α) :
    (brentStop s).1.fn = s.fn ∧ (brentStop s).1.core.nbEval = s.core.nbEval ∧
    (brentStop s).1.core.nbEvalMax = s.core.nbEvalMax := by
  unfold brentStop; dsimp only; split <;> exact ⟨rfl, rfl, rfl⟩

/-- a step of Brent's method: one call, the counter is not touched -/
theorem brentDoStep_tally (ht : Tally I R) (s s' : St G (Brent α) α) (v : α) (h : brentDoStep I s = .ok (s', v)) :
    R s.fn s'.fn 1 ∧ s'.core.nbEval = s.core.nbEval ∧ s'.core.nbEvalMax = s.core.nbEvalMax := by
  unfold brentDoStep at h
  generalize brentPropose s.core.tolerance s.ext = pr at h
  obtain ⟨g1, u⟩ := pr
  try dsimp only at h
  split at h
  · cases h
  · split at h
    · cases h
    · rename_i fn fu hf
      split at h
      · cases h
      · simp only [Except.ok.injEq, Prod.mk.injEq] at h
        obtain ⟨rfl, -⟩ := h
        exact ⟨ht.f_ok _ _ _ _ hf, rfl, rfl⟩

theorem brentAlgo_monotone (I : FunI G α) (fuel : Nat) : Monotone (brentAlgo I fuel) :=
  ⟨fun s s' v h => by
      obtain ⟨-, hnb, hmax⟩ := brentDoStep_tally (tally_trivial I) s s' v h
      exact ⟨by omega, hmax⟩,
   fun s => ⟨(brentStop_keeps s).2.1, (brentStop_keeps s).2.2⟩⟩

/-! ### Newton backtracking -/

/-- a step of the Newton backtracking search: one call, the counter is not touched -/
theorem nbackDoStep_tally (ht : Tally I R) (s s' : St G (NBack α) α) (v : α) (h : nbackDoStep I s = .ok (s', v)) :
    R s.fn s'.fn 1 ∧ s'.core.nbEval = s.core.nbEval ∧ s'.core.nbEvalMax = s.core.nbEvalMax := by
  unfold nbackDoStep at h
  try dsimp only at h
  split at h
  · split at h
    · cases h
    · rename_i s1 v1 he
      simp only [Except.ok.injEq, Prod.mk.injEq] at h
      obtain ⟨rfl, -⟩ := h
      obtain ⟨h1, h2, h3, -⟩ := evalOwn_tally ht he
      exact ⟨h1, h2, h3⟩
  · split at h
    · cases h
    · rename_i s1 f he
      obtain ⟨h1, h2, h3, -⟩ := evalOwn_tally ht he
      split at h
      · simp only [Except.ok.injEq, Prod.mk.injEq] at h
        obtain ⟨rfl, -⟩ := h
        exact ⟨h1, h2, h3⟩
      · split at h
        · simp only [Except.ok.injEq, Prod.mk.injEq] at h
          obtain ⟨rfl, -⟩ := h
          exact ⟨h1, h2, h3⟩
        · simp only [Except.ok.injEq, Prod.mk.injEq] at h
          obtain ⟨rfl, -⟩ := h
          exact ⟨h1, h2, h3⟩

theorem nbackAlgo_monotone (I : FunI G α) : Monotone (nbackAlgo I) :=
  ⟨fun s s' v h => by
      obtain ⟨-, hnb, hmax⟩ := nbackDoStep_tally (tally_trivial I) s s' v h
      exact ⟨by omega, hmax⟩,
   fun _ => ⟨rfl, rfl⟩⟩

/-! ### downhill simplex -/

/-- `tryExtrapolation`: one call, counted -/
theorem tryExtrapolation_tally (ht : Tally I R) {s s' : St G (Simplex α) α} {fac v : α}
    (h : tryExtrapolation I s fac = .ok (s', v)) :
    R s.fn s'.fn 1 ∧ s'.core.nbEval = s.core.nbEval + 1 ∧ s'.core.nbEvalMax = s.core.nbEvalMax := by
  unfold tryExtrapolation at h
  try dsimp only at h
  split at h
  · split at h
    · cases h
    · split at h
      · cases h
      · rename_i fn yTry hf
        have h1 := ht.f_ok _ _ _ _ hf
        try dsimp only at h
        split at h
        · split at h
          · cases h
          · split at h
            · cases h
            · simp only [Except.ok.injEq, Prod.mk.injEq] at h
              obtain ⟨rfl, -⟩ := h
              exact ⟨h1, rfl, rfl⟩
        · simp only [Except.ok.injEq, Prod.mk.injEq] at h
          obtain ⟨rfl, -⟩ := h
          exact ⟨h1, rfl, rfl⟩
  · cases h

/-- the contraction of the whole simplex: every call is counted -/
theorem shrinkAll_tally (ht : Tally I R) : ∀ (is : List Nat) (s s' : St G (Simplex α) α),
    shrinkAll I is s = .ok s' →
    ∃ k, R s.fn s'.fn k ∧ s'.core.nbEval = s.core.nbEval + k ∧ s'.core.nbEvalMax = s.core.nbEvalMax := by
  intro is
  induction is with
  | nil =>
    intro s s' h
    rw [shrinkAll] at h
    simp only [Except.ok.injEq] at h
    subst h
    exact ⟨0, ht.refl _, rfl, rfl⟩
  | cons i r ih =>
    intro s s' h
    rw [shrinkAll] at h
    try dsimp only at h
    split at h
    · exact ih _ _ h
    · split at h
      · split at h
        · cases h
        · split at h
          · cases h
          · split at h
            · cases h
            · rename_i fn yi hf
              have h1 := ht.f_ok _ _ _ _ hf
              obtain ⟨k, hR, hnb, hmax⟩ := ih _ _ h
              dsimp only at hR hnb hmax
              exact ⟨1 + k, ht.trans _ _ _ _ _ h1 hR, by omega, hmax⟩
      · cases h

theorem simplexReport_keeps {s s' : St G (Simplex α) α} {iL : Nat} {v : α} (h : simplexReport s iL = (s', v)) :
    s'.fn = s.fn ∧ s'.core.nbEval = s.core.nbEval ∧ s'.core.nbEvalMax = s.core.nbEvalMax := by
  unfold simplexReport at h
  split at h <;> (simp only [Prod.mk.injEq] at h; obtain ⟨rfl, -⟩ := h; exact ⟨rfl, rfl, rfl⟩)

/-- a step of the downhill simplex method: `k` calls are made, `k + j` are added to the counter (every
evaluation is counted when it is made; a contraction of the whole simplex adds `nDim` on top) -/
theorem simplexDoStep_tally (ht : Tally I R) (s s' : St G (Simplex α) α) (v : α) (h : simplexDoStep I s = .ok (s', v)) :
    ∃ k j, R s.fn s'.fn k ∧ s'.core.nbEval = s.core.nbEval + k + j ∧ s'.core.nbEvalMax = s.core.nbEvalMax := by
  unfold simplexDoStep at h
  try dsimp only at h
  split at h
  · rename_i y0 y1 v0 _ _ _
    generalize rank s.ext.y _ _ = rk at h
    obtain ⟨iH, iN, iL⟩ := rk
    try dsimp only at h
    split at h
    · cases h
    · split at h
      · cases h
      · rename_i sa yTry h1
        obtain ⟨hR1, hnb1, hmax1⟩ := tryExtrapolation_tally ht h1
        dsimp only at hR1 hnb1 hmax1
        split at h
        · split at h
          · cases h
          · rename_i sb _ h2
            obtain ⟨hR2, hnb2, hmax2⟩ := tryExtrapolation_tally ht h2
            simp only [Except.ok.injEq] at h
            have hk := simplexReport_keeps h
            refine ⟨2, 0, ?_, ?_, ?_⟩
            · rw [hk.1]; exact ht.trans _ _ _ _ _ hR1 hR2
            · rw [hk.2.1]; omega
            · rw [hk.2.2, hmax2, hmax1]
        · split at h
          · try dsimp only at h
            split at h
            · cases h
            · rename_i sb yTry2 h2
              obtain ⟨hR2, hnb2, hmax2⟩ := tryExtrapolation_tally ht h2
              have hR12 := ht.trans _ _ _ _ _ hR1 hR2
              split at h
              · split at h
                · cases h
                · rename_i sc h3
                  obtain ⟨k, hR3, hnb3, hmax3⟩ := shrinkAll_tally ht _ _ _ h3
                  try dsimp only at h
                  split at h
                  · cases h
                  · simp only [Except.ok.injEq] at h
                    have hk := simplexReport_keeps h
                    dsimp only at hk
                    refine ⟨2 + k, v0.length, ?_, ?_, ?_⟩
                    · rw [hk.1]; exact ht.trans _ _ _ _ _ hR12 hR3
                    · rw [hk.2.1]; omega
                    · rw [hk.2.2, hmax3, hmax2, hmax1]
              · simp only [Except.ok.injEq] at h
                have hk := simplexReport_keeps h
                refine ⟨2, 0, ?_, ?_, ?_⟩
                · rw [hk.1]; exact hR12
                · rw [hk.2.1]; omega
                · rw [hk.2.2, hmax2, hmax1]
          · simp only [Except.ok.injEq] at h
            have hk := simplexReport_keeps h
            refine ⟨1, 0, ?_, ?_, ?_⟩
            · rw [hk.1]; exact hR1
            · rw [hk.2.1]; omega
            · rw [hk.2.2, hmax1]
  · cases h

theorem simplexAlgo_monotone (I : FunI G α) : Monotone (simplexAlgo I) :=
  ⟨fun s s' v h => by
      obtain ⟨k, j, -, hnb, hmax⟩ := simplexDoStep_tally (tally_trivial I) s s' v h
      exact ⟨by omega, hmax⟩,
   fun _ => ⟨rfl, rfl⟩⟩

/-! ### a run of exactly two steps, unfolded -/

variable {τ : Type}

theorem loop_of_not_guard (A : Algo G τ α) (s : St G τ α) (hg : ¬ Guard s) : ∀ fuel, A.loop fuel s = .ok s
  | 0 => by rw [loop_zero, if_neg hg]
  | fuel + 1 => by rw [loop_succ, if_neg hg]

/-- `optimize` on an initialised optimiser: the guard holds at the start (`s0`: counter 1, flag down) and
after the first step, no longer after the second -/
theorem optimize_two_steps (A : Algo G τ α) (s sa sc : St G τ α) (w1 w2 : α) (hi : s.core.initialized = true)
    (hg0 : Guard ({ s with core := { s.core with tol := false, nbEval := 1 } } : St G τ α))
    (h1 : A.step { s with core := { s.core with tol := false, nbEval := 1 } } = .ok (sa, w1))
    (hg1 : Guard (bump sa)) (h2 : A.step (bump sa) = .ok (sc, w2)) (hg2 : ¬ Guard (bump sc)) (k : Nat) :
    A.optimize (k + 2) s = .ok (bump sc, (bump sc).core.cur) := by
  unfold Algo.optimize
  rw [hi]
  simp only [Bool.not_true, Bool.false_eq_true, if_false]
  rw [loop_succ, if_pos hg0, h1]
  dsimp only
  rw [loop_succ, if_pos hg1, h2]
  dsimp only
  rw [loop_of_not_guard A _ hg2]

end tally

/-! ### the count -/

variable {F : Type} {I : FunI F ℝ} {calls : F → Nat}

/-- golden section: a step makes one call and counts it (the loop's increment comes on top) -/
theorem gssDoStep_calls (hc : Counts I calls) (s s' : St F (Gss ℝ) ℝ) (v : ℝ) (h : gssDoStep I s = .ok (s', v)) :
    calls s'.fn + s.core.nbEval = calls s.fn + s'.core.nbEval := by
  obtain ⟨hR, hnb, -⟩ := gssDoStep_tally (tally_counts hc) s s' v h
  have hR' : calls s'.fn = calls s.fn + 1 := hR
  omega

/-- Brent: a step makes one call and counts nothing -/
theorem brentDoStep_calls (hc : Counts I calls) (s s' : St F (Brent ℝ) ℝ) (v : ℝ) (h : brentDoStep I s = .ok (s', v)) :
    calls s'.fn + s.core.nbEval = calls s.fn + s'.core.nbEval + 1 := by
  obtain ⟨hR, hnb, -⟩ := brentDoStep_tally (tally_counts hc) s s' v h
  have hR' : calls s'.fn = calls s.fn + 1 := hR
  omega

/-- Newton backtracking: a step makes one call and counts nothing -/
theorem nbackDoStep_calls (hc : Counts I calls) (s s' : St F (NBack ℝ) ℝ) (v : ℝ) (h : nbackDoStep I s = .ok (s', v)) :
    calls s'.fn + s.core.nbEval = calls s.fn + s'.core.nbEval + 1 := by
  obtain ⟨hR, hnb, -⟩ := nbackDoStep_tally (tally_counts hc) s s' v h
  have hR' : calls s'.fn = calls s.fn + 1 := hR
  omega

/-- downhill simplex: a step counts every call it makes (and `nDim` more after a contraction) -/
theorem simplexDoStep_calls (hc : Counts I calls) (s s' : St F (Simplex ℝ) ℝ) (v : ℝ) (h : simplexDoStep I s = .ok (s', v)) :
    calls s'.fn + s.core.nbEval ≤ calls s.fn + s'.core.nbEval := by
  obtain ⟨k, j, hR, hnb, -⟩ := simplexDoStep_tally (tally_counts hc) s s' v h
  have hR' : calls s'.fn = calls s.fn + k := hR
  omega

/-- `GoldenSectionSearch::optimize` makes exactly one call after the template's loop -/
theorem gssOptimize_calls (hc : Counts I calls) (fuel : Nat) (s s' : St F (Gss ℝ) ℝ) (v : ℝ)
    (h : gssOptimize I fuel s = .ok (s', v)) :
    ∃ s1 v1, (gssAlgo I fuel).optimize fuel s = .ok (s1, v1) ∧ calls s'.fn = calls s1.fn + 1 ∧
      s'.core.nbEval = s1.core.nbEval ∧ s'.core.nbEvalMax = s1.core.nbEvalMax := by
  unfold gssOptimize at h
  split at h
  · cases h
  · rename_i s1 v1 ho
    try dsimp only at h
    split at h
    · cases h
    · rename_i s2 v2 he
      simp only [Except.ok.injEq, Prod.mk.injEq] at h
      obtain ⟨rfl, -⟩ := h
      obtain ⟨hR, hnb, hmax, -⟩ := evalOwn_tally (tally_counts hc) he
      exact ⟨s1, v1, ho, hR, hnb, hmax⟩

/-- `BrentOneDimension::optimize` makes exactly one call after the template's loop -/
theorem brentOptimize_calls (hc : Counts I calls) (fuel : Nat) (s s' : St F (Brent ℝ) ℝ) (v : ℝ)
    (h : brentOptimize I fuel s = .ok (s', v)) :
    ∃ s1 v1, (brentAlgo I fuel).optimize fuel s = .ok (s1, v1) ∧ calls s'.fn = calls s1.fn + 1 ∧
      s'.core.nbEval = s1.core.nbEval ∧ s'.core.nbEvalMax = s1.core.nbEvalMax := by
  unfold brentOptimize at h
  split at h
  · cases h
  · rename_i s1 v1 ho
    try dsimp only at h
    split at h
    · cases h
    · rename_i fn v2 hf
      simp only [Except.ok.injEq, Prod.mk.injEq] at h
      obtain ⟨rfl, -⟩ := h
      exact ⟨s1, v1, ho, hc.f_ok _ _ _ _ hf, rfl, rfl⟩

/-- `DownhillSimplexMethod::optimize` makes exactly one call after the template's loop -/
theorem simplexOptimize_calls (hc : Counts I calls) (fuel : Nat) (s s' : St F (Simplex ℝ) ℝ) (v : ℝ)
    (h : simplexOptimize I fuel s = .ok (s', v)) :
    ∃ s1 v1, (simplexAlgo I).optimize fuel s = .ok (s1, v1) ∧ calls s'.fn = calls s1.fn + 1 ∧ s'.core = s1.core := by
  unfold simplexOptimize at h
  split at h
  · cases h
  · rename_i s1 v1 ho
    try dsimp only at h
    split at h
    · cases h
    · split at h
      · cases h
      · rename_i fn v2 hf
        simp only [Except.ok.injEq, Prod.mk.injEq] at h
        obtain ⟨rfl, -⟩ := h
        exact ⟨s1, v1, ho, hc.f_ok _ _ _ _ hf, rfl⟩

/-! ### the run of `NewtonOneDimension` that exceeds its cap (known finding C10-counter-undercount)

The same program text at `Rat` (exact arithmetic; the transcendental functions of that instance are never
reached on this run): one free parameter at `3/5`, the double well `(x² - 1)²` with its true derivatives,
`nbEvalMax = 3`, `maxCorrection = 10`, tolerance 0.  At `3/5` the second derivative is small
(`12 x² - 4 = 8/25`), the Newton step `x - f'/f''` lands on `27/5` where the function is `≈ 793`; the
Felsenstein-Churchill loop halves the movement three times (`3`, `9/5`, `6/5`) before the value
(`121/625`) is below the one at the start (`256/625`).  Every correction is a `setParameters` (restore)
plus an evaluation, and none of them is counted: the first step makes `1 + 2·3 = 7` calls of the objective
and leaves the counter where it was; the loop's increment takes it to 2 `< 3`, so a second step begins
although the objective has been called 7 times since `optimize` began. -/
namespace Newton1dExample

def objective (pt : List Rat) : Rat :=
  (pt.getD 0 0 * pt.getD 0 0 - 1) * (pt.getD 0 0 * pt.getD 0 0 - 1)

def deriv : Deriv Rat :=
  { d1 := fun _ pt => 4 * pt.getD 0 0 * (pt.getD 0 0 * pt.getD 0 0 - 1),
    d2 := fun _ pt => 12 * pt.getD 0 0 * pt.getD 0 0 - 4 }

def params : PList Rat := [⟨0, ⟨3 / 5, 0, none, false⟩⟩]

/-- `NewtonOneDimension` with `setMaximumNumberOfEvaluations(3)`, on the function at `3/5` -/
def start : St (Fn Rat) (Newton1 Rat) Rat :=
  { core := freshCore 3 0 0, fn := ⟨[3 / 5], []⟩, ext := ⟨0, 10⟩ }

def algo : Algo (Fn Rat) (Newton1 Rat) Rat := newtonAlgo (Fn.iface objective deriv none)

/-- `init` returns (one call), the guard of the loop holds at the start of `optimize`, the first step
returns having made 7 calls without touching the counter, the guard holds again (counter 2, cap 3), the
second step returns, and the guard no longer holds -/
def check : Bool :=
  match algo.init start params with
  | .error _ => false
  | .ok s =>
    match algo.step { s with core := { s.core with tol := false, nbEval := 1 } } with
    | .error _ => false
    | .ok (sa, _) =>
      match algo.step (bump sa) with
      | .error _ => false
      | .ok (sc, _) =>
        s.core.initialized && decide (s.core.nbEvalMax = 3) && decide (s.fn.log.length = 1) &&
        decide (Guard ({ s with core := { s.core with tol := false, nbEval := 1 } } : St (Fn Rat) (Newton1 Rat) Rat)) &&
        decide (Guard (bump sa)) && decide ((bump sa).core.nbEval = 2) && decide ((bump sa).core.nbEvalMax = 3) &&
        decide ((bump sa).fn.log.length = 8) &&
        decide ((bump sa).fn.log = [[6 / 5], [3 / 5], [9 / 5], [3 / 5], [3], [3 / 5], [27 / 5], [3 / 5]]) &&
        !decide (Guard (bump sc))

theorem check_true : check = true := by decide +kernel

end Newton1dExample

end Bpp.Optim
