import BppProofs.Lemmas.OptimCount
import BppModel.OptimMulti
/-!
Helper lemmas for C10: the evaluation budget in terms of the *calls of the objective*, for the optimisers
that are not built on a search along a direction: golden section, Brent, Newton backtracking, downhill
simplex — and the unfolding of a run of two steps used by the witness against `NewtonOneDimension`.

As in `OptimCount.lean` one pass over each `doStep` serves twice: `R a b k` reads "from the function `a`
to the function `b`, `k` calls were made" (`Tally I R`); with `R := fun _ _ _ => True` the lemmas give
`Monotone` (every scalar type, every function object), with `R a b k := calls b = calls a + k` the count.

* `gssDoStep_tally`: one call, the counter goes up by one (the loop's own increment comes on top: the
  golden section search counts two per step);
* `brentDoStep_tally`, `nbackDoStep_tally`: one call, the counter is not touched (the loop's own
  increment pays for it: the counter is exact);
* `simplexDoStep_tally`: `k` calls, the counter goes up by `k + j` (`j = nDim` after a contraction of
  the whole simplex, 0 otherwise);
* `gssOptimize_calls`, `brentOptimize_calls`, `simplexOptimize_calls`: the redefinitions of `optimize`
  make exactly one call after the template's loop;
* `optimize_two_steps`: a run of `optimize` that makes exactly two steps, unfolded;
* `Newton1dExample`: the data of the run of `NewtonOneDimension` that exceeds its cap
  (known finding C10-counter-undercount), in exact `Rat` arithmetic (`check_true`, by the kernel);
* `oneP_*`, `newtonCorrect_reject/accept`, `newton_step_one`, `Newton1dReal.run`: the same run over `ℝ`.
-/
set_option linter.unusedSectionVars false
namespace Bpp.Optim
open Bpp

section tally
variable {α : Type} [Scalar α] {G : Type} {I : FunI G α} {R : G → G → Nat → Prop}

/-! ### the evaluation step -/

theorem eval0_tally (ht : Tally I R) {fn fn' : G} {pl pl' : PList α} {x v : α}
    (h : eval0 I fn pl x = .ok (fn', pl', v)) : R fn fn' 1 := by
  unfold eval0 at h
  split at h
  · cases h
  · split at h
    · cases h
    · rename_i fn1 v1 hf
      simp only [Except.ok.injEq, Prod.mk.injEq] at h
      obtain ⟨rfl, -, -⟩ := h
      exact ht.f_ok _ _ _ _ hf

theorem evalOwn_tally {τ : Type} (ht : Tally I R) {s s' : St G τ α} {x v : α} (h : evalOwn I s x = .ok (s', v)) :
    R s.fn s'.fn 1 ∧ s'.core.nbEval = s.core.nbEval ∧ s'.core.nbEvalMax = s.core.nbEvalMax ∧ s'.ext = s.ext := by
  unfold evalOwn at h
  split at h
  · cases h
  · rename_i fn pl v1 he
    simp only [Except.ok.injEq, Prod.mk.injEq] at h
    obtain ⟨rfl, -⟩ := h
    exact ⟨eval0_tally ht he, rfl, rfl, rfl⟩

/-! ### golden section search -/

theorem gssStop_keeps (s : St G (Gss α) α) :
    (gssStop s).1.fn = s.fn ∧ (gssStop s).1.core.params = s.core.params ∧
    (gssStop s).1.core.nbEval = s.core.nbEval ∧ (gssStop s).1.core.nbEvalMax = s.core.nbEvalMax := by
  unfold gssStop; dsimp only; split <;> exact ⟨rfl, rfl, rfl, rfl⟩

theorem gssPoll_keeps (s : St G (Gss α) α) :
    (gssPoll s).fn = s.fn ∧ (gssPoll s).core.params = s.core.params ∧
    (gssPoll s).core.nbEval = s.core.nbEval ∧ (gssPoll s).core.nbEvalMax = s.core.nbEvalMax := by
  unfold gssPoll
  split
  · have := gssStop_keeps s
    dsimp only
    exact this
  · exact ⟨rfl, rfl, rfl, rfl⟩

theorem gssProbe_tally (ht : Tally I R) {s s' : St G (Gss α) α} {x v : α} (h : gssProbe I s x = .ok (s', v)) :
    R s.fn s'.fn 1 ∧ s'.core.nbEval = s.core.nbEval ∧ s'.core.nbEvalMax = s.core.nbEvalMax := by
  unfold gssProbe at h
  split at h
  · cases h
  · rename_i pl hset
    try dsimp only at h
    have hp := gssPoll_keeps ({ s with core := { s.core with params := pl } } : St G (Gss α) α)
    generalize gssPoll ({ s with core := { s.core with params := pl } } : St G (Gss α) α) = sp at h hp
    dsimp only at hp
    split at h
    · cases h
    · rename_i fn1 v1 hf
      simp only [Except.ok.injEq, Prod.mk.injEq] at h
      obtain ⟨rfl, -⟩ := h
      have h1 := ht.f_ok _ _ _ _ hf
      rw [hp.1] at h1
      exact ⟨h1, hp.2.2.1, hp.2.2.2⟩

/-- a step of the golden section search: one call, and the counter goes up by one -/
theorem gssDoStep_tally (ht : Tally I R) (s s' : St G (Gss α) α) (v : α) (h : gssDoStep I s = .ok (s', v)) :
    R s.fn s'.fn 1 ∧ s'.core.nbEval = s.core.nbEval + 1 ∧ s'.core.nbEvalMax = s.core.nbEvalMax := by
  unfold gssDoStep at h
  try dsimp only at h
  split at h
  · split at h
    · cases h
    · rename_i sp v1 hpr
      simp only [Except.ok.injEq, Prod.mk.injEq] at h
      obtain ⟨rfl, -⟩ := h
      exact gssProbe_tally ht hpr
  · split at h
    · cases h
    · rename_i sp v1 hpr
      simp only [Except.ok.injEq, Prod.mk.injEq] at h
      obtain ⟨rfl, -⟩ := h
      exact gssProbe_tally ht hpr

theorem gssAlgo_monotone (I : FunI G α) (fuel : Nat) : Monotone (gssAlgo I fuel) :=
  ⟨fun s s' v h => by
      obtain ⟨-, hnb, hmax⟩ := gssDoStep_tally (tally_trivial I) s s' v h
      exact ⟨by omega, hmax⟩,
   fun s => ⟨(gssStop_keeps s).2.2.1, (gssStop_keeps s).2.2.2⟩⟩

/-! ### Brent -/

theorem brentStop_keeps (s : St G (Brent α) α) :
    (brentStop s).1.fn = s.fn ∧ (brentStop s).1.core.nbEval = s.core.nbEval ∧
    (brentStop s).1.core.nbEvalMax = s.core.nbEvalMax := by
  unfold brentStop; dsimp only; split <;> exact ⟨rfl, rfl, rfl⟩

/-- a step of Brent's method: one call, the counter is not touched -/
theorem brentDoStep_tally (ht : Tally I R) (s s' : St G (Brent α) α) (v : α) (h : brentDoStep I s = .ok (s', v)) :
    R s.fn s'.fn 1 ∧ s'.core.nbEval = s.core.nbEval ∧ s'.core.nbEvalMax = s.core.nbEvalMax := by
  unfold brentDoStep at h
  generalize brentPropose s.core.tolerance s.ext = pr at h
  obtain ⟨g1, u⟩ := pr
  try dsimp only at h
  split at h
  · cases h
  · split at h
    · cases h
    · rename_i fn fu hf
      split at h
      · cases h
      · simp only [Except.ok.injEq, Prod.mk.injEq] at h
        obtain ⟨rfl, -⟩ := h
        exact ⟨ht.f_ok _ _ _ _ hf, rfl, rfl⟩

theorem brentAlgo_monotone (I : FunI G α) (fuel : Nat) : Monotone (brentAlgo I fuel) :=
  ⟨fun s s' v h => by
      obtain ⟨-, hnb, hmax⟩ := brentDoStep_tally (tally_trivial I) s s' v h
      exact ⟨by omega, hmax⟩,
   fun s => ⟨(brentStop_keeps s).2.1, (brentStop_keeps s).2.2⟩⟩

/-! ### Newton backtracking -/

/-- a step of the Newton backtracking search: one call, the counter is not touched -/
theorem nbackDoStep_tally (ht : Tally I R) (s s' : St G (NBack α) α) (v : α) (h : nbackDoStep I s = .ok (s', v)) :
    R s.fn s'.fn 1 ∧ s'.core.nbEval = s.core.nbEval ∧ s'.core.nbEvalMax = s.core.nbEvalMax := by
  unfold nbackDoStep at h
  try dsimp only at h
  split at h
  · split at h
    · cases h
    · rename_i s1 v1 he
      simp only [Except.ok.injEq, Prod.mk.injEq] at h
      obtain ⟨rfl, -⟩ := h
      obtain ⟨h1, h2, h3, -⟩ := evalOwn_tally ht he
      exact ⟨h1, h2, h3⟩
  · split at h
    · cases h
    · rename_i s1 f he
      obtain ⟨h1, h2, h3, -⟩ := evalOwn_tally ht he
      split at h
      · simp only [Except.ok.injEq, Prod.mk.injEq] at h
        obtain ⟨rfl, -⟩ := h
        exact ⟨h1, h2, h3⟩
      · split at h
        · simp only [Except.ok.injEq, Prod.mk.injEq] at h
          obtain ⟨rfl, -⟩ := h
          exact ⟨h1, h2, h3⟩
        · simp only [Except.ok.injEq, Prod.mk.injEq] at h
          obtain ⟨rfl, -⟩ := h
          exact ⟨h1, h2, h3⟩

theorem nbackAlgo_monotone (I : FunI G α) : Monotone (nbackAlgo I) :=
  ⟨fun s s' v h => by
      obtain ⟨-, hnb, hmax⟩ := nbackDoStep_tally (tally_trivial I) s s' v h
      exact ⟨by omega, hmax⟩,
   fun _ => ⟨rfl, rfl⟩⟩

/-! ### downhill simplex -/

/-- `tryExtrapolation`: one call, counted -/
theorem tryExtrapolation_tally (ht : Tally I R) {s s' : St G (Simplex α) α} {fac v : α}
    (h : tryExtrapolation I s fac = .ok (s', v)) :
    R s.fn s'.fn 1 ∧ s'.core.nbEval = s.core.nbEval + 1 ∧ s'.core.nbEvalMax = s.core.nbEvalMax := by
  unfold tryExtrapolation at h
  try dsimp only at h
  split at h
  · split at h
    · cases h
    · split at h
      · cases h
      · rename_i fn yTry hf
        have h1 := ht.f_ok _ _ _ _ hf
        try dsimp only at h
        split at h
        · split at h
          · cases h
          · split at h
            · cases h
            · simp only [Except.ok.injEq, Prod.mk.injEq] at h
              obtain ⟨rfl, -⟩ := h
              exact ⟨h1, rfl, rfl⟩
        · simp only [Except.ok.injEq, Prod.mk.injEq] at h
          obtain ⟨rfl, -⟩ := h
          exact ⟨h1, rfl, rfl⟩
  · cases h

/-- the contraction of the whole simplex: every call is counted -/
theorem shrinkAll_tally (ht : Tally I R) : ∀ (is : List Nat) (s s' : St G (Simplex α) α),
    shrinkAll I is s = .ok s' →
    ∃ k, R s.fn s'.fn k ∧ s'.core.nbEval = s.core.nbEval + k ∧ s'.core.nbEvalMax = s.core.nbEvalMax := by
  intro is
  induction is with
  | nil =>
    intro s s' h
    rw [shrinkAll] at h
    simp only [Except.ok.injEq] at h
    subst h
    exact ⟨0, ht.refl _, rfl, rfl⟩
  | cons i r ih =>
    intro s s' h
    rw [shrinkAll] at h
    try dsimp only at h
    split at h
    · exact ih _ _ h
    · split at h
      · split at h
        · cases h
        · split at h
          · cases h
          · split at h
            · cases h
            · rename_i fn yi hf
              have h1 := ht.f_ok _ _ _ _ hf
              obtain ⟨k, hR, hnb, hmax⟩ := ih _ _ h
              dsimp only at hR hnb hmax
              exact ⟨1 + k, ht.trans _ _ _ _ _ h1 hR, by omega, hmax⟩
      · cases h

theorem simplexReport_keeps {s s' : St G (Simplex α) α} {iL : Nat} {v : α} (h : simplexReport s iL = (s', v)) :
    s'.fn = s.fn ∧ s'.core.nbEval = s.core.nbEval ∧ s'.core.nbEvalMax = s.core.nbEvalMax := by
  unfold simplexReport at h
  split at h <;> (simp only [Prod.mk.injEq] at h; obtain ⟨rfl, -⟩ := h; exact ⟨rfl, rfl, rfl⟩)

/-- a step of the downhill simplex method: `k` calls are made, `k + j` are added to the counter (every
evaluation is counted when it is made; a contraction of the whole simplex adds `nDim` on top) -/
theorem simplexDoStep_tally (ht : Tally I R) (s s' : St G (Simplex α) α) (v : α) (h : simplexDoStep I s = .ok (s', v)) :
    ∃ k j, R s.fn s'.fn k ∧ s'.core.nbEval = s.core.nbEval + k + j ∧ s'.core.nbEvalMax = s.core.nbEvalMax := by
  unfold simplexDoStep at h
  try dsimp only at h
  split at h
  · rename_i y0 y1 v0 _ _ _
    generalize rank s.ext.y _ _ = rk at h
    obtain ⟨iH, iN, iL⟩ := rk
    try dsimp only at h
    split at h
    · cases h
    · split at h
      · cases h
      · rename_i sa yTry h1
        obtain ⟨hR1, hnb1, hmax1⟩ := tryExtrapolation_tally ht h1
        dsimp only at hR1 hnb1 hmax1
        split at h
        · split at h
          · cases h
          · rename_i sb _ h2
            obtain ⟨hR2, hnb2, hmax2⟩ := tryExtrapolation_tally ht h2
            simp only [Except.ok.injEq] at h
            have hk := simplexReport_keeps h
            refine ⟨2, 0, ?_, ?_, ?_⟩
            · rw [hk.1]; exact ht.trans _ _ _ _ _ hR1 hR2
            · rw [hk.2.1]; omega
            · rw [hk.2.2, hmax2, hmax1]
        · split at h
          · try dsimp only at h
            split at h
            · cases h
            · rename_i sb yTry2 h2
              obtain ⟨hR2, hnb2, hmax2⟩ := tryExtrapolation_tally ht h2
              have hR12 := ht.trans _ _ _ _ _ hR1 hR2
              split at h
              · split at h
                · cases h
                · rename_i sc h3
                  obtain ⟨k, hR3, hnb3, hmax3⟩ := shrinkAll_tally ht _ _ _ h3
                  try dsimp only at h
                  split at h
                  · cases h
                  · simp only [Except.ok.injEq] at h
                    have hk := simplexReport_keeps h
                    dsimp only at hk
                    refine ⟨2 + k, v0.length, ?_, ?_, ?_⟩
                    · rw [hk.1]; exact ht.trans _ _ _ _ _ hR12 hR3
                    · rw [hk.2.1]; omega
                    · rw [hk.2.2, hmax3, hmax2, hmax1]
              · simp only [Except.ok.injEq] at h
                have hk := simplexReport_keeps h
                refine ⟨2, 0, ?_, ?_, ?_⟩
                · rw [hk.1]; exact hR12
                · rw [hk.2.1]; omega
                · rw [hk.2.2, hmax2, hmax1]
          · simp only [Except.ok.injEq] at h
            have hk := simplexReport_keeps h
            refine ⟨1, 0, ?_, ?_, ?_⟩
            · rw [hk.1]; exact hR1
            · rw [hk.2.1]; omega
            · rw [hk.2.2, hmax1]
  · cases h

theorem simplexAlgo_monotone (I : FunI G α) : Monotone (simplexAlgo I) :=
  ⟨fun s s' v h => by
      obtain ⟨k, j, -, hnb, hmax⟩ := simplexDoStep_tally (tally_trivial I) s s' v h
      exact ⟨by omega, hmax⟩,
   fun _ => ⟨rfl, rfl⟩⟩

/-! ### a run of exactly two steps, unfolded -/

variable {τ : Type}

theorem loop_of_not_guard (A : Algo G τ α) (s : St G τ α) (hg : ¬ Guard s) : ∀ fuel, A.loop fuel s = .ok s
  | 0 => by rw [loop_zero, if_neg hg]
  | fuel + 1 => by rw [loop_succ, if_neg hg]

/-- `optimize` on an initialised optimiser: the guard holds at the start (`s0`: counter 1, flag down) and
after the first step, no longer after the second -/
theorem optimize_two_steps (A : Algo G τ α) (s sa sc : St G τ α) (w1 w2 : α) (hi : s.core.initialized = true)
    (hg0 : Guard ({ s with core := { s.core with tol := false, nbEval := 1 } } : St G τ α))
    (h1 : A.step { s with core := { s.core with tol := false, nbEval := 1 } } = .ok (sa, w1))
    (hg1 : Guard (bump sa)) (h2 : A.step (bump sa) = .ok (sc, w2)) (hg2 : ¬ Guard (bump sc)) (k : Nat) :
    A.optimize (k + 2) s = .ok (bump sc, (bump sc).core.cur) := by
  unfold Algo.optimize
  rw [hi]
  simp only [Bool.not_true, Bool.false_eq_true, if_false]
  rw [loop_succ, if_pos hg0, h1]
  dsimp only
  rw [loop_succ, if_pos hg1, h2]
  dsimp only
  rw [loop_of_not_guard A _ hg2]

end tally

/-! ### the count -/

variable {F : Type} {I : FunI F ℝ} {calls : F → Nat}

/-- golden section: a step makes one call and counts it (the loop's increment comes on top) -/
theorem gssDoStep_calls (hc : Counts I calls) (s s' : St F (Gss ℝ) ℝ) (v : ℝ) (h : gssDoStep I s = .ok (s', v)) :
    calls s'.fn + s.core.nbEval = calls s.fn + s'.core.nbEval := by
  obtain ⟨hR, hnb, -⟩ := gssDoStep_tally (tally_counts hc) s s' v h
  have hR' : calls s'.fn = calls s.fn + 1 := hR
  omega

/-- Brent: a step makes one call and counts nothing -/
theorem brentDoStep_calls (hc : Counts I calls) (s s' : St F (Brent ℝ) ℝ) (v : ℝ) (h : brentDoStep I s = .ok (s', v)) :
    calls s'.fn + s.core.nbEval = calls s.fn + s'.core.nbEval + 1 := by
  obtain ⟨hR, hnb, -⟩ := brentDoStep_tally (tally_counts hc) s s' v h
  have hR' : calls s'.fn = calls s.fn + 1 := hR
  omega

/-- Newton backtracking: a step makes one call and counts nothing -/
theorem nbackDoStep_calls (hc : Counts I calls) (s s' : St F (NBack ℝ) ℝ) (v : ℝ) (h : nbackDoStep I s = .ok (s', v)) :
    calls s'.fn + s.core.nbEval = calls s.fn + s'.core.nbEval + 1 := by
  obtain ⟨hR, hnb, -⟩ := nbackDoStep_tally (tally_counts hc) s s' v h
  have hR' : calls s'.fn = calls s.fn + 1 := hR
  omega

/-- downhill simplex: a step counts every call it makes (and `nDim` more after a contraction) -/
theorem simplexDoStep_calls (hc : Counts I calls) (s s' : St F (Simplex ℝ) ℝ) (v : ℝ) (h : simplexDoStep I s = .ok (s', v)) :
    calls s'.fn + s.core.nbEval ≤ calls s.fn + s'.core.nbEval := by
  obtain ⟨k, j, hR, hnb, -⟩ := simplexDoStep_tally (tally_counts hc) s s' v h
  have hR' : calls s'.fn = calls s.fn + k := hR
  omega

/-- `GoldenSectionSearch::optimize` makes exactly one call after the template's loop -/
theorem gssOptimize_calls (hc : Counts I calls) (fuel : Nat) (s s' : St F (Gss ℝ) ℝ) (v : ℝ)
    (h : gssOptimize I fuel s = .ok (s', v)) :
    ∃ s1 v1, (gssAlgo I fuel).optimize fuel s = .ok (s1, v1) ∧ calls s'.fn = calls s1.fn + 1 ∧
      s'.core.nbEval = s1.core.nbEval ∧ s'.core.nbEvalMax = s1.core.nbEvalMax := by
  unfold gssOptimize at h
  split at h
  · cases h
  · rename_i s1 v1 ho
    try dsimp only at h
    split at h
    · cases h
    · rename_i s2 v2 he
      simp only [Except.ok.injEq, Prod.mk.injEq] at h
      obtain ⟨rfl, -⟩ := h
      obtain ⟨hR, hnb, hmax, -⟩ := evalOwn_tally (tally_counts hc) he
      exact ⟨s1, v1, ho, hR, hnb, hmax⟩

/-- `BrentOneDimension::optimize` makes exactly one call after the template's loop -/
theorem brentOptimize_calls (hc : Counts I calls) (fuel : Nat) (s s' : St F (Brent ℝ) ℝ) (v : ℝ)
    (h : brentOptimize I fuel s = .ok (s', v)) :
    ∃ s1 v1, (brentAlgo I fuel).optimize fuel s = .ok (s1, v1) ∧ calls s'.fn = calls s1.fn + 1 ∧
      s'.core.nbEval = s1.core.nbEval ∧ s'.core.nbEvalMax = s1.core.nbEvalMax := by
  unfold brentOptimize at h
  split at h
  · cases h
  · rename_i s1 v1 ho
    try dsimp only at h
    split at h
    · cases h
    · rename_i fn v2 hf
      simp only [Except.ok.injEq, Prod.mk.injEq] at h
      obtain ⟨rfl, -⟩ := h
      exact ⟨s1, v1, ho, hc.f_ok _ _ _ _ hf, rfl, rfl⟩

/-- `DownhillSimplexMethod::optimize` makes exactly one call after the template's loop -/
theorem simplexOptimize_calls (hc : Counts I calls) (fuel : Nat) (s s' : St F (Simplex ℝ) ℝ) (v : ℝ)
    (h : simplexOptimize I fuel s = .ok (s', v)) :
    ∃ s1 v1, (simplexAlgo I).optimize fuel s = .ok (s1, v1) ∧ calls s'.fn = calls s1.fn + 1 ∧ s'.core = s1.core := by
  unfold simplexOptimize at h
  split at h
  · cases h
  · rename_i s1 v1 ho
    try dsimp only at h
    split at h
    · cases h
    · split at h
      · cases h
      · rename_i fn v2 hf
        simp only [Except.ok.injEq, Prod.mk.injEq] at h
        obtain ⟨rfl, -⟩ := h
        exact ⟨s1, v1, ho, hc.f_ok _ _ _ _ hf, rfl⟩

/-! ### the run of `NewtonOneDimension` that exceeds its cap (known finding C10-counter-undercount)

The same program text at `Rat` (exact arithmetic; the transcendental functions of that instance are never
reached on this run): one free parameter at `3/5`, the double well `(x² - 1)²` with its true derivatives,
`nbEvalMax = 3`, `maxCorrection = 10`, tolerance 0.  At `3/5` the second derivative is small
(`12 x² - 4 = 8/25`), the Newton step `x - f'/f''` lands on `27/5` where the function is `≈ 793`; the
Felsenstein-Churchill loop halves the movement three times (`3`, `9/5`, `6/5`) before the value
(`121/625`) is below the one at the start (`256/625`).  Every correction is a `setParameters` (restore)
plus an evaluation, and none of them is counted: the first step makes `1 + 2·3 = 7` calls of the objective
and leaves the counter where it was; the loop's increment takes it to 2 `< 3`, so a second step begins
although the objective has been called 7 times since `optimize` began. -/
namespace Newton1dExample

def objective (pt : List Rat) : Rat :=
  (pt.getD 0 0 * pt.getD 0 0 - 1) * (pt.getD 0 0 * pt.getD 0 0 - 1)

def deriv : Deriv Rat :=
  { d1 := fun _ pt => 4 * pt.getD 0 0 * (pt.getD 0 0 * pt.getD 0 0 - 1),
    d2 := fun _ pt => 12 * pt.getD 0 0 * pt.getD 0 0 - 4 }

def params : PList Rat := [⟨0, ⟨3 / 5, 0, none, false⟩⟩]

/-- `NewtonOneDimension` with `setMaximumNumberOfEvaluations(3)`, on the function at `3/5` -/
def start : St (Fn Rat) (Newton1 Rat) Rat :=
  { core := freshCore 3 0 0, fn := ⟨[3 / 5], []⟩, ext := ⟨0, 10⟩ }

def algo : Algo (Fn Rat) (Newton1 Rat) Rat := newtonAlgo (Fn.iface objective deriv none)

/-- `init` returns (one call), the guard of the loop holds at the start of `optimize`, the first step
returns having made 7 calls without touching the counter, the guard holds again (counter 2, cap 3), the
second step returns, and the guard no longer holds -/
def check : Bool :=
  match algo.init start params with
  | .error _ => false
  | .ok s =>
    match algo.step { s with core := { s.core with tol := false, nbEval := 1 } } with
    | .error _ => false
    | .ok (sa, _) =>
      match algo.step (bump sa) with
      | .error _ => false
      | .ok (sc, _) =>
        s.core.initialized && decide (s.core.nbEvalMax = 3) && decide (s.fn.log.length = 1) &&
        decide (Guard ({ s with core := { s.core with tol := false, nbEval := 1 } } : St (Fn Rat) (Newton1 Rat) Rat)) &&
        decide (Guard (bump sa)) && decide ((bump sa).core.nbEval = 2) && decide ((bump sa).core.nbEvalMax = 3) &&
        decide ((bump sa).fn.log.length = 8) &&
        decide ((bump sa).fn.log = [[6 / 5], [3 / 5], [9 / 5], [3 / 5], [3], [3 / 5], [27 / 5], [3 / 5]]) &&
        !decide (Guard (bump sc))

theorem check_true : check = true := by decide +kernel

end Newton1dExample

/-! ### the same run over `ℝ`

The witness above is the program text at `Rat`; the theorems of `Props/C10Budget*.lean` are about the text
at `ℝ`.  Here the same run is computed at `ℝ`, step by step: on a function of one variable and a list of one
free parameter named 0 (`oneP x`), an evaluation, a restoration and a `setValue` are computed by `oneP_f`,
`oneP_set`, `oneP_setValueAt`; `newtonCorrect_reject` / `newtonCorrect_accept` unfold one turn of the
Felsenstein-Churchill loop; `newton_step_one` is the template's `step` (tolerance 0: the stop condition never
fires). -/

section one
variable (obj : List ℝ → ℝ) (D : Deriv ℝ)

/-- the list of one free parameter, named 0, holding `x` -/
def oneP (x : ℝ) : PList ℝ := [⟨0, ⟨x, 0, none, false⟩⟩]

theorem oneP_f (x y : ℝ) (log : List (List ℝ)) :
    (Fn.iface obj D none).f ⟨[y], log⟩ (oneP x) = .ok (⟨[x], [x] :: log⟩, obj [x]) := by
  by_cases h : x = y
  · subst h; simp [Fn.iface, capped, Fn.f, Fn.setParameters, matchPoint, own, oneP]
  · have : x - y ≠ 0 := sub_ne_zero.2 h
    simp [Fn.iface, capped, Fn.f, Fn.setParameters, matchPoint, own, oneP, this]

theorem oneP_set (x y : ℝ) (log : List (List ℝ)) :
    (Fn.iface obj D none).setParameters ⟨[y], log⟩ (oneP x) = .ok ⟨[x], [x] :: log⟩ := by
  by_cases h : x = y
  · subst h; simp [Fn.iface, capped, Fn.setParameters, matchPoint, own, oneP]
  · have : x - y ≠ 0 := sub_ne_zero.2 h
    simp [Fn.iface, capped, Fn.setParameters, matchPoint, own, oneP, this]

theorem oneP_get (y : ℝ) (log : List (List ℝ)) : (Fn.iface obj D none).getParameters ⟨[y], log⟩ = oneP y := by
  simp [Fn.iface, Fn.params, oneP, List.range, List.range.loop]

theorem oneP_setValueAt (x y : ℝ) : setValueAt (oneP y) 0 x = .ok (oneP x) := by
  by_cases h : x = y
  · subst h; simp [setValueAt, oneP, Param.setValue, Param.setValueBase]
  · have : x - y ≠ 0 := sub_ne_zero.2 h
    simp [setValueAt, oneP, Param.setValue, Param.setValueBase, Param.accepts, this]


/-- a rejected trial: the previous point is restored (one call), the movement is halved, the function is
evaluated there (one call) -/
theorem newtonCorrect_reject (cur x0 m nv y z : ℝ) (maxc fuel count : Nat) (log : List (List ℝ))
    (h : cur < nv) (hc : count + 1 < maxc) :
    newtonCorrect (Fn.iface obj D none) cur x0 (oneP x0) maxc (fuel + 1) count ⟨[y], log⟩ (oneP z) m nv =
    newtonCorrect (Fn.iface obj D none) cur x0 (oneP x0) maxc fuel (count + 1)
      ⟨[x0 - m / 2], [x0 - m / 2] :: [x0] :: log⟩ (oneP (x0 - m / 2)) (m / 2) (obj [x0 - m / 2]) := by
  rw [newtonCorrect]
  rw [if_pos ((ScalarReal.gtb_iff _ _).2 h), oneP_set]
  dsimp only
  rw [if_neg (by omega)]
  simp only [ScalarReal.ofInt_eq, Int.cast_ofNat]
  rw [oneP_setValueAt]
  dsimp only
  rw [oneP_f]

/-- an accepted trial -/
theorem newtonCorrect_accept (cur x0 m nv : ℝ) (bck np : PList ℝ) (maxc fuel count : Nat) (fn : Fn ℝ) (h : nv ≤ cur) :
    newtonCorrect (Fn.iface obj D none) cur x0 bck maxc (fuel + 1) count fn np m nv = .ok (fn, some (np, nv)) := by
  rw [newtonCorrect]
  rw [if_neg (fun c => absurd ((ScalarReal.gtb_iff _ _).1 c) (not_lt.2 h))]


/-- the Newton movement at `x0` -/
noncomputable def newtonMove (k : Nat) (x0 : ℝ) : ℝ :=
  if D.d2 k [x0] ≤ 0 then -D.d1 k [x0] / D.d2 k [x0] else D.d1 k [x0] / D.d2 k [x0]

theorem newtonDoStep_one (s : St (Fn ℝ) (Newton1 ℝ) ℝ) (x0 : ℝ) (log : List (List ℝ))
    (hp : s.core.params = oneP x0) (hf : s.fn = ⟨[x0], log⟩) (fn : Fn ℝ) (pl : PList ℝ) (v : ℝ)
    (hc : newtonCorrect (Fn.iface obj D none) s.core.cur x0 (oneP x0) s.ext.maxCorrection (s.ext.maxCorrection + 1) 0
          ⟨[x0 - newtonMove D s.ext.param x0], [x0 - newtonMove D s.ext.param x0] :: log⟩
          (oneP (x0 - newtonMove D s.ext.param x0)) (newtonMove D s.ext.param x0)
          (obj [x0 - newtonMove D s.ext.param x0]) = .ok (fn, some (pl, v))) :
    newtonDoStep (Fn.iface obj D none) s = .ok ({ s with fn := fn, core := { s.core with params := pl } }, v) := by
  unfold newtonDoStep
  dsimp only
  have hv : value0 s.core.params = some x0 := by rw [hp]; rfl
  have hd1 : (Fn.iface obj D none).d1 s.fn s.ext.param = D.d1 s.ext.param [x0] := by rw [hf]; rfl
  have hd2 : (Fn.iface obj D none).d2 s.fn s.ext.param = D.d2 s.ext.param [x0] := by rw [hf]; rfl
  have hm : (if (!Scalar.eqb (if Scalar.leb (D.d2 s.ext.param [x0]) Scalar.zero = true then -D.d1 s.ext.param [x0] / D.d2 s.ext.param [x0]
        else D.d1 s.ext.param [x0] / D.d2 s.ext.param [x0]) (if Scalar.leb (D.d2 s.ext.param [x0]) Scalar.zero = true then -D.d1 s.ext.param [x0] / D.d2 s.ext.param [x0]
        else D.d1 s.ext.param [x0] / D.d2 s.ext.param [x0])) = true then Scalar.zero else (if Scalar.leb (D.d2 s.ext.param [x0]) Scalar.zero = true then -D.d1 s.ext.param [x0] / D.d2 s.ext.param [x0]
        else D.d1 s.ext.param [x0] / D.d2 s.ext.param [x0])) = newtonMove D s.ext.param x0 := by
    unfold newtonMove
    simp
  rw [hv, hd1, hd2, hm]
  dsimp only
  rw [hp, oneP_setValueAt]
  dsimp only
  rw [hf, oneP_f, oneP_get]
  dsimp only
  rw [hc]


/-- with tolerance 0 the `FunctionStopCondition` never reports that the tolerance is reached -/
theorem fscStop_tol0 {τ : Type} (s : St (Fn ℝ) τ ℝ) (h0 : s.core.tolerance = 0) : (fscStop s).2 = false := by
  unfold fscStop
  dsimp only
  split
  · rfl
  · rw [h0]
    simp

theorem fscStop_keeps_more {τ : Type} (s : St (Fn ℝ) τ ℝ) :
    (fscStop s).1.core.params = s.core.params ∧ (fscStop s).1.core.cur = s.core.cur ∧ (fscStop s).1.ext = s.ext ∧
    (fscStop s).1.core.tolerance = s.core.tolerance := by
  unfold fscStop; dsimp only; split <;> exact ⟨rfl, rfl, rfl, rfl⟩

/-- `step` computed forwards from `doStep`, for an optimiser whose stop condition is the
`FunctionStopCondition`, with tolerance 0 -/
theorem step_of_doStep_tol0 {τ : Type} (A : Algo (Fn ℝ) τ ℝ) (hstop : A.stop = fscStop) (s s1 : St (Fn ℝ) τ ℝ) (v : ℝ)
    (hd : A.doStep s = .ok (s1, v)) (ht : s1.core.tol = false) (h0 : s1.core.tolerance = 0) :
    ∃ sa, A.step s = .ok (sa, v) ∧ sa.fn = s1.fn ∧ sa.ext = s1.ext ∧ sa.core.params = s1.core.params ∧
      sa.core.nbEval = s1.core.nbEval ∧ sa.core.nbEvalMax = s1.core.nbEvalMax ∧ sa.core.tol = false ∧
      sa.core.tolerance = 0 ∧ sa.core.cur = v := by
  have hex : ∃ sa, A.step s = .ok (sa, v) := by
    unfold Algo.step
    rw [hd]
    dsimp only
    split
    · exact ⟨_, rfl⟩
    · exact ⟨_, rfl⟩
  obtain ⟨sa, hsa⟩ := hex
  obtain ⟨s1', hd', hc⟩ := step_cases A s hsa
  rw [hd] at hd'
  simp only [Except.ok.injEq, Prod.mk.injEq, and_true] at hd'
  subst hd'
  rcases hc with ⟨htt, -⟩ | ⟨-, rfl⟩
  · rw [ht] at htt; cases htt
  · rw [hstop] at hsa
    have hs := fscStop_keeps_more ({ s1 with core := { s1.core with cur := v } } : St (Fn ℝ) τ ℝ)
    have hk := fscStop_keeps ({ s1 with core := { s1.core with cur := v } } : St (Fn ℝ) τ ℝ)
    have h2 := fscStop_tol0 ({ s1 with core := { s1.core with cur := v } } : St (Fn ℝ) τ ℝ) h0
    exact ⟨_, hsa, hk.1, hs.2.2.1, hs.1, hk.2.1, hk.2.2, h2, hs.2.2.2.trans h0, hs.2.1⟩

/-- a step of `NewtonOneDimension` (template's `step`) on a one-parameter state, tolerance 0, when the
correction loop ends on an accepted point -/
theorem newton_step_one (s : St (Fn ℝ) (Newton1 ℝ) ℝ) (x0 : ℝ) (log : List (List ℝ))
    (hp : s.core.params = oneP x0) (hf : s.fn = ⟨[x0], log⟩) (ht : s.core.tol = false) (h0 : s.core.tolerance = 0)
    (fn : Fn ℝ) (pl : PList ℝ) (v : ℝ)
    (hc : newtonCorrect (Fn.iface obj D none) s.core.cur x0 (oneP x0) s.ext.maxCorrection (s.ext.maxCorrection + 1) 0
          ⟨[x0 - newtonMove D s.ext.param x0], [x0 - newtonMove D s.ext.param x0] :: log⟩
          (oneP (x0 - newtonMove D s.ext.param x0)) (newtonMove D s.ext.param x0)
          (obj [x0 - newtonMove D s.ext.param x0]) = .ok (fn, some (pl, v))) :
    ∃ sa, (newtonAlgo (Fn.iface obj D none)).step s = .ok (sa, v) ∧ sa.fn = fn ∧ sa.ext = s.ext ∧ sa.core.params = pl ∧
      sa.core.nbEval = s.core.nbEval ∧ sa.core.nbEvalMax = s.core.nbEvalMax ∧ sa.core.tol = false ∧
      sa.core.tolerance = 0 ∧ sa.core.cur = v :=
  step_of_doStep_tol0 (newtonAlgo (Fn.iface obj D none)) rfl s _ v (newtonDoStep_one obj D s x0 log hp hf fn pl v hc) ht h0

end one

namespace Newton1dReal

noncomputable def objective (pt : List ℝ) : ℝ :=
  (pt.getD 0 0 * pt.getD 0 0 - 1) * (pt.getD 0 0 * pt.getD 0 0 - 1)

noncomputable def deriv : Deriv ℝ :=
  { d1 := fun _ pt => 4 * pt.getD 0 0 * (pt.getD 0 0 * pt.getD 0 0 - 1),
    d2 := fun _ pt => 12 * pt.getD 0 0 * pt.getD 0 0 - 4 }

noncomputable def start : St (Fn ℝ) (Newton1 ℝ) ℝ :=
  { core := freshCore 3 0 0, fn := ⟨[3 / 5], []⟩, ext := ⟨0, 10⟩ }

noncomputable def algo : Algo (Fn ℝ) (Newton1 ℝ) ℝ := newtonAlgo (Fn.iface objective deriv none)

theorem move1 : newtonMove deriv 0 (3 / 5) = -24 / 5 := by
  unfold newtonMove deriv; norm_num

theorem correct1 (log : List (List ℝ)) :
    newtonCorrect (Fn.iface objective deriv none) (objective [3 / 5]) (3 / 5) (oneP (3 / 5)) 10 (10 + 1) 0
      ⟨[3 / 5 - -24 / 5], [3 / 5 - -24 / 5] :: log⟩ (oneP (3 / 5 - -24 / 5)) (-24 / 5) (objective [3 / 5 - -24 / 5]) =
    .ok (⟨[6 / 5], [6 / 5] :: [3 / 5] :: [9 / 5] :: [3 / 5] :: [3] :: [3 / 5] :: [27 / 5] :: log⟩,
         some (oneP (6 / 5), objective [6 / 5])) := by
  rw [newtonCorrect_reject (h := by norm_num [objective]) (hc := by norm_num)]
  rw [show (3 / 5 - -24 / 5 / 2 : ℝ) = 3 by norm_num, show (-24 / 5 / 2 : ℝ) = -12 / 5 by norm_num,
    show (3 / 5 - -24 / 5 : ℝ) = 27 / 5 by norm_num]
  rw [newtonCorrect_reject (h := by norm_num [objective]) (hc := by norm_num)]
  rw [show (3 / 5 - -12 / 5 / 2 : ℝ) = 9 / 5 by norm_num, show (-12 / 5 / 2 : ℝ) = -6 / 5 by norm_num]
  rw [newtonCorrect_reject (h := by norm_num [objective]) (hc := by norm_num)]
  rw [show (3 / 5 - -6 / 5 / 2 : ℝ) = 6 / 5 by norm_num, show (-6 / 5 / 2 : ℝ) = -3 / 5 by norm_num]
  rw [newtonCorrect_accept (h := by norm_num [objective])]

theorem move2 : newtonMove deriv 0 (6 / 5) = 66 / 415 := by
  unfold newtonMove deriv; norm_num

theorem correct2 (fn : Fn ℝ) (np : PList ℝ) :
    newtonCorrect (Fn.iface objective deriv none) (objective [6 / 5]) (6 / 5) (oneP (6 / 5)) 10 (10 + 1) 0
      fn np (66 / 415) (objective [6 / 5 - 66 / 415]) = .ok (fn, some (np, objective [6 / 5 - 66 / 415])) := by
  rw [newtonCorrect_accept (h := by norm_num [objective])]

theorem init_run : ∃ s, algo.init start (oneP (3 / 5)) = .ok s ∧ s.core.params = oneP (3 / 5) ∧
    s.fn = ⟨[3 / 5], [[3 / 5]]⟩ ∧ s.core.cur = objective [3 / 5] ∧ s.core.nbEvalMax = 3 ∧ s.core.tolerance = 0 ∧
    s.core.initialized = true ∧ s.ext = ⟨0, 10⟩ := by
  simp [algo, Algo.init, newtonAlgo, newtonDoInit, start, freshCore, applyPolicy, oneP, Fn.iface, capped, Fn.f,
    Fn.setParameters, matchPoint, own, fscInit, Fn.value]

/-- the whole run: `init`, then `optimize` makes exactly two steps; when the second begins the counter shows
2 and the log has 7 entries more than when `optimize` began -/
theorem run : ∃ (s s1 sc : St (Fn ℝ) (Newton1 ℝ) ℝ) (w1 w2 : ℝ),
    algo.init start (oneP (3 / 5)) = .ok s ∧ s.core.nbEvalMax = 3 ∧ s.fn.log = [[3 / 5]] ∧
    algo.step { s with core := { s.core with tol := false, nbEval := 1 } } = .ok (s1, w1) ∧
    Guard (bump s1) ∧ (bump s1).core.nbEval = 2 ∧ (bump s1).core.nbEvalMax = 3 ∧
    (bump s1).fn.log = [[6 / 5], [3 / 5], [9 / 5], [3 / 5], [3], [3 / 5], [27 / 5], [3 / 5]] ∧
    algo.step (bump s1) = .ok (sc, w2) ∧ ¬ Guard (bump sc) ∧ (bump sc).core.nbEval = 3 ∧
    ∀ k, algo.optimize (k + 2) s = .ok (bump sc, (bump sc).core.cur) := by
  obtain ⟨s, hinit, hp, hf, hcur, hmax, htol0, hi, hext⟩ := init_run
  obtain ⟨s1, hst1, hfn1, hext1, hp1, hnb1, hmax1, htol1, htz1, hcur1⟩ :=
    newton_step_one objective deriv { s with core := { s.core with tol := false, nbEval := 1 } } (3 / 5) [[3 / 5]] hp hf rfl htol0
      _ _ _ (by
        dsimp only
        rw [hcur, hext]
        dsimp only
        rw [move1]
        exact correct1 _)
  have hnb1' : s1.core.nbEval = 1 := hnb1
  have hext1' : s1.ext = ⟨0, 10⟩ := hext1.trans hext
  have hmax1' : s1.core.nbEvalMax = 3 := hmax1.trans hmax
  have hg1 : Guard (bump s1) := by
    refine ⟨?_, htol1⟩
    show s1.core.nbEval + 1 < s1.core.nbEvalMax
    omega
  obtain ⟨sc, hst2, hfn2, hext2, hp2, hnb2, hmax2, htol2, htz2, hcur2⟩ :=
    newton_step_one objective deriv (bump s1) (6 / 5) _ hp1 hfn1 htol1 htz1
      _ _ _ (by
        dsimp only [bump]
        rw [hcur1, hext1']
        dsimp only
        rw [move2]
        exact correct2 _ _)
  have hnb2' : sc.core.nbEval = 2 := by rw [hnb2]; show s1.core.nbEval + 1 = 2; omega
  have hmax2' : sc.core.nbEvalMax = 3 := by rw [hmax2]; exact hmax1'
  have hg2 : ¬ Guard (bump sc) := by
    intro hg
    have : sc.core.nbEval + 1 < sc.core.nbEvalMax := hg.1
    omega
  have hg0 : Guard ({ s with core := { s.core with tol := false, nbEval := 1 } } : St (Fn ℝ) (Newton1 ℝ) ℝ) := by
    refine ⟨?_, rfl⟩
    show 1 < s.core.nbEvalMax
    omega
  refine ⟨s, s1, sc, _, _, hinit, hmax, by rw [hf], hst1, hg1, by show s1.core.nbEval + 1 = 2; omega, hmax1', ?_, hst2, hg2,
    by show sc.core.nbEval + 1 = 3; omega, fun k => optimize_two_steps algo s s1 sc _ _ hi hg0 hst1 hg1 hst2 hg2 k⟩
  show s1.fn.log = _
  rw [hfn1]

end Newton1dReal

end Bpp.Optim
